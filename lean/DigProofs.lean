-- root of the proof library: every property file (the driver does not import this)
import DigModel.Props.C02
import DigModel.Props.C03
import DigModel.Props.C05
import DigModel.Props.C07
import DigModel.Props.C13
import DigModel.Props.C17
import DigModel.Props.C20
