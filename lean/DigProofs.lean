-- root of the proof library: every property file (the driver does not import this)
import DigModel.Props.C01
import DigModel.Props.C02
import DigModel.Props.C03
import DigModel.Props.C04
import DigModel.Props.C05
import DigModel.Props.C06
import DigModel.Props.C07
import DigModel.Props.C10
import DigModel.Props.C11
import DigModel.Props.C12
import DigModel.Props.C13
import DigModel.Props.C14
import DigModel.Props.C17
import DigModel.Props.C20
