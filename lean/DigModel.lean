import DigModel.Syntax
import DigModel.Error
import DigModel.Reflect
import DigModel.State
import DigModel.Engine
import DigModel.Api
import DigModel.Json
