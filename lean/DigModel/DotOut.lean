import DigModel.Dot
import DigModel.DotRender
/-
  From the structure of the picture (`DGraph`, Dot.lean) to its text (`DotRender.lean`): the `String()` methods of
  `dot.Result`, `dot.Param` and `dot.Group` (internal/dot/graph.go), with the names of types and constructors — which
  package reflect and the runtime supply — as an input.
-/
namespace Dig
open Dig.DotRender

/-- what reflect and the runtime know and the model does not: `Type.String()` per type id, and (`Name`, `Package`) of
    each constructor of `createGraph`, in order -/
structure DotNames where
  types : List (Nat × String) := []
  ctors : List (String × String) := []
  deriving Repr, Inhabited

def DotNames.ty (n : DotNames) (t : Nat) : List Char :=
  match n.types.find? (·.1 == t) with
  | some (_, s) => s.toList
  | none => ("?" ++ toString t).toList

/-- `(*Result).String()` -/
def resStr (n : DotNames) (r : DResult) : List Char :=
  if r.name ≠ "" then n.ty r.ty ++ "[name=".toList ++ r.name.toList ++ "]".toList
  else if r.group ≠ "" then n.ty r.ty ++ "[group=".toList ++ r.group.toList ++ "]".toList ++ natDigits r.idx
  else n.ty r.ty

/-- `(*Param).String()` -/
def paramStr (n : DotNames) (p : DParam) : List Char :=
  if p.name ≠ "" then n.ty p.ty ++ "[name=".toList ++ p.name.toList ++ "]".toList else n.ty p.ty

/-- `(*Group).String()` -/
def groupStr (n : DotNames) (ty : Nat) (name : String) : List Char :=
  "[type=".toList ++ n.ty ty ++ " group=".toList ++ name.toList ++ "]".toList

def errNat : ErrT → Nat
  | .none => 0
  | .root => 1
  | .transitive => 2

def rResult (n : DotNames) (r : DResult) : RResult :=
  { str := resStr n r, ty := n.ty r.ty, name := r.name.toList, group := r.group.toList }

def rGroup (n : DotNames) (g : DGroup) : RGroup :=
  { str := groupStr n g.ty g.name, ty := n.ty g.ty, name := g.name.toList, err := errNat g.err,
    results := g.results.map (resStr n) }

def rCtor (n : DotNames) (g : DGraph) (i : Nat) (c : DCtor) : RCtor :=
  let nm := n.ctors.getD i ("", "")
  { pkg := nm.2.toList, name := nm.1.toList, err := errNat c.err,
    results := c.results.map (rResult n),
    params := c.params.map (fun p => { str := paramStr n p, optional := p.optional }),
    gparams := c.gparams.map (fun gi => let grp := g.groups.getD gi default; groupStr n grp.ty grp.name) }

def indexed {α : Type} : Nat → List α → List (Nat × α)
  | _, [] => []
  | i, x :: rest => (i, x) :: indexed (i + 1) rest

/-- the picture as `visualizeGraph` sees it: pruned entries are gone, constructors keep the names they were added with -/
def toRGraph (n : DotNames) (g : DGraph) : RGraph :=
  { groups := (g.groups.filter (·.alive)).map (rGroup n),
    ctors := ((indexed 0 g.ctors).filter (·.2.alive)).map (fun ic => rCtor n g ic.1 ic.2),
    transitive := g.transitive.map (resStr n),
    roots := g.rootCauses.map (resStr n) }

/-- the text `dig.Visualize` writes for the picture, for names made of printable ASCII -/
def dotText (n : DotNames) (g : DGraph) : String := String.ofList (render goQuote (toRGraph n g))

end Dig
