/-
  The text of DOT node attributes as `internal/dot/graph.go` composes it (`Result.Attributes`, `Group.Attributes`):
  HTML-like labels whose type, name and group texts are escaped with `html.EscapeString`.  Plain functions over
  `List Char`, so that the statements about them hold for every string.
-/
namespace Dig.DotText

/-- `html.EscapeString`, one character -/
def escChar : Char → List Char
  | '&' => "&amp;".toList
  | '\'' => "&#39;".toList
  | '<' => "&lt;".toList
  | '>' => "&gt;".toList
  | '"' => "&#34;".toList
  | c => [c]

/-- `html.EscapeString` -/
def esc (s : List Char) : List Char := s.flatMap escChar

def fontOpen : List Char := "<BR /><FONT POINT-SIZE=\"10\">".toList
def fontClose : List Char := "</FONT>".toList

/-- the inside of the label of a node that shows `t` and, in the small font, `second` (already prefixed `Name: ` / `Group: `) -/
def labelBody (t : List Char) (second : Option (List Char × List Char)) : List Char :=
  match second with
  | none => esc t
  | some (pfx, x) => esc t ++ fontOpen ++ pfx ++ esc x ++ fontClose

/-- `(*Result).Attributes` -/
def resultAttr (t name group : List Char) : List Char :=
  "label=<".toList ++
    (if name ≠ [] then labelBody t (some ("Name: ".toList, name))
     else if group ≠ [] then labelBody t (some ("Group: ".toList, group))
     else labelBody t none) ++ ">".toList

/-- `(*Group).Attributes`; `err` = 0 no error, 1 root cause, 2 transitive failure -/
def groupAttr (t name : List Char) (err : Nat) : List Char :=
  "shape=diamond label=<".toList ++ labelBody t (some ("Group: ".toList, name)) ++ ">".toList ++
    (match err with
     | 0 => []
     | 1 => " color=red".toList
     | _ => " color=orange".toList)

/-! ### how the DOT lexer reads an HTML string, and what an HTML label displays -/

/-- the DOT lexer inside an HTML string: `<` opens a level, `>` closes one, the string ends when the level opened by the
    initial `<` is closed.  `scan d acc l` = the lexer at depth `d ≥ 1` having read `acc`; answers the body and the rest -/
def scan : Nat → List Char → List Char → Option (List Char × List Char)
  | _, _, [] => none
  | d, acc, c :: rest =>
    if c = '<' then scan (d + 1) (acc ++ [c]) rest
    else if c = '>' then
      (match d with
       | 0 => none
       | 1 => some (acc, rest)
       | d + 2 => scan (d + 1) (acc ++ [c]) rest)
    else scan d (acc ++ [c]) rest

/-- undo `esc`: the five character references it produces -/
def unesc : List Char → List Char
  | [] => []
  | '&' :: 'a' :: 'm' :: 'p' :: ';' :: rest => '&' :: unesc rest
  | '&' :: '#' :: '3' :: '9' :: ';' :: rest => '\'' :: unesc rest
  | '&' :: 'l' :: 't' :: ';' :: rest => '<' :: unesc rest
  | '&' :: 'g' :: 't' :: ';' :: rest => '>' :: unesc rest
  | '&' :: '#' :: '3' :: '4' :: ';' :: rest => '"' :: unesc rest
  | c :: rest => c :: unesc rest

/-- every ampersand starts one of those references -/
def refsOK : List Char → Bool
  | [] => true
  | '&' :: 'a' :: 'm' :: 'p' :: ';' :: rest => refsOK rest
  | '&' :: '#' :: '3' :: '9' :: ';' :: rest => refsOK rest
  | '&' :: 'l' :: 't' :: ';' :: rest => refsOK rest
  | '&' :: 'g' :: 't' :: ';' :: rest => refsOK rest
  | '&' :: '#' :: '3' :: '4' :: ';' :: rest => refsOK rest
  | '&' :: _ => false
  | _ :: rest => refsOK rest

end Dig.DotText
