import DigModel.Api
/-
  Visualize (visualize.go, internal/dot/graph.go): createGraph / AddCtor,
  updateGraph with FailNodes / FailGroupNodes / AddMissingNodes, PruneSuccess,
  and the structure of the emitted DOT document.

  Pointers of the Go code become indexes: `ctorMap` maps a constructor ID to
  the index of a constructor in `ctors`, `groupMap` a key to an index in `groups`;
  pruning marks entries dead instead of rebuilding slices.
-/
namespace Dig

inductive ErrT where
  | none | root | transitive
  deriving Repr, DecidableEq, Inhabited

structure DResult where
  ty    : Nat
  name  : String
  group : String
  idx   : Nat := 0
  deriving Repr, DecidableEq, Inhabited

structure DParam where
  ty       : Nat
  name     : String
  group    : String
  optional : Bool
  deriving Repr, DecidableEq, Inhabited

structure DGroup where
  ty      : Nat
  name    : String
  results : List DResult := []
  err     : ErrT := .none
  alive   : Bool := true
  deriving Repr, Inhabited

structure DCtor where
  id      : Nat
  params  : List DParam := []
  /-- indexes into `groups` -/
  gparams : List Nat := []
  results : List DResult := []
  err     : ErrT := .none
  alive   : Bool := true
  deriving Repr, Inhabited

structure DGraph where
  ctors        : List DCtor := []
  ctorMap      : List (Nat × Nat) := []
  groups       : List DGroup := []
  /-- (type, group name) → index; an entry is removed when the group is pruned -/
  groupMap     : List ((Nat × String) × Nat) := []
  /-- node key → consumer constructor indexes -/
  consumers    : List ((Nat × String × String) × List Nat) := []
  rootCauses   : List DResult := []
  transitive   : List DResult := []
  failedCtors  : List Nat := []
  failedGroups : List (Nat × String) := []
  deriving Repr, Inhabited

def lookupNat (m : List (Nat × Nat)) (k : Nat) : Option Nat :=
  match m.find? (·.1 == k) with | some (_, v) => some v | none => none

def setNat (m : List (Nat × Nat)) (k v : Nat) : List (Nat × Nat) :=
  if m.any (·.1 == k) then m.map fun (a, b) => if a == k then (a, v) else (a, b) else m ++ [(k, v)]

def DGraph.groupIdx (g : DGraph) (k : Nat × String) : Option Nat :=
  match g.groupMap.find? (·.1 == k) with | some (_, v) => some v | none => none

/-- `getGroup` -/
def DGraph.getGroup (g : DGraph) (k : Nat × String) : DGraph × Nat :=
  match g.groupIdx k with
  | some i => (g, i)
  | none =>
    let i := g.groups.length
    ({ g with groups := g.groups ++ [{ ty := k.1, name := k.2 }], groupMap := g.groupMap ++ [(k, i)] }, i)

/-- the parameter loop of `AddCtor`: single parameters are kept, group parameters resolve (and create) their group -/
def DGraph.addParams (env : TyEnv) : DGraph → List (Nat × String × String × Bool) → DGraph × List DParam × List Nat
  | g, [] => (g, [], [])
  | g, (ty, name, group, opt) :: rest =>
    if group == "" then
      match DGraph.addParams env g rest with
      | (g', ps, gps) => (g', { ty := ty, name := name, group := group, optional := opt } :: ps, gps)
    else
      match g.getGroup ((elemOfId env ty).getD 0, group) with
      | (g1, i) =>
        match DGraph.addParams env g1 rest with
        | (g', ps, gps) => (g', ps, i :: gps)

/-- the result loop of `AddCtor`: grouped results join their group and get an index -/
def DGraph.addResults : DGraph → List (Nat × String × String) → DGraph × List DResult
  | g, [] => (g, [])
  | g, (ty, name, group) :: rest =>
    if group == "" then
      match DGraph.addResults g rest with
      | (g', rs) => (g', { ty := ty, name := name, group := group } :: rs)
    else
      match g.getGroup (ty, group) with
      | (g1, i) =>
        let grp := g1.groups.getD i default
        let res : DResult := { ty := ty, name := name, group := group, idx := grp.results.length }
        match DGraph.addResults { g1 with groups := g1.groups.modify i fun x => { x with results := x.results ++ [res] } } rest with
        | (g', rs) => (g', res :: rs)

/-- `AddCtor` -/
def DGraph.addCtor (env : TyEnv) (g : DGraph) (id : Nat) (ps : List (Nat × String × String × Bool))
    (rs : List (Nat × String × String)) : DGraph :=
  match DGraph.addParams env g ps with
  | (g1, params, gparams) =>
    match DGraph.addResults g1 rs with
    | (g2, results) =>
      let ci := g2.ctors.length
      let consumers := ps.foldl (fun m p =>
          let k := (p.1, p.2.1, p.2.2.1)
          if m.any (·.1 == k) then m.map fun (a, l) => if a == k then (a, l ++ [ci]) else (a, l) else m ++ [(k, [ci])]) g2.consumers
      { g2 with ctors := g2.ctors ++ [{ id := id, params := params, gparams := gparams, results := results }],
                ctorMap := setNat g2.ctorMap id ci, consumers := consumers }

/-- `Scope.addNodes`: the accepted constructors of the scope, then of its children -/
def addNodesAux (env : TyEnv) (sameIds : Bool) (st : St) : Nat → Nat → DGraph → DGraph
  | 0, _, g => g
  | fuel + 1, s, g =>
    let sc := st.scope s
    let g := sc.nodes.foldl (fun g n =>
      let node := st.ctor n
      g.addCtor env (ctorId sameIds node.fn) (dotParams node.params) (dotSlots node.results)) g
    sc.children.foldl (fun g c => addNodesAux env sameIds st fuel c g) g

def createGraph (env : TyEnv) (sameIds : Bool) (st : St) : DGraph :=
  addNodesAux env sameIds st st.scopes.length 0 {}

def DGraph.failNode (g : DGraph) (r : DResult) (isRoot : Bool) : DGraph :=
  if isRoot then { g with rootCauses := g.rootCauses ++ [r] } else { g with transitive := g.transitive ++ [r] }

def DGraph.setCtorErr (g : DGraph) (id : Nat) (isRoot : Bool) : DGraph :=
  match lookupNat g.ctorMap id with
  | some ci => { g with ctors := g.ctors.modify ci fun c => { c with err := if isRoot then .root else .transitive } }
  | none => g

/-- one `errVisualizer.updateGraph` -/
def DGraph.applyErr (sameIds : Bool) (st : St) (g : DGraph) : DErr → DGraph
  | .missingTypes ks =>
    let isRoot := g.rootCauses.isEmpty
    ks.foldl (fun g k => g.failNode { ty := k.ty, name := k.name, group := k.group } isRoot) g
  | .paramSingle k cid _ =>
    let isRoot := g.rootCauses.isEmpty
    let g := { g with failedCtors := g.failedCtors ++ [cid] }
    let g := g.failNode { ty := k.ty, name := k.name, group := k.group } isRoot
    g.setCtorErr cid isRoot
  | .paramGroup k cid _ =>
    let isRoot := g.rootCauses.isEmpty
    let (g, gi) := g.getGroup (k.ty, k.group)
    match lookupNat g.ctorMap cid with
    | none => g
    | some ci =>
      let g := { g with failedCtors := g.failedCtors ++ [cid], failedGroups := g.failedGroups ++ [(k.ty, k.group)] }
      let c := g.ctors.getD ci default
      let g := c.results.foldl (fun g r => if r.ty == k.ty && r.group == k.group then g.failNode r isRoot else g) g
      let e : ErrT := if isRoot then .root else .transitive
      { g with groups := g.groups.modify gi (fun x => { x with err := e }),
               ctors := g.ctors.modify ci (fun x => { x with err := e }) }
  | _ => g

/-- `PruneSuccess` -/
def DGraph.prune (g : DGraph) : DGraph :=
  -- pruneCtors
  let g := (List.range g.ctors.length).foldl (fun g ci =>
    let c := g.ctors.getD ci default
    if g.failedCtors.contains c.id then g
    else
      -- pruneCtorParams: consumers of this constructor's results lose those parameters
      let g := c.results.foldl (fun g r =>
        let k := (r.ty, r.name, r.group)
        let cons := match g.consumers.find? (·.1 == k) with | some (_, l) => l | none => []
        cons.foldl (fun g cj => { g with ctors := g.ctors.modify cj fun x =>
          { x with params := x.params.filter fun p => !(p.ty == r.ty && p.name == r.name && p.group == r.group) } }) g) g
      -- pruneGroupResults
      let g := c.results.foldl (fun g r =>
        if r.group == "" then g
        else match g.groupIdx (r.ty, r.group) with
          | some gi => { g with groups := g.groups.modify gi fun x => { x with results := x.results.filter fun y => y.idx != r.idx } }
          | none => g) g
      { g with ctors := g.ctors.modify ci (fun x => { x with alive := false }),
               ctorMap := g.ctorMap.filter (·.1 != c.id) }) g
  -- pruneGroups
  let g := (List.range g.groups.length).foldl (fun g gi =>
    let grp := g.groups.getD gi default
    if g.failedGroups.contains (grp.ty, grp.name) then g
    else { g with groups := g.groups.modify gi (fun x => { x with alive := false }),
                  groupMap := g.groupMap.filter (fun e => e.1 != (grp.ty, grp.name)) }) g
  -- pruneCtorGroupParams
  { g with ctors := g.ctors.map fun c =>
      { c with gparams := c.gparams.filter fun gi =>
          let grp := g.groups.getD gi default
          (g.groupIdx (grp.ty, grp.name)).isSome } }

/-- `updateGraph`: the visualizable errors of the chain, innermost first, then pruning -/
def DGraph.update (sameIds : Bool) (st : St) (g : DGraph) (e : DErr) : DGraph :=
  let vs := e.chain.filter DErr.isVisualizer
  if vs.isEmpty then g
  else (vs.reverse.foldl (fun g x => g.applyErr sameIds st x) g).prune

/-- `Visualize(c, w, VisualizeError(err)?)` as a structure -/
def visualize (env : TyEnv) (sameIds : Bool) (st : St) (err : Option DErr) : DGraph :=
  let g := createGraph env sameIds st
  match err with
  | some e => g.update sameIds st e
  | none => g


def verdictErr : Verdict → Option DErr
  | .err e => some e
  | _ => none

def isOkVerdict : Verdict → Bool
  | .ok => true
  | _ => false

/-- the history fold, with the picture attached to Visualize operations -/
def runOpsV (ctx : Ctx) (fns : List Fn) : List Op → Nat → St → List (OpRes × Option DGraph) → St × List (OpRes × Option DGraph)
  | [], _, st, acc => (st, acc.reverse)
  | op :: rest, i, st, acc =>
    match step ctx fns st i op with
    | (st', r) =>
      let d : Option DGraph := match op with
        | .visualize _ errOf =>
          if isOkVerdict r.v then
            some (visualize ctx.env ctx.sameIds st'
              (errOf.bind fun j => verdictErr ((acc.reverse.getD j default).1.v)))
          else none
        | _ => none
      runOpsV ctx fns rest (i + 1) st' ((r, d) :: acc)

def runProgramV (p : Program) : St × List (OpRes × Option DGraph) :=
  runOpsV p.ctx p.fns p.ops 0 {} []

end Dig
