import DigModel.State
/-
  The resolver (param.go, constructor.go, decorate.go, result.go, invoke.go):
  paramSingle.Build, paramGroupedSlice.Build, paramObject.Build, BuildList,
  constructorNode.Call, decoratorNode.Call, shallowCheckDependencies,
  ExtractList.  Structural recursion on a fuel argument.

  The model describes the tree with the repairs F4, F5, F8/F9, F13 applied.
-/
namespace Dig

structure Ctx where
  cfg     : Cfg
  env     : TyEnv
  script  : List (Nat × List Beh)
  /-- all functions share one code pointer (reflect.MakeFunc) -/
  sameIds : Bool := true
  /-- functions with a result of a *value* type that implements `error` (a struct with a value-receiver `Error`
      method): such a result is never a nil interface, so every execution that returns at all returns a non-nil
      error.  Per function: the index (among its error results) of the one dig reports, and whether that is the
      last declared result (the only one `Invoke` looks at).  Computed from the signatures by `Program.ctx`. -/
  forced  : List (Nat × Nat × Bool) := []
  deriving Repr, Inhabited

/-- constructor ID (`dot.CtorID`): a code pointer.  Functions made by reflect.MakeFunc all share one. -/
def ctorId (sameIds : Bool) (fn : Fn) : Nat := if sameIds then 1000 else 1000 + fn.id

/-- what the script says about execution `x` of `f` -/
def Ctx.scripted (ctx : Ctx) (f x : Nat) : Beh :=
  match ctx.script.find? (·.1 == f) with
  | some (_, l) => l.getD x {}
  | none => {}

/-- how execution `x` of `f` behaves: as scripted, except that a function with a value-typed error result fails
    whenever it returns (a scripted error in another position stays where it is unless the value-typed one is the
    last result: every constructor and decorator call fails either way, and `Invoke` looks at the last result only) -/
def Ctx.beh (ctx : Ctx) (f x : Nat) : Beh :=
  let b := ctx.scripted f x
  match ctx.forced.find? (·.1 == f) with
  | none => b
  | some (_, idx, isLast) =>
    if b.k == .panic then b
    else if b.k == .err && !isLast then b
    else { b with k := .err, eslot := idx }

/-- ways an engine step can end without a value -/
inductive Fail where
  /-- an `error` is returned -/
  | err (e : DErr)
  /-- the tagged panic of execution `x` of `f` is propagating -/
  | panic (f x : Nat)
  /-- a state the Go code cannot handle (it would panic inside dig) -/
  | bug
  | fuel
  deriving Repr, Inhabited

/-- state + failure, the state survives a failure -/
abbrev EM (α : Type) := St → Except Fail α × St

namespace EM
@[inline] def pure (a : α) : EM α := fun s => (.ok a, s)
@[inline] def bind (m : EM α) (f : α → EM β) : EM β := fun s =>
  match m s with
  | (.ok a, s') => f a s'
  | (.error e, s') => (.error e, s')
@[inline] def fail (e : Fail) : EM α := fun s => (.error e, s)
@[inline] def get : EM St := fun s => (.ok s, s)
@[inline] def modify (f : St → St) : EM Unit := fun s => (.ok (), f s)
/-- run `m`; if it returns an `error`, rewrap it with `w` (panics etc. pass through) -/
@[inline] def wrapErr (m : EM α) (w : DErr → DErr) : EM α := fun s =>
  match m s with
  | (.error (.err e), s') => (.error (.err (w e)), s')
  | r => r
/-- `defer`: run `m`, then `fin` whatever the outcome -/
@[inline] def finally_ (m : EM α) (fin : St → St) : EM α := fun s =>
  match m s with
  | (r, s') => (r, fin s')
instance : Monad EM where
  pure := EM.pure
  bind := EM.bind
end EM

/-! ### values produced by user functions (PROTOCOL §2.3) -/

def zeroVal (env : TyEnv) (ty : Nat) : Val :=
  if kindOfId env ty == .slice then .sl [] else .zero ty

def mkAtom (env : TyEnv) (f x slot i ty : Nat) : Val :=
  if ty == tIn || ty == tOut || ty == tInPtr || ty == tOutPtr then .zero ty
  else match kindOfId env ty with
    | .ptr => .tok f x slot i
    | .iface => .tok f x slot i
    | .struct => .tok f x slot i
    | .slice => .sl []
    | .other => if ty == tInt then .int (f * 1000000 + x * 10000 + slot * 100) else .zero ty

/-- PROTOCOL §2.3: a `len` of `1000 + n` makes the execution return zero values — nil pointers, nil interfaces, zero
    structs — and slices of `n` zero elements -/
def nilLen : Nat := 1000

def mkVal (env : TyEnv) (f x slot len ty : Nat) : Val :=
  if len ≥ nilLen then
    match kindOfId env ty with
    | .slice => .sl ((List.range (len - nilLen)).map fun _ => zeroVal env ((elemOfId env ty).getD 0))
    | _ => zeroVal env ty
  else
  match kindOfId env ty with
  | .slice =>
    let e := (elemOfId env ty).getD 0
    .sl ((List.range len).map fun i =>
      if kindOfId env e == .slice then .sl [mkAtom env f x slot i ((elemOfId env e).getD 0)]
      else mkAtom env f x slot i e)
  | _ => mkAtom env f x slot 0 ty

/-- what a function execution hands back to dig -/
structure Ret where
  dry : Bool
  f   : Nat
  x   : Nat
  len : Nat

def Ret.val (env : TyEnv) (r : Ret) (slot decl : Nat) : Val :=
  if r.dry then zeroVal env decl else mkVal env r.f r.x slot r.len decl

/-! ### ExtractList -/

def elemsOf : Val → List Val
  | .sl xs => xs
  | _ => []

def submitAll (groups : List (Key × List Val)) (k : Key) (vs : List Val) : List (Key × List Val) :=
  aset groups k (agetL groups k ++ vs)

mutual
/-- `result.Extract(cw, false, v)` into scope `s` -/
def extractResult (env : TyEnv) (r : Ret) (sc : ScopeSt) : Result → ScopeSt
  | .single slot decl ty name as =>
    let v := r.val env slot decl
    let vals := (ty :: as).foldl (fun m t => aset m { ty := t, name := name, group := "" } v) sc.values
    { sc with values := vals }
  | .grouped slot decl ty group flatten as =>
    let v := r.val env slot decl
    if flatten then
      { sc with groups := submitAll sc.groups { ty := ty, name := "", group := group } (elemsOf v) }
    else
      { sc with groups := (ty :: as).foldl (fun m t => submitAll m { ty := t, name := "", group := group } [v]) sc.groups }
  | .object _ fs => extractResults env r sc fs
def extractResults (env : TyEnv) (r : Ret) (sc : ScopeSt) : List Result → ScopeSt
  | [] => sc
  | x :: xs => extractResults env r (extractResult env r sc x) xs
end

mutual
/-- `result.Extract(cw, true, v)`: decorated values; a decorated group is stored under
    the element type of the slice (repair of F13) -/
def extractDeco (env : TyEnv) (r : Ret) (sc : ScopeSt) : Result → ScopeSt
  | .single slot decl ty name _ =>
    { sc with decoratedValues := aset sc.decoratedValues { ty := ty, name := name, group := "" } (r.val env slot decl) }
  | .grouped slot decl ty group _ _ =>
    let k : Key := { ty := (elemOfId env ty).getD 0, name := "", group := group }
    { sc with decoratedGroups := aset sc.decoratedGroups k (r.val env slot decl) }
  | .object _ fs => extractDecos env r sc fs
def extractDecos (env : TyEnv) (r : Ret) (sc : ScopeSt) : List Result → ScopeSt
  | [] => sc
  | x :: xs => extractDecos env r (extractDeco env r sc x) xs
end

def extractSlots (env : TyEnv) (deco : Bool) (r : Ret) (sc : ScopeSt) : List RSlot → ScopeSt
  | [] => sc
  | .err :: rest => extractSlots env deco r sc rest
  | .val x :: rest =>
    extractSlots env deco r (if deco then extractDeco env r sc x else extractResult env r sc x) rest

/-! ### running a user function -/

inductive BodyRes where
  | dry
  | ok (x : Nat) (len : Nat)
  /-- a non-nil error in declared result position `out` -/
  | err (x : Nat) (out : Nat)
  | panic (x : Nat)
  deriving Repr

/-- positions of the declared results whose type implements `error` -/
def errOuts (env : TyEnv) (fn : Fn) : List Nat :=
  (List.range fn.outs.length).filter fun i => isErrorT env (fn.outs.getD i (.univ 0))

/-- `c.invoker()(fn, args)` with the scripted body of PROTOCOL §2.3 -/
def callBody (ctx : Ctx) (who : Who) (fn : Fn) (args : List Val) : St → BodyRes × St := fun st =>
  if ctx.cfg.dry then (.dry, st)
  else
    let x := st.execCount fn.id
    let b := ctx.beh fn.id x
    let st := (st.bumpExec fn.id).emit (.enter who fn.id x args)
    let st := { st with clock := st.clock + b.dt }
    let eo := errOuts ctx.env fn
    match b.k with
    | .panic => (.panic x, st.emit (.exit who fn.id x .panic))
    | .err =>
      if eo.isEmpty then (.ok x b.len, st.emit (.exit who fn.id x .ok))
      else (.err x (eo.getD (b.eslot % eo.length) 0), st.emit (.exit who fn.id x .err))
    | .ok => (.ok x b.len, st.emit (.exit who fn.id x .ok))

/-! ### shallowCheckDependencies -/

mutual
def missingOf (st : St) (c : Nat) : Param → List Key
  | .single k opt =>
    if (st.allProviders c k).isEmpty && (aget (st.scope c).decoratedValues k).isNone && !opt then [k] else []
  | .grouped _ _ _ _ => []
  | .object _ fs => missingOfList st c fs
def missingOfList (st : St) (c : Nat) : List Param → List Key
  | [] => []
  | p :: ps => missingOf st c p ++ missingOfList st c ps
end

/-- `shallowCheckDependencies` wrapped the way both `Call`s and `Invoke` wrap it -/
def shallowCheck (c : Nat) (ps : List Param) : EM Unit := fun st =>
  match missingOfList st c ps with
  | [] => (.ok (), st)
  | ks => (.error (.err (.missingDeps (.missingTypes ks))), st)

/-! ### look-ups along the path to the root -/

/-- first scope of `anc` that has a decorator for `k` which is not on the stack -/
def findDeco (st : St) (k : Key) : List Nat → Option (Nat × Nat)
  | [] => none
  | s :: rest =>
    match aget (st.scope s).decorators k with
    | some d => if (st.deco d).state == .onStack then findDeco st k rest else some (d, s)
    | none => findDeco st k rest

def findDecoratedValue (st : St) (k : Key) : List Nat → Option Val
  | [] => none
  | s :: rest =>
    match aget (st.scope s).decoratedValues k with
    | some v => some v
    | none => findDecoratedValue st k rest

def findDecoratedGroup (st : St) (k : Key) : List Nat → Option Val
  | [] => none
  | s :: rest =>
    match aget (st.scope s).decoratedGroups k with
    | some v => some v
    | none => findDecoratedGroup st k rest

inductive ProvLookup where
  | value (v : Val)
  | providers (s : Nat) (ns : List Nat)
  | none

/-- the loop of `paramSingle.Build`: a cached value wins over providers at each level -/
def findProviders (st : St) (k : Key) : List Nat → ProvLookup
  | [] => .none
  | s :: rest =>
    match aget (st.scope s).values k with
    | some v => .value v
    | none =>
      match agetL (st.scope s).providers k with
      | [] => findProviders st k rest
      | ns => .providers s ns

/-- put the values of the non-soft and the soft fields back into declaration order -/
def interleave : List Param → List Val → List Val → List Val
  | [], _, _ => []
  | .grouped _ _ true _ :: ps, hard, v :: soft => v :: interleave ps hard soft
  | .grouped _ _ true _ :: ps, hard, [] => interleave ps hard []
  | _ :: ps, v :: hard, soft => v :: interleave ps hard soft
  | _ :: ps, [], soft => interleave ps [] soft

def isSoft : Param → Bool
  | .grouped _ _ true _ => true
  | _ => false

/-- sequential loop with early exit on failure -/
def forEachM {α : Type} (xs : List α) (f : α → EM Unit) : EM Unit :=
  match xs with
  | [] => EM.pure ()
  | x :: rest => EM.bind (f x) fun _ => forEachM rest f

/-- loop that can stop with a value (`return reflect.Zero(...)` inside the provider loop) -/
def firstM {α β : Type} (xs : List α) (f : α → EM (Option β)) : EM (Option β) :=
  match xs with
  | [] => EM.pure none
  | x :: rest => EM.bind (f x) fun r => match r with
    | some b => EM.pure (some b)
    | none => firstM rest f

def mapM' {α β : Type} (xs : List α) (f : α → EM β) : EM (List β) :=
  match xs with
  | [] => EM.pure []
  | x :: rest => EM.bind (f x) fun b => EM.bind (mapM' rest f) fun bs => EM.pure (b :: bs)

def runCallback (cb : Option Nat) (who : Who) (fn : Nat) (start : Nat) (err : Option DErr) : St → St := fun st =>
  match cb with
  | some op => st.emit (.cb op who fn err (st.clock - start))
  | none => st

/-- `ExtractList` into a staging writer, `Commit(n.s)`, `called = true` — only when the call returned normally -/
def ctorCommit (ctx : Ctx) (n : Nat) (node : CtorNode) (r : BodyRes) (st : St) : St :=
  let commit (ret : Ret) : St :=
    let st := st.modScope node.s fun sc => extractSlots ctx.env false ret sc node.results
    st.modCtor n fun y => { y with called := true }
  match r with
  | .ok x len => commit { dry := false, f := node.fn.id, x := x, len := len }
  | .dry => commit { dry := true, f := 0, x := 0, len := 0 }
  | _ => st

/-- what `constructorNode.Call` returns, and the error its deferred callback sees
    (the `recover` defer runs before the callback defer) -/
def ctorOutcome (ctx : Ctx) (f : Nat) (r : BodyRes) : Except Fail Unit × Option DErr :=
  match r with
  | .panic x =>
    if ctx.cfg.recover then (.error (.err (.panicErr f x)), some (.panicErr f x))
    else (.error (.panic f x), none)
  | .err x _ => (.error (.err (.ctorFailed (.user f x))), some (.ctorFailed (.user f x)))
  | .ok _ _ => (.ok (), none)
  | .dry => (.ok (), none)

/-- `constructorNode.Call` after the arguments have been built: the callback's start time,
    the call, extraction and commit, the deferred callback -/
def ctorTail (ctx : Ctx) (n : Nat) (node : CtorNode) (args : List Val) : EM Unit := fun st =>
  let rb := callBody ctx (.ctor n) node.fn args st
  let out := ctorOutcome ctx node.fn.id rb.1
  (out.1, runCallback node.cb (.ctor n) node.fn.id st.clock out.2 (ctorCommit ctx n node rb.1 rb.2))

/-- `ExtractList(n.s, decorated)`, `state = decoratorCalled` -/
def decoCommit (ctx : Ctx) (d : Nat) (node : DecoNode) (r : BodyRes) (st : St) : St :=
  let commit (ret : Ret) : St :=
    let st := st.modScope node.s fun sc => extractSlots ctx.env true ret sc node.results
    st.modDeco d fun y => { y with state := .called }
  match r with
  | .ok x len => commit { dry := false, f := node.fn.id, x := x, len := len }
  | .dry => commit { dry := true, f := 0, x := 0, len := 0 }
  | _ => st

/-- a decorator's own error is returned as it is (no errConstructorFailed wrapper) -/
def decoOutcome (ctx : Ctx) (f : Nat) (r : BodyRes) : Except Fail Unit × Option DErr :=
  match r with
  | .panic x =>
    if ctx.cfg.recover then (.error (.err (.panicErr f x)), some (.panicErr f x))
    else (.error (.panic f x), none)
  | .err x _ => (.error (.err (.user f x)), some (.user f x))
  | .ok _ _ => (.ok (), none)
  | .dry => (.ok (), none)

/-- `decoratorNode.Call` after the arguments have been built -/
def decoTail (ctx : Ctx) (d : Nat) (node : DecoNode) (args : List Val) : EM Unit := fun st =>
  let rb := callBody ctx (.deco d) node.fn args st
  let out := decoOutcome ctx node.fn.id rb.1
  (out.1, runCallback node.cb (.deco d) node.fn.id st.clock out.2 (decoCommit ctx d node rb.1 rb.2))

/-- the provider loop of `paramSingle.Build`: an optional parameter absorbs
    `errMissingDependencies` found anywhere in the chain -/
def providerStep (env : TyEnv) (k : Key) (opt : Bool) (cid : Nat) (r : Except Fail Unit × St) : Except Fail (Option Val) × St :=
  match r with
  | (.ok (), st2) => (.ok none, st2)
  | (.error (.err e), st2) =>
    if e.hasMissingDeps && opt then (.ok (some (zeroVal env k.ty)), st2)
    else (.error (.err (.paramSingle k cid e)), st2)
  | (.error f, st2) => (.error f, st2)

mutual

/-- `constructorNode.Call(c)` -/
def callCtor (ctx : Ctx) : Nat → Nat → Nat → EM Unit
  | 0, _, _ => EM.fail .fuel
  | fuel + 1, n, c => fun st =>
    let node := st.ctor n
    if node.called then (.ok (), st)
    else if node.onStack then
      -- the constructor is needed to build its own arguments (repair of F8/F9)
      (.error (.err (.cycle [n] node.s)), st)
    else
      EM.finally_
        (EM.bind (shallowCheck c node.params) fun _ =>
         EM.bind (EM.wrapErr (buildList ctx fuel node.params c) .argsFailed) fun args =>
         ctorTail ctx n node args)
        (fun st => st.modCtor n fun x => { x with onStack := false })
        (st.modCtor n fun x => { x with onStack := true })

/-- `decoratorNode.Call(s)` -/
def callDeco (ctx : Ctx) : Nat → Nat → Nat → EM Unit
  | 0, _, _ => EM.fail .fuel
  | fuel + 1, d, s => fun st =>
    let node := st.deco d
    if node.state == .called then (.ok (), st)
    else
      EM.finally_
        (EM.bind (shallowCheck s node.params) fun _ =>
         EM.bind (EM.wrapErr (buildList ctx fuel node.params node.s) .argsFailed) fun args =>
         decoTail ctx d node args)
        -- a decorator that did not run to completion is tried again (repair of F4)
        (fun st => st.modDeco d fun x => if x.state == .called then x else { x with state := .ready })
        (st.modDeco d fun x => { x with state := .onStack })

/-- `paramSingle.Build(c)` -/
def buildSingle (ctx : Ctx) : Nat → Key → Bool → Nat → EM Val
  | 0, _, _, _ => EM.fail .fuel
  | fuel + 1, k, opt, c => fun st =>
    let anc := st.ancestors c
    match findDeco st k anc with
    | some (d, ds) =>
      EM.bind (EM.wrapErr (callDeco ctx fuel d ds) (.paramSingle k 1)) (fun _ => fun st' =>
        match aget (st'.scope ds).decoratedValues k with
        | some v => (.ok v, st')
        | none => (.error .bug, st')) st
    | none =>
      match findDecoratedValue st k anc with
      | some v => (.ok v, st)
      | none =>
        match findProviders st k anc with
        | .value v => (.ok v, st)
        | .none =>
          if opt then (.ok (zeroVal ctx.env k.ty), st)
          else (.error (.err (.missingTypes [k])), st)
        | .providers pc ns =>
          EM.bind (firstM ns fun n => fun st1 =>
              providerStep ctx.env k opt (ctorId ctx.sameIds (st1.ctor n).fn) (callCtor ctx fuel n (st1.ctor n).origS st1)) (fun early => fun st' =>
            match early with
            | some z => (.ok z, st')
            | none =>
              match aget (st'.scope pc).values k with
              | some v => (.ok v, st')
              | none => (.error .bug, st')) st

/-- `paramGroupedSlice.Build(c)` -/
def buildGroup (ctx : Ctx) : Nat → Key → Bool → Nat → EM Val
  | 0, _, _, _ => EM.fail .fuel
  | fuel + 1, k, soft, c => fun st =>
    let anc := st.ancestors c
    EM.bind
      -- callGroupDecorators: from the root down to c
      (forEachM anc.reverse fun s => fun st1 =>
        match aget (st1.scope s).decorators k with
        | some d =>
          if (st1.deco d).state == DecoState.onStack then (.ok (), st1)
          else EM.wrapErr (callDeco ctx fuel d s) (.paramGroup k (ctorId ctx.sameIds (st1.deco d).fn)) st1
        | none => (.ok (), st1))
      (fun _ => fun st2 =>
        match findDecoratedGroup st2 k anc with
        | some v => (.ok v, st2)
        | none =>
          EM.bind
            -- callGroupProviders
            (if soft then EM.pure () else
              forEachM anc fun s => fun st3 =>
                forEachM (agetL (st3.scope s).providers k)
                  (fun n => fun st4 => EM.wrapErr (callCtor ctx fuel n (st4.ctor n).origS) (.paramGroup k (ctorId ctx.sameIds (st4.ctor n).fn)) st4) st3)
            (fun _ => fun st5 => (.ok (Val.sl (anc.flatMap fun s => agetL (st5.scope s).groups k)), st5)) st2) st

/-- `param.Build(c)` -/
def buildParam (ctx : Ctx) : Nat → Param → Nat → EM Val
  | 0, _, _ => EM.fail .fuel
  | fuel + 1, p, c =>
    match p with
    | .single k opt => buildSingle ctx fuel k opt c
    | .grouped _ k soft _ => buildGroup ctx fuel k soft c
    | .object _ fs =>
      -- paramObject.Build: soft groups are built after all other fields
      EM.bind (mapM' (fs.filter (fun f => !isSoft f)) fun f => buildParam ctx fuel f c) fun hard =>
      EM.bind (mapM' (fs.filter isSoft) fun f => buildParam ctx fuel f c) fun soft =>
      EM.pure (.obj (interleave fs hard soft))

/-- `paramList.BuildList(c)` -/
def buildList (ctx : Ctx) : Nat → List Param → Nat → EM (List Val)
  | 0, _, _ => EM.fail .fuel
  | fuel + 1, ps, c => mapM' ps fun p => buildParam ctx fuel p c

end

end Dig
