import DigModel.DotText
import DigModel.DotOut
import Lean.Data.Json
import DigModel.Api
import DigModel.Dot
/-
  JSON decoding of programs and encoding of traces (PROTOCOL.md).
-/
namespace Dig
open Lean

abbrev R := Except String

def jfield (j : Json) (k : String) : R Json := j.getObjVal? k
def jnat (j : Json) (k : String) : R Nat := do (← jfield j k).getNat?
def jint (j : Json) (k : String) : R Int := do (← jfield j k).getInt?
def jstr (j : Json) (k : String) : R String := do (← jfield j k).getStr?
def jbool (j : Json) (k : String) : R Bool := do (← jfield j k).getBool?
def jarr (j : Json) (k : String) : R (Array Json) := do (← jfield j k).getArr?
def jnatD (j : Json) (k : String) (d : Nat) : Nat := match jnat j k with | .ok n => n | .error _ => d
def jboolD (j : Json) (k : String) (d : Bool) : Bool := match jbool j k with | .ok n => n | .error _ => d
def jstrD (j : Json) (k : String) (d : String) : String := match jstr j k with | .ok n => n | .error _ => d
def jhas (j : Json) (k : String) : Bool := match jfield j k with | .ok _ => true | .error _ => false

def decKind (s : String) : Kind :=
  if s == "ptr" then .ptr else if s == "iface" then .iface else if s == "slice" then .slice
  else if s == "struct" then .struct else .other

def decTypeInfo (j : Json) : R TypeInfo := do
  let id ← jnat j "id"
  let kind := decKind (← jstr j "kind")
  let e ← jint j "elem"
  let impl ← (← jarr j "impl").toList.mapM (·.getNat?)
  let isErr ← jbool j "isErr"
  pure { id, kind, elem := if e < 0 then none else some e.toNat, impl, isErr }

def decTags (j : Json) : Tags :=
  { name := jstrD j "name" "", optional := jstrD j "optional" "", group := jstrD j "group" "",
    ignore := jstrD j "ignore-unexported" "" }

partial def decGoT (j : Json) : R GoT := do
  if jhas j "u" then pure (.univ (← jnat j "u"))
  else if jhas j "ptr" then pure (.ptr (← jnat j "id") (← decGoT (← jfield j "ptr")))
  else
    let fs ← (← jarr j "st").toList.mapM fun f => do
      let fm : FieldMeta :=
        { name := ← jstr f "n", exported := ← jbool f "x", anon := ← jbool f "anon",
          tags := match jfield f "tags" with | .ok t => decTags t | .error _ => {} }
      pure (fm, ← decGoT (← jfield f "t"))
    pure (.strct (← jnat j "id") fs)

def decFn (j : Json) : R Fn := do
  let nonfunc : Option NonFunc :=
    match jstr j "nonfunc" with
    | .ok "nil" => some .nil | .ok "int" => some .int | .ok "ptr" => some .ptr | .ok "struct" => some .struct
    | .ok "nilfunc" => some .nilfunc | .ok "nilfunc1" => some .nilfunc
    | _ => none
  let ins ← match jarr j "in" with | .ok a => a.toList.mapM decGoT | .error _ => pure []
  let outs ← match jarr j "out" with | .ok a => a.toList.mapM decGoT | .error _ => pure []
  pure { id := ← jnat j "id", name := jstrD j "name" "", nonfunc, ins, variadic := jboolD j "variadic" false, outs }

def decBeh (j : Json) : Beh :=
  let k := match jstr j "k" with | .ok "err" => BehKind.err | .ok "panic" => .panic | _ => .ok
  { k, len := jnatD j "len" 1, dt := jnatD j "dt" 0, eslot := jnatD j "eslot" 0 }

def decAs (j : Json) : R AsArg := do
  if jhas j "iface" then pure (.iface (← jnat j "iface"))
  else if jhas j "nil" then pure .nil
  else if jhas j "val" then pure (.val (← jnat j "val"))
  else pure (.ptrTo (← jnat j "ptrTo"))

def decOp (j : Json) : R Op := do
  let op ← jstr j "op"
  if op == "scope" then pure (.scope (← jnat j "parent"))
  else if op == "provide" then
    let opts ← match jarr j "opts" with | .ok a => a.toList.mapM (·.getStr?) | .error _ => pure []
    let as ← match jarr j "as" with | .ok a => a.toList.mapM decAs | .error _ => pure []
    pure (.provide (← jnat j "scope") (← jnat j "fn")
      { name := if opts.contains "name" then jstrD j "name" "" else "",
        group := if opts.contains "group" then jstrD j "group" "" else "",
        as := if opts.contains "as" then as else [],
        export_ := if opts.contains "export" then jboolD j "export" false else false,
        cb := jboolD j "cb" false, info := jboolD j "info" false,
        loc := if opts.contains "loc" then (match jnat j "loc" with | .ok g => some g | .error _ => none) else none })
  else if op == "decorate" then
    pure (.decorate (← jnat j "scope") (← jnat j "fn") (jboolD j "cb" false) (jboolD j "info" false))
  else if op == "invoke" then
    pure (.invoke (← jnat j "scope") (← jnat j "fn") (jboolD j "info" false))
  else if op == "visualize" then
    let e := match jint j "errOf" with | .ok e => e | .error _ => -1
    pure (.visualize (← jnat j "scope") (if e < 0 then none else some e.toNat))
  else if op == "string" then pure (.string (← jnat j "scope"))
  else throw s!"unknown op {op}"

def decProgram (j : Json) : R Program := do
  let c ← jfield j "cfg"
  let cfg : Cfg := { deferAcyclic := jboolD c "defer" false, recover := jboolD c "recover" false, dry := jboolD c "dry" false }
  let types ← (← jarr j "types").toList.mapM decTypeInfo
  let fns ← (← jarr j "fns").toList.mapM decFn
  let script ← match jfield j "script" with
    | .ok (.obj kvs) => kvs.toList.mapM fun (k, v) => do
        let l ← v.getArr?
        match k.toNat? with
        | some n => pure (n, l.toList.map decBeh)
        | none => throw "bad script key"
    | _ => pure []
  let ops ← (← jarr j "ops").toList.mapM decOp
  pure { cfg, types, fns, script, ops, sameIds := jstrD j "ids" "same" != "distinct" }

/-! ### encoding -/

def jn (n : Nat) : Json := Json.num (JsonNumber.fromNat n)

partial def encVal : Val → Json
  | .tok f x s i => Json.mkObj [("tok", Json.arr #[jn f, jn x, jn s, jn i])]
  | .zero ty => Json.mkObj [("zero", jn ty)]
  | .int n => Json.mkObj [("int", jn n)]
  | .sl xs =>
    let js := xs.map encVal
    let sorted := (js.map fun j => (j.compress, j)).toArray.qsort (fun a b => a.1 < b.1)
    Json.mkObj [("sl", Json.arr (sorted.map (·.2)))]
  | .obj xs => Json.mkObj [("obj", Json.arr (xs.map encVal).toArray)]

def encKey2 (k : Key) : Json := Json.arr #[jn k.ty, Json.str k.name]

def encErr (e : DErr) : Json :=
  let ch := e.chain
  let root := e.rootCause
  let rootS : String := match root with
    | .user f x => s!"user:{f}:{x}"
    | .panicErr f x => s!"panic:{f}:{x}"
    | _ => "dig"
  let isB : Bool := match ch.getLast? with
    | some (.user f x) => e.errorsIs (.user f x)
    | _ => false
  Json.mkObj [
    ("chain", Json.arr (ch.map fun x => Json.str x.kindName).toArray),
    ("root", Json.str rootS),
    ("is", Json.bool isB),
    ("cyc", Json.bool e.isCycleDetected),
    ("viz", Json.bool e.canVisualize),
    ("missing", Json.arr (e.missingKeys.map encKey2).toArray),
    ("cycLen", jn e.cycleLen)]

def encVerdict : Verdict → Json
  | .ok => Json.str "ok"
  | .badop => Json.str "badop"
  | .err e => Json.mkObj [("err", encErr e)]
  | .panicUser f x => Json.mkObj [("panic", Json.str s!"user:{f}:{x}")]
  | .panicDig => Json.mkObj [("panic", Json.str "dig")]
  | .fuel => Json.str "fuel"

/-- `CallbackInfo.Name` names the constructor's *location*: the provided function, unless the Provide that registered
    the callback (operation `op`) carried `LocationForPC` -/
def cbName (ops : List Op) (op fn : Nat) : Nat :=
  match ops[op]? with
  | some (.provide _ _ o) => (match o.loc with | some 0 => fn | some g => g | none => fn)   -- 0: an address of no function
  | _ => fn

def encEvent (same : Bool) (ops : List Op) : Event → Json
  | .enter _ f x args => Json.mkObj [("e", "enter"), ("fn", jn f), ("x", jn x), ("args", Json.arr (args.map encVal).toArray)]
  | .exit _ f x r => Json.mkObj [("e", "exit"), ("fn", jn f), ("x", jn x),
      ("r", Json.str (match r with | .ok => "ok" | .err => "err" | .panic => "panic"))]
  | .cb op _ fn err rt => Json.mkObj [("e", "cb"), ("op", jn op), ("name", if same then Json.str "" else Json.str s!"F{cbName ops op fn}"),
      ("err", match err with | none => Json.str "nil" | some e => encErr e), ("rt", jn rt)]

def encInfo (same : Bool) (i : InfoOut) : Json :=
  Json.mkObj [("id", jn (if same then 0 else i.id)),
    ("in", Json.arr (i.ins.map fun (t, n, g, o) => Json.arr #[jn t, Json.str n, Json.str g, Json.bool o]).toArray),
    ("out", Json.arr (i.outs.map fun (t, n, g) => Json.arr #[jn t, Json.str n, Json.str g]).toArray)]

def encColor : ErrT → Json
  | .none => Json.str ""
  | .root => Json.str "red"
  | .transitive => Json.str "orange"

def encDRes (r : DResult) : Json := Json.arr #[jn r.ty, Json.str r.name, Json.str r.group, jn r.idx]

def encDot (g : DGraph) : Json :=
  Json.mkObj [("valid", true), ("labelsOk", true),
    ("groups", Json.arr ((g.groups.filter (·.alive)).map fun x =>
        Json.mkObj [("ty", jn x.ty), ("g", Json.str x.name), ("color", encColor x.err),
                    ("members", Json.arr (x.results.map encDRes).toArray)]).toArray),
    ("ctors", Json.arr ((g.ctors.filter (·.alive)).map fun c =>
        Json.mkObj [("color", encColor c.err),
          ("results", Json.arr (c.results.map encDRes).toArray),
          ("params", Json.arr (c.params.map fun p => Json.arr #[jn p.ty, Json.str p.name, Json.bool p.optional]).toArray),
          ("gparams", Json.arr (c.gparams.map fun gi =>
              let grp := g.groups.getD gi default
              Json.arr #[jn grp.ty, Json.str grp.name]).toArray)]).toArray),
    ("transitive", Json.arr (g.transitive.map encDRes).toArray),
    ("root", Json.arr (g.rootCauses.map encDRes).toArray)]

/-- the names package reflect and the runtime supply (K-dottext): `Type.String()` per type id and, per visualize
    operation, (`Name`, `Package`) of the constructors of `createGraph` in order -/
structure NamesIn where
  types   : List (Nat × String) := []
  ctorsAt : List (Nat × List (String × String)) := []

def decNames (j : Json) : Option NamesIn :=
  match jfield j "dotNames" with
  | .ok n =>
    let types : List (Nat × String) := match jarr n "types" with
      | .ok a => a.toList.filterMap fun x => match x.getArr? with
          | .ok #[i, s] => (match i.getNat?, s.getStr? with | .ok i, .ok s => some (i, s) | _, _ => none)
          | _ => none
      | .error _ => []
    let ctorsAt : List (Nat × List (String × String)) := match jfield n "ctorsAt" with
      | .ok (.obj kvs) => kvs.toList.filterMap fun (k, v) =>
          match k.toNat?, v.getArr? with
          | some i, .ok a => some (i, a.toList.filterMap fun x => match x.getArr? with
              | .ok #[nm, pk] => (match nm.getStr?, pk.getStr? with | .ok nm, .ok pk => some (nm, pk) | _, _ => none)
              | _ => none)
          | _, _ => none
      | _ => []
    some { types, ctorsAt }
  | .error _ => none

def NamesIn.at (n : NamesIn) (i : Nat) : DotNames :=
  { types := n.types, ctors := match n.ctorsAt.find? (·.1 == i) with | some (_, l) => l | none => [] }

def encOpRes (same : Bool) (ops : List Op) (names : Option NamesIn) (ird : Nat × OpRes × Option DGraph) : Json :=
  let r := ird.2.1
  let base : List (String × Json) :=
    [("v", encVerdict r.v), ("ev", Json.arr (r.ev.map (encEvent same ops)).toArray),
     ("info", match r.info with | some i => encInfo same i | none => Json.null),
     ("dot", match ird.2.2 with | some g => encDot g | none => Json.null)]
  match names, ird.2.2 with
  | some n, some g => Json.mkObj (base ++ [("dotText", Json.str (dotText (n.at ird.1) g))])
  | _, _ => Json.mkObj base

def isFuel : Verdict → Bool | .fuel => true | _ => false

def encTrace (same : Bool) (ops : List Op) (names : Option NamesIn) (rs : List (OpRes × Option DGraph)) : Json :=
  Json.mkObj [("ops", Json.arr ((indexed 0 rs).map (encOpRes same ops names)).toArray),
    ("fatal", if rs.any (fun r => isFuel r.1.v) then Json.str "fuel" else Json.null)]

def encTok : DotSyntax.Tok → Json
  | .bare s => Json.mkObj [("b", Json.str (String.ofList s))]
  | .quoted s => Json.mkObj [("q", Json.str (String.ofList s))]
  | .html s => Json.mkObj [("h", Json.str (String.ofList s))]
  | _ => Json.null

def encAttrs (as : List DotSyntax.Attr) : Json :=
  Json.arr (as.map fun a => Json.arr #[encTok a.key, encTok a.val]).toArray

/-- the statements of a parsed document; `fuel` bounds the nesting of subgraphs -/
def encStmts : Nat → List DotSyntax.Stmt → Json
  | 0, _ => Json.null
  | fuel + 1, ss => Json.arr (ss.map fun s => match s with
      | .node a as => Json.mkObj [("node", encTok a), ("attrs", encAttrs as)]
      | .edge a b as => Json.mkObj [("edge", Json.arr #[encTok a, encTok b]), ("attrs", encAttrs as)]
      | .attrs kw as => Json.mkObj [("set", Json.str (String.ofList kw)), ("attrs", encAttrs as)]
      | .assign k v => Json.mkObj [("assign", Json.arr #[encTok k, encTok v])]
      | .subgraph n body => Json.mkObj [("subgraph", Json.str (String.ofList n)), ("body", encStmts fuel body)]).toArray

/-- K-dottext request: the DOT lexer and parser of `DotSyntax.lean` on a text -/
def runDotParse (j : Json) : R Json := do
  let text ← jstr j "text"
  match DotSyntax.lexDot text.toList with
  | none => pure (Json.mkObj [("lex", false), ("parse", false), ("stmts", jn 0)])
  | some ts =>
    match DotSyntax.parseDot ts with
    | none => pure (Json.mkObj [("lex", true), ("parse", false), ("stmts", jn 0)])
    | some ss => pure (Json.mkObj [("lex", true), ("parse", true), ("stmts", jn ss.length), ("ast", encStmts 8 ss)])

/-- K-graph request -/
def runGraph (j : Json) : R Json := do
  let n ← jnat j "n"
  let succ ← (← jarr j "succ").toList.mapM fun a => do (← a.getArr?).toList.mapM (·.getNat?)
  let g : Nat → List Nat := fun u => succ.getD u []
  match Dfs.isAcyclic g n with
  | .ok _ => pure (Json.mkObj [("ok", true), ("cycle", Json.arr #[])])
  | .cycle p => pure (Json.mkObj [("ok", false), ("cycle", Json.arr (p.map jn).toArray)])
  | .oof => pure (Json.mkObj [("ok", false), ("cycle", Json.arr #[]), ("fuel", true)])

/-- K-label request: the attribute text of a result / group node -/
def runLabel (j : Json) : R Json := do
  let who ← jstr j "who"
  let t ← jstr j "tstr"
  let name ← jstr j "name"
  let group ← jstr j "group"
  let err ← jnat j "err"
  let text :=
    if who == "group" then DotText.groupAttr t.toList name.toList err
    else DotText.resultAttr t.toList name.toList group.toList
  pure (Json.mkObj [("text", Json.str (String.ofList text))])

/-- K-tags request: the parsers and validators of the reflect layer on their own -/
def runTag (j : Json) : R Json := do
  let what ← jstr j "what"
  let errName : DErr → String := fun e => match e with | .groupOpt => "groupOpt" | _ => "invalid"
  let res (err : String) (name : String) (fl so v : Bool) : Json :=
    Json.mkObj [("err", Json.str err), ("name", Json.str name), ("flatten", fl), ("soft", so), ("val", v)]
  if what == "group" then
    let s ← jstr j "s"
    match parseGroupString s with
    | .ok g => pure (res "" g.name g.flatten g.soft false)
    | .error e => pure (res (errName e) "" false false false)
  else if what == "optional" || what == "ignore-unexported" then
    let s ← jstr j "s"
    match boolTag s with
    | .ok b => pure (res "" "" false false b)
    | .error e => pure (res (errName e) "" false false false)
  else
    let name ← jstr j "name"
    let group ← jstr j "group"
    match validateOpts [] { name := name, group := group } with
    | .ok _ => pure (res "" "" false false false)
    | .error e => pure (res (errName e) "" false false false)

def handleLine (line : String) : String :=
  match Json.parse line with
  | .error e => (Json.mkObj [("error", Json.str e)]).compress
  | .ok j =>
    match jstr j "kind" with
    | .ok "graph" => (match runGraph j with | .ok r => r.compress | .error e => (Json.mkObj [("error", Json.str e)]).compress)
    | .ok "tag" => (match runTag j with | .ok r => r.compress | .error e => (Json.mkObj [("error", Json.str e)]).compress)
    | .ok "label" => (match runLabel j with | .ok r => r.compress | .error e => (Json.mkObj [("error", Json.str e)]).compress)
    | .ok "dotparse" => (match runDotParse j with | .ok r => r.compress | .error e => (Json.mkObj [("error", Json.str e)]).compress)
    | _ =>
      match decProgram j with
      | .error e => (Json.mkObj [("error", Json.str e)]).compress
      | .ok p =>
        -- a DryRun container hands `reflect.Zero` of every result type to dig: a value-typed error result is then a
        -- non-nil error although nothing ran.  Not modelled; such programs are refused, not answered wrongly.
        if p.cfg.dry && !p.ctx.forced.isEmpty then
          (Json.mkObj [("error", Json.str "unmodelled: DryRun with a value-typed error result")]).compress
        else (encTrace p.sameIds p.ops (decNames j) (runProgramV p).2).compress

end Dig
