import DigModel.DotSyntax
/-
  The document `visualizeGraph` (visualize.go) writes, piece by piece: `visualizeGroup`, `visualizeCtor`, the failure
  markers.  An *item* is a token or a run of white space; the text is their concatenation.  `strconv.Quote` is a
  parameter `q` (the inside of the quoted string); `goQuote` is what it does to printable ASCII.
-/
namespace Dig.DotRender
open Dig.DotSyntax Dig.DotText

inductive Item where
  | ws (s : List Char)
  | tk (t : Tok)
  deriving Repr, Inhabited

def tokText : Tok → List Char
  | .lbrace => ['{'] | .rbrace => ['}'] | .lbrack => ['['] | .rbrack => [']']
  | .semi => [';'] | .comma => [','] | .eq => ['='] | .arrow => ['-', '>']
  | .bare s => s
  | .quoted s => '"' :: s ++ ['"']
  | .html s => '<' :: s ++ ['>']

def Item.text : Item → List Char
  | .ws s => s
  | .tk t => tokText t

def text (is : List Item) : List Char := is.flatMap Item.text

def toks : List Item → List Tok
  | [] => []
  | .ws _ :: rest => toks rest
  | .tk t :: rest => t :: toks rest

/-! ### what the nodes carry -/

structure RResult where
  /-- `Result.String()` -/
  str   : List Char
  ty    : List Char
  name  : List Char
  group : List Char
  deriving Repr, Inhabited

structure RGroup where
  /-- `Group.String()` -/
  str     : List Char
  ty      : List Char
  name    : List Char
  /-- 0 none, 1 root cause, 2 transitive failure -/
  err     : Nat
  /-- `String()` of each member -/
  results : List (List Char)
  deriving Repr, Inhabited

structure RParam where
  str      : List Char
  optional : Bool
  deriving Repr, Inhabited

structure RCtor where
  pkg     : List Char
  name    : List Char
  err     : Nat
  results : List RResult
  params  : List RParam
  gparams : List (List Char)
  deriving Repr, Inhabited

structure RGraph where
  groups     : List RGroup
  ctors      : List RCtor
  transitive : List (List Char)
  roots      : List (List Char)
  deriving Repr, Inhabited

/-! ### small pieces -/

def W (s : String) : Item := .ws s.toList
def B (s : String) : Item := .tk (.bare s.toList)
def P (t : Tok) : Item := .tk t

/-- decimal digits of a number, least significant last (`%d`) -/
def digitsAux : Nat → Nat → List Char → List Char
  | 0, _, acc => acc
  | fuel + 1, n, acc =>
    let d := Char.ofNat (48 + n % 10)
    if n < 10 then d :: acc else digitsAux fuel (n / 10) (d :: acc)

def natDigits (n : Nat) : List Char := digitsAux (n + 1) n []

/-- the inside of the HTML label of a result node -/
def resultBody (t name group : List Char) : List Char :=
  if name ≠ [] then labelBody t (some ("Name: ".toList, name))
  else if group ≠ [] then labelBody t (some ("Group: ".toList, group))
  else labelBody t none

def colorName (err : Nat) : String := if err == 1 then "red" else "orange"

def hexDigit (k : Nat) : Char := if k < 10 then Char.ofNat (48 + k) else Char.ofNat (87 + k)

/-- one character inside `strconv.Quote`: the quote, the backslash and the control characters are escaped, everything
    else (printable ASCII, and the printable non-ASCII characters this model is used with) stands for itself -/
def qChar (c : Char) : List Char :=
  if c = '"' then ['\\', '"'] else if c = '\\' then ['\\', '\\']
  else if c = '\n' then ['\\', 'n'] else if c = '\t' then ['\\', 't'] else if c = '\r' then ['\\', 'r']
  else if c.toNat = 7 then ['\\', 'a'] else if c.toNat = 8 then ['\\', 'b'] else if c.toNat = 12 then ['\\', 'f']
  else if c.toNat = 11 then ['\\', 'v']
  else if c.toNat < 32 ∨ c.toNat = 127 then ['\\', 'x', hexDigit (c.toNat / 16), hexDigit (c.toNat % 16)]
  else [c]

/-- the inside of `strconv.Quote(s)` -/
def goQuote (s : List Char) : List Char := s.flatMap qChar

/-! ### the document -/

section
variable (q : List Char → List Char)

def Q (s : List Char) : Item := .tk (.quoted (q s))

def header : List Item :=
  [B "digraph", W " ", P .lbrace, W "\n\t", B "rankdir", P .eq, B "RL", P .semi, W "\n\t", B "graph", W " ", P .lbrack,
   B "compound", P .eq, B "true", P .rbrack, P .semi, W "\n"]

/-- `visualizeGroup`; the bracket holds `Group.Attributes()` -/
def groupItems (g : RGroup) : List Item :=
  [W "\t", Q q g.str, W " ", P .lbrack, B "shape", P .eq, B "diamond", W " ", B "label", P .eq,
   P (.html (labelBody g.ty (some ("Group: ".toList, g.name))))] ++
  (if g.err = 0 then [] else [W " ", B "color", P .eq, B (colorName g.err)]) ++
  [P .rbrack, P .semi, W "\n"] ++
  g.results.flatMap (fun r => [W "\t\t", Q q g.str, W " ", P .arrow, W " ", Q q r, P .semi, W "\n"]) ++
  [W "\t\t\n"]

def clusterName (i : Nat) : Item := .tk (.bare ("cluster_".toList ++ natDigits i))
def ctorName (i : Nat) : Item := .tk (.bare ("constructor_".toList ++ natDigits i))

def resultItems (r : RResult) : List Item :=
  [W "\t\t\t", Q q r.str, W " ", P .lbrack, B "label", P .eq, P (.html (resultBody r.ty r.name r.group)), P .rbrack, P .semi, W "\n"]

def paramItems (i : Nat) (p : RParam) : List Item :=
  [W "\t\t\t", ctorName i, W " ", P .arrow, W " ", Q q p.str, W " ", P .lbrack, B "ltail", P .eq, clusterName i] ++
  (if p.optional then [W " ", B "style", P .eq, B "dashed"] else []) ++ [P .rbrack, P .semi, W "\n\t\t\n"]

def gparamItems (i : Nat) (g : List Char) : List Item :=
  [W "\t\t\t", ctorName i, W " ", P .arrow, W " ", Q q g, W " ", P .lbrack, B "ltail", P .eq, clusterName i, P .rbrack, P .semi,
   W "\n\t\t\n"]

/-- `visualizeCtor` -/
def ctorItems (i : Nat) (c : RCtor) : List Item :=
  [W "\t\t", B "subgraph", W " ", clusterName i, W " ", P .lbrace, W "\n"] ++
  (W "\t\t\t" :: (if c.pkg = [] then [] else [B "label", W " ", P .eq, W " ", Q q c.pkg, P .semi])) ++
  [W "\n", W "\t\t\t", ctorName i, W " ", P .lbrack, B "shape", P .eq, B "plaintext", W " ", B "label", P .eq, Q q c.name,
   P .rbrack, P .semi, W "\n"] ++
  (W "\t\t\t" :: (if c.err = 0 then [] else [B "color", P .eq, B (colorName c.err), P .semi])) ++
  [W "\n"] ++
  c.results.flatMap (resultItems q) ++
  [W "\t\t\t\n\t\t", P .rbrace, W "\n\t\t\n"] ++
  c.params.flatMap (paramItems q i) ++
  [W "\t\t\n"] ++
  c.gparams.flatMap (gparamItems q i)

def ctorsItems : Nat → List RCtor → List Item
  | _, [] => []
  | i, c :: rest => ctorItems q i c ++ ctorsItems (i + 1) rest

def failedItems (color : String) (f : List Char) : List Item :=
  [W "\t", Q q f, W " ", P .lbrack, B "color", P .eq, B color, P .rbrack, P .semi, W "\n"]

/-- `visualizeGraph` -/
def graphItems (g : RGraph) : List Item :=
  header ++ g.groups.flatMap (groupItems q) ++ [W "\t\n"] ++ ctorsItems q 0 g.ctors ++
  g.transitive.flatMap (failedItems q "orange") ++ g.roots.flatMap (failedItems q "red") ++ [W "\t\n", P .rbrace]

def render (g : RGraph) : List Char := text (graphItems q g)

end

end Dig.DotRender
