import DigModel.Api
import DigModel.Proofs.Frame
/-
  Lemmas about the API step function: which operations can produce events,
  and where the events of an Invoke come from.
-/
namespace Dig

theorem newGraphNode_log (st : St) (s : Nat) (node : GNode) : (st.newGraphNode s node).log = st.log := by
  unfold St.newGraphNode
  generalize st.subscopes s = l
  induction l generalizing st with
  | nil => rfl
  | cons x xs ih =>
    simp only [List.foldl_cons]
    rw [ih]
    cases node <;> rfl

theorem foldl_newPG_log (s oldLen : Nat) (l : List Nat) (st : St) :
    (List.foldl (fun st j => st.newGraphNode s (GNode.pg (oldLen + j))) st l).log = st.log := by
  induction l generalizing st with
  | nil => rfl
  | cons x xs ih => simp only [List.foldl_cons]; rw [ih, newGraphNode_log]

theorem addPGNodes_log (st : St) (s oldLen : Nat) (descs : List PGDesc) : (addPGNodes st s oldLen descs).log = st.log := by
  unfold addPGNodes
  simp only
  rw [foldl_newPG_log]

theorem parseParams_log (env : TyEnv) (st : St) (s : Nat) (fn : Fn) : (parseParams env st s fn).2.log = st.log := by
  unfold parseParams
  simp only [addPGNodes_log]

theorem shallowCheck_state (c : Nat) (ps : List Param) (st : St) : (shallowCheck c ps st).2 = st := by
  unfold shallowCheck
  split <;> rfl

/-- operations other than Invoke report no events -/
def Op.isInvoke : Op → Bool
  | .invoke _ _ _ => true
  | _ => false

theorem step_passive (ctx : Ctx) (fns : List Fn) (st : St) (i : Nat) (op : Op) (h : op.isInvoke = false) :
    (step ctx fns st i op).2.ev = [] := by
  cases op with
  | invoke s f info => simp [Op.isInvoke] at h
  | scope p => simp only [step]; split <;> rfl
  | provide s f o =>
    simp only [step]
    split
    · split
      · rfl
      · rfl
    · rfl
  | decorate s f cb info =>
    simp only [step]
    split
    · split
      · rfl
      · rfl
    · rfl
  | visualize s e => cases e <;> (simp only [step]; split <;> rfl)
  | string s => simp only [step]; split <;> rfl

end Dig

namespace Dig

theorem wrapErr_state {α : Type} (m : EM α) (w : DErr → DErr) (st : St) : (EM.wrapErr m w st).2 = (m st).2 := by
  unfold EM.wrapErr
  cases h : m st with
  | mk r s' =>
    cases r with
    | ok a => rfl
    | error e => cases e <;> rfl

/-- the events reported by an Invoke are the log written by the resolver and by the invoked function -/
theorem apiInvoke_dry (ctx : Ctx) (hdry : ctx.cfg.dry = true) (fn : Fn) (st : St) (s : Nat) (info : Bool)
    (hlog : st.log = []) : ∀ e ∈ (apiInvoke ctx fn st s info).2.ev, isCb e = true := by
  unfold apiInvoke
  split
  · simp
  · have hp := parseParams_log ctx.env st s fn
    cases hpp : parseParams ctx.env st s fn with
    | mk r w =>
      rw [hpp] at hp
      simp only at hp
      cases r with
      | error e => simp
      | ok params =>
        simp only
        have hs := shallowCheck_state s params w
        cases hsc : shallowCheck s params w with
        | mk r2 w2 =>
          rw [hsc] at hs
          simp only at hs
          subst hs
          cases r2 with
          | error f => simp
          | ok u =>
            simp only
            split
            · simp
            · rename_i w3 hchk
              have hw3 : w3.log = [] := by
                split at hchk
                · injection hchk with h; rw [← h, hp, hlog]
                · split at hchk
                  · injection hchk with h; rw [← h]; show w2.log = []; rw [hp, hlog]
                  · cases hchk
                  · cases hchk
              have hb := buildList_dry ctx hdry (engineFuel w3 params) params s w3
              rw [← wrapErr_state _ DErr.argsFailed] at hb
              cases hbl : EM.wrapErr (buildList ctx (engineFuel w3 params) params s) DErr.argsFailed w3 with
              | mk r4 w4 =>
                rw [hbl] at hb
                obtain ⟨l, hl, hcb⟩ := hb
                simp only at hl
                rw [hw3] at hl
                cases r4 with
                | error f => simp only; intro e he; rw [hl] at he; exact hcb e (by simpa using he)
                | ok args =>
                  simp only [callBody_dry ctx hdry]
                  intro e he; rw [hl] at he; exact hcb e (by simpa using he)

end Dig
