import DigModel.Proofs.Core
/-
  DryRun validates the same: the resolver run in a DryRun container and the resolver run in a normal
  container whose user functions all succeed stay in containers with the same core and end with the
  same outcome (the same error, or both deliver).
-/
namespace Dig

def dryOf (ctx : Ctx) : Ctx := { ctx with cfg := { ctx.cfg with dry := true } }

/-- every scripted execution returns normally -/
def AllOk (ctx : Ctx) : Prop := ∀ f x, (ctx.beh f x).k = BehKind.ok

theorem dryOf_dry (ctx : Ctx) : (dryOf ctx).cfg.dry = true := rfl
theorem dryOf_env (ctx : Ctx) : (dryOf ctx).env = ctx.env := rfl
theorem dryOf_sameIds (ctx : Ctx) : (dryOf ctx).sameIds = ctx.sameIds := rfl
theorem dryOf_recover (ctx : Ctx) : (dryOf ctx).cfg.recover = ctx.cfg.recover := rfl

/-! ### look-ups see the same thing -/

theorem findDeco_core {a b : St} (h : CoreEq a b) (k : Key) : ∀ anc, findDeco a k anc = findDeco b k anc := by
  intro anc
  induction anc with
  | nil => rfl
  | cons s rest ih =>
    simp only [findDeco, (h.scope s).decorators]
    cases aget (b.scope s).decorators k with
    | none => exact ih
    | some d => simp only [h.deco d, ih]

theorem findDecoratedValue_core {a b : St} (h : CoreEq a b) (k : Key) : ∀ anc,
    (findDecoratedValue a k anc).isSome = (findDecoratedValue b k anc).isSome := by
  intro anc
  induction anc with
  | nil => rfl
  | cons s rest ih =>
    simp only [findDecoratedValue]
    have hs := (h.scope s).isSome_dvalues k
    cases ha : aget (a.scope s).decoratedValues k with
    | none =>
      cases hb : aget (b.scope s).decoratedValues k with
      | none => exact ih
      | some v => rw [ha, hb] at hs; simp at hs
    | some v =>
      cases hb : aget (b.scope s).decoratedValues k with
      | none => rw [ha, hb] at hs; simp at hs
      | some v' => rfl

theorem findDecoratedGroup_core {a b : St} (h : CoreEq a b) (k : Key) : ∀ anc,
    (findDecoratedGroup a k anc).isSome = (findDecoratedGroup b k anc).isSome := by
  intro anc
  induction anc with
  | nil => rfl
  | cons s rest ih =>
    simp only [findDecoratedGroup]
    have hs := (h.scope s).isSome_dgroups k
    cases ha : aget (a.scope s).decoratedGroups k with
    | none =>
      cases hb : aget (b.scope s).decoratedGroups k with
      | none => exact ih
      | some v => rw [ha, hb] at hs; simp at hs
    | some v =>
      cases hb : aget (b.scope s).decoratedGroups k with
      | none => rw [ha, hb] at hs; simp at hs
      | some v' => rfl

def ProvSame : ProvLookup → ProvLookup → Prop
  | .value _, .value _ => True
  | .providers s ns, .providers s' ns' => s = s' ∧ ns = ns'
  | .none, .none => True
  | _, _ => False

theorem findProviders_core {a b : St} (h : CoreEq a b) (k : Key) : ∀ anc,
    ProvSame (findProviders a k anc) (findProviders b k anc) := by
  intro anc
  induction anc with
  | nil => simp [findProviders, ProvSame]
  | cons s rest ih =>
    simp only [findProviders]
    have hs := (h.scope s).isSome_values k
    rw [(h.scope s).providers]
    cases ha : aget (a.scope s).values k with
    | none =>
      cases hb : aget (b.scope s).values k with
      | none =>
        simp only
        cases agetL (b.scope s).providers k with
        | nil => exact ih
        | cons n ns => simp [ProvSame]
      | some v => rw [ha, hb] at hs; simp at hs
    | some v =>
      cases hb : aget (b.scope s).values k with
      | none => rw [ha, hb] at hs; simp at hs
      | some v' => simp [ProvSame]

theorem missingOf_single_core {a b : St} (h : CoreEq a b) (c : Nat) (k : Key) (opt : Bool) :
    missingOf a c (.single k opt) = missingOf b c (.single k opt) := by
  simp only [missingOf, h.allProviders c k]
  have hs := (h.scope c).isSome_dvalues k
  have : (aget (a.scope c).decoratedValues k).isNone = (aget (b.scope c).decoratedValues k).isNone := by
    cases ha : aget (a.scope c).decoratedValues k <;> cases hb : aget (b.scope c).decoratedValues k <;>
      simp [ha, hb] at hs ⊢
  rw [this]

theorem missingOf_core {a b : St} (h : CoreEq a b) (c : Nat) (p : Param) : missingOf a c p = missingOf b c p := by
  apply missingOf.induct a c (motive_1 := fun p => missingOf a c p = missingOf b c p)
    (motive_2 := fun ps => missingOfList a c ps = missingOfList b c ps)
  · intro k opt _; exact missingOf_single_core h c k opt
  · intro k opt _; exact missingOf_single_core h c k opt
  · intro ty k soft pg; simp only [missingOf]
  · intro ty fs ih; simp only [missingOf]; exact ih
  · simp only [missingOfList]
  · intro p ps ih1 ih2; simp only [missingOfList, ih1, ih2]

theorem missingOfList_core {a b : St} (h : CoreEq a b) (c : Nat) : ∀ ps, missingOfList a c ps = missingOfList b c ps := by
  intro ps
  induction ps with
  | nil => simp only [missingOfList]
  | cons p ps ih => simp only [missingOfList, missingOf_core h c p, ih]

theorem sim_shallowCheck {a b : St} (h : CoreEq a b) (c : Nat) (ps : List Param) :
    SimR TT (shallowCheck c ps a) (shallowCheck c ps b) := by
  unfold shallowCheck
  rw [missingOfList_core h c ps]
  cases missingOfList b c ps with
  | nil => exact ⟨h, trivial⟩
  | cons k ks => exact ⟨h, rfl⟩

/-! ### running a node's function: dry on the left, successfully on the right -/

theorem bodyRes_allOk (ctx : Ctx) (hok : AllOk ctx) (fn : Fn) (st : St) :
    ∃ x len, bodyRes ctx fn st = .ok x len := by
  unfold bodyRes
  simp only [hok fn.id (st.execCount fn.id)]
  exact ⟨_, _, rfl⟩

theorem coreEq_runCallback_left {a b : St} (h : CoreEq a b) (cb : Option Nat) (who : Who) (fn start : Nat) (err : Option DErr) :
    CoreEq (runCallback cb who fn start err a) b := by
  obtain ⟨h1, h2, h3, h4⟩ := runCallback_fields cb who fn start err a
  exact h.left h2 h3 h4 h1

theorem coreEq_runCallback_right {a b : St} (h : CoreEq a b) (cb : Option Nat) (who : Who) (fn start : Nat) (err : Option DErr) :
    CoreEq a (runCallback cb who fn start err b) := by
  obtain ⟨h1, h2, h3, h4⟩ := runCallback_fields cb who fn start err b
  exact h.right h2 h3 h4 h1

theorem sim_ctorTail (ctx : Ctx) (hnd : ctx.cfg.dry = false) (hok : AllOk ctx) (n : Nat) (node : CtorNode)
    (args args' : List Val) {a b : St} (h : CoreEq a b) :
    SimR TT (ctorTail (dryOf ctx) n node args a) (ctorTail ctx n node args' b) := by
  obtain ⟨x, len, hb⟩ := bodyRes_allOk ctx hok node.fn b
  simp only [ctorTail, callBody_dry (dryOf ctx) rfl, callBody_spec ctx hnd, hb]
  refine ⟨?_, ?_⟩
  · apply coreEq_runCallback_left
    apply coreEq_runCallback_right
    simp only [ctorCommit]
    apply CoreEq.modCtor
    have h1 : CoreEq a (afterBody ctx (.ctor n) node.fn args' b) := by
      obtain ⟨f1, f2, f3, f4⟩ := afterBody_fields ctx (.ctor n) node.fn args' b
      exact h.right f2 f3 f4 f1
    exact h1.modScope node.s _ _ (fun x y hxy => extractSlots_blank _ false _ _ node.results x y hxy)
  · simp [ctorOutcome, RelOut, TT]

theorem sim_decoTail (ctx : Ctx) (hnd : ctx.cfg.dry = false) (hok : AllOk ctx) (d : Nat) (node : DecoNode)
    (args args' : List Val) {a b : St} (h : CoreEq a b) :
    SimR TT (decoTail (dryOf ctx) d node args a) (decoTail ctx d node args' b) := by
  obtain ⟨x, len, hb⟩ := bodyRes_allOk ctx hok node.fn b
  simp only [decoTail, callBody_dry (dryOf ctx) rfl, callBody_spec ctx hnd, hb]
  refine ⟨?_, ?_⟩
  · apply coreEq_runCallback_left
    apply coreEq_runCallback_right
    simp only [decoCommit]
    apply CoreEq.modDeco
    have h1 : CoreEq a (afterBody ctx (.deco d) node.fn args' b) := by
      obtain ⟨f1, f2, f3, f4⟩ := afterBody_fields ctx (.deco d) node.fn args' b
      exact h.right f2 f3 f4 f1
    exact h1.modScope node.s _ _ (fun x y hxy => extractSlots_blank _ true _ _ node.results x y hxy)
  · simp [decoOutcome, RelOut, TT]

theorem sim_providerStep (env : TyEnv) (k : Key) (opt : Bool) (cid : Nat) {r1 r2 : Except Fail Unit × St}
    (h : SimR TT r1 r2) : SimR SameSome (providerStep env k opt cid r1) (providerStep env k opt cid r2) := by
  obtain ⟨hc, ho⟩ := h
  rcases r1 with ⟨o1, s1⟩
  rcases r2 with ⟨o2, s2⟩
  simp only at hc ho
  cases o1 with
  | ok u =>
    cases o2 with
    | ok u' => exact ⟨hc, rfl⟩
    | error e => simp [RelOut] at ho
  | error e =>
    cases o2 with
    | ok u' => simp [RelOut] at ho
    | error e' =>
      have he : e = e' := ho
      subst he
      cases e with
      | err e =>
        simp only [providerStep]
        split
        · exact ⟨hc, rfl⟩
        · exact ⟨hc, rfl⟩
      | panic f x => exact ⟨hc, rfl⟩
      | bug => exact ⟨hc, rfl⟩
      | fuel => exact ⟨hc, rfl⟩

/-! ### the resolver -/

theorem engine_drysim (ctx : Ctx) (hnd : ctx.cfg.dry = false) (hok : AllOk ctx) :
    ∀ fuel,
      (∀ n c a b, CoreEq a b → SimR TT (callCtor (dryOf ctx) fuel n c a) (callCtor ctx fuel n c b)) ∧
      (∀ d s a b, CoreEq a b → SimR TT (callDeco (dryOf ctx) fuel d s a) (callDeco ctx fuel d s b)) ∧
      (∀ k opt c a b, CoreEq a b → SimR TT (buildSingle (dryOf ctx) fuel k opt c a) (buildSingle ctx fuel k opt c b)) ∧
      (∀ k soft c a b, CoreEq a b → SimR TT (buildGroup (dryOf ctx) fuel k soft c a) (buildGroup ctx fuel k soft c b)) ∧
      (∀ p c a b, CoreEq a b → SimR TT (buildParam (dryOf ctx) fuel p c a) (buildParam ctx fuel p c b)) ∧
      (∀ ps c a b, CoreEq a b → SimR TT (buildList (dryOf ctx) fuel ps c a) (buildList ctx fuel ps c b)) := by
  intro fuel
  induction fuel with
  | zero =>
    refine ⟨?_, ?_, ?_, ?_, ?_, ?_⟩ <;> intros <;> rename_i a b h
    · simp only [callCtor]; exact simR_err h _
    · simp only [callDeco]; exact simR_err h _
    · simp only [buildSingle]; exact simR_err h _
    · simp only [buildGroup]; exact simR_err h _
    · simp only [buildParam]; exact simR_err h _
    · simp only [buildList]; exact simR_err h _
  | succ fuel ih =>
    obtain ⟨ihC, ihD, ihS, ihG, ihP, ihL⟩ := ih
    refine ⟨?_, ?_, ?_, ?_, ?_, ?_⟩
    · -- callCtor
      intro n c a b h
      simp only [callCtor, h.ctor n]
      split
      · exact simR_ret h () () trivial
      · split
        · exact simR_err h _
        · refine simR_finally ?_ (fun a' b' h' => h'.modCtor n _)
          refine simR_bind (sim_shallowCheck (h.modCtor n _) c _) ?_
          intro _ _ a2 b2 _ h2
          refine simR_bind (simR_wrapErr _ (ihL _ _ a2 b2 h2)) ?_
          intro args args' a3 b3 _ h3
          exact sim_ctorTail ctx hnd hok n _ args args' h3
    · -- callDeco
      intro d s a b h
      simp only [callDeco, h.deco d]
      split
      · exact simR_ret h () () trivial
      · refine simR_finally ?_ (fun a' b' h' => h'.modDeco d _)
        refine simR_bind (sim_shallowCheck (h.modDeco d _) s _) ?_
        intro _ _ a2 b2 _ h2
        refine simR_bind (simR_wrapErr _ (ihL _ _ a2 b2 h2)) ?_
        intro args args' a3 b3 _ h3
        exact sim_decoTail ctx hnd hok d _ args args' h3
    · -- buildSingle
      intro k opt c a b h
      simp only [buildSingle, h.ancestors c, findDeco_core h k]
      cases hfd : findDeco b k (b.ancestors c) with
      | some dd =>
        rcases dd with ⟨d, ds⟩
        simp only
        refine simR_bind (simR_wrapErr _ (ihD d ds a b h)) ?_
        intro _ _ a' b' _ h'
        have hs := (h'.scope ds).isSome_dvalues k
        cases ha : aget (a'.scope ds).decoratedValues k with
        | none =>
          cases hb : aget (b'.scope ds).decoratedValues k with
          | none => exact simR_err h' _
          | some v => rw [ha, hb] at hs; simp at hs
        | some v =>
          cases hb : aget (b'.scope ds).decoratedValues k with
          | none => rw [ha, hb] at hs; simp at hs
          | some v' => exact simR_ret h' _ _ trivial
      | none =>
        simp only
        have hdv := findDecoratedValue_core h k (b.ancestors c)
        cases ha : findDecoratedValue a k (b.ancestors c) with
        | some v =>
          cases hb : findDecoratedValue b k (b.ancestors c) with
          | none => rw [ha, hb] at hdv; simp at hdv
          | some v' => exact simR_ret h _ _ trivial
        | none =>
          cases hb : findDecoratedValue b k (b.ancestors c) with
          | some v' => rw [ha, hb] at hdv; simp at hdv
          | none =>
            simp only
            have hp := findProviders_core h k (b.ancestors c)
            cases hpa : findProviders a k (b.ancestors c) with
            | value v =>
              cases hpb : findProviders b k (b.ancestors c) with
              | value v' => exact simR_ret h _ _ trivial
              | providers s ns => rw [hpa, hpb] at hp; simp [ProvSame] at hp
              | none => rw [hpa, hpb] at hp; simp [ProvSame] at hp
            | none =>
              cases hpb : findProviders b k (b.ancestors c) with
              | value v' => rw [hpa, hpb] at hp; simp [ProvSame] at hp
              | providers s ns => rw [hpa, hpb] at hp; simp [ProvSame] at hp
              | none =>
                simp only
                split
                · exact simR_ret h _ _ trivial
                · exact simR_err h _
            | providers pc ns =>
              cases hpb : findProviders b k (b.ancestors c) with
              | value v' => rw [hpa, hpb] at hp; simp [ProvSame] at hp
              | none => rw [hpa, hpb] at hp; simp [ProvSame] at hp
              | providers pc' ns' =>
                rw [hpa, hpb] at hp
                obtain ⟨rfl, rfl⟩ := hp
                simp only
                refine simR_bind (ρ1 := SameSome) ?_ ?_
                · refine simR_firstM ns _ _ ?_ a b h
                  intro n a1 b1 h1
                  simp only [h1.ctor n]
                  exact sim_providerStep _ k opt _ (ihC n _ a1 b1 h1)
                · intro early early' a' b' hs h'
                  cases early with
                  | some z =>
                    cases early' with
                    | some z' => exact simR_ret h' _ _ trivial
                    | none => simp [SameSome] at hs
                  | none =>
                    cases early' with
                    | some z' => simp [SameSome] at hs
                    | none =>
                      simp only
                      have hv := (h'.scope pc).isSome_values k
                      cases hva : aget (a'.scope pc).values k with
                      | none =>
                        cases hvb : aget (b'.scope pc).values k with
                        | none => exact simR_err h' _
                        | some v => rw [hva, hvb] at hv; simp at hv
                      | some v =>
                        cases hvb : aget (b'.scope pc).values k with
                        | none => rw [hva, hvb] at hv; simp at hv
                        | some v' => exact simR_ret h' _ _ trivial
    · -- buildGroup
      intro k soft c a b h
      simp only [buildGroup, h.ancestors c]
      refine simR_bind (ρ1 := TT) ?_ ?_
      · refine simR_forEachM _ _ _ ?_ a b h
        intro s a1 b1 h1
        simp only [(h1.scope s).decorators]
        cases aget (b1.scope s).decorators k with
        | none => exact simR_ret h1 () () trivial
        | some d =>
          simp only [h1.deco d]
          split
          · exact simR_ret h1 () () trivial
          · exact simR_wrapErr _ (ihD d s a1 b1 h1)
      · intro _ _ a2 b2 _ h2
        have hdg := findDecoratedGroup_core h2 k (b.ancestors c)
        cases hga : findDecoratedGroup a2 k (b.ancestors c) with
        | some v =>
          cases hgb : findDecoratedGroup b2 k (b.ancestors c) with
          | none => rw [hga, hgb] at hdg; simp at hdg
          | some v' => exact simR_ret h2 _ _ trivial
        | none =>
          cases hgb : findDecoratedGroup b2 k (b.ancestors c) with
          | some v' => rw [hga, hgb] at hdg; simp at hdg
          | none =>
            simp only
            refine simR_bind (ρ1 := TT) ?_ ?_
            · cases soft with
              | true => simp only [if_true]; exact simR_ret h2 () () trivial
              | false =>
                simp only [Bool.false_eq_true, if_false]
                refine simR_forEachM _ _ _ ?_ a2 b2 h2
                intro s a3 b3 h3
                rw [(h3.scope s).providers]
                refine simR_forEachM _ _ _ ?_ a3 b3 h3
                intro n a4 b4 h4
                simp only [h4.ctor n]
                exact simR_wrapErr _ (ihC n _ a4 b4 h4)
            · intro _ _ a5 b5 _ h5
              exact simR_ret h5 _ _ trivial
    · -- buildParam
      intro p c a b h
      cases p with
      | single k opt => simp only [buildParam]; exact ihS k opt c a b h
      | grouped ty k soft pg => simp only [buildParam]; exact ihG k soft c a b h
      | object ty fs =>
        simp only [buildParam]
        refine simR_bind (simR_mapM _ _ _ (fun f a1 b1 h1 => ihP f c a1 b1 h1) a b h) ?_
        intro hard hard' a1 b1 _ h1
        refine simR_bind (simR_mapM _ _ _ (fun f a2 b2 h2 => ihP f c a2 b2 h2) a1 b1 h1) ?_
        intro soft soft' a2 b2 _ h2
        exact simR_ret h2 _ _ trivial
    · -- buildList
      intro ps c a b h
      simp only [buildList]
      exact simR_mapM _ _ _ (fun p a1 b1 h1 => ihP p c a1 b1 h1) a b h

end Dig
