import DigModel.Proofs.DepsApi
import DigModel.Proofs.GroupCalled
/-
  The must-run half of laziness for non-soft value groups: when a parameter (list) has been built, every non-soft group
  in it is either decorated on the path or has every provider on the path built.
-/
namespace Dig

/-- decorated-group caches never lose a key -/
def DG (a b : St) : Prop :=
  RegFrame a b ∧ ∀ S k, (aget (a.scope S).decoratedGroups k).isSome = true → (aget (b.scope S).decoratedGroups k).isSome = true

theorem DG.refl (a : St) : DG a a := ⟨RegFrame.refl a, fun _ _ h => h⟩
theorem DG.trans {a b c : St} (h1 : DG a b) (h2 : DG b c) : DG a c := ⟨h1.1.trans h2.1, fun S k h => h2.2 S k (h1.2 S k h)⟩

theorem extractDeco_dgKeep (env : TyEnv) (r : Ret) (sc : ScopeSt) (x : Result) :
    ∀ k, (aget sc.decoratedGroups k).isSome = true → (aget (extractDeco env r sc x).decoratedGroups k).isSome = true := by
  apply extractDeco.induct env r
    (fun sc x => ∀ k, (aget sc.decoratedGroups k).isSome = true → (aget (extractDeco env r sc x).decoratedGroups k).isSome = true)
    (fun sc xs => ∀ k, (aget sc.decoratedGroups k).isSome = true → (aget (extractDecos env r sc xs).decoratedGroups k).isSome = true)
  · intro sc slot decl ty name as k h; simp only [extractDeco]; exact h
  · intro sc slot decl ty group f as k h; simp only [extractDeco]; exact isSome_aset_keep _ _ k _ h
  · intro sc ty fs ih k h; simp only [extractDeco]; exact ih k h
  · intro sc k h; simp only [extractDecos]; exact h
  · intro sc x xs ih1 ih2 k h; simp only [extractDecos]; exact ih2 k (ih1 k h)

theorem extractSlots_dgKeep (env : TyEnv) (r : Ret) : ∀ (slots : List RSlot) (sc : ScopeSt) (k : Key),
    (aget sc.decoratedGroups k).isSome = true → (aget (extractSlots env true r sc slots).decoratedGroups k).isSome = true := by
  intro slots
  induction slots with
  | nil => intro sc k h; exact h
  | cons s rest ih =>
    intro sc k h
    cases s with
    | err => simp only [extractSlots]; exact ih sc k h
    | val x => simp only [extractSlots, if_true]; exact ih _ k (extractDeco_dgKeep env r sc x k h)

theorem dg_same (a b : St) (hr : RegFrame a b) (hs : b.scopes = a.scopes) : DG a b :=
  ⟨hr, fun S k h => by rw [scope_of_scopes_eq hs S]; exact h⟩

theorem dg_ctorTail (ctx : Ctx) (st : St) (n : Nat) (node : CtorNode) (args : List Val) : DG st (ctorTail ctx n node args st).2 := by
  refine ⟨regFrame_ctorTail ctx st n node args, fun S k h => ?_⟩
  rw [ctorTail_scope]
  cases retOf node.fn.id (callBody ctx (.ctor n) node.fn args st).1 with
  | none => exact h
  | some ret =>
    simp only
    split
    · rw [(extractSlots_decoCaches ctx.env ret node.results _).2]; exact h
    · exact h

theorem dg_decoTail (ctx : Ctx) (st : St) (d : Nat) (node : DecoNode) (args : List Val) : DG st (decoTail ctx d node args st).2 := by
  refine ⟨regFrame_decoTail ctx st d node args, fun S k h => ?_⟩
  rw [decoTail_scope]
  cases retOf node.fn.id (callBody ctx (.deco d) node.fn args st).1 with
  | none => exact h
  | some ret =>
    simp only
    split
    · exact extractSlots_dgKeep ctx.env ret node.results _ k h
    · exact h

theorem dg_leaf (ctx : Ctx) : LeafRel2 ctx DG where
  refl := DG.refl
  trans := DG.trans
  toReg h := h.1
  setOnStack st n := dg_same _ _ (regFrame_modCtor st n _ (fun _ => ⟨rfl, rfl, rfl, rfl, rfl, rfl, rfl⟩)) rfl
  clearOnStack st n := dg_same _ _ (regFrame_modCtor st n _ (fun _ => ⟨rfl, rfl, rfl, rfl, rfl, rfl, rfl⟩)) rfl
  ctorTail st n node args _ := dg_ctorTail ctx st n node args
  decoOnStack st d := dg_same _ _ (regFrame_modDeco st d _ (fun _ => ⟨rfl, rfl, rfl, rfl, rfl⟩)) rfl
  decoFinally st d := dg_same _ _ (regFrame_modDeco st d _ (fun x => by split <;> exact ⟨rfl, rfl, rfl, rfl, rfl⟩)) rfl
  decoTail st d node args _ := dg_decoTail ctx st d node args

mutual
/-- the non-soft value groups of a parameter -/
def hardGroups : Param → List Key
  | .single _ _ => []
  | .grouped _ k soft _ => if soft then [] else [k]
  | .object _ fs => hardGroupsL fs
def hardGroupsL : List Param → List Key
  | [] => []
  | p :: ps => hardGroups p ++ hardGroupsL ps
end

theorem mem_hardGroupsL {k : Key} : ∀ {ps : List Param}, k ∈ hardGroupsL ps ↔ ∃ p ∈ ps, k ∈ hardGroups p
  | [] => by simp [hardGroupsL]
  | p :: ps => by
    simp only [hardGroupsL, List.mem_append, List.mem_cons, exists_eq_or_imp, mem_hardGroupsL (ps := ps)]

/-- group `k`, seen from scope `c`, is decorated on the path, or every provider of it on the path is built -/
def GroupBuilt (st : St) (c : Nat) (k : Key) : Prop :=
  (∃ s ∈ st.ancestors c, aget (st.scope s).decorators k ≠ none ∨ (aget (st.scope s).decoratedGroups k).isSome = true) ∨
  (∀ s ∈ st.ancestors c, ∀ n ∈ agetL (st.scope s).providers k, (st.ctor n).called = true)

theorem GroupBuilt.mono {a b : St} {c : Nat} {k : Key} (h : GroupBuilt a c k) (hd : DG a b)
    (hm : ∀ n, (a.ctor n).called = true → (b.ctor n).called = true) : GroupBuilt b c k := by
  have hanc := regFrame_ancestors hd.1 c
  rcases h with ⟨s, hs, hv⟩ | h
  · refine Or.inl ⟨s, by rw [← hanc]; exact hs, ?_⟩
    rcases hv with hv | hv
    · left; rw [← (hd.1.2.1 s).2.2.2.1]; exact hv
    · right; exact hd.2 s k hv
  · refine Or.inr (fun s hs n hn => ?_)
    rw [← hanc] at hs
    rw [← (hd.1.2.1 s).2.2.1] at hn
    exact hm n (h s hs n hn)

end Dig

namespace Dig

section
variable (ctx : Ctx) (L L' : Nat)

theorem dg_engine (fuel : Nat) :
    (∀ k soft c st, DG st (buildGroup ctx fuel k soft c st).2) ∧ (∀ p c st, DG st (buildParam ctx fuel p c st).2) :=
  ⟨(engine_pres2 ctx (dg_leaf ctx) fuel).2.2.2.1, (engine_pres2 ctx (dg_leaf ctx) fuel).2.2.2.2.1⟩

/-- one non-soft group parameter that has been delivered -/
theorem buildGroup_built (fuel : Nat) (k : Key) (c : Nat) (st : St) (hv : VL L L' st) (v : Val) (st' : St)
    (h : buildGroup ctx fuel k false c st = (.ok v, st')) : GroupBuilt st' c k := by
  cases fuel with
  | zero => simp [buildGroup, EM.fail] at h
  | succ fuel =>
    have hfl : Flags st st' := by
      have := (engine_flags ctx L L' (fuel + 1)).2.2.2.1 k false c st hv
      rw [h] at this; exact this
    have hdg : DG st st' := by
      have := (dg_engine ctx (fuel + 1)).1 k false c st
      rw [h] at this; exact this
    have hanc := regFrame_ancestors hfl.reg c
    by_cases hd' : ∃ s ∈ st.ancestors c, aget (st.scope s).decorators k ≠ none
    · left
      obtain ⟨s, hs, hne⟩ := hd'
      exact ⟨s, by rw [← hanc]; exact hs, Or.inl (by rw [← (hfl.reg.2.1 s).2.2.2.1]; exact hne)⟩
    · have hd : ∀ s ∈ st.ancestors c, aget (st.scope s).decorators k = none :=
        fun s hs => Classical.byContradiction (fun hne => hd' ⟨s, hs, hne⟩)
      by_cases hg' : ∃ s ∈ st.ancestors c, aget (st.scope s).decoratedGroups k ≠ none
      · left
        obtain ⟨s, hs, hne⟩ := hg'
        refine ⟨s, by rw [← hanc]; exact hs, Or.inr (hdg.2 s k ?_)⟩
        cases hq : aget (st.scope s).decoratedGroups k with
        | none => exact absurd hq hne
        | some _ => rfl
      · have hg : ∀ s ∈ st.ancestors c, aget (st.scope s).decoratedGroups k = none :=
          fun s hs => Classical.byContradiction (fun hne => hg' ⟨s, hs, hne⟩)
        -- undecorated: every provider on the path has been called
        right
        rw [buildGroup_undecorated ctx fuel k false c st hd hg] at h
        simp only [EM.bind, Bool.false_eq_true, if_false] at h
        split at h
        · rename_i u st5 hloop
          injection h with _ e2
          subst e2
          cases u
          intro s hs n hn
          rw [← hanc] at hs
          rw [← (hfl.reg.2.1 s).2.2.1] at hn
          exact groupProviders_called ctx L L' fuel k _ st st5 hv hloop s hs n hn
        · injection h with e1 _; cases e1

/-- **every non-soft value group of a parameter that has been built is decorated on the path or has all its providers on
    the path built** -/
theorem groups_built : ∀ (fuel : Nat) (p : Param) (c : Nat) (st : St), VL L L' st →
    ∀ (v : Val) (st' : St), buildParam ctx fuel p c st = (.ok v, st') → ∀ k ∈ hardGroups p, GroupBuilt st' c k := by
  intro fuel
  induction fuel with
  | zero => intro p c st _ v st' h; simp [buildParam, EM.fail] at h
  | succ fuel ih =>
    intro p c st hv v st' h k hk
    cases p with
    | single k' opt => simp [hardGroups] at hk
    | grouped ty k' soft pg =>
      cases soft with
      | true => simp [hardGroups] at hk
      | false =>
        simp only [hardGroups, Bool.false_eq_true, if_false, List.mem_singleton] at hk
        subst hk
        simp only [buildParam] at h
        exact buildGroup_built ctx L L' fuel k c st hv v st' h
    | object ty fs =>
      simp only [buildParam] at h
      simp only [hardGroups] at hk
      obtain ⟨f, hf, hkf⟩ := mem_hardGroupsL.mp hk
      -- building a list of fields keeps the registry valid and what was built stays built
      have hstep : ∀ (l : List Param) (s0 : St), VL L L' s0 →
          VL L L' (mapM' l (fun f => buildParam ctx fuel f c) s0).2 ∧
          ((∃ bs, (mapM' l (fun f => buildParam ctx fuel f c) s0).1 = .ok bs) →
            ∀ g ∈ l, VL L L' (mapM' l (fun f => buildParam ctx fuel f c) s0).2 ∧
              ∀ k ∈ hardGroups g, GroupBuilt (mapM' l (fun f => buildParam ctx fuel f c) s0).2 c k) :=
        fun l s0 hs0 => inv_mapM_post (VL L L') (fun g s => VL L L' s ∧ ∀ k ∈ hardGroups g, GroupBuilt s c k) l _
          (fun g _ s hs => by
            have hfl := (engine_flags ctx L L' fuel).2.2.2.2.1 g c s hs
            refine ⟨VL.step hs hfl, fun ⟨b, hb⟩ => ⟨VL.step hs hfl, fun k hk => ?_⟩⟩
            cases hbp : buildParam ctx fuel g c s with
            | mk r s2 =>
              rw [hbp] at hb; simp only at hb; subst hb
              exact ih g c s hs b s2 hbp k hk)
          (fun g g2 _ s hq => by
            have hfl := (engine_flags ctx L L' fuel).2.2.2.2.1 g2 c s hq.1
            exact ⟨VL.step hq.1 hfl, fun k hk => (hq.2 k hk).mono ((dg_engine ctx fuel).2 g2 c s) hfl.ctorMono⟩) s0 hs0
      simp only [EM.bind] at h
      obtain ⟨hv1, hp1⟩ := hstep (fs.filter fun f => !isSoft f) st hv
      cases h1 : mapM' (fs.filter fun f => !isSoft f) (fun f => buildParam ctx fuel f c) st with
      | mk r1 s1 =>
        rw [h1] at h hv1 hp1
        cases r1 with
        | error e => simp at h
        | ok hard =>
          simp only at h
          obtain ⟨hv2, _⟩ := hstep (fs.filter isSoft) s1 hv1
          have hfl2 : Flags s1 (mapM' (fs.filter isSoft) (fun f => buildParam ctx fuel f c) s1).2 := by
            have := (engine_flags ctx L L' (fuel + 1)).2.2.2.2.2 (fs.filter isSoft) c s1 hv1
            simpa [buildList] using this
          have hdg2 : DG s1 (mapM' (fs.filter isSoft) (fun f => buildParam ctx fuel f c) s1).2 := by
            have := (engine_pres2 ctx (dg_leaf ctx) (fuel + 1)).2.2.2.2.2 (fs.filter isSoft) c s1
            simpa [buildList] using this
          cases h2 : mapM' (fs.filter isSoft) (fun f => buildParam ctx fuel f c) s1 with
          | mk r2 s2 =>
            rw [h2] at h hfl2 hdg2
            cases r2 with
            | error e => simp at h
            | ok soft =>
              simp only [EM.pure] at h
              injection h with _ e2
              subst e2
              have hns : (!isSoft f) = true := by
                cases f with
                | single _ _ => rfl
                | grouped _ _ sf _ =>
                  cases sf with
                  | true => simp [hardGroups] at hkf
                  | false => rfl
                | object _ _ => rfl
              exact ((hp1 ⟨hard, rfl⟩ f (List.mem_filter.mpr ⟨hf, hns⟩)).2 k hkf).mono hdg2 hfl2.ctorMono

/-- the same for a parameter list -/
theorem groups_built_list (fuel : Nat) (ps : List Param) (c : Nat) (st : St) (hv : VL L L' st) (vs : List Val) (st' : St)
    (h : buildList ctx fuel ps c st = (.ok vs, st')) : ∀ k ∈ hardGroupsL ps, GroupBuilt st' c k := by
  cases fuel with
  | zero => simp [buildList, EM.fail] at h
  | succ fuel =>
    simp only [buildList] at h
    intro k hk
    obtain ⟨f, hf, hkf⟩ := mem_hardGroupsL.mp hk
    have := inv_mapM_post (VL L L') (fun g s => VL L L' s ∧ ∀ k ∈ hardGroups g, GroupBuilt s c k) ps
      (fun p => buildParam ctx fuel p c)
      (fun g _ s hs => by
        have hfl := (engine_flags ctx L L' fuel).2.2.2.2.1 g c s hs
        refine ⟨VL.step hs hfl, fun ⟨b, hb⟩ => ⟨VL.step hs hfl, fun k hk => ?_⟩⟩
        cases hbp : buildParam ctx fuel g c s with
        | mk r s2 =>
          rw [hbp] at hb; simp only at hb; subst hb
          exact groups_built ctx L L' fuel g c s hs b s2 hbp k hk)
      (fun g g2 _ s hq => by
        have hfl := (engine_flags ctx L L' fuel).2.2.2.2.1 g2 c s hq.1
        exact ⟨VL.step hq.1 hfl, fun k hk => (hq.2 k hk).mono ((dg_engine ctx fuel).2 g2 c s) hfl.ctorMono⟩) st hv
    rw [h] at this
    exact (this.2 ⟨vs, rfl⟩ f hf).2 k hkf

end

end Dig

namespace Dig

theorem validReg_of_tables {a b : St} (h : ValidReg a) (hc : b.ctors.length = a.ctors.length) (hd : b.decos.length = a.decos.length)
    (hs : ∀ j, (b.scope j).providers = (a.scope j).providers ∧ (b.scope j).decorators = (a.scope j).decorators) : ValidReg b :=
  ⟨fun s k n hn => by rw [(hs s).1] at hn; rw [hc]; exact h.1 s k n hn,
   fun s k d hdd => by rw [(hs s).2] at hdd; rw [hd]; exact h.2 s k d hdd⟩

/-- **after a successful Invoke every non-soft value group among the invoked function's parameters is decorated on the
    path or has every provider on the path built** -/
theorem invoke_groups_built {st : St} (ctx : Ctx) (hv : ValidReg st) (fn : Fn) (s : Nat) (info : Bool)
    (hok : (apiInvoke ctx fn st s info).2.v = .ok) :
    ∃ params w, parseParams ctx.env st s fn = (.ok params, w) ∧
      ∀ k ∈ hardGroupsL params, GroupBuilt (apiInvoke ctx fn st s info).1 s k := by
  rw [apiInvoke_eq] at hok ⊢
  unfold apiInvoke' at hok ⊢
  cases hnf : fn.nonfunc with
  | some _ => rw [hnf] at hok; simp at hok
  | none =>
    rw [hnf] at hok
    simp only at hok ⊢
    have hg := ghOnly_parseParams ctx.env st s fn
    cases hpp : parseParams ctx.env st s fn with
    | mk r w =>
      rw [hpp] at hok hg
      simp only at hok hg
      cases r with
      | error e => simp at hok
      | ok params =>
        simp only at hok ⊢
        have hvw : ValidReg w := validReg_of_tables hv (by rw [hg.1]) (by rw [hg.2.1])
          (fun j => ⟨((hg.2.2.2.2.2.2.2 j).2.2.1).symm, ((hg.2.2.2.2.2.2.2 j).2.2.2.1).symm⟩)
        have hs := shallowCheck_state s params w
        cases hsc : shallowCheck s params w with
        | mk r2 w2 =>
          rw [hsc] at hs hok; simp only at hs; subst hs
          cases r2 with
          | error f => cases f <;> simp [failToVerdict] at hok
          | ok u =>
            simp only at hok ⊢
            cases hck : invokeCheck w2 s with
            | error v =>
              rw [hck] at hok
              simp only at hok
              exfalso
              unfold invokeCheck at hck
              split at hck
              · cases hck
              · split at hck
                · cases hck
                · injection hck with e; rw [← e] at hok; cases hok
                · injection hck with e; rw [← e] at hok; cases hok
            | ok w3 =>
              rw [hck] at hok
              simp only at hok ⊢
              have hv3 : ValidReg w3 := by
                unfold invokeCheck at hck
                split at hck
                · injection hck with e; rw [← e]; exact hvw
                · split at hck
                  · injection hck with e; rw [← e]
                    exact validReg_of_tables hvw rfl rfl (fun j => by rw [scope_modScope]; split <;> exact ⟨rfl, rfl⟩)
                  · cases hck
                  · cases hck
              unfold invokeRun at hok ⊢
              have hws := wrapErr_state (buildList ctx (engineFuel w3 params) params s) DErr.argsFailed w3
              cases hbl : EM.wrapErr (buildList ctx (engineFuel w3 params) params s) DErr.argsFailed w3 with
              | mk r4 w4 =>
                rw [hbl] at hok hws
                simp only at hws
                cases r4 with
                | error f => cases f <;> simp [failToVerdict] at hok
                | ok args =>
                  simp only
                  have hb2 : buildList ctx (engineFuel w3 params) params s w3 = (.ok args, w4) := by
                    unfold EM.wrapErr at hbl
                    cases hb3 : buildList ctx (engineFuel w3 params) params s w3 with
                    | mk r s' =>
                      rw [hb3] at hbl
                      cases r with
                      | ok v => simp only at hbl; exact hbl
                      | error f => cases f <;> simp at hbl
                  have hgb := groups_built_list ctx w3.ctors.length w3.decos.length (engineFuel w3 params) params s w3
                    ⟨hv3, rfl, rfl⟩ args w4 hb2
                  refine ⟨params, w2, rfl, fun k hk => ?_⟩
                  have hf := callBody_fields ctx .invoked fn args w4
                  have hreg : RegFrame w4 (callBody ctx .invoked fn args w4).2 :=
                    regFrame_of_same _ _ hf.1.symm hf.2.1.symm hf.2.2.1.symm hf.2.2.2.symm
                  exact (hgb k hk).mono (dg_same _ _ hreg hf.1)
                    (fun n hc => by
                      have : (callBody ctx .invoked fn args w4).2.ctor n = w4.ctor n := by simp only [St.ctor, hf.2.1]
                      rw [this]; exact hc)

end Dig
