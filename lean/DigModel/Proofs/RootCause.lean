import DigModel.Proofs.Body
/-
  Error transparency through the whole resolver (C13, C07): whatever the registry and the caches are,

  * a resolver call that returns normally has logged no failing execution;
  * a resolver call that returns an error whose root cause is the error of execution `x` of `f` (or, with
    RecoverFromPanics, its panic) has logged exactly one failing execution, that one, and nothing but callback
    events after it; an error with a root cause of dig's own has logged no failing execution;
  * a propagating panic of execution `x` of `f` is the only failing execution logged.

  In particular an optional parameter never absorbs a user function's failure (`hasMissingDeps = false` travels with
  every user-rooted error), and the first failure is the failure reported.
-/
namespace Dig

def Event.isFail : Event → Bool
  | .exit _ _ _ .ok => false
  | .exit _ _ _ _ => true
  | _ => false

def Event.isCb : Event → Bool
  | .cb _ _ _ _ _ => true
  | _ => false

def Clean (l : List Event) : Prop := ∀ e ∈ l, e.isFail = false

/-- `l` contains exactly one failing execution, that of `f`'s execution `x` for node `who`, ending as `k`;
    only callback events follow it -/
def FailAt (l : List Event) (who : Who) (f x : Nat) (k : ExitKind) : Prop :=
  ∃ l1 cbs, l = l1 ++ Event.exit who f x k :: cbs ∧ Clean l1 ∧ (∀ e ∈ cbs, e.isCb = true) ∧ k ≠ .ok

def DigRoot (e : DErr) : Prop := ∀ f x, e.rootCause ≠ .user f x ∧ e.rootCause ≠ .panicErr f x

/-- the two failures the resolver produces by itself: a missing type, a constructor needed for its own arguments -/
def EngRoot (e : DErr) : Prop := (∃ ks, e.rootCause = .missingTypes ks) ∨ (∃ p s, e.rootCause = .cycle p s)

theorem EngRoot.digRoot {e : DErr} (h : EngRoot e) : DigRoot e := by
  intro f x
  rcases h with ⟨ks, h⟩ | ⟨p, s, h⟩ <;> (rw [h]; constructor <;> (intro hc; cases hc))

def Good {α : Type} (ctx : Ctx) (l : List Event) : Except Fail α → Prop
  | .ok _ => Clean l
  | .error (.err e) => (Clean l ∧ EngRoot e) ∨
      (e.hasMissingDeps = false ∧ ∃ who f x, who ≠ Who.invoked ∧
        ((e.rootCause = .user f x ∧ (ctx.beh f x).k = .err ∧ FailAt l who f x .err) ∨
         (e.rootCause = .panicErr f x ∧ ctx.cfg.recover = true ∧ (ctx.beh f x).k = .panic ∧ FailAt l who f x .panic)))
  | .error (.panic f x) => ctx.cfg.recover = false ∧ (ctx.beh f x).k = .panic ∧ ∃ who, who ≠ Who.invoked ∧ FailAt l who f x .panic
  | .error _ => True

def ER {α : Type} (ctx : Ctx) (m : EM α) (st : St) : Prop :=
  ∃ l, (m st).2.log = st.log ++ l ∧ Good ctx l (m st).1

theorem Clean.nil : Clean [] := by intro e he; cases he
theorem Clean.append {a b : List Event} (ha : Clean a) (hb : Clean b) : Clean (a ++ b) := by
  intro e he
  rcases List.mem_append.mp he with h | h
  · exact ha e h
  · exact hb e h

theorem FailAt.prepend {l1 l : List Event} {who : Who} {f x : Nat} {k : ExitKind} (h1 : Clean l1)
    (h : FailAt l who f x k) : FailAt (l1 ++ l) who f x k := by
  obtain ⟨a, cbs, e, ha, hc, hk⟩ := h
  exact ⟨l1 ++ a, cbs, by rw [e, List.append_assoc], h1.append ha, hc, hk⟩

theorem Good.prepend {α : Type} {ctx : Ctx} {l1 l : List Event} (h1 : Clean l1) :
    ∀ {r : Except Fail α}, Good ctx l r → Good ctx (l1 ++ l) r := by
  intro r h
  cases r with
  | ok a => exact h1.append h
  | error f =>
    cases f with
    | err e =>
      rcases h with ⟨hc, hd⟩ | ⟨hm, who, f, x, hw, h⟩
      · exact Or.inl ⟨h1.append hc, hd⟩
      · refine Or.inr ⟨hm, who, f, x, hw, ?_⟩
        rcases h with ⟨hr, hb, hf⟩ | ⟨hr, hrec, hb, hf⟩
        · exact Or.inl ⟨hr, hb, hf.prepend h1⟩
        · exact Or.inr ⟨hr, hrec, hb, hf.prepend h1⟩
    | panic f x =>
      obtain ⟨hrec, hb, who, hw, hf⟩ := h
      exact ⟨hrec, hb, who, hw, hf.prepend h1⟩
    | bug => trivial
    | fuel => trivial

/-- a failing outcome says the same about every result type -/
theorem Good.error_cast {α β : Type} {ctx : Ctx} {l : List Event} {f : Fail}
    (h : Good (α := α) ctx l (.error f)) : Good (α := β) ctx l (.error f) := by
  cases f <;> exact h

theorem er_pure {α : Type} (ctx : Ctx) (a : α) (st : St) : ER ctx (EM.pure a) st :=
  ⟨[], by simp [EM.pure], Clean.nil⟩

/-- a step that does not touch the log and answers normally or with an error of dig's own -/
theorem er_const {α : Type} (ctx : Ctx) (m : EM α) (st : St) (hs : (m st).2.log = st.log)
    (hr : (∃ a, (m st).1 = .ok a) ∨ (∃ e, (m st).1 = .error (.err e) ∧ EngRoot e) ∨ (m st).1 = .error .bug ∨ (m st).1 = .error .fuel) :
    ER ctx m st := by
  refine ⟨[], by simp [hs], ?_⟩
  rcases hr with ⟨a, h⟩ | ⟨e, h, hd⟩ | h | h
  · rw [h]; exact Clean.nil
  · rw [h]; exact Or.inl ⟨Clean.nil, hd⟩
  · rw [h]; trivial
  · rw [h]; trivial

theorem er_bind {α β : Type} {ctx : Ctx} {m : EM α} {f : α → EM β} {st : St} (hm : ER ctx m st)
    (hf : ∀ a s', m st = (.ok a, s') → ER ctx (f a) s') : ER ctx (EM.bind m f) st := by
  obtain ⟨l1, hl1, hg1⟩ := hm
  unfold ER EM.bind
  cases h : m st with
  | mk r s' =>
    rw [h] at hl1 hg1
    cases r with
    | error e => exact ⟨l1, hl1, hg1.error_cast⟩
    | ok a =>
      simp only
      obtain ⟨l2, hl2, hg2⟩ := hf a s' h
      refine ⟨l1 ++ l2, ?_, Good.prepend hg1 hg2⟩
      rw [hl2]; simp only at hl1; rw [hl1, List.append_assoc]

theorem hmd_paramSingle (k : Key) (c : Nat) (e : DErr) : (DErr.paramSingle k c e).hasMissingDeps = e.hasMissingDeps := by
  simp [DErr.hasMissingDeps, DErr.chain]
theorem hmd_paramGroup (k : Key) (c : Nat) (e : DErr) : (DErr.paramGroup k c e).hasMissingDeps = e.hasMissingDeps := by
  simp [DErr.hasMissingDeps, DErr.chain]
theorem hmd_argsFailed (e : DErr) : (DErr.argsFailed e).hasMissingDeps = e.hasMissingDeps := by
  simp [DErr.hasMissingDeps, DErr.chain]

theorem er_wrapErr {α : Type} {ctx : Ctx} {m : EM α} (w : DErr → DErr) {st : St}
    (hr : ∀ e, (w e).rootCause = e.rootCause) (hmd : ∀ e, (w e).hasMissingDeps = e.hasMissingDeps)
    (hm : ER ctx m st) : ER ctx (EM.wrapErr m w) st := by
  obtain ⟨l, hl, hg⟩ := hm
  unfold ER EM.wrapErr
  cases h : m st with
  | mk r s' =>
    rw [h] at hl hg
    cases r with
    | ok a => exact ⟨l, hl, hg⟩
    | error f =>
      cases f with
      | err e =>
        refine ⟨l, hl, ?_⟩
        simp only
        rcases hg with ⟨hc, hd⟩ | ⟨hm, who, f, x, hw, hh⟩
        · exact Or.inl ⟨hc, by unfold EngRoot; rw [hr e]; exact hd⟩
        · refine Or.inr ⟨by rw [hmd e]; exact hm, who, f, x, hw, ?_⟩
          rw [hr e]; exact hh
      | panic f x => exact ⟨l, hl, hg⟩
      | bug => exact ⟨l, hl, hg⟩
      | fuel => exact ⟨l, hl, hg⟩

theorem er_finally {α : Type} {ctx : Ctx} {m : EM α} (fin : St → St) {st : St} (hfin : ∀ s, (fin s).log = s.log)
    (hm : ER ctx m st) : ER ctx (EM.finally_ m fin) st := by
  obtain ⟨l, hl, hg⟩ := hm
  unfold ER EM.finally_
  cases h : m st with
  | mk r s' =>
    rw [h] at hl hg
    exact ⟨l, by simp only [hfin]; exact hl, hg⟩

/-- running from a state with the same log -/
theorem er_from {α : Type} {ctx : Ctx} {m : EM α} {st st0 : St} (h0 : st.log = st0.log) (hm : ER ctx m st) :
    ∃ l, (m st).2.log = st0.log ++ l ∧ Good ctx l (m st).1 := by
  obtain ⟨l, hl, hg⟩ := hm
  exact ⟨l, by rw [← h0]; exact hl, hg⟩

theorem er_forEachM {α : Type} (ctx : Ctx) (xs : List α) (f : α → EM Unit) (hf : ∀ x ∈ xs, ∀ s, ER ctx (f x) s) :
    ∀ st, ER ctx (forEachM xs f) st := by
  induction xs with
  | nil => intro st; simp only [forEachM]; exact er_pure ctx () st
  | cons x rest ih =>
    intro st
    simp only [forEachM]
    exact er_bind (hf x (by simp) st) (fun _ s' _ => ih (fun y hy => hf y (by simp [hy])) s')

theorem er_firstM {α β : Type} (ctx : Ctx) (xs : List α) (f : α → EM (Option β)) (hf : ∀ x ∈ xs, ∀ s, ER ctx (f x) s) :
    ∀ st, ER ctx (firstM xs f) st := by
  induction xs with
  | nil => intro st; simp only [firstM]; exact er_pure ctx none st
  | cons x rest ih =>
    intro st
    simp only [firstM]
    refine er_bind (hf x (by simp) st) ?_
    intro r s' _
    cases r with
    | some b => exact er_pure ctx (some b) s'
    | none => exact ih (fun y hy => hf y (by simp [hy])) s'

theorem er_mapM {α β : Type} (ctx : Ctx) (xs : List α) (f : α → EM β) (hf : ∀ x ∈ xs, ∀ s, ER ctx (f x) s) :
    ∀ st, ER ctx (mapM' xs f) st := by
  induction xs with
  | nil => intro st; simp only [mapM']; exact er_pure ctx [] st
  | cons x rest ih =>
    intro st
    simp only [mapM']
    refine er_bind (hf x (by simp) st) ?_
    intro b s' _
    refine er_bind (ih (fun y hy => hf y (by simp [hy])) s') ?_
    intro bs s'' _
    exact er_pure ctx _ s''

end Dig

namespace Dig

/-- the result of a body and the kind of its exit event agree -/
theorem bodyRes_kind (ctx : Ctx) (fn : Fn) (st : St) :
    match bodyRes ctx fn st with
    | .panic x => x = st.execCount fn.id ∧ exitKind ctx fn (ctx.beh fn.id (st.execCount fn.id)) = .panic ∧
        (ctx.beh fn.id (st.execCount fn.id)).k = .panic
    | .err x _ => x = st.execCount fn.id ∧ exitKind ctx fn (ctx.beh fn.id (st.execCount fn.id)) = .err ∧
        (ctx.beh fn.id (st.execCount fn.id)).k = .err
    | .ok _ _ => exitKind ctx fn (ctx.beh fn.id (st.execCount fn.id)) = .ok
    | .dry => False := by
  unfold bodyRes exitKind
  cases hk : (ctx.beh fn.id (st.execCount fn.id)).k
  · simp [hk]
  · by_cases h : (errOuts ctx.env fn).isEmpty <;> simp [h, hk]
  · simp [hk]

theorem clean_enter (who : Who) (f x : Nat) (args : List Val) : Clean [Event.enter who f x args] := by
  intro e he
  simp only [List.mem_singleton] at he
  subst he; rfl

theorem clean_body_ok (who : Who) (f x : Nat) (args : List Val) (l : List Event)
    (hl : l = [] ∨ ∃ op w g err rt, l = [Event.cb op w g err rt]) :
    Clean ([Event.enter who f x args, Event.exit who f x .ok] ++ l) := by
  intro e he
  simp only [List.cons_append, List.nil_append, List.mem_cons] at he
  rcases he with rfl | rfl | he
  · rfl
  · rfl
  · rcases hl with rfl | ⟨op, w, g, err, rt, rfl⟩
    · cases he
    · simp only [List.mem_singleton] at he; subst he; rfl

theorem failAt_body (who : Who) (f x : Nat) (args : List Val) (k : ExitKind) (hk : k ≠ .ok) (l : List Event)
    (hl : l = [] ∨ ∃ op w g err rt, l = [Event.cb op w g err rt]) :
    FailAt ([Event.enter who f x args, Event.exit who f x k] ++ l) who f x k := by
  refine ⟨[Event.enter who f x args], l, rfl, clean_enter who f x args, ?_, hk⟩
  intro e he
  rcases hl with rfl | ⟨op, w, g, err, rt, rfl⟩
  · cases he
  · simp only [List.mem_singleton] at he; subst he; rfl

theorem er_ctorTail (ctx : Ctx) (n : Nat) (node : CtorNode) (args : List Val) (st : St) :
    ER ctx (ctorTail ctx n node args) st := by
  unfold ER ctorTail
  simp only
  by_cases hd : ctx.cfg.dry = true
  · rw [callBody_dry ctx hd]
    simp only [ctorOutcome]
    obtain ⟨l, h1, _, h3⟩ := runCallback_log node.cb (.ctor n) node.fn.id st.clock none (ctorCommit ctx n node .dry st)
    refine ⟨l, by rw [h1, (ctorCommit_fields ctx n node .dry st).1], ?_⟩
    intro e he
    rcases h3 with rfl | ⟨op, rt, rfl⟩
    · cases he
    · simp only [List.mem_singleton] at he; subst he; rfl
  · have hnd : ctx.cfg.dry = false := by simpa using hd
    rw [callBody_spec ctx hnd]
    simp only
    have hk := bodyRes_kind ctx node.fn st
    obtain ⟨l, h1, _, h3⟩ := runCallback_log node.cb (.ctor n) node.fn.id st.clock
      (ctorOutcome ctx node.fn.id (bodyRes ctx node.fn st)).2
      (ctorCommit ctx n node (bodyRes ctx node.fn st) (afterBody ctx (.ctor n) node.fn args st))
    have hl3 : l = [] ∨ ∃ op w g err rt, l = [Event.cb op w g err rt] := by
      rcases h3 with h | ⟨op, rt, h⟩
      · exact Or.inl h
      · exact Or.inr ⟨op, _, _, _, rt, h⟩
    have hlog : (runCallback node.cb (.ctor n) node.fn.id st.clock (ctorOutcome ctx node.fn.id (bodyRes ctx node.fn st)).2
        (ctorCommit ctx n node (bodyRes ctx node.fn st) (afterBody ctx (.ctor n) node.fn args st))).log =
        st.log ++ (bodyEvents ctx (.ctor n) node.fn args st ++ l) := by
      rw [h1, (ctorCommit_fields ctx n node _ _).1]
      show (st.log ++ bodyEvents ctx (.ctor n) node.fn args st) ++ l = _
      rw [List.append_assoc]
    refine ⟨_, hlog, ?_⟩
    unfold bodyEvents
    cases hb : bodyRes ctx node.fn st with
    | dry => rw [hb] at hk; exact hk.elim
    | ok x len =>
      rw [hb] at hk
      simp only [ctorOutcome, hk]
      exact clean_body_ok _ _ _ _ l hl3
    | err x out =>
      rw [hb] at hk
      obtain ⟨hx, hk, hbk⟩ := hk
      simp only [ctorOutcome, hk]
      refine Or.inr ⟨by simp [DErr.hasMissingDeps, DErr.chain], .ctor n, node.fn.id, x, (by intro hc; cases hc), Or.inl ⟨rfl, by rw [hx]; exact hbk, ?_⟩⟩
      rw [hx]
      exact failAt_body _ _ _ _ _ (by intro hc; cases hc) l hl3
    | panic x =>
      rw [hb] at hk
      obtain ⟨hx, hk, hbk⟩ := hk
      simp only [ctorOutcome, hk]
      by_cases hrec : ctx.cfg.recover = true
      · simp only [hrec, if_true]
        refine Or.inr ⟨by simp [DErr.hasMissingDeps, DErr.chain], .ctor n, node.fn.id, x, (by intro hc; cases hc), Or.inr ⟨rfl, hrec, by rw [hx]; exact hbk, ?_⟩⟩
        rw [hx]
        exact failAt_body _ _ _ _ _ (by intro hc; cases hc) l hl3
      · have hrec' : ctx.cfg.recover = false := by simpa using hrec
        simp only [hrec', Bool.false_eq_true, if_false]
        refine ⟨hrec', by rw [hx]; exact hbk, .ctor n, (by intro hc; cases hc), ?_⟩
        rw [hx]
        exact failAt_body _ _ _ _ _ (by intro hc; cases hc) l hl3

theorem er_decoTail (ctx : Ctx) (d : Nat) (node : DecoNode) (args : List Val) (st : St) :
    ER ctx (decoTail ctx d node args) st := by
  unfold ER decoTail
  simp only
  by_cases hd : ctx.cfg.dry = true
  · rw [callBody_dry ctx hd]
    simp only [decoOutcome]
    obtain ⟨l, h1, _, h3⟩ := runCallback_log node.cb (.deco d) node.fn.id st.clock none (decoCommit ctx d node .dry st)
    refine ⟨l, by rw [h1, (decoCommit_fields ctx d node .dry st).1], ?_⟩
    intro e he
    rcases h3 with rfl | ⟨op, rt, rfl⟩
    · cases he
    · simp only [List.mem_singleton] at he; subst he; rfl
  · have hnd : ctx.cfg.dry = false := by simpa using hd
    rw [callBody_spec ctx hnd]
    simp only
    have hk := bodyRes_kind ctx node.fn st
    obtain ⟨l, h1, _, h3⟩ := runCallback_log node.cb (.deco d) node.fn.id st.clock
      (decoOutcome ctx node.fn.id (bodyRes ctx node.fn st)).2
      (decoCommit ctx d node (bodyRes ctx node.fn st) (afterBody ctx (.deco d) node.fn args st))
    have hl3 : l = [] ∨ ∃ op w g err rt, l = [Event.cb op w g err rt] := by
      rcases h3 with h | ⟨op, rt, h⟩
      · exact Or.inl h
      · exact Or.inr ⟨op, _, _, _, rt, h⟩
    have hlog : (runCallback node.cb (.deco d) node.fn.id st.clock (decoOutcome ctx node.fn.id (bodyRes ctx node.fn st)).2
        (decoCommit ctx d node (bodyRes ctx node.fn st) (afterBody ctx (.deco d) node.fn args st))).log =
        st.log ++ (bodyEvents ctx (.deco d) node.fn args st ++ l) := by
      rw [h1, (decoCommit_fields ctx d node _ _).1]
      show (st.log ++ bodyEvents ctx (.deco d) node.fn args st) ++ l = _
      rw [List.append_assoc]
    refine ⟨_, hlog, ?_⟩
    unfold bodyEvents
    cases hb : bodyRes ctx node.fn st with
    | dry => rw [hb] at hk; exact hk.elim
    | ok x len =>
      rw [hb] at hk
      simp only [decoOutcome, hk]
      exact clean_body_ok _ _ _ _ l hl3
    | err x out =>
      rw [hb] at hk
      obtain ⟨hx, hk, hbk⟩ := hk
      simp only [decoOutcome, hk]
      refine Or.inr ⟨by simp [DErr.hasMissingDeps, DErr.chain], .deco d, node.fn.id, x, (by intro hc; cases hc), Or.inl ⟨rfl, by rw [hx]; exact hbk, ?_⟩⟩
      rw [hx]
      exact failAt_body _ _ _ _ _ (by intro hc; cases hc) l hl3
    | panic x =>
      rw [hb] at hk
      obtain ⟨hx, hk, hbk⟩ := hk
      simp only [decoOutcome, hk]
      by_cases hrec : ctx.cfg.recover = true
      · simp only [hrec, if_true]
        refine Or.inr ⟨by simp [DErr.hasMissingDeps, DErr.chain], .deco d, node.fn.id, x, (by intro hc; cases hc), Or.inr ⟨rfl, hrec, by rw [hx]; exact hbk, ?_⟩⟩
        rw [hx]
        exact failAt_body _ _ _ _ _ (by intro hc; cases hc) l hl3
      · have hrec' : ctx.cfg.recover = false := by simpa using hrec
        simp only [hrec', Bool.false_eq_true, if_false]
        refine ⟨hrec', by rw [hx]; exact hbk, .deco d, (by intro hc; cases hc), ?_⟩
        rw [hx]
        exact failAt_body _ _ _ _ _ (by intro hc; cases hc) l hl3

end Dig

namespace Dig

theorem engRoot_missing (ks : List Key) : EngRoot (.missingDeps (.missingTypes ks)) := Or.inl ⟨ks, rfl⟩
theorem engRoot_missingTypes (ks : List Key) : EngRoot (.missingTypes ks) := Or.inl ⟨ks, rfl⟩
theorem engRoot_cycle (p : List Nat) (s : Nat) : EngRoot (.cycle p s) := Or.inr ⟨p, s, rfl⟩
theorem digRoot_missing (ks : List Key) : DigRoot (.missingDeps (.missingTypes ks)) := (engRoot_missing ks).digRoot
theorem digRoot_missingTypes (ks : List Key) : DigRoot (.missingTypes ks) := (engRoot_missingTypes ks).digRoot
theorem digRoot_cycle (p : List Nat) (s : Nat) : DigRoot (.cycle p s) := (engRoot_cycle p s).digRoot

theorem er_shallowCheck (ctx : Ctx) (c : Nat) (ps : List Param) (st : St) : ER ctx (shallowCheck c ps) st := by
  apply er_const
  · unfold shallowCheck; split <;> rfl
  · unfold shallowCheck
    split
    · exact Or.inl ⟨(), rfl⟩
    · exact Or.inr (Or.inl ⟨_, rfl, engRoot_missing _⟩)

/-- the provider step of `paramSingle.Build`: an optional parameter absorbs only failures of dig's own -/
theorem er_providerStep (ctx : Ctx) (env : TyEnv) (k : Key) (opt : Bool) (cid : Nat) (m : EM Unit) (st : St)
    (h : ER ctx m st) : ER ctx (fun s => providerStep env k opt cid (m s)) st := by
  obtain ⟨l, hl, hg⟩ := h
  unfold ER
  simp only
  cases hm : m st with
  | mk r s' =>
    rw [hm] at hl hg
    cases r with
    | ok u => exact ⟨l, hl, hg⟩
    | error f =>
      cases f with
      | err e =>
        simp only [providerStep]
        by_cases hc : (e.hasMissingDeps && opt) = true
        · rw [if_pos hc]
          refine ⟨l, hl, ?_⟩
          rcases hg with ⟨hcl, _⟩ | ⟨hmd, _⟩
          · exact hcl
          · rw [hmd] at hc; simp at hc
        · rw [if_neg hc]
          refine ⟨l, hl, ?_⟩
          rcases hg with ⟨hcl, hd⟩ | ⟨hmd, who, f, x, hw, hh⟩
          · exact Or.inl ⟨hcl, hd⟩
          · exact Or.inr ⟨by rw [hmd_paramSingle]; exact hmd, who, f, x, hw, hh⟩
      | panic f x => exact ⟨l, hl, hg⟩
      | bug => exact ⟨l, hl, hg⟩
      | fuel => exact ⟨l, hl, hg⟩

/-- **error transparency of the whole resolver**, from any state -/
theorem engine_root (ctx : Ctx) :
    ∀ fuel,
      (∀ n c st, ER ctx (callCtor ctx fuel n c) st) ∧
      (∀ d s st, ER ctx (callDeco ctx fuel d s) st) ∧
      (∀ k opt c st, ER ctx (buildSingle ctx fuel k opt c) st) ∧
      (∀ k soft c st, ER ctx (buildGroup ctx fuel k soft c) st) ∧
      (∀ p c st, ER ctx (buildParam ctx fuel p c) st) ∧
      (∀ ps c st, ER ctx (buildList ctx fuel ps c) st) := by
  intro fuel
  induction fuel with
  | zero =>
    refine ⟨?_, ?_, ?_, ?_, ?_, ?_⟩ <;> intros <;> apply er_const
    · simp only [callCtor, EM.fail]
    · simp only [callCtor, EM.fail]; exact Or.inr (Or.inr (Or.inr trivial))
    · simp only [callDeco, EM.fail]
    · simp only [callDeco, EM.fail]; exact Or.inr (Or.inr (Or.inr trivial))
    · simp only [buildSingle, EM.fail]
    · simp only [buildSingle, EM.fail]; exact Or.inr (Or.inr (Or.inr trivial))
    · simp only [buildGroup, EM.fail]
    · simp only [buildGroup, EM.fail]; exact Or.inr (Or.inr (Or.inr trivial))
    · simp only [buildParam, EM.fail]
    · simp only [buildParam, EM.fail]; exact Or.inr (Or.inr (Or.inr trivial))
    · simp only [buildList, EM.fail]
    · simp only [buildList, EM.fail]; exact Or.inr (Or.inr (Or.inr trivial))
  | succ fuel ih =>
    obtain ⟨ihC, ihD, ihS, ihG, ihP, ihL⟩ := ih
    refine ⟨?_, ?_, ?_, ?_, ?_, ?_⟩
    · -- callCtor
      intro n c st
      unfold ER
      simp only [callCtor]
      split
      · exact ⟨[], by simp, Clean.nil⟩
      · split
        · exact ⟨[], by simp, Or.inl ⟨Clean.nil, engRoot_cycle _ _⟩⟩
        · have hlog : (st.modCtor n fun x => { x with onStack := true }).log = st.log := rfl
          refine er_from hlog (er_finally _ (fun _ => rfl) (er_bind (er_shallowCheck _ c _ _) ?_))
          intro _ s2 _
          refine er_bind (er_wrapErr _ (fun _ => rfl) hmd_argsFailed (ihL _ c s2)) ?_
          intro args s3 _
          exact er_ctorTail ctx n _ args s3
    · -- callDeco
      intro d s st
      unfold ER
      simp only [callDeco]
      split
      · exact ⟨[], by simp, Clean.nil⟩
      · have hlog : (st.modDeco d fun x => { x with state := .onStack }).log = st.log := rfl
        refine er_from hlog (er_finally _ (fun _ => rfl) (er_bind (er_shallowCheck _ s _ _) ?_))
        intro _ s2 _
        refine er_bind (er_wrapErr _ (fun _ => rfl) hmd_argsFailed (ihL _ _ s2)) ?_
        intro args s3 _
        exact er_decoTail ctx d _ args s3
    · -- buildSingle
      intro k opt c st
      unfold ER
      simp only [buildSingle]
      split
      · refine er_bind (er_wrapErr _ (fun _ => rfl) (hmd_paramSingle k 1) (ihD _ _ st)) ?_
        intro _ st' _
        apply er_const
        · split <;> rfl
        · split
          · exact Or.inl ⟨_, rfl⟩
          · exact Or.inr (Or.inr (Or.inl rfl))
      · split
        · exact ⟨[], by simp, Clean.nil⟩
        · split
          · exact ⟨[], by simp, Clean.nil⟩
          · split
            · exact ⟨[], by simp, Clean.nil⟩
            · exact ⟨[], by simp, Or.inl ⟨Clean.nil, engRoot_missingTypes _⟩⟩
          · rename_i pc ns _
            refine er_bind (er_firstM _ ns _ ?_ st) ?_
            · intro n _ s1
              exact er_providerStep _ ctx.env k opt _ (fun s => callCtor ctx fuel n (s1.ctor n).origS s) s1 (ihC n _ s1)
            · intro early st' _
              apply er_const
              · split
                · rfl
                · split <;> rfl
              · split
                · exact Or.inl ⟨_, rfl⟩
                · split
                  · exact Or.inl ⟨_, rfl⟩
                  · exact Or.inr (Or.inr (Or.inl rfl))
    · -- buildGroup
      intro k soft c st
      unfold ER
      simp only [buildGroup]
      refine er_bind (er_forEachM _ _ _ ?_ st) ?_
      · intro s _ s1
        unfold ER
        simp only
        split
        · split
          · exact ⟨[], by simp, Clean.nil⟩
          · exact er_wrapErr _ (fun _ => rfl) (hmd_paramGroup k _) (ihD _ s s1)
        · exact ⟨[], by simp, Clean.nil⟩
      · intro _ st2 _
        unfold ER
        simp only
        split
        · exact ⟨[], by simp, Clean.nil⟩
        · refine er_bind ?_ (fun _ s5 _ => ⟨[], by simp, Clean.nil⟩)
          cases soft with
          | true => simp only [if_true]; exact er_pure _ () st2
          | false =>
            simp only [Bool.false_eq_true, if_false]
            refine er_forEachM _ _ _ ?_ st2
            intro s _ s3
            refine er_forEachM _ _ _ ?_ s3
            intro n _ s4
            exact er_wrapErr _ (fun _ => rfl) (hmd_paramGroup k _) (ihC n _ s4)
    · -- buildParam
      intro p c st
      cases p with
      | single k opt => simp only [buildParam]; exact ihS k opt c st
      | grouped ty k soft pg => simp only [buildParam]; exact ihG k soft c st
      | object ty fs =>
        simp only [buildParam]
        refine er_bind (er_mapM _ _ _ (fun f _ s => ihP f c s) st) ?_
        intro hard s1 _
        refine er_bind (er_mapM _ _ _ (fun f _ s => ihP f c s) s1) ?_
        intro soft s2 _
        exact er_pure _ _ s2
    · -- buildList
      intro ps c st
      simp only [buildList]
      exact er_mapM _ _ _ (fun p _ s => ihP p c s) st

end Dig
