import DigModel.Proofs.DecoCommute
/-
  The swap of a Provide and an adjacent Decorate (`DecoCommute.lean`) inside a history: the two steps in either order
  (whatever functions and scopes they name, `badop` included), and any history around them.  No callbacks: a callback
  remembers the number of the operation that registered it, and the two numbers change places with the operations.
-/
namespace Dig

theorem apiProvide_opIndex (ctx : Ctx) (fn : Fn) (st : St) (i j s : Nat) (o : ProvideOpts) (ho : o.cb = false) :
    apiProvide ctx fn st i s o = apiProvide ctx fn st j s o := by
  unfold apiProvide
  simp only [ho, Bool.false_eq_true, if_false]

theorem apiDecorate_opIndex (ctx : Ctx) (fn : Fn) (st : St) (i j s : Nat) (info : Bool) :
    apiDecorate ctx fn st i s false info = apiDecorate ctx fn st j s false info := by
  unfold apiDecorate
  simp only [Bool.false_eq_true, if_false]

theorem apiProvide_len (ctx : Ctx) (fn : Fn) (st : St) (i s : Nat) (o : ProvideOpts) :
    (apiProvide ctx fn st i s o).1.scopes.length = st.scopes.length := by
  rcases apiProvide_work ctx fn st i s o with he | ⟨target, w, hw, hr | ⟨n, hr⟩⟩
  · exact he.2.2.2.2.2.2.2.1.symm
  · rw [hr]; exact hw.len
  · rw [hr]; simp [St.modScope]; exact hw.len

theorem apiDecorate_len_noGroup (ctx : Ctx) (fn : Fn) (st : St) (i s : Nat) (cb info : Bool)
    (h : ∀ t ∈ (if fn.variadic then fn.ins.dropLast else fn.ins), noGroupT t = true) :
    (apiDecorate ctx fn st i s cb info).1.scopes.length = st.scopes.length := by
  cases hnf : fn.nonfunc with
  | some v => unfold apiDecorate; simp only [hnf]
  | none =>
    rw [apiDecorate_decide ctx fn st i s cb info hnf _ (parseParams_noGroup ctx.env fn h st s)]
    cases decoDecide ctx fn i s cb info _ (st.scope s).decorators with
    | error e => rfl
    | ok x => obtain ⟨node, keys, res⟩ := x; simp [St.modScope]

theorem resetLog_of_nil (x : St) (h : x.log = []) : ({ x with log := [] } : St) = x := by
  cases x; simp only at h; subst h; rfl

theorem apiProvide_log (ctx : Ctx) (fn : Fn) (st : St) (i s : Nat) (o : ProvideOpts) :
    (apiProvide ctx fn st i s o).1.log = st.log := by
  rcases apiProvide_work ctx fn st i s o with he | ⟨target, w, hw, hr | ⟨n, hr⟩⟩
  · exact he.2.2.2.2.2.1.symm
  · rw [hr]; exact hw.log
  · rw [hr]; exact hw.log

theorem apiDecorate_log_noGroup (ctx : Ctx) (fn : Fn) (st : St) (i s : Nat) (cb info : Bool)
    (h : ∀ t ∈ (if fn.variadic then fn.ins.dropLast else fn.ins), noGroupT t = true) :
    (apiDecorate ctx fn st i s cb info).1.log = st.log := by
  cases hnf : fn.nonfunc with
  | some v => unfold apiDecorate; simp only [hnf]
  | none =>
    rw [apiDecorate_decide ctx fn st i s cb info hnf _ (parseParams_noGroup ctx.env fn h st s)]
    cases decoDecide ctx fn i s cb info _ (st.scope s).decorators with
    | error e => rfl
    | ok x => obtain ⟨node, keys, res⟩ := x; rfl

theorem step_provide_eq (ctx : Ctx) (fns : List Fn) (st : St) (i sP fP : Nat) (o : ProvideOpts) (fp : Fn)
    (hP : fnOf fns fP = some fp) (hs : sP < st.scopes.length) :
    step ctx fns st i (.provide sP fP o) =
      ((apiProvide ctx fp { st with log := [] } i sP o).1, (apiProvide ctx fp { st with log := [] } i sP o).2.toOpRes) := by
  simp only [step, hP]
  rw [if_pos (by exact hs)]

theorem step_decorate_eq (ctx : Ctx) (fns : List Fn) (st : St) (i sD fD : Nat) (cb info : Bool) (fd : Fn)
    (hD : fnOf fns fD = some fd) (hs : sD < st.scopes.length) :
    step ctx fns st i (.decorate sD fD cb info) =
      ((apiDecorate ctx fd { st with log := [] } i sD cb info).1, (apiDecorate ctx fd { st with log := [] } i sD cb info).2.toOpRes) := by
  simp only [step, hD]
  rw [if_pos (by exact hs)]

/-- two steps: a Provide and a Decorate next to each other, in either order (no callbacks: a callback remembers the
    number of the operation that registered it) -/
theorem step_provide_decorate_swap (ctx : Ctx) (fns : List Fn) (st : St) (i sP fP sD fD : Nat) (o : ProvideOpts) (info : Bool)
    (fp fd : Fn) (hP : fnOf fns fP = some fp) (hD : fnOf fns fD = some fd) (hsP : sP < st.scopes.length) (hsD : sD < st.scopes.length)
    (ho : o.cb = false) (hg : ∀ t ∈ (if fd.variadic then fd.ins.dropLast else fd.ins), noGroupT t = true) :
    (step ctx fns (step ctx fns st i (.provide sP fP o)).1 (i + 1) (.decorate sD fD false info)).1 =
      (step ctx fns (step ctx fns st i (.decorate sD fD false info)).1 (i + 1) (.provide sP fP o)).1 ∧
    (step ctx fns st i (.provide sP fP o)).2 = (step ctx fns (step ctx fns st i (.decorate sD fD false info)).1 (i + 1) (.provide sP fP o)).2 ∧
    (step ctx fns (step ctx fns st i (.provide sP fP o)).1 (i + 1) (.decorate sD fD false info)).2 =
      (step ctx fns st i (.decorate sD fD false info)).2 := by
  have hsw := provide_decorate_swap_noGroup ctx fp fd { st with log := [] } i i sP sD o false info hg
  have hlP := apiProvide_len ctx fp { st with log := [] } i sP o
  have hlD := apiDecorate_len_noGroup ctx fd { st with log := [] } i sD false info hg
  have hlogP := apiProvide_log ctx fp { st with log := [] } i sP o
  have hlogD := apiDecorate_log_noGroup ctx fd { st with log := [] } i sD false info hg
  rw [step_provide_eq ctx fns st i sP fP o fp hP hsP, step_decorate_eq ctx fns st i sD fD false info fd hD hsD]
  simp only
  rw [step_decorate_eq ctx fns _ (i + 1) sD fD false info fd hD (by rw [hlP]; exact hsD),
    step_provide_eq ctx fns _ (i + 1) sP fP o fp hP (by rw [hlD]; exact hsP)]
  simp only
  rw [resetLog_of_nil _ hlogP, resetLog_of_nil _ hlogD, apiDecorate_opIndex ctx fd _ (i + 1) i sD info,
    apiProvide_opIndex ctx fp _ (i + 1) i sP o ho]
  exact ⟨hsw.1, by rw [hsw.2.1], by rw [hsw.2.2]⟩
end Dig

namespace Dig

theorem step_resetLog (ctx : Ctx) (fns : List Fn) (st : St) (i : Nat) (op : Op) :
    step ctx fns { st with log := [] } i op = step ctx fns st i op := rfl

theorem step_provide_bad (ctx : Ctx) (fns : List Fn) (st : St) (i sP fP : Nat) (o : ProvideOpts)
    (h : fnOf fns fP = none ∨ ¬ sP < st.scopes.length) :
    step ctx fns st i (.provide sP fP o) = ({ st with log := [] }, { v := .badop }) := by
  simp only [step]
  cases hf : fnOf fns fP with
  | none => rfl
  | some fp =>
    rcases h with h | h
    · rw [hf] at h; cases h
    · simp only
      rw [if_neg (by exact h)]

theorem step_decorate_bad (ctx : Ctx) (fns : List Fn) (st : St) (i sD fD : Nat) (cb info : Bool)
    (h : fnOf fns fD = none ∨ ¬ sD < st.scopes.length) :
    step ctx fns st i (.decorate sD fD cb info) = ({ st with log := [] }, { v := .badop }) := by
  simp only [step]
  cases hf : fnOf fns fD with
  | none => rfl
  | some fd =>
    rcases h with h | h
    · rw [hf] at h; cases h
    · simp only
      rw [if_neg (by exact h)]

/-- a Provide and a Decorate next to each other in a history, in either order: the same container afterwards, the same
    two answers — whatever the functions and scopes named are (unknown function, scope out of range: `badop`) -/
theorem step_provide_decorate_swap_all (ctx : Ctx) (fns : List Fn) (st : St) (i sP fP sD fD : Nat) (o : ProvideOpts) (info : Bool)
    (ho : o.cb = false)
    (hng : ∀ fd, fnOf fns fD = some fd → ∀ t ∈ (if fd.variadic then fd.ins.dropLast else fd.ins), noGroupT t = true) :
    (step ctx fns (step ctx fns st i (.provide sP fP o)).1 (i + 1) (.decorate sD fD false info)).1 =
      (step ctx fns (step ctx fns st i (.decorate sD fD false info)).1 (i + 1) (.provide sP fP o)).1 ∧
    (step ctx fns st i (.provide sP fP o)).2 = (step ctx fns (step ctx fns st i (.decorate sD fD false info)).1 (i + 1) (.provide sP fP o)).2 ∧
    (step ctx fns (step ctx fns st i (.provide sP fP o)).1 (i + 1) (.decorate sD fD false info)).2 =
      (step ctx fns st i (.decorate sD fD false info)).2 := by
  by_cases hP : ∃ fp, fnOf fns fP = some fp ∧ sP < st.scopes.length
  · obtain ⟨fp, hfp, hsP⟩ := hP
    by_cases hD : ∃ fd, fnOf fns fD = some fd ∧ sD < st.scopes.length
    · obtain ⟨fd, hfd, hsD⟩ := hD
      exact step_provide_decorate_swap ctx fns st i sP fP sD fD o info fp fd hfp hfd hsP hsD ho (hng fd hfd)
    · -- the Decorate is not an operation of this container: the Provide sees the container it would see alone
      have hD' : fnOf fns fD = none ∨ ¬ sD < st.scopes.length := by
        cases hf : fnOf fns fD with
        | none => exact Or.inl rfl
        | some fd => exact Or.inr (fun hs => hD ⟨fd, hf, hs⟩)
      have hlP : (step ctx fns st i (.provide sP fP o)).1.scopes.length = st.scopes.length := by
        rw [step_provide_eq ctx fns st i sP fP o fp hfp hsP]; exact apiProvide_len ctx fp _ i sP o
      have hlogP : (step ctx fns st i (.provide sP fP o)).1.log = [] := by
        rw [step_provide_eq ctx fns st i sP fP o fp hfp hsP]; exact apiProvide_log ctx fp _ i sP o
      rw [step_decorate_bad ctx fns st i sD fD false info hD',
        step_decorate_bad ctx fns _ (i + 1) sD fD false info (by rcases hD' with h | h; exact Or.inl h; exact Or.inr (by rw [hlP]; exact h))]
      simp only
      rw [step_resetLog, resetLog_of_nil _ hlogP]
      have e : step ctx fns st (i + 1) (.provide sP fP o) = step ctx fns st i (.provide sP fP o) := by
        rw [step_provide_eq ctx fns st (i + 1) sP fP o fp hfp hsP, step_provide_eq ctx fns st i sP fP o fp hfp hsP,
          apiProvide_opIndex ctx fp _ (i + 1) i sP o ho]
      rw [e]
      refine ⟨?_, ?_, ?_⟩ <;> first | rfl | trivial
  · have hP' : fnOf fns fP = none ∨ ¬ sP < st.scopes.length := by
      cases hf : fnOf fns fP with
      | none => exact Or.inl rfl
      | some fp => exact Or.inr (fun hs => hP ⟨fp, hf, hs⟩)
    rw [step_provide_bad ctx fns st i sP fP o hP']
    simp only
    rw [step_resetLog]
    -- the Decorate alone, under either operation number
    have e : step ctx fns st (i + 1) (.decorate sD fD false info) = step ctx fns st i (.decorate sD fD false info) := by
      simp only [step]
      cases hf : fnOf fns fD with
      | none => rfl
      | some fd =>
        simp only
        by_cases hs : sD < st.scopes.length
        · rw [if_pos (by exact hs), if_pos (by exact hs), apiDecorate_opIndex ctx fd _ (i + 1) i sD info]
        · rw [if_neg (by exact hs), if_neg (by exact hs)]
    rw [e]
    have hlD : (step ctx fns st i (.decorate sD fD false info)).1.scopes.length = st.scopes.length ∧
        (step ctx fns st i (.decorate sD fD false info)).1.log = [] := by
      simp only [step]
      cases hf : fnOf fns fD with
      | none => exact ⟨rfl, rfl⟩
      | some fd =>
        simp only
        by_cases hs : sD < st.scopes.length
        · rw [if_pos (by exact hs)]
          exact ⟨apiDecorate_len_noGroup ctx fd _ i sD false info (hng fd hf), apiDecorate_log_noGroup ctx fd _ i sD false info (hng fd hf)⟩
        · rw [if_neg (by exact hs)]; exact ⟨rfl, rfl⟩
    rw [step_provide_bad ctx fns _ (i + 1) sP fP o (by rcases hP' with h | h; exact Or.inl h; exact Or.inr (by rw [hlD.1]; exact h))]
    simp only
    rw [resetLog_of_nil _ hlD.2]
    refine ⟨?_, ?_, ?_⟩ <;> first | rfl | trivial

end Dig

namespace Dig

theorem runOps_acc (ctx : Ctx) (fns : List Fn) : ∀ (ops : List Op) (i : Nat) (st : St) (acc : List OpRes),
    runOps ctx fns ops i st acc = ((runOps ctx fns ops i st []).1, acc.reverse ++ (runOps ctx fns ops i st []).2)
  | [], i, st, acc => by simp [runOps]
  | op :: rest, i, st, acc => by
    simp only [runOps]
    rw [runOps_acc ctx fns rest (i + 1) _ ((step ctx fns st i op).2 :: acc),
      runOps_acc ctx fns rest (i + 1) _ [(step ctx fns st i op).2]]
    simp

/-- **in a history, a Provide and a Decorate that stand next to each other can be swapped**: the container at the end is
    the same and so is every answer, the two swapped answers having changed places -/
theorem runOps_provide_decorate_swap (ctx : Ctx) (fns : List Fn) (sP fP sD fD : Nat) (o : ProvideOpts) (info : Bool)
    (ho : o.cb = false)
    (hng : ∀ fd, fnOf fns fD = some fd → ∀ t ∈ (if fd.variadic then fd.ins.dropLast else fd.ins), noGroupT t = true)
    (post : List Op) : ∀ (pre : List Op) (i : Nat) (st : St) (acc : List OpRes),
    (runOps ctx fns (pre ++ .provide sP fP o :: .decorate sD fD false info :: post) i st acc).1 =
      (runOps ctx fns (pre ++ .decorate sD fD false info :: .provide sP fP o :: post) i st acc).1 ∧
    ∃ l1 rP rD l2,
      (runOps ctx fns (pre ++ .provide sP fP o :: .decorate sD fD false info :: post) i st acc).2 = l1 ++ rP :: rD :: l2 ∧
      (runOps ctx fns (pre ++ .decorate sD fD false info :: .provide sP fP o :: post) i st acc).2 = l1 ++ rD :: rP :: l2 ∧
      l1.length = acc.length + pre.length
  | [], i, st, acc => by
    obtain ⟨h1, h2, h3⟩ := step_provide_decorate_swap_all ctx fns st i sP fP sD fD o info ho hng
    simp only [List.nil_append, runOps]
    rw [runOps_acc ctx fns post (i + 1 + 1) _ (_ :: _ :: acc), runOps_acc ctx fns post (i + 1 + 1) _ (_ :: _ :: acc), h1]
    refine ⟨rfl, acc.reverse, (step ctx fns st i (.provide sP fP o)).2, (step ctx fns st i (.decorate sD fD false info)).2,
      (runOps ctx fns post (i + 1 + 1)
        (step ctx fns (step ctx fns st i (.decorate sD fD false info)).1 (i + 1) (.provide sP fP o)).1 []).2, ?_, ?_, by simp⟩
    · simp only [List.reverse_cons, List.append_assoc, List.cons_append, List.nil_append, h3]
    · simp only [List.reverse_cons, List.append_assoc, List.cons_append, List.nil_append, ← h2]
  | op :: rest, i, st, acc => by
    simp only [List.cons_append, runOps]
    obtain ⟨h1, l1, rP, rD, l2, e1, e2, hl⟩ := runOps_provide_decorate_swap ctx fns sP fP sD fD o info ho hng post rest (i + 1)
      (step ctx fns st i op).1 ((step ctx fns st i op).2 :: acc)
    exact ⟨h1, l1, rP, rD, l2, e1, e2, by simp only [List.length_cons] at hl ⊢; omega⟩

end Dig
