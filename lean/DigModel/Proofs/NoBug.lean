import DigModel.Proofs.ParseWF
import DigModel.Proofs.RegOKApi
import DigModel.Proofs.GroupCalled
import DigModel.Proofs.Stable
/-
  The resolver never reaches a state the Go code could not handle (`Fail.bug`: a provider or decorator
  returned normally but the value it should have stored is missing — in Go: `reflect.Value.Call` on a
  zero Value).  This needs: a constructor listed under a *plain* key declares that key (group keys carry a
  non-empty group name since the repair of F11), and a built constructor has stored all its plain keys.
-/
namespace Dig

/-! ### group names of a result tree -/

mutual
def groupNames : Result → List String
  | .single _ _ _ _ _ => []
  | .grouped _ _ _ group _ _ => [group]
  | .object _ fs => groupNamesL fs
def groupNamesL : List Result → List String
  | [] => []
  | r :: rs => groupNames r ++ groupNamesL rs
end

theorem groupNames_wf (r : Result) : ResWF r → ∀ g ∈ groupNames r, g ≠ "" := by
  apply groupNames.induct (motive_1 := fun r => ResWF r → ∀ g ∈ groupNames r, g ≠ "")
    (motive_2 := fun rs => RessWF rs → ∀ g ∈ groupNamesL rs, g ≠ "")
  · intro slot decl ty name as _ g hg; simp [groupNames] at hg
  · intro slot decl ty group fl as h g hg
    simp only [groupNames, List.mem_singleton] at hg
    subst hg
    cases fl with
    | true => exact h ({ ty := ty, name := "", group := g }, slot, decl, true) (by simp [groupLeaves])
    | false => exact h ({ ty := ty, name := "", group := g }, slot, decl, false) (by simp [groupLeaves])
  · intro ty fs ih h g hg
    simp only [groupNames] at hg
    exact ih (fun x hx => h x (by simp only [groupLeaves]; exact hx)) g hg
  · intro _ g hg; simp [groupNamesL] at hg
  · intro r rs ih1 ih2 h g hg
    simp only [groupNamesL, List.mem_append] at hg
    rcases hg with h1 | h1
    · exact ih1 (fun x hx => h x (by simp only [groupLeavesL, List.mem_append]; exact Or.inl hx)) g h1
    · exact ih2 (fun x hx => h x (by simp only [groupLeavesL, List.mem_append]; exact Or.inr hx)) g h1

theorem groupNamesL_wf (rs : List Result) (h : RessWF rs) : ∀ g ∈ groupNamesL rs, g ≠ "" := by
  induction rs with
  | nil => intro g hg; simp [groupNamesL] at hg
  | cons r rest ih =>
    intro g hg
    simp only [groupNamesL, List.mem_append] at hg
    rcases hg with h1 | h1
    · exact groupNames_wf r (fun x hx => h x (by simp only [groupLeavesL, List.mem_append]; exact Or.inl hx)) g h1
    · exact ih (fun x hx => h x (by simp only [groupLeavesL, List.mem_append]; exact Or.inr hx)) g h1

/-- every key `findAndValidateResults` returns was seen before, is a single key of the results, or carries the group
    name of a value-group result -/
theorem visitKeys_sub (target : ScopeSt) : ∀ (rs : List Result) (seen keys : List Key),
    visitKeys target rs seen = .ok keys →
    ∀ k ∈ keys, k ∈ seen ∨ k ∈ singleKeysL rs ∨ k.group ∈ groupNamesL rs := by
  apply visitKeys.induct target (fun rs seen => ∀ keys, visitKeys target rs seen = .ok keys →
    ∀ k ∈ keys, k ∈ seen ∨ k ∈ singleKeysL rs ∨ k.group ∈ groupNamesL rs)
  · intro seen keys h k hk
    simp only [visitKeys] at h; injection h with h; subst h
    exact Or.inl hk
  · intro slot decl ty name as rest seen ks e hc keys h
    simp only [visitKeys] at h
    simp only [ks] at hc
    rw [hc] at h; cases h
  · intro slot decl ty name as rest seen ks seen' hc ih keys h k hk
    simp only [visitKeys] at h
    simp only [ks] at hc
    rw [hc] at h
    simp only at h
    obtain ⟨e, _, _⟩ := chk_ok target _ _ _ hc
    subst e
    have hks : singleKeysL (.single slot decl ty name as :: rest) =
        ((ty :: as).map fun t => ({ ty := t, name := name, group := "" } : Key)) ++ singleKeysL rest := by
      simp only [singleKeysL, singleLeavesL, List.map_append, singleKeys_single]
    rcases ih keys h k hk with h1 | h1 | h1
    · rcases List.mem_append.mp h1 with h2 | h2
      · exact Or.inl h2
      · right; left; rw [hks]; exact List.mem_append_left _ h2
    · right; left; rw [hks]; exact List.mem_append_right _ h1
    · right; right; simp only [groupNamesL, groupNames, List.nil_append]; exact h1
  · intro slot decl ty group flatten as rest seen ks ih keys h k hk
    simp only [visitKeys] at h
    have hfold : ∀ (l : List Key) (acc : List Key) (k : Key),
        k ∈ l.foldl (fun acc k => if acc.contains k then acc else acc ++ [k]) acc → k ∈ acc ∨ k ∈ l := by
      intro l
      induction l with
      | nil => intro acc k hk; exact Or.inl hk
      | cons x xs ihx =>
        intro acc k hk
        simp only [List.foldl_cons] at hk
        rcases ihx _ k hk with h1 | h1
        · split at h1
          · exact Or.inl h1
          · rcases List.mem_append.mp h1 with h2 | h2
            · exact Or.inl h2
            · right; simp at h2; simp [h2]
        · right; simp [h1]
    rcases ih keys h k hk with h1 | h1 | h1
    · rcases hfold _ _ k h1 with h2 | h2
      · exact Or.inl h2
      · right; right
        simp only [ks, List.mem_map] at h2
        obtain ⟨t, _, rfl⟩ := h2
        simp [groupNamesL, groupNames]
    · right; left
      have : singleKeysL (.grouped slot decl ty group flatten as :: rest) = singleKeysL rest := by
        simp [singleKeysL, singleLeavesL, singleLeaves]
      rw [this]; exact h1
    · right; right; simp only [groupNamesL, List.mem_append]; exact Or.inr h1
  · intro ty fs rest seen e he ih keys h
    simp only [visitKeys] at h
    rw [he] at h; cases h
  · intro ty fs rest seen seen' hs ih1 ih2 keys h k hk
    simp only [visitKeys] at h
    rw [hs] at h
    simp only at h
    have hks : singleKeysL (.object ty fs :: rest) = singleKeysL fs ++ singleKeysL rest := by
      simp [singleKeysL, singleLeavesL, singleLeaves]
    rcases ih2 keys h k hk with h1 | h1 | h1
    · rcases ih1 seen' hs k h1 with h2 | h2 | h2
      · exact Or.inl h2
      · right; left; rw [hks]; exact List.mem_append_left _ h2
      · right; right; simp only [groupNamesL, groupNames, List.mem_append]; exact Or.inl h2
    · right; left; rw [hks]; exact List.mem_append_right _ h1
    · right; right; simp only [groupNamesL, List.mem_append]; exact Or.inr h1

end Dig

namespace Dig

/-! ### registry facts the resolver relies on -/

structure RegWF (env : TyEnv) (st : St) : Prop where
  ctorParams : ∀ n, n < st.ctors.length → ParamsWF (st.ctor n).params
  decoParams : ∀ d, d < st.decos.length → ParamsWF (st.deco d).params
  provPlain : ∀ S k n, n ∈ agetL (st.scope S).providers k → k.group = "" → (st.ctor n).s = S ∧ k ∈ ctorKeys st n
  decoPlain : ∀ s k d, aget (st.scope s).decorators k = some d → k.group = "" →
    d < st.decos.length ∧ (st.deco d).s = s ∧ ∃ slot decl, (false, k, slot, decl) ∈ slotDecoLeaves env (st.deco d).results

theorem RegWF.of_regFrame {env : TyEnv} {a b : St} (h : RegWF env a) (hf : RegFrame a b) : RegWF env b where
  ctorParams n hn := by rw [← (hf.2.2.2.2.1 n).2.1]; exact h.ctorParams n (by rw [hf.2.2.2.1]; exact hn)
  decoParams d hd := by rw [← (hf.2.2.2.2.2.2 d).2.1]; exact h.decoParams d (by rw [hf.2.2.2.2.2.1]; exact hd)
  provPlain S k n hn hk := by
    rw [← (hf.2.1 S).2.2.1] at hn
    obtain ⟨h1, h2⟩ := h.provPlain S k n hn hk
    exact ⟨by rw [← (hf.2.2.2.2.1 n).2.2.2.1]; exact h1, by rw [ctorKeys_regFrame hf]; exact h2⟩
  decoPlain s k d hd hk := by
    rw [← (hf.2.1 s).2.2.2.1] at hd
    obtain ⟨h1, h2, slot, decl, h3⟩ := h.decoPlain s k d hd hk
    exact ⟨by rw [← hf.2.2.2.2.2.1]; exact h1, by rw [← (hf.2.2.2.2.2.2 d).2.2.2.1]; exact h2,
      slot, decl, by rw [← (hf.2.2.2.2.2.2 d).2.2.1]; exact h3⟩

/-! ### what is built is cached -/

/-- a built constructor has stored every plain key it declares; a decorator that ran has stored every plain key it replaces -/
structure Cached (env : TyEnv) (st : St) : Prop where
  ctor : ∀ n, n < st.ctors.length → (st.ctor n).called = true → ∀ k ∈ ctorKeys st n,
    (aget (st.scope (st.ctor n).s).values k).isSome = true
  deco : ∀ d, d < st.decos.length → (st.deco d).state = .called → ∀ k slot decl,
    (false, k, slot, decl) ∈ slotDecoLeaves env (st.deco d).results →
    (aget (st.scope (st.deco d).s).decoratedValues k).isSome = true

theorem Cached.init (env : TyEnv) : Cached env ({} : St) where
  ctor n hn := by simp at hn
  deco d hd := by simp at hd

/-! ### extraction writes every declared plain key -/

theorem foldl_aset_writes (v : Val) (name : String) : ∀ (tys : List Nat) (m : List (Key × Val)) (t : Nat), t ∈ tys →
    (aget (tys.foldl (fun m t => aset m { ty := t, name := name, group := "" } v) m) { ty := t, name := name, group := "" }).isSome = true := by
  intro tys
  induction tys with
  | nil => intro m t h; cases h
  | cons t0 ts ih =>
    intro m t h
    simp only [List.foldl_cons]
    rcases List.mem_cons.mp h with rfl | hm
    · apply foldl_aset_isSome
      rw [aget_aset_self]; rfl
    · exact ih _ t hm

theorem extractResult_writes (env : TyEnv) (r : Ret) (sc : ScopeSt) (x : Result) :
    ∀ y ∈ singleLeaves x, (aget (extractResult env r sc x).values y.1).isSome = true := by
  apply extractResult.induct env r
    (fun sc x => ∀ y ∈ singleLeaves x, (aget (extractResult env r sc x).values y.1).isSome = true)
    (fun sc xs => ∀ y ∈ singleLeavesL xs, (aget (extractResults env r sc xs).values y.1).isSome = true)
  · intro sc slot decl ty name as y hy
    simp only [singleLeaves, List.mem_map] at hy
    obtain ⟨t, ht, rfl⟩ := hy
    simp only [extractResult]
    exact foldl_aset_writes _ name _ _ t ht
  · intro sc slot decl ty group as y hy; simp [singleLeaves] at hy
  · intro sc slot decl ty group flatten as hf y hy; simp [singleLeaves] at hy
  · intro sc ty fs ih y hy; simp only [singleLeaves] at hy; simp only [extractResult]; exact ih y hy
  · intro sc y hy; simp [singleLeavesL] at hy
  · intro sc x xs ih1 ih2 y hy
    simp only [singleLeavesL, List.mem_append] at hy
    simp only [extractResults]
    rcases hy with h | h
    · -- written by `x`, kept by the rest
      have h1 := ih1 y h
      have keep : ∀ (xs : List Result) (sc : ScopeSt) (k : Key), (aget sc.values k).isSome = true →
          (aget (extractResults env r sc xs).values k).isSome = true := by
        intro xs
        induction xs with
        | nil => intro sc k hk; simp only [extractResults]; exact hk
        | cons z zs ihz => intro sc k hk; simp only [extractResults]; exact ihz _ k (extractResult_keeps env r sc z k hk)
      exact keep xs _ y.1 h1
    · exact ih2 y h

theorem extractSlots_writes (env : TyEnv) (r : Ret) : ∀ (slots : List RSlot) (sc : ScopeSt),
    ∀ y ∈ slotLeaves slots, (aget (extractSlots env false r sc slots).values y.1).isSome = true := by
  intro slots
  induction slots with
  | nil => intro sc y hy; simp [slotLeaves] at hy
  | cons s rest ih =>
    intro sc y hy
    cases s with
    | err => simp only [slotLeaves] at hy; simp only [extractSlots]; exact ih sc y hy
    | val x =>
      simp only [slotLeaves, List.mem_append] at hy
      simp only [extractSlots, Bool.false_eq_true, if_false]
      rcases hy with h | h
      · exact extractSlots_keeps env r rest _ y.1 (extractResult_writes env r sc x y h)
      · exact ih _ y h

/-- decorated plain values: written and kept -/
theorem extractDeco_dv (env : TyEnv) (r : Ret) (sc : ScopeSt) (x : Result) :
    (∀ k, (aget sc.decoratedValues k).isSome = true → (aget (extractDeco env r sc x).decoratedValues k).isSome = true) ∧
    (∀ k slot decl, (false, k, slot, decl) ∈ decoLeaves env x → (aget (extractDeco env r sc x).decoratedValues k).isSome = true) := by
  apply extractDeco.induct env r
    (fun sc x =>
      (∀ k, (aget sc.decoratedValues k).isSome = true → (aget (extractDeco env r sc x).decoratedValues k).isSome = true) ∧
      (∀ k slot decl, (false, k, slot, decl) ∈ decoLeaves env x → (aget (extractDeco env r sc x).decoratedValues k).isSome = true))
    (fun sc xs =>
      (∀ k, (aget sc.decoratedValues k).isSome = true → (aget (extractDecos env r sc xs).decoratedValues k).isSome = true) ∧
      (∀ k slot decl, (false, k, slot, decl) ∈ decoLeavesL env xs → (aget (extractDecos env r sc xs).decoratedValues k).isSome = true))
  · intro sc slot decl ty name as
    simp only [extractDeco, decoLeaves]
    refine ⟨fun k hk => isSome_aset_keep _ _ k _ hk, ?_⟩
    intro k s' d' hm
    simp only [List.mem_singleton, Prod.mk.injEq, true_and] at hm
    obtain ⟨rfl, _, _⟩ := hm
    rw [aget_aset_self]; rfl
  · intro sc slot decl ty group f as
    simp only [extractDeco, decoLeaves]
    refine ⟨fun k hk => hk, ?_⟩
    intro k s' d' hm
    simp at hm
  · intro sc ty fs ih; simp only [extractDeco, decoLeaves]; exact ih
  · intro sc; simp only [extractDecos, decoLeavesL]; exact ⟨fun k hk => hk, fun k s d hm => by simp at hm⟩
  · intro sc x xs ih1 ih2
    simp only [extractDecos, decoLeavesL]
    obtain ⟨a1, a2⟩ := ih1
    obtain ⟨b1, b2⟩ := ih2
    refine ⟨fun k hk => b1 k (a1 k hk), ?_⟩
    intro k s d hm
    rcases List.mem_append.mp hm with h | h
    · exact b1 k (a2 k s d h)
    · exact b2 k s d h

theorem extractSlots_dv (env : TyEnv) (r : Ret) : ∀ (slots : List RSlot) (sc : ScopeSt),
    (∀ k, (aget sc.decoratedValues k).isSome = true → (aget (extractSlots env true r sc slots).decoratedValues k).isSome = true) ∧
    (∀ k slot decl, (false, k, slot, decl) ∈ slotDecoLeaves env slots →
      (aget (extractSlots env true r sc slots).decoratedValues k).isSome = true) := by
  intro slots
  induction slots with
  | nil => intro sc; exact ⟨fun k hk => hk, fun k s d hm => by simp [slotDecoLeaves] at hm⟩
  | cons s rest ih =>
    intro sc
    cases s with
    | err => simp only [extractSlots, slotDecoLeaves]; exact ih sc
    | val x =>
      simp only [extractSlots, if_true, slotDecoLeaves]
      obtain ⟨a1, a2⟩ := extractDeco_dv env r sc x
      obtain ⟨b1, b2⟩ := ih (extractDeco env r sc x)
      refine ⟨fun k hk => b1 k (a1 k hk), ?_⟩
      intro k s d hm
      rcases List.mem_append.mp hm with h | h
      · exact b1 k (a2 k s d h)
      · exact b2 k s d h

end Dig

namespace Dig

/-- every node lives in an existing scope -/
structure HomeOK (st : St) : Prop where
  ctor : ∀ n, n < st.ctors.length → (st.ctor n).s < st.scopes.length
  deco : ∀ d, d < st.decos.length → (st.deco d).s < st.scopes.length

theorem HomeOK.of_regFrame {a b : St} (h : HomeOK a) (hf : RegFrame a b) : HomeOK b where
  ctor n hn := by rw [← (hf.2.2.2.2.1 n).2.2.2.1, ← hf.1]; exact h.ctor n (by rw [hf.2.2.2.1]; exact hn)
  deco d hd := by rw [← (hf.2.2.2.2.2.2 d).2.2.2.1, ← hf.1]; exact h.deco d (by rw [hf.2.2.2.2.2.1]; exact hd)

def CR (env : TyEnv) (a b : St) : Prop := RegFrame a b ∧ (HomeOK a → Cached env a → Cached env b)

theorem CR.refl (env : TyEnv) (a : St) : CR env a a := ⟨RegFrame.refl a, fun _ h => h⟩
theorem CR.trans {env : TyEnv} {a b c : St} (h1 : CR env a b) (h2 : CR env b c) : CR env a c :=
  ⟨h1.1.trans h2.1, fun hh hc => h2.2 (hh.of_regFrame h1.1) (h1.2 hh hc)⟩

/-- steps that keep scopes, node descriptions and the `called` marks of constructors; decorator marks may only be lost -/
theorem cr_flags (env : TyEnv) (a b : St) (hr : RegFrame a b) (hs : b.scopes = a.scopes)
    (hc : ∀ n, (b.ctor n).called = (a.ctor n).called)
    (hd : ∀ d, (b.deco d).state = .called → (a.deco d).state = .called) : CR env a b := by
  refine ⟨hr, fun _ h => ⟨?_, ?_⟩⟩
  · intro n hn hcl k hk
    rw [hc n] at hcl
    rw [ctorKeys_regFrame hr] at hk
    rw [← (hr.2.2.2.2.1 n).2.2.2.1, scope_of_scopes_eq hs]
    exact h.ctor n (by rw [hr.2.2.2.1]; exact hn) hcl k hk
  · intro d hdl hst k slot decl hm
    rw [← (hr.2.2.2.2.2.2 d).2.2.1] at hm
    rw [← (hr.2.2.2.2.2.2 d).2.2.2.1, scope_of_scopes_eq hs]
    exact h.deco d (by rw [hr.2.2.2.2.2.1]; exact hdl) (hd d hst) k slot decl hm

theorem cr_ctorTail (ctx : Ctx) (st : St) (n : Nat) (node : CtorNode) (args : List Val)
    (hst : CtorStatic node (st.ctor n)) : CR ctx.env st (ctorTail ctx n node args st).2 := by
  have hreg := regFrame_ctorTail ctx st n node args
  refine ⟨hreg, fun hh h => ⟨?_, ?_⟩⟩
  · intro m hm hcl k hk
    have hm0 : m < st.ctors.length := by rw [hreg.2.2.2.1]; exact hm
    rw [ctorKeys_regFrame hreg] at hk
    rw [← (hreg.2.2.2.2.1 m).2.2.2.1]
    -- values of the home scope of `m`: nothing disappears
    have keep : ∀ S k, (aget (st.scope S).values k).isSome = true →
        (aget ((ctorTail ctx n node args st).2.scope S).values k).isSome = true := by
      intro S k h0
      rw [ctorTail_scope]
      cases retOf node.fn.id (callBody ctx (.ctor n) node.fn args st).1 with
      | none => exact h0
      | some ret =>
        simp only
        split
        · exact extractSlots_keeps ctx.env ret node.results _ k h0
        · exact h0
    rw [ctorTail_ctor] at hcl
    by_cases hc : (callBody ctx (.ctor n) node.fn args st).1.commits = true ∧ n = m ∧ m < st.ctors.length
    · -- `m = n` has just been run successfully: its plain keys have been written
      obtain ⟨hcm, rfl, _⟩ := hc
      obtain ⟨s1, s2, s3, s4, _, _, _⟩ := hst
      rw [ctorTail_scope]
      have hret : ∃ ret, retOf node.fn.id (callBody ctx (.ctor n) node.fn args st).1 = some ret := by
        cases hb : (callBody ctx (.ctor n) node.fn args st).1 <;> simp [hb, retOf, BodyRes.commits] at hcm ⊢
      obtain ⟨ret, hret⟩ := hret
      rw [hret]
      simp only
      have hhome := hh.ctor n hm0
      rw [if_pos ⟨s4, hhome⟩]
      unfold ctorKeys at hk
      obtain ⟨y, hy, rfl⟩ := List.mem_map.mp hk
      rw [← s3] at hy
      exact extractSlots_writes ctx.env ret node.results _ y hy
    · rw [if_neg hc] at hcl
      exact keep _ k (h.ctor m hm0 hcl k hk)
  · intro d hd hstt k slot decl hm
    have hd0 : d < st.decos.length := by rw [hreg.2.2.2.2.2.1]; exact hd
    have hde : (ctorTail ctx n node args st).2.deco d = st.deco d := by simp only [St.deco, ctorTail_decos]
    rw [hde] at hstt hm ⊢
    have : ((ctorTail ctx n node args st).2.scope (st.deco d).s).decoratedValues = (st.scope (st.deco d).s).decoratedValues := by
      rw [ctorTail_scope]
      cases retOf node.fn.id (callBody ctx (.ctor n) node.fn args st).1 with
      | none => rfl
      | some ret =>
        simp only
        split
        · exact (extractSlots_decoCaches ctx.env ret node.results _).1
        · rfl
    rw [this]
    exact h.deco d hd0 hstt k slot decl hm

theorem cr_decoTail (ctx : Ctx) (st : St) (d : Nat) (node : DecoNode) (args : List Val)
    (hst : DecoStatic node (st.deco d)) : CR ctx.env st (decoTail ctx d node args st).2 := by
  have hreg := regFrame_decoTail ctx st d node args
  refine ⟨hreg, fun hh h => ⟨?_, ?_⟩⟩
  · intro m hm hcl k hk
    have hm0 : m < st.ctors.length := by rw [hreg.2.2.2.1]; exact hm
    have hce : (decoTail ctx d node args st).2.ctor m = st.ctor m := by simp only [St.ctor, decoTail_ctors]
    rw [ctorKeys_regFrame hreg] at hk
    rw [hce] at hcl ⊢
    rw [decoTail_values]
    exact h.ctor m hm0 hcl k hk
  · intro m hm hstt k slot decl hmem
    have hm0 : m < st.decos.length := by rw [hreg.2.2.2.2.2.1]; exact hm
    rw [← (hreg.2.2.2.2.2.2 m).2.2.1] at hmem
    rw [← (hreg.2.2.2.2.2.2 m).2.2.2.1]
    have keep : ∀ S k, (aget (st.scope S).decoratedValues k).isSome = true →
        (aget ((decoTail ctx d node args st).2.scope S).decoratedValues k).isSome = true := by
      intro S k h0
      rw [decoTail_scope]
      cases retOf node.fn.id (callBody ctx (.deco d) node.fn args st).1 with
      | none => exact h0
      | some ret =>
        simp only
        split
        · exact (extractSlots_dv ctx.env ret node.results _).1 k h0
        · exact h0
    rw [decoTail_deco] at hstt
    by_cases hc : (callBody ctx (.deco d) node.fn args st).1.commits = true ∧ d = m ∧ m < st.decos.length
    · obtain ⟨hcm, rfl, _⟩ := hc
      obtain ⟨s1, s2, s3, s4, _⟩ := hst
      rw [decoTail_scope]
      have hret : ∃ ret, retOf node.fn.id (callBody ctx (.deco d) node.fn args st).1 = some ret := by
        cases hb : (callBody ctx (.deco d) node.fn args st).1 <;> simp [hb, retOf, BodyRes.commits] at hcm ⊢
      obtain ⟨ret, hret⟩ := hret
      rw [hret]
      simp only
      rw [if_pos ⟨s4, hh.deco d hm0⟩]
      rw [← s3] at hmem
      exact (extractSlots_dv ctx.env ret node.results _).2 k slot decl hmem
    · rw [if_neg hc] at hstt
      exact keep _ k (h.deco m hm0 hstt k slot decl hmem)

theorem cr_leaf (ctx : Ctx) : LeafRel2 ctx (CR ctx.env) where
  refl := CR.refl ctx.env
  trans := CR.trans
  toReg h := h.1
  setOnStack st n := cr_flags ctx.env _ _ (regFrame_modCtor st n _ (fun _ => ⟨rfl, rfl, rfl, rfl, rfl, rfl, rfl⟩)) rfl
    (fun m => by rw [ctor_modCtor]; split <;> rfl) (fun _ h => h)
  clearOnStack st n := cr_flags ctx.env _ _ (regFrame_modCtor st n _ (fun _ => ⟨rfl, rfl, rfl, rfl, rfl, rfl, rfl⟩)) rfl
    (fun m => by rw [ctor_modCtor]; split <;> rfl) (fun _ h => h)
  ctorTail st n node args hst := cr_ctorTail ctx st n node args hst
  decoOnStack st d := cr_flags ctx.env _ _ (regFrame_modDeco st d _ (fun _ => ⟨rfl, rfl, rfl, rfl, rfl⟩)) rfl (fun _ => rfl)
    (fun m h => by
      rw [deco_modDeco] at h
      split at h
      · cases h
      · exact h)
  decoFinally st d := cr_flags ctx.env _ _ (regFrame_modDeco st d _ (fun x => by split <;> exact ⟨rfl, rfl, rfl, rfl, rfl⟩)) rfl
    (fun _ => rfl) (fun m h => by
      rw [deco_modDeco] at h
      split at h
      · rename_i hc
        obtain ⟨rfl, _⟩ := hc
        by_cases hs : (st.deco d).state = .called
        · exact hs
        · have : ((st.deco d).state == DecoState.called) = false := by simpa using hs
          simp [this] at h
      · exact h)
  decoTail st d node args hst := cr_decoTail ctx st d node args hst

end Dig

namespace Dig

/-! ### "does not end in a state Go cannot handle" -/

def NB {α : Type} (m : EM α) (st : St) : Prop := (m st).1 ≠ .error .bug

theorem nb_pure {α : Type} (a : α) (st : St) : NB (EM.pure a) st := by
  unfold NB EM.pure; intro hc; cases hc

theorem nb_bind {α β : Type} {m : EM α} {f : α → EM β} {st : St} (hm : NB m st)
    (hf : ∀ a s', m st = (.ok a, s') → NB (f a) s') : NB (EM.bind m f) st := by
  unfold NB EM.bind
  cases h : m st with
  | mk r s' =>
    cases r with
    | ok a => exact hf a s' h
    | error e =>
      intro he
      apply hm
      rw [h]
      simpa using he

theorem nb_wrapErr {α : Type} {m : EM α} (w : DErr → DErr) {st : St} (hm : NB m st) : NB (EM.wrapErr m w) st := by
  unfold NB EM.wrapErr
  unfold NB at hm
  cases h : m st with
  | mk r s' =>
    rw [h] at hm
    cases r with
    | ok a => intro hc; cases hc
    | error e =>
      cases e with
      | err e => intro hc; cases hc
      | panic f x => intro hc; cases hc
      | bug => exact absurd rfl hm
      | fuel => intro hc; cases hc

theorem nb_finally {α : Type} {m : EM α} (fin : St → St) {st : St} (hm : NB m st) : NB (EM.finally_ m fin) st := by
  unfold NB EM.finally_
  exact hm

section loops
variable (V : St → Prop)

theorem nb_forEachM {α : Type} (xs : List α) (f : α → EM Unit)
    (hV : ∀ a, a ∈ xs → ∀ st, V st → V (f a st).2)
    (hN : ∀ a, a ∈ xs → ∀ st, V st → NB (f a) st) : ∀ st, V st → NB (forEachM xs f) st := by
  induction xs with
  | nil => intro st _; unfold forEachM; exact nb_pure () st
  | cons x rest ih =>
    intro st hv
    unfold forEachM
    apply nb_bind (hN x (by simp) st hv)
    intro a s' hs
    apply ih (fun a ha => hV a (by simp [ha])) (fun a ha => hN a (by simp [ha])) s'
    have := hV x (by simp) st hv
    rw [hs] at this
    exact this

theorem nb_firstM {α β : Type} (xs : List α) (f : α → EM (Option β))
    (hV : ∀ a, a ∈ xs → ∀ st, V st → V (f a st).2)
    (hN : ∀ a, a ∈ xs → ∀ st, V st → NB (f a) st) : ∀ st, V st → NB (firstM xs f) st := by
  induction xs with
  | nil => intro st _; unfold firstM; exact nb_pure none st
  | cons x rest ih =>
    intro st hv
    unfold firstM
    apply nb_bind (hN x (by simp) st hv)
    intro r s' hs
    cases r with
    | some b => exact nb_pure (some b) s'
    | none =>
      apply ih (fun a ha => hV a (by simp [ha])) (fun a ha => hN a (by simp [ha])) s'
      have := hV x (by simp) st hv
      rw [hs] at this
      exact this

theorem inv_firstM {α β : Type} (xs : List α) (f : α → EM (Option β))
    (hV : ∀ a, a ∈ xs → ∀ st, V st → V (f a st).2) : ∀ st, V st → V (firstM xs f st).2 := by
  induction xs with
  | nil => intro st hv; exact hv
  | cons x rest ih =>
    intro st hv
    unfold firstM EM.bind
    have h1 := hV x (by simp) st hv
    cases h : f x st with
    | mk r s' =>
      rw [h] at h1
      cases r with
      | error e => exact h1
      | ok o =>
        cases o with
        | some b => exact h1
        | none => exact ih (fun a ha => hV a (by simp [ha])) s' h1

theorem nb_mapM {α β : Type} (xs : List α) (f : α → EM β)
    (hV : ∀ a, a ∈ xs → ∀ st, V st → V (f a st).2)
    (hN : ∀ a, a ∈ xs → ∀ st, V st → NB (f a) st) : ∀ st, V st → NB (mapM' xs f) st := by
  induction xs with
  | nil => intro st _; unfold mapM'; exact nb_pure [] st
  | cons x rest ih =>
    intro st hv
    unfold mapM'
    apply nb_bind (hN x (by simp) st hv)
    intro b s' hs
    have hv' : V s' := by
      have := hV x (by simp) st hv
      rw [hs] at this
      exact this
    apply nb_bind (ih (fun a ha => hV a (by simp [ha])) (fun a ha => hN a (by simp [ha])) s' hv')
    intro bs s'' _
    exact nb_pure _ s''

/-- a provider loop that ran to its end without an early answer established `P` for every element -/
theorem firstM_none_all {α β : Type} (P : α → St → Prop) (xs : List α) (f : α → EM (Option β))
    (hV : ∀ a, a ∈ xs → ∀ st, V st → V (f a st).2)
    (hP : ∀ a, a ∈ xs → ∀ st st', V st → f a st = (.ok none, st') → P a st')
    (hM : ∀ a b, b ∈ xs → ∀ st, V st → P a st → P a (f b st).2) :
    ∀ st st', V st → firstM xs f st = (.ok none, st') → ∀ a ∈ xs, P a st' := by
  induction xs with
  | nil => intro st st' _ _ a ha; cases ha
  | cons x rest ih =>
    intro st st' hv h a ha
    simp only [firstM, EM.bind] at h
    have hv1 := hV x (by simp) st hv
    cases hfx : f x st with
    | mk r s1 =>
      rw [hfx] at h hv1
      cases r with
      | error e => simp only at h; injection h with e1 _; cases e1
      | ok o =>
        cases o with
        | some b => simp only [EM.pure] at h; injection h with e1 _; injection e1 with e1; cases e1
        | none =>
          simp only at h
          rcases List.mem_cons.mp ha with e | hr
          · subst e
            have hp1 : P a s1 := hP a (by simp) st s1 hv hfx
            have := inv_firstM (fun s => V s ∧ P a s) rest f
              (fun b hb s hs => ⟨hV b (by simp [hb]) s hs.1, hM a b (by simp [hb]) s hs.1 hs.2⟩) s1 ⟨hv1, hp1⟩
            rw [h] at this
            exact this.2
          · exact ih (fun b hb => hV b (by simp [hb])) (fun b hb => hP b (by simp [hb]))
              (fun a' b hb => hM a' b (by simp [hb])) s1 st' hv1 h a hr
end loops

/-! ### the invariant carried through the resolver -/

structure EI (env : TyEnv) (L L' : Nat) (st : St) : Prop where
  vl : VL L L' st
  home : HomeOK st
  wf : RegWF env st
  cached : Cached env st

theorem EI.step {env : TyEnv} {L L' : Nat} {a b : St} (h : EI env L L' a) (hf : Flags a b) (hc : CR env a b) : EI env L L' b :=
  ⟨VL.step h.vl hf, h.home.of_regFrame hf.reg, h.wf.of_regFrame hf.reg, hc.2 h.home h.cached⟩

theorem EI.modCtorOnStack {env : TyEnv} {L L' : Nat} {st : St} (h : EI env L L' st) (n : Nat) (b : Bool) :
    EI env L L' (st.modCtor n fun x => { x with onStack := b }) := by
  have hr : RegFrame st (st.modCtor n fun x => { x with onStack := b }) :=
    regFrame_modCtor st n _ (fun _ => ⟨rfl, rfl, rfl, rfl, rfl, rfl, rfl⟩)
  exact ⟨⟨h.vl.1.of_frame hr, by simp [St.modCtor, h.vl.2.1], h.vl.2.2⟩, h.home.of_regFrame hr, h.wf.of_regFrame hr,
    (cr_flags env _ _ hr rfl (fun m => by rw [ctor_modCtor]; split <;> rfl) (fun _ hh => hh)).2 h.home h.cached⟩

theorem EI.modDecoOnStack {env : TyEnv} {L L' : Nat} {st : St} (h : EI env L L' st) (d : Nat) :
    EI env L L' (st.modDeco d fun x => { x with state := .onStack }) := by
  have hr : RegFrame st (st.modDeco d fun x => { x with state := .onStack }) :=
    regFrame_modDeco st d _ (fun _ => ⟨rfl, rfl, rfl, rfl, rfl⟩)
  refine ⟨⟨h.vl.1.of_frame hr, h.vl.2.1, by simp [St.modDeco, h.vl.2.2]⟩, h.home.of_regFrame hr, h.wf.of_regFrame hr, ?_⟩
  refine (cr_flags env _ _ hr rfl (fun _ => rfl) ?_).2 h.home h.cached
  intro m hh
  rw [deco_modDeco] at hh
  split at hh
  · cases hh
  · exact hh

end Dig

namespace Dig

section
variable (ctx : Ctx) (L L' : Nat)

theorem ei_callCtor (fuel n c : Nat) (hn : n < L) (st : St) (h : EI ctx.env L L' st) : EI ctx.env L L' (callCtor ctx fuel n c st).2 :=
  h.step ((engine_flags ctx L L' fuel).1 n c hn st h.vl) ((engine_pres2 ctx (cr_leaf ctx) fuel).1 n c st)

theorem ei_callDeco (fuel d s : Nat) (hd : d < L') (st : St) (h : EI ctx.env L L' st) (hs : (st.deco d).state ≠ .onStack) :
    EI ctx.env L L' (callDeco ctx fuel d s st).2 :=
  h.step ((engine_flags ctx L L' fuel).2.1 d s st hd h.vl hs) ((engine_pres2 ctx (cr_leaf ctx) fuel).2.1 d s st)

theorem ei_buildSingle (fuel : Nat) (k : Key) (opt : Bool) (c : Nat) (st : St) (h : EI ctx.env L L' st) :
    EI ctx.env L L' (buildSingle ctx fuel k opt c st).2 :=
  h.step ((engine_flags ctx L L' fuel).2.2.1 k opt c st h.vl) ((engine_pres2 ctx (cr_leaf ctx) fuel).2.2.1 k opt c st)

theorem ei_buildGroup (fuel : Nat) (k : Key) (soft : Bool) (c : Nat) (st : St) (h : EI ctx.env L L' st) :
    EI ctx.env L L' (buildGroup ctx fuel k soft c st).2 :=
  h.step ((engine_flags ctx L L' fuel).2.2.2.1 k soft c st h.vl) ((engine_pres2 ctx (cr_leaf ctx) fuel).2.2.2.1 k soft c st)

theorem ei_buildParam (fuel : Nat) (p : Param) (c : Nat) (st : St) (h : EI ctx.env L L' st) :
    EI ctx.env L L' (buildParam ctx fuel p c st).2 :=
  h.step ((engine_flags ctx L L' fuel).2.2.2.2.1 p c st h.vl) ((engine_pres2 ctx (cr_leaf ctx) fuel).2.2.2.2.1 p c st)

theorem ei_buildList (fuel : Nat) (ps : List Param) (c : Nat) (st : St) (h : EI ctx.env L L' st) :
    EI ctx.env L L' (buildList ctx fuel ps c st).2 :=
  h.step ((engine_flags ctx L L' fuel).2.2.2.2.2 ps c st h.vl) ((engine_pres2 ctx (cr_leaf ctx) fuel).2.2.2.2.2 ps c st)

end

/-- a `decoratorNode.Call` that returns normally leaves the decorator built -/
theorem callDeco_ok_called (ctx : Ctx) (L L' : Nat) : ∀ (fuel d c : Nat), d < L' → ∀ (st : St), VL L L' st →
    ∀ (u : Unit) (st' : St), callDeco ctx fuel d c st = (.ok u, st') → (st'.deco d).state = .called := by
  intro fuel d c hd st hv u st' h
  cases fuel with
  | zero => simp [callDeco, EM.fail] at h
  | succ fuel =>
    simp only [callDeco] at h
    split at h
    · rename_i hc
      injection h with _ e2
      rw [← e2]; simpa using hc
    · have hv1 : VL L L' (st.modDeco d fun x => { x with state := .onStack }) :=
        ⟨hv.1.of_frame (regFrame_modDeco st d _ (fun _ => ⟨rfl, rfl, rfl, rfl, rfl⟩)), hv.2.1, by simp [St.modDeco, hv.2.2]⟩
      simp only [EM.finally_, EM.bind] at h
      have hs := shallowCheck_state' c (st.deco d).params (st.modDeco d fun x => { x with state := .onStack })
      cases hsc : shallowCheck c (st.deco d).params (st.modDeco d fun x => { x with state := .onStack }) with
      | mk r1 s1 =>
        rw [hsc] at h hs
        simp only at hs
        subst hs
        cases r1 with
        | error e => simp only at h; injection h with e1 _; cases e1
        | ok _ =>
          simp only at h
          have hb := (engine_flags ctx L L' fuel).2.2.2.2.2 (st.deco d).params (st.deco d).s _ hv1
          rw [← wrapErr_state'' _ DErr.argsFailed] at hb
          cases hbl : EM.wrapErr (buildList ctx fuel (st.deco d).params (st.deco d).s) DErr.argsFailed
              (st.modDeco d fun x => { x with state := .onStack }) with
          | mk r2 s3 =>
            rw [hbl] at h hb
            cases r2 with
            | error e => simp only at h; injection h with e1 _; cases e1
            | ok args =>
              simp only at h
              injection h with e1 e2
              have hlen3 : d < s3.decos.length := by
                have := (VL.step hv1 hb).2.2
                simp only at this
                omega
              have hcm : (callBody ctx (.deco d) (st.deco d).fn args s3).1.commits = true := by
                apply (decoOutcome_ok_iff ctx (st.deco d).fn.id _).mp
                exact ⟨u, by simpa [decoTail] using e1⟩
              have h4 := decoTail_deco ctx d (st.deco d) args s3 d
              simp only [hcm, hlen3, and_self, if_true] at h4
              rw [← e2, deco_modDeco]
              split
              · simp [h4]
              · rw [h4]

end Dig

namespace Dig

theorem nb_providerStep (env : TyEnv) (k : Key) (opt : Bool) (cid : Nat) (m : EM Unit) (st : St) (h : NB m st) :
    (providerStep env k opt cid (m st)).1 ≠ .error .bug := by
  unfold NB at h
  unfold providerStep
  cases hm : m st with
  | mk r s2 =>
    rw [hm] at h
    cases r with
    | ok u => intro hc; cases hc
    | error e =>
      cases e with
      | err e => simp only; split <;> (intro hc; cases hc)
      | panic f x => intro hc; cases hc
      | bug => exact absurd rfl h
      | fuel => intro hc; cases hc

theorem providerStep_none (env : TyEnv) (k : Key) (opt : Bool) (cid : Nat) (r : Except Fail Unit × St) (s' : St)
    (h : providerStep env k opt cid r = (.ok none, s')) : r = (.ok (), s') := by
  unfold providerStep at h
  rcases r with ⟨o, s⟩
  cases o with
  | ok u => simp only at h; injection h with _ e2; rw [e2]
  | error e =>
    cases e with
    | err e =>
      simp only at h
      split at h
      · injection h with e1 _; injection e1 with e1; cases e1
      · injection h with e1 _; cases e1
    | panic f x => simp only at h; injection h with e1 _; cases e1
    | bug => simp only at h; injection h with e1 _; cases e1
    | fuel => simp only at h; injection h with e1 _; cases e1

theorem paramWF_of_mem {ty : Nat} {fs : List Param} (h : ParamWF (.object ty fs)) {f : Param} (hf : f ∈ fs) : ParamWF f := by
  intro l hl
  exact h l (by simp only [leaves]; exact mem_leavesL.mpr ⟨f, hf, hl⟩)

theorem paramWF_of_mem_list {ps : List Param} (h : ParamsWF ps) {p : Param} (hp : p ∈ ps) : ParamWF p := by
  intro l hl
  exact h l (mem_leavesL.mpr ⟨p, hp, hl⟩)

/-- **the resolver never ends in a state the Go code could not handle** -/
theorem engine_nobug (ctx : Ctx) (L L' : Nat) :
    ∀ fuel,
      (∀ n c st, n < L → EI ctx.env L L' st → NB (callCtor ctx fuel n c) st) ∧
      (∀ d s st, d < L' → EI ctx.env L L' st → NB (callDeco ctx fuel d s) st) ∧
      (∀ k opt c st, k.group = "" → EI ctx.env L L' st → NB (buildSingle ctx fuel k opt c) st) ∧
      (∀ k soft c st, EI ctx.env L L' st → NB (buildGroup ctx fuel k soft c) st) ∧
      (∀ p c st, ParamWF p → EI ctx.env L L' st → NB (buildParam ctx fuel p c) st) ∧
      (∀ ps c st, ParamsWF ps → EI ctx.env L L' st → NB (buildList ctx fuel ps c) st) := by
  intro fuel
  induction fuel with
  | zero =>
    refine ⟨?_, ?_, ?_, ?_, ?_, ?_⟩ <;> intros <;> unfold NB
    · simp only [callCtor, EM.fail]; intro hc; cases hc
    · simp only [callDeco, EM.fail]; intro hc; cases hc
    · simp only [buildSingle, EM.fail]; intro hc; cases hc
    · simp only [buildGroup, EM.fail]; intro hc; cases hc
    · simp only [buildParam, EM.fail]; intro hc; cases hc
    · simp only [buildList, EM.fail]; intro hc; cases hc
  | succ fuel ih =>
    obtain ⟨ihC, ihD, ihS, ihG, ihP, ihL⟩ := ih
    refine ⟨?_, ?_, ?_, ?_, ?_, ?_⟩
    · -- callCtor
      intro n c st hn h
      unfold NB
      simp only [callCtor]
      split
      · intro hc; cases hc
      · split
        · intro hc; cases hc
        · have h1 := h.modCtorOnStack n true
          have hps : ParamsWF (st.ctor n).params := h.wf.ctorParams n (by rw [h.vl.2.1]; exact hn)
          refine nb_finally _ (nb_bind ?_ ?_)
          · unfold NB shallowCheck; split <;> (intro hc; cases hc)
          · intro _ s2 hs2
            have e2 : s2 = st.modCtor n fun x => { x with onStack := true } := by
              have := shallowCheck_state' c (st.ctor n).params (st.modCtor n fun x => { x with onStack := true })
              rw [hs2] at this; exact this
            subst e2
            refine nb_bind (nb_wrapErr _ (ihL _ c _ hps h1)) ?_
            intro args s3 _
            unfold NB ctorTail ctorOutcome
            simp only
            split
            · split <;> (intro hc; cases hc)
            · intro hc; cases hc
            · intro hc; cases hc
            · intro hc; cases hc
    · -- callDeco
      intro d s st hd h
      unfold NB
      simp only [callDeco]
      split
      · intro hc; cases hc
      · have h1 := h.modDecoOnStack d
        have hps : ParamsWF (st.deco d).params := h.wf.decoParams d (by rw [h.vl.2.2]; exact hd)
        refine nb_finally _ (nb_bind ?_ ?_)
        · unfold NB shallowCheck; split <;> (intro hc; cases hc)
        · intro _ s2 hs2
          have e2 : s2 = st.modDeco d fun x => { x with state := .onStack } := by
            have := shallowCheck_state' s (st.deco d).params (st.modDeco d fun x => { x with state := .onStack })
            rw [hs2] at this; exact this
          subst e2
          refine nb_bind (nb_wrapErr _ (ihL _ _ _ hps h1)) ?_
          intro args s3 _
          unfold NB decoTail decoOutcome
          simp only
          split
          · split <;> (intro hc; cases hc)
          · intro hc; cases hc
          · intro hc; cases hc
          · intro hc; cases hc
    · -- buildSingle
      intro k opt c st hk h
      unfold NB
      simp only [buildSingle]
      split
      · rename_i d ds hfd
        obtain ⟨pre, post, hsplit, hdec, hns, _⟩ := findDeco_spec st k _ d ds hfd
        have hdL : d < L' := by rw [← h.vl.2.2]; exact h.vl.1.2 ds k d hdec
        obtain ⟨_, hds, slot, decl, hleaf⟩ := h.wf.decoPlain ds k d hdec hk
        refine nb_bind (nb_wrapErr _ (ihD d ds st hdL h)) ?_
        intro _ st' hrun
        have hrun' := wrapErr_ok _ hrun
        have hst' : st' = (callDeco ctx fuel d ds st).2 := by rw [hrun']
        have hei : EI ctx.env L L' st' := by rw [hst']; exact ei_callDeco ctx L L' fuel d ds hdL st h hns
        have hcalled := callDeco_ok_called ctx L L' fuel d ds hdL st h.vl () st' hrun'
        have hreg : RegFrame st st' := by rw [hst']; exact ((engine_flags ctx L L' fuel).2.1 d ds st hdL h.vl hns).reg
        have hs' : (st'.deco d).s = ds := by rw [← (hreg.2.2.2.2.2.2 d).2.2.2.1]; exact hds
        have hl' : (false, k, slot, decl) ∈ slotDecoLeaves ctx.env (st'.deco d).results := by
          rw [← (hreg.2.2.2.2.2.2 d).2.2.1]; exact hleaf
        have hsome := hei.cached.deco d (by rw [hei.vl.2.2]; exact hdL) hcalled k slot decl hl'
        rw [hs'] at hsome
        unfold NB
        simp only
        cases hv : aget (st'.scope ds).decoratedValues k with
        | none => rw [hv] at hsome; cases hsome
        | some v => intro hc; cases hc
      · split
        · intro hc; cases hc
        · split
          · intro hc; cases hc
          · split <;> (intro hc; cases hc)
          · rename_i pc ns hfp
            obtain ⟨pre, post, hsplit, hns, hne, _, _⟩ := findProviders_provs st k _ pc ns hfp
            have hnL : ∀ n ∈ ns, n < L := by
              intro n hn
              rw [← h.vl.2.1]
              exact h.vl.1.1 pc k n (by rw [← hns]; exact hn)
            -- invariant carried through the provider loop
            let V : St → Prop := fun s => EI ctx.env L L' s ∧ RegFrame st s
            have hstep : ∀ n, n ∈ ns → ∀ s1, V s1 →
                V (providerStep ctx.env k opt (ctorId ctx.sameIds (s1.ctor n).fn) (callCtor ctx fuel n (s1.ctor n).origS s1)).2 := by
              intro n hn s1 hv1
              rw [providerStep_state]
              exact ⟨ei_callCtor ctx L L' fuel n _ (hnL n hn) s1 hv1.1,
                hv1.2.trans ((engine_flags ctx L L' fuel).1 n _ (hnL n hn) s1 hv1.1.vl).reg⟩
            refine nb_bind ?_ ?_
            · refine nb_firstM V ns _ hstep ?_ st ⟨h, RegFrame.refl st⟩
              intro n hn s1 hv1
              exact nb_providerStep ctx.env k opt _ _ s1 (ihC n _ s1 (hnL n hn) hv1.1)
            · intro early st' hrun
              unfold NB
              simp only
              cases early with
              | some z => intro hc; cases hc
              | none =>
                simp only
                have hall := firstM_none_all V (fun n s => (s.ctor n).called = true) ns _ hstep ?_ ?_ st st'
                  ⟨h, RegFrame.refl st⟩ hrun
                · have hv' : V st' := by
                    have := inv_firstM V ns _ hstep st ⟨h, RegFrame.refl st⟩
                    rw [hrun] at this; exact this
                  obtain ⟨hei, hreg⟩ := hv'
                  cases hnsc : ns with
                  | nil => exact absurd hnsc hne
                  | cons n0 rest =>
                    have hn0 : n0 ∈ ns := by rw [hnsc]; simp
                    obtain ⟨hs0, hk0⟩ := h.wf.provPlain pc k n0 (by rw [← hns]; exact hn0) hk
                    have hcalled := hall n0 hn0
                    have hk' : k ∈ ctorKeys st' n0 := by rw [ctorKeys_regFrame hreg]; exact hk0
                    have hsome := hei.cached.ctor n0 (by rw [hei.vl.2.1]; exact hnL n0 hn0) hcalled k hk'
                    rw [← (hreg.2.2.2.2.1 n0).2.2.2.1, hs0] at hsome
                    cases hv : aget (st'.scope pc).values k with
                    | none => rw [hv] at hsome; cases hsome
                    | some v => intro hc; cases hc
                · intro n hn s1 s1' hv1 hres
                  have := providerStep_none ctx.env k opt _ _ s1' hres
                  exact callCtor_ok_called ctx L L' fuel n _ (hnL n hn) s1 hv1.1.vl () s1' this
                · intro a n hn s1 hv1 ha
                  rw [providerStep_state]
                  exact ((engine_flags ctx L L' fuel).1 n _ (hnL n hn) s1 hv1.1.vl).ctorMono a ha
    · -- buildGroup
      intro k soft c st h
      unfold NB
      simp only [buildGroup]
      have hdstep : ∀ s, s ∈ (st.ancestors c).reverse → ∀ s1, EI ctx.env L L' s1 →
          EI ctx.env L L' ((fun (st1 : St) =>
            match aget (st1.scope s).decorators k with
            | some d =>
              if (st1.deco d).state == DecoState.onStack then (Except.ok (), st1)
              else EM.wrapErr (callDeco ctx fuel d s) (.paramGroup k (ctorId ctx.sameIds (st1.deco d).fn)) st1
            | none => (Except.ok (), st1)) s1).2 ∧
          NB (fun (st1 : St) =>
            match aget (st1.scope s).decorators k with
            | some d =>
              if (st1.deco d).state == DecoState.onStack then (Except.ok (), st1)
              else EM.wrapErr (callDeco ctx fuel d s) (.paramGroup k (ctorId ctx.sameIds (st1.deco d).fn)) st1
            | none => (Except.ok (), st1)) s1 := by
        intro s _ s1 h1
        unfold NB
        simp only
        cases hd : aget (s1.scope s).decorators k with
        | none => exact ⟨h1, by intro hc; cases hc⟩
        | some d =>
          simp only
          have hdL : d < L' := by rw [← h1.vl.2.2]; exact h1.vl.1.2 s k d hd
          split
          · exact ⟨h1, by intro hc; cases hc⟩
          · rename_i hns
            have hns' : (s1.deco d).state ≠ .onStack := by simpa using hns
            refine ⟨?_, nb_wrapErr _ (ihD d s s1 hdL h1)⟩
            rw [wrapErr_state'']
            exact ei_callDeco ctx L L' fuel d s hdL s1 h1 hns'
      refine nb_bind (nb_forEachM (EI ctx.env L L') _ _ (fun s hs s1 h1 => (hdstep s hs s1 h1).1)
        (fun s hs s1 h1 => (hdstep s hs s1 h1).2) st h) ?_
      intro _ st2 hrun
      have h2 : EI ctx.env L L' st2 := by
        have := inv_forEachM (EI ctx.env L L') _ _ (fun s hs s1 h1 => (hdstep s hs s1 h1).1) st h
        have e : st2 = (forEachM (st.ancestors c).reverse _ st).2 := (congrArg Prod.snd hrun).symm
        rw [e]; exact this
      unfold NB
      simp only
      split
      · intro hc; cases hc
      · refine nb_bind ?_ (fun _ s5 _ => by unfold NB; intro hc; cases hc)
        cases soft with
        | true => simp only [if_true]; exact nb_pure () st2
        | false =>
          simp only [Bool.false_eq_true, if_false]
          have hinner : ∀ s, ∀ s3, EI ctx.env L L' s3 →
              EI ctx.env L L' (forEachM (agetL (s3.scope s).providers k)
                (fun n => fun st4 => EM.wrapErr (callCtor ctx fuel n (st4.ctor n).origS)
                  (.paramGroup k (ctorId ctx.sameIds (st4.ctor n).fn)) st4) s3).2 ∧
              NB (forEachM (agetL (s3.scope s).providers k)
                (fun n => fun st4 => EM.wrapErr (callCtor ctx fuel n (st4.ctor n).origS)
                  (.paramGroup k (ctorId ctx.sameIds (st4.ctor n).fn)) st4)) s3 := by
            intro s s3 h3
            have hmemL : ∀ n ∈ agetL (s3.scope s).providers k, n < L := by
              intro n hn; rw [← h3.vl.2.1]; exact h3.vl.1.1 s k n hn
            have hv : ∀ n, n ∈ agetL (s3.scope s).providers k → ∀ s4, EI ctx.env L L' s4 →
                EI ctx.env L L' (EM.wrapErr (callCtor ctx fuel n (s4.ctor n).origS)
                  (.paramGroup k (ctorId ctx.sameIds (s4.ctor n).fn)) s4).2 := by
              intro n hn s4 h4
              rw [wrapErr_state'']
              exact ei_callCtor ctx L L' fuel n _ (hmemL n hn) s4 h4
            exact ⟨inv_forEachM (EI ctx.env L L') _ _ hv s3 h3,
              nb_forEachM (EI ctx.env L L') _ _ hv (fun n hn s4 h4 => nb_wrapErr _ (ihC n _ s4 (hmemL n hn) h4)) s3 h3⟩
          exact nb_forEachM (EI ctx.env L L') _ _ (fun s _ s3 h3 => (hinner s s3 h3).1) (fun s _ s3 h3 => (hinner s s3 h3).2) st2 h2
    · -- buildParam
      intro p c st hp h
      cases p with
      | single k opt =>
        simp only [buildParam]
        exact ihS k opt c st (hp (.single k) (by simp [leaves])) h
      | grouped ty k soft pg => simp only [buildParam]; exact ihG k soft c st h
      | object ty fs =>
        unfold NB
        simp only [buildParam]
        have hV : ∀ f, f ∈ fs → ∀ s, EI ctx.env L L' s → EI ctx.env L L' (buildParam ctx fuel f c s).2 :=
          fun f _ s hs => ei_buildParam ctx L L' fuel f c s hs
        have hN : ∀ f, f ∈ fs → ∀ s, EI ctx.env L L' s → NB (buildParam ctx fuel f c) s :=
          fun f hf s hs => ihP f c s (paramWF_of_mem hp hf) hs
        refine nb_bind (nb_mapM (EI ctx.env L L') _ _ (fun f hf => hV f (List.mem_filter.mp hf).1)
          (fun f hf => hN f (List.mem_filter.mp hf).1) st h) ?_
        intro hard s1 hrun
        have h1 : EI ctx.env L L' s1 := by
          have := inv_mapM (EI ctx.env L L') (fs.filter (fun f => !isSoft f)) (fun f => buildParam ctx fuel f c)
            (fun f hf => hV f (List.mem_filter.mp hf).1) st h
          rw [hrun] at this; exact this
        refine nb_bind (nb_mapM (EI ctx.env L L') _ _ (fun f hf => hV f (List.mem_filter.mp hf).1)
          (fun f hf => hN f (List.mem_filter.mp hf).1) s1 h1) ?_
        intro soft s2 _
        exact nb_pure _ s2
    · -- buildList
      intro ps c st hps h
      unfold NB
      simp only [buildList]
      exact nb_mapM (EI ctx.env L L') _ _ (fun p _ s hs => ei_buildParam ctx L L' fuel p c s hs)
        (fun p hp s hs => ihP p c s (paramWF_of_mem_list hps hp) hs) st h

end Dig
