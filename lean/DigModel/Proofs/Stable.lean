import DigModel.Proofs.RegOKApi
/-
  Once a single value is cached it is never replaced: the only writer of `values[S][k]` is a
  successful execution of a constructor that declares `k` and lives in `S`; such a constructor is
  unique (`RegInv`), it is marked built when the first value is written (`Just`), and a built
  constructor is never executed again (`Flags`).
-/
namespace Dig

theorem okExits_pos_of_mem (w : Who) (f x : Nat) (l : List Event) (h : Event.exit w f x .ok ∈ l) : 1 ≤ okExits w l := by
  unfold okExits
  apply List.countP_pos_iff.mpr
  exact ⟨_, h, by simp [isOkExit]⟩

/-! ### extraction never removes a key -/

theorem isSome_aset_keep {β : Type} (m : List (Key × β)) (k k' : Key) (v : β) (h : (aget m k').isSome = true) :
    (aget (aset m k v) k').isSome = true := by
  rw [aget_aset]; split
  · rfl
  · exact h

theorem foldl_aset_isSome (v : Val) (name : String) : ∀ (tys : List Nat) (m : List (Key × Val)) (k : Key),
    (aget m k).isSome = true →
    (aget (tys.foldl (fun m t => aset m { ty := t, name := name, group := "" } v) m) k).isSome = true := by
  intro tys
  induction tys with
  | nil => intro m k h; exact h
  | cons t ts ih => intro m k h; simp only [List.foldl_cons]; exact ih _ k (isSome_aset_keep m _ k v h)

theorem extractResult_keeps (env : TyEnv) (r : Ret) (sc : ScopeSt) (x : Result) :
    ∀ k, (aget sc.values k).isSome = true → (aget (extractResult env r sc x).values k).isSome = true := by
  apply extractResult.induct env r
    (fun sc x => ∀ k, (aget sc.values k).isSome = true → (aget (extractResult env r sc x).values k).isSome = true)
    (fun sc xs => ∀ k, (aget sc.values k).isSome = true → (aget (extractResults env r sc xs).values k).isSome = true)
  · intro sc slot decl ty name as k h
    simp only [extractResult]
    exact foldl_aset_isSome _ name _ _ k h
  · intro sc slot decl ty group as k h; simp only [extractResult, if_true]; exact h
  · intro sc slot decl ty group flatten as hf k h; simp only [extractResult, hf]; exact h
  · intro sc ty fs ih k h; simp only [extractResult]; exact ih k h
  · intro sc k h; simp only [extractResults]; exact h
  · intro sc x xs ih1 ih2 k h; simp only [extractResults]; exact ih2 k (ih1 k h)

theorem extractSlots_keeps (env : TyEnv) (r : Ret) : ∀ (slots : List RSlot) (sc : ScopeSt) (k : Key),
    (aget sc.values k).isSome = true → (aget (extractSlots env false r sc slots).values k).isSome = true := by
  intro slots
  induction slots with
  | nil => intro sc k h; exact h
  | cons s rest ih =>
    intro sc k h
    cases s with
    | err => simp only [extractSlots]; exact ih sc k h
    | val x =>
      simp only [extractSlots, Bool.false_eq_true, if_false]
      exact ih _ k (extractResult_keeps env r sc x k h)

/-! ### who writes -/

/-- `b` extends `a`: every cached single value of `b` was there in `a` or was written together with a successful exit
    of a constructor of that scope that declares the key; no key disappears -/
def Wr (a b : St) : Prop :=
  RegFrame a b ∧ ∃ l, b.hist = a.hist ++ l ∧
    (∀ S k, (aget (a.scope S).values k).isSome = true → (aget (b.scope S).values k).isSome = true) ∧
    ∀ S k v', aget (b.scope S).values k = some v' →
      aget (a.scope S).values k = some v' ∨
      ∃ n f x, n < a.ctors.length ∧ (a.ctor n).s = S ∧ k ∈ ctorKeys a n ∧ Event.exit (.ctor n) f x .ok ∈ l

theorem Wr.refl (a : St) : Wr a a := ⟨RegFrame.refl a, [], by simp, fun _ _ h => h, fun _ _ _ h => Or.inl h⟩

theorem ctorKeys_regFrame {a b : St} (h : RegFrame a b) (n : Nat) : ctorKeys b n = ctorKeys a n := by
  unfold ctorKeys; rw [(h.2.2.2.2.1 n).2.2.1]

theorem Wr.trans {a b c : St} (h1 : Wr a b) (h2 : Wr b c) : Wr a c := by
  obtain ⟨r1, l1, e1, k1, w1⟩ := h1
  obtain ⟨r2, l2, e2, k2, w2⟩ := h2
  refine ⟨r1.trans r2, l1 ++ l2, by rw [e2, e1, List.append_assoc], fun S k h => k2 S k (k1 S k h), ?_⟩
  intro S k v' hv
  rcases w2 S k v' hv with h | ⟨n, f, x, hn, hs, hk, hex⟩
  · rcases w1 S k v' h with h' | ⟨n, f, x, hn, hs, hk, hex⟩
    · exact Or.inl h'
    · exact Or.inr ⟨n, f, x, hn, hs, hk, List.mem_append_left _ hex⟩
  · refine Or.inr ⟨n, f, x, by rw [r1.2.2.2.1]; exact hn, by rw [(r1.2.2.2.2.1 n).2.2.2.1]; exact hs,
      by rw [← ctorKeys_regFrame r1]; exact hk, List.mem_append_right _ hex⟩

theorem wr_same (a b : St) (hr : RegFrame a b) (hh : b.hist = a.hist) (hs : b.scopes = a.scopes) : Wr a b :=
  ⟨hr, [], by simp [hh], fun S k h => by rw [scope_of_scopes_eq hs S]; exact h,
   fun S k v' h => Or.inl (by rw [← scope_of_scopes_eq hs S]; exact h)⟩

theorem wr_ctorTail (ctx : Ctx) (hnd : ctx.cfg.dry = false) (st : St) (n : Nat) (node : CtorNode) (args : List Val)
    (hst : CtorStatic node (st.ctor n)) : Wr st (ctorTail ctx n node args st).2 := by
  have hreg := regFrame_ctorTail ctx st n node args
  obtain ⟨lb, lc, hh, _, hb, _⟩ := ctorTail_log ctx n node args st
  refine ⟨hreg, lb ++ lc, hh, ?_, ?_⟩
  · intro S k h
    rw [ctorTail_scope]
    cases retOf node.fn.id (callBody ctx (.ctor n) node.fn args st).1 with
    | none => exact h
    | some ret =>
      simp only
      split
      · exact extractSlots_keeps ctx.env ret node.results _ k h
      · exact h
  · intro S k v' hv
    rw [ctorTail_scope] at hv
    cases hret : retOf node.fn.id (callBody ctx (.ctor n) node.fn args st).1 with
    | none => rw [hret] at hv; exact Or.inl hv
    | some ret =>
      rw [hret] at hv
      simp only at hv
      split at hv
      · rename_i hc
        obtain ⟨hs, _⟩ := hc
        rcases extractSlots_values ctx.env ret node.results (st.scope S) k v' hv with h1 | ⟨slot, decl, hm, _⟩
        · exact Or.inl h1
        · obtain ⟨s1, s2, s3, s4, _, _, _⟩ := hst
          have hn : n < st.ctors.length := by
            by_cases h : n < st.ctors.length
            · exact h
            · exfalso
              have : st.ctor n = default := by
                simp only [St.ctor, List.getD_eq_getElem?_getD]
                rw [List.getElem?_eq_none (Nat.le_of_not_lt h)]; rfl
              have hd : (default : CtorNode).results = [] := rfl
              rw [s3, this, hd] at hm
              simp [slotLeaves] at hm
          -- the body returned normally (not dry): its successful exit is among the appended events
          cases hbr : (callBody ctx (.ctor n) node.fn args st).1 with
          | ok x len =>
            refine Or.inr ⟨n, node.fn.id, x, hn, by rw [← s4]; exact hs, ?_, ?_⟩
            · unfold ctorKeys
              rw [← s3]
              exact List.mem_map.mpr ⟨(k, slot, decl), hm, rfl⟩
            · rcases hb with ⟨hd, _⟩ | ⟨_, rfl⟩
              · rw [hd] at hnd; cases hnd
              · apply List.mem_append_left
                rw [callBody_spec ctx hnd] at hbr
                simp only at hbr
                obtain ⟨rfl, hk⟩ := bodyRes_ok_x ctx node.fn st x len hbr
                unfold bodyEvents
                simp [hk]
          | dry => rw [callBody_spec ctx hnd] at hbr; exact absurd hbr (bodyRes_ne_dry ctx node.fn st)
          | err x o => rw [hbr] at hret; cases hret
          | panic x => rw [hbr] at hret; cases hret
      · exact Or.inl hv

theorem wr_decoTail (ctx : Ctx) (st : St) (d : Nat) (node : DecoNode) (args : List Val) :
    Wr st (decoTail ctx d node args st).2 := by
  obtain ⟨lb, lc, hh, _⟩ := decoTail_log ctx d node args st
  exact ⟨regFrame_decoTail ctx st d node args, lb ++ lc, hh,
    fun S k h => by rw [decoTail_values]; exact h, fun S k v' h => Or.inl (by rw [← decoTail_values ctx d node args st S]; exact h)⟩

theorem wr_leaf (ctx : Ctx) (hnd : ctx.cfg.dry = false) : LeafRel2 ctx Wr where
  refl := Wr.refl
  trans := Wr.trans
  toReg h := h.1
  setOnStack st n := wr_same _ _ (regFrame_modCtor st n _ (fun _ => ⟨rfl, rfl, rfl, rfl, rfl, rfl, rfl⟩)) rfl rfl
  clearOnStack st n := wr_same _ _ (regFrame_modCtor st n _ (fun _ => ⟨rfl, rfl, rfl, rfl, rfl, rfl, rfl⟩)) rfl rfl
  ctorTail st n node args hst := wr_ctorTail ctx hnd st n node args hst
  decoOnStack st d := wr_same _ _ (regFrame_modDeco st d _ (fun _ => ⟨rfl, rfl, rfl, rfl, rfl⟩)) rfl rfl
  decoFinally st d := wr_same _ _ (regFrame_modDeco st d _ (fun x => by split <;> exact ⟨rfl, rfl, rfl, rfl, rfl⟩)) rfl rfl
  decoTail st d node args _ := wr_decoTail ctx st d node args

/-- cached single values survive: same key, same value -/
def Stable (a b : St) : Prop := ∀ S k v, aget (a.scope S).values k = some v → aget (b.scope S).values k = some v

theorem Stable.refl (a : St) : Stable a a := fun _ _ _ h => h
theorem Stable.trans {a b c : St} (h1 : Stable a b) (h2 : Stable b c) : Stable a c := fun S k v h => h2 S k v (h1 S k v h)
theorem stable_of_cacheSame {a b : St} (h : CacheSame a b) : Stable a b := fun S k v hv => by rw [(h.2.2 S).1]; exact hv

/-- the resolver never replaces a cached single value -/
theorem stable_buildList (ctx : Ctx) (hnd : ctx.cfg.dry = false) {st : St} (hj : Just ctx.env st) (hr : RegInv st)
    (hv : ValidReg st) (fuel : Nat) (ps : List Param) (c : Nat) : Stable st (buildList ctx fuel ps c st).2 := by
  obtain ⟨_, l, hl, hkeep, hw⟩ := (engine_pres2 ctx (wr_leaf ctx hnd) fuel).2.2.2.2.2 ps c st
  have hf := (engine_flags ctx st.ctors.length st.decos.length fuel).2.2.2.2.2 ps c st ⟨hv, rfl, rfl⟩
  obtain ⟨l', hl', _, hc, _⟩ := hf.ext
  have hll : l' = l := List.append_cancel_left (hl'.symm.trans hl)
  subst hll
  intro S k v hcached
  have hsome := hkeep S k (by rw [hcached]; rfl)
  cases hb : aget ((buildList ctx fuel ps c st).2.scope S).values k with
  | none => rw [hb] at hsome; cases hsome
  | some v' =>
    rcases hw S k v' hb with h1 | ⟨n, f, x, hn, hs, hk, hex⟩
    · rw [hcached] at h1; exact h1.symm ▸ rfl
    · exfalso
      obtain ⟨n0, slot, decl, hn0, hs0, hc0, hm0, _⟩ := hj S k v hcached
      have hk0 : k ∈ ctorKeys st n0 := List.mem_map.mpr ⟨(k, slot, decl), hm0, rfl⟩
      have h1 := hr.regOK n hn k hk
      have h2 := hr.regOK n0 hn0 k hk0
      rw [hs] at h1; rw [hs0] at h2
      have heq := hr.uniq S k n n0 h1 h2 hk hk0
      subst heq
      have := (hc n).2.1 hc0
      have hpos := okExits_pos_of_mem (.ctor n) f x l' hex
      omega

end Dig

namespace Dig

theorem stable_invoke (ctx : Ctx) (hnd : ctx.cfg.dry = false) {st : St} (hj : Just ctx.env st) (hr : RegInv st)
    (hh : HInv st) (fn : Fn) (s : Nat) (info : Bool) : Stable st (apiInvoke ctx fn st s info).1 := by
  unfold apiInvoke
  cases fn.nonfunc with
  | some _ => exact Stable.refl st
  | none =>
    simp only
    have hg := ghOnly_parseParams ctx.env st s fn
    have hrb := parse_rollback_eq ctx.env st s fn
    cases hpp : parseParams ctx.env st s fn with
    | mk r w =>
      rw [hpp] at hg hrb
      simp only at hg hrb
      have hcs : CacheSame st w := cacheSame_ghOnly hg
      have hkw : CtorsKeep st w := ctorsKeep_of_ctors_eq hg.1.symm
      have hjw : Just ctx.env w := hj.cacheSame hcs hkw
      have hrw : RegInv w := hr.of_keep (by rw [hg.1]) hkw (by rw [hg.2.2.2.2.2.2.1]; exact Nat.le_refl _)
        (fun j => ((hg.2.2.2.2.2.2.2 j).2.2.1).symm)
      have hhw : HInv w := hh.ghOnly hg
      cases r with
      | error e => simp only; rw [hrb]; exact Stable.refl st
      | ok params =>
        simp only
        have hs := shallowCheck_state s params w
        cases hsc : shallowCheck s params w with
        | mk r2 w2 =>
          rw [hsc] at hs; simp only at hs; subst hs
          cases r2 with
          | error f => exact stable_of_cacheSame hcs
          | ok u =>
            simp only
            split
            · exact stable_of_cacheSame hcs
            · rename_i w3 hchk
              have h3 : CacheSame w2 w3 ∧ Just ctx.env w3 ∧ RegInv w3 ∧ HInv w3 := by
                split at hchk
                · injection hchk with e; rw [← e]; exact ⟨CacheSame.refl _, hjw, hrw, hhw⟩
                · split at hchk
                  · injection hchk with e; rw [← e]
                    have hc : CacheSame w2 (w2.modScope s fun x => { x with verified := true }) :=
                      cacheSame_modScope _ s _ (fun _ => ⟨rfl, rfl, rfl, rfl⟩)
                    refine ⟨hc, hjw.cacheSame hc (ctorsKeep_of_ctors_eq rfl), ?_, hhw.modVerified s true⟩
                    refine hrw.of_keep rfl (ctorsKeep_of_ctors_eq rfl) (by simp [St.modScope]) ?_
                    intro j; rw [scope_modScope]; split <;> rfl
                  · cases hchk
                  · cases hchk
              obtain ⟨hc3, hj3, hr3, hh3⟩ := h3
              have hst := stable_buildList ctx hnd hj3 hr3 hh3.valid (engineFuel w3 params) params s
              rw [← wrapErr_state _ DErr.argsFailed] at hst
              have h03 : Stable st w3 := (stable_of_cacheSame hcs).trans (stable_of_cacheSame hc3)
              cases hbl : EM.wrapErr (Dig.buildList ctx (engineFuel w3 params) params s) DErr.argsFailed w3 with
              | mk r4 w4 =>
                rw [hbl] at hst
                cases r4 with
                | error f => exact h03.trans hst
                | ok args =>
                  simp only
                  have hf := callBody_fields ctx .invoked fn args w4
                  refine (h03.trans hst).trans ?_
                  intro S k v hv
                  rw [scope_of_scopes_eq hf.1 S]; exact hv

theorem stable_step (ctx : Ctx) (hnd : ctx.cfg.dry = false) {st : St} (hj : Just ctx.env st) (hr : RegInv st)
    (hh : HInv st) (fns : List Fn) (i : Nat) (op : Op) : Stable st (Dig.step ctx fns st i op).1 := by
  have e0 : Stable st { st with log := [] } := fun _ _ _ h => h
  have hj0 : Just ctx.env { st with log := [] } := hj.transfer (ctorsKeep_of_ctors_eq rfl) (HistExt.of_eq rfl) (fun _ => rfl)
  have hr0 : RegInv { st with log := [] } := hr.of_tables rfl rfl
  have hh0 : HInv { st with log := [] } := hh.resetLog
  cases op with
  | scope p =>
    simp only [Dig.step]
    split
    · exact e0.trans (stable_of_cacheSame (cacheSame_apiScope _ p))
    · exact e0
  | provide s f o =>
    simp only [Dig.step]
    split
    · split
      · exact e0.trans (stable_of_cacheSame (cacheSame_apiProvide ctx _ _ i s o))
      · exact e0
    · exact e0
  | decorate s f cb info =>
    simp only [Dig.step]
    split
    · split
      · exact e0.trans (stable_of_cacheSame (cacheSame_apiDecorate ctx _ _ i s cb info))
      · exact e0
    · exact e0
  | invoke s f info =>
    simp only [Dig.step]
    split
    · split
      · exact e0.trans (stable_invoke ctx hnd hj0 hr0 hh0 _ s info)
      · exact e0
    · exact e0
  | visualize s e => cases e <;> (simp only [Dig.step]; split <;> exact e0)
  | string s => simp only [Dig.step]; split <;> exact e0

/-- any continuation of a history keeps every cached single value as it is -/
theorem stable_runOps (ctx : Ctx) (hnd : ctx.cfg.dry = false) (fns : List Fn) : ∀ (ops : List Op) (i : Nat) (st : St) (acc : List OpRes),
    Just ctx.env st → RegInv st → HInv st → Stable st (Dig.runOps ctx fns ops i st acc).1 := by
  intro ops
  induction ops with
  | nil => intro i st acc _ _ _; exact Stable.refl st
  | cons op rest ih =>
    intro i st acc hj hr hh
    simp only [Dig.runOps]
    have h1 := stable_step ctx hnd hj hr hh fns i op
    have hj' := Just.step ctx hj fns i op
    have hr' := hr.step ctx fns i op
    have hh' := hh.step ctx fns i op
    cases hs : Dig.step ctx fns st i op with
    | mk st' r =>
      rw [hs] at h1 hj' hr' hh'
      exact h1.trans (ih _ _ _ hj' hr' hh')

end Dig
