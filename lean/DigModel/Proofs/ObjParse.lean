import DigModel.Api
/-
  Parse level of C15: an object's fields are parsed exactly like the positional list of their types; a result
  object is extracted, key-checked and reported exactly like the list of its fields; a `name` tag on a result field
  is the `Name` option.
-/
namespace Dig

/-- a field without tags -/
def FieldMeta.plain (m : FieldMeta) : Prop :=
  m.exported = true ∧ m.tags.group = "" ∧ m.tags.name = "" ∧ m.tags.optional = ""

theorem newParam_single_name (env : TyEnv) (t : GoT) (s s' : List PGDesc) (k : Key) (o : Bool)
    (h : newParam env t s = (.ok (.single k o), s')) : k.name = "" ∧ o = false := by
  cases t with
  | univ i =>
    simp only [newParam] at h
    split at h
    · cases h
    · split at h
      · cases h
      · split at h
        · cases h
        · split at h
          · cases h
          · simp only [PM.pure] at h
            injection h with h1 _; injection h1 with h1; injection h1 with h1 h2
            subst h1; subst h2; exact ⟨rfl, rfl⟩
  | ptr i inner =>
    simp only [newParam] at h
    split at h
    · cases h
    · split at h
      · cases h
      · split at h
        · cases h
        · simp only [PM.pure] at h
          injection h with h1 _; injection h1 with h1; injection h1 with h1 h2
          subst h1; subst h2; exact ⟨rfl, rfl⟩
  | strct i fs =>
    simp only [newParam] at h
    split at h
    · cases h
    · split at h
      · cases hb : boolTag (if hasInField fs then findIgnoreTag fs else "") with
        | error e => simp only [hb, PM.fail] at h; cases h
        | ok ig =>
          simp only [hb] at h
          cases hf : newParamFields env ig fs s with
          | mk r s2 =>
            rw [hf] at h
            cases r with
            | error e => cases h
            | ok ps => simp only at h; injection h with h1 _; injection h1 with h1; cases h1
      · split at h
        · cases h
        · simp only [PM.pure] at h
          injection h with h1 _; injection h1 with h1; injection h1 with h1 h2
          subst h1; subst h2; exact ⟨rfl, rfl⟩

/-- an untagged exported field is parsed like a positional parameter of its type -/
theorem newParamField_plain (env : TyEnv) (m : FieldMeta) (t : GoT) (hm : m.plain) (s : List PGDesc) :
    newParamField env (m, t) s = newParam env t s := by
  obtain ⟨h1, h2, h3, h4⟩ := hm
  simp only [newParamField, h1, h2]
  cases hp : newParam env t s with
  | mk r s' =>
    cases r with
    | error e => simp
    | ok p =>
      cases p with
      | single k o =>
        obtain ⟨hk, ho⟩ := newParam_single_name env t s s' k o hp
        subst ho
        simp [h3, h4, boolTag, ← hk]
      | grouped ty k soft pg => simp
      | object ty fs => simp

/-- the field loop of a parameter object whose fields (other than `dig.In`) are untagged and exported is the
    positional parameter loop over the fields' types: same descriptors, same graph nodes created, same error -/
theorem newParamFields_plain (env : TyEnv) (ignore : Bool) : ∀ (fs : List (FieldMeta × GoT)),
    (∀ f ∈ fs, f.2.isUniv tIn = false ∧ f.1.plain) → ∀ s,
    newParamFields env ignore fs s = newParamListAux env (fs.map (·.2)) s := by
  intro fs
  induction fs with
  | nil => intro _ s; simp [newParamFields, newParamListAux]
  | cons f rest ih =>
    intro h s
    obtain ⟨hf1, hf2⟩ := h f (by simp)
    obtain ⟨m, t⟩ := f
    have hexp : m.exported = true := hf2.1
    simp only [newParamFields, List.map_cons, newParamListAux]
    simp only at hf1
    rw [hf1]
    simp only [hexp, Bool.not_true, Bool.false_and, Bool.false_eq_true, if_false]
    rw [newParamField_plain env m t hf2 s]
    cases hp : newParam env t s with
    | mk r s' =>
      cases r with
      | error e => rfl
      | ok p =>
        simp only
        rw [ih (fun g hg => h g (by simp [hg])) s']

/-- **a parameter object with untagged fields parses to the object of the positional parse of its fields' types**:
    same descriptors in declaration order, same group-parameter graph nodes created, same error at the same point -/
theorem newParam_object_plain (env : TyEnv) (i : Nat) (inM : FieldMeta) (fs : List (FieldMeta × GoT)) (ignore : Bool)
    (hout : isOutT (.strct i ((inM, .univ tIn) :: fs)) = false) (houtp : embeds tOutPtr (.strct i ((inM, .univ tIn) :: fs)) = false)
    (hin : isInT (.strct i ((inM, .univ tIn) :: fs)) = true)
    (hig : boolTag inM.tags.ignore = .ok ignore)
    (hfs : ∀ f ∈ fs, f.2.isUniv tIn = false ∧ f.1.plain) (s : List PGDesc) :
    newParam env (.strct i ((inM, .univ tIn) :: fs)) s =
      match newParamListAux env (fs.map (·.2)) s with
      | (.ok ps, s') => (.ok (.object i ps), s')
      | (.error e, s') => (.error e, s') := by
  have hI : (GoT.univ tIn).isUniv tIn = true := by simp [GoT.isUniv]
  simp only [newParam, hout, houtp, hin, Bool.or_self, Bool.false_eq_true, if_false, if_true, hasInField, hI,
    Bool.true_or, findIgnoreTag, hig]
  simp only [newParamFields, hI, if_true]
  rw [newParamFields_plain env ignore fs hfs s]
  cases newParamListAux env (fs.map (·.2)) s with
  | mk r s' => cases r <;> rfl

/-- a variadic parameter is not a dependency: the signature parses as if it were not there -/
theorem newParamList_variadic (env : TyEnv) (fn : Fn) (hv : fn.variadic = true) :
    newParamList env fn = newParamList env { fn with ins := fn.ins.dropLast, variadic := false } := by
  simp [newParamList, hv]

/-! ### results -/

theorem extractSlots_object (env : TyEnv) (deco : Bool) (r : Ret) (sc : ScopeSt) (ty : Nat) (fs : List Result)
    (rest : List RSlot) :
    extractSlots env deco r sc (.val (.object ty fs) :: rest) = extractSlots env deco r sc (fs.map RSlot.val ++ rest) := by
  have h1 : ∀ (fs : List Result) (sc : ScopeSt), extractSlots env false r sc (fs.map RSlot.val ++ rest) =
      extractSlots env false r (extractResults env r sc fs) rest := by
    intro fs
    induction fs with
    | nil => intro sc; simp [extractResults]
    | cons x xs ih => intro sc; simp only [List.map_cons, List.cons_append, extractSlots, extractResults]; exact ih _
  have h2 : ∀ (fs : List Result) (sc : ScopeSt), extractSlots env true r sc (fs.map RSlot.val ++ rest) =
      extractSlots env true r (extractDecos env r sc fs) rest := by
    intro fs
    induction fs with
    | nil => intro sc; simp [extractDecos]
    | cons x xs ih => intro sc; simp only [List.map_cons, List.cons_append, extractSlots, extractDecos]; exact ih _
  cases deco with
  | false => simp only [extractSlots, extractResult, Bool.false_eq_true, if_false]; rw [h1]
  | true => simp only [extractSlots, extractDeco, if_true]; rw [h2]

theorem visitKeys_append (X : ScopeSt) : ∀ (a b : List Result) (seen : List Key),
    visitKeys X (a ++ b) seen = match visitKeys X a seen with
      | .ok seen' => visitKeys X b seen'
      | .error e => .error e := by
  intro a
  induction a with
  | nil => intro b seen; simp [visitKeys]
  | cons x xs ih =>
    intro b seen
    cases x with
    | single slot decl ty name as =>
      simp only [List.cons_append, visitKeys]
      cases visitKeys.chk X ((ty :: as).map fun t => ({ ty := t, name := name, group := "" } : Key)) seen with
      | error e => rfl
      | ok s' => simp only; exact ih b s'
    | grouped slot decl ty group fl as =>
      simp only [List.cons_append, visitKeys]
      exact ih b _
    | object ty fs =>
      simp only [List.cons_append, visitKeys]
      cases visitKeys X fs seen with
      | error e => rfl
      | ok s' => simp only; exact ih b s'

/-- the duplicate check of Provide sees a result object as the list of its fields -/
theorem visitKeys_object (X : ScopeSt) (ty : Nat) (fs rest : List Result) (seen : List Key) :
    visitKeys X (.object ty fs :: rest) seen = visitKeys X (fs ++ rest) seen := by
  rw [visitKeys_append]
  simp only [visitKeys]
  cases visitKeys X fs seen <;> rfl

theorem resultKeys_append (env : TyEnv) : ∀ (a b : List Result),
    resultKeys env (a ++ b) = match resultKeys env a with
      | .error e => .error e
      | .ok ks1 => match resultKeys env b with
        | .ok ks2 => .ok (ks1 ++ ks2)
        | .error e => .error e := by
  intro a
  induction a with
  | nil => intro b; simp only [List.nil_append, resultKeys]; cases resultKeys env b <;> simp
  | cons x xs ih =>
    intro b
    cases x with
    | single slot decl ty name as =>
      simp only [List.cons_append, resultKeys]
      rw [ih b]
      cases resultKeys env xs with
      | error e => rfl
      | ok k1 => simp only; cases resultKeys env b <;> simp
    | grouped slot decl ty group fl as =>
      simp only [List.cons_append, resultKeys]
      split
      · rfl
      · split
        · rfl
        · rw [ih b]
          cases resultKeys env xs with
          | error e => rfl
          | ok k1 => simp only; cases resultKeys env b <;> simp
    | object ty fs =>
      simp only [List.cons_append, resultKeys]
      cases resultKeys env fs with
      | error e => rfl
      | ok k0 =>
        simp only
        rw [ih b]
        cases resultKeys env xs with
        | error e => rfl
        | ok k1 => simp only; cases resultKeys env b <;> simp [List.append_assoc]

/-- the key list of Decorate sees a result object as the list of its fields -/
theorem resultKeys_object (env : TyEnv) (ty : Nat) (fs rest : List Result) :
    resultKeys env (.object ty fs :: rest) = resultKeys env (fs ++ rest) := by
  rw [resultKeys_append]
  simp only [resultKeys]
  cases resultKeys env fs with
  | error e => rfl
  | ok k => simp only; cases resultKeys env rest <;> rfl

theorem dotSlots_object (ty : Nat) (fs : List Result) (rest : List RSlot) :
    dotSlots (.val (.object ty fs) :: rest) = dotSlots (fs.map RSlot.val ++ rest) := by
  have h : ∀ fs : List Result, dotSlots (fs.map RSlot.val ++ rest) = dotResults fs ++ dotSlots rest := by
    intro fs
    induction fs with
    | nil => simp [dotResults]
    | cons x xs ih => simp only [List.map_cons, List.cons_append, dotSlots, dotResults, ih, List.append_assoc]
  simp only [dotSlots, dotResult, h]

/-- a `name` tag on an exported field of a result object is the `dig.Name` option on a positional result -/
theorem newResultField_name_tag (env : TyEnv) (o : ResultOpts) (slot : Nat) (m : FieldMeta) (t : GoT)
    (he : m.exported = true) (hg : m.tags.group = "") (hn : m.tags.name ≠ "") :
    newResultField env o slot (m, t) = newResult env { o with name := m.tags.name } slot t := by
  simp [newResultField, he, hg, hn]

/-- an untagged exported field of a result object is a positional result -/
theorem newResultField_plain (env : TyEnv) (o : ResultOpts) (slot : Nat) (m : FieldMeta) (t : GoT)
    (he : m.exported = true) (hg : m.tags.group = "") (hn : m.tags.name = "") :
    newResultField env o slot (m, t) = newResult env o slot t := by
  simp [newResultField, he, hg, hn]

end Dig
