import DigModel.Proofs.Avail
/-
  The induction over the six resolver functions for `AvPost` (see `Avail.lean`).
-/
namespace Dig

theorem rootCause_argsFailed (e : DErr) : (DErr.argsFailed e).rootCause = e.rootCause := rfl
theorem rootCause_paramSingle (k : Key) (c : Nat) (e : DErr) : (DErr.paramSingle k c e).rootCause = e.rootCause := rfl
theorem rootCause_paramGroup (k : Key) (c : Nat) (e : DErr) : (DErr.paramGroup k c e).rootCause = e.rootCause := rfl

def NoD : Nat → Key → Prop := fun _ _ => False

theorem engine_avail (ctx : Ctx) (st0 : St) :
    ∀ fuel,
      (∀ n st, RegFrame st0 st → Stk st0 st (ReachC st0 n (st0.ctor n).origS) →
        AvPost st0 (ReachC st0 n (st0.ctor n).origS) NoD st (callCtor ctx fuel n (st0.ctor n).origS st)) ∧
      (∀ d s st, RegFrame st0 st → CheckedFrom st0 (.deco d) s → Stk st0 st (ReachD st0 d) →
        AvPost st0 (ReachD st0 d) NoD st (callDeco ctx fuel d s st)) ∧
      (∀ k opt c st, RegFrame st0 st → Stk st0 st (Reach st0 c (.single k)) →
        AvPost st0 (Reach st0 c (.single k)) (fun c' k' => opt = false ∧ c' = c ∧ k' = k) st (buildSingle ctx fuel k opt c st)) ∧
      (∀ k soft c st, RegFrame st0 st → Stk st0 st (Reach st0 c (.group k soft)) →
        AvPost st0 (Reach st0 c (.group k soft)) NoD st (buildGroup ctx fuel k soft c st)) ∧
      (∀ p c st, RegFrame st0 st → Stk st0 st (fun w => ∃ l ∈ leaves p, Reach st0 c l w) →
        AvPost st0 (fun w => ∃ l ∈ leaves p, Reach st0 c l w) (fun c' k' => c' = c ∧ k' ∈ reqSingles p) st
          (buildParam ctx fuel p c st)) ∧
      (∀ ps c st, RegFrame st0 st → Stk st0 st (fun w => ∃ l ∈ leavesL ps, Reach st0 c l w) →
        AvPost st0 (fun w => ∃ l ∈ leavesL ps, Reach st0 c l w) (fun c' k' => c' = c ∧ k' ∈ reqSinglesL ps) st
          (buildList ctx fuel ps c st)) := by
  intro fuel
  induction fuel with
  | zero =>
    refine ⟨?_, ?_, ?_, ?_, ?_, ?_⟩
    · intro n st h0 _; simp only [callCtor]; exact avp_fail h0 _ (fun e he => by cases he)
    · intro d s st h0 _ _; simp only [callDeco]; exact avp_fail h0 _ (fun e he => by cases he)
    · intro k o c st h0 _; simp only [buildSingle]; exact avp_fail h0 _ (fun e he => by cases he)
    · intro k o c st h0 _; simp only [buildGroup]; exact avp_fail h0 _ (fun e he => by cases he)
    · intro p c st h0 _; simp only [buildParam]; exact avp_fail h0 _ (fun e he => by cases he)
    · intro ps c st h0 _; simp only [buildList]; exact avp_fail h0 _ (fun e he => by cases he)
  | succ fuel ih =>
    obtain ⟨ihC, ihD, ihS, ihG, ihP, ihL⟩ := ih
    refine ⟨?_, ?_, ?_, ?_, ?_, ?_⟩
    · -- callCtor
      intro n st h0 hstk
      have hst : CtorStatic (st0.ctor n) (st.ctor n) := h0.2.2.2.2.1 n
      simp only [callCtor]
      split
      · exact avp_ok h0 _
      · split
        · rename_i hon
          refine avp_err h0 _ ⟨⟨?_, ?_⟩, fun hh => by simp [DErr.hasMissingDeps, DErr.chain] at hh⟩
          · intro p s _
            exact ⟨.ctor n, Or.inl rfl, hstk n hon (.ctor n) (Or.inl rfl)⟩
          · intro ks hk; simp [DErr.rootCause] at hk
        · rename_i hon
          have h1 : RegFrame st0 (st.modCtor n fun x => { x with onStack := true }) :=
            h0.trans (regFrame_modCtor st n _ (fun _ => ⟨rfl, rfl, rfl, rfl, rfl, rfl, rfl⟩))
          have hstk1 : Stk st0 (st.modCtor n fun x => { x with onStack := true })
              (fun w => ∃ l ∈ leavesL (st0.ctor n).params, Reach st0 (st0.ctor n).origS l w) := by
            intro m hm w hw
            rw [ctor_modCtor] at hm
            split at hm
            · rename_i hnm
              obtain ⟨rfl, _⟩ := hnm
              exact hw
            · exact hstk m hm w (Or.inr hw)
          refine avp_finally st _ ?_
            (fun s => regFrame_modCtor s n _ (fun _ => ⟨rfl, rfl, rfl, rfl, rfl, rfl, rfl⟩)) ?_
          · refine avp_bind _ (avp_shallowCheck h1 _ _ ?_) ?_
            · intro k hk
              right
              exact ⟨.ctor n, Or.inl rfl, by rw [← hst.2.1] at hk; exact hk, rfl⟩
            · intro _ s2 hs2 hk2
              refine avp_bind s2 (avp_wrapErr _ rootCause_argsFailed hmd_argsFailed s2 ?_) ?_
              · have := ihL (st.ctor n).params (st0.ctor n).origS s2 hs2
                  (by rw [← hst.2.1]; exact hstk1.same hk2)
                refine this.mono ?_ ?_
                · intro w ⟨l, hl, hr⟩
                  right
                  rw [hst.2.1]
                  exact ⟨l, hl, hr⟩
                · intro c' k' ⟨hc, hk⟩
                  right
                  exact ⟨.ctor n, Or.inl rfl, by rw [← hst.2.1] at hk; exact hk, hc⟩
              · intro args s3 hs3 _
                exact avp_ctorTail ctx hs3 n _ args
          · intro s hs hk m
            have hl : s.ctors.length = st.ctors.length := by rw [← hs.2.2.2.1, h0.2.2.2.1]
            have hm := hk m
            rw [ctor_modCtor] at hm ⊢
            by_cases hnm : n = m ∧ m < s.ctors.length
            · rw [if_pos hnm]
              obtain ⟨rfl, _⟩ := hnm
              simp only
              cases hv : (st.ctor n).onStack with
              | false => rfl
              | true => exact absurd hv hon
            · rw [if_neg hnm, hm, if_neg (by rw [← hl]; exact hnm)]
    · -- callDeco
      intro d s st h0 hchk hstk
      have hst : DecoStatic (st0.deco d) (st.deco d) := h0.2.2.2.2.2.2 d
      simp only [callDeco]
      split
      · exact avp_ok h0 _
      · have h1 : RegFrame st0 (st.modDeco d fun x => { x with state := .onStack }) :=
          h0.trans (regFrame_modDeco st d _ (fun _ => ⟨rfl, rfl, rfl, rfl, rfl⟩))
        refine avp_finally st _ ?_
          (fun s => regFrame_modDeco s d _ (fun x => by split <;> exact ⟨rfl, rfl, rfl, rfl, rfl⟩)) ?_
        · refine avp_bind _ (avp_shallowCheck h1 _ _ ?_) ?_
          · intro k hk
            right
            exact ⟨.deco d, Or.inl rfl, by rw [← hst.2.1] at hk; exact hk, hchk⟩
          · intro _ s2 hs2 hk2
            refine avp_bind s2 (avp_wrapErr _ rootCause_argsFailed hmd_argsFailed s2 ?_) ?_
            · have := ihL (st.deco d).params (st.deco d).s s2 hs2 (by
                rw [← hst.2.1, ← hst.2.2.2.1]
                refine Stk.same (st := st) ?_ (SameStk.trans (fun m => rfl) hk2)
                exact hstk.mono (fun w hw => Or.inr hw))
              refine this.mono ?_ ?_
              · intro w ⟨l, hl, hr⟩
                right
                rw [hst.2.1, hst.2.2.2.1]
                exact ⟨l, hl, hr⟩
              · intro c' k' ⟨hc, hk⟩
                right
                exact ⟨.deco d, Or.inl rfl, by rw [← hst.2.1] at hk; exact hk, Or.inl (by rw [hc, hst.2.2.2.1])⟩
            · intro args s3 hs3 _
              exact avp_decoTail ctx hs3 d _ args
        · intro s _ hk m
          exact (hk m)
    · -- buildSingle
      intro k opt c st h0 hstk
      have hanc : st.ancestors c = st0.ancestors c := (regFrame_ancestors h0 c).symm
      simp only [buildSingle]
      split
      · rename_i d ds hfd
        obtain ⟨pre, post, hsplit, hdec, _, _⟩ := findDeco_spec st k _ d ds hfd
        have hmem : ds ∈ st0.ancestors c := by rw [← hanc, hsplit]; simp
        have hdec0 : aget (st0.scope ds).decorators (Lf.single k).key = some d := by
          rw [(h0.2.1 ds).2.2.2.1]; exact hdec
        have hsub : ∀ w, ReachD st0 d w → Reach st0 c (.single k) w := by
          intro w hw
          rcases hw with rfl | ⟨l', hl', hr⟩
          · exact Reach.decoSelf hmem hdec0
          · exact Reach.decoDep hmem hdec0 hl' hr
        refine avp_bind st (avp_wrapErr _ (rootCause_paramSingle k 1) (hmd_paramSingle k 1) st ?_) ?_
        · refine (ihD d ds st h0 (Or.inr ⟨k, hdec0⟩) (hstk.mono hsub)).mono hsub ?_
          intro c' k' hf; exact hf.elim
        · intro _ s' hs' _
          try simp only
          split
          · exact avp_ok hs' _
          · exact avp_fail hs' _ (fun e he => by cases he)
      · split
        · exact avp_ok h0 _
        · split
          · exact avp_ok h0 _
          · rename_i hfp
            split
            · exact avp_ok h0 _
            · rename_i hopt
              refine avp_err h0 _ ⟨⟨?_, ?_⟩, fun _ => ⟨_, rfl⟩⟩
              · intro p s hr; simp [DErr.rootCause] at hr
              · intro ks hr
                simp only [DErr.rootCause, DErr.missingTypes.injEq] at hr
                subst hr
                refine ⟨by simp, fun k' hk' => ?_⟩
                simp only [List.mem_singleton] at hk'
                subst hk'
                refine ⟨c, ?_, Or.inl ⟨by simpa using hopt, rfl, rfl⟩⟩
                rw [regFrame_allProviders h0]
                exact allProviders_nil_of st c k' (fun s hs => (findProviders_none st k' _ hfp s hs).2)
          · rename_i pc ns hfp
            obtain ⟨pre, post, hsplit, hns, hne, _, hpre⟩ := findProviders_provs st k _ pc ns hfp
            have hprov : ∀ s, (st0.scope s).providers = (st.scope s).providers := fun s => (h0.2.1 s).2.2.1
            have hnear : nearestProv st0 k (st0.ancestors c) = some (pc, ns) := by
              rw [← hanc, hsplit, hns, ← hprov pc]
              refine nearestProv_of_split st0 k pre pc post ?_ ?_
              · intro s' hs'; rw [hprov s']; exact (hpre s' hs').2
              · rw [hprov pc, ← hns]; exact hne
            refine avp_bind st ?_ ?_
            · refine avp_firstM st ns _ ?_ st h0 (SameStk.refl st)
              intro n hn s1 hs1 hk1
              have hst : CtorStatic (st0.ctor n) (s1.ctor n) := hs1.2.2.2.2.1 n
              have hsub : ∀ w, ReachC st0 n (st0.ctor n).origS w → Reach st0 c (.single k) w := by
                intro w hw
                rcases hw with rfl | ⟨l', hl', hr⟩
                · exact Reach.provSelf hnear hn
                · exact Reach.provDep hnear hn hl' hr
              refine avp_providerStep _ _ _ _ _ ?_
              rw [← hst.2.2.2.2.1]
              refine (ihC n s1 hs1 ((hstk.same hk1).mono hsub)).mono hsub ?_
              intro c' k' hf; exact hf.elim
            · intro early s' hs' _
              try simp only
              split
              · exact avp_ok hs' _
              · split
                · exact avp_ok hs' _
                · exact avp_fail hs' _ (fun e he => by cases he)
    · -- buildGroup
      intro k soft c st h0 hstk
      have hanc : st.ancestors c = st0.ancestors c := (regFrame_ancestors h0 c).symm
      simp only [buildGroup]
      refine avp_bind st ?_ ?_
      · refine avp_forEachM st _ _ ?_ st h0 (SameStk.refl st)
        intro s hs s1 hs1 hk1
        have hmem : s ∈ st0.ancestors c := by rw [← hanc]; exact List.mem_reverse.mp hs
        try simp only
        split
        · rename_i d hd
          have hdec0 : aget (st0.scope s).decorators (Lf.group k soft).key = some d := by
            rw [(hs1.2.1 s).2.2.2.1]; exact hd
          have hsub : ∀ w, ReachD st0 d w → Reach st0 c (.group k soft) w := by
            intro w hw
            rcases hw with rfl | ⟨l', hl', hr⟩
            · exact Reach.decoSelf hmem hdec0
            · exact Reach.decoDep hmem hdec0 hl' hr
          split
          · exact avp_ok hs1 _
          · refine avp_wrapErr _ (rootCause_paramGroup k _) (hmd_paramGroup k _) s1 ?_
            refine (ihD d s s1 hs1 (Or.inr ⟨k, hdec0⟩) ((hstk.same hk1).mono hsub)).mono hsub ?_
            intro c' k' hf; exact hf.elim
        · exact avp_ok hs1 _
      · intro _ s2 hs2 hk2
        try simp only
        split
        · exact avp_ok hs2 _
        · refine avp_bind s2 ?_ ?_
          · cases soft with
            | true => simp only [if_true]; exact avp_ok hs2 _
            | false =>
              simp only [Bool.false_eq_true, if_false]
              refine avp_forEachM s2 _ _ ?_ s2 hs2 (SameStk.refl s2)
              intro s hs s3 hs3 hk3
              have hmem : s ∈ st0.ancestors c := by rw [← hanc]; exact hs
              refine avp_forEachM s3 _ _ ?_ s3 hs3 (SameStk.refl s3)
              intro n hn s4 hs4 hk4
              have hn0 : n ∈ agetL (st0.scope s).providers k := by rw [(hs3.2.1 s).2.2.1]; exact hn
              have hst : CtorStatic (st0.ctor n) (s4.ctor n) := hs4.2.2.2.2.1 n
              have hsub : ∀ w, ReachC st0 n (st0.ctor n).origS w → Reach st0 c (.group k false) w := by
                intro w hw
                rcases hw with rfl | ⟨l', hl', hr⟩
                · exact Reach.grpSelf hmem hn0
                · exact Reach.grpDep hmem hn0 hl' hr
              refine avp_wrapErr _ (rootCause_paramGroup k _) (hmd_paramGroup k _) s4 ?_
              rw [← hst.2.2.2.2.1]
              refine (ihC n s4 hs4 ((hstk.same (hk2.trans (hk3.trans hk4))).mono hsub)).mono hsub ?_
              intro c' k' hf; exact hf.elim
          · intro _ s5 hs5 _
            exact avp_ok hs5 _
    · -- buildParam
      intro p c st h0 hstk
      cases p with
      | single k opt =>
        simp only [buildParam]
        have hsub : ∀ w, Reach st0 c (.single k) w → ∃ l ∈ leaves (.single k opt), Reach st0 c l w :=
          fun w hw => ⟨_, by simp [leaves], hw⟩
        refine (ihS k opt c st h0 (hstk.mono hsub)).mono hsub ?_
        intro c' k' ⟨ho, hc, hk⟩
        left
        exact ⟨hc, by simp [reqSingles, ho, hk]⟩
      | grouped ty k soft pg =>
        simp only [buildParam]
        have hsub : ∀ w, Reach st0 c (.group k soft) w → ∃ l ∈ leaves (.grouped ty k soft pg), Reach st0 c l w :=
          fun w hw => ⟨_, by simp [leaves], hw⟩
        refine (ihG k soft c st h0 (hstk.mono hsub)).mono hsub ?_
        intro c' k' hf; exact hf.elim
      | object ty fs =>
        simp only [buildParam]
        have hsub : ∀ f ∈ fs, ∀ s, RegFrame st0 s → SameStk st s →
            AvPost st0 (fun w => ∃ l ∈ leaves (.object ty fs), Reach st0 c l w)
              (fun c' k' => c' = c ∧ k' ∈ reqSingles (.object ty fs)) s (buildParam ctx fuel f c s) := by
          intro f hf s hs hk
          have hT : ∀ w, (∃ l ∈ leaves f, Reach st0 c l w) → ∃ l ∈ leaves (.object ty fs), Reach st0 c l w := by
            intro w ⟨l, hl, hr⟩
            exact ⟨l, by simp only [leaves]; exact mem_leavesL.mpr ⟨f, hf, hl⟩, hr⟩
          refine (ihP f c s hs ((hstk.same hk).mono hT)).mono hT ?_
          intro c' k' ⟨hc, hk'⟩
          left
          exact ⟨hc, by simp only [reqSingles]; exact mem_reqSinglesL.mpr ⟨f, hf, hk'⟩⟩
        refine avp_bind st (avp_mapM st _ _ (fun f hf => hsub f (List.mem_filter.mp hf).1) st h0 (SameStk.refl st)) ?_
        intro hard s1 hs1 hk1
        refine avp_bind s1 (avp_mapM s1 _ _
          (fun f hf s hs hk => hsub f (List.mem_filter.mp hf).1 s hs (hk1.trans hk)) s1 hs1 (SameStk.refl s1)) ?_
        intro soft s2 hs2 _
        exact avp_ok hs2 _
    · -- buildList
      intro ps c st h0 hstk
      simp only [buildList]
      refine avp_mapM st _ _ ?_ st h0 (SameStk.refl st)
      intro p hp s hs hk
      have hT : ∀ w, (∃ l ∈ leaves p, Reach st0 c l w) → ∃ l ∈ leavesL ps, Reach st0 c l w := by
        intro w ⟨l, hl, hr⟩
        exact ⟨l, mem_leavesL.mpr ⟨p, hp, hl⟩, hr⟩
      refine (ihP p c s hs ((hstk.same hk).mono hT)).mono hT ?_
      intro c' k' ⟨hc, hk'⟩
      left
      exact ⟨hc, mem_reqSinglesL.mpr ⟨p, hp, hk'⟩⟩

end Dig
