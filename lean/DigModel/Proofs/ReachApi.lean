import DigModel.Proofs.Reach
import DigModel.Proofs.InvokeShape
import DigModel.Proofs.Parse
/-
  Laziness of `Invoke`, stated on the container as it was when Invoke was called.
-/
namespace Dig

/-- two containers in which reachability means the same -/
structure SameView (a b : St) : Prop where
  anc : ∀ s, a.ancestors s = b.ancestors s
  scope : ∀ s, (a.scope s).decorators = (b.scope s).decorators ∧ (a.scope s).providers = (b.scope s).providers
  ctor : ∀ n, (a.ctor n).params = (b.ctor n).params ∧ (a.ctor n).origS = (b.ctor n).origS
  deco : ∀ d, (a.deco d).params = (b.deco d).params ∧ (a.deco d).s = (b.deco d).s

theorem nearestProv_view {a b : St} (h : SameView a b) (k : Key) : ∀ anc, nearestProv a k anc = nearestProv b k anc := by
  intro anc
  induction anc with
  | nil => rfl
  | cons s rest ih => simp only [nearestProv, (h.scope s).2, ih]

theorem reach_view {a b : St} (h : SameView a b) {c : Nat} {l : Lf} {w : Who} (hr : Reach a c l w) : Reach b c l w := by
  induction hr with
  | decoSelf hs hd => exact Reach.decoSelf (by rw [← h.anc]; exact hs) (by rw [← (h.scope _).1]; exact hd)
  | decoDep hs hd hl _ ih =>
    refine Reach.decoDep (by rw [← h.anc]; exact hs) (by rw [← (h.scope _).1]; exact hd) (by rw [← (h.deco _).1]; exact hl) ?_
    rw [← (h.deco _).2]; exact ih
  | provSelf hn hm => exact Reach.provSelf (by rw [← h.anc, ← nearestProv_view h]; exact hn) hm
  | provDep hn hm hl _ ih =>
    refine Reach.provDep (by rw [← h.anc, ← nearestProv_view h]; exact hn) hm (by rw [← (h.ctor _).1]; exact hl) ?_
    rw [← (h.ctor _).2]; exact ih
  | grpSelf hs hn => exact Reach.grpSelf (by rw [← h.anc]; exact hs) (by rw [← (h.scope _).2]; exact hn)
  | grpDep hs hn hl _ ih =>
    refine Reach.grpDep (by rw [← h.anc]; exact hs) (by rw [← (h.scope _).2]; exact hn) (by rw [← (h.ctor _).1]; exact hl) ?_
    rw [← (h.ctor _).2]; exact ih

theorem SameView.symm {a b : St} (h : SameView a b) : SameView b a :=
  ⟨fun s => (h.anc s).symm, fun s => ⟨(h.scope s).1.symm, (h.scope s).2.symm⟩,
   fun n => ⟨(h.ctor n).1.symm, (h.ctor n).2.symm⟩, fun d => ⟨(h.deco d).1.symm, (h.deco d).2.symm⟩⟩

theorem sameView_regFrame {a b : St} (h : RegFrame a b) : SameView a b :=
  ⟨regFrame_ancestors h, fun s => ⟨(h.2.1 s).2.2.2.1, (h.2.1 s).2.2.1⟩,
   fun n => ⟨(h.2.2.2.2.1 n).2.1, (h.2.2.2.2.1 n).2.2.2.2.1⟩, fun d => ⟨(h.2.2.2.2.2.2 d).2.1, (h.2.2.2.2.2.2 d).2.2.2.1⟩⟩

theorem sameView_ghOnly {a b : St} (h : GhOnly a b) : SameView a b := by
  have hanc : ∀ s, a.ancestors s = b.ancestors s := by
    intro s
    unfold St.ancestors
    rw [h.2.2.2.2.2.2.1]
    have : ∀ fuel s, ancestorsAux a.scopes fuel s = ancestorsAux b.scopes fuel s := by
      intro fuel
      induction fuel with
      | zero => intro s; rfl
      | succ fuel ih =>
        intro s
        simp only [ancestorsAux]
        by_cases hs : s < a.scopes.length
        · have hsb : s < b.scopes.length := by rw [← h.2.2.2.2.2.2.1]; exact hs
          have h1 := (h.2.2.2.2.2.2.2 s).1
          simp only [St.scope, List.getD_eq_getElem?_getD, List.getElem?_eq_getElem hs, List.getElem?_eq_getElem hsb,
            Option.getD_some] at h1
          simp only [List.getElem?_eq_getElem hs, List.getElem?_eq_getElem hsb, h1]
          congr 1
          cases b.scopes[s].parent with
          | none => rfl
          | some p => exact ih p
        · have h1 : a.scopes[s]? = none := by simp; omega
          have h2 : b.scopes[s]? = none := by simp; rw [← h.2.2.2.2.2.2.1]; omega
          simp [h1, h2]
    exact this _ _
  exact ⟨hanc, fun s => ⟨(h.2.2.2.2.2.2.2 s).2.2.2.1, (h.2.2.2.2.2.2.2 s).2.2.1⟩,
    fun n => by simp [St.ctor, h.1], fun d => by simp [St.deco, h.2.1]⟩

theorem sameView_trans {a b c : St} (h1 : SameView a b) (h2 : SameView b c) : SameView a c :=
  ⟨fun s => (h1.anc s).trans (h2.anc s), fun s => ⟨(h1.scope s).1.trans (h2.scope s).1, (h1.scope s).2.trans (h2.scope s).2⟩,
   fun n => ⟨(h1.ctor n).1.trans (h2.ctor n).1, (h1.ctor n).2.trans (h2.ctor n).2⟩,
   fun d => ⟨(h1.deco d).1.trans (h2.deco d).1, (h1.deco d).2.trans (h2.deco d).2⟩⟩

theorem sameView_modVerified (w : St) (s : Nat) (b : Bool) : SameView w (w.modScope s fun x => { x with verified := b }) :=
  sameView_regFrame' where
  sameView_regFrame' : SameView w (w.modScope s fun x => { x with verified := b }) := by
    have hanc : ∀ j, ((w.modScope s fun x => { x with verified := b }).scope j).parent = (w.scope j).parent ∧
        ((w.modScope s fun x => { x with verified := b }).scope j).decorators = (w.scope j).decorators ∧
        ((w.modScope s fun x => { x with verified := b }).scope j).providers = (w.scope j).providers := by
      intro j; rw [scope_modScope]; split <;> exact ⟨rfl, rfl, rfl⟩
    refine ⟨?_, fun j => ⟨(hanc j).2.1.symm, (hanc j).2.2.symm⟩, fun _ => ⟨rfl, rfl⟩, fun _ => ⟨rfl, rfl⟩⟩
    intro j
    unfold St.ancestors
    have hl : (w.modScope s fun x => { x with verified := b }).scopes.length = w.scopes.length := by simp [St.modScope]
    rw [hl]
    have : ∀ fuel j, ancestorsAux w.scopes fuel j = ancestorsAux (w.modScope s fun x => { x with verified := b }).scopes fuel j := by
      intro fuel
      induction fuel with
      | zero => intro j; rfl
      | succ fuel ih =>
        intro j
        simp only [ancestorsAux]
        by_cases hs : j < w.scopes.length
        · have hsb : j < (w.modScope s fun x => { x with verified := b }).scopes.length := by rw [hl]; exact hs
          have h1 := (hanc j).1
          simp only [St.scope, List.getD_eq_getElem?_getD, List.getElem?_eq_getElem hs, List.getElem?_eq_getElem hsb,
            Option.getD_some] at h1
          simp only [List.getElem?_eq_getElem hs, List.getElem?_eq_getElem hsb, h1]
          congr 1
          cases w.scopes[j].parent with
          | none => rfl
          | some p => exact ih p
        · have h1 : w.scopes[j]? = none := by simp; omega
          have h2 : (w.modScope s fun x => { x with verified := b }).scopes[j]? = none := by simp; rw [hl]; omega
          simp [h1, h2]
    exact this _ _

/-- the log of the body of the invoked function -/
theorem callBody_invoked_only (ctx : Ctx) (fn : Fn) (args : List Val) (st : St) :
    Only (fun w => w = .invoked) st (callBody ctx .invoked fn args st).2 := by
  by_cases hd : ctx.cfg.dry = true
  · rw [callBody_dry ctx hd]; exact Only.refl _ _
  · rw [callBody_spec ctx (by simpa using hd)]
    refine ⟨bodyEvents ctx .invoked fn args st, rfl, ?_⟩
    intro e he w f x a heq
    unfold bodyEvents at he
    simp only [List.mem_cons, List.not_mem_nil, or_false] at he
    rcases he with rfl | rfl
    · cases heq; rfl
    · cases heq

/-- **only the dependency closure runs**: every function entered during an Invoke is the invoked function itself or
    belongs to a constructor or decorator reachable — in the container as it was when Invoke was called — from a
    parameter of the invoked function, seen from the invoking scope -/
theorem apiInvoke_only (ctx : Ctx) (fn : Fn) (st : St) (s : Nat) (info : Bool) (hlog : st.log = []) :
    ∀ e ∈ (apiInvoke ctx fn st s info).2.ev, ∀ w f x args, e = Event.enter w f x args →
      w = .invoked ∨ ∃ params w0, parseParams ctx.env st s fn = (.ok params, w0) ∧ ∃ l ∈ leavesL params, Reach st s l w := by
  rw [apiInvoke_eq]
  unfold apiInvoke'
  cases fn.nonfunc with
  | some _ => intro e he; simp at he
  | none =>
    simp only
    have hg := ghOnly_parseParams ctx.env st s fn
    have hlog1 := parseParams_log ctx.env st s fn
    cases hpp : parseParams ctx.env st s fn with
    | mk r w =>
      rw [hpp] at hg hlog1
      simp only at hg hlog1
      cases r with
      | error e => intro e he; simp at he
      | ok params =>
        simp only
        have hs := shallowCheck_state s params w
        cases hsc : shallowCheck s params w with
        | mk r2 w2 =>
          rw [hsc] at hs; simp only at hs; subst hs
          cases r2 with
          | error f => intro e he; simp at he
          | ok u =>
            simp only
            cases hck : invokeCheck w2 s with
            | error v => intro e he; simp at he
            | ok w3 =>
              simp only
              -- `w3` is `w2` up to the verified flag
              have hv3 : SameView w2 w3 ∧ w3.log = w2.log := by
                unfold invokeCheck at hck
                split at hck
                · injection hck with e; subst e; exact ⟨sameView_regFrame (RegFrame.refl _), rfl⟩
                · split at hck
                  · injection hck with e; subst e; exact ⟨sameView_modVerified _ _ _, rfl⟩
                  · cases hck
                  · cases hck
              have hview : SameView w3 st := (sameView_trans (sameView_ghOnly hg) hv3.1).symm
              have hlog3 : w3.log = [] := by rw [hv3.2, hlog1, hlog]
              unfold invokeRun
              have hb := onlyR_wrapErr (st0 := w3) DErr.argsFailed w3
                ((engine_only ctx w3 (engineFuel w3 params)).2.2.2.2.2 params s w3 (RegFrame.refl _))
              cases hbl : EM.wrapErr (buildList ctx (engineFuel w3 params) params s) DErr.argsFailed w3 with
              | mk r4 w4 =>
                rw [hbl] at hb
                obtain ⟨_, l4, hl4, hp4⟩ := hb
                simp only at hl4
                rw [hlog3, List.nil_append] at hl4
                have key : ∀ e ∈ l4, ∀ w f x args, e = Event.enter w f x args →
                    w = .invoked ∨ ∃ params' w0, (Except.ok params, w2) = ((Except.ok params', w0) : Except DErr (List Param) × St) ∧
                      ∃ l ∈ leavesL params', Reach st s l w := by
                  intro e he w f x args heq
                  obtain ⟨l, hl, hr⟩ := hp4 e he w f x args heq
                  exact Or.inr ⟨params, w2, rfl, l, hl, reach_view hview hr⟩
                cases r4 with
                | error f =>
                  simp only
                  rw [hl4]
                  exact key
                | ok args =>
                  simp only
                  obtain ⟨l5, hl5, hp5⟩ := callBody_invoked_only ctx fn args w4
                  cases hcb : callBody ctx .invoked fn args w4 with
                  | mk r5 w5 =>
                    rw [hcb] at hl5
                    simp only at hl5 ⊢
                    rw [hl5, hl4]
                    intro e he w f x a heq
                    rcases List.mem_append.mp he with h | h
                    · exact key e h w f x a heq
                    · exact Or.inl (hp5 e h w f x a heq)

end Dig
