import DigModel.Proofs.Views
import DigModel.Proofs.Rollback
import DigModel.Proofs.DfsTotal
import DigModel.Proofs.InvokeShape
/-
  The orders recorded for a graph node never point outside the graph holder they were recorded for (`OB`), in every
  reachable container.  Hence `graph.IsAcyclic` never indexes out of range, and — by `Dfs.isAcyclic_total` — its
  depth-first search never exceeds its recursion budget: the two answers of `checkAcyclic` that the model turns into
  "dig panics" are unreachable.
-/
namespace Dig

/-- an order is usable in a holder of `n` nodes (order 0 is what an unrecorded order reads as) -/
def Bnd (n o : Nat) : Prop := o = 0 ∨ o < n

theorem Bnd.mono {n n' o : Nat} (h : Bnd n o) (hn : n ≤ n') : Bnd n' o := by
  rcases h with h | h
  · exact Or.inl h
  · exact Or.inr (Nat.lt_of_lt_of_le h hn)

structure OB (st : St) : Prop where
  ctor : ∀ s m, Bnd (st.scope s).gh.length (orderOf (st.ctor m).orders s)
  pg : ∀ s i, Bnd (st.scope s).gh.length (orderOf (st.pgs.getD i default).orders s)

theorem orderOf_setOrder (l : List (Nat × Nat)) (s o s' : Nat) :
    orderOf (setOrder l s o) s' = if s' = s then o else orderOf l s' := by
  induction l with
  | nil =>
    by_cases h : s' = s
    · subst h; simp [setOrder, orderOf]
    · have : ¬ s = s' := fun e => h e.symm
      simp [setOrder, orderOf, this, h]
  | cons x xs ih =>
    obtain ⟨a, b⟩ := x
    by_cases hab : a = s
    · subst hab
      by_cases h : s' = a
      · subst h; simp [setOrder, orderOf]
      · have : ¬ a = s' := fun e => h e.symm
        simp [setOrder, orderOf, this, h]
    · by_cases h2 : a = s'
      · subst h2; simp [setOrder, orderOf, hab]
      · simp [setOrder, orderOf, hab, h2, ih]

theorem OB.init : OB ({} : St) where
  ctor s m := Or.inl (by simp [St.ctor]; rfl)
  pg s i := Or.inl (by simp; rfl)

/-- same holders (lengths), same orders -/
theorem OB.transfer {a b : St} (h : OB a) (hg : ∀ s, (a.scope s).gh.length ≤ (b.scope s).gh.length)
    (hc : ∀ m, (b.ctor m).orders = (a.ctor m).orders) (hp : ∀ i, (b.pgs.getD i default).orders = (a.pgs.getD i default).orders) :
    OB b where
  ctor s m := by rw [hc m]; exact (h.ctor s m).mono (hg s)
  pg s i := by rw [hp i]; exact (h.pg s i).mono (hg s)

theorem OB.graphSame {a b : St} (h : OB a) (hg : GraphSame a b) : OB b :=
  h.transfer (fun s => by rw [(hg.2.2.2 s).2.2]; exact Nat.le_refl _) (fun m => by simp [St.ctor, hg.1]) (fun i => by rw [hg.2.1])

theorem OB.eqButVerified {a b : St} (h : OB a) (he : EqButVerified a b) : OB b :=
  h.transfer (fun s => by rw [(he.2.2.2.2.2.2.2.2 s).2.2.2.2.2.2.2.2.2]; exact Nat.le_refl _)
    (fun m => by simp [St.ctor, he.1]) (fun i => by rw [he.2.2.1])

theorem OB.regFrame {a b : St} (h : OB a) (hf : RegFrame a b) : OB b :=
  h.transfer (fun s => by rw [(hf.2.1 s).2.2.2.2.2.1]; exact Nat.le_refl _)
    (fun m => ((hf.2.2.2.2.1 m).2.2.2.2.2.2).symm) (fun i => by rw [hf.2.2.1])

theorem OB.ghStep {st : St} (h : OB st) (node : GNode) (sc : Nat) : OB (ghStep node st sc) := by
  have hgl : ∀ s, ((st.modScope sc fun x => { x with gh := x.gh ++ [node] }).scope s).gh.length =
      if sc = s ∧ s < st.scopes.length then (st.scope s).gh.length + 1 else (st.scope s).gh.length := by
    intro s
    rw [scope_modScope]
    split <;> simp
  have hge : ∀ s, (st.scope s).gh.length ≤ ((st.modScope sc fun x => { x with gh := x.gh ++ [node] }).scope s).gh.length := by
    intro s; rw [hgl s]; split <;> omega
  have hnew : Bnd ((st.modScope sc fun x => { x with gh := x.gh ++ [node] }).scope sc).gh.length (st.scope sc).gh.length := by
    rw [hgl sc]
    by_cases hs : sc < st.scopes.length
    · rw [if_pos ⟨rfl, hs⟩]; exact Or.inr (Nat.lt_succ_self _)
    · left
      have : st.scope sc = { parent := none } := by
        unfold St.scope
        rw [List.getD_eq_getElem?_getD]
        have : st.scopes[sc]? = none := by simp; omega
        simp [this]
      rw [this]; rfl
  unfold Dig.ghStep
  cases node with
  | ctor n =>
    simp only
    refine ⟨?_, ?_⟩
    · intro s m
      show Bnd ((st.modScope sc _).scope s).gh.length (orderOf ((St.modCtor (st.modScope sc _) n _).ctor m).orders s)
      rw [ctor_modCtor]
      split
      · simp only
        rw [orderOf_setOrder]
        split
        · rename_i hs; subst hs; exact hnew
        · exact (h.ctor s m).mono (hge s)
      · exact (h.ctor s m).mono (hge s)
    · intro s i
      exact (h.pg s i).mono (hge s)
  | pg j =>
    simp only
    refine ⟨?_, ?_⟩
    · intro s m
      exact (h.ctor s m).mono (hge s)
    · intro s i
      show Bnd ((st.modScope sc _).scope s).gh.length (orderOf (((st.modScope sc _).pgs.modify j _).getD i default).orders s)
      rw [getD_modify]
      split
      · simp only
        rw [orderOf_setOrder]
        split
        · rename_i hs; subst hs; exact hnew
        · exact (h.pg s i).mono (hge s)
      · exact (h.pg s i).mono (hge s)

theorem OB.foldGhStep (node : GNode) : ∀ (l : List Nat) (st : St), OB st → OB (l.foldl (Dig.ghStep node) st) := by
  intro l
  induction l with
  | nil => intro st h; exact h
  | cons x xs ih => intro st h; exact ih _ (h.ghStep node x)

theorem OB.newGraphNode {st : St} (h : OB st) (s : Nat) (node : GNode) : OB (st.newGraphNode s node) := by
  rw [newGraphNode_eq]; exact OB.foldGhStep node _ st h

theorem getD_append_fresh {α : Type} (l l' : List α) (d : α) (i : Nat) :
    (l ++ l').getD i d = if i < l.length then l.getD i d else l'.getD (i - l.length) d := by
  simp only [List.getD_eq_getElem?_getD]
  by_cases hi : i < l.length
  · rw [if_pos hi, List.getElem?_append_left hi]
  · rw [if_neg hi, List.getElem?_append_right (by omega)]

theorem OB.addCtor {st : St} (h : OB st) (node : CtorNode) (hn : node.orders = []) :
    OB { st with ctors := st.ctors ++ [node] } where
  ctor s m := by
    show Bnd (st.scope s).gh.length (orderOf ((st.ctors ++ [node]).getD m default).orders s)
    rw [getD_append_fresh]
    split
    · exact h.ctor s m
    · left
      cases hm : m - st.ctors.length with
      | zero => simp [hn, orderOf]
      | succ k => simp; rfl
  pg s i := h.pg s i

theorem OB.addDeco {st : St} (h : OB st) (l : List DecoNode) : OB { st with decos := l } := ⟨h.ctor, h.pg⟩

theorem OB.addPgs {st : St} (h : OB st) (l : List PGNode) (hl : ∀ p ∈ l, p.orders = []) :
    OB { st with pgs := st.pgs ++ l } where
  ctor s m := h.ctor s m
  pg s i := by
    show Bnd (st.scope s).gh.length (orderOf ((st.pgs ++ l).getD i default).orders s)
    rw [getD_append_fresh]
    split
    · exact h.pg s i
    · left
      rw [List.getD_eq_getElem?_getD]
      cases hg : l[i - st.pgs.length]? with
      | none => simp; rfl
      | some p =>
        have : p ∈ l := List.mem_of_getElem? hg
        simp [hl p this, orderOf]

theorem OB.modScope {st : St} (h : OB st) (s : Nat) (f : ScopeSt → ScopeSt) (hf : ∀ x, (f x).gh = x.gh) : OB (st.modScope s f) :=
  h.transfer (fun j => by rw [scope_modScope]; split <;> simp [hf]) (fun _ => rfl) (fun _ => rfl)

theorem OB.addPGNodes {st : St} (h : OB st) (s oldLen : Nat) (descs : List PGDesc) : OB (addPGNodes st s oldLen descs) := by
  unfold Dig.addPGNodes
  simp only
  have h1 : OB { st with pgs := st.pgs ++ (descs.drop oldLen).map fun d => ({ desc := d } : PGNode) } :=
    h.addPgs _ (by intro p hp; simp only [List.mem_map] at hp; obtain ⟨d, _, rfl⟩ := hp; rfl)
  generalize ({ st with pgs := st.pgs ++ (descs.drop oldLen).map fun d => ({ desc := d } : PGNode) } : St) = w at h1
  generalize List.range (descs.length - oldLen) = l
  induction l generalizing w with
  | nil => exact h1
  | cons x xs ih => exact ih _ (h1.newGraphNode s _)

theorem OB.parseParams {st : St} (h : OB st) (env : TyEnv) (s : Nat) (fn : Fn) : OB (parseParams env st s fn).2 := by
  unfold Dig.parseParams
  simp only
  exact h.addPGNodes _ _ _

/-! ### the check -/

theorem pOrders_bnd {st : St} (h : OB st) (s : Nat) (p : Param) :
    ∀ v ∈ paramOrders st s p, Bnd (st.scope s).gh.length v := by
  apply paramOrders.induct (motive_2 := fun p => ∀ v ∈ paramOrders st s p, Bnd (st.scope s).gh.length v)
    (motive_1 := fun ps => ∀ v ∈ paramOrders.paramOrdersList st s ps, Bnd (st.scope s).gh.length v)
  · intro k opt v hv
    simp only [paramOrders, List.mem_map] at hv
    obtain ⟨n, _, rfl⟩ := hv
    exact h.ctor s n
  · intro ty g soft pg v hv
    simp only [paramOrders, List.mem_singleton] at hv
    subst hv
    exact h.pg s pg
  · intro ty fs ih v hv
    simp only [paramOrders] at hv
    exact ih v hv
  · intro v hv
    simp [paramOrders.paramOrdersList] at hv
  · intro p ps ihp ihps v hv
    simp only [paramOrders.paramOrdersList, List.mem_append] at hv
    rcases hv with hv | hv
    · exact ihp v hv
    · exact ihps v hv

theorem pOrdersList_bnd {st : St} (h : OB st) (s : Nat) : ∀ ps : List Param,
    ∀ v ∈ paramOrders.paramOrdersList st s ps, Bnd (st.scope s).gh.length v := by
  intro ps
  induction ps with
  | nil => intro v hv; simp [paramOrders.paramOrdersList] at hv
  | cons p ps ih =>
    intro v hv
    simp only [paramOrders.paramOrdersList, List.mem_append] at hv
    rcases hv with hv | hv
    · exact pOrders_bnd h s p v hv
    · exact ih v hv

theorem edgesFrom_bnd {st : St} (h : OB st) (s u : Nat) : ∀ v ∈ edgesFrom st s u, Bnd (st.scope s).gh.length v := by
  intro v hv
  unfold Dig.edgesFrom at hv
  split at hv
  · exact pOrdersList_bnd h s _ v hv
  · simp only [List.mem_map] at hv
    obtain ⟨n, _, rfl⟩ := hv
    exact h.ctor s n
  · simp at hv

/-- **the acyclicity check always answers "acyclic" or names a cycle** -/
theorem checkAcyclic_total {st : St} (h : OB st) (s : Nat) :
    checkAcyclic st s ≠ .outOfRange ∧ checkAcyclic st s ≠ .fuel := by
  have hin : ∀ u, u < (st.scope s).gh.length → ∀ v ∈ edgesFrom st s u, v < (st.scope s).gh.length := by
    intro u hu v hv
    rcases edgesFrom_bnd h s u v hv with h0 | h1
    · omega
    · exact h1
  have hany : (List.range (st.scope s).gh.length).any (fun u => (edgesFrom st s u).any (fun v => decide ((st.scope s).gh.length ≤ v))) = false := by
    rw [List.any_eq_false]
    intro u hu
    rw [Bool.not_eq_true, List.any_eq_false]
    intro v hv
    have := hin u (List.mem_range.mp hu) v hv
    simp; omega
  unfold Dig.checkAcyclic
  simp only [hany]
  have ht := Dfs.isAcyclic_total (edgesFrom st s) (st.scope s).gh.length hin
  cases hd : Dfs.isAcyclic (edgesFrom st s) (st.scope s).gh.length with
  | ok vis => simp
  | cycle p => simp
  | oof => exact absurd hd ht

end Dig
