import DigModel.Proofs.PgInv
/-
  The converse reading: every edge of a scope's holder graph is a dependency between the nodes at its ends, so a cycle
  the check reports is a real dependency cycle.
-/
namespace Dig

theorem pOrders_source (st : St) (s : Nat) (p : Param) : ∀ v ∈ paramOrders st s p,
    (∃ k ∈ pSingleKeys p, ∃ m ∈ st.allProviders s k, v = orderOf (st.ctor m).orders s) ∨
    (∃ i ∈ pgsOf p, v = orderOf (st.pgs.getD i default).orders s) := by
  apply paramOrders.induct (motive_2 := fun p => ∀ v ∈ paramOrders st s p,
      (∃ k ∈ pSingleKeys p, ∃ m ∈ st.allProviders s k, v = orderOf (st.ctor m).orders s) ∨
      (∃ i ∈ pgsOf p, v = orderOf (st.pgs.getD i default).orders s))
    (motive_1 := fun ps => ∀ v ∈ paramOrders.paramOrdersList st s ps,
      (∃ k ∈ pSingleKeysL ps, ∃ m ∈ st.allProviders s k, v = orderOf (st.ctor m).orders s) ∨
      (∃ i ∈ pgsOfL ps, v = orderOf (st.pgs.getD i default).orders s))
  · intro k opt v hv
    simp only [paramOrders, List.mem_map] at hv
    obtain ⟨m, hm, rfl⟩ := hv
    exact Or.inl ⟨k, by simp [pSingleKeys], m, hm, rfl⟩
  · intro ty g soft pg v hv
    simp only [paramOrders, List.mem_singleton] at hv
    exact Or.inr ⟨pg, by simp [pgsOf], hv⟩
  · intro ty fs ih v hv
    simp only [paramOrders] at hv
    simp only [pSingleKeys, pgsOf]
    exact ih v hv
  · intro v hv; simp [paramOrders.paramOrdersList] at hv
  · intro p ps ihp ihps v hv
    simp only [paramOrders.paramOrdersList, List.mem_append] at hv
    simp only [pSingleKeysL, pgsOfL, List.mem_append]
    rcases hv with hv | hv
    · rcases ihp v hv with ⟨k, hk, m, hm, e⟩ | ⟨i, hi, e⟩
      · exact Or.inl ⟨k, Or.inl hk, m, hm, e⟩
      · exact Or.inr ⟨i, Or.inl hi, e⟩
    · rcases ihps v hv with ⟨k, hk, m, hm, e⟩ | ⟨i, hi, e⟩
      · exact Or.inl ⟨k, Or.inr hk, m, hm, e⟩
      · exact Or.inr ⟨i, Or.inr hi, e⟩

theorem pOrdersList_source (st : St) (s : Nat) : ∀ (ps : List Param), ∀ v ∈ paramOrders.paramOrdersList st s ps,
    (∃ k ∈ pSingleKeysL ps, ∃ m ∈ st.allProviders s k, v = orderOf (st.ctor m).orders s) ∨
    (∃ i ∈ pgsOfL ps, v = orderOf (st.pgs.getD i default).orders s) := by
  intro ps
  induction ps with
  | nil => intro v hv; simp [paramOrders.paramOrdersList] at hv
  | cons p ps ih =>
    intro v hv
    simp only [paramOrders.paramOrdersList, List.mem_append] at hv
    simp only [pSingleKeysL, pgsOfL, List.mem_append]
    rcases hv with hv | hv
    · rcases pOrders_source st s p v hv with ⟨k, hk, m, hm, e⟩ | ⟨i, hi, e⟩
      · exact Or.inl ⟨k, Or.inl hk, m, hm, e⟩
      · exact Or.inr ⟨i, Or.inl hi, e⟩
    · rcases ih v hv with ⟨k, hk, m, hm, e⟩ | ⟨i, hi, e⟩
      · exact Or.inl ⟨k, Or.inr hk, m, hm, e⟩
      · exact Or.inr ⟨i, Or.inr hi, e⟩

/-- **every edge of a holder graph is a dependency between the nodes at its ends** -/
theorem edge_is_dependency {st : St} (hg : GM0 st) (hp : PG st) (s : Nat) (hs : s < st.scopes.length) (u v : Nat) (x : GNode)
    (hu : (st.scope s).gh[u]? = some x) (hv : v ∈ edgesFrom st s u) :
    ∃ y, (st.scope s).gh[v]? = some y ∧ NodeDep st s x y := by
  have hx : x ∈ (st.scope s).gh := List.mem_of_getElem? hu
  unfold edgesFrom at hv
  rw [hu] at hv
  cases x with
  | ctor n =>
    simp only at hv
    rcases pOrdersList_source st s _ v hv with ⟨k, hk, m, hm, e⟩ | ⟨i, hi, e⟩
    · have hmem := hg.prov s k m hs hm
      exact ⟨.ctor m, by rw [e]; exact hg.pos s (.ctor m) hmem, NodeDep.single hk hm⟩
    · have hmem := hp.pgIn s n i hx hi
      exact ⟨.pg i, by rw [e]; exact hg.pos s (.pg i) hmem, NodeDep.toGroup hi⟩
  | pg i =>
    simp only [List.mem_map] at hv
    obtain ⟨m, hm, e⟩ := hv
    have hmem := hg.prov s _ m hs hm
    exact ⟨.ctor m, by rw [← e]; exact hg.pos s (.ctor m) hmem, NodeDep.fromGroup hm⟩

/-- consecutive elements of a walk in the holder graph are holder nodes that depend on each other -/
theorem walk_is_dependency_chain {st : St} (hg : GM0 st) (hp : PG st) (s : Nat) (hs : s < st.scopes.length) :
    ∀ (p : List Nat), Dfs.IsWalk (edgesFrom st s) p → ∀ j u v, p[j]? = some u → p[j + 1]? = some v →
      ∃ x y, (st.scope s).gh[u]? = some x ∧ (st.scope s).gh[v]? = some y ∧ NodeDep st s x y := by
  intro p
  induction p with
  | nil => intro _ j u v hu; simp at hu
  | cons a rest ih =>
    intro hw j u v hu hv
    cases rest with
    | nil =>
      cases j with
      | zero => simp at hv
      | succ j => simp at hv
    | cons b rest' =>
      obtain ⟨hab, hw'⟩ := hw
      cases j with
      | zero =>
        simp only [List.getElem?_cons_zero, Option.some.injEq] at hu
        simp only [Nat.zero_add, List.getElem?_cons_succ, List.getElem?_cons_zero, Option.some.injEq] at hv
        subst hu; subst hv
        -- the source of an edge is a holder position
        cases hgu : (st.scope s).gh[a]? with
        | none => unfold edgesFrom at hab; rw [hgu] at hab; simp at hab
        | some x =>
          obtain ⟨y, hy, hd⟩ := edge_is_dependency hg hp s hs a b x hgu hab
          exact ⟨x, y, rfl, hy, hd⟩
      | succ j =>
        simp only [List.getElem?_cons_succ] at hu hv
        exact ih hw' j u v hu hv

/-- **a cycle reported by a scope's check is a real dependency cycle** among nodes of that scope's holder -/
theorem reported_cycle_is_real {st : St} (hg : GM0 st) (hp : PG st) (s : Nat) (hs : s < st.scopes.length) (path : List Nat)
    (h : checkAcyclic st s = .cycle path) :
    2 ≤ path.length ∧ path.head? = path.getLast? ∧
    ∀ j u v, path[j]? = some u → path[j + 1]? = some v →
      ∃ x y, (st.scope s).gh[u]? = some x ∧ (st.scope s).gh[v]? = some y ∧ NodeDep st s x y := by
  have hc := Dfs.isAcyclic_cycle (edgesFrom st s) (st.scope s).gh.length path (checkAcyclic_cycle st s path h)
  exact ⟨hc.2.1, hc.2.2, walk_is_dependency_chain hg hp s hs path hc.1⟩

end Dig
