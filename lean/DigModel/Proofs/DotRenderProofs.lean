import DigModel.Proofs.DotLexProofs
import DigModel.Proofs.DotTextProofs
/-
  The document `visualizeGraph` writes is a well-formed list of items — for every graph, every type, name and group
  text, and every quoting function that closes its strings — hence (`lex_items`) the DOT lexer reads it back as exactly
  the tokens the writer meant.
-/
namespace Dig.DotRender
open Dig.DotSyntax Dig.DotText

/-! ### the strings -/

theorem lexQuoted_plain (c : Char) (h1 : c ≠ '"') (h2 : c ≠ '\\') (acc rest : List Char) :
    lexQuoted acc (c :: rest) = lexQuoted (acc ++ [c]) rest := by
  rw [lexQuoted]
  · exact fun h => h1 h
  · intro c' r h _; exact h2 h
  · intro h _; exact h2 h

/-- a piece the quoted-string lexer passes over without ending the string -/
def QPiece (p : List Char) : Prop := ∀ acc rest, lexQuoted acc (p ++ rest) = lexQuoted (acc ++ p) rest

theorem qpiece_plain (c : Char) (h1 : c ≠ '"') (h2 : c ≠ '\\') : QPiece [c] := by
  intro acc rest
  simp only [List.cons_append, List.nil_append]
  exact lexQuoted_plain c h1 h2 acc rest

theorem qpiece_esc (d : Char) : QPiece ['\\', d] := by
  intro acc rest
  simp only [List.cons_append, List.nil_append]
  rw [lexQuoted]

theorem QPiece.append {a b : List Char} (ha : QPiece a) (hb : QPiece b) : QPiece (a ++ b) := by
  intro acc rest
  rw [List.append_assoc, ha, hb, List.append_assoc]

theorem hexDigit_plain : ∀ k, k < 16 → hexDigit k ≠ '"' ∧ hexDigit k ≠ '\\' := by decide

theorem qpiece_qChar (c : Char) : QPiece (qChar c) := by
  unfold qChar
  by_cases h1 : c = '"'
  · rw [if_pos h1]; exact qpiece_esc _
  rw [if_neg h1]
  by_cases h2 : c = '\\'
  · rw [if_pos h2]; exact qpiece_esc _
  rw [if_neg h2]
  split
  · exact qpiece_esc _
  split
  · exact qpiece_esc _
  split
  · exact qpiece_esc _
  split
  · exact qpiece_esc _
  split
  · exact qpiece_esc _
  split
  · exact qpiece_esc _
  split
  · exact qpiece_esc _
  split
  · have e : ['\\', 'x', hexDigit (c.toNat / 16), hexDigit (c.toNat % 16)] =
        ['\\', 'x'] ++ ([hexDigit (c.toNat / 16)] ++ [hexDigit (c.toNat % 16)]) := rfl
    rw [e]
    rename_i h
    have hlt : c.toNat / 16 < 16 := by
      rcases h with h | h <;> omega
    exact (qpiece_esc 'x').append
      ((qpiece_plain _ (hexDigit_plain _ hlt).1 (hexDigit_plain _ hlt).2).append
       (qpiece_plain _ (hexDigit_plain _ (Nat.mod_lt _ (by decide))).1 (hexDigit_plain _ (Nat.mod_lt _ (by decide))).2))
  · exact qpiece_plain c h1 h2

theorem goQuote_closed : ∀ s, QClosed (goQuote s)
  | [], r, acc => by simp [goQuote, lexQuoted]
  | c :: s, r, acc => by
    have ih := goQuote_closed s r
    unfold goQuote at ih ⊢
    rw [List.flatMap_cons, List.append_assoc, qpiece_qChar c, ih, List.append_assoc]

private theorem namePfx : '<' ∉ "Name: ".toList ∧ '>' ∉ "Name: ".toList := by decide
private theorem groupPfx : '<' ∉ "Group: ".toList ∧ '>' ∉ "Group: ".toList := by decide

theorem hclosed_resultBody (t name group : List Char) : HClosed (resultBody t name group) := by
  intro r
  unfold resultBody
  by_cases hn : name ≠ []
  · rw [if_pos hn]; exact scan_labelBody t _ (fun p hp => by cases hp; exact namePfx) r
  · rw [if_neg hn]
    by_cases hg : group ≠ []
    · rw [if_pos hg]; exact scan_labelBody t _ (fun p hp => by cases hp; exact groupPfx) r
    · rw [if_neg hg]; exact scan_labelBody t none (fun p hp => by cases hp) r

theorem hclosed_groupBody (t name : List Char) : HClosed (labelBody t (some ("Group: ".toList, name))) :=
  fun r => scan_labelBody t _ (fun p hp => by cases hp; exact groupPfx) r

theorem digit_id : ∀ k, k < 10 → isIdChar (Char.ofNat (48 + k)) = true := by decide

theorem digitsAux_id : ∀ (fuel n : Nat) (acc : List Char), (∀ c ∈ acc, isIdChar c = true) →
    ∀ c ∈ digitsAux fuel n acc, isIdChar c = true
  | 0, _, acc, h => by simpa [digitsAux] using h
  | fuel + 1, n, acc, h => by
    have hd : isIdChar (Char.ofNat (48 + n % 10)) = true := digit_id _ (Nat.mod_lt _ (by decide))
    have hacc : ∀ c ∈ Char.ofNat (48 + n % 10) :: acc, isIdChar c = true := by
      intro c hc
      rcases List.mem_cons.mp hc with rfl | hc
      · exact hd
      · exact h c hc
    simp only [digitsAux]
    split
    · exact hacc
    · exact digitsAux_id fuel (n / 10) _ hacc

theorem natDigits_id (n : Nat) : ∀ c ∈ natDigits n, isIdChar c = true :=
  digitsAux_id _ _ [] (by simp)

private theorem clusterPfx : ∀ c ∈ "cluster_".toList, isIdChar c = true := by decide
private theorem ctorPfx : ∀ c ∈ "constructor_".toList, isIdChar c = true := by decide

theorem wf_clusterName (i : Nat) : WfTok (.bare ("cluster_".toList ++ natDigits i)) := by
  refine ⟨List.append_ne_nil_of_left_ne_nil (by decide) _, fun c hc => ?_⟩
  rcases List.mem_append.mp hc with h | h
  · exact clusterPfx c h
  · exact natDigits_id i c h

theorem wf_ctorName (i : Nat) : WfTok (.bare ("constructor_".toList ++ natDigits i)) := by
  refine ⟨List.append_ne_nil_of_left_ne_nil (by decide) _, fun c hc => ?_⟩
  rcases List.mem_append.mp hc with h | h
  · exact ctorPfx c h
  · exact natDigits_id i c h

theorem wf_color (err : Nat) : WfTok (.bare (colorName err).toList) := by
  unfold colorName
  split <;> exact ⟨by decide, by decide⟩

/-! ### stepping through a list of items -/

theorem ok_ws (s : String) (rest : List Item) (pb : Bool) (h1 : ∀ c ∈ s.toList, isWs c = true) (h2 : s.toList.isEmpty = false)
    (hr : OkItems false rest) : OkItems pb (W s :: rest) := by
  refine ⟨h1, ?_⟩
  rw [h2]; simpa using hr

theorem ok_punct (t : Tok) (rest : List Item) (pb : Bool) (hw : WfTok t) (hb : isBare t = false) (hr : OkItems false rest) :
    OkItems pb (P t :: rest) :=
  ⟨hw, (fun h => by rw [hb] at h; cases h), (by rw [hb]; exact hr)⟩

theorem ok_bare (s : List Char) (rest : List Item) (hw : WfTok (.bare s)) (hr : OkItems true rest) :
    OkItems false (.tk (.bare s) :: rest) := ⟨hw, fun _ => rfl, hr⟩

/-- one step: white space, a non-identifier token, or an identifier not preceded by one -/
macro "ok_step" : tactic => `(tactic| first
  | exact trivial
  | refine ok_ws _ _ _ (by decide) (by decide) ?_
  | refine ok_bare _ _ ⟨by decide, by decide⟩ ?_
  | refine ok_punct _ _ _ trivial rfl ?_)

theorem ok_header : OkItems false header := by
  unfold header
  repeat ok_step

section
variable (q : List Char → List Char) (hq : ∀ s, QClosed (q s))
include hq

theorem ok_Q (s : List Char) (rest : List Item) (pb : Bool) (hr : OkItems false rest) : OkItems pb (Q q s :: rest) :=
  ⟨hq s, (fun h => by cases h), hr⟩

theorem ok_groupItems (g : RGroup) : OkItems true (groupItems q g) := by
  unfold groupItems
  refine OkItems.append _ _ _ (OkItems.append _ _ _ (OkItems.append _ _ _ (OkItems.append _ _ _ ?_ ?_) ?_) ?_) ?_
  · ok_step
    refine ok_Q q hq _ _ _ ?_
    repeat ok_step
    exact ok_punct _ _ _ (hclosed_groupBody _ _) rfl trivial
  · split
    · trivial
    · ok_step
      ok_step
      ok_step
      exact ok_bare _ _ (wf_color _) trivial
  · repeat ok_step
  · refine OkItems.flatMap _ _ (fun r _ => ?_)
    ok_step
    refine ok_Q q hq _ _ _ ?_
    ok_step; ok_step; ok_step
    refine ok_Q q hq _ _ _ ?_
    repeat ok_step
  · repeat ok_step

theorem ok_resultItems (r : RResult) : OkItems true (resultItems q r) := by
  unfold resultItems
  ok_step
  refine ok_Q q hq _ _ _ ?_
  ok_step; ok_step; ok_step; ok_step
  refine ok_punct _ _ _ (hclosed_resultBody _ _ _) rfl ?_
  repeat ok_step

theorem ok_paramItems (i : Nat) (p : RParam) : OkItems true (paramItems q i p) := by
  unfold paramItems
  refine OkItems.append _ _ _ (OkItems.append _ _ _ ?_ ?_) ?_
  · ok_step
    refine ok_bare _ _ (wf_ctorName i) ?_
    ok_step; ok_step; ok_step
    refine ok_Q q hq _ _ _ ?_
    ok_step; ok_step; ok_step; ok_step
    exact ok_bare _ _ (wf_clusterName i) trivial
  · split
    · repeat ok_step
    · trivial
  · repeat ok_step

theorem ok_gparamItems (i : Nat) (g : List Char) : OkItems true (gparamItems q i g) := by
  unfold gparamItems
  ok_step
  refine ok_bare _ _ (wf_ctorName i) ?_
  ok_step; ok_step; ok_step
  refine ok_Q q hq _ _ _ ?_
  ok_step; ok_step; ok_step; ok_step
  refine ok_bare _ _ (wf_clusterName i) ?_
  repeat ok_step

theorem ok_ctorItems (i : Nat) (c : RCtor) : OkItems true (ctorItems q i c) := by
  unfold ctorItems
  refine OkItems.append _ _ _ (OkItems.append _ _ _ (OkItems.append _ _ _ (OkItems.append _ _ _ (OkItems.append _ _ _
    (OkItems.append _ _ _ (OkItems.append _ _ _ (OkItems.append _ _ _ (OkItems.append _ _ _ ?_ ?_) ?_) ?_) ?_) ?_) ?_) ?_) ?_) ?_
  · ok_step; ok_step; ok_step
    refine ok_bare _ _ (wf_clusterName i) ?_
    repeat ok_step
  · ok_step
    split
    · trivial
    · ok_step; ok_step; ok_step; ok_step
      refine ok_Q q hq _ _ _ ?_
      repeat ok_step
  · ok_step; ok_step
    refine ok_bare _ _ (wf_ctorName i) ?_
    ok_step; ok_step; ok_step; ok_step; ok_step; ok_step; ok_step; ok_step
    refine ok_Q q hq _ _ _ ?_
    repeat ok_step
  · ok_step
    split
    · trivial
    · ok_step; ok_step
      refine ok_bare _ _ (wf_color _) ?_
      repeat ok_step
  · repeat ok_step
  · exact OkItems.flatMap _ _ (fun r _ => ok_resultItems q hq r)
  · repeat ok_step
  · exact OkItems.flatMap _ _ (fun p _ => ok_paramItems q hq i p)
  · repeat ok_step
  · exact OkItems.flatMap _ _ (fun g _ => ok_gparamItems q hq i g)

theorem ok_ctorsItems : ∀ (cs : List RCtor) (i : Nat), OkItems true (ctorsItems q i cs)
  | [], _ => trivial
  | c :: rest, i => OkItems.append _ _ _ (ok_ctorItems q hq i c) (ok_ctorsItems rest (i + 1))

theorem ok_failedItems (color : String) (hc : WfTok (.bare color.toList)) (f : List Char) :
    OkItems true (failedItems q color f) := by
  unfold failedItems
  ok_step
  refine ok_Q q hq _ _ _ ?_
  ok_step; ok_step; ok_step; ok_step
  refine ok_bare _ _ hc ?_
  repeat ok_step

/-- the whole document is a well-formed list of items -/
theorem ok_graphItems (g : RGraph) : OkItems false (graphItems q g) := by
  unfold graphItems
  refine OkItems.append _ _ _ (OkItems.append _ _ _ (OkItems.append _ _ _ (OkItems.append _ _ _ (OkItems.append _ _ _
    (OkItems.append _ _ _ ok_header ?_) ?_) ?_) ?_) ?_) ?_
  · exact OkItems.flatMap _ _ (fun x _ => ok_groupItems q hq x)
  · repeat ok_step
  · exact ok_ctorsItems q hq _ _
  · exact OkItems.flatMap _ _ (fun f _ => ok_failedItems q hq "orange" ⟨by decide, by decide⟩ f)
  · exact OkItems.flatMap _ _ (fun f _ => ok_failedItems q hq "red" ⟨by decide, by decide⟩ f)
  · repeat ok_step

/-- **the text `visualizeGraph` writes lexes as DOT, into exactly the tokens it was written from** -/
theorem lex_render (g : RGraph) : lexDot (render q g) = some (toks (graphItems q g)) :=
  lexDot_items _ (ok_graphItems q hq g)

end

end Dig.DotRender
