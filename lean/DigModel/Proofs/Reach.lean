import DigModel.Proofs.Frame
import DigModel.Proofs.Lookup
import DigModel.Proofs.Body
/-
  Laziness: the only constructors and decorators whose functions the resolver enters are those
  *reachable* from what it was asked to build — through the decorators of a key on the path to the
  root, the providers of a single key in the nearest providing scope, the providers of a hard
  (non-soft) value group on the path, and recursively the parameters of those nodes, each seen from
  the node's own scope.  Soft groups reach providers through nothing but their decorators.
-/
namespace Dig

/-- a leaf dependency: a single key, or a value group (with its softness) -/
inductive Lf where
  | single (k : Key)
  | group (k : Key) (soft : Bool)
  deriving Repr

def Lf.key : Lf → Key
  | .single k => k
  | .group k _ => k

mutual
def leaves : Param → List Lf
  | .single k _ => [.single k]
  | .grouped _ k soft _ => [.group k soft]
  | .object _ fs => leavesL fs
def leavesL : List Param → List Lf
  | [] => []
  | p :: ps => leaves p ++ leavesL ps
end

theorem mem_leavesL {l : Lf} : ∀ {ps : List Param}, l ∈ leavesL ps ↔ ∃ p ∈ ps, l ∈ leaves p
  | [] => by simp [leavesL]
  | p :: ps => by
    simp only [leavesL, List.mem_append, List.mem_cons, exists_eq_or_imp, mem_leavesL (ps := ps)]

/-- providers of `k` in the nearest scope of the path that has any -/
def nearestProv (st : St) (k : Key) : List Nat → Option (Nat × List Nat)
  | [] => none
  | s :: rest =>
    match agetL (st.scope s).providers k with
    | [] => nearestProv st k rest
    | n :: ns => some (s, n :: ns)

/-- node `w` may be run when leaf `l` is built from scope `c` -/
inductive Reach (st : St) : Nat → Lf → Who → Prop
  | decoSelf {c : Nat} {l : Lf} {s d : Nat} : s ∈ st.ancestors c → aget (st.scope s).decorators l.key = some d →
      Reach st c l (.deco d)
  | decoDep {c : Nat} {l : Lf} {s d : Nat} {l' : Lf} {w : Who} : s ∈ st.ancestors c →
      aget (st.scope s).decorators l.key = some d → l' ∈ leavesL (st.deco d).params → Reach st (st.deco d).s l' w →
      Reach st c l w
  | provSelf {c : Nat} {k : Key} {pc : Nat} {ns : List Nat} {n : Nat} :
      nearestProv st k (st.ancestors c) = some (pc, ns) → n ∈ ns → Reach st c (.single k) (.ctor n)
  | provDep {c : Nat} {k : Key} {pc : Nat} {ns : List Nat} {n : Nat} {l' : Lf} {w : Who} :
      nearestProv st k (st.ancestors c) = some (pc, ns) → n ∈ ns → l' ∈ leavesL (st.ctor n).params →
      Reach st (st.ctor n).origS l' w → Reach st c (.single k) w
  | grpSelf {c : Nat} {k : Key} {s n : Nat} : s ∈ st.ancestors c → n ∈ agetL (st.scope s).providers k →
      Reach st c (.group k false) (.ctor n)
  | grpDep {c : Nat} {k : Key} {s n : Nat} {l' : Lf} {w : Who} : s ∈ st.ancestors c →
      n ∈ agetL (st.scope s).providers k → l' ∈ leavesL (st.ctor n).params → Reach st (st.ctor n).origS l' w →
      Reach st c (.group k false) w

/-- what calling constructor `n` with view `c` may run -/
def ReachC (st : St) (n c : Nat) (w : Who) : Prop :=
  w = .ctor n ∨ ∃ l ∈ leavesL (st.ctor n).params, Reach st c l w

/-- what calling decorator `d` may run -/
def ReachD (st : St) (d : Nat) (w : Who) : Prop :=
  w = .deco d ∨ ∃ l ∈ leavesL (st.deco d).params, Reach st (st.deco d).s l w

/-! ### the events appended to the log -/

/-- the log grows by events whose `enter`s are all for nodes in `S` -/
def Only (S : Who → Prop) (a b : St) : Prop :=
  ∃ l, b.log = a.log ++ l ∧ ∀ e ∈ l, ∀ w f x args, e = Event.enter w f x args → S w

theorem Only.refl (S : Who → Prop) (a : St) : Only S a a := ⟨[], by simp, by simp⟩

theorem Only.of_log_eq {S : Who → Prop} {a b : St} (h : b.log = a.log) : Only S a b := ⟨[], by simp [h], by simp⟩

theorem Only.trans {S : Who → Prop} {a b c : St} (h1 : Only S a b) (h2 : Only S b c) : Only S a c := by
  obtain ⟨l1, e1, p1⟩ := h1
  obtain ⟨l2, e2, p2⟩ := h2
  refine ⟨l1 ++ l2, by rw [e2, e1, List.append_assoc], ?_⟩
  intro e he
  rcases List.mem_append.mp he with h | h
  · exact p1 e h
  · exact p2 e h

theorem Only.mono {S S' : Who → Prop} {a b : St} (h : Only S a b) (hs : ∀ w, S w → S' w) : Only S' a b := by
  obtain ⟨l, e, p⟩ := h
  exact ⟨l, e, fun ev hev w f x args he => hs w (p ev hev w f x args he)⟩

/-! ### the registry view is stable -/

theorem regFrame_ancestors {a b : St} (h : RegFrame a b) (s : Nat) : a.ancestors s = b.ancestors s := by
  unfold St.ancestors
  rw [h.1]
  have : ∀ fuel s, ancestorsAux a.scopes fuel s = ancestorsAux b.scopes fuel s := by
    intro fuel
    induction fuel with
    | zero => intro s; rfl
    | succ fuel ih =>
      intro s
      simp only [ancestorsAux]
      by_cases hs : s < a.scopes.length
      · have hsb : s < b.scopes.length := by rw [← h.1]; exact hs
        have h1 := (h.2.1 s).1
        simp only [St.scope, List.getD_eq_getElem?_getD, List.getElem?_eq_getElem hs, List.getElem?_eq_getElem hsb,
          Option.getD_some] at h1
        simp only [List.getElem?_eq_getElem hs, List.getElem?_eq_getElem hsb, h1]
        congr 1
        cases b.scopes[s].parent with
        | none => rfl
        | some p => exact ih p
      · have h1 : a.scopes[s]? = none := by simp; omega
        have h2 : b.scopes[s]? = none := by simp; rw [← h.1]; omega
        simp [h1, h2]
  exact this _ _

theorem nearestProv_of_split (st : St) (k : Key) : ∀ (pre : List Nat) (pc : Nat) (post : List Nat),
    (∀ s ∈ pre, agetL (st.scope s).providers k = []) → agetL (st.scope pc).providers k ≠ [] →
    nearestProv st k (pre ++ pc :: post) = some (pc, agetL (st.scope pc).providers k) := by
  intro pre
  induction pre with
  | nil =>
    intro pc post _ hne
    simp only [List.nil_append, nearestProv]
    cases h : agetL (st.scope pc).providers k with
    | nil => exact absurd h hne
    | cons n ns => rfl
  | cons s rest ih =>
    intro pc post hpre hne
    simp only [List.cons_append, nearestProv]
    rw [hpre s (by simp)]
    exact ih pc post (fun s' hs' => hpre s' (by simp [hs'])) hne

/-! ### post-conditions threaded through the resolver -/

def OnlyR (st0 : St) (S : Who → Prop) (st : St) {α : Type} (r : Except Fail α × St) : Prop :=
  RegFrame st0 r.2 ∧ Only S st r.2

theorem onlyR_ret {st0 st : St} {S : Who → Prop} {α : Type} (h0 : RegFrame st0 st) (r : Except Fail α) :
    OnlyR st0 S st (r, st) := ⟨h0, Only.refl S st⟩

theorem OnlyR.mono {st0 st : St} {S S' : Who → Prop} {α : Type} {r : Except Fail α × St} (h : OnlyR st0 S st r)
    (hs : ∀ w, S w → S' w) : OnlyR st0 S' st r := ⟨h.1, h.2.mono hs⟩

theorem onlyR_bind {st0 : St} {S : Who → Prop} {α β : Type} {m : EM α} {f : α → EM β} (st : St)
    (hm : OnlyR st0 S st (m st)) (hf : ∀ a s, RegFrame st0 s → OnlyR st0 S s (f a s)) :
    OnlyR st0 S st (EM.bind m f st) := by
  unfold EM.bind
  obtain ⟨r1, o1⟩ := hm
  cases h : m st with
  | mk r s' =>
    rw [h] at r1 o1
    cases r with
    | ok a =>
      obtain ⟨r2, o2⟩ := hf a s' r1
      exact ⟨r2, o1.trans o2⟩
    | error e => exact ⟨r1, o1⟩

theorem onlyR_wrapErr {st0 : St} {S : Who → Prop} {α : Type} {m : EM α} (w : DErr → DErr) (st : St)
    (hm : OnlyR st0 S st (m st)) : OnlyR st0 S st (EM.wrapErr m w st) := by
  unfold EM.wrapErr
  obtain ⟨r1, o1⟩ := hm
  cases h : m st with
  | mk r s' =>
    rw [h] at r1 o1
    cases r with
    | ok a => exact ⟨r1, o1⟩
    | error e => cases e <;> exact ⟨r1, o1⟩

theorem onlyR_finally {st0 : St} {S : Who → Prop} {α : Type} {m : EM α} {fin : St → St} (st : St)
    (hm : OnlyR st0 S st (m st)) (hfin : ∀ s, RegFrame s (fin s) ∧ (fin s).log = s.log) :
    OnlyR st0 S st (EM.finally_ m fin st) := by
  unfold EM.finally_
  obtain ⟨r1, o1⟩ := hm
  cases h : m st with
  | mk r s' =>
    rw [h] at r1 o1
    exact ⟨r1.trans (hfin s').1, o1.trans (Only.of_log_eq (hfin s').2)⟩

theorem onlyR_forEachM {st0 : St} {S : Who → Prop} {α : Type} (xs : List α) (f : α → EM Unit)
    (hf : ∀ x ∈ xs, ∀ s, RegFrame st0 s → OnlyR st0 S s (f x s)) :
    ∀ st, RegFrame st0 st → OnlyR st0 S st (forEachM xs f st) := by
  induction xs with
  | nil => intro st h0; unfold forEachM; exact onlyR_ret h0 _
  | cons x rest ih =>
    intro st h0
    unfold forEachM
    exact onlyR_bind st (hf x (by simp) st h0) (fun _ s hs => ih (fun y hy => hf y (by simp [hy])) s hs)

theorem onlyR_firstM {st0 : St} {S : Who → Prop} {α β : Type} (xs : List α) (f : α → EM (Option β))
    (hf : ∀ x ∈ xs, ∀ s, RegFrame st0 s → OnlyR st0 S s (f x s)) :
    ∀ st, RegFrame st0 st → OnlyR st0 S st (firstM xs f st) := by
  induction xs with
  | nil => intro st h0; unfold firstM; exact onlyR_ret h0 _
  | cons x rest ih =>
    intro st h0
    unfold firstM
    refine onlyR_bind st (hf x (by simp) st h0) ?_
    intro r s hs
    cases r with
    | none => exact ih (fun y hy => hf y (by simp [hy])) s hs
    | some b => exact onlyR_ret hs _

theorem onlyR_mapM {st0 : St} {S : Who → Prop} {α β : Type} (xs : List α) (f : α → EM β)
    (hf : ∀ x ∈ xs, ∀ s, RegFrame st0 s → OnlyR st0 S s (f x s)) :
    ∀ st, RegFrame st0 st → OnlyR st0 S st (mapM' xs f st) := by
  induction xs with
  | nil => intro st h0; unfold mapM'; exact onlyR_ret h0 _
  | cons x rest ih =>
    intro st h0
    unfold mapM'
    refine onlyR_bind st (hf x (by simp) st h0) ?_
    intro b s hs
    refine onlyR_bind s (ih (fun y hy => hf y (by simp [hy])) s hs) ?_
    intro bs s2 hs2
    exact onlyR_ret hs2 _

/-! ### the tails enter exactly their own node -/

theorem only_ctorTail (ctx : Ctx) (n : Nat) (node : CtorNode) (args : List Val) (st : St) :
    Only (fun w => w = .ctor n) st (ctorTail ctx n node args st).2 := by
  obtain ⟨lb, lc, _, hl, hb, hc⟩ := ctorTail_log ctx n node args st
  refine ⟨lb ++ lc, hl, ?_⟩
  intro e he w f x a heq
  rcases List.mem_append.mp he with h | h
  · rcases hb with ⟨_, rfl⟩ | ⟨_, rfl⟩
    · cases h
    · unfold bodyEvents at h
      simp only [List.mem_cons, List.mem_singleton, List.not_mem_nil, or_false] at h
      rcases h with rfl | rfl
      · cases heq; rfl
      · cases heq
  · rcases hc with rfl | ⟨op, err, rt, rfl⟩
    · cases h
    · simp only [List.mem_singleton] at h; subst h; cases heq

theorem only_decoTail (ctx : Ctx) (d : Nat) (node : DecoNode) (args : List Val) (st : St) :
    Only (fun w => w = .deco d) st (decoTail ctx d node args st).2 := by
  obtain ⟨lb, lc, _, hl, hb, hc⟩ := decoTail_log ctx d node args st
  refine ⟨lb ++ lc, hl, ?_⟩
  intro e he w f x a heq
  rcases List.mem_append.mp he with h | h
  · rcases hb with ⟨_, rfl⟩ | ⟨_, rfl⟩
    · cases h
    · unfold bodyEvents at h
      simp only [List.mem_cons, List.mem_singleton, List.not_mem_nil, or_false] at h
      rcases h with rfl | rfl
      · cases heq; rfl
      · cases heq
  · rcases hc with rfl | ⟨op, err, rt, rfl⟩
    · cases h
    · simp only [List.mem_singleton] at h; subst h; cases heq

theorem onlyR_shallowCheck {st0 st : St} {S : Who → Prop} (h0 : RegFrame st0 st) (c : Nat) (ps : List Param) :
    OnlyR st0 S st (shallowCheck c ps st) := by
  unfold shallowCheck
  split <;> exact onlyR_ret h0 _

/-! ### the resolver enters only what is reachable -/

theorem engine_only (ctx : Ctx) (st0 : St) :
    ∀ fuel,
      (∀ n c st, RegFrame st0 st → OnlyR st0 (ReachC st0 n c) st (callCtor ctx fuel n c st)) ∧
      (∀ d s st, RegFrame st0 st → OnlyR st0 (ReachD st0 d) st (callDeco ctx fuel d s st)) ∧
      (∀ k opt c st, RegFrame st0 st → OnlyR st0 (Reach st0 c (.single k)) st (buildSingle ctx fuel k opt c st)) ∧
      (∀ k soft c st, RegFrame st0 st → OnlyR st0 (Reach st0 c (.group k soft)) st (buildGroup ctx fuel k soft c st)) ∧
      (∀ p c st, RegFrame st0 st → OnlyR st0 (fun w => ∃ l ∈ leaves p, Reach st0 c l w) st (buildParam ctx fuel p c st)) ∧
      (∀ ps c st, RegFrame st0 st → OnlyR st0 (fun w => ∃ l ∈ leavesL ps, Reach st0 c l w) st (buildList ctx fuel ps c st)) := by
  intro fuel
  induction fuel with
  | zero =>
    refine ⟨?_, ?_, ?_, ?_, ?_, ?_⟩ <;> intros <;> rename_i st h0
    · simp only [callCtor]; exact onlyR_ret h0 _
    · simp only [callDeco]; exact onlyR_ret h0 _
    · simp only [buildSingle]; exact onlyR_ret h0 _
    · simp only [buildGroup]; exact onlyR_ret h0 _
    · simp only [buildParam]; exact onlyR_ret h0 _
    · simp only [buildList]; exact onlyR_ret h0 _
  | succ fuel ih =>
    obtain ⟨ihC, ihD, ihS, ihG, ihP, ihL⟩ := ih
    refine ⟨?_, ?_, ?_, ?_, ?_, ?_⟩
    · -- callCtor
      intro n c st h0
      simp only [callCtor]
      split
      · exact onlyR_ret h0 _
      · split
        · exact onlyR_ret h0 _
        · have hst : CtorStatic (st0.ctor n) (st.ctor n) := h0.2.2.2.2.1 n
          have h1 : RegFrame st0 (st.modCtor n fun x => { x with onStack := true }) :=
            h0.trans (regFrame_modCtor st n _ (fun _ => ⟨rfl, rfl, rfl, rfl, rfl, rfl, rfl⟩))
          have hfin := onlyR_finally (st0 := st0) (S := ReachC st0 n c)
            (m := EM.bind (shallowCheck c (st.ctor n).params) fun _ =>
              EM.bind (EM.wrapErr (buildList ctx fuel (st.ctor n).params c) .argsFailed) fun args =>
              ctorTail ctx n (st.ctor n) args)
            (fin := fun s => s.modCtor n fun x => { x with onStack := false })
            (st.modCtor n fun x => { x with onStack := true }) ?_
            (fun s => ⟨regFrame_modCtor s n _ (fun _ => ⟨rfl, rfl, rfl, rfl, rfl, rfl, rfl⟩), rfl⟩)
          · exact ⟨hfin.1, (Only.of_log_eq (S := ReachC st0 n c) (a := st) rfl).trans hfin.2⟩
          · refine onlyR_bind _ (onlyR_shallowCheck h1 c _) ?_
            intro _ s2 hs2
            refine onlyR_bind s2 (onlyR_wrapErr _ s2 ?_) ?_
            · refine (ihL _ c s2 hs2).mono ?_
              intro w ⟨l, hl, hr⟩
              right
              rw [hst.2.1]
              exact ⟨l, hl, hr⟩
            · intro args s3 hs3
              exact ⟨hs3.trans (regFrame_ctorTail ctx s3 n _ args),
                (only_ctorTail ctx n _ args s3).mono (fun w hw => Or.inl hw)⟩
    · -- callDeco
      intro d s st h0
      simp only [callDeco]
      split
      · exact onlyR_ret h0 _
      · have hst : DecoStatic (st0.deco d) (st.deco d) := h0.2.2.2.2.2.2 d
        have h1 : RegFrame st0 (st.modDeco d fun x => { x with state := .onStack }) :=
          h0.trans (regFrame_modDeco st d _ (fun _ => ⟨rfl, rfl, rfl, rfl, rfl⟩))
        have hfin := onlyR_finally (st0 := st0) (S := ReachD st0 d)
          (m := EM.bind (shallowCheck s (st.deco d).params) fun _ =>
            EM.bind (EM.wrapErr (buildList ctx fuel (st.deco d).params (st.deco d).s) .argsFailed) fun args =>
            decoTail ctx d (st.deco d) args)
          (fin := fun s => s.modDeco d fun x => if x.state == .called then x else { x with state := .ready })
          (st.modDeco d fun x => { x with state := .onStack }) ?_
          (fun s => ⟨regFrame_modDeco s d _ (fun x => by split <;> exact ⟨rfl, rfl, rfl, rfl, rfl⟩), rfl⟩)
        · exact ⟨hfin.1, (Only.of_log_eq (S := ReachD st0 d) (a := st) rfl).trans hfin.2⟩
        · refine onlyR_bind _ (onlyR_shallowCheck h1 s _) ?_
          intro _ s2 hs2
          refine onlyR_bind s2 (onlyR_wrapErr _ s2 ?_) ?_
          · refine (ihL _ _ s2 hs2).mono ?_
            intro w ⟨l, hl, hr⟩
            right
            rw [hst.2.1, hst.2.2.2.1]
            exact ⟨l, hl, hr⟩
          · intro args s3 hs3
            exact ⟨hs3.trans (regFrame_decoTail ctx s3 d _ args),
              (only_decoTail ctx d _ args s3).mono (fun w hw => Or.inl hw)⟩
    · -- buildSingle
      intro k opt c st h0
      have hanc : st.ancestors c = st0.ancestors c := (regFrame_ancestors h0 c).symm
      simp only [buildSingle]
      split
      · rename_i d ds hfd
        obtain ⟨pre, post, hsplit, hdec, _, _⟩ := findDeco_spec st k _ d ds hfd
        have hmem : ds ∈ st0.ancestors c := by rw [← hanc, hsplit]; simp
        have hdec0 : aget (st0.scope ds).decorators (Lf.single k).key = some d := by
          rw [(h0.2.1 ds).2.2.2.1]; exact hdec
        refine onlyR_bind st (onlyR_wrapErr _ st ?_) ?_
        · refine (ihD d ds st h0).mono ?_
          intro w hw
          rcases hw with rfl | ⟨l', hl', hr⟩
          · exact Reach.decoSelf hmem hdec0
          · exact Reach.decoDep hmem hdec0 hl' hr
        · intro _ s' hs'
          try simp only
          split <;> exact onlyR_ret hs' _
      · split
        · exact onlyR_ret h0 _
        · split
          · exact onlyR_ret h0 _
          · split <;> exact onlyR_ret h0 _
          · rename_i pc ns hfp
            obtain ⟨pre, post, hsplit, hns, hne, _, hpre⟩ := findProviders_provs st k _ pc ns hfp
            have hprov : ∀ s, (st0.scope s).providers = (st.scope s).providers := fun s => (h0.2.1 s).2.2.1
            have hnear : nearestProv st0 k (st0.ancestors c) = some (pc, ns) := by
              rw [← hanc, hsplit, hns, ← hprov pc]
              refine nearestProv_of_split st0 k pre pc post ?_ ?_
              · intro s' hs'; rw [hprov s']; exact (hpre s' hs').2
              · rw [hprov pc, ← hns]; exact hne
            refine onlyR_bind st ?_ ?_
            · refine onlyR_firstM ns _ ?_ st h0
              intro n hn s1 hs1
              have hst : CtorStatic (st0.ctor n) (s1.ctor n) := hs1.2.2.2.2.1 n
              have hcall := (ihC n (s1.ctor n).origS s1 hs1)
              have hstate := providerStep_state ctx.env k opt (ctorId ctx.sameIds (s1.ctor n).fn) (callCtor ctx fuel n (s1.ctor n).origS s1)
              refine ⟨by rw [hstate]; exact hcall.1, ?_⟩
              rw [hstate]
              refine hcall.2.mono ?_
              intro w hw
              rw [← hst.2.2.2.2.1] at hw
              rcases hw with rfl | ⟨l', hl', hr⟩
              · exact Reach.provSelf hnear hn
              · exact Reach.provDep hnear hn hl' hr
            · intro early s' hs'
              try simp only
              split
              · exact onlyR_ret hs' _
              · split <;> exact onlyR_ret hs' _
    · -- buildGroup
      intro k soft c st h0
      have hanc : st.ancestors c = st0.ancestors c := (regFrame_ancestors h0 c).symm
      simp only [buildGroup]
      refine onlyR_bind st ?_ ?_
      · refine onlyR_forEachM _ _ ?_ st h0
        intro s hs s1 hs1
        have hmem : s ∈ st0.ancestors c := by rw [← hanc]; exact List.mem_reverse.mp hs
        try simp only
        split
        · rename_i d hd
          have hdec0 : aget (st0.scope s).decorators (Lf.group k soft).key = some d := by
            rw [(hs1.2.1 s).2.2.2.1]; exact hd
          split
          · exact onlyR_ret hs1 _
          · refine onlyR_wrapErr _ s1 ?_
            refine (ihD d s s1 hs1).mono ?_
            intro w hw
            rcases hw with rfl | ⟨l', hl', hr⟩
            · exact Reach.decoSelf hmem hdec0
            · exact Reach.decoDep hmem hdec0 hl' hr
        · exact onlyR_ret hs1 _
      · intro _ s2 hs2
        try simp only
        split
        · exact onlyR_ret hs2 _
        · refine onlyR_bind s2 ?_ ?_
          · cases soft with
            | true => simp only [if_true]; exact onlyR_ret hs2 _
            | false =>
              simp only [Bool.false_eq_true, if_false]
              refine onlyR_forEachM _ _ ?_ s2 hs2
              intro s hs s3 hs3
              have hmem : s ∈ st0.ancestors c := by rw [← hanc]; exact hs
              refine onlyR_forEachM _ _ ?_ s3 hs3
              intro n hn s4 hs4
              have hn0 : n ∈ agetL (st0.scope s).providers k := by rw [(hs3.2.1 s).2.2.1]; exact hn
              have hst : CtorStatic (st0.ctor n) (s4.ctor n) := hs4.2.2.2.2.1 n
              refine onlyR_wrapErr _ s4 ?_
              refine (ihC n (s4.ctor n).origS s4 hs4).mono ?_
              intro w hw
              rw [← hst.2.2.2.2.1] at hw
              rcases hw with rfl | ⟨l', hl', hr⟩
              · exact Reach.grpSelf hmem hn0
              · exact Reach.grpDep hmem hn0 hl' hr
          · intro _ s5 hs5
            exact onlyR_ret hs5 _
    · -- buildParam
      intro p c st h0
      cases p with
      | single k opt =>
        simp only [buildParam]
        exact (ihS k opt c st h0).mono (fun w hw => ⟨_, by simp [leaves], hw⟩)
      | grouped ty k soft pg =>
        simp only [buildParam]
        exact (ihG k soft c st h0).mono (fun w hw => ⟨_, by simp [leaves], hw⟩)
      | object ty fs =>
        simp only [buildParam]
        have hsub : ∀ f ∈ fs, ∀ s, RegFrame st0 s →
            OnlyR st0 (fun w => ∃ l ∈ leaves (.object ty fs), Reach st0 c l w) s (buildParam ctx fuel f c s) := by
          intro f hf s hs
          refine (ihP f c s hs).mono ?_
          intro w ⟨l, hl, hr⟩
          exact ⟨l, by simp only [leaves]; exact mem_leavesL.mpr ⟨f, hf, hl⟩, hr⟩
        refine onlyR_bind st (onlyR_mapM _ _ (fun f hf => hsub f (List.mem_filter.mp hf).1) st h0) ?_
        intro hard s1 hs1
        refine onlyR_bind s1 (onlyR_mapM _ _ (fun f hf => hsub f (List.mem_filter.mp hf).1) s1 hs1) ?_
        intro soft s2 hs2
        exact onlyR_ret hs2 _
    · -- buildList
      intro ps c st h0
      simp only [buildList]
      refine onlyR_mapM _ _ ?_ st h0
      intro p hp s hs
      refine (ihP p c s hs).mono ?_
      intro w ⟨l, hl, hr⟩
      exact ⟨l, mem_leavesL.mpr ⟨p, hp, hl⟩, hr⟩

end Dig
