import DigModel.Proofs.GroupExact
/-
  In a container without DryRun a constructor is marked built only by a successful execution that the history records
  (`CE`, an invariant of every operation of every program).  With `HInv` (at most one successful execution per
  constructor) and `GX` (the group stores are the history's account): every built feeder of a group has contributed
  its grouped results to the store of its home scope exactly once.
-/
namespace Dig

def CE (st : St) : Prop :=
  ∀ n, (st.ctor n).called = true → ∃ x, Event.exit (.ctor n) (st.ctor n).fn.id x .ok ∈ st.hist

theorem CE.init : CE ({} : St) := by
  intro n h
  have : (({} : St).ctor n) = default := by simp [St.ctor]
  rw [this] at h; cases h

theorem CE.transfer {a b : St} (h : CE a) (hh : HistExt a b)
    (hk : ∀ n, (b.ctor n).called = true → (a.ctor n).called = true ∧ (b.ctor n).fn = (a.ctor n).fn) : CE b := by
  intro n hc
  obtain ⟨h1, h2⟩ := hk n hc
  obtain ⟨x, hx⟩ := h n h1
  obtain ⟨l, hl⟩ := hh
  exact ⟨x, by rw [hl, h2]; exact List.mem_append_left _ hx⟩

def CER (a b : St) : Prop := RegFrame a b ∧ HistExt a b ∧ (CE a → CE b)

theorem CER.refl (a : St) : CER a a := ⟨RegFrame.refl a, HistExt.refl a, fun h => h⟩
theorem CER.trans {a b c : St} (h1 : CER a b) (h2 : CER b c) : CER a c :=
  ⟨h1.1.trans h2.1, h1.2.1.trans h2.2.1, fun h => h2.2.2 (h1.2.2 h)⟩

theorem cer_flags (a b : St) (hr : RegFrame a b) (hh : b.hist = a.hist) (hc : ∀ n, (b.ctor n).called = (a.ctor n).called) : CER a b :=
  ⟨hr, HistExt.of_eq hh, fun h => h.transfer (HistExt.of_eq hh) (fun n hb => ⟨by rw [← hc n]; exact hb, ((hr.2.2.2.2.1 n).1).symm⟩)⟩

theorem cer_ctorTail (ctx : Ctx) (hnd : ctx.cfg.dry = false) (st : St) (n : Nat) (node : CtorNode) (args : List Val)
    (hst : CtorStatic node (st.ctor n)) : CER st (ctorTail ctx n node args st).2 := by
  have hreg := regFrame_ctorTail ctx st n node args
  have hext := ctorTail_histExt ctx n node args st
  refine ⟨hreg, hext, ?_⟩
  intro h m hc
  have hfn : ((ctorTail ctx n node args st).2.ctor m).fn = (st.ctor m).fn := ((hreg.2.2.2.2.1 m).1).symm
  rw [ctorTail_ctor] at hc
  by_cases hcond : (callBody ctx (.ctor n) node.fn args st).1.commits = true ∧ n = m ∧ m < st.ctors.length
  · obtain ⟨hcm, hnm, _⟩ := hcond
    subst hnm
    rw [hfn, ← hst.1]
    cases hb : (callBody ctx (.ctor n) node.fn args st).1 with
    | ok x len =>
      exact ⟨x, ctorTail_hist_body ctx n node args st _ (callBody_ok_exit ctx (.ctor n) node.fn args st x len hb)⟩
    | dry =>
      exfalso
      rw [callBody_spec ctx hnd] at hb
      simp only [bodyRes] at hb
      split at hb
      · cases hb
      · split at hb <;> cases hb
      · cases hb
    | err x o => rw [hb] at hcm; simp [BodyRes.commits] at hcm
    | panic x => rw [hb] at hcm; simp [BodyRes.commits] at hcm
  · rw [if_neg hcond] at hc
    obtain ⟨x, hx⟩ := h m hc
    obtain ⟨l, hl⟩ := hext
    exact ⟨x, by rw [hl, hfn]; exact List.mem_append_left _ hx⟩

theorem cer_decoTail (ctx : Ctx) (st : St) (d : Nat) (node : DecoNode) (args : List Val) :
    CER st (decoTail ctx d node args st).2 := by
  have hreg := regFrame_decoTail ctx st d node args
  have hext := decoTail_histExt ctx d node args st
  have hc : (decoTail ctx d node args st).2.ctors = st.ctors := decoTail_ctors ctx d node args st
  exact ⟨hreg, hext, fun h => h.transfer hext (fun n hb => by
    have : (decoTail ctx d node args st).2.ctor n = st.ctor n := by simp only [St.ctor, hc]
    rw [this] at hb ⊢; exact ⟨hb, rfl⟩)⟩

theorem cer_leaf (ctx : Ctx) (hnd : ctx.cfg.dry = false) : LeafRel2 ctx CER where
  refl := CER.refl
  trans := CER.trans
  toReg h := h.1
  setOnStack st n := cer_flags _ _ (regFrame_modCtor st n _ (fun _ => ⟨rfl, rfl, rfl, rfl, rfl, rfl, rfl⟩)) rfl
    (fun m => by rw [ctor_modCtor]; split <;> rfl)
  clearOnStack st n := cer_flags _ _ (regFrame_modCtor st n _ (fun _ => ⟨rfl, rfl, rfl, rfl, rfl, rfl, rfl⟩)) rfl
    (fun m => by rw [ctor_modCtor]; split <;> rfl)
  ctorTail st n node args hst := cer_ctorTail ctx hnd st n node args hst
  decoOnStack st d := cer_flags _ _ (regFrame_modDeco st d _ (fun _ => ⟨rfl, rfl, rfl, rfl, rfl⟩)) rfl (fun _ => rfl)
  decoFinally st d := cer_flags _ _ (regFrame_modDeco st d _ (fun x => by split <;> exact ⟨rfl, rfl, rfl, rfl, rfl⟩)) rfl (fun _ => rfl)
  decoTail st d node args _ := cer_decoTail ctx st d node args

theorem CE.engine {ctx : Ctx} (hnd : ctx.cfg.dry = false) (fuel : Nat) :
    (∀ k soft c st, CE st → CE (buildGroup ctx fuel k soft c st).2) ∧
    (∀ ps c st, CE st → CE (buildList ctx fuel ps c st).2) :=
  ⟨fun k soft c st h => ((engine_pres2 ctx (cer_leaf ctx hnd) fuel).2.2.2.1 k soft c st).2.2 h,
   fun ps c st h => ((engine_pres2 ctx (cer_leaf ctx hnd) fuel).2.2.2.2.2 ps c st).2.2 h⟩

theorem CE.same {a b : St} (h : CE a) (hc : b.ctors = a.ctors) (hh : HistExt a b) : CE b :=
  h.transfer hh (fun n hb => by
    have : b.ctor n = a.ctor n := by simp only [St.ctor, hc]
    rw [this] at hb ⊢; exact ⟨hb, rfl⟩)

end Dig

namespace Dig

theorem apiScope_ctorDesc2 (st : St) (parent : Nat) : ∀ j, CtorDesc2 ((apiScope st parent).ctor j) (st.ctor j) := by
  let c : ScopeSt := { parent := some parent, gh := (st.scope parent).gh }
  let st1 : St := { st with scopes := st.scopes ++ [c] }
  let st2 : St := st1.modScope parent fun x => { x with children := x.children ++ [st.scopes.length] }
  have hdef : apiScope st parent = (st.scope parent).gh.foldl (copyOrder st.scopes.length parent) st2 := rfl
  have hd2 := copyOrder_desc2 st.scopes.length parent (st.scope parent).gh st2
  rw [← hdef] at hd2
  exact hd2

theorem default_ctor_of_ge (st : St) (n : Nat) (h : st.ctors.length ≤ n) : st.ctor n = default := by
  simp only [St.ctor, List.getD_eq_getElem?_getD]
  rw [List.getElem?_eq_none h]; rfl

theorem CE.provide {st : St} (h : CE st) (ctx : Ctx) (fn : Fn) (i s : Nat) (o : ProvideOpts) : CE (apiProvide ctx fn st i s o).1 := by
  have hcs := cacheSame_apiProvide ctx fn st i s o
  rcases apiProvide_reg2 ctx fn st i s o with he | ⟨results, keys, hadd⟩
  · exact h.same he.1.symm (HistExt.of_eq hcs.1)
  · refine h.transfer (HistExt.of_eq hcs.1) (fun n hb => ?_)
    by_cases hlt : n < st.ctors.length
    · rw [hadd.pre n hlt] at hb ⊢; exact ⟨hb, rfl⟩
    · exfalso
      by_cases heq : n = st.ctors.length
      · rw [heq, hadd.fresh] at hb; cases hb
      · rw [default_ctor_of_ge _ n (by rw [hadd.len]; omega)] at hb; cases hb

theorem CE.invoke {ctx : Ctx} (hnd : ctx.cfg.dry = false) {st : St} (h : CE st) (fn : Fn) (s : Nat) (info : Bool) :
    CE (apiInvoke ctx fn st s info).1 := by
  rw [apiInvoke_eq]
  unfold apiInvoke'
  cases fn.nonfunc with
  | some _ => exact h
  | none =>
    simp only
    have hg := ghOnly_parseParams ctx.env st s fn
    have hw : CE (parseParams ctx.env st s fn).2 := h.same hg.1.symm (HistExt.of_eq hg.2.2.1.symm)
    cases hpp : parseParams ctx.env st s fn with
    | mk r w =>
      rw [hpp] at hw hg
      simp only at hw hg
      cases r with
      | error e =>
        exact h.same (rollback_ctors_same st w s _ hg.1.symm)
          (HistExt.of_eq ((cacheSame_ghOnly hg).trans (cacheSame_rollback _ _ _ _)).1)
      | ok params =>
        simp only
        have hs := shallowCheck_state s params w
        cases hsc : shallowCheck s params w with
        | mk r2 w2 =>
          rw [hsc] at hs; simp only at hs; subst hs
          cases r2 with
          | error f => exact hw
          | ok u =>
            simp only
            cases hck : invokeCheck w2 s with
            | error v => exact hw
            | ok w3 =>
              simp only
              have hw3 : CE w3 := by
                unfold invokeCheck at hck
                split at hck
                · injection hck with e; rw [← e]; exact hw
                · split at hck
                  · injection hck with e; rw [← e]
                    exact hw.same rfl (HistExt.of_eq rfl)
                  · cases hck
                  · cases hck
              unfold invokeRun
              have hb := (CE.engine hnd (engineFuel w3 params)).2 params s w3 hw3
              rw [← wrapErr_state _ DErr.argsFailed] at hb
              cases hbl : EM.wrapErr (Dig.buildList ctx (engineFuel w3 params) params s) DErr.argsFailed w3 with
              | mk r4 w4 =>
                rw [hbl] at hb
                cases r4 with
                | error f => exact hb
                | ok args =>
                  simp only
                  have hf := callBody_fields ctx .invoked fn args w4
                  exact hb.same hf.2.1 (prov_callBody_hist ctx .invoked fn args w4)

theorem CE.step {ctx : Ctx} (hnd : ctx.cfg.dry = false) {st : St} (h : CE st) (fns : List Fn) (i : Nat) (op : Op) :
    CE (Dig.step ctx fns st i op).1 := by
  have h0 : CE { st with log := [] } := h
  cases op with
  | scope p =>
    simp only [Dig.step]
    split
    · exact h0.transfer (HistExt.of_eq (cacheSame_apiScope _ p).1)
        (fun n hb => by
          obtain ⟨d1, _, _, _, d5⟩ := apiScope_ctorDesc2 { st with log := [] } p n
          exact ⟨by rw [← d5]; exact hb, d1⟩)
    · exact h0
  | provide s f o =>
    simp only [Dig.step]
    split
    · split
      · exact h0.provide ctx _ i s o
      · exact h0
    · exact h0
  | decorate s f cb info =>
    simp only [Dig.step]
    split
    · split
      · exact h0.same (apiDecorate_ctors ctx _ _ i s cb info) (HistExt.of_eq (cacheSame_apiDecorate ctx _ _ i s cb info).1)
      · exact h0
    · exact h0
  | invoke s f info =>
    simp only [Dig.step]
    split
    · split
      · exact h0.invoke hnd _ s info
      · exact h0
    · exact h0
  | visualize s e => cases e <;> (simp only [Dig.step]; split <;> exact h0)
  | string s => simp only [Dig.step]; split <;> exact h0

theorem CE.runOps {ctx : Ctx} (hnd : ctx.cfg.dry = false) (fns : List Fn) : ∀ (ops : List Op) (i : Nat) (st : St) (acc : List OpRes),
    CE st → CE (Dig.runOps ctx fns ops i st acc).1 := by
  intro ops
  induction ops with
  | nil => intro i st acc h; exact h
  | cons op rest ih =>
    intro i st acc h
    simp only [Dig.runOps]
    exact ih _ _ _ (h.step hnd fns i op)

/-- in every reachable container without DryRun, a constructor marked built has a successful execution in the history -/
theorem ce_program (p : Program) (hnd : p.cfg.dry = false) : CE (runProgram p).1 :=
  CE.runOps (ctx := p.ctx) hnd p.fns p.ops 0 {} [] CE.init

end Dig
