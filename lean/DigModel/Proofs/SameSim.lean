import DigModel.Proofs.VerInv
/-
  Two containers that differ only in their `isVerifiedAcyclic` flags, both with honest flags (`VA`), answer every
  operation sequence identically — in either verification mode.  This is what makes "equal up to the flags"
  (the conclusion of `C06_provide_unchanged`) mean "indistinguishable for every later operation".
-/
namespace Dig

theorem eqV_modFlag (b : Bool) (v : St) (sc : Nat) : EqButVerified v (v.modScope sc fun x => { x with verified := b }) := by
  refine ⟨rfl, rfl, rfl, rfl, rfl, rfl, rfl, by simp [St.modScope], fun j => ?_⟩
  rw [scope_modScope]
  split <;> exact ⟨rfl, rfl, rfl, rfl, rfl, rfl, rfl, rfl, rfl, rfl⟩

theorem eqV_refl (a : St) : EqButVerified a a :=
  ⟨rfl, rfl, rfl, rfl, rfl, rfl, rfl, rfl, fun _ => ⟨rfl, rfl, rfl, rfl, rfl, rfl, rfl, rfl, rfl, rfl⟩⟩

theorem cyclePath_eqV {a b : St} (h : EqButVerified a b) (s : Nat) (p : List Nat) : cyclePath b s p = cyclePath a s p := by
  unfold cyclePath
  rw [(h.2.2.2.2.2.2.2.2 s).2.2.2.2.2.2.2.2.2]

theorem rollbackProvide_vset0 (g : Nat → Bool) (st0 w : St) (target : Nat) (scopes : List Nat) :
    rollbackProvide (vset g st0) w target scopes = rollbackProvide st0 w target scopes := by
  unfold rollbackProvide
  have hfun : (fun (w : St) sc => w.modScope sc fun x => { x with gh := x.gh.take ((vset g st0).scope sc).gh.length }) =
      (fun (w : St) sc => w.modScope sc fun x => { x with gh := x.gh.take (st0.scope sc).gh.length }) := by
    funext w sc
    rw [(vset_scope_fields g st0 sc).2.2.2.2.2.2.2.2.2]
  simp only [hfun, (vset_scope_fields g st0 target).2.2.1]
  rfl

/-- the acyclicity loop of Provide on two containers equal up to the flags: same answer, again equal up to the flags -/
theorem verifyScopes_eqV2 (cfg : Cfg) : ∀ (l : List Nat) (a b : St), EqButVerified a b →
    (Dig.verifyScopes cfg l b).1 = (Dig.verifyScopes cfg l a).1 ∧
    EqButVerified (Dig.verifyScopes cfg l a).2 (Dig.verifyScopes cfg l b).2 := by
  intro l
  induction l with
  | nil => intro a b h; exact ⟨rfl, h⟩
  | cons sc rest ih =>
    intro a b h
    have h1 : EqButVerified (a.modScope sc fun x => { x with verified := false }) (b.modScope sc fun x => { x with verified := false }) :=
      ((eqV_modFlag false a sc).symm'.trans' h).trans' (eqV_modFlag false b sc)
    simp only [Dig.verifyScopes]
    split
    · exact ih _ _ h1
    · rw [checkAcyclic_eqV h1 sc]
      split
      · exact ih _ _ (((eqV_modFlag true _ sc).symm'.trans' h1).trans' (eqV_modFlag true _ sc))
      · exact ⟨rfl, h1⟩

/-- the check Invoke makes before building anything, on two containers equal up to honest flags -/
theorem invokeCheck_sim {a b : St} (hab : EqButVerified a b) (ha : VA a) (hb : VA b) (s : Nat) (hs : s < a.scopes.length) :
    (∃ wa wb, invokeCheck a s = .ok wa ∧ invokeCheck b s = .ok wb ∧ EqButVerified wa wb) ∨
    (∃ v, invokeCheck a s = .error v ∧ invokeCheck b s = .error v) := by
  have hsb : s < b.scopes.length := by rw [← hab.2.2.2.2.2.2.2.1]; exact hs
  have hck := checkAcyclic_eqV hab s
  have hcp := cyclePath_eqV hab s
  unfold invokeCheck
  cases hfa : (a.scope s).verified with
  | true =>
    cases hfb : (b.scope s).verified with
    | true => exact Or.inl ⟨a, b, by simp, by simp, hab⟩
    | false =>
      have hac := ha s hs hfa
      rw [hck, hac]
      exact Or.inl ⟨a, _, by simp, by simp, hab.trans' (eqV_modFlag true b s)⟩
  | false =>
    cases hfb : (b.scope s).verified with
    | true =>
      have hbc := hb s hsb hfb
      rw [hck] at hbc
      rw [hbc]
      exact Or.inl ⟨_, b, by simp, by simp, (eqV_modFlag true a s).symm'.trans' hab⟩
    | false =>
      rw [hck]
      cases hca : checkAcyclic a s with
      | acyclic =>
        exact Or.inl ⟨_, _, by simp, by simp, ((eqV_modFlag true a s).symm'.trans' hab).trans' (eqV_modFlag true b s)⟩
      | cycle p => exact Or.inr ⟨.err (.invalid (.cycle (cyclePath a s p) s)), by simp, by simp [hcp]⟩
      | outOfRange => exact Or.inr ⟨.panicDig, by simp, by simp⟩
      | fuel => exact Or.inr ⟨.panicDig, by simp, by simp⟩

end Dig

namespace Dig

theorem CtxSame.rfl' (ctx : Ctx) : CtxSame ctx ctx := ⟨rfl, rfl, rfl, rfl, rfl, rfl⟩

/-- Invoke on two containers equal up to honest flags -/
theorem invoke_simV {a b : St} (hab : EqButVerified a b) (ctx : Ctx) (ha : VInv ctx.cfg a) (hbI : VInv ctx.cfg b)
    (fn : Fn) (s : Nat) (hs : s < a.scopes.length) (info : Bool) :
    (apiInvoke ctx fn b s info).2 = (apiInvoke ctx fn a s info).2 ∧
    EqButVerified (apiInvoke ctx fn a s info).1 (apiInvoke ctx fn b s info).1 := by
  have hb := eqV_vset hab
  generalize (fun j => (b.scope j).verified) = g at hb
  subst hb
  rw [apiInvoke_eq, apiInvoke_eq]
  unfold apiInvoke'
  cases fn.nonfunc with
  | some _ => exact ⟨rfl, hab⟩
  | none =>
    simp only [vset_subscopes]
    have hvb := hbI.va.parseParams hbI.gt hbI.pg hbI.ob ctx.env s fn
    rw [vset_parseParams] at hvb ⊢
    have hva := ha.va.parseParams ha.gt ha.pg ha.ob ctx.env s fn
    have hlen := (grow_parseParams ctx.env a s fn).len
    cases hpp : Dig.parseParams ctx.env a s fn with
    | mk r w =>
      rw [hpp] at hva hvb hlen
      simp only at hva hvb hlen
      cases r with
      | error e =>
        simp only
        rw [vset_rollbackProvide]
        exact ⟨trivial, vset_eqV g _⟩
      | ok params =>
        simp only
        rw [comm_shallowCheck g s params w]
        have hst := shallowCheck_state s params w
        cases hsc : shallowCheck s params w with
        | mk r2 w2 =>
          rw [hsc] at hst; simp only at hst; subst hst
          cases r2 with
          | error f => exact ⟨rfl, vset_eqV g _⟩
          | ok u =>
            simp only
            rcases invokeCheck_sim (vset_eqV g w2) hva hvb s (by rw [hlen]; exact hs) with ⟨wa, wb, hwa, hwb, hab'⟩ | ⟨v, hwa, hwb⟩
            · rw [hwa, hwb]
              simp only
              have hb2 := eqV_vset hab'
              generalize (fun j => (wb.scope j).verified) = g2 at hb2
              subst hb2
              rw [invokeRun_vset g2 (CtxSame.rfl' ctx)]
              exact ⟨rfl, vset_eqV g2 _⟩
            · rw [hwa, hwb]
              exact ⟨rfl, vset_eqV g _⟩

/-- Provide on two containers equal up to the flags -/
theorem provide_simV {a b : St} (hab : EqButVerified a b) (ctx : Ctx) (fn : Fn) (i s : Nat) (o : ProvideOpts) :
    (apiProvide ctx fn b i s o).2 = (apiProvide ctx fn a i s o).2 ∧
    EqButVerified (apiProvide ctx fn a i s o).1 (apiProvide ctx fn b i s o).1 := by
  have hb := eqV_vset hab
  generalize (fun j => (b.scope j).verified) = g at hb
  subst hb
  rw [apiProvide_eq, apiProvide_eq]
  unfold apiProvide'
  rw [vset_provideRegister]
  cases hreg : provideRegister ctx fn a i s o with
  | error r => simp only; exact ⟨trivial, vset_eqV g _⟩
  | ok t =>
    obtain ⟨target, params, results, n, w⟩ := t
    simp only
    unfold provideVerify
    simp only [vset_subscopes]
    obtain ⟨hr, hw⟩ := verifyScopes_eqV2 ctx.cfg (a.subscopes target) w (vset g w) (vset_eqV g w)
    cases hvs : Dig.verifyScopes ctx.cfg (a.subscopes target) w with
    | mk r5 w5 =>
      cases hvs' : Dig.verifyScopes ctx.cfg (a.subscopes target) (vset g w) with
      | mk r6 w6 =>
        rw [hvs, hvs'] at hr hw
        simp only at hr hw
        subst hr
        have hb2 := eqV_vset hw
        generalize (fun j => (w6.scope j).verified) = g2 at hb2
        subst hb2
        cases r6 with
        | error ec =>
          obtain ⟨sc, r⟩ := ec
          cases r with
          | cycle p =>
            simp only
            rw [rollbackProvide_vset0, cyclePath_eqV (vset_eqV g2 w5)]
            refine ⟨rfl, ?_⟩
            have := vset_rollbackProvide g2 a w5 target (a.subscopes target)
            rw [rollbackProvide_vset0] at this
            rw [this]
            exact vset_eqV g2 _
          | acyclic => exact ⟨rfl, vset_eqV g2 _⟩
          | outOfRange => exact ⟨rfl, vset_eqV g2 _⟩
          | fuel => exact ⟨rfl, vset_eqV g2 _⟩
        | ok u =>
          simp only
          refine ⟨trivial, ?_⟩
          rw [vset_modScope g2 w5 target _ (fun _ _ => rfl)]
          exact vset_eqV g2 _

end Dig

namespace Dig

theorem VInv.resetLog {cfg : Cfg} {st : St} (h : VInv cfg st) : VInv cfg { st with log := [] } :=
  ⟨h.gt.resetLog, h.pg.resetLog, h.ob.resetLog, h.va.resetLog, fun hd => (h.ea hd).resetLog⟩

/-- equal up to the flags and up to the per-operation log (which every operation clears first) -/
def EqV0 (a b : St) : Prop := EqButVerified { a with log := [] } { b with log := [] }

theorem EqV0.of_eqV {a b : St} (h : EqButVerified a b) : EqV0 a b := eqV_resetLog h

/-- one operation on two containers equal up to honest flags: same answer, and they stay equal up to the flags -/
theorem step_simV {a b : St} (hab0 : EqV0 a b) (ctx : Ctx) (ha : VInv ctx.cfg a) (hb : VInv ctx.cfg b)
    (fns : List Fn) (i : Nat) (op : Op) :
    (Dig.step ctx fns b i op).2 = (Dig.step ctx fns a i op).2 ∧
    EqButVerified (Dig.step ctx fns a i op).1 (Dig.step ctx fns b i op).1 := by
  have ha0 := ha.resetLog
  have hb0 := hb.resetLog
  have hlen : b.scopes.length = a.scopes.length := hab0.2.2.2.2.2.2.2.1.symm
  cases op with
  | scope parent =>
    simp only [Dig.step, hlen]
    split
    · rename_i hp; exact ⟨rfl, eqV_apiScope hab0 parent hp⟩
    · exact ⟨rfl, hab0⟩
  | provide s f o =>
    simp only [Dig.step, hlen]
    cases hf : fnOf fns f with
    | none => exact ⟨rfl, hab0⟩
    | some fn =>
      simp only
      split
      · obtain ⟨h1, h2⟩ := provide_simV hab0 ctx fn i s o
        refine ⟨?_, h2⟩
        show (apiProvide ctx fn _ i s o).2.toOpRes = (apiProvide ctx fn _ i s o).2.toOpRes
        rw [h1]
      · exact ⟨rfl, hab0⟩
  | decorate s f cb info =>
    simp only [Dig.step, hlen]
    cases hf : fnOf fns f with
    | none => exact ⟨rfl, hab0⟩
    | some fn =>
      simp only
      split
      · have hb' := eqV_vset hab0
        generalize (fun j => (({ b with log := [] } : St).scope j).verified) = g at hb'
        rw [hb', vset_apiDecorate]
        exact ⟨rfl, vset_eqV g _⟩
      · exact ⟨rfl, hab0⟩
  | invoke s f info =>
    simp only [Dig.step, hlen]
    cases hf : fnOf fns f with
    | none => exact ⟨rfl, hab0⟩
    | some fn =>
      simp only
      split
      · rename_i hs
        exact invoke_simV hab0 ctx ha0 hb0 fn s hs info
      · exact ⟨rfl, hab0⟩
  | visualize s e => cases e <;> (simp only [Dig.step]; split <;> exact ⟨rfl, hab0⟩)
  | string s => simp only [Dig.step, hlen]; split <;> exact ⟨rfl, hab0⟩

/-- **two containers equal up to honest flags cannot be told apart by any sequence of operations** -/
theorem runOps_simV (ctx : Ctx) (fns : List Fn) :
    ∀ (ops : List Op) (i : Nat) (a b : St) (acc : List OpRes), EqV0 a b → VInv ctx.cfg a → VInv ctx.cfg b →
      (Dig.runOps ctx fns ops i b acc).2 = (Dig.runOps ctx fns ops i a acc).2 := by
  intro ops
  induction ops with
  | nil => intro i a b acc _ _ _; rfl
  | cons op rest ih =>
    intro i a b acc hab ha hb
    simp only [Dig.runOps]
    obtain ⟨h1, h2⟩ := step_simV hab ctx ha hb fns i op
    have ha' := ha.step fns i op
    have hb' := hb.step fns i op
    cases hs : Dig.step ctx fns a i op with
    | mk a' r0 =>
      cases hs' : Dig.step ctx fns b i op with
      | mk b' r0' =>
        rw [hs, hs'] at h1 h2
        rw [hs] at ha'
        rw [hs'] at hb'
        simp only at h1 h2 ha' hb'
        subst h1
        exact ih (i + 1) a' b' (r0' :: acc) (EqV0.of_eqV h2) ha' hb'

end Dig
