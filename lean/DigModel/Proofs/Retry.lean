import DigModel.Proofs.Flags
/-
  A constructor call that ends with an error or a panic leaves the node
  "not built" and not on the stack: the next demand executes it again.
-/
namespace Dig

/-- a failing `constructorNode.Call` does not mark the constructor as called and takes it off the stack -/
theorem callCtor_fail (ctx : Ctx) (L L' fuel n c : Nat) (hn : n < L) (st : St) (hv : VL L L' st)
    (hc : (st.ctor n).called = false) (ho : (st.ctor n).onStack = false) (e : Fail)
    (he : (callCtor ctx (fuel + 1) n c st).1 = .error e) :
    ((callCtor ctx (fuel + 1) n c st).2.ctor n).called = false ∧
    ((callCtor ctx (fuel + 1) n c st).2.ctor n).onStack = false := by
  have hfl := (engine_flags ctx L L' (fuel + 1)).1 n c hn st hv
  refine ⟨?_, by rw [hfl.ctorBal n]; exact ho⟩
  have hv1 : VL L L' (st.modCtor n fun x => { x with onStack := true }) :=
    ⟨hv.1.of_frame (regFrame_modCtor st n _ (fun _ => ⟨rfl, rfl, rfl, rfl, rfl, rfl, rfl⟩)),
     by simp [St.modCtor, hv.2.1], hv.2.2⟩
  have hL := (engine_flags ctx L L' fuel).2.2.2.2.2 (st.ctor n).params c
  obtain ⟨s3, h1, _, h3⟩ := ctor_inner ctx fuel n c (st.ctor n) L L' hn hL _ hv1
  have h1o : ((st.modCtor n fun x => { x with onStack := true }).ctor n).onStack = true := by
    rw [ctor_modCtor]; simp [hv.2.1, hn]
  have h1n : ((st.modCtor n fun x => { x with onStack := true }).ctor n).called = false := by
    rw [ctor_modCtor]; split <;> simp [hc]
  have hs3 : (s3.ctor n).called = false := by rw [h1.ctorFrame n h1o]; exact h1n
  simp only [callCtor, hc, ho, Bool.false_eq_true, if_false, EM.finally_] at he ⊢
  have := h3 e he
  rw [ctor_modCtor]
  split <;> simp [this, hs3]

/-- a failing `decoratorNode.Call` leaves the decorator ready to be applied again (repair of F4) -/
theorem callDeco_fail (ctx : Ctx) (L L' fuel d c : Nat) (hd : d < L') (st : St) (hv : VL L L' st)
    (hs : (st.deco d).state = .ready) (e : Fail)
    (he : (callDeco ctx (fuel + 1) d c st).1 = .error e) :
    ((callDeco ctx (fuel + 1) d c st).2.deco d).state = .ready := by
  have hv1 : VL L L' (st.modDeco d fun x => { x with state := .onStack }) :=
    ⟨hv.1.of_frame (regFrame_modDeco st d _ (fun _ => ⟨rfl, rfl, rfl, rfl, rfl⟩)),
     hv.2.1, by simp [St.modDeco, hv.2.2]⟩
  have hL := (engine_flags ctx L L' fuel).2.2.2.2.2 (st.deco d).params (st.deco d).s
  obtain ⟨s3, h1, h2, h3⟩ := deco_inner ctx fuel d c (st.deco d) L L' hd hL _ hv1
  have h1o : ((st.modDeco d fun x => { x with state := .onStack }).deco d).state = .onStack := by
    rw [deco_modDeco]; simp [hv.2.2, hd]
  have hs3 : (s3.deco d).state = .onStack := by rw [h1.decoFrame d h1o]; exact h1o
  have hlen : d < ((EM.bind (shallowCheck c (st.deco d).params) fun _ =>
        EM.bind (EM.wrapErr (buildList ctx fuel (st.deco d).params (st.deco d).s) .argsFailed) fun args =>
        decoTail ctx d (st.deco d) args) (st.modDeco d fun x => { x with state := .onStack })).2.decos.length := by
    have e1 := h1.reg.2.2.2.2.2.1
    have e2 := h2.reg.2.2.2.2.2.1
    simp [St.modDeco] at e1
    have := hv.2.2
    omega
  simp only [callDeco, hs, EM.finally_] at he ⊢
  have hne : (DecoState.ready == DecoState.called) = false := by decide
  simp only [hne, Bool.false_eq_true, if_false] at he ⊢
  have := h3 e he
  rw [deco_modDeco]
  simp only [hlen, and_self, if_true]
  rw [this, hs3]
  simp

end Dig
