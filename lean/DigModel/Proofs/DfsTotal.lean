import DigModel.Proofs.Dfs
import Batteries.Data.List.Perm

namespace Dfs

/-- pigeonhole: a duplicate-free list of naturals below `n` has at most `n` elements -/
theorem nodup_length_le (n : Nat) (l : List Nat) (hd : l.Nodup) (hl : ∀ x ∈ l, x < n) : l.length ≤ n := by
  have hsub : l ⊆ List.range n := fun x hx => List.mem_range.mpr (hl x hx)
  have := (List.subperm_of_subset hd hsub).length_le
  simpa using this

theorem dfs_mono (g : Nat → List Nat) :
    ∀ fuel u vis path vis', dfs g fuel u vis path = .ok vis' → ∀ x ∈ vis, x ∈ vis' := by
  intro fuel
  induction fuel with
  | zero => intro u vis path vis' h; simp [dfs] at h
  | succ fuel ih =>
    intro u vis path vis' h
    unfold dfs at h
    by_cases huv : u ∈ vis
    · rw [if_pos huv] at h; cases h; exact fun x hx => hx
    · rw [if_neg huv] at h
      have := fold_ok _ (step_stay g _ _) (fun s _ => ∀ x ∈ u :: vis, x ∈ s) (g u) [] (u :: vis) vis'
        (fun x hx => hx)
        (fun s v s' _ hQ hs => by
          simp only [step] at hs
          by_cases hvs : v ∈ s
          · rw [if_neg (fun h => h hvs)] at hs
            by_cases hvp : v ∈ path ++ [u]
            · rw [if_pos hvp] at hs; cases hs
            · rw [if_neg hvp] at hs; cases hs; exact hQ
          · rw [if_pos hvs] at hs
            exact fun x hx => ih v s (path ++ [u]) s' hs x (hQ x hx)) h
      exact fun x hx => this x (List.mem_cons_of_mem _ hx)

theorem fold_not_oof (st : R → Nat → R) (hst : ∀ r v, (∀ s, r ≠ .ok s) → st r v = r)
    (Q : List Nat → Prop) :
    ∀ (vs : List Nat) (s0 : List Nat), Q s0 →
      (∀ s v, v ∈ vs → Q s → st (.ok s) v ≠ .oof ∧ ∀ s', st (.ok s) v = .ok s' → Q s') →
      vs.foldl st (.ok s0) ≠ .oof := by
  intro vs
  induction vs with
  | nil => intro s0 _ _ h; simp at h
  | cons v vs ih =>
    intro s0 h0 hstep
    simp only [List.foldl_cons]
    obtain ⟨h1, h2⟩ := hstep s0 v List.mem_cons_self h0
    cases hr : st (.ok s0) v with
    | ok s1 => exact ih s1 (h2 s1 hr) (fun s w hw => hstep s w (List.mem_cons_of_mem _ hw))
    | cycle q =>
      have hstay : ∀ (ws : List Nat), ws.foldl st (.cycle q) = .cycle q := by
        intro ws; induction ws with
        | nil => rfl
        | cons w ws ihw => simp only [List.foldl_cons]; rw [hst _ _ (by intro s h; cases h)]; exact ihw
      rw [hstay]; intro h; cases h
    | oof => exact absurd hr h1

/-- with all successors in range, distinct path nodes and enough fuel, `dfs` never runs out of fuel -/
theorem dfs_total (g : Nat → List Nat) (n : Nat) (hg : ∀ x, x < n → ∀ y ∈ g x, y < n) :
    ∀ fuel u vis path, u < n → path.Nodup → (∀ x ∈ path, x < n) → (∀ x ∈ path, x ∈ vis) →
      n + 1 ≤ fuel + path.length → dfs g fuel u vis path ≠ .oof := by
  intro fuel
  induction fuel with
  | zero =>
    intro u vis path _ hd hl _ hf
    have := nodup_length_le n path hd hl
    omega
  | succ fuel ih =>
    intro u vis path hu hd hl hsub hf
    unfold dfs
    by_cases huv : u ∈ vis
    · rw [if_pos huv]; intro h; cases h
    · rw [if_neg huv]
      have hup : u ∉ path := fun h => huv (hsub u h)
      have hd' : (path ++ [u]).Nodup := by
        rw [List.nodup_append]
        refine ⟨hd, by simp, ?_⟩
        intro a ha b hb
        simp only [List.mem_singleton] at hb
        subst hb; intro hab; subst hab; exact hup ha
      have hl' : ∀ x ∈ path ++ [u], x < n := by
        intro x hx; simp only [List.mem_append, List.mem_singleton] at hx
        rcases hx with hx | hx
        · exact hl x hx
        · subst hx; exact hu
      have hf' : n + 1 ≤ fuel + (path ++ [u]).length := by simp; omega
      apply fold_not_oof _ (step_stay g _ _) (fun s => ∀ x ∈ u :: vis, x ∈ s) (g u) (u :: vis) (fun x hx => hx)
      intro s v hv hQ
      have hsub' : ∀ x ∈ path ++ [u], x ∈ s := by
        intro x hx; simp only [List.mem_append, List.mem_singleton] at hx
        rcases hx with hx | hx
        · exact hQ x (List.mem_cons_of_mem _ (hsub x hx))
        · subst hx; exact hQ x List.mem_cons_self
      simp only [step]
      by_cases hvs : v ∈ s
      · rw [if_neg (fun h => h hvs)]
        by_cases hvp : v ∈ path ++ [u]
        · rw [if_pos hvp]
          exact ⟨(by intro h; cases h), (by intro s' h; cases h)⟩
        · rw [if_neg hvp]
          exact ⟨(by intro h; cases h), (by intro s' h; cases h; exact hQ)⟩
      · rw [if_pos hvs]
        refine ⟨ih v s (path ++ [u]) (hg u hu v hv) hd' hl' hsub' hf', ?_⟩
        intro s' hs' x hx
        exact dfs_mono g fuel v s (path ++ [u]) s' hs' x (hQ x hx)

/-- the top-level check never runs out of fuel on a graph whose successors are in range -/
theorem isAcyclic_total (g : Nat → List Nat) (n : Nat) (hg : ∀ x, x < n → ∀ y ∈ g x, y < n) :
    isAcyclic g n ≠ .oof := by
  unfold isAcyclic
  let st : R → Nat → R := fun acc i => match acc with
    | .ok vis => dfs g (n+1) i vis []
    | r => r
  have hst : ∀ r v, (∀ s, r ≠ .ok s) → st r v = r := by
    intro r v hr; cases r with
    | ok s => exact absurd rfl (hr s)
    | cycle p => rfl
    | oof => rfl
  apply fold_not_oof st hst (fun _ => True) (List.range n) [] trivial
  intro s v hv _
  refine ⟨?_, fun _ _ => trivial⟩
  exact dfs_total g n hg (n+1) v s [] (List.mem_range.mp hv) List.nodup_nil (by simp) (by simp) (by simp)

/-- completeness: a graph with a closed walk among nodes `< n` is reported as cyclic -/
theorem isAcyclic_complete (g : Nat → List Nat) (n : Nat) (hg : ∀ x, x < n → ∀ y ∈ g x, y < n)
    (a : Nat) (l : List Nat) (hl : l ≠ []) (hn : ∀ x ∈ a :: l, x < n) (hw : IsWalk g (a :: l))
    (hclosed : (a :: l).getLast (by simp) = a) : ∃ p, isAcyclic g n = .cycle p ∧ IsClosedWalk g p := by
  cases h : isAcyclic g n with
  | ok vis => exact absurd hclosed (isAcyclic_sound g n vis h a l hl hn hw)
  | oof => exact absurd h (isAcyclic_total g n hg)
  | cycle p => exact ⟨p, rfl, isAcyclic_cycle g n p h⟩

#print axioms isAcyclic_complete
example : isAcyclic (fun | 0 => [1] | 1 => [2] | 2 => [0] | _ => []) 3 = .cycle [0, 1, 2, 0] := by decide
example : isAcyclic (fun | 0 => [1, 2] | 1 => [2] | _ => []) 3 = .ok [2, 1, 0] := by decide
end Dfs
