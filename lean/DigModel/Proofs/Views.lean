import DigModel.Proofs.Rollback
import DigModel.Proofs.Dfs
/-
  The acyclicity check of a scope reads only the scope tree, the providers, the graph holders and the
  node tables — not the `isVerifiedAcyclic` flags, the `nodes` lists, the caches or the logs.  Hence the
  checks made one after the other by `Provide` all speak about the final container.
-/
namespace Dig

/-- the parts of the container a scope's dependency graph is computed from -/
def GraphSame (a b : St) : Prop :=
  a.ctors = b.ctors ∧ a.pgs = b.pgs ∧ a.scopes.length = b.scopes.length ∧
  ∀ j, (a.scope j).parent = (b.scope j).parent ∧ (a.scope j).providers = (b.scope j).providers ∧
    (a.scope j).gh = (b.scope j).gh

theorem GraphSame.refl (a : St) : GraphSame a a := ⟨rfl, rfl, rfl, fun _ => ⟨rfl, rfl, rfl⟩⟩
theorem GraphSame.symm {a b : St} (h : GraphSame a b) : GraphSame b a :=
  ⟨h.1.symm, h.2.1.symm, h.2.2.1.symm, fun j => ⟨(h.2.2.2 j).1.symm, (h.2.2.2 j).2.1.symm, (h.2.2.2 j).2.2.symm⟩⟩
theorem GraphSame.trans {a b c : St} (h1 : GraphSame a b) (h2 : GraphSame b c) : GraphSame a c :=
  ⟨h1.1.trans h2.1, h1.2.1.trans h2.2.1, h1.2.2.1.trans h2.2.2.1,
   fun j => ⟨(h1.2.2.2 j).1.trans (h2.2.2.2 j).1, (h1.2.2.2 j).2.1.trans (h2.2.2.2 j).2.1,
     (h1.2.2.2 j).2.2.trans (h2.2.2.2 j).2.2⟩⟩

theorem ancestorsAux_congr (a b : List ScopeSt) (hl : a.length = b.length)
    (hp : ∀ j, (a.getD j { parent := none }).parent = (b.getD j { parent := none }).parent) :
    ∀ fuel s, ancestorsAux a fuel s = ancestorsAux b fuel s := by
  intro fuel
  induction fuel with
  | zero => intro s; rfl
  | succ fuel ih =>
    intro s
    simp only [ancestorsAux]
    by_cases hs : s < a.length
    · have hsb : s < b.length := by omega
      have h1 := hp s
      simp only [List.getD_eq_getElem?_getD, List.getElem?_eq_getElem hs, List.getElem?_eq_getElem hsb, Option.getD_some] at h1 ⊢
      simp only [h1]
      congr 1
      cases b[s].parent with
      | none => rfl
      | some p => exact ih p
    · have h1 : a[s]? = none := by simp; omega
      have h2 : b[s]? = none := by simp; omega
      simp [h1, h2]

theorem GraphSame.ancestors {a b : St} (h : GraphSame a b) (s : Nat) : a.ancestors s = b.ancestors s := by
  unfold St.ancestors
  rw [h.2.2.1]
  exact ancestorsAux_congr _ _ h.2.2.1 (fun j => (h.2.2.2 j).1) _ _

theorem GraphSame.allProviders {a b : St} (h : GraphSame a b) (s : Nat) (k : Key) :
    a.allProviders s k = b.allProviders s k := by
  unfold St.allProviders
  rw [h.ancestors s]
  exact flatMap_congr' _ _ _ (fun x _ => by rw [(h.2.2.2 x).2.1])

theorem GraphSame.pOrders {a b : St} (h : GraphSame a b) (s : Nat) (p : Param) :
    paramOrders a s p = paramOrders b s p := by
  apply paramOrders.induct (motive_2 := fun p => paramOrders a s p = paramOrders b s p)
    (motive_1 := fun ps => paramOrders.paramOrdersList a s ps = paramOrders.paramOrdersList b s ps)
  · intro k opt
    simp only [Dig.paramOrders, h.allProviders s k, St.ctor, h.1]
  · intro ty k soft pg
    simp only [Dig.paramOrders, h.2.1]
  · intro ty fs ih
    simp only [Dig.paramOrders]; exact ih
  · simp only [paramOrders.paramOrdersList]
  · intro p ps ih1 ih2
    simp only [paramOrders.paramOrdersList, ih1, ih2]

theorem GraphSame.pOrdersList {a b : St} (h : GraphSame a b) (s : Nat) : ∀ ps : List Param,
    paramOrders.paramOrdersList a s ps = paramOrders.paramOrdersList b s ps := by
  intro ps
  induction ps with
  | nil => simp only [paramOrders.paramOrdersList]
  | cons p ps ih => simp only [paramOrders.paramOrdersList, h.pOrders s p, ih]

theorem GraphSame.edgesFrom {a b : St} (h : GraphSame a b) (s u : Nat) : edgesFrom a s u = edgesFrom b s u := by
  unfold Dig.edgesFrom
  rw [(h.2.2.2 s).2.2]
  cases (b.scope s).gh[u]? with
  | none => rfl
  | some nd =>
    cases nd with
    | ctor n => simp only [St.ctor, h.1]; exact h.pOrdersList s _
    | pg i => simp only [h.2.1, h.allProviders, St.ctor, h.1]

theorem GraphSame.checkAcyclic {a b : St} (h : GraphSame a b) (s : Nat) : checkAcyclic a s = checkAcyclic b s := by
  have he : Dig.edgesFrom a s = Dig.edgesFrom b s := funext (h.edgesFrom s)
  unfold Dig.checkAcyclic
  rw [he, (h.2.2.2 s).2.2]

theorem graphSame_modScope (st : St) (s : Nat) (f : ScopeSt → ScopeSt)
    (hf : ∀ x, (f x).parent = x.parent ∧ (f x).providers = x.providers ∧ (f x).gh = x.gh) :
    GraphSame st (st.modScope s f) := by
  refine ⟨rfl, rfl, by simp [St.modScope], fun j => ?_⟩
  rw [scope_modScope]
  split
  · obtain ⟨h1, h2, h3⟩ := hf (st.scope j); exact ⟨h1.symm, h2.symm, h3.symm⟩
  · exact ⟨rfl, rfl, rfl⟩

/-- the verification loop leaves every graph as it is -/
theorem graphSame_verifyScopes (cfg : Cfg) : ∀ (l : List Nat) (w : St), GraphSame w (verifyScopes cfg l w).2 := by
  intro l
  induction l with
  | nil => intro w; exact GraphSame.refl w
  | cons sc rest ih =>
    intro w
    simp only [verifyScopes]
    have h1 : GraphSame w (w.modScope sc fun x => { x with verified := false }) :=
      graphSame_modScope w sc _ (fun _ => ⟨rfl, rfl, rfl⟩)
    split
    · exact h1.trans (ih _)
    · split
      · have h2 : GraphSame (w.modScope sc fun x => { x with verified := false })
            ((w.modScope sc fun x => { x with verified := false }).modScope sc fun x => { x with verified := true }) :=
          graphSame_modScope _ sc _ (fun _ => ⟨rfl, rfl, rfl⟩)
        exact h1.trans (h2.trans (ih _))
      · exact h1

theorem verifyScopes_step (cfg : Cfg) (hd : cfg.deferAcyclic = false) (sc : Nat) (rest : List Nat) (w : St) :
    verifyScopes cfg (sc :: rest) w =
      match checkAcyclic (w.modScope sc fun x => { x with verified := false }) sc with
      | .acyclic => verifyScopes cfg rest ((w.modScope sc fun x => { x with verified := false }).modScope sc
          fun x => { x with verified := true })
      | r => (.error (sc, r), w.modScope sc fun x => { x with verified := false }) := by
  simp only [verifyScopes, hd, Bool.false_eq_true, if_false]
  cases Dig.checkAcyclic (w.modScope sc fun x => { x with verified := false }) sc <;> rfl

/-- an eager verification loop that succeeds has seen every listed scope's graph answer "acyclic" -/
theorem verifyScopes_ok_acyclic (cfg : Cfg) (hd : cfg.deferAcyclic = false) : ∀ (l : List Nat) (w : St),
    (verifyScopes cfg l w).1 = .ok () → ∀ sc ∈ l, checkAcyclic (verifyScopes cfg l w).2 sc = .acyclic := by
  intro l
  induction l with
  | nil => intro w _ sc hsc; cases hsc
  | cons x rest ih =>
    intro w hok sc hsc
    have hgs := graphSame_verifyScopes cfg (x :: rest) w
    have hstep := verifyScopes_step cfg hd x rest w
    cases hc : Dig.checkAcyclic (w.modScope x fun y => { y with verified := false }) x with
    | acyclic =>
      rw [hc] at hstep
      simp only at hstep
      rw [hstep] at hok hgs ⊢
      rcases List.mem_cons.mp hsc with rfl | hm
      · rw [← hgs.checkAcyclic sc, (graphSame_modScope w sc (fun y => { y with verified := false })
          (fun _ => ⟨rfl, rfl, rfl⟩)).checkAcyclic sc]
        exact hc
      · exact ih _ hok sc hm
    | cycle p => rw [hc] at hstep; simp only at hstep; rw [hstep] at hok; cases hok
    | outOfRange => rw [hc] at hstep; simp only at hstep; rw [hstep] at hok; cases hok
    | fuel => rw [hc] at hstep; simp only at hstep; rw [hstep] at hok; cases hok

theorem verifyScopes_defer_ok (cfg : Cfg) (hd : cfg.deferAcyclic = true) : ∀ (l : List Nat) (w : St),
    (verifyScopes cfg l w).1 = .ok () := by
  intro l
  induction l with
  | nil => intro w; rfl
  | cons sc rest ih => intro w; simp only [verifyScopes, hd, if_true]; exact ih _

/-- a failing loop names a scope and the answer of that scope's check, on a container with the same graphs -/
theorem verifyScopes_err_check (cfg : Cfg) : ∀ (l : List Nat) (w : St) (sc : Nat) (r : CycleRes),
    (verifyScopes cfg l w).1 = .error (sc, r) →
      sc ∈ l ∧ checkAcyclic (verifyScopes cfg l w).2 sc = r ∧ r ≠ .acyclic := by
  by_cases hd : cfg.deferAcyclic = true
  · intro l w sc r h
    rw [verifyScopes_defer_ok cfg hd] at h; cases h
  · have hd' : cfg.deferAcyclic = false := by simpa using hd
    intro l
    induction l with
    | nil => intro w sc r h; simp [verifyScopes] at h
    | cons x rest ih =>
      intro w sc r h
      have hstep := verifyScopes_step cfg hd' x rest w
      cases hc : Dig.checkAcyclic (w.modScope x fun y => { y with verified := false }) x with
      | acyclic =>
        rw [hc] at hstep; simp only at hstep
        rw [hstep] at h ⊢
        obtain ⟨h1, h2, h3⟩ := ih _ sc r h
        exact ⟨by simp [h1], h2, h3⟩
      | cycle p =>
        rw [hc] at hstep; simp only at hstep
        rw [hstep] at h ⊢
        simp only at h ⊢
        injection h with h1; injection h1 with e1 e2; subst e1; subst e2
        exact ⟨by simp, hc, by simp⟩
      | outOfRange =>
        rw [hc] at hstep; simp only at hstep
        rw [hstep] at h ⊢
        simp only at h ⊢
        injection h with h1; injection h1 with e1 e2; subst e1; subst e2
        exact ⟨by simp, hc, by simp⟩
      | fuel =>
        rw [hc] at hstep; simp only at hstep
        rw [hstep] at h ⊢
        simp only at h ⊢
        injection h with h1; injection h1 with e1 e2; subst e1; subst e2
        exact ⟨by simp, hc, by simp⟩

/-- what the answers of a scope's check mean for the scope's dependency graph -/
theorem checkAcyclic_acyclic (st : St) (s : Nat) (h : checkAcyclic st s = .acyclic) :
    ∃ vis, Dfs.isAcyclic (edgesFrom st s) (st.scope s).gh.length = .ok vis := by
  unfold Dig.checkAcyclic at h
  simp only at h
  split at h
  · cases h
  · cases hd : Dfs.isAcyclic (Dig.edgesFrom st s) (st.scope s).gh.length with
    | ok vis => exact ⟨vis, rfl⟩
    | cycle p => rw [hd] at h; cases h
    | oof => rw [hd] at h; cases h

theorem checkAcyclic_cycle (st : St) (s : Nat) (p : List Nat) (h : checkAcyclic st s = .cycle p) :
    Dfs.isAcyclic (edgesFrom st s) (st.scope s).gh.length = .cycle p := by
  unfold Dig.checkAcyclic at h
  simp only at h
  split at h
  · cases h
  · cases hd : Dfs.isAcyclic (Dig.edgesFrom st s) (st.scope s).gh.length with
    | ok vis => rw [hd] at h; cases h
    | cycle q => rw [hd] at h; simp only at h; injection h with h; rw [h]
    | oof => rw [hd] at h; cases h

end Dig
