import DigModel.Proofs.EngineRel
import DigModel.Proofs.Body
/-
  Executions are numbered: execution `x` of function `f` ends at most once in the history of a
  container, so "execution (f, x) failed" and "execution (f, x) succeeded" exclude each other.
-/
namespace Dig

def cntOf (l : List (Nat × Nat)) (g : Nat) : Nat :=
  match l.find? (·.1 == g) with | some (_, c) => c | none => 0

theorem execCount_eq (st : St) (g : Nat) : st.execCount g = cntOf st.execs g := rfl

theorem cntOf_cons (a : Nat × Nat) (l : List (Nat × Nat)) (g : Nat) :
    cntOf (a :: l) g = if a.1 = g then a.2 else cntOf l g := by
  unfold cntOf
  simp only [List.find?_cons]
  by_cases h : a.1 = g
  · simp [h]
  · have : (a.1 == g) = false := by simpa using h
    simp [this, h]

theorem cntOf_map_bump (f : Nat) : ∀ (l : List (Nat × Nat)) (g : Nat),
    cntOf (l.map fun (p : Nat × Nat) => if p.1 == f then (p.1, p.2 + 1) else (p.1, p.2)) g =
      if g = f ∧ l.any (·.1 == f) = true then cntOf l f + 1 else cntOf l g := by
  intro l
  induction l with
  | nil => intro g; simp [cntOf]
  | cons a rest ih =>
    intro g
    simp only [List.map_cons, cntOf_cons, List.any_cons]
    by_cases haf : a.1 = f
    · have hb : (a.1 == f) = true := by simpa using haf
      simp only [hb, if_true, Bool.true_or, and_true]
      by_cases hg : g = f
      · subst hg; simp [haf]
      · have : ¬ a.1 = g := by omega
        simp only [this, if_false, hg]
        rw [ih g]; simp [hg]
    · have hb : (a.1 == f) = false := by simpa using haf
      simp only [hb, Bool.false_or]
      by_cases hag : a.1 = g
      · have hg : ¬ g = f := by omega
        simp [hag, hg]
      · simp only [hag, if_false, Bool.false_eq_true]
        rw [ih g]
        by_cases hg : g = f
        · subst hg; simp [haf]
        · simp [hg]

theorem cntOf_append_new (f : Nat) : ∀ (l : List (Nat × Nat)) (g : Nat), l.any (·.1 == f) = false →
    cntOf (l ++ [(f, 1)]) g = (if g = f then 1 else cntOf l g) ∧ cntOf l f = 0 := by
  intro l
  induction l with
  | nil =>
    intro g _
    simp only [List.nil_append, cntOf_cons]
    constructor
    · by_cases hg : g = f
      · subst hg; simp
      · have : ¬ f = g := by omega
        simp [this, hg, cntOf]
    · simp [cntOf]
  | cons a rest ih =>
    intro g hany
    simp only [List.any_cons, Bool.or_eq_false_iff] at hany
    obtain ⟨ha, hr⟩ := hany
    have haf : ¬ a.1 = f := by simpa using ha
    obtain ⟨i1, i2⟩ := ih g hr
    simp only [List.cons_append, cntOf_cons]
    constructor
    · by_cases hag : a.1 = g
      · have : ¬ g = f := by omega
        simp [hag, this]
      · simp only [hag, if_false]; exact i1
    · simp [haf, i2]

theorem execCount_bump (st : St) (f g : Nat) :
    (st.bumpExec f).execCount g = if g = f then st.execCount f + 1 else st.execCount g := by
  unfold St.bumpExec
  by_cases hany : st.execs.any (·.1 == f) = true
  · simp only [hany, if_true, execCount_eq]
    have := cntOf_map_bump f st.execs g
    simp only [hany, and_true] at this
    exact this
  · have hany' : st.execs.any (·.1 == f) = false := Bool.eq_false_iff.mpr hany
    rw [if_neg hany]
    simp only [execCount_eq]
    obtain ⟨h1, h2⟩ := cntOf_append_new f st.execs g hany'
    rw [h1]
    by_cases hg : g = f
    · subst hg; simp [h2]
    · simp [hg]

/-! ### the invariant -/

structure ExecInv (st : St) : Prop where
  bound : ∀ w f x r, Event.exit w f x r ∈ st.hist → x < st.execCount f
  uniq : ∀ (i j : Nat) w f x r w' r', st.hist[i]? = some (Event.exit w f x r) → st.hist[j]? = some (Event.exit w' f x r') → i = j

theorem ExecInv.init : ExecInv ({} : St) where
  bound w f x r h := by simp at h
  uniq i j w f x r w' r' h := by simp at h

theorem ExecInv.transfer {a b : St} (h : ExecInv a) (hh : b.hist = a.hist) (he : b.execs = a.execs) : ExecInv b where
  bound w f x r hm := by
    rw [hh] at hm
    have := h.bound w f x r hm
    simpa [execCount_eq, he] using this
  uniq := by rw [hh]; exact h.uniq

/-- appending an event that is not an exit -/
theorem ExecInv.snoc {a b : St} (h : ExecInv a) (e : Event) (hh : b.hist = a.hist ++ [e]) (he : b.execs = a.execs)
    (hne : ∀ w f x r, e ≠ .exit w f x r) : ExecInv b where
  bound w f x r hm := by
    rw [hh] at hm
    rcases List.mem_append.mp hm with h1 | h1
    · have := h.bound w f x r h1
      simpa [execCount_eq, he] using this
    · simp at h1; exact absurd h1.symm (hne w f x r)
  uniq i j w f x r w' r' hi hj := by
    rw [hh] at hi hj
    have key : ∀ (k : Nat) (ev : Event), (a.hist ++ [e])[k]? = some ev → (∀ w f x r, ev = .exit w f x r → True) →
        (∃ w f x r, ev = Event.exit w f x r) → a.hist[k]? = some ev := by
      intro k ev hk _ ⟨w0, f0, x0, r0, hev⟩
      by_cases hlt : k < a.hist.length
      · rwa [List.getElem?_append_left hlt] at hk
      · rw [List.getElem?_append_right (Nat.le_of_not_lt hlt)] at hk
        cases hk0 : k - a.hist.length with
        | zero => rw [hk0] at hk; simp at hk; subst hev; exact absurd hk (hne _ _ _ _)
        | succ m => rw [hk0] at hk; simp at hk
    exact h.uniq i j w f x r w' r' (key i _ hi (fun _ _ _ _ _ => trivial) ⟨_, _, _, _, rfl⟩)
      (key j _ hj (fun _ _ _ _ _ => trivial) ⟨_, _, _, _, rfl⟩)

/-- appending the exit of the execution that is being counted right now -/
theorem ExecInv.snocExit {a b : St} (h : ExecInv a) (w : Who) (f : Nat) (r : ExitKind)
    (hh : b.hist = a.hist ++ [Event.exit w f (a.execCount f) r])
    (he : ∀ g, b.execCount g = if g = f then a.execCount f + 1 else a.execCount g) : ExecInv b where
  bound w' f' x' r' hm := by
    rw [hh] at hm
    rw [he]
    rcases List.mem_append.mp hm with h1 | h1
    · have := h.bound w' f' x' r' h1
      split
      · rename_i hf; subst hf; omega
      · exact this
    · simp only [List.mem_singleton, Event.exit.injEq] at h1
      obtain ⟨_, rfl, rfl, _⟩ := h1
      simp
  uniq i j w1 f1 x1 r1 w2 r2 hi hj := by
    rw [hh] at hi hj
    have old : ∀ (k : Nat) (ev : Event), (a.hist ++ [Event.exit w f (a.execCount f) r])[k]? = some ev →
        a.hist[k]? = some ev ∨ (k = a.hist.length ∧ ev = Event.exit w f (a.execCount f) r) := by
      intro k ev hk
      by_cases hlt : k < a.hist.length
      · left; rwa [List.getElem?_append_left hlt] at hk
      · right
        rw [List.getElem?_append_right (Nat.le_of_not_lt hlt)] at hk
        cases hk0 : k - a.hist.length with
        | zero => rw [hk0] at hk; simp at hk; exact ⟨by omega, hk.symm⟩
        | succ m => rw [hk0] at hk; simp at hk
    rcases old i _ hi with h1 | ⟨h1, e1⟩ <;> rcases old j _ hj with h2 | ⟨h2, e2⟩
    · exact h.uniq i j w1 f1 x1 r1 w2 r2 h1 h2
    · simp only [Event.exit.injEq] at e2
      obtain ⟨_, rfl, rfl, _⟩ := e2
      have := h.bound w1 f1 _ r1 (List.mem_of_getElem? h1)
      omega
    · simp only [Event.exit.injEq] at e1
      obtain ⟨_, rfl, rfl, _⟩ := e1
      have := h.bound w2 f1 _ r2 (List.mem_of_getElem? h2)
      omega
    · omega

theorem execInv_callBody (ctx : Ctx) (who : Who) (fn : Fn) (args : List Val) (st : St) (h : ExecInv st) :
    ExecInv (callBody ctx who fn args st).2 := by
  by_cases hd : ctx.cfg.dry = true
  · rw [callBody_dry ctx hd]; exact h
  · have hnd : ctx.cfg.dry = false := by simpa using hd
    rw [callBody_spec ctx hnd]
    simp only
    -- the enter event first
    let mid : St := { st with hist := st.hist ++ [Event.enter who fn.id (st.execCount fn.id) args] }
    have hmid : ExecInv mid := h.snoc _ rfl rfl (fun _ _ _ _ he => by cases he)
    refine hmid.snocExit who fn.id (exitKind ctx fn (ctx.beh fn.id (st.execCount fn.id))) ?_ ?_
    · show st.hist ++ bodyEvents ctx who fn args st = _
      unfold bodyEvents
      simp [mid, execCount_eq]
    · intro g
      show (afterBody ctx who fn args st).execCount g = _
      have : (afterBody ctx who fn args st).execCount g = (st.bumpExec fn.id).execCount g := rfl
      rw [this, execCount_bump]
      rfl

theorem execInv_runCallback (cb : Option Nat) (who : Who) (fn start : Nat) (err : Option DErr) (st : St) (h : ExecInv st) :
    ExecInv (runCallback cb who fn start err st) := by
  unfold runCallback
  split
  · exact h.snoc _ rfl rfl (fun _ _ _ _ he => by cases he)
  · exact h

theorem ctorCommit_execs (ctx : Ctx) (n : Nat) (node : CtorNode) (r : BodyRes) (st : St) :
    (ctorCommit ctx n node r st).execs = st.execs := by
  unfold ctorCommit
  cases r <;> rfl

theorem decoCommit_execs (ctx : Ctx) (d : Nat) (node : DecoNode) (r : BodyRes) (st : St) :
    (decoCommit ctx d node r st).execs = st.execs := by
  unfold decoCommit
  cases r <;> rfl

def ExecRel (a b : St) : Prop := ExecInv a → ExecInv b

theorem execRel_leaf (ctx : Ctx) : LeafRel ctx ExecRel where
  refl _ h := h
  trans h1 h2 h := h2 (h1 h)
  setOnStack _ _ h := h.transfer rfl rfl
  clearOnStack _ _ h := h.transfer rfl rfl
  decoOnStack _ _ h := h.transfer rfl rfl
  decoFinally _ _ h := h.transfer rfl rfl
  ctorTail st n node args h := by
    simp only [Dig.ctorTail]
    refine execInv_runCallback _ _ _ _ _ _ ?_
    exact (execInv_callBody ctx (.ctor n) node.fn args st h).transfer
      (ctorCommit_fields ctx n node _ _).2.1 (ctorCommit_execs ctx n node _ _)
  decoTail st d node args h := by
    simp only [Dig.decoTail]
    refine execInv_runCallback _ _ _ _ _ _ ?_
    exact (execInv_callBody ctx (.deco d) node.fn args st h).transfer
      (decoCommit_fields ctx d node _ _).2.1 (decoCommit_execs ctx d node _ _)

theorem ExecInv.buildList {st : St} (h : ExecInv st) (ctx : Ctx) (fuel : Nat) (ps : List Param) (c : Nat) :
    ExecInv (buildList ctx fuel ps c st).2 :=
  (engine_pres ctx (execRel_leaf ctx) fuel).2.2.2.2.2 ps c st h

/-- an execution that ended with an error or a panic has no successful exit -/
theorem ExecInv.failed_not_ok {st : St} (h : ExecInv st) (w : Who) (f x : Nat) (r : ExitKind) (hr : r ≠ .ok)
    (hm : Event.exit w f x r ∈ st.hist) : ∀ w', Event.exit w' f x .ok ∉ st.hist := by
  intro w' hm'
  obtain ⟨i, hi⟩ := List.getElem?_of_mem hm
  obtain ⟨j, hj⟩ := List.getElem?_of_mem hm'
  have := h.uniq i j w f x r w' .ok hi hj
  subst this
  rw [hi] at hj
  simp only [Option.some.injEq, Event.exit.injEq] at hj
  exact hr hj.2.2.2

end Dig
