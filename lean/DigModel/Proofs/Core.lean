import DigModel.Proofs.Views
import DigModel.Proofs.Body
import DigModel.Proofs.AList
/-
  The *core* of a container: everything dig's control flow can depend on.  Cached values are blanked
  (only the keys under which something is cached remain), logs, clock and execution counters are
  dropped.  Two containers with the same core behave alike as far as verdicts are concerned — this is
  what makes a DryRun container "validate the same".
-/
namespace Dig

def blankVals (m : List (Key × Val)) : List (Key × Val) := m.map fun p => (p.1, Val.zero 0)
def blankGroups (m : List (Key × List Val)) : List (Key × List Val) := m.map fun p => (p.1, [])

def blankScope (sc : ScopeSt) : ScopeSt :=
  { sc with values := blankVals sc.values, decoratedValues := blankVals sc.decoratedValues,
            groups := blankGroups sc.groups, decoratedGroups := blankVals sc.decoratedGroups }

def core (st : St) : St :=
  { st with scopes := st.scopes.map blankScope, execs := [], clock := 0, log := [], hist := [] }

/-! ### association lists under blanking -/

theorem aget_blankVals (m : List (Key × Val)) (k : Key) : aget (blankVals m) k = (aget m k).map fun _ => Val.zero 0 := by
  induction m with
  | nil => rfl
  | cons p rest ih =>
    rcases p with ⟨k', v⟩
    simp only [blankVals, List.map_cons, aget] at ih ⊢
    split
    · rfl
    · exact ih

theorem blankVals_aset (m : List (Key × Val)) (k : Key) (v : Val) :
    blankVals (aset m k v) = aset (blankVals m) k (Val.zero 0) := by
  induction m with
  | nil => rfl
  | cons p rest ih =>
    rcases p with ⟨k', v'⟩
    simp only [blankVals, List.map_cons, aset] at ih ⊢
    split
    · rfl
    · simp only [List.map_cons]; rw [ih]

theorem blankGroups_aset (m : List (Key × List Val)) (k : Key) (vs : List Val) :
    blankGroups (aset m k vs) = aset (blankGroups m) k [] := by
  induction m with
  | nil => rfl
  | cons p rest ih =>
    rcases p with ⟨k', v'⟩
    simp only [blankGroups, List.map_cons, aset] at ih ⊢
    split
    · rfl
    · simp only [List.map_cons]; rw [ih]

theorem blankGroups_submitAll (m : List (Key × List Val)) (k : Key) (vs : List Val) :
    blankGroups (submitAll m k vs) = aset (blankGroups m) k [] := blankGroups_aset m k _

/-- what blanking keeps of a scope -/
structure BlankEq (a b : ScopeSt) : Prop where
  parent : a.parent = b.parent
  children : a.children = b.children
  providers : a.providers = b.providers
  decorators : a.decorators = b.decorators
  nodes : a.nodes = b.nodes
  gh : a.gh = b.gh
  verified : a.verified = b.verified
  values : blankVals a.values = blankVals b.values
  dvalues : blankVals a.decoratedValues = blankVals b.decoratedValues
  groups : blankGroups a.groups = blankGroups b.groups
  dgroups : blankVals a.decoratedGroups = blankVals b.decoratedGroups

theorem blankEq_iff (a b : ScopeSt) : blankScope a = blankScope b ↔ BlankEq a b := by
  constructor
  · intro h
    have h1 : (blankScope a).parent = (blankScope b).parent := congrArg _ h
    have h2 : (blankScope a).children = (blankScope b).children := congrArg _ h
    have h3 : (blankScope a).providers = (blankScope b).providers := congrArg _ h
    have h4 : (blankScope a).decorators = (blankScope b).decorators := congrArg _ h
    have h5 : (blankScope a).nodes = (blankScope b).nodes := congrArg _ h
    have h6 : (blankScope a).gh = (blankScope b).gh := congrArg _ h
    have h7 : (blankScope a).verified = (blankScope b).verified := congrArg _ h
    have h8 : (blankScope a).values = (blankScope b).values := congrArg _ h
    have h9 : (blankScope a).decoratedValues = (blankScope b).decoratedValues := congrArg _ h
    have h10 : (blankScope a).groups = (blankScope b).groups := congrArg _ h
    have h11 : (blankScope a).decoratedGroups = (blankScope b).decoratedGroups := congrArg _ h
    exact ⟨h1, h2, h3, h4, h5, h6, h7, h8, h9, h10, h11⟩
  · intro h
    cases a; cases b
    simp only [blankScope]
    have h1 := h.parent; have h2 := h.children; have h3 := h.providers; have h4 := h.decorators
    have h5 := h.nodes; have h6 := h.gh; have h7 := h.verified; have h8 := h.values; have h9 := h.dvalues
    have h10 := h.groups; have h11 := h.dgroups
    simp only at h1 h2 h3 h4 h5 h6 h7 h8 h9 h10 h11
    subst h1 h2 h3 h4 h5 h6 h7
    simp only [h8, h9, h10, h11]

theorem BlankEq.refl (a : ScopeSt) : BlankEq a a := ⟨rfl, rfl, rfl, rfl, rfl, rfl, rfl, rfl, rfl, rfl, rfl⟩

theorem BlankEq.isSome_values {a b : ScopeSt} (h : BlankEq a b) (k : Key) :
    (aget a.values k).isSome = (aget b.values k).isSome := by
  have := congrArg (fun m => (aget m k).isSome) h.values
  simpa [aget_blankVals] using this

theorem BlankEq.isSome_dvalues {a b : ScopeSt} (h : BlankEq a b) (k : Key) :
    (aget a.decoratedValues k).isSome = (aget b.decoratedValues k).isSome := by
  have := congrArg (fun m => (aget m k).isSome) h.dvalues
  simpa [aget_blankVals] using this

theorem BlankEq.isSome_dgroups {a b : ScopeSt} (h : BlankEq a b) (k : Key) :
    (aget a.decoratedGroups k).isSome = (aget b.decoratedGroups k).isSome := by
  have := congrArg (fun m => (aget m k).isSome) h.dgroups
  simpa [aget_blankVals] using this

/-! ### extraction: which keys are written does not depend on the values -/

theorem blankVals_foldl_aset (name : String) (v v' : Val) : ∀ (tys : List Nat) (m m' : List (Key × Val)),
    blankVals m = blankVals m' →
    blankVals (tys.foldl (fun m t => aset m { ty := t, name := name, group := "" } v) m) =
    blankVals (tys.foldl (fun m t => aset m { ty := t, name := name, group := "" } v') m') := by
  intro tys
  induction tys with
  | nil => intro m m' h; exact h
  | cons t ts ih =>
    intro m m' h
    simp only [List.foldl_cons]
    apply ih
    rw [blankVals_aset, blankVals_aset, h]

theorem blankGroups_foldl_submit (group : String) (v v' : Val) : ∀ (tys : List Nat) (m m' : List (Key × List Val)),
    blankGroups m = blankGroups m' →
    blankGroups (tys.foldl (fun m t => submitAll m { ty := t, name := "", group := group } [v]) m) =
    blankGroups (tys.foldl (fun m t => submitAll m { ty := t, name := "", group := group } [v']) m') := by
  intro tys
  induction tys with
  | nil => intro m m' h; exact h
  | cons t ts ih =>
    intro m m' h
    simp only [List.foldl_cons]
    apply ih
    rw [blankGroups_submitAll, blankGroups_submitAll, h]

theorem extractResult_blank (env : TyEnv) (r r' : Ret) (x : Result) :
    ∀ sc sc', BlankEq sc sc' → BlankEq (extractResult env r sc x) (extractResult env r' sc' x) := by
  intro sc
  apply extractResult.induct env r
    (fun sc x => ∀ sc', BlankEq sc sc' → BlankEq (extractResult env r sc x) (extractResult env r' sc' x))
    (fun sc xs => ∀ sc', BlankEq sc sc' → BlankEq (extractResults env r sc xs) (extractResults env r' sc' xs))
  · intro sc slot decl ty name as sc' h
    simp only [extractResult]
    exact { h with values := blankVals_foldl_aset name _ _ _ _ _ h.values }
  · intro sc slot decl ty group as sc' h
    simp only [extractResult, if_true]
    have hg : blankGroups (submitAll sc.groups { ty := ty, name := "", group := group } (elemsOf (r.val env slot decl))) =
        blankGroups (submitAll sc'.groups { ty := ty, name := "", group := group } (elemsOf (r'.val env slot decl))) := by
      rw [blankGroups_submitAll, blankGroups_submitAll, h.groups]
    exact { h with groups := hg }
  · intro sc slot decl ty group flatten as hf sc' h
    simp only [extractResult, hf]
    exact { h with groups := blankGroups_foldl_submit group _ _ _ _ _ h.groups }
  · intro sc ty fs ih sc' h; simp only [extractResult]; exact ih sc' h
  · intro sc sc' h; simp only [extractResults]; exact h
  · intro sc x xs ih1 ih2 sc' h; simp only [extractResults]; exact ih2 _ (ih1 sc' h)

theorem extractDeco_blank (env : TyEnv) (r r' : Ret) (x : Result) :
    ∀ sc sc', BlankEq sc sc' → BlankEq (extractDeco env r sc x) (extractDeco env r' sc' x) := by
  intro sc
  apply extractDeco.induct env r
    (fun sc x => ∀ sc', BlankEq sc sc' → BlankEq (extractDeco env r sc x) (extractDeco env r' sc' x))
    (fun sc xs => ∀ sc', BlankEq sc sc' → BlankEq (extractDecos env r sc xs) (extractDecos env r' sc' xs))
  · intro sc slot decl ty name as sc' h
    simp only [extractDeco]
    have hg : blankVals (aset sc.decoratedValues { ty := ty, name := name, group := "" } (r.val env slot decl)) =
        blankVals (aset sc'.decoratedValues { ty := ty, name := name, group := "" } (r'.val env slot decl)) := by
      rw [blankVals_aset, blankVals_aset, h.dvalues]
    exact { h with dvalues := hg }
  · intro sc slot decl ty group f as sc' h
    simp only [extractDeco]
    have hg : blankVals (aset sc.decoratedGroups { ty := (elemOfId env ty).getD 0, name := "", group := group } (r.val env slot decl)) =
        blankVals (aset sc'.decoratedGroups { ty := (elemOfId env ty).getD 0, name := "", group := group } (r'.val env slot decl)) := by
      rw [blankVals_aset, blankVals_aset, h.dgroups]
    exact { h with dgroups := hg }
  · intro sc ty fs ih sc' h; simp only [extractDeco]; exact ih sc' h
  · intro sc sc' h; simp only [extractDecos]; exact h
  · intro sc x xs ih1 ih2 sc' h; simp only [extractDecos]; exact ih2 _ (ih1 sc' h)

theorem extractSlots_blank (env : TyEnv) (deco : Bool) (r r' : Ret) : ∀ (slots : List RSlot) (sc sc' : ScopeSt),
    BlankEq sc sc' → BlankEq (extractSlots env deco r sc slots) (extractSlots env deco r' sc' slots) := by
  intro slots
  induction slots with
  | nil => intro sc sc' h; exact h
  | cons s rest ih =>
    intro sc sc' h
    cases s with
    | err => simp only [extractSlots]; exact ih sc sc' h
    | val x =>
      simp only [extractSlots]
      split
      · exact ih _ _ (extractDeco_blank env r r' x sc sc' h)
      · exact ih _ _ (extractResult_blank env r r' x sc sc' h)

/-! ### containers with the same core -/

structure CoreEq (a b : St) : Prop where
  ctors : a.ctors = b.ctors
  decos : a.decos = b.decos
  pgs : a.pgs = b.pgs
  len : a.scopes.length = b.scopes.length
  scope : ∀ j, BlankEq (a.scope j) (b.scope j)

theorem CoreEq.refl (a : St) : CoreEq a a := ⟨rfl, rfl, rfl, rfl, fun _ => BlankEq.refl _⟩

theorem CoreEq.ctor {a b : St} (h : CoreEq a b) (n : Nat) : a.ctor n = b.ctor n := by simp [St.ctor, h.ctors]
theorem CoreEq.deco {a b : St} (h : CoreEq a b) (d : Nat) : a.deco d = b.deco d := by simp [St.deco, h.decos]

theorem CoreEq.ancestors {a b : St} (h : CoreEq a b) (s : Nat) : a.ancestors s = b.ancestors s := by
  unfold St.ancestors
  rw [h.len]
  exact ancestorsAux_congr _ _ h.len (fun j => (h.scope j).parent) _ _

theorem CoreEq.allProviders {a b : St} (h : CoreEq a b) (s : Nat) (k : Key) : a.allProviders s k = b.allProviders s k := by
  unfold St.allProviders
  rw [h.ancestors s]
  exact flatMap_congr' _ _ _ (fun x _ => by rw [(h.scope x).providers])

/-- the left container changes outside its core -/
theorem CoreEq.left {a a' b : St} (h : CoreEq a b) (h1 : a'.ctors = a.ctors) (h2 : a'.decos = a.decos) (h3 : a'.pgs = a.pgs)
    (h4 : a'.scopes = a.scopes) : CoreEq a' b :=
  ⟨h1.trans h.ctors, h2.trans h.decos, h3.trans h.pgs, by rw [h4]; exact h.len,
   fun j => by rw [show a'.scope j = a.scope j from by simp [St.scope, h4]]; exact h.scope j⟩

theorem CoreEq.right {a b b' : St} (h : CoreEq a b) (h1 : b'.ctors = b.ctors) (h2 : b'.decos = b.decos) (h3 : b'.pgs = b.pgs)
    (h4 : b'.scopes = b.scopes) : CoreEq a b' :=
  ⟨h.ctors.trans h1.symm, h.decos.trans h2.symm, h.pgs.trans h3.symm, by rw [h4]; exact h.len,
   fun j => by rw [show b'.scope j = b.scope j from by simp [St.scope, h4]]; exact h.scope j⟩

theorem CoreEq.modCtor {a b : St} (h : CoreEq a b) (n : Nat) (f : CtorNode → CtorNode) :
    CoreEq (a.modCtor n f) (b.modCtor n f) :=
  ⟨by simp [St.modCtor, h.ctors], h.decos, h.pgs, h.len, h.scope⟩

theorem CoreEq.modDeco {a b : St} (h : CoreEq a b) (d : Nat) (f : DecoNode → DecoNode) :
    CoreEq (a.modDeco d f) (b.modDeco d f) :=
  ⟨h.ctors, by simp [St.modDeco, h.decos], h.pgs, h.len, h.scope⟩

theorem CoreEq.modScope {a b : St} (h : CoreEq a b) (s : Nat) (f g : ScopeSt → ScopeSt)
    (hfg : ∀ x y, BlankEq x y → BlankEq (f x) (g y)) : CoreEq (a.modScope s f) (b.modScope s g) := by
  refine ⟨h.ctors, h.decos, h.pgs, by simp [St.modScope, h.len], fun j => ?_⟩
  rw [scope_modScope, scope_modScope, h.len]
  split
  · exact hfg _ _ (h.scope j)
  · exact h.scope j

/-! ### outcomes that agree -/

def RelOut {α : Type} (ρ : α → α → Prop) : Except Fail α → Except Fail α → Prop
  | .ok x, .ok y => ρ x y
  | .error e, .error e' => e = e'
  | _, _ => False

/-- two runs end in containers with the same core and with agreeing outcomes -/
def SimR {α : Type} (ρ : α → α → Prop) (r1 r2 : Except Fail α × St) : Prop :=
  CoreEq r1.2 r2.2 ∧ RelOut ρ r1.1 r2.1

def TT {α : Type} : α → α → Prop := fun _ _ => True

theorem simR_ret {α : Type} {ρ : α → α → Prop} {a b : St} (h : CoreEq a b) (x y : α) (hxy : ρ x y) :
    SimR ρ (.ok x, a) (.ok y, b) := ⟨h, hxy⟩

theorem simR_err {α : Type} {ρ : α → α → Prop} {a b : St} (h : CoreEq a b) (e : Fail) :
    SimR ρ ((.error e : Except Fail α), a) (.error e, b) := ⟨h, rfl⟩

theorem simR_bind {α β : Type} {ρ1 : α → α → Prop} {ρ2 : β → β → Prop} {m1 m2 : EM α} {f1 f2 : α → EM β} {a b : St}
    (hm : SimR ρ1 (m1 a) (m2 b))
    (hf : ∀ x y a' b', ρ1 x y → CoreEq a' b' → SimR ρ2 (f1 x a') (f2 y b')) :
    SimR ρ2 (EM.bind m1 f1 a) (EM.bind m2 f2 b) := by
  unfold EM.bind
  obtain ⟨hc, ho⟩ := hm
  cases h1 : m1 a with
  | mk r1 a' =>
    cases h2 : m2 b with
    | mk r2 b' =>
      rw [h1, h2] at hc ho
      cases r1 with
      | ok x =>
        cases r2 with
        | ok y => exact hf x y a' b' ho hc
        | error e => exact absurd ho (by simp [RelOut])
      | error e =>
        cases r2 with
        | ok y => exact absurd ho (by simp [RelOut])
        | error e' => exact ⟨hc, ho⟩

theorem simR_wrapErr {α : Type} {ρ : α → α → Prop} {m1 m2 : EM α} (w : DErr → DErr) {a b : St}
    (hm : SimR ρ (m1 a) (m2 b)) : SimR ρ (EM.wrapErr m1 w a) (EM.wrapErr m2 w b) := by
  unfold EM.wrapErr
  obtain ⟨hc, ho⟩ := hm
  cases h1 : m1 a with
  | mk r1 a' =>
    cases h2 : m2 b with
    | mk r2 b' =>
      rw [h1, h2] at hc ho
      cases r1 with
      | ok x =>
        cases r2 with
        | ok y => exact ⟨hc, ho⟩
        | error e => exact absurd ho (by simp [RelOut])
      | error e =>
        cases r2 with
        | ok y => exact absurd ho (by simp [RelOut])
        | error e' =>
          have he : e = e' := ho
          subst he
          cases e <;> exact ⟨hc, rfl⟩

theorem simR_finally {α : Type} {ρ : α → α → Prop} {m1 m2 : EM α} {fin1 fin2 : St → St} {a b : St}
    (hm : SimR ρ (m1 a) (m2 b)) (hfin : ∀ a' b', CoreEq a' b' → CoreEq (fin1 a') (fin2 b')) :
    SimR ρ (EM.finally_ m1 fin1 a) (EM.finally_ m2 fin2 b) := by
  unfold EM.finally_
  obtain ⟨hc, ho⟩ := hm
  cases h1 : m1 a with
  | mk r1 a' =>
    cases h2 : m2 b with
    | mk r2 b' =>
      rw [h1, h2] at hc ho
      exact ⟨hfin _ _ hc, ho⟩

theorem simR_forEachM {α : Type} (xs : List α) (f1 f2 : α → EM Unit)
    (hf : ∀ x a b, CoreEq a b → SimR TT (f1 x a) (f2 x b)) :
    ∀ a b, CoreEq a b → SimR TT (forEachM xs f1 a) (forEachM xs f2 b) := by
  induction xs with
  | nil => intro a b h; unfold forEachM; exact simR_ret h () () trivial
  | cons x rest ih =>
    intro a b h
    unfold forEachM
    exact simR_bind (hf x a b h) (fun _ _ a' b' _ h' => ih a' b' h')

def SameSome (o o' : Option Val) : Prop := o.isSome = o'.isSome

theorem simR_firstM {α : Type} (xs : List α) (f1 f2 : α → EM (Option Val))
    (hf : ∀ x a b, CoreEq a b → SimR SameSome (f1 x a) (f2 x b)) :
    ∀ a b, CoreEq a b → SimR SameSome (firstM xs f1 a) (firstM xs f2 b) := by
  induction xs with
  | nil => intro a b h; unfold firstM; exact simR_ret h none none rfl
  | cons x rest ih =>
    intro a b h
    unfold firstM
    refine simR_bind (hf x a b h) ?_
    intro o o' a' b' hs h'
    cases o with
    | none =>
      cases o' with
      | none => exact ih a' b' h'
      | some v => simp [SameSome] at hs
    | some v =>
      cases o' with
      | none => simp [SameSome] at hs
      | some v' => exact simR_ret h' _ _ rfl

theorem simR_mapM {α : Type} (xs : List α) (f1 f2 : α → EM Val)
    (hf : ∀ x a b, CoreEq a b → SimR TT (f1 x a) (f2 x b)) :
    ∀ a b, CoreEq a b → SimR TT (mapM' xs f1 a) (mapM' xs f2 b) := by
  induction xs with
  | nil => intro a b h; unfold mapM'; exact simR_ret h [] [] trivial
  | cons x rest ih =>
    intro a b h
    unfold mapM'
    refine simR_bind (hf x a b h) ?_
    intro v v' a' b' _ h'
    refine simR_bind (ih a' b' h') ?_
    intro vs vs' a'' b'' _ h''
    exact simR_ret h'' _ _ trivial

end Dig
