import DigModel.Proofs.ParsePure
import DigModel.Proofs.RootCauseApi
import DigModel.Proofs.DrySim
/-
  Error transparency for every operation of every program (`InvGood`).
-/
namespace Dig

theorem apiProvide_digErr (ctx : Ctx) (fn : Fn) (st : St) (i s : Nat) (o : ProvideOpts) (e : DErr)
    (h : (apiProvide ctx fn st i s o).2.v = .err e) : DigRoot e := by
  unfold apiProvide at h
  cases hnf : fn.nonfunc with
  | some _ => rw [hnf] at h; simp only at h; injection h with h; subst h; exact digRoot_invalid0
  | none =>
    rw [hnf] at h
    simp only at h
    cases hv : validateOpts ctx.env o with
    | error e' => rw [hv] at h; simp only at h; injection h with h; subst h; exact validateOpts_err _ _ _ hv
    | ok as =>
      rw [hv] at h
      simp only at h
      generalize (if o.export_ then St.root else s) = target at h
      cases hpp : parseParams ctx.env st target fn with
      | mk r w1 =>
        rw [hpp] at h
        cases r with
        | error e1 =>
          simp only at h; injection h with h; subst h
          exact digRoot_provide (parseParams_err _ _ _ _ _ _ hpp)
        | ok params =>
          simp only at h
          cases hr : newResultList ctx.env { name := o.name, group := o.group, as := as } fn with
          | error e2 =>
            rw [hr] at h; simp only at h; injection h with h; subst h
            exact digRoot_provide (newResultList_err _ _ _ _ hr)
          | ok results =>
            rw [hr] at h
            simp only at h
            generalize (St.newGraphNode { w1 with ctors := w1.ctors ++ [_] } target (.ctor w1.ctors.length)) = w3 at h
            cases hvk : visitKeys (w3.scope target) (slotResults results) [] with
            | error e3 =>
              rw [hvk] at h; simp only at h; injection h with h; subst h
              exact digRoot_provide (visitKeys_err _ _ _ _ hvk)
            | ok keys =>
              rw [hvk] at h
              cases keys with
              | nil => simp only at h; injection h with h; subst h; exact digRoot_provide digRoot_invalid0
              | cons k0 ks =>
                simp only at h
                generalize (w3.modScope target _) = w4 at h
                cases hvs : verifyScopes ctx.cfg (st.subscopes target) w4 with
                | mk r5 w5 =>
                  rw [hvs] at h
                  cases r5 with
                  | ok u => simp only at h; cases h
                  | error ec =>
                    obtain ⟨sc, cr⟩ := ec
                    cases cr with
                    | cycle p =>
                      simp only at h; injection h with h; subst h
                      exact digRoot_provide (digRoot_invalid (digRoot_cycle _ _))
                    | acyclic => simp only at h; cases h
                    | outOfRange => simp only at h; cases h
                    | fuel => simp only at h; cases h

theorem apiDecorate_digErr (ctx : Ctx) (fn : Fn) (st : St) (i s : Nat) (cb info : Bool) (e : DErr)
    (h : (apiDecorate ctx fn st i s cb info).2.v = .err e) : DigRoot e := by
  unfold apiDecorate at h
  cases hnf : fn.nonfunc with
  | some _ => rw [hnf] at h; simp only at h; injection h with h; subst h; exact digRoot_invalid0
  | none =>
    rw [hnf] at h
    simp only at h
    cases hpp : parseParams ctx.env st s fn with
    | mk r w1 =>
      rw [hpp] at h
      cases r with
      | error e1 => simp only at h; injection h with h; subst h; exact parseParams_err _ _ _ _ _ _ hpp
      | ok params =>
        simp only at h
        cases hr : newResultList ctx.env {} fn with
        | error e2 => rw [hr] at h; simp only at h; injection h with h; subst h; exact newResultList_err _ _ _ _ hr
        | ok results =>
          rw [hr] at h
          simp only at h
          cases hk : resultKeys ctx.env (slotResults results) with
          | error e3 => rw [hk] at h; simp only at h; injection h with h; subst h; exact resultKeys_err _ _ _ hk
          | ok keys =>
            rw [hk] at h
            simp only at h
            split at h
            · simp only at h; injection h with h; subst h; exact digRoot_invalid0
            · simp only at h; cases h

theorem apiProvide_no_panicUser (ctx : Ctx) (fn : Fn) (st : St) (i s : Nat) (o : ProvideOpts) (f x : Nat) :
    (apiProvide ctx fn st i s o).2.v ≠ .panicUser f x := by
  unfold apiProvide
  split
  · intro hc; cases hc
  · split
    · intro hc; cases hc
    · simp only []
      split
      · intro hc; cases hc
      · split
        · intro hc; cases hc
        · split
          · intro hc; cases hc
          · intro hc; cases hc
          · split
            · intro hc; cases hc
            · intro hc; cases hc
            · intro hc; cases hc

theorem apiDecorate_no_panicUser (ctx : Ctx) (fn : Fn) (st : St) (i s : Nat) (cb info : Bool) (f x : Nat) :
    (apiDecorate ctx fn st i s cb info).2.v ≠ .panicUser f x := by
  unfold apiDecorate
  split
  · intro hc; cases hc
  · split
    · intro hc; cases hc
    · split
      · intro hc; cases hc
      · split
        · intro hc; cases hc
        · split <;> (intro hc; cases hc)

theorem invGood_digErr (ctx : Ctx) (e : DErr) (h : DigRoot e) : InvGood ctx [] (.err e) := Or.inl ⟨Clean.nil, h⟩

theorem apiInvoke_invGood (ctx : Ctx) (fn : Fn) (st : St) (s : Nat) (info : Bool) (hlog : st.log = []) :
    InvGood ctx (apiInvoke ctx fn st s info).2.ev (apiInvoke ctx fn st s info).2.v := by
  rw [apiInvoke_eq]
  unfold apiInvoke'
  cases hnf : fn.nonfunc with
  | some _ => exact invGood_digErr _ _ digRoot_invalid0
  | none =>
    simp only
    have hg := ghOnly_parseParams ctx.env st s fn
    cases hpp : parseParams ctx.env st s fn with
    | mk r w =>
      rw [hpp] at hg
      simp only at hg ⊢
      cases r with
      | error e => exact invGood_digErr _ _ (parseParams_err _ _ _ _ _ _ hpp)
      | ok params =>
        simp only
        have hs := shallowCheck_state s params w
        cases hsc : shallowCheck s params w with
        | mk r2 w2 =>
          rw [hsc] at hs; simp only at hs; subst hs
          cases r2 with
          | error f =>
            simp only
            unfold shallowCheck at hsc
            split at hsc
            · cases hsc
            · injection hsc with e1 _; injection e1 with e1; subst e1
              exact invGood_digErr _ _ (digRoot_missing _)
          | ok u =>
            simp only
            cases hck : invokeCheck w2 s with
            | error v =>
              simp only
              unfold invokeCheck at hck
              split at hck
              · cases hck
              · split at hck
                · cases hck
                · injection hck with e; subst e
                  exact invGood_digErr _ _ (digRoot_invalid (digRoot_cycle _ _))
                · injection hck with e; subst e; trivial
            | ok w3 =>
              simp only
              have hl3 : w3.log = [] := by rw [invokeCheck_log w2 w3 s hck, ← hg.2.2.2.1]; exact hlog
              exact invokeRun_root ctx fn params s info w3 hl3

theorem step_invGood (ctx : Ctx) (fns : List Fn) (st : St) (i : Nat) (op : Op) :
    InvGood ctx (Dig.step ctx fns st i op).2.ev (Dig.step ctx fns st i op).2.v := by
  have hok : InvGood ctx [] .ok := by intro e he; cases he
  cases op with
  | scope parent => simp only [Dig.step]; split <;> first | exact hok | trivial
  | provide s f o =>
    simp only [Dig.step]
    split
    · split
      · simp only [RegRes.toOpRes]
        cases hv : (apiProvide ctx _ { st with log := [] } i s o).2.v with
        | err e => exact invGood_digErr _ _ (apiProvide_digErr ctx _ _ i s o e hv)
        | ok => exact hok
        | panicUser f x => exact absurd hv (apiProvide_no_panicUser ctx _ _ i s o f x)
        | badop => trivial
        | panicDig => trivial
        | fuel => trivial
      · trivial
    · trivial
  | decorate s f cb info =>
    simp only [Dig.step]
    split
    · split
      · simp only [RegRes.toOpRes]
        cases hv : (apiDecorate ctx _ { st with log := [] } i s cb info).2.v with
        | err e => exact invGood_digErr _ _ (apiDecorate_digErr ctx _ _ i s cb info e hv)
        | ok => exact hok
        | panicUser f x => exact absurd hv (apiDecorate_no_panicUser ctx _ _ i s cb info f x)
        | badop => trivial
        | panicDig => trivial
        | fuel => trivial
      · trivial
    · trivial
  | invoke s f info =>
    simp only [Dig.step]
    split
    · split
      · exact apiInvoke_invGood ctx _ _ s info rfl
      · trivial
    · trivial
  | visualize s e => cases e <;> (simp only [Dig.step]; split <;> first | exact hok | trivial)
  | string s => simp only [Dig.step]; split <;> first | exact hok | trivial

end Dig

namespace Dig

/-- **error transparency for every operation of every program** -/
theorem program_invGood (p : Program) : ∀ r ∈ (runProgram p).2, InvGood p.ctx r.ev r.v :=
  runOps_all p.ctx p.fns (fun r => InvGood p.ctx r.ev r.v) (fun st i op => step_invGood p.ctx p.fns st i op)
    p.ops 0 {} [] (by intro r hr; cases hr)

end Dig

namespace Dig

/-- when no user function is scripted to fail, an operation fails only with an error of dig's own, no execution among
    its events failed, and nothing panics through -/
theorem program_allOk (p : Program) (hok : AllOk p.ctx) : ∀ r ∈ (runProgram p).2,
    (∀ e, r.v = .err e → DigRoot e ∧ Clean r.ev) ∧ (∀ f x, r.v ≠ .panicUser f x) := by
  intro r hr
  have hg := program_invGood p r hr
  constructor
  · intro e he
    rw [he] at hg
    rcases hg with hc | ⟨who, f, x, hh⟩
    · exact ⟨hc.2, hc.1⟩
    · rcases hh with ⟨_, hb, _⟩ | ⟨_, _, hb, _⟩
      · rw [hok f x] at hb; cases hb
      · rw [hok f x] at hb; cases hb
  · intro f x he
    rw [he] at hg
    obtain ⟨_, hb, _⟩ := hg
    rw [hok f x] at hb; cases hb

/-- ... and the resolution stage of an Invoke then fails only for a missing type or a cycle -/
theorem invokeRun_allOk (ctx : Ctx) (hok : AllOk ctx) (fn : Fn) (params : List Param) (s : Nat) (info : Bool) (w : St) (e : DErr)
    (h : (invokeRun ctx fn params s info w).2.v = .err e) : EngRoot e := by
  rcases invokeRun_engRoot ctx fn params s info w e h with h1 | ⟨f, x, h2⟩
  · exact h1
  · rcases h2 with ⟨_, hb⟩ | ⟨_, hb⟩
    · rw [hok f x] at hb; cases hb
    · rw [hok f x] at hb; cases hb

end Dig
