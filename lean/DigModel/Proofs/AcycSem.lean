import DigModel.Proofs.GraphMeaningConv
/-
  "The check answers acyclic" ⇔ "there is no closed chain of dependencies among the nodes of the holder".
-/
namespace Dig

/-- no closed chain of dependencies among nodes of `s`'s holder -/
def NoCycle (st : St) (s : Nat) : Prop :=
  ¬ ∃ (a : GNode) (l : List GNode) (_ : l ≠ []), (∀ x ∈ a :: l, x ∈ (st.scope s).gh) ∧ NodeChain st s (a :: l) ∧
      (a :: l).getLast (by simp) = a

/-- a walk in the holder graph whose last position is a holder position is the image of a chain of holder nodes -/
theorem walk_chain {st : St} (hg : GM0 st) (hp : PG st) (s : Nat) (hs : s < st.scopes.length) : ∀ (p : List Nat),
    Dfs.IsWalk (edgesFrom st s) p → (∀ u, p.getLast? = some u → ∃ x, (st.scope s).gh[u]? = some x) →
    ∃ nodes : List GNode, nodes.length = p.length ∧ (∀ (j u : Nat), p[j]? = some u → (st.scope s).gh[u]? = nodes[j]?) ∧
      NodeChain st s nodes ∧ (∀ x ∈ nodes, x ∈ (st.scope s).gh) := by
  intro p
  induction p with
  | nil => intro _ _; exact ⟨[], rfl, fun j u h => by simp at h, trivial, fun x hx => by cases hx⟩
  | cons a rest ih =>
    intro hw hlast
    cases rest with
    | nil =>
      obtain ⟨x, hx⟩ := hlast a rfl
      refine ⟨[x], rfl, ?_, trivial, ?_⟩
      · intro j u hj
        cases j with
        | zero => simp at hj; subst hj; simp [hx]
        | succ j => simp at hj
      · intro y hy; simp at hy; subst hy; exact List.mem_of_getElem? hx
    | cons b rest' =>
      obtain ⟨hab, hw'⟩ := hw
      obtain ⟨nodes, hlen, hmap, hchain, hin⟩ := ih hw' (fun u hu => hlast u (by simpa using hu))
      -- the head of the tail is b's node
      have hb := hmap 0 b rfl
      cases hga : (st.scope s).gh[a]? with
      | none => unfold edgesFrom at hab; rw [hga] at hab; simp at hab
      | some x =>
        obtain ⟨y, hy, hd⟩ := edge_is_dependency hg hp s hs a b x hga hab
        cases nodes with
        | nil => simp at hlen
        | cons y' nodes' =>
          have hyy : y' = y := by
            rw [hy] at hb; simp at hb; exact hb.symm
          subst hyy
          refine ⟨x :: y' :: nodes', by simp at hlen ⊢; exact hlen, ?_, ⟨hd, hchain⟩, ?_⟩
          · intro j u hj
            cases j with
            | zero => simp at hj; subst hj; simp [hga]
            | succ j => simp only [List.getElem?_cons_succ] at hj ⊢; exact hmap j u hj
          · intro z hz
            rcases List.mem_cons.mp hz with rfl | hz
            · exact List.mem_of_getElem? hga
            · exact hin z hz

/-- **the check answers "acyclic" exactly when no closed chain of dependencies exists among the holder's nodes** -/
theorem acyclic_iff_noCycle {st : St} (hg : GM0 st) (hp : PG st) (ho : OB st) (s : Nat) (hs : s < st.scopes.length) :
    checkAcyclic st s = .acyclic ↔ NoCycle st s := by
  constructor
  · intro hac ⟨a, l, hl, hin, hc, hclosed⟩
    obtain ⟨path, hpth⟩ := node_cycle_is_found hg ho s a l hl hin hc hclosed
    rw [hpth] at hac; cases hac
  · intro hno
    have ht := checkAcyclic_total ho s
    cases hc : checkAcyclic st s with
    | acyclic => rfl
    | outOfRange => exact absurd hc ht.1
    | fuel => exact absurd hc ht.2
    | cycle path =>
      exfalso
      have hcw := Dfs.isAcyclic_cycle (edgesFrom st s) (st.scope s).gh.length path (checkAcyclic_cycle st s path hc)
      obtain ⟨hwalk, hlen2, hhl⟩ := hcw
      -- the last position equals the first, which has a successor, hence is a holder position
      have hlastvalid : ∀ u, path.getLast? = some u → ∃ x, (st.scope s).gh[u]? = some x := by
        intro u hu
        rw [← hhl] at hu
        cases path with
        | nil => simp at hlen2
        | cons a rest =>
          cases rest with
          | nil => simp at hlen2
          | cons b rest' =>
            simp at hu; subst hu
            cases hga : (st.scope s).gh[a]? with
            | none => have := hwalk.1; unfold edgesFrom at this; rw [hga] at this; simp at this
            | some x => exact ⟨x, rfl⟩
      obtain ⟨nodes, hnl, hmap, hchain, hin⟩ := walk_chain hg hp s hs path hwalk hlastvalid
      cases nodes with
      | nil => rw [← hnl] at hlen2; simp at hlen2
      | cons a l =>
        have hl : l ≠ [] := by
          intro e; subst e; rw [← hnl] at hlen2; simp at hlen2
        apply hno
        refine ⟨a, l, hl, hin, hchain, ?_⟩
        -- first and last node coincide because first and last position do
        cases path with
        | nil => simp at hnl
        | cons u0 prest =>
          have hfirst := hmap 0 u0 rfl
          have hne : (u0 :: prest) ≠ [] := by simp
          have hlastpos : (u0 :: prest).getLast hne = u0 := by
            have : (u0 :: prest).getLast? = some ((u0 :: prest).getLast hne) := List.getLast?_eq_some_getLast hne
            rw [← hhl] at this; simp at this; exact this.symm
          have hidx : (u0 :: prest)[(u0 :: prest).length - 1]? = some u0 := by
            have h1 : (u0 :: prest)[(u0 :: prest).length - 1]? = some ((u0 :: prest).getLast hne) := by
              simp [List.getLast_eq_getElem]
            rw [h1, hlastpos]
          have hlastnode := hmap _ u0 hidx
          rw [hfirst] at hlastnode
          simp only [List.getElem?_cons_zero] at hlastnode
          have hnl' : (a :: l).length - 1 = (u0 :: prest).length - 1 := by rw [hnl]
          rw [← hnl'] at hlastnode
          have : (a :: l)[(a :: l).length - 1]? = some ((a :: l).getLast (by simp)) := by
            simp [List.getLast_eq_getElem]
          rw [this] at hlastnode
          injection hlastnode with e
          exact e.symm

end Dig
