import DigModel.Proofs.NoBug
import DigModel.Proofs.InvokeShape
/-
  The facts the resolver relies on (`RegWF`, `HomeOK`, `Cached`) hold in every reachable container.
-/
namespace Dig

/-- static description of a constructor node -/
def CtorDesc2 (a b : CtorNode) : Prop := a.fn = b.fn ∧ a.results = b.results ∧ a.s = b.s ∧ a.params = b.params ∧ a.called = b.called

theorem ghStep_ctorDesc2 (node : GNode) (w : St) (sc : Nat) : (ghStep node w sc).ctors.length = w.ctors.length ∧
    ∀ j, CtorDesc2 ((ghStep node w sc).ctor j) (w.ctor j) := by
  unfold ghStep
  cases node with
  | ctor n =>
    simp only
    refine ⟨by simp [St.modCtor, St.modScope], fun j => ?_⟩
    rw [ctor_modCtor]
    split <;> exact ⟨rfl, rfl, rfl, rfl, rfl⟩
  | pg i => exact ⟨rfl, fun j => ⟨rfl, rfl, rfl, rfl, rfl⟩⟩

theorem newGraphNode_ctorDesc2 (w : St) (s : Nat) (node : GNode) : (w.newGraphNode s node).ctors.length = w.ctors.length ∧
    ∀ j, CtorDesc2 ((w.newGraphNode s node).ctor j) (w.ctor j) := by
  rw [newGraphNode_eq]
  generalize w.subscopes s = l
  induction l generalizing w with
  | nil => exact ⟨rfl, fun j => ⟨rfl, rfl, rfl, rfl, rfl⟩⟩
  | cons x xs ih =>
    simp only [List.foldl_cons]
    obtain ⟨i1, i2⟩ := ih (ghStep node w x)
    obtain ⟨g1, g2⟩ := ghStep_ctorDesc2 node w x
    exact ⟨i1.trans g1, fun j => ⟨(i2 j).1.trans (g2 j).1, (i2 j).2.1.trans (g2 j).2.1, (i2 j).2.2.1.trans (g2 j).2.2.1,
      (i2 j).2.2.2.1.trans (g2 j).2.2.2.1, (i2 j).2.2.2.2.trans (g2 j).2.2.2.2⟩⟩

/-- the accepted outcome of a Provide (and the model's "dig panics" answers): what was added -/
structure Added2 (st st' : St) (target : Nat) (results : List RSlot) (keys : List Key) (fn0 : Fn) : Prop where
  chk : ∃ X : ScopeSt, X.providers = (st.scope target).providers ∧ visitKeys X (slotResults results) [] = .ok keys
  len : st'.ctors.length = st.ctors.length + 1
  node : (st'.ctor st.ctors.length).results = results ∧ (st'.ctor st.ctors.length).s = target
  keep : CtorsKeep st st'
  others : ∀ j, j ≠ target → (st'.scope j).providers = (st.scope j).providers
  prov : target < st.scopes.length → (st'.scope target).providers =
    keys.foldl (fun m k => aset m k (agetL m k ++ [st.ctors.length])) (st.scope target).providers
  scopesLen : st'.scopes.length = st.scopes.length
  pre : ∀ n, n < st.ctors.length → st'.ctor n = st.ctor n
  decos : st'.decos = st.decos
  fresh : (st'.ctor st.ctors.length).called = false
  wfp : ParamsWF (st'.ctor st.ctors.length).params
  wfr : SlotsWF results
  /-- the new node carries the provided function -/
  newfn : (st'.ctor st.ctors.length).fn = fn0

theorem apiProvide_reg2 (ctx : Ctx) (fn : Fn) (st : St) (i s : Nat) (o : ProvideOpts) :
    EqButVerified st (apiProvide ctx fn st i s o).1 ∨
    ∃ results keys, Added2 st (apiProvide ctx fn st i s o).1 (if o.export_ then St.root else s) results keys fn := by
  have hrefl : EqButVerified st st :=
    ⟨rfl, rfl, rfl, rfl, rfl, rfl, rfl, rfl, fun _ => ⟨rfl, rfl, rfl, rfl, rfl, rfl, rfl, rfl, rfl, rfl⟩⟩
  unfold apiProvide
  cases fn.nonfunc with
  | some _ => exact Or.inl hrefl
  | none =>
    simp only
    cases validateOpts ctx.env o with
    | error e' => exact Or.inl hrefl
    | ok as =>
      simp only
      generalize (if o.export_ then St.root else s) = target
      have hw1 := work_parseParams (Work.refl st target) ctx.env fn
      have hg1 := ghOnly_parseParams ctx.env st target fn
      cases hpp : parseParams ctx.env st target fn with
      | mk r w1 =>
        rw [hpp] at hw1 hg1
        simp only at hw1 hg1
        cases r with
        | error e1 => exact Or.inl (rollback_restores hw1)
        | ok params =>
          simp only
          cases hnr : newResultList ctx.env { name := o.name, group := o.group, as := as } fn with
          | error e2 => exact Or.inl (rollback_restores hw1)
          | ok results =>
            simp only
            let node : CtorNode := { fn := fn, params := params, results := results, s := target, origS := s, cb := if o.cb then some i else none }
            have hlen1 : w1.ctors.length = st.ctors.length := by rw [hg1.1]
            have hw3 := work_newGraphNode (work_addCtor hw1 node) (.ctor w1.ctors.length)
              (by show st.ctors.length ≤ w1.ctors.length; exact hw1.ctorsLen)
            obtain ⟨hd1, hd2⟩ := newGraphNode_ctorDesc2 { w1 with ctors := w1.ctors ++ [node] } target (.ctor w1.ctors.length)
            have hp3 : ∀ j, ((St.newGraphNode { w1 with ctors := w1.ctors ++ [node] } target (.ctor w1.ctors.length)).scope j).providers =
                (st.scope j).providers := by
              intro j
              rw [← (newGraphNode_scopes _ target (.ctor w1.ctors.length) j).2.2.1]
              show (w1.scope j).providers = _
              exact ((hg1.2.2.2.2.2.2.2 j).2.2.1).symm
            have hnode3 : CtorDesc2 ((St.newGraphNode { w1 with ctors := w1.ctors ++ [node] } target (.ctor w1.ctors.length)).ctor st.ctors.length) node := by
              have := hd2 st.ctors.length
              have e : ({ w1 with ctors := w1.ctors ++ [node] } : St).ctor st.ctors.length = node := by
                show (w1.ctors ++ [node]).getD st.ctors.length default = node
                rw [← hlen1, getD_append_one]; simp
              rw [e] at this; exact this
            have hlen3 : (St.newGraphNode { w1 with ctors := w1.ctors ++ [node] } target (.ctor w1.ctors.length)).ctors.length = st.ctors.length + 1 := by
              rw [hd1]; simp [hlen1]
            generalize (St.newGraphNode { w1 with ctors := w1.ctors ++ [node] } target (.ctor w1.ctors.length)) = w3 at hw3 hp3 hnode3 hlen3
            cases hvk : visitKeys (w3.scope target) (slotResults results) [] with
            | error e3 => exact Or.inl (rollback_restores hw3)
            | ok keys =>
              cases keys with
              | nil => exact Or.inl (rollback_restores hw3)
              | cons k0 ks =>
                simp only
                -- the state after the provider update
                have hsame : (w3.modScope target fun x =>
                    { x with providers := (k0 :: ks).foldl (fun m k => aset m k (agetL m k ++ [w1.ctors.length])) x.providers }) =
                    (w3.modScope target fun x =>
                    { x with providers := (k0 :: ks).foldl (fun m k => aset m k (agetL m k ++ [w1.ctors.length])) (w3.scope target).providers }) := by
                  unfold St.modScope
                  congr 1
                  apply List.ext_getElem?
                  intro j
                  simp only [List.getElem?_modify]
                  by_cases hj : target = j
                  · subst hj
                    cases hg : w3.scopes[target]? with
                    | none => rfl
                    | some x =>
                      have : w3.scope target = x := by
                        unfold St.scope; rw [List.getD_eq_getElem?_getD, hg]; rfl
                      simp [this]
                  · simp [hj]
                rw [hsame]
                have hw4 := work_modScope_providers hw3
                  ((k0 :: ks).foldl (fun m k => aset m k (agetL m k ++ [w1.ctors.length])) (w3.scope target).providers)
                have hp4 : ∀ j, ((w3.modScope target fun x =>
                    { x with providers := (k0 :: ks).foldl (fun m k => aset m k (agetL m k ++ [w1.ctors.length])) (w3.scope target).providers }).scope j).providers =
                    if target = j ∧ j < w3.scopes.length then
                      (k0 :: ks).foldl (fun m k => aset m k (agetL m k ++ [st.ctors.length])) (st.scope target).providers
                    else (st.scope j).providers := by
                  intro j
                  rw [scope_modScope]
                  split
                  · simp only [hp3 target, hlen1]
                  · exact hp3 j
                have hgs := graphSame_verifyScopes ctx.cfg (st.subscopes target) (w3.modScope target fun x =>
                    { x with providers := (k0 :: ks).foldl (fun m k => aset m k (agetL m k ++ [w1.ctors.length])) (w3.scope target).providers })
                have hw5 := work_verifyScopes (target := target) ctx.cfg (st.subscopes target) _ hw4
                have hlen3s : w3.scopes.length = st.scopes.length := hw3.len
                cases hvs : verifyScopes ctx.cfg (st.subscopes target) (w3.modScope target fun x =>
                    { x with providers := (k0 :: ks).foldl (fun m k => aset m k (agetL m k ++ [w1.ctors.length])) (w3.scope target).providers }) with
                | mk r5 w5 =>
                  rw [hvs] at hgs hw5
                  simp only at hgs hw5
                  have hc5 : w5.ctors = w3.ctors := hgs.1.symm
                  have hp5 : ∀ j, (w5.scope j).providers =
                      if target = j ∧ j < w3.scopes.length then
                        (k0 :: ks).foldl (fun m k => aset m k (agetL m k ++ [st.ctors.length])) (st.scope target).providers
                      else (st.scope j).providers := by
                    intro j; rw [← (hgs.2.2.2 j).2.1]; exact hp4 j
                  have hadded : ∀ w6 : St, w6.ctors = w5.ctors → w6.scopes.length = w5.scopes.length →
                      (∀ j, (w6.scope j).providers = (w5.scope j).providers) → w6.decos = st.decos →
                      Added2 st w6 target results (k0 :: ks) fn := by
                    intro w6 h61 h62 h63 h64
                    have hctor6 : w6.ctor st.ctors.length = w3.ctor st.ctors.length := by simp [St.ctor, h61, hc5]
                    refine ⟨⟨w3.scope target, hp3 target, hvk⟩, by rw [h61, hc5]; exact hlen3, ?_, ?_, ?_, ?_, by rw [h62, hw5.len],
                      ?_, h64, by rw [hctor6, hnode3.2.2.2.2], by rw [hctor6, hnode3.2.2.2.1]; exact parseParams_wf ctx.env st target fn params w1 hpp,
                      newResultList_wf ctx.env _ fn results hnr, by rw [hctor6, hnode3.1]⟩
                    · have : w6.ctor st.ctors.length = w3.ctor st.ctors.length := by simp [St.ctor, h61, hc5]
                      rw [this]; exact ⟨hnode3.2.1, hnode3.2.2.1⟩
                    · have hk5 := ctorsKeep_work hw5
                      intro n hn
                      have : w6.ctor n = w5.ctor n := by simp [St.ctor, h61]
                      obtain ⟨a1, a2, a3, a4, a5⟩ := hk5 n hn
                      exact ⟨by rw [h61]; exact a1, by rw [this]; exact a2, by rw [this]; exact a3, by rw [this]; exact a4,
                        fun hc => by rw [this]; exact a5 hc⟩
                    · intro j hj
                      rw [h63, hp5]
                      have : ¬ (target = j ∧ j < w3.scopes.length) := fun hc => hj hc.1.symm
                      rw [if_neg this]
                    · intro ht
                      rw [h63, hp5, if_pos ⟨rfl, by rw [hlen3s]; exact ht⟩]
                    · intro n hn
                      have : w6.ctor n = w5.ctor n := by simp [St.ctor, h61]
                      rw [this]
                      exact ctor_of_take hw5.ctorsPre n hn
                  cases r5 with
                  | ok u =>
                    simp only
                    refine Or.inr ⟨results, k0 :: ks, hadded _ rfl (by simp [St.modScope]) ?_ hw5.decos⟩
                    intro j; rw [scope_modScope]; split <;> rfl
                  | error ec =>
                    obtain ⟨sc, cr⟩ := ec
                    cases cr with
                    | cycle p => exact Or.inl (rollback_restores hw5)
                    | acyclic => exact Or.inr ⟨results, k0 :: ks, hadded w5 rfl rfl (fun _ => rfl) hw5.decos⟩
                    | outOfRange => exact Or.inr ⟨results, k0 :: ks, hadded w5 rfl rfl (fun _ => rfl) hw5.decos⟩
                    | fuel => exact Or.inr ⟨results, k0 :: ks, hadded w5 rfl rfl (fun _ => rfl) hw5.decos⟩

end Dig

namespace Dig

/-- the accepted outcome of a Decorate: what was added -/
structure AddedDeco (env : TyEnv) (st st' : St) (s : Nat) (fn0 : Fn) : Prop where
  ctors : st'.ctors = st.ctors
  len : st'.decos.length = st.decos.length + 1
  pre : ∀ d, d < st.decos.length → st'.deco d = st.deco d
  node : (st'.deco st.decos.length).s = s ∧ (st'.deco st.decos.length).state = .ready ∧ ParamsWF (st'.deco st.decos.length).params
  keys : ∃ keys, resultKeys env (slotResults (st'.deco st.decos.length).results) = .ok keys ∧
    SlotsWF (st'.deco st.decos.length).results ∧
    (∀ j, (st'.scope j).decorators =
      if s = j ∧ j < st.scopes.length then keys.foldl (fun m k => aset m k st.decos.length) (st.scope j).decorators
      else (st.scope j).decorators)
  providers : ∀ j, (st'.scope j).providers = (st.scope j).providers
  scopesLen : st'.scopes.length = st.scopes.length
  /-- the new node carries the decorating function -/
  newfn : (st'.deco st.decos.length).fn = fn0

theorem apiDecorate_reg (ctx : Ctx) (fn : Fn) (st : St) (i s : Nat) (cb info : Bool) :
    (apiDecorate ctx fn st i s cb info).1 = st ∨ AddedDeco ctx.env st (apiDecorate ctx fn st i s cb info).1 s fn := by
  unfold apiDecorate
  cases hnf : fn.nonfunc with
  | some _ => exact Or.inl rfl
  | none =>
    simp only
    have hp := parse_rollback_eq ctx.env st s fn
    have hg := ghOnly_parseParams ctx.env st s fn
    cases hpp : parseParams ctx.env st s fn with
    | mk r w =>
      rw [hpp] at hp hg
      simp only at hp hg
      cases r with
      | error e => exact Or.inl hp
      | ok params =>
        simp only
        cases hr : newResultList ctx.env {} fn with
        | error e => exact Or.inl hp
        | ok results =>
          simp only
          cases hk : resultKeys ctx.env (slotResults results) with
          | error e => exact Or.inl hp
          | ok keys =>
            simp only
            by_cases hcond : (hasDup keys || keys.any fun k => (aget (w.scope s).decorators k).isSome) = true
            · rw [if_pos hcond]; exact Or.inl hp
            · rw [if_neg hcond]
              right
              have hlen : w.decos.length = st.decos.length := by rw [hg.2.1]
              have hscope : ∀ (d : List DecoNode) (j : Nat), ({ w with decos := d } : St).scope j = w.scope j := fun _ _ => rfl
              have hnode : ∀ (f : ScopeSt → ScopeSt), ((St.modScope { w with decos := w.decos ++
                  [({ fn := fn, params := params, results := results, s := s, cb := if cb then some i else none } : DecoNode)] } s f).deco st.decos.length) =
                  ({ fn := fn, params := params, results := results, s := s, cb := if cb then some i else none } : DecoNode) := by
                intro f
                show (w.decos ++ [_]).getD st.decos.length default = _
                rw [← hlen, getD_append_one]; simp
              refine ⟨hg.1.symm, by simp [St.modScope, hlen], ?_, ?_, ?_, ?_, by simp [St.modScope, hg.2.2.2.2.2.2.1], by rw [hnode]⟩
              · intro d hd
                show (w.decos ++ [_]).getD d default = st.decos.getD d default
                rw [getD_append_one, hlen, if_pos hd, hg.2.1]
              · rw [hnode]
                exact ⟨rfl, rfl, parseParams_wf ctx.env st s fn params w hpp⟩
              · refine ⟨keys, ?_, ?_, ?_⟩
                · rw [hnode]; exact hk
                · rw [hnode]; exact newResultList_wf ctx.env {} fn results hr
                · intro j
                  have hlen2 : w.scopes.length = st.scopes.length := hg.2.2.2.2.2.2.1.symm
                  have hdec : ∀ j, (w.scope j).decorators = (st.scope j).decorators := fun j => ((hg.2.2.2.2.2.2.2 j).2.2.2.1).symm
                  rw [scope_modScope]
                  by_cases hc : s = j ∧ j < w.scopes.length
                  · have hc2 : s = j ∧ j < st.scopes.length := ⟨hc.1, by rw [← hlen2]; exact hc.2⟩
                    rw [if_pos (show s = j ∧ j < ({ w with decos := w.decos ++ [({ fn := fn, params := params, results := results, s := s, cb := if cb then some i else none } : DecoNode)] } : St).scopes.length from hc)]
                    simp only [hscope, hdec, hlen, if_pos hc2]
                  · have hc2 : ¬ (s = j ∧ j < st.scopes.length) := by rw [← hlen2]; exact hc
                    rw [if_neg (show ¬ (s = j ∧ j < ({ w with decos := w.decos ++ [({ fn := fn, params := params, results := results, s := s, cb := if cb then some i else none } : DecoNode)] } : St).scopes.length) from hc)]
                    simp only [if_neg hc2]
                    exact hdec j
              · intro j
                rw [scope_modScope]
                simp only [hscope]
                by_cases hc : s = j ∧ j < w.scopes.length
                · rw [if_pos hc]; exact ((hg.2.2.2.2.2.2.2 j).2.2.1).symm
                · rw [if_neg hc]; exact ((hg.2.2.2.2.2.2.2 j).2.2.1).symm

end Dig

namespace Dig

theorem slotGroupLeaves_eq : ∀ (slots : List RSlot), slotGroupLeaves slots = groupLeavesL (slotResults slots)
  | [] => rfl
  | .err :: rest => by simp only [slotGroupLeaves, slotResults]; exact slotGroupLeaves_eq rest
  | .val r :: rest => by simp only [slotGroupLeaves, slotResults, groupLeavesL]; rw [slotGroupLeaves_eq rest]

theorem slotDecoLeaves_eq (env : TyEnv) : ∀ (slots : List RSlot), slotDecoLeaves env slots = decoLeavesL env (slotResults slots)
  | [] => rfl
  | .err :: rest => by simp only [slotDecoLeaves, slotResults]; exact slotDecoLeaves_eq env rest
  | .val r :: rest => by simp only [slotDecoLeaves, slotResults, decoLeavesL]; rw [slotDecoLeaves_eq env rest]

theorem slotsWF_names {slots : List RSlot} (h : SlotsWF slots) : ∀ g ∈ groupNamesL (slotResults slots), g ≠ "" := by
  apply groupNamesL_wf
  intro x hx
  rw [← slotGroupLeaves_eq] at hx
  exact h x hx

theorem foldl_append_key (keys : List Key) (n : Nat) : ∀ (m : List (Key × List Nat)) (k : Key),
    n ∈ agetL (keys.foldl (fun m k => aset m k (agetL m k ++ [n])) m) k → k ∈ keys ∨ n ∈ agetL m k := by
  induction keys with
  | nil => intro m k h; exact Or.inr h
  | cons k0 ks ih =>
    intro m k h
    simp only [List.foldl_cons] at h
    rcases ih _ k h with h1 | h1
    · left; simp [h1]
    · unfold agetL at h1
      rw [aget_aset] at h1
      split at h1
      · rename_i hk; left; simp [hk]
      · right; exact h1

theorem foldl_aset_key (keys : List Key) (d : Nat) : ∀ (m : List (Key × Nat)) (k : Key) (x : Nat),
    aget (keys.foldl (fun m k => aset m k d) m) k = some x → (k ∈ keys ∧ x = d) ∨ aget m k = some x := by
  induction keys with
  | nil => intro m k x h; exact Or.inr h
  | cons k0 ks ih =>
    intro m k x h
    simp only [List.foldl_cons] at h
    rcases ih _ k x h with ⟨h1, h2⟩ | h1
    · left; exact ⟨by simp [h1], h2⟩
    · rw [aget_aset] at h1
      split at h1
      · rename_i hk; injection h1 with e; left; exact ⟨by simp [hk], e.symm⟩
      · right; exact h1

/-- the plain keys a decorator registers are plain keys of its results -/
theorem resultKeys_plain (env : TyEnv) : ∀ (rs : List Result) (keys : List Key), resultKeys env rs = .ok keys →
    (∀ g ∈ groupNamesL rs, g ≠ "") → ∀ k ∈ keys, k.group = "" → ∃ slot decl, (false, k, slot, decl) ∈ decoLeavesL env rs := by
  apply resultKeys.induct env (fun rs => ∀ keys, resultKeys env rs = .ok keys →
    (∀ g ∈ groupNamesL rs, g ≠ "") → ∀ k ∈ keys, k.group = "" → ∃ slot decl, (false, k, slot, decl) ∈ decoLeavesL env rs)
  · intro keys h _ k hk
    simp only [resultKeys] at h; injection h with h; subst h; cases hk
  · intro slot decl ty name as rest ks hr ih keys h hn k hk hg
    simp only [resultKeys, hr] at h
    injection h with h; subst h
    rcases List.mem_cons.mp hk with rfl | hm
    · exact ⟨slot, decl, by simp [decoLeavesL, decoLeaves]⟩
    · obtain ⟨s', d', hmem⟩ := ih ks hr (fun g hgm => hn g (by simp only [groupNamesL, groupNames, List.nil_append]; exact hgm)) k hm hg
      exact ⟨s', d', by simp only [decoLeavesL, List.mem_append]; exact Or.inr hmem⟩
  · intro slot decl ty name as rest e hr _ keys h
    simp only [resultKeys, hr] at h; cases h
  · intro slot decl ty group as rest keys h
    simp only [resultKeys, if_true] at h; cases h
  · intro slot decl ty group flatten as rest hf hk2 keys h
    have hff : flatten = false := by simpa using hf
    simp only [resultKeys, hff, hk2, Bool.false_eq_true, if_false, if_true] at h; cases h
  · intro slot decl ty group flatten as rest hf hk2 ks hr ih keys h hn k hk hg
    have hff : flatten = false := by simpa using hf
    have hkk : (kindOfId env ty != Kind.slice) = false := by simpa using hk2
    simp only [resultKeys, hff, hkk, Bool.false_eq_true, if_false, hr] at h
    injection h with h; subst h
    rcases List.mem_cons.mp hk with rfl | hm
    · exfalso
      simp only at hg
      exact hn group (by simp [groupNamesL, groupNames]) hg
    · obtain ⟨s', d', hmem⟩ := ih ks hr (fun g hgm => hn g (by simp only [groupNamesL, List.mem_append]; exact Or.inr hgm)) k hm hg
      exact ⟨s', d', by simp only [decoLeavesL, List.mem_append]; exact Or.inr hmem⟩
  · intro slot decl ty group flatten as rest hf hk2 e hr _ keys h
    have hff : flatten = false := by simpa using hf
    have hkk : (kindOfId env ty != Kind.slice) = false := by simpa using hk2
    simp only [resultKeys, hff, hkk, Bool.false_eq_true, if_false, hr] at h; cases h
  · intro ty fs rest e he _ keys h
    simp only [resultKeys, he] at h; cases h
  · intro ty fs rest ks1 h1 ks2 h2 ih1 ih2 keys h hn k hk hg
    simp only [resultKeys, h1, h2] at h
    injection h with h; subst h
    rcases List.mem_append.mp hk with hm | hm
    · obtain ⟨s', d', hmem⟩ := ih1 ks1 h1 (fun g hgm => hn g (by simp only [groupNamesL, groupNames, List.mem_append]; exact Or.inl hgm)) k hm hg
      exact ⟨s', d', by simp only [decoLeavesL, decoLeaves, List.mem_append]; exact Or.inl hmem⟩
    · obtain ⟨s', d', hmem⟩ := ih2 ks2 h2 (fun g hgm => hn g (by simp only [groupNamesL, List.mem_append]; exact Or.inr hgm)) k hm hg
      exact ⟨s', d', by simp only [decoLeavesL, List.mem_append]; exact Or.inr hmem⟩
  · intro ty fs rest ks1 h1 e he _ _ keys h
    simp only [resultKeys, h1, he] at h; cases h

end Dig

namespace Dig

theorem apiProvide_decorators (ctx : Ctx) (fn : Fn) (st : St) (i s : Nat) (o : ProvideOpts) :
    ∀ j, ((apiProvide ctx fn st i s o).1.scope j).decorators = (st.scope j).decorators := by
  intro j
  rcases apiProvide_work ctx fn st i s o with he | ⟨target, w, hw, hr | ⟨n, hr⟩⟩
  · exact ((he.2.2.2.2.2.2.2.2 j).2.2.2.1).symm
  · rw [hr]; exact (hw.scope j).2.2.1
  · rw [hr, scope_modScope]
    split
    · exact (hw.scope j).2.2.1
    · exact (hw.scope j).2.2.1

/-! ### `RegWF`, `HomeOK`, `Cached` through the API -/

theorem RegWF.provide {st : St} (ctx : Ctx) (h : RegWF ctx.env st) (hr : RegInv st) (fn : Fn) (i s : Nat) (o : ProvideOpts)
    (hs : s < st.scopes.length) : RegWF ctx.env (apiProvide ctx fn st i s o).1 := by
  have hdeco := apiProvide_decorators ctx fn st i s o
  rcases apiProvide_reg2 ctx fn st i s o with he | ⟨results, keys, ha⟩
  · -- rejected: everything that matters is as before
    have hc : ∀ n, (apiProvide ctx fn st i s o).1.ctor n = st.ctor n := fun n => by simp [St.ctor, he.1]
    have hd : ∀ d, (apiProvide ctx fn st i s o).1.deco d = st.deco d := fun d => by simp [St.deco, he.2.1]
    refine ⟨fun n hn => by rw [hc]; exact h.ctorParams n (by rw [he.1]; exact hn),
      fun d hdd => by rw [hd]; exact h.decoParams d (by rw [he.2.1]; exact hdd), ?_, ?_⟩
    · intro S k n hn hk
      rw [← (he.2.2.2.2.2.2.2.2 S).2.2.1] at hn
      obtain ⟨a1, a2⟩ := h.provPlain S k n hn hk
      exact ⟨by rw [hc]; exact a1, by unfold ctorKeys at a2 ⊢; rw [hc]; exact a2⟩
    · intro s' k d hdd hk
      rw [hdeco] at hdd
      obtain ⟨a1, a2, a3⟩ := h.decoPlain s' k d hdd hk
      exact ⟨by rw [← he.2.1]; exact a1, by rw [hd]; exact a2, by rw [hd]; exact a3⟩
  · have ht : (if o.export_ then St.root else s) < st.scopes.length := by
      split
      · exact hr.nonempty
      · exact hs
    generalize (if o.export_ then St.root else s) = target at ha ht
    have hd : ∀ d, (apiProvide ctx fn st i s o).1.deco d = st.deco d := fun d => by simp [St.deco, ha.decos]
    obtain ⟨X, hX, hvk⟩ := ha.chk
    have hnew : ctorKeys (apiProvide ctx fn st i s o).1 st.ctors.length = singleKeysL (slotResults results) := by
      unfold ctorKeys singleKeysL
      rw [ha.node.1, slotLeaves_eq]
    refine ⟨?_, fun d hdd => by rw [hd]; exact h.decoParams d (by rw [← ha.decos]; exact hdd), ?_, ?_⟩
    · intro n hn
      rw [ha.len] at hn
      by_cases hlt : n < st.ctors.length
      · rw [ha.pre n hlt]; exact h.ctorParams n hlt
      · have : n = st.ctors.length := by omega
        subst this; exact ha.wfp
    · intro S k n hn hk
      have hold : n ∈ agetL (st.scope S).providers k → ((apiProvide ctx fn st i s o).1.ctor n).s = S ∧
          k ∈ ctorKeys (apiProvide ctx fn st i s o).1 n := by
        intro h0
        have hb := hr.bound S k n h0
        obtain ⟨a1, a2⟩ := h.provPlain S k n h0 hk
        exact ⟨by rw [ha.pre n hb]; exact a1, by unfold ctorKeys at a2 ⊢; rw [ha.pre n hb]; exact a2⟩
      by_cases hS : S = target
      · subst hS
        rw [ha.prov ht] at hn
        by_cases hnew' : n = st.ctors.length
        · subst hnew'
          rcases foldl_append_key _ _ _ k hn with h1 | h1
          · rcases visitKeys_sub X _ _ _ hvk k h1 with h2 | h2 | h2
            · cases h2
            · exact ⟨ha.node.2, by rw [hnew]; exact h2⟩
            · exact absurd hk (slotsWF_names ha.wfr _ h2)
          · exact absurd (hr.bound _ k _ h1) (Nat.lt_irrefl _)
        · rcases foldl_aset_append_mem _ _ _ k n hn with h1 | h1
          · exact absurd h1 hnew'
          · exact hold h1
      · rw [ha.others S hS] at hn
        exact hold hn
    · intro s' k d hdd hk
      rw [hdeco] at hdd
      obtain ⟨a1, a2, a3⟩ := h.decoPlain s' k d hdd hk
      exact ⟨by rw [ha.decos]; exact a1, by rw [hd]; exact a2, by rw [hd]; exact a3⟩

theorem RegWF.decorate {st : St} (ctx : Ctx) (h : RegWF ctx.env st) (fn : Fn) (i s : Nat) (cb info : Bool) :
    RegWF ctx.env (apiDecorate ctx fn st i s cb info).1 := by
  rcases apiDecorate_reg ctx fn st i s cb info with he | ha
  · rw [he]; exact h
  · have hc : ∀ n, (apiDecorate ctx fn st i s cb info).1.ctor n = st.ctor n := fun n => by simp [St.ctor, ha.ctors]
    obtain ⟨keys, hk, hwf, hdec⟩ := ha.keys
    refine ⟨fun n hn => by rw [hc]; exact h.ctorParams n (by rw [← ha.ctors]; exact hn), ?_, ?_, ?_⟩
    · intro d hd
      rw [ha.len] at hd
      by_cases hlt : d < st.decos.length
      · rw [ha.pre d hlt]; exact h.decoParams d hlt
      · have : d = st.decos.length := by omega
        subst this; exact ha.node.2.2
    · intro S k n hn hkk
      rw [ha.providers] at hn
      obtain ⟨a1, a2⟩ := h.provPlain S k n hn hkk
      exact ⟨by rw [hc]; exact a1, by unfold ctorKeys at a2 ⊢; rw [hc]; exact a2⟩
    · intro s' k d hdd hkk
      rw [hdec] at hdd
      have hold : aget (st.scope s').decorators k = some d → d < (apiDecorate ctx fn st i s cb info).1.decos.length ∧
          ((apiDecorate ctx fn st i s cb info).1.deco d).s = s' ∧
          ∃ slot decl, (false, k, slot, decl) ∈ slotDecoLeaves ctx.env ((apiDecorate ctx fn st i s cb info).1.deco d).results := by
        intro h0
        obtain ⟨a1, a2, a3⟩ := h.decoPlain s' k d h0 hkk
        exact ⟨by rw [ha.len]; omega, by rw [ha.pre d a1]; exact a2, by rw [ha.pre d a1]; exact a3⟩
      split at hdd
      · rename_i hc2
        rcases foldl_aset_key _ _ _ k d hdd with ⟨h1, h2⟩ | h1
        · subst h2
          obtain ⟨slot, decl, hm⟩ := resultKeys_plain ctx.env _ keys hk (slotsWF_names hwf) k h1 hkk
          exact ⟨by rw [ha.len]; omega, by rw [ha.node.1]; exact hc2.1, slot, decl, by rw [slotDecoLeaves_eq]; exact hm⟩
        · exact hold h1
      · exact hold hdd

end Dig

namespace Dig

/-- what was built in `b` was built in `a`, with the same description; the two caches read by `Cached` are the same -/
theorem Cached.transfer {env : TyEnv} {a b : St} (h : Cached env a)
    (hc : ∀ n, n < b.ctors.length → (b.ctor n).called = true →
      n < a.ctors.length ∧ (a.ctor n).called = true ∧ (b.ctor n).results = (a.ctor n).results ∧ (b.ctor n).s = (a.ctor n).s)
    (hd : ∀ d, d < b.decos.length → (b.deco d).state = .called →
      d < a.decos.length ∧ (a.deco d).state = .called ∧ (b.deco d).results = (a.deco d).results ∧ (b.deco d).s = (a.deco d).s)
    (hs : ∀ j, (b.scope j).values = (a.scope j).values ∧ (b.scope j).decoratedValues = (a.scope j).decoratedValues) :
    Cached env b where
  ctor n hn hcl k hk := by
    obtain ⟨a1, a2, a3, a4⟩ := hc n hn hcl
    unfold ctorKeys at hk
    rw [a3] at hk
    rw [a4, (hs _).1]
    exact h.ctor n a1 a2 k hk
  deco d hdl hst k slot decl hm := by
    obtain ⟨a1, a2, a3, a4⟩ := hd d hdl hst
    rw [a3] at hm
    rw [a4, (hs _).2]
    exact h.deco d a1 a2 k slot decl hm

theorem Cached.same {env : TyEnv} {a b : St} (h : Cached env a) (hc : b.ctors = a.ctors) (hd : b.decos = a.decos)
    (hs : ∀ j, (b.scope j).values = (a.scope j).values ∧ (b.scope j).decoratedValues = (a.scope j).decoratedValues) :
    Cached env b :=
  h.transfer (fun n hn hcl => by
      have : b.ctor n = a.ctor n := by simp [St.ctor, hc]
      rw [this] at hcl ⊢; exact ⟨by rw [← hc]; exact hn, hcl, rfl, rfl⟩)
    (fun d hdl hst => by
      have : b.deco d = a.deco d := by simp [St.deco, hd]
      rw [this] at hst ⊢; exact ⟨by rw [← hd]; exact hdl, hst, rfl, rfl⟩) hs

theorem HomeOK.same {a b : St} (h : HomeOK a) (hc : b.ctors = a.ctors) (hd : b.decos = a.decos)
    (hl : a.scopes.length ≤ b.scopes.length) : HomeOK b where
  ctor n hn := by
    have : b.ctor n = a.ctor n := by simp [St.ctor, hc]
    rw [this]; exact Nat.lt_of_lt_of_le (h.ctor n (by rw [← hc]; exact hn)) hl
  deco d hdl := by
    have : b.deco d = a.deco d := by simp [St.deco, hd]
    rw [this]; exact Nat.lt_of_lt_of_le (h.deco d (by rw [← hd]; exact hdl)) hl

theorem HomeOK.init : HomeOK ({} : St) := ⟨fun n hn => by simp at hn, fun d hd => by simp at hd⟩

theorem RegWF.init (env : TyEnv) : RegWF env ({} : St) where
  ctorParams n hn := by simp at hn
  decoParams d hd := by simp at hd
  provPlain S k n hn := by cases S <;> simp [St.scope, agetL, aget] at hn
  decoPlain s k d hd := by cases s <;> simp [St.scope, aget] at hd

/-- the static and dynamic facts the resolver relies on -/
structure NBInv (env : TyEnv) (st : St) : Prop where
  h : HInv st
  reg : RegInv st
  wf : RegWF env st
  home : HomeOK st
  cached : Cached env st

theorem NBInv.init (env : TyEnv) : NBInv env ({} : St) :=
  ⟨HInv.init, RegInv.init, RegWF.init env, HomeOK.init, Cached.init env⟩

theorem NBInv.ei {env : TyEnv} {st : St} (h : NBInv env st) : EI env st.ctors.length st.decos.length st :=
  ⟨⟨h.h.valid, rfl, rfl⟩, h.home, h.wf, h.cached⟩

theorem NBInv.provide {st : St} (ctx : Ctx) (h : NBInv ctx.env st) (fn : Fn) (i s : Nat) (o : ProvideOpts)
    (hs : s < st.scopes.length) : NBInv ctx.env (apiProvide ctx fn st i s o).1 := by
  refine ⟨h.h.provide ctx fn i s o, h.reg.provide ctx fn i s o hs, h.wf.provide ctx h.reg fn i s o hs, ?_, ?_⟩
  · rcases apiProvide_reg2 ctx fn st i s o with he | ⟨results, keys, ha⟩
    · exact h.home.same he.1.symm he.2.1.symm (by rw [he.2.2.2.2.2.2.2.1]; exact Nat.le_refl _)
    · have ht : (if o.export_ then St.root else s) < st.scopes.length := by
        split
        · exact h.reg.nonempty
        · exact hs
      refine ⟨?_, ?_⟩
      · intro n hn
        rw [ha.len] at hn
        rw [ha.scopesLen]
        by_cases hlt : n < st.ctors.length
        · rw [ha.pre n hlt]; exact h.home.ctor n hlt
        · have : n = st.ctors.length := by omega
          subst this; rw [ha.node.2]; exact ht
      · intro d hd
        have : (apiProvide ctx fn st i s o).1.deco d = st.deco d := by simp [St.deco, ha.decos]
        rw [this, ha.scopesLen]
        exact h.home.deco d (by rw [← ha.decos]; exact hd)
  · have hcs := cacheSame_apiProvide ctx fn st i s o
    have hsv : ∀ j, ((apiProvide ctx fn st i s o).1.scope j).values = (st.scope j).values ∧
        ((apiProvide ctx fn st i s o).1.scope j).decoratedValues = (st.scope j).decoratedValues :=
      fun j => ⟨(hcs.2.2 j).1, (hcs.2.2 j).2.1⟩
    rcases apiProvide_reg2 ctx fn st i s o with he | ⟨results, keys, ha⟩
    · exact h.cached.same he.1.symm he.2.1.symm hsv
    · refine h.cached.transfer ?_ ?_ hsv
      · intro n hn hcl
        rw [ha.len] at hn
        by_cases hlt : n < st.ctors.length
        · rw [ha.pre n hlt] at hcl ⊢; exact ⟨hlt, hcl, rfl, rfl⟩
        · have : n = st.ctors.length := by omega
          subst this; rw [ha.fresh] at hcl; cases hcl
      · intro d hd hst
        have : (apiProvide ctx fn st i s o).1.deco d = st.deco d := by simp [St.deco, ha.decos]
        rw [this] at hst ⊢
        exact ⟨by rw [← ha.decos]; exact hd, hst, rfl, rfl⟩

theorem NBInv.decorate {st : St} (ctx : Ctx) (h : NBInv ctx.env st) (fn : Fn) (i s : Nat) (cb info : Bool)
    (hs : s < st.scopes.length) : NBInv ctx.env (apiDecorate ctx fn st i s cb info).1 := by
  refine ⟨h.h.decorate ctx fn i s cb info, h.reg.decorate ctx fn i s cb info, h.wf.decorate ctx fn i s cb info, ?_, ?_⟩
  · rcases apiDecorate_reg ctx fn st i s cb info with he | ha
    · rw [he]; exact h.home
    · refine ⟨?_, ?_⟩
      · intro n hn
        have : (apiDecorate ctx fn st i s cb info).1.ctor n = st.ctor n := by simp [St.ctor, ha.ctors]
        rw [this, ha.scopesLen]
        exact h.home.ctor n (by rw [← ha.ctors]; exact hn)
      · intro d hd
        rw [ha.len] at hd
        rw [ha.scopesLen]
        by_cases hlt : d < st.decos.length
        · rw [ha.pre d hlt]; exact h.home.deco d hlt
        · have : d = st.decos.length := by omega
          subst this; rw [ha.node.1]; exact hs
  · have hcs := cacheSame_apiDecorate ctx fn st i s cb info
    have hsv : ∀ j, ((apiDecorate ctx fn st i s cb info).1.scope j).values = (st.scope j).values ∧
        ((apiDecorate ctx fn st i s cb info).1.scope j).decoratedValues = (st.scope j).decoratedValues :=
      fun j => ⟨(hcs.2.2 j).1, (hcs.2.2 j).2.1⟩
    rcases apiDecorate_reg ctx fn st i s cb info with he | ha
    · rw [he]; exact h.cached
    · refine h.cached.transfer ?_ ?_ hsv
      · intro n hn hcl
        have : (apiDecorate ctx fn st i s cb info).1.ctor n = st.ctor n := by simp [St.ctor, ha.ctors]
        rw [this] at hcl ⊢
        exact ⟨by rw [← ha.ctors]; exact hn, hcl, rfl, rfl⟩
      · intro d hd hst
        rw [ha.len] at hd
        by_cases hlt : d < st.decos.length
        · rw [ha.pre d hlt] at hst ⊢; exact ⟨hlt, hst, rfl, rfl⟩
        · have : d = st.decos.length := by omega
          subst this; rw [ha.node.2.1] at hst; cases hst

end Dig

namespace Dig

/-- same node tables, same registration tables per scope -/
theorem RegWF.same {env : TyEnv} {a b : St} (h : RegWF env a) (hc : b.ctors = a.ctors) (hd : b.decos = a.decos)
    (hs : ∀ j, (b.scope j).providers = (a.scope j).providers ∧ (b.scope j).decorators = (a.scope j).decorators) :
    RegWF env b := by
  have ec : ∀ n, b.ctor n = a.ctor n := fun n => by simp [St.ctor, hc]
  have ed : ∀ d, b.deco d = a.deco d := fun d => by simp [St.deco, hd]
  have ek : ∀ n, ctorKeys b n = ctorKeys a n := fun n => by unfold ctorKeys; rw [ec n]
  refine ⟨?_, ?_, ?_, ?_⟩
  · intro n hn; rw [ec n]; exact h.ctorParams n (by rw [← hc]; exact hn)
  · intro d hdl; rw [ed d]; exact h.decoParams d (by rw [← hd]; exact hdl)
  · intro S k n hn hk
    rw [(hs S).1] at hn
    rw [ec n, ek n]
    exact h.provPlain S k n hn hk
  · intro s k d hdd hk
    rw [(hs s).2] at hdd
    rw [hd, ed d]
    exact h.decoPlain s k d hdd hk

/-- the three resolver facts of `NBInv` that are about tables and caches only -/
structure NB3 (env : TyEnv) (st : St) : Prop where
  wf : RegWF env st
  home : HomeOK st
  cached : Cached env st

theorem NB3.same {env : TyEnv} {a b : St} (h : NB3 env a) (hc : b.ctors = a.ctors) (hd : b.decos = a.decos)
    (hl : a.scopes.length ≤ b.scopes.length)
    (hs : ∀ j, (b.scope j).providers = (a.scope j).providers ∧ (b.scope j).decorators = (a.scope j).decorators ∧
      (b.scope j).values = (a.scope j).values ∧ (b.scope j).decoratedValues = (a.scope j).decoratedValues) : NB3 env b :=
  ⟨h.wf.same hc hd (fun j => ⟨(hs j).1, (hs j).2.1⟩), h.home.same hc hd hl,
   h.cached.same hc hd (fun j => ⟨(hs j).2.2.1, (hs j).2.2.2⟩)⟩

theorem NB3.ghOnly {env : TyEnv} {a b : St} (h : NB3 env a) (hg : GhOnly a b) : NB3 env b :=
  h.same hg.1.symm hg.2.1.symm (by rw [hg.2.2.2.2.2.2.1]; exact Nat.le_refl _)
    (fun j => by
      obtain ⟨_, _, p3, p4, p5, p6, _⟩ := hg.2.2.2.2.2.2.2 j
      exact ⟨p3.symm, p4.symm, p5.symm, p6.symm⟩)

theorem NB3.invoke {st : St} (ctx : Ctx) (hh : HInv st) (h : NB3 ctx.env st) (fn : Fn) (s : Nat) (info : Bool) :
    NB3 ctx.env (apiInvoke ctx fn st s info).1 := by
  rw [apiInvoke_eq]
  unfold apiInvoke'
  cases fn.nonfunc with
  | some _ => exact h
  | none =>
    simp only
    have hg := ghOnly_parseParams ctx.env st s fn
    have hhw := hh.ghOnly hg
    have hw := h.ghOnly hg
    have hrb := parse_rollback_eq ctx.env st s fn
    cases hpp : parseParams ctx.env st s fn with
    | mk r w =>
      rw [hpp] at hw hrb hhw
      simp only at hrb hw hhw
      cases r with
      | error e => simp only; rw [hrb]; exact h
      | ok params =>
        simp only
        have hs := shallowCheck_state s params w
        cases hsc : shallowCheck s params w with
        | mk r2 w2 =>
          rw [hsc] at hs; simp only at hs; subst hs
          cases r2 with
          | error f => exact hw
          | ok u =>
            simp only
            cases hchk : invokeCheck w2 s with
            | error v => exact hw
            | ok w3 =>
              simp only
              have hw3 : NB3 ctx.env w3 ∧ HInv w3 := by
                unfold invokeCheck at hchk
                split at hchk
                · injection hchk with e; rw [← e]; exact ⟨hw, hhw⟩
                · split at hchk
                  · injection hchk with e; rw [← e]
                    refine ⟨hw.same rfl rfl (by simp [St.modScope]) ?_, hhw.modVerified s true⟩
                    intro j
                    rw [scope_modScope]
                    split <;> exact ⟨rfl, rfl, rfl, rfl⟩
                  · cases hchk
                  · cases hchk
              have hei : EI ctx.env w3.ctors.length w3.decos.length w3 :=
                ⟨⟨hw3.2.valid, rfl, rfl⟩, hw3.1.home, hw3.1.wf, hw3.1.cached⟩
              have hb := ei_buildList ctx _ _ (engineFuel w3 params) params s w3 hei
              unfold invokeRun
              rw [← wrapErr_state _ DErr.argsFailed] at hb
              cases hbl : EM.wrapErr (Dig.buildList ctx (engineFuel w3 params) params s) DErr.argsFailed w3 with
              | mk r4 w4 =>
                rw [hbl] at hb
                simp only at hb
                have hb3 : NB3 ctx.env w4 := ⟨hb.wf, hb.home, hb.cached⟩
                cases r4 with
                | error f => exact hb3
                | ok args =>
                  simp only
                  have hf := callBody_fields ctx .invoked fn args w4
                  exact hb3.same hf.2.1 hf.2.2.1 (by rw [hf.1]; exact Nat.le_refl _)
                    (fun j => by rw [scope_of_scopes_eq hf.1 j]; exact ⟨rfl, rfl, rfl, rfl⟩)

theorem NBInv.nb3 {env : TyEnv} {st : St} (h : NBInv env st) : NB3 env st := ⟨h.wf, h.home, h.cached⟩

theorem NBInv.invoke {st : St} (ctx : Ctx) (h : NBInv ctx.env st) (fn : Fn) (s : Nat) (info : Bool) :
    NBInv ctx.env (apiInvoke ctx fn st s info).1 := by
  have h3 := NB3.invoke ctx h.h h.nb3 fn s info
  exact ⟨h.h.invoke ctx fn s info, h.reg.invoke ctx fn s info, h3.wf, h3.home, h3.cached⟩

end Dig

namespace Dig

theorem copyOrder_desc2 (child parent : Nat) : ∀ (l : List GNode) (w : St) (j : Nat),
    CtorDesc2 ((l.foldl (copyOrder child parent) w).ctor j) (w.ctor j) := by
  intro l
  induction l with
  | nil => intro w j; exact ⟨rfl, rfl, rfl, rfl, rfl⟩
  | cons x xs ih =>
    intro w j
    simp only [List.foldl_cons]
    obtain ⟨a1, a2, a3, a4, a5⟩ := ih (copyOrder child parent w x) j
    have hx : CtorDesc2 ((copyOrder child parent w x).ctor j) (w.ctor j) := by
      cases x with
      | ctor n =>
        simp only [copyOrder]
        rw [ctor_modCtor]
        split <;> exact ⟨rfl, rfl, rfl, rfl, rfl⟩
      | pg i => exact ⟨rfl, rfl, rfl, rfl, rfl⟩
    exact ⟨a1.trans hx.1, a2.trans hx.2.1, a3.trans hx.2.2.1, a4.trans hx.2.2.2.1, a5.trans hx.2.2.2.2⟩

theorem NB3.scope {env : TyEnv} {st : St} (h : NB3 env st) (parent : Nat) : NB3 env (apiScope st parent) := by
  let c : ScopeSt := { parent := some parent, gh := (st.scope parent).gh }
  let st1 : St := { st with scopes := st.scopes ++ [c] }
  let st2 : St := st1.modScope parent fun x => { x with children := x.children ++ [st.scopes.length] }
  have hdef : apiScope st parent = (st.scope parent).gh.foldl (copyOrder st.scopes.length parent) st2 := rfl
  obtain ⟨_, f2, f3, f4, _⟩ := copyOrder_fold st.scopes.length parent (st.scope parent).gh st2
  have hd2 := copyOrder_desc2 st.scopes.length parent (st.scope parent).gh st2
  rw [← hdef] at f2 f3 f4 hd2
  have hdecos : (apiScope st parent).decos = st.decos := f2
  have hlen : (apiScope st parent).ctors.length = st.ctors.length := f4
  have hctor : ∀ j, CtorDesc2 ((apiScope st parent).ctor j) (st.ctor j) := hd2
  have hcs := cacheSame_apiScope st parent
  have hpr := apiScope_providers st parent
  have hdeco : ∀ j, ((apiScope st parent).scope j).decorators = (st.scope j).decorators := by
    intro j
    rw [scope_of_scopes_eq f3 j]
    show (st2.scope j).decorators = _
    rw [scope_modScope]
    have e1 : (st1.scope j).decorators = (st.scope j).decorators := by
      simp only [St.scope, st1]
      rw [getD_append_one]
      split
      · rfl
      · rename_i hj
        have : st.scopes.getD j default = default := by
          rw [List.getD_eq_getElem?_getD]
          have : st.scopes[j]? = none := by simp; omega
          simp [this]
        have this' : st.scopes.getD j ({ parent := none } : ScopeSt) = { parent := none } := this
        rw [this']
        split <;> rfl
    split
    · exact e1
    · exact e1
  have ed : ∀ d, (apiScope st parent).deco d = st.deco d := fun d => by simp [St.deco, hdecos]
  have ek : ∀ n, ctorKeys (apiScope st parent) n = ctorKeys st n := fun n => by unfold ctorKeys; rw [(hctor n).2.1]
  refine ⟨⟨?_, ?_, ?_, ?_⟩, ⟨?_, ?_⟩, ?_⟩
  · intro n hn; rw [(hctor n).2.2.2.1]; exact h.wf.ctorParams n (by rw [← hlen]; exact hn)
  · intro d hdl; rw [ed d]; exact h.wf.decoParams d (by rw [← hdecos]; exact hdl)
  · intro S k n hn hk
    rw [(hpr S).1] at hn
    rw [(hctor n).2.2.1, ek n]
    exact h.wf.provPlain S k n hn hk
  · intro s k d hdd hk
    rw [hdeco s] at hdd
    rw [hdecos, ed d]
    exact h.wf.decoPlain s k d hdd hk
  · intro n hn
    rw [(hctor n).2.2.1]
    exact Nat.lt_of_lt_of_le (h.home.ctor n (by rw [← hlen]; exact hn)) (hpr 0).2
  · intro d hdl
    rw [ed d]
    exact Nat.lt_of_lt_of_le (h.home.deco d (by rw [← hdecos]; exact hdl)) (hpr 0).2
  · refine h.cached.transfer ?_ ?_ (fun j => ⟨(hcs.2.2 j).1, (hcs.2.2 j).2.1⟩)
    · intro n hn hcl
      rw [(hctor n).2.2.2.2] at hcl
      exact ⟨by rw [← hlen]; exact hn, hcl, (hctor n).2.1, (hctor n).2.2.1⟩
    · intro d hdl hst
      rw [ed d] at hst ⊢
      exact ⟨by rw [← hdecos]; exact hdl, hst, rfl, rfl⟩

theorem NBInv.scope {env : TyEnv} {st : St} (h : NBInv env st) (parent : Nat) : NBInv env (apiScope st parent) := by
  have h3 := h.nb3.scope parent
  exact ⟨h.h.scope parent, h.reg.scope parent, h3.wf, h3.home, h3.cached⟩

theorem NBInv.resetLog {env : TyEnv} {st : St} (h : NBInv env st) : NBInv env { st with log := [] } := by
  have h3 : NB3 env { st with log := [] } := h.nb3.same rfl rfl (Nat.le_refl _) (fun _ => ⟨rfl, rfl, rfl, rfl⟩)
  exact ⟨h.h.resetLog, h.reg.of_tables rfl rfl, h3.wf, h3.home, h3.cached⟩

end Dig

namespace Dig

theorem NBInv.step {st : St} (ctx : Ctx) (h : NBInv ctx.env st) (fns : List Fn) (i : Nat) (op : Op) :
    NBInv ctx.env (Dig.step ctx fns st i op).1 := by
  have h0 := h.resetLog
  cases op with
  | scope parent =>
    simp only [Dig.step]
    split
    · exact h0.scope parent
    · exact h0
  | provide s f o =>
    simp only [Dig.step]
    split
    · split
      · rename_i hs; exact h0.provide ctx _ i s o hs
      · exact h0
    · exact h0
  | decorate s f cb info =>
    simp only [Dig.step]
    split
    · split
      · rename_i hs; exact h0.decorate ctx _ i s cb info hs
      · exact h0
    · exact h0
  | invoke s f info =>
    simp only [Dig.step]
    split
    · split
      · exact h0.invoke ctx _ s info
      · exact h0
    · exact h0
  | visualize s e => cases e <;> (simp only [Dig.step]; split <;> exact h0)
  | string s => simp only [Dig.step]; split <;> exact h0

theorem NBInv.runOps (ctx : Ctx) (fns : List Fn) : ∀ (ops : List Op) (i : Nat) (st : St) (acc : List OpRes),
    NBInv ctx.env st → NBInv ctx.env (Dig.runOps ctx fns ops i st acc).1 := by
  intro ops
  induction ops with
  | nil => intro i st acc h; exact h
  | cons op rest ih =>
    intro i st acc h
    simp only [Dig.runOps]
    exact ih _ _ _ (h.step ctx fns i op)

/-- **Invoke never panics inside the resolver**: if an Invoke on a reachable container ends with a panic of dig's own,
    it was the acyclicity check that answered out-of-range / out-of-fuel (excluded separately) -/
theorem apiInvoke_nobug {st : St} (ctx : Ctx) (h : NBInv ctx.env st) (fn : Fn) (s : Nat) (info : Bool)
    (hv : (apiInvoke ctx fn st s info).2.v = .panicDig) :
    ∃ params w, parseParams ctx.env st s fn = (.ok params, w) ∧ invokeCheck w s = .error .panicDig := by
  rw [apiInvoke_eq] at hv
  unfold apiInvoke' at hv
  cases hnf : fn.nonfunc with
  | some _ => rw [hnf] at hv; cases hv
  | none =>
    rw [hnf] at hv
    simp only at hv
    have hg := ghOnly_parseParams ctx.env st s fn
    have hhw := h.h.ghOnly hg
    have hw := h.nb3.ghOnly hg
    cases hpp : parseParams ctx.env st s fn with
    | mk r w =>
      rw [hpp] at hw hhw hv
      simp only at hw hhw hv
      cases r with
      | error e => cases hv
      | ok params =>
        simp only at hv
        have hwf := parseParams_wf ctx.env st s fn params w hpp
        have hs := shallowCheck_state s params w
        cases hsc : shallowCheck s params w with
        | mk r2 w2 =>
          rw [hsc] at hs hv; simp only at hs hv; subst hs
          cases r2 with
          | error f =>
            simp only at hv
            unfold shallowCheck at hsc
            split at hsc
            · cases hsc
            · injection hsc with e1 _; injection e1 with e1; subst e1; cases hv
          | ok u =>
            simp only at hv
            cases hchk : invokeCheck w2 s with
            | error v =>
              rw [hchk] at hv
              simp only at hv
              subst hv
              exact ⟨params, w2, rfl, hchk⟩
            | ok w3 =>
              rw [hchk] at hv
              simp only at hv
              exfalso
              have hw3 : NB3 ctx.env w3 ∧ HInv w3 := by
                unfold invokeCheck at hchk
                split at hchk
                · injection hchk with e; rw [← e]; exact ⟨hw, hhw⟩
                · split at hchk
                  · injection hchk with e; rw [← e]
                    refine ⟨hw.same rfl rfl (by simp [St.modScope]) ?_, hhw.modVerified s true⟩
                    intro j
                    rw [scope_modScope]
                    split <;> exact ⟨rfl, rfl, rfl, rfl⟩
                  · cases hchk
                  · cases hchk
              have hei : EI ctx.env w3.ctors.length w3.decos.length w3 :=
                ⟨⟨hw3.2.valid, rfl, rfl⟩, hw3.1.home, hw3.1.wf, hw3.1.cached⟩
              have hnb := nb_wrapErr DErr.argsFailed
                ((engine_nobug ctx _ _ (engineFuel w3 params)).2.2.2.2.2 params s w3 hwf hei)
              unfold NB at hnb
              unfold invokeRun at hv
              cases hbl : EM.wrapErr (Dig.buildList ctx (engineFuel w3 params) params s) DErr.argsFailed w3 with
              | mk r4 w4 =>
                rw [hbl] at hv hnb
                cases r4 with
                | error f =>
                  simp only at hv hnb
                  cases f with
                  | bug => exact hnb rfl
                  | err e => cases hv
                  | panic a b => cases hv
                  | fuel => cases hv
                | ok args =>
                  simp only at hv
                  cases hcb : callBody ctx .invoked fn args w4 with
                  | mk r5 w5 =>
                    rw [hcb] at hv
                    simp only at hv
                    cases r5 with
                    | dry => cases hv
                    | ok a b => cases hv
                    | err x out =>
                      by_cases hc : (out + 1 == fn.outs.length) = true
                      · simp only [if_pos hc] at hv; cases hv
                      · simp only [if_neg hc] at hv; cases hv
                    | panic x =>
                      by_cases hc : ctx.cfg.recover = true
                      · simp only [if_pos hc] at hv; cases hv
                      · simp only [if_neg hc] at hv; cases hv

end Dig
