import DigModel.Proofs.NoBug
/-
  The facts the resolver relies on (`RegWF`, `HomeOK`, `Cached`) hold in every reachable container.
-/
namespace Dig

/-- static description of a constructor node -/
def CtorDesc2 (a b : CtorNode) : Prop := a.fn = b.fn ∧ a.results = b.results ∧ a.s = b.s ∧ a.params = b.params ∧ a.called = b.called

theorem ghStep_ctorDesc2 (node : GNode) (w : St) (sc : Nat) : (ghStep node w sc).ctors.length = w.ctors.length ∧
    ∀ j, CtorDesc2 ((ghStep node w sc).ctor j) (w.ctor j) := by
  unfold ghStep
  cases node with
  | ctor n =>
    simp only
    refine ⟨by simp [St.modCtor, St.modScope], fun j => ?_⟩
    rw [ctor_modCtor]
    split <;> exact ⟨rfl, rfl, rfl, rfl, rfl⟩
  | pg i => exact ⟨rfl, fun j => ⟨rfl, rfl, rfl, rfl, rfl⟩⟩

theorem newGraphNode_ctorDesc2 (w : St) (s : Nat) (node : GNode) : (w.newGraphNode s node).ctors.length = w.ctors.length ∧
    ∀ j, CtorDesc2 ((w.newGraphNode s node).ctor j) (w.ctor j) := by
  rw [newGraphNode_eq]
  generalize w.subscopes s = l
  induction l generalizing w with
  | nil => exact ⟨rfl, fun j => ⟨rfl, rfl, rfl, rfl, rfl⟩⟩
  | cons x xs ih =>
    simp only [List.foldl_cons]
    obtain ⟨i1, i2⟩ := ih (ghStep node w x)
    obtain ⟨g1, g2⟩ := ghStep_ctorDesc2 node w x
    exact ⟨i1.trans g1, fun j => ⟨(i2 j).1.trans (g2 j).1, (i2 j).2.1.trans (g2 j).2.1, (i2 j).2.2.1.trans (g2 j).2.2.1,
      (i2 j).2.2.2.1.trans (g2 j).2.2.2.1, (i2 j).2.2.2.2.trans (g2 j).2.2.2.2⟩⟩

/-- the accepted outcome of a Provide (and the model's "dig panics" answers): what was added -/
structure Added2 (st st' : St) (target : Nat) (results : List RSlot) (keys : List Key) : Prop where
  chk : ∃ X : ScopeSt, X.providers = (st.scope target).providers ∧ visitKeys X (slotResults results) [] = .ok keys
  len : st'.ctors.length = st.ctors.length + 1
  node : (st'.ctor st.ctors.length).results = results ∧ (st'.ctor st.ctors.length).s = target
  keep : CtorsKeep st st'
  others : ∀ j, j ≠ target → (st'.scope j).providers = (st.scope j).providers
  prov : target < st.scopes.length → (st'.scope target).providers =
    keys.foldl (fun m k => aset m k (agetL m k ++ [st.ctors.length])) (st.scope target).providers
  scopesLen : st'.scopes.length = st.scopes.length
  pre : ∀ n, n < st.ctors.length → st'.ctor n = st.ctor n
  decos : st'.decos = st.decos
  fresh : (st'.ctor st.ctors.length).called = false
  wfp : ParamsWF (st'.ctor st.ctors.length).params
  wfr : SlotsWF results

theorem apiProvide_reg2 (ctx : Ctx) (fn : Fn) (st : St) (i s : Nat) (o : ProvideOpts) :
    EqButVerified st (apiProvide ctx fn st i s o).1 ∨
    ∃ results keys, Added2 st (apiProvide ctx fn st i s o).1 (if o.export_ then St.root else s) results keys := by
  have hrefl : EqButVerified st st :=
    ⟨rfl, rfl, rfl, rfl, rfl, rfl, rfl, rfl, fun _ => ⟨rfl, rfl, rfl, rfl, rfl, rfl, rfl, rfl, rfl, rfl⟩⟩
  unfold apiProvide
  cases fn.nonfunc with
  | some _ => exact Or.inl hrefl
  | none =>
    simp only
    cases validateOpts ctx.env o with
    | error e' => exact Or.inl hrefl
    | ok as =>
      simp only
      generalize (if o.export_ then St.root else s) = target
      have hw1 := work_parseParams (Work.refl st target) ctx.env fn
      have hg1 := ghOnly_parseParams ctx.env st target fn
      cases hpp : parseParams ctx.env st target fn with
      | mk r w1 =>
        rw [hpp] at hw1 hg1
        simp only at hw1 hg1
        cases r with
        | error e1 => exact Or.inl (rollback_restores hw1)
        | ok params =>
          simp only
          cases hnr : newResultList ctx.env { name := o.name, group := o.group, as := as } fn with
          | error e2 => exact Or.inl (rollback_restores hw1)
          | ok results =>
            simp only
            let node : CtorNode := { fn := fn, params := params, results := results, s := target, origS := s, cb := if o.cb then some i else none }
            have hlen1 : w1.ctors.length = st.ctors.length := by rw [hg1.1]
            have hw3 := work_newGraphNode (work_addCtor hw1 node) (.ctor w1.ctors.length)
              (by show st.ctors.length ≤ w1.ctors.length; exact hw1.ctorsLen)
            obtain ⟨hd1, hd2⟩ := newGraphNode_ctorDesc2 { w1 with ctors := w1.ctors ++ [node] } target (.ctor w1.ctors.length)
            have hp3 : ∀ j, ((St.newGraphNode { w1 with ctors := w1.ctors ++ [node] } target (.ctor w1.ctors.length)).scope j).providers =
                (st.scope j).providers := by
              intro j
              rw [← (newGraphNode_scopes _ target (.ctor w1.ctors.length) j).2.2.1]
              show (w1.scope j).providers = _
              exact ((hg1.2.2.2.2.2.2.2 j).2.2.1).symm
            have hnode3 : CtorDesc2 ((St.newGraphNode { w1 with ctors := w1.ctors ++ [node] } target (.ctor w1.ctors.length)).ctor st.ctors.length) node := by
              have := hd2 st.ctors.length
              have e : ({ w1 with ctors := w1.ctors ++ [node] } : St).ctor st.ctors.length = node := by
                show (w1.ctors ++ [node]).getD st.ctors.length default = node
                rw [← hlen1, getD_append_one]; simp
              rw [e] at this; exact this
            have hlen3 : (St.newGraphNode { w1 with ctors := w1.ctors ++ [node] } target (.ctor w1.ctors.length)).ctors.length = st.ctors.length + 1 := by
              rw [hd1]; simp [hlen1]
            generalize (St.newGraphNode { w1 with ctors := w1.ctors ++ [node] } target (.ctor w1.ctors.length)) = w3 at hw3 hp3 hnode3 hlen3
            cases hvk : visitKeys (w3.scope target) (slotResults results) [] with
            | error e3 => exact Or.inl (rollback_restores hw3)
            | ok keys =>
              cases keys with
              | nil => exact Or.inl (rollback_restores hw3)
              | cons k0 ks =>
                simp only
                -- the state after the provider update
                have hsame : (w3.modScope target fun x =>
                    { x with providers := (k0 :: ks).foldl (fun m k => aset m k (agetL m k ++ [w1.ctors.length])) x.providers }) =
                    (w3.modScope target fun x =>
                    { x with providers := (k0 :: ks).foldl (fun m k => aset m k (agetL m k ++ [w1.ctors.length])) (w3.scope target).providers }) := by
                  unfold St.modScope
                  congr 1
                  apply List.ext_getElem?
                  intro j
                  simp only [List.getElem?_modify]
                  by_cases hj : target = j
                  · subst hj
                    cases hg : w3.scopes[target]? with
                    | none => rfl
                    | some x =>
                      have : w3.scope target = x := by
                        unfold St.scope; rw [List.getD_eq_getElem?_getD, hg]; rfl
                      simp [this]
                  · simp [hj]
                rw [hsame]
                have hw4 := work_modScope_providers hw3
                  ((k0 :: ks).foldl (fun m k => aset m k (agetL m k ++ [w1.ctors.length])) (w3.scope target).providers)
                have hp4 : ∀ j, ((w3.modScope target fun x =>
                    { x with providers := (k0 :: ks).foldl (fun m k => aset m k (agetL m k ++ [w1.ctors.length])) (w3.scope target).providers }).scope j).providers =
                    if target = j ∧ j < w3.scopes.length then
                      (k0 :: ks).foldl (fun m k => aset m k (agetL m k ++ [st.ctors.length])) (st.scope target).providers
                    else (st.scope j).providers := by
                  intro j
                  rw [scope_modScope]
                  split
                  · simp only [hp3 target, hlen1]
                  · exact hp3 j
                have hgs := graphSame_verifyScopes ctx.cfg (st.subscopes target) (w3.modScope target fun x =>
                    { x with providers := (k0 :: ks).foldl (fun m k => aset m k (agetL m k ++ [w1.ctors.length])) (w3.scope target).providers })
                have hw5 := work_verifyScopes (target := target) ctx.cfg (st.subscopes target) _ hw4
                have hlen3s : w3.scopes.length = st.scopes.length := hw3.len
                cases hvs : verifyScopes ctx.cfg (st.subscopes target) (w3.modScope target fun x =>
                    { x with providers := (k0 :: ks).foldl (fun m k => aset m k (agetL m k ++ [w1.ctors.length])) (w3.scope target).providers }) with
                | mk r5 w5 =>
                  rw [hvs] at hgs hw5
                  simp only at hgs hw5
                  have hc5 : w5.ctors = w3.ctors := hgs.1.symm
                  have hp5 : ∀ j, (w5.scope j).providers =
                      if target = j ∧ j < w3.scopes.length then
                        (k0 :: ks).foldl (fun m k => aset m k (agetL m k ++ [st.ctors.length])) (st.scope target).providers
                      else (st.scope j).providers := by
                    intro j; rw [← (hgs.2.2.2 j).2.1]; exact hp4 j
                  have hadded : ∀ w6 : St, w6.ctors = w5.ctors → w6.scopes.length = w5.scopes.length →
                      (∀ j, (w6.scope j).providers = (w5.scope j).providers) → w6.decos = st.decos →
                      Added2 st w6 target results (k0 :: ks) := by
                    intro w6 h61 h62 h63 h64
                    have hctor6 : w6.ctor st.ctors.length = w3.ctor st.ctors.length := by simp [St.ctor, h61, hc5]
                    refine ⟨⟨w3.scope target, hp3 target, hvk⟩, by rw [h61, hc5]; exact hlen3, ?_, ?_, ?_, ?_, by rw [h62, hw5.len],
                      ?_, h64, by rw [hctor6, hnode3.2.2.2.2], by rw [hctor6, hnode3.2.2.2.1]; exact parseParams_wf ctx.env st target fn params w1 hpp,
                      newResultList_wf ctx.env _ fn results hnr⟩
                    · have : w6.ctor st.ctors.length = w3.ctor st.ctors.length := by simp [St.ctor, h61, hc5]
                      rw [this]; exact ⟨hnode3.2.1, hnode3.2.2.1⟩
                    · have hk5 := ctorsKeep_work hw5
                      intro n hn
                      have : w6.ctor n = w5.ctor n := by simp [St.ctor, h61]
                      obtain ⟨a1, a2, a3, a4, a5⟩ := hk5 n hn
                      exact ⟨by rw [h61]; exact a1, by rw [this]; exact a2, by rw [this]; exact a3, by rw [this]; exact a4,
                        fun hc => by rw [this]; exact a5 hc⟩
                    · intro j hj
                      rw [h63, hp5]
                      have : ¬ (target = j ∧ j < w3.scopes.length) := fun hc => hj hc.1.symm
                      rw [if_neg this]
                    · intro ht
                      rw [h63, hp5, if_pos ⟨rfl, by rw [hlen3s]; exact ht⟩]
                    · intro n hn
                      have : w6.ctor n = w5.ctor n := by simp [St.ctor, h61]
                      rw [this]
                      exact ctor_of_take hw5.ctorsPre n hn
                  cases r5 with
                  | ok u =>
                    simp only
                    refine Or.inr ⟨results, k0 :: ks, hadded _ rfl (by simp [St.modScope]) ?_ hw5.decos⟩
                    intro j; rw [scope_modScope]; split <;> rfl
                  | error ec =>
                    obtain ⟨sc, cr⟩ := ec
                    cases cr with
                    | cycle p => exact Or.inl (rollback_restores hw5)
                    | acyclic => exact Or.inr ⟨results, k0 :: ks, hadded w5 rfl rfl (fun _ => rfl) hw5.decos⟩
                    | outOfRange => exact Or.inr ⟨results, k0 :: ks, hadded w5 rfl rfl (fun _ => rfl) hw5.decos⟩
                    | fuel => exact Or.inr ⟨results, k0 :: ks, hadded w5 rfl rfl (fun _ => rfl) hw5.decos⟩

end Dig

namespace Dig

/-- the accepted outcome of a Decorate: what was added -/
structure AddedDeco (env : TyEnv) (st st' : St) (s : Nat) : Prop where
  ctors : st'.ctors = st.ctors
  len : st'.decos.length = st.decos.length + 1
  pre : ∀ d, d < st.decos.length → st'.deco d = st.deco d
  node : (st'.deco st.decos.length).s = s ∧ (st'.deco st.decos.length).state = .ready ∧ ParamsWF (st'.deco st.decos.length).params
  keys : ∃ keys, resultKeys env (slotResults (st'.deco st.decos.length).results) = .ok keys ∧
    SlotsWF (st'.deco st.decos.length).results ∧
    (∀ j, (st'.scope j).decorators =
      if s = j ∧ j < st.scopes.length then keys.foldl (fun m k => aset m k st.decos.length) (st.scope j).decorators
      else (st.scope j).decorators)
  providers : ∀ j, (st'.scope j).providers = (st.scope j).providers
  scopesLen : st'.scopes.length = st.scopes.length

theorem apiDecorate_reg (ctx : Ctx) (fn : Fn) (st : St) (i s : Nat) (cb info : Bool) :
    (apiDecorate ctx fn st i s cb info).1 = st ∨ AddedDeco ctx.env st (apiDecorate ctx fn st i s cb info).1 s := by
  unfold apiDecorate
  cases hnf : fn.nonfunc with
  | some _ => exact Or.inl rfl
  | none =>
    simp only
    have hp := parse_rollback_eq ctx.env st s fn
    have hg := ghOnly_parseParams ctx.env st s fn
    cases hpp : parseParams ctx.env st s fn with
    | mk r w =>
      rw [hpp] at hp hg
      simp only at hp hg
      cases r with
      | error e => exact Or.inl hp
      | ok params =>
        simp only
        cases hr : newResultList ctx.env {} fn with
        | error e => exact Or.inl hp
        | ok results =>
          simp only
          cases hk : resultKeys ctx.env (slotResults results) with
          | error e => exact Or.inl hp
          | ok keys =>
            simp only
            by_cases hcond : (hasDup keys || keys.any fun k => (aget (w.scope s).decorators k).isSome) = true
            · rw [if_pos hcond]; exact Or.inl hp
            · rw [if_neg hcond]
              right
              have hlen : w.decos.length = st.decos.length := by rw [hg.2.1]
              have hscope : ∀ (d : List DecoNode) (j : Nat), ({ w with decos := d } : St).scope j = w.scope j := fun _ _ => rfl
              have hnode : ∀ (f : ScopeSt → ScopeSt), ((St.modScope { w with decos := w.decos ++
                  [({ fn := fn, params := params, results := results, s := s, cb := if cb then some i else none } : DecoNode)] } s f).deco st.decos.length) =
                  ({ fn := fn, params := params, results := results, s := s, cb := if cb then some i else none } : DecoNode) := by
                intro f
                show (w.decos ++ [_]).getD st.decos.length default = _
                rw [← hlen, getD_append_one]; simp
              refine ⟨hg.1.symm, by simp [St.modScope, hlen], ?_, ?_, ?_, ?_, by simp [St.modScope, hg.2.2.2.2.2.2.1]⟩
              · intro d hd
                show (w.decos ++ [_]).getD d default = st.decos.getD d default
                rw [getD_append_one, hlen, if_pos hd, hg.2.1]
              · rw [hnode]
                exact ⟨rfl, rfl, parseParams_wf ctx.env st s fn params w hpp⟩
              · refine ⟨keys, ?_, ?_, ?_⟩
                · rw [hnode]; exact hk
                · rw [hnode]; exact newResultList_wf ctx.env {} fn results hr
                · intro j
                  have hlen2 : w.scopes.length = st.scopes.length := hg.2.2.2.2.2.2.1.symm
                  have hdec : ∀ j, (w.scope j).decorators = (st.scope j).decorators := fun j => ((hg.2.2.2.2.2.2.2 j).2.2.2.1).symm
                  rw [scope_modScope]
                  by_cases hc : s = j ∧ j < w.scopes.length
                  · have hc2 : s = j ∧ j < st.scopes.length := ⟨hc.1, by rw [← hlen2]; exact hc.2⟩
                    rw [if_pos (show s = j ∧ j < ({ w with decos := w.decos ++ [({ fn := fn, params := params, results := results, s := s, cb := if cb then some i else none } : DecoNode)] } : St).scopes.length from hc)]
                    simp only [hscope, hdec, hlen, if_pos hc2]
                  · have hc2 : ¬ (s = j ∧ j < st.scopes.length) := by rw [← hlen2]; exact hc
                    rw [if_neg (show ¬ (s = j ∧ j < ({ w with decos := w.decos ++ [({ fn := fn, params := params, results := results, s := s, cb := if cb then some i else none } : DecoNode)] } : St).scopes.length) from hc)]
                    simp only [if_neg hc2]
                    exact hdec j
              · intro j
                rw [scope_modScope]
                simp only [hscope]
                by_cases hc : s = j ∧ j < w.scopes.length
                · rw [if_pos hc]; exact ((hg.2.2.2.2.2.2.2 j).2.2.1).symm
                · rw [if_neg hc]; exact ((hg.2.2.2.2.2.2.2 j).2.2.1).symm

end Dig
