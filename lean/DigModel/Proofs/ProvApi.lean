import DigModel.Proofs.ProvEngine
import DigModel.Proofs.History
import DigModel.Proofs.ExecUniq
/-
  `Prov` is an invariant of the whole API: registrations and `Scope` never touch a cache or the
  history, `Invoke` runs the resolver and then the invoked function with the values it built.
-/
namespace Dig

/-- same history, same caches in every scope -/
def CacheSame (a b : St) : Prop :=
  b.hist = a.hist ∧ b.execs = a.execs ∧ ∀ j, (b.scope j).values = (a.scope j).values ∧ (b.scope j).decoratedValues = (a.scope j).decoratedValues ∧
    (b.scope j).groups = (a.scope j).groups ∧ (b.scope j).decoratedGroups = (a.scope j).decoratedGroups

theorem CacheSame.refl (a : St) : CacheSame a a := ⟨rfl, rfl, fun _ => ⟨rfl, rfl, rfl, rfl⟩⟩

theorem CacheSame.trans {a b c : St} (h1 : CacheSame a b) (h2 : CacheSame b c) : CacheSame a c :=
  ⟨h2.1.trans h1.1, h2.2.1.trans h1.2.1, fun j => ⟨(h2.2.2 j).1.trans (h1.2.2 j).1, (h2.2.2 j).2.1.trans (h1.2.2 j).2.1,
    (h2.2.2 j).2.2.1.trans (h1.2.2 j).2.2.1, (h2.2.2 j).2.2.2.trans (h1.2.2 j).2.2.2⟩⟩

theorem Prov.cacheSame {a b : St} (h : Prov a) (hc : CacheSame a b) : Prov b := h.transfer hc.1 hc.2.2

theorem cacheSame_of_scopes {a b : St} (hh : b.hist = a.hist) (he : b.execs = a.execs) (hs : b.scopes = a.scopes) :
    CacheSame a b :=
  ⟨hh, he, fun j => by simp [St.scope, hs]⟩

theorem cacheSame_ghOnly {a b : St} (h : GhOnly a b) : CacheSame a b :=
  ⟨h.2.2.1.symm, h.2.2.2.2.1.symm, fun j => by
    obtain ⟨_, _, _, _, h5, h6, h7, h8, _, _⟩ := h.2.2.2.2.2.2.2 j
    exact ⟨h5.symm, h6.symm, h7.symm, h8.symm⟩⟩

theorem cacheSame_modScope (st : St) (s : Nat) (f : ScopeSt → ScopeSt)
    (hf : ∀ x, (f x).values = x.values ∧ (f x).decoratedValues = x.decoratedValues ∧ (f x).groups = x.groups ∧
      (f x).decoratedGroups = x.decoratedGroups) : CacheSame st (st.modScope s f) :=
  ⟨rfl, rfl, fun j => by
    rw [scope_modScope]
    split
    · exact hf _
    · exact ⟨rfl, rfl, rfl, rfl⟩⟩

theorem cacheSame_newGraphNode (st : St) (s : Nat) (node : GNode) : CacheSame st (st.newGraphNode s node) := by
  have hx : (st.newGraphNode s node).hist = st.hist ∧ (st.newGraphNode s node).execs = st.execs := by
    rw [newGraphNode_eq]
    generalize st.subscopes s = l
    induction l generalizing st with
    | nil => exact ⟨rfl, rfl⟩
    | cons x xs ih =>
      simp only [List.foldl_cons]
      rw [(ih _).1, (ih _).2]
      unfold ghStep
      cases node <;> exact ⟨rfl, rfl⟩
  refine ⟨hx.1, hx.2, fun j => ?_⟩
  · obtain ⟨_, _, _, _, h5, h6, h7, h8, _, _⟩ := newGraphNode_scopes st s node j
    exact ⟨h5.symm, h6.symm, h7.symm, h8.symm⟩

theorem cacheSame_verifyScopes (cfg : Cfg) : ∀ (l : List Nat) (w : St), CacheSame w (verifyScopes cfg l w).2 := by
  intro l
  induction l with
  | nil => intro w; exact CacheSame.refl w
  | cons sc rest ih =>
    intro w
    simp only [verifyScopes]
    have h1 : CacheSame w (w.modScope sc fun x => { x with verified := false }) :=
      cacheSame_modScope w sc _ (fun _ => ⟨rfl, rfl, rfl, rfl⟩)
    split
    · exact h1.trans (ih _)
    · split
      · have h2 : CacheSame (w.modScope sc fun x => { x with verified := false })
            ((w.modScope sc fun x => { x with verified := false }).modScope sc fun x => { x with verified := true }) :=
          cacheSame_modScope _ sc _ (fun _ => ⟨rfl, rfl, rfl, rfl⟩)
        exact h1.trans (h2.trans (ih _))
      · exact h1

theorem cacheSame_rollback (st0 w : St) (target : Nat) (scopes : List Nat) :
    CacheSame w (rollbackProvide st0 w target scopes) := by
  unfold rollbackProvide
  simp only
  have h1 : ∀ (l : List Nat) (w : St), CacheSame w (l.foldl (fun w sc =>
      w.modScope sc fun x => { x with gh := x.gh.take (st0.scope sc).gh.length }) w) := by
    intro l
    induction l with
    | nil => intro w; exact CacheSame.refl w
    | cons sc rest ih =>
      intro w
      simp only [List.foldl_cons]
      have h2 : CacheSame w (w.modScope sc fun x => { x with gh := x.gh.take (st0.scope sc).gh.length }) :=
        cacheSame_modScope w sc _ (fun _ => ⟨rfl, rfl, rfl, rfl⟩)
      exact h2.trans (ih _)
  refine (h1 scopes w).trans ?_
  generalize (scopes.foldl (fun w sc =>
      w.modScope sc fun x => { x with gh := x.gh.take (st0.scope sc).gh.length }) w) = w2
  have h3 : CacheSame w2 (w2.modScope target fun x => { x with providers := (st0.scope target).providers }) :=
    cacheSame_modScope w2 target _ (fun _ => ⟨rfl, rfl, rfl, rfl⟩)
  refine h3.trans ?_
  exact cacheSame_of_scopes rfl rfl rfl

theorem cacheSame_apiProvide (ctx : Ctx) (fn : Fn) (st : St) (i s : Nat) (o : ProvideOpts) :
    CacheSame st (apiProvide ctx fn st i s o).1 := by
  unfold apiProvide
  cases fn.nonfunc with
  | some _ => exact CacheSame.refl st
  | none =>
    simp only
    cases validateOpts ctx.env o with
    | error e' => exact CacheSame.refl st
    | ok as =>
      simp only
      generalize (if o.export_ then St.root else s) = target
      have hg1 := cacheSame_ghOnly (ghOnly_parseParams ctx.env st target fn)
      cases hpp : parseParams ctx.env st target fn with
      | mk r w1 =>
        rw [hpp] at hg1
        simp only at hg1
        cases r with
        | error e1 => exact hg1.trans (cacheSame_rollback _ _ _ _)
        | ok params =>
          simp only
          cases newResultList ctx.env { name := o.name, group := o.group, as := as } fn with
          | error e2 => exact hg1.trans (cacheSame_rollback _ _ _ _)
          | ok results =>
            simp only
            have h3 : CacheSame st (St.newGraphNode { w1 with ctors := w1.ctors ++ [({ fn := fn, params := params, results := results, s := target, origS := s, cb := if o.cb then some i else none } : CtorNode)] } target (.ctor w1.ctors.length)) :=
              (hg1.trans (cacheSame_of_scopes rfl rfl rfl)).trans (cacheSame_newGraphNode _ _ _)
            generalize (St.newGraphNode { w1 with ctors := w1.ctors ++ [({ fn := fn, params := params, results := results, s := target, origS := s, cb := if o.cb then some i else none } : CtorNode)] } target (.ctor w1.ctors.length)) = w3 at h3
            cases visitKeys (w3.scope target) (slotResults results) [] with
            | error e3 => exact h3.trans (cacheSame_rollback _ _ _ _)
            | ok keys =>
              cases keys with
              | nil => exact h3.trans (cacheSame_rollback _ _ _ _)
              | cons k0 ks =>
                simp only
                have h4 := h3.trans (cacheSame_modScope w3 target (fun x =>
                  { x with providers := (k0 :: ks).foldl (fun m k => aset m k (agetL m k ++ [w1.ctors.length])) x.providers })
                  (fun _ => ⟨rfl, rfl, rfl, rfl⟩))
                have h5 := h4.trans (cacheSame_verifyScopes ctx.cfg (st.subscopes target) _)
                cases hvs : verifyScopes ctx.cfg (st.subscopes target) (w3.modScope target fun x =>
                  { x with providers := (k0 :: ks).foldl (fun m k => aset m k (agetL m k ++ [w1.ctors.length])) x.providers }) with
                | mk r5 w5 =>
                  rw [hvs] at h5
                  simp only at h5
                  cases r5 with
                  | ok u =>
                    simp only
                    exact h5.trans (cacheSame_modScope w5 target _ (fun _ => ⟨rfl, rfl, rfl, rfl⟩))
                  | error ec =>
                    obtain ⟨sc, cr⟩ := ec
                    cases cr with
                    | cycle p => exact h5.trans (cacheSame_rollback _ _ _ _)
                    | acyclic => exact h5
                    | outOfRange => exact h5
                    | fuel => exact h5

theorem cacheSame_apiDecorate (ctx : Ctx) (fn : Fn) (st : St) (i s : Nat) (cb info : Bool) :
    CacheSame st (apiDecorate ctx fn st i s cb info).1 := by
  unfold apiDecorate
  cases fn.nonfunc with
  | some _ => exact CacheSame.refl st
  | none =>
    simp only
    have hg1 := cacheSame_ghOnly (ghOnly_parseParams ctx.env st s fn)
    cases hpp : parseParams ctx.env st s fn with
    | mk r w1 =>
      rw [hpp] at hg1
      simp only at hg1
      cases r with
      | error e1 => exact hg1.trans (cacheSame_rollback _ _ _ _)
      | ok params =>
        simp only
        cases newResultList ctx.env {} fn with
        | error e2 => exact hg1.trans (cacheSame_rollback _ _ _ _)
        | ok results =>
          simp only
          cases resultKeys ctx.env (slotResults results) with
          | error e3 => exact hg1.trans (cacheSame_rollback _ _ _ _)
          | ok keys =>
            simp only
            split
            · exact hg1.trans (cacheSame_rollback _ _ _ _)
            · exact (hg1.trans (cacheSame_of_scopes rfl rfl rfl)).trans
                (cacheSame_modScope _ s _ (fun _ => ⟨rfl, rfl, rfl, rfl⟩))

theorem cacheSame_apiScope (st : St) (parent : Nat) : CacheSame st (apiScope st parent) := by
  let c : ScopeSt := { parent := some parent, gh := (st.scope parent).gh }
  let st1 : St := { st with scopes := st.scopes ++ [c] }
  let st2 : St := st1.modScope parent fun x => { x with children := x.children ++ [st.scopes.length] }
  have hdef : apiScope st parent = (st.scope parent).gh.foldl (copyOrder st.scopes.length parent) st2 := rfl
  rw [hdef]
  obtain ⟨f1, _, f3, _, _⟩ := copyOrder_fold st.scopes.length parent (st.scope parent).gh st2
  have fe : ∀ (l : List GNode) (w : St), (l.foldl (copyOrder st.scopes.length parent) w).execs = w.execs := by
    intro l
    induction l with
    | nil => intro w; rfl
    | cons x xs ih =>
      intro w
      simp only [List.foldl_cons]
      rw [ih]
      cases x <;> rfl
  have e1 : ∀ j, st1.scope j = if j < st.scopes.length then st.scope j else if j = st.scopes.length then c else { parent := none } := by
    intro j
    show (st.scopes ++ [c]).getD j { parent := none } = _
    rw [getD_append_one]; rfl
  have h1 : CacheSame st st1 := by
    refine ⟨rfl, rfl, fun j => ?_⟩
    rw [e1]
    by_cases hj : j < st.scopes.length
    · simp [hj]
    · have hn2 : st.scope j = { parent := none } := scope_ge_len st j (by omega)
      by_cases hje : j = st.scopes.length
      · subst hje
        rw [hn2]; simp [c]
      · simp [hj, hje, hn2]
  have h2 : CacheSame st1 st2 := cacheSame_modScope st1 parent _ (fun _ => ⟨rfl, rfl, rfl, rfl⟩)
  exact (h1.trans h2).trans (cacheSame_of_scopes f1 (fe _ _) f3)

/-- the invoked function is run with arguments built by the resolver; nothing it returns is kept -/
theorem Prov.invoke {st : St} (h : Prov st) (ctx : Ctx) (fn : Fn) (s : Nat) (info : Bool) :
    Prov (apiInvoke ctx fn st s info).1 := by
  unfold apiInvoke
  cases fn.nonfunc with
  | some _ => exact h
  | none =>
    simp only
    have hw := h.cacheSame (cacheSame_ghOnly (ghOnly_parseParams ctx.env st s fn))
    cases hpp : parseParams ctx.env st s fn with
    | mk r w =>
      rw [hpp] at hw
      simp only at hw
      cases r with
      | error e => exact hw.cacheSame (cacheSame_rollback _ _ _ _)
      | ok params =>
        simp only
        have hs := shallowCheck_state s params w
        cases hsc : shallowCheck s params w with
        | mk r2 w2 =>
          rw [hsc] at hs; simp only at hs; subst hs
          cases r2 with
          | error f => exact hw
          | ok u =>
            simp only
            split
            · exact hw
            · rename_i w3 hchk
              have hw3 : Prov w3 := by
                split at hchk
                · injection hchk with e; rw [← e]; exact hw
                · split at hchk
                  · injection hchk with e; rw [← e]
                    exact hw.cacheSame (cacheSame_modScope _ s _ (fun _ => ⟨rfl, rfl, rfl, rfl⟩))
                  · cases hchk
                  · cases hchk
              have hb := post_wrapErr DErr.argsFailed w3 ((engine_prov ctx (engineFuel w3 params)).2.2.2.2.2 params s w3 hw3)
              cases hbl : EM.wrapErr (Dig.buildList ctx (engineFuel w3 params) params s) DErr.argsFailed w3 with
              | mk r4 w4 =>
                rw [hbl] at hb
                obtain ⟨p4, _, q4⟩ := hb
                cases r4 with
                | error f => exact p4
                | ok args =>
                  simp only
                  exact (prov_callBody ctx .invoked fn args w4 p4 (q4 args rfl)).1

theorem Prov.step {st : St} (h : Prov st) (ctx : Ctx) (fns : List Fn) (i : Nat) (op : Op) :
    Prov (Dig.step ctx fns st i op).1 := by
  have h0 : Prov { st with log := [] } := h.of_scopes rfl rfl
  cases op with
  | scope p =>
    simp only [Dig.step]
    split
    · exact h0.cacheSame (cacheSame_apiScope _ p)
    · exact h0
  | provide s f o =>
    simp only [Dig.step]
    split
    · split
      · exact h0.cacheSame (cacheSame_apiProvide ctx _ _ i s o)
      · exact h0
    · exact h0
  | decorate s f cb info =>
    simp only [Dig.step]
    split
    · split
      · exact h0.cacheSame (cacheSame_apiDecorate ctx _ _ i s cb info)
      · exact h0
    · exact h0
  | invoke s f info =>
    simp only [Dig.step]
    split
    · split
      · exact h0.invoke ctx _ s info
      · exact h0
    · exact h0
  | visualize s e => cases e <;> (simp only [Dig.step]; split <;> exact h0)
  | string s => simp only [Dig.step]; split <;> exact h0

theorem Prov.runOps (ctx : Ctx) (fns : List Fn) : ∀ (ops : List Op) (i : Nat) (st : St) (acc : List OpRes),
    Prov st → Prov (Dig.runOps ctx fns ops i st acc).1 := by
  intro ops
  induction ops with
  | nil => intro i st acc h; exact h
  | cons op rest ih =>
    intro i st acc h
    simp only [Dig.runOps]
    have := h.step ctx fns i op
    cases hs : Dig.step ctx fns st i op with
    | mk st' r =>
      rw [hs] at this
      exact ih _ _ _ this

/-- in the history of any program, the arguments of every execution stem from executions that had ended
    successfully before -/
theorem prov_program (p : Program) : Prov (runProgram p).1 :=
  Prov.runOps p.ctx p.fns p.ops 0 {} [] Prov.init

/-! ### executions are numbered uniquely, in every reachable state -/

theorem ExecInv.cacheSame {a b : St} (h : ExecInv a) (hc : CacheSame a b) : ExecInv b := h.transfer hc.1 hc.2.1

theorem ExecInv.invoke {st : St} (h : ExecInv st) (ctx : Ctx) (fn : Fn) (s : Nat) (info : Bool) :
    ExecInv (apiInvoke ctx fn st s info).1 := by
  unfold apiInvoke
  cases fn.nonfunc with
  | some _ => exact h
  | none =>
    simp only
    have hw := h.cacheSame (cacheSame_ghOnly (ghOnly_parseParams ctx.env st s fn))
    cases hpp : parseParams ctx.env st s fn with
    | mk r w =>
      rw [hpp] at hw
      simp only at hw
      cases r with
      | error e => exact hw.cacheSame (cacheSame_rollback _ _ _ _)
      | ok params =>
        simp only
        have hs := shallowCheck_state s params w
        cases hsc : shallowCheck s params w with
        | mk r2 w2 =>
          rw [hsc] at hs; simp only at hs; subst hs
          cases r2 with
          | error f => exact hw
          | ok u =>
            simp only
            split
            · exact hw
            · rename_i w3 hchk
              have hw3 : ExecInv w3 := by
                split at hchk
                · injection hchk with e; rw [← e]; exact hw
                · split at hchk
                  · injection hchk with e; rw [← e]
                    exact hw.cacheSame (cacheSame_modScope _ s _ (fun _ => ⟨rfl, rfl, rfl, rfl⟩))
                  · cases hchk
                  · cases hchk
              have hb := hw3.buildList ctx (engineFuel w3 params) params s
              rw [← wrapErr_state _ DErr.argsFailed] at hb
              cases hbl : EM.wrapErr (Dig.buildList ctx (engineFuel w3 params) params s) DErr.argsFailed w3 with
              | mk r4 w4 =>
                rw [hbl] at hb
                cases r4 with
                | error f => exact hb
                | ok args =>
                  simp only
                  exact execInv_callBody ctx .invoked fn args w4 hb

theorem ExecInv.step {st : St} (h : ExecInv st) (ctx : Ctx) (fns : List Fn) (i : Nat) (op : Op) :
    ExecInv (Dig.step ctx fns st i op).1 := by
  have h0 : ExecInv { st with log := [] } := h.transfer rfl rfl
  cases op with
  | scope p =>
    simp only [Dig.step]
    split
    · exact h0.cacheSame (cacheSame_apiScope _ p)
    · exact h0
  | provide s f o =>
    simp only [Dig.step]
    split
    · split
      · exact h0.cacheSame (cacheSame_apiProvide ctx _ _ i s o)
      · exact h0
    · exact h0
  | decorate s f cb info =>
    simp only [Dig.step]
    split
    · split
      · exact h0.cacheSame (cacheSame_apiDecorate ctx _ _ i s cb info)
      · exact h0
    · exact h0
  | invoke s f info =>
    simp only [Dig.step]
    split
    · split
      · exact h0.invoke ctx _ s info
      · exact h0
    · exact h0
  | visualize s e => cases e <;> (simp only [Dig.step]; split <;> exact h0)
  | string s => simp only [Dig.step]; split <;> exact h0

theorem ExecInv.runOps (ctx : Ctx) (fns : List Fn) : ∀ (ops : List Op) (i : Nat) (st : St) (acc : List OpRes),
    ExecInv st → ExecInv (Dig.runOps ctx fns ops i st acc).1 := by
  intro ops
  induction ops with
  | nil => intro i st acc h; exact h
  | cons op rest ih =>
    intro i st acc h
    simp only [Dig.runOps]
    have := h.step ctx fns i op
    cases hs : Dig.step ctx fns st i op with
    | mk st' r =>
      rw [hs] at this
      exact ih _ _ _ this

theorem execInv_program (p : Program) : ExecInv (runProgram p).1 :=
  ExecInv.runOps p.ctx p.fns p.ops 0 {} [] ExecInv.init

end Dig
