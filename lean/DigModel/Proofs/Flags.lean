import DigModel.Proofs.Frame
/-
  The flag discipline of the resolver (`called`, `onStack`, decorator state) and
  its consequence for executions: across any resolver call, whatever its outcome,

  * a node that is being built (`onStack`) is left completely untouched and is not executed;
  * a node that was built already is not executed;
  * every node has at most one *successful* execution, and then it is marked built;
  * `onStack` marks are balanced (every call leaves them as it found them), `called` only grows.
-/
namespace Dig

def isOkExit (w : Who) : Event → Bool
  | .exit w' _ _ .ok => decide (w' = w)
  | _ => false

/-- number of successful executions of node `w` in a list of events -/
def okExits (w : Who) (l : List Event) : Nat := l.countP (isOkExit w)

theorem okExits_append (w : Who) (l1 l2 : List Event) : okExits w (l1 ++ l2) = okExits w l1 + okExits w l2 := by
  simp [okExits, List.countP_append]

theorem okExits_nil (w : Who) : okExits w [] = 0 := rfl

/-- provider and decorator tables only mention existing nodes -/
def ValidReg (st : St) : Prop :=
  (∀ s k n, n ∈ agetL (st.scope s).providers k → n < st.ctors.length) ∧
  (∀ s k d, aget (st.scope s).decorators k = some d → d < st.decos.length)

theorem ValidReg.of_frame {a b : St} (h : ValidReg a) (hf : RegFrame a b) : ValidReg b := by
  obtain ⟨hl, hs, _, hc, _, hd, _⟩ := hf
  constructor
  · intro s k n hn
    rw [← (hs s).2.2.1] at hn
    rw [← hc]; exact h.1 s k n hn
  · intro s k d hd'
    rw [← (hs s).2.2.2.1] at hd'
    rw [← hd]; exact h.2 s k d hd'

/-- the relation between the state before and after a resolver call -/
structure Flags (a b : St) : Prop where
  reg : RegFrame a b
  ext : ∃ l, b.hist = a.hist ++ l ∧ b.log = a.log ++ l ∧
    (∀ n, okExits (.ctor n) l ≤ 1 ∧
          ((a.ctor n).called = true → okExits (.ctor n) l = 0) ∧
          ((a.ctor n).onStack = true → okExits (.ctor n) l = 0) ∧
          (okExits (.ctor n) l = 1 → (b.ctor n).called = true)) ∧
    (∀ d, okExits (.deco d) l ≤ 1 ∧
          ((a.deco d).state = .called → okExits (.deco d) l = 0) ∧
          ((a.deco d).state = .onStack → okExits (.deco d) l = 0) ∧
          (okExits (.deco d) l = 1 → (b.deco d).state = .called))
  ctorFrame : ∀ n, (a.ctor n).onStack = true → b.ctor n = a.ctor n
  ctorBal : ∀ n, (b.ctor n).onStack = (a.ctor n).onStack
  ctorMono : ∀ n, (a.ctor n).called = true → (b.ctor n).called = true
  decoFrame : ∀ d, (a.deco d).state = .onStack → b.deco d = a.deco d
  decoBal : ∀ d, ((b.deco d).state = .onStack ↔ (a.deco d).state = .onStack)
  decoMono : ∀ d, (a.deco d).state = .called → (b.deco d).state = .called
  /-- nodes that do not exist are not executed -/
  range : ∀ l, b.hist = a.hist ++ l →
    (∀ n, a.ctors.length ≤ n → okExits (.ctor n) l = 0) ∧ (∀ d, a.decos.length ≤ d → okExits (.deco d) l = 0)

theorem Flags.refl (a : St) : Flags a a where
  reg := RegFrame.refl a
  ext := ⟨[], by simp, by simp,
    fun n => ⟨by simp [okExits], fun _ => rfl, fun _ => rfl, fun h => by simp [okExits] at h⟩,
    fun d => ⟨by simp [okExits], fun _ => rfl, fun _ => rfl, fun h => by simp [okExits] at h⟩⟩
  ctorFrame _ _ := rfl
  ctorBal _ := rfl
  ctorMono _ h := h
  decoFrame _ _ := rfl
  decoBal _ := Iff.rfl
  decoMono _ h := h
  range l hl := by
    have : l = [] := by
      have := List.append_cancel_left (as := a.hist) (bs := l) (cs := []) (by simpa using hl.symm)
      exact this
    subst this
    exact ⟨fun _ _ => rfl, fun _ _ => rfl⟩

theorem Flags.trans {a b c : St} (h1 : Flags a b) (h2 : Flags b c) : Flags a c where
  reg := h1.reg.trans h2.reg
  ext := by
    obtain ⟨l1, hh1, hl1, hc1, hd1⟩ := h1.ext
    obtain ⟨l2, hh2, hl2, hc2, hd2⟩ := h2.ext
    refine ⟨l1 ++ l2, by rw [hh2, hh1, List.append_assoc], by rw [hl2, hl1, List.append_assoc], ?_, ?_⟩
    · intro n
      obtain ⟨a1, a2, a3, a4⟩ := hc1 n
      obtain ⟨b1, b2, b3, b4⟩ := hc2 n
      rw [okExits_append]
      refine ⟨?_, ?_, ?_, ?_⟩
      · by_cases h : okExits (.ctor n) l1 = 1
        · have := b2 (a4 h); omega
        · omega
      · intro h; have := a2 h; have := b2 (h1.ctorMono n h); omega
      · intro h
        have e1 := a3 h
        have : (b.ctor n).onStack = true := by rw [h1.ctorBal n]; exact h
        have := b3 this; omega
      · intro h
        by_cases h' : okExits (.ctor n) l1 = 1
        · exact h2.ctorMono n (a4 h')
        · exact b4 (by omega)
    · intro d
      obtain ⟨a1, a2, a3, a4⟩ := hd1 d
      obtain ⟨b1, b2, b3, b4⟩ := hd2 d
      rw [okExits_append]
      refine ⟨?_, ?_, ?_, ?_⟩
      · by_cases h : okExits (.deco d) l1 = 1
        · have := b2 (a4 h); omega
        · omega
      · intro h; have := a2 h; have := b2 (h1.decoMono d h); omega
      · intro h
        have e1 := a3 h
        have := b3 ((h1.decoBal d).mpr h); omega
      · intro h
        by_cases h' : okExits (.deco d) l1 = 1
        · exact h2.decoMono d (a4 h')
        · exact b4 (by omega)
  ctorFrame n h := by
    have e := h1.ctorFrame n h
    have : (b.ctor n).onStack = true := by rw [e]; exact h
    rw [h2.ctorFrame n this, e]
  ctorBal n := by rw [h2.ctorBal, h1.ctorBal]
  ctorMono n h := h2.ctorMono n (h1.ctorMono n h)
  decoFrame d h := by
    have e := h1.decoFrame d h
    have : (b.deco d).state = .onStack := by rw [e]; exact h
    rw [h2.decoFrame d this, e]
  decoBal d := (h2.decoBal d).trans (h1.decoBal d)
  decoMono d h := h2.decoMono d (h1.decoMono d h)
  range l hl := by
    obtain ⟨l1, hh1, _, _, _⟩ := h1.ext
    obtain ⟨l2, hh2, _, _, _⟩ := h2.ext
    have : l = l1 ++ l2 := by
      apply List.append_cancel_left (as := a.hist)
      rw [← hl, hh2, hh1, List.append_assoc]
    subst this
    obtain ⟨r1, r1'⟩ := h1.range l1 hh1
    obtain ⟨r2, r2'⟩ := h2.range l2 hh2
    have ec := h1.reg.2.2.2.1
    have ed := h1.reg.2.2.2.2.2.1
    constructor
    · intro n hn; rw [okExits_append, r1 n hn, r2 n (by omega)]
    · intro d hd; rw [okExits_append, r1' d hd, r2' d (by omega)]

end Dig

namespace Dig

/-! ### the tails -/

theorem okExits_cb (w : Who) (l : List Event) (h : l = [] ∨ ∃ op who fn err rt, l = [.cb op who fn err rt]) :
    okExits w l = 0 := by
  rcases h with h | ⟨op, who, fn, err, rt, h⟩ <;> subst h <;> simp [okExits, isOkExit]

theorem okExits_bodyEvents (ctx : Ctx) (who : Who) (fn : Fn) (args : List Val) (st : St) (w : Who) :
    okExits w (bodyEvents ctx who fn args st) =
      if who = w ∧ exitKind ctx fn (ctx.beh fn.id (st.execCount fn.id)) = .ok then 1 else 0 := by
  simp only [bodyEvents, okExits, List.countP_cons, List.countP_nil, isOkExit]
  cases hk : exitKind ctx fn (ctx.beh fn.id (st.execCount fn.id)) <;> by_cases hw : who = w <;> simp [hw]

/-- successful executions in the events of one run of node `who`'s function -/
theorem okExits_tail (ctx : Ctx) (who : Who) (fn : Fn) (args : List Val) (st : St) (lb lc : List Event)
    (hb : (ctx.cfg.dry = true ∧ lb = []) ∨ (ctx.cfg.dry = false ∧ lb = bodyEvents ctx who fn args st))
    (hc : lc = [] ∨ ∃ op err rt, lc = [.cb op who fn.id err rt]) (w : Who) :
    okExits w (lb ++ lc) ≤ 1 ∧ (w ≠ who → okExits w (lb ++ lc) = 0) ∧
    (okExits w (lb ++ lc) = 1 → (callBody ctx who fn args st).1.commits = true) := by
  have hcb : okExits w lc = 0 := okExits_cb w lc (by
    rcases hc with h | ⟨op, err, rt, h⟩
    · exact Or.inl h
    · exact Or.inr ⟨_, _, _, _, _, h⟩)
  rw [okExits_append, hcb]
  rcases hb with ⟨_, h⟩ | ⟨hnd, h⟩
  · subst h; simp [okExits]
  · subst h
    rw [okExits_bodyEvents]
    refine ⟨by split <;> omega, ?_, ?_⟩
    · intro hw
      have : ¬ (who = w) := fun h => hw h.symm
      simp [this]
    · intro h1
      by_cases hk : exitKind ctx fn (ctx.beh fn.id (st.execCount fn.id)) = .ok
      · exact commits_of_ok_exit ctx hnd who fn args st hk
      · simp [hk] at h1

end Dig

namespace Dig

/-! ### combinators relative to a predicate that the relation preserves -/

def PresV (V : St → Prop) (R : St → St → Prop) {α : Type} (m : EM α) : Prop := ∀ st, V st → R st (m st).2

section
variable {V : St → Prop} {R : St → St → Prop} (hR : StepRel R) (hV : ∀ {a b}, V a → R a b → V b)
include hR hV

theorem presV_pure {α : Type} (a : α) : PresV V R (EM.pure a) := fun st _ => hR.refl st

theorem presV_bind {α β : Type} {m : EM α} {f : α → EM β} (hm : PresV V R m) (hf : ∀ a, PresV V R (f a)) :
    PresV V R (EM.bind m f) := by
  intro st hv
  unfold EM.bind
  have h1 := hm st hv
  cases h : m st with
  | mk r s' =>
    rw [h] at h1
    cases r with
    | ok a => exact hR.trans h1 (hf a s' (hV hv h1))
    | error e => exact h1

theorem presV_wrapErr {α : Type} {m : EM α} (w : DErr → DErr) (hm : PresV V R m) : PresV V R (EM.wrapErr m w) := by
  intro st hv
  unfold EM.wrapErr
  have h1 := hm st hv
  cases h : m st with
  | mk r s' =>
    rw [h] at h1
    cases r with
    | ok a => exact h1
    | error e => cases e <;> exact h1

theorem presV_forEachM {α : Type} (xs : List α) {f : α → EM Unit} (hf : ∀ a, PresV V R (f a)) :
    PresV V R (forEachM xs f) := by
  induction xs with
  | nil => unfold forEachM; exact presV_pure hR hV ()
  | cons x rest ih => unfold forEachM; exact presV_bind hR hV (hf x) (fun _ => ih)

/-- loop over a list whose elements all satisfy a state-independent side condition -/
theorem presV_forEachM_mem {α : Type} (xs : List α) {f : α → EM Unit} (hf : ∀ a, a ∈ xs → PresV V R (f a)) :
    PresV V R (forEachM xs f) := by
  induction xs with
  | nil => unfold forEachM; exact presV_pure hR hV ()
  | cons x rest ih =>
    unfold forEachM
    exact presV_bind hR hV (hf x (by simp)) (fun _ => ih (fun a ha => hf a (by simp [ha])))

theorem presV_firstM_mem {α β : Type} (xs : List α) {f : α → EM (Option β)} (hf : ∀ a, a ∈ xs → PresV V R (f a)) :
    PresV V R (firstM xs f) := by
  induction xs with
  | nil => unfold firstM; exact presV_pure hR hV none
  | cons x rest ih =>
    unfold firstM
    apply presV_bind hR hV (hf x (by simp))
    intro r
    cases r with
    | none => exact ih (fun a ha => hf a (by simp [ha]))
    | some b => exact presV_pure hR hV (some b)

theorem presV_mapM {α β : Type} (xs : List α) {f : α → EM β} (hf : ∀ a, PresV V R (f a)) :
    PresV V R (mapM' xs f) := by
  induction xs with
  | nil => unfold mapM'; exact presV_pure hR hV []
  | cons x rest ih =>
    unfold mapM'
    exact presV_bind hR hV (hf x) (fun b => presV_bind hR hV ih (fun bs => presV_pure hR hV (b :: bs)))

theorem presV_shallowCheck (c : Nat) (ps : List Param) : PresV V R (shallowCheck c ps) := by
  intro st _
  unfold shallowCheck
  split <;> exact hR.refl st

end

theorem flags_stepRel : StepRel Flags := ⟨Flags.refl, Flags.trans⟩

theorem shallowCheck_state' (c : Nat) (ps : List Param) (st : St) : (shallowCheck c ps st).2 = st := by
  unfold shallowCheck
  split <;> rfl

theorem wrapErr_state'' {α : Type} (m : EM α) (w : DErr → DErr) (st : St) : (EM.wrapErr m w st).2 = (m st).2 := by
  unfold EM.wrapErr
  cases h : m st with
  | mk r s' =>
    cases r with
    | ok a => rfl
    | error e => cases e <;> rfl

theorem flags_valid {a b : St} (h : ValidReg a) (hf : Flags a b) : ValidReg b := h.of_frame hf.reg

end Dig

namespace Dig

/-! ### one run of a node's function, as seen by the flags -/

structure CtorTailFacts (n : Nat) (a b : St) : Prop where
  reg : RegFrame a b
  ext : ∃ l, b.hist = a.hist ++ l ∧ b.log = a.log ++ l ∧ (∀ w, w ≠ .ctor n → okExits w l = 0) ∧
    okExits (.ctor n) l ≤ 1 ∧ (okExits (.ctor n) l = 1 → (b.ctor n).called = true)
  others : ∀ m, m ≠ n → b.ctor m = a.ctor m
  onStack : (b.ctor n).onStack = (a.ctor n).onStack
  mono : (a.ctor n).called = true → (b.ctor n).called = true
  decos : b.decos = a.decos

theorem CtorTailFacts.refl (n : Nat) (a : St) : CtorTailFacts n a a :=
  ⟨RegFrame.refl a, ⟨[], by simp, by simp, fun _ _ => rfl, by simp [okExits], fun h => by simp [okExits] at h⟩,
   fun _ _ => rfl, rfl, fun h => h, rfl⟩

theorem ctorTail_facts (ctx : Ctx) (n : Nat) (node : CtorNode) (args : List Val) (st : St) (hn : n < st.ctors.length) :
    CtorTailFacts n st (ctorTail ctx n node args st).2 := by
  obtain ⟨lb, lc, hh, hl, hb, hc⟩ := ctorTail_log ctx n node args st
  have hok := okExits_tail ctx (.ctor n) node.fn args st lb lc hb hc
  refine ⟨regFrame_ctorTail ctx st n node args, ⟨lb ++ lc, hh, hl, fun w hw => (hok w).2.1 hw, (hok _).1, ?_⟩, ?_, ?_, ?_,
    ctorTail_decos ctx n node args st⟩
  · intro h
    rw [ctorTail_ctor]
    simp [(hok _).2.2 h, hn]
  · intro m hm
    rw [ctorTail_ctor]
    simp [hm.symm]
  · rw [ctorTail_ctor]; split <;> rfl
  · intro h
    rw [ctorTail_ctor]; split
    · rfl
    · exact h

structure DecoTailFacts (d : Nat) (a b : St) : Prop where
  reg : RegFrame a b
  ext : ∃ l, b.hist = a.hist ++ l ∧ b.log = a.log ++ l ∧ (∀ w, w ≠ .deco d → okExits w l = 0) ∧
    okExits (.deco d) l ≤ 1 ∧ (okExits (.deco d) l = 1 → (b.deco d).state = .called)
  others : ∀ m, m ≠ d → b.deco m = a.deco m
  keep : (b.deco d).state = .called ∨ (b.deco d).state = (a.deco d).state
  ctors : b.ctors = a.ctors

theorem DecoTailFacts.refl (d : Nat) (a : St) : DecoTailFacts d a a :=
  ⟨RegFrame.refl a, ⟨[], by simp, by simp, fun _ _ => rfl, by simp [okExits], fun h => by simp [okExits] at h⟩,
   fun _ _ => rfl, Or.inr rfl, rfl⟩

theorem decoTail_facts (ctx : Ctx) (d : Nat) (node : DecoNode) (args : List Val) (st : St) (hd : d < st.decos.length) :
    DecoTailFacts d st (decoTail ctx d node args st).2 := by
  obtain ⟨lb, lc, hh, hl, hb, hc⟩ := decoTail_log ctx d node args st
  have hok := okExits_tail ctx (.deco d) node.fn args st lb lc hb hc
  refine ⟨regFrame_decoTail ctx st d node args, ⟨lb ++ lc, hh, hl, fun w hw => (hok w).2.1 hw, (hok _).1, ?_⟩, ?_, ?_,
    decoTail_ctors ctx d node args st⟩
  · intro h
    rw [decoTail_deco]
    simp [(hok _).2.2 h, hd]
  · intro m hm
    rw [decoTail_deco]
    simp [hm.symm]
  · rw [decoTail_deco]; split
    · exact Or.inl rfl
    · exact Or.inr rfl

/-! ### the brackets around the tails -/

theorem modCtor_deco (st : St) (n : Nat) (f : CtorNode → CtorNode) (d : Nat) : (st.modCtor n f).deco d = st.deco d := rfl
theorem modDeco_ctor (st : St) (d : Nat) (f : DecoNode → DecoNode) (n : Nat) : (st.modDeco d f).ctor n = st.ctor n := rfl

/-- `onStack = true; defer onStack = false` around building the arguments and running the function -/
theorem ctor_bracket (n : Nat) (st s3 s4 : St) (hn : n < st.ctors.length)
    (hc : (st.ctor n).called = false) (ho : (st.ctor n).onStack = false)
    (h1 : Flags (st.modCtor n fun x => { x with onStack := true }) s3) (h2 : CtorTailFacts n s3 s4) :
    Flags st (s4.modCtor n fun x => { x with onStack := false }) := by
  have ha1 : ∀ m, (st.modCtor n fun x => { x with onStack := true }).ctor m =
      if n = m then { st.ctor m with onStack := true } else st.ctor m := by
    intro m; rw [ctor_modCtor]
    by_cases h : n = m
    · subst h; simp [hn]
    · simp [h]
  have hlen4 : s4.ctors.length = st.ctors.length := by
    have e1 := h1.reg.2.2.2.1
    have e2 := h2.reg.2.2.2.1
    simp [St.modCtor] at e1
    omega
  have h5 : ∀ m, (s4.modCtor n fun x => { x with onStack := false }).ctor m =
      if n = m then { s4.ctor m with onStack := false } else s4.ctor m := by
    intro m; rw [ctor_modCtor]
    by_cases h : n = m
    · subst h; simp [hlen4, hn]
    · simp [h]
  obtain ⟨l1, hh1, hl1, hc1, hd1⟩ := h1.ext
  obtain ⟨lt, hht, hlt, hwt, hnt, hct⟩ := h2.ext
  refine ⟨?_, ⟨l1 ++ lt, ?_, ?_, ?_, ?_⟩, ?_, ?_, ?_, ?_, ?_, ?_, ?_⟩
  · exact (regFrame_modCtor st n (fun x => { x with onStack := true }) (fun _ => ⟨rfl, rfl, rfl, rfl, rfl, rfl, rfl⟩)).trans
      (h1.reg.trans (h2.reg.trans
        (regFrame_modCtor s4 n (fun x => { x with onStack := false }) (fun _ => ⟨rfl, rfl, rfl, rfl, rfl, rfl, rfl⟩))))
  · show s4.hist = st.hist ++ (l1 ++ lt)
    rw [hht, hh1, List.append_assoc]; rfl
  · show s4.log = st.log ++ (l1 ++ lt)
    rw [hlt, hl1, List.append_assoc]; rfl
  · intro m
    rw [okExits_append]
    obtain ⟨a1, a2, a3, a4⟩ := hc1 m
    rw [ha1] at a2 a3
    by_cases hm : n = m
    · subst hm
      have z : okExits (.ctor n) l1 = 0 := a3 (by simp)
      refine ⟨by omega, fun h => (by rw [hc] at h; cases h), fun h => (by rw [ho] at h; cases h), ?_⟩
      intro h
      rw [h5]; simp
      exact hct (by omega)
    · simp only [hm, if_false] at a2 a3
      have z : okExits (.ctor m) lt = 0 := hwt _ (by intro h; injection h with h; exact hm h.symm)
      refine ⟨by omega, fun h => (by have := a2 h; omega), fun h => (by have := a3 h; omega), ?_⟩
      intro h
      rw [h5]; simp only [hm, if_false]
      rw [h2.others m (fun h => hm h.symm)]
      exact a4 (by omega)
  · intro d
    rw [okExits_append]
    obtain ⟨a1, a2, a3, a4⟩ := hd1 d
    have z : okExits (.deco d) lt = 0 := hwt _ (by intro h; cases h)
    rw [modCtor_deco] at a2 a3
    refine ⟨by omega, fun h => (by have := a2 h; omega), fun h => (by have := a3 h; omega), ?_⟩
    intro h
    rw [modCtor_deco]
    have : s4.deco d = s3.deco d := by simp [St.deco, h2.decos]
    rw [this]; exact a4 (by omega)
  · -- ctorFrame
    intro m hm
    have hmn : n ≠ m := fun h => by subst h; rw [ho] at hm; cases hm
    rw [h5]; simp only [hmn, if_false]
    rw [h2.others m (fun h => hmn h.symm)]
    have := h1.ctorFrame m (by rw [ha1]; simp [hmn, hm])
    rw [this, ha1]; simp [hmn]
  · -- ctorBal
    intro m
    rw [h5]
    by_cases hmn : n = m
    · subst hmn; simp [ho]
    · simp only [hmn, if_false]
      rw [h2.others m (fun h => hmn h.symm), h1.ctorBal m, ha1]; simp [hmn]
  · -- ctorMono
    intro m hm
    have hmn : n ≠ m := fun h => by subst h; rw [hc] at hm; cases hm
    rw [h5]; simp only [hmn, if_false]
    rw [h2.others m (fun h => hmn h.symm)]
    exact h1.ctorMono m (by rw [ha1]; simp [hmn, hm])
  · -- decoFrame
    intro d hd
    rw [modCtor_deco]
    have : s4.deco d = s3.deco d := by simp [St.deco, h2.decos]
    rw [this]
    exact h1.decoFrame d (by rw [modCtor_deco]; exact hd)
  · intro d
    rw [modCtor_deco]
    have : s4.deco d = s3.deco d := by simp [St.deco, h2.decos]
    rw [this]
    have := h1.decoBal d
    rw [modCtor_deco] at this
    exact this
  · intro d hd
    rw [modCtor_deco]
    have : s4.deco d = s3.deco d := by simp [St.deco, h2.decos]
    rw [this]
    exact h1.decoMono d (by rw [modCtor_deco]; exact hd)
  · -- range
    intro l hl
    have : l = l1 ++ lt := by
      apply List.append_cancel_left (as := st.hist)
      rw [← hl]
      show s4.hist = _
      rw [hht, hh1, List.append_assoc]; rfl
    subst this
    obtain ⟨r1, r1'⟩ := h1.range l1 hh1
    constructor
    · intro m hm
      have hmn : m ≠ n := by omega
      rw [okExits_append, r1 m (by simpa [St.modCtor] using hm), hwt _ (by intro h; injection h with h; exact hmn h)]
    · intro d hd
      rw [okExits_append, r1' d hd, hwt _ (by intro h; cases h)]

end Dig

namespace Dig

/-- `state = onStack; defer (reset to ready unless called)` around building the arguments and running the decorator -/
theorem deco_bracket (d : Nat) (st s3 s4 : St) (hd : d < st.decos.length)
    (hs : (st.deco d).state ≠ .called) (ho : (st.deco d).state ≠ .onStack)
    (h1 : Flags (st.modDeco d fun x => { x with state := .onStack }) s3) (h2 : DecoTailFacts d s3 s4) :
    Flags st (s4.modDeco d fun x => if x.state == .called then x else { x with state := .ready }) := by
  have ha1 : ∀ m, (st.modDeco d fun x => { x with state := .onStack }).deco m =
      if d = m then { st.deco m with state := .onStack } else st.deco m := by
    intro m; rw [deco_modDeco]
    by_cases h : d = m
    · subst h; simp [hd]
    · simp [h]
  have hlen4 : s4.decos.length = st.decos.length := by
    have e1 := h1.reg.2.2.2.2.2.1
    have e2 := h2.reg.2.2.2.2.2.1
    simp [St.modDeco] at e1
    omega
  have h5 : ∀ m, (s4.modDeco d fun x => if x.state == .called then x else { x with state := .ready }).deco m =
      if d = m then (if (s4.deco m).state == .called then s4.deco m else { s4.deco m with state := .ready }) else s4.deco m := by
    intro m; rw [deco_modDeco]
    by_cases h : d = m
    · subst h; simp [hlen4, hd]
    · simp [h]
  have hc4 : ∀ n, s4.ctor n = s3.ctor n := fun n => by simp [St.ctor, h2.ctors]
  obtain ⟨l1, hh1, hl1, hc1, hd1⟩ := h1.ext
  obtain ⟨lt, hht, hlt, hwt, hnt, hct⟩ := h2.ext
  refine ⟨?_, ⟨l1 ++ lt, ?_, ?_, ?_, ?_⟩, ?_, ?_, ?_, ?_, ?_, ?_, ?_⟩
  · exact (regFrame_modDeco st d (fun x => { x with state := .onStack }) (fun _ => ⟨rfl, rfl, rfl, rfl, rfl⟩)).trans
      (h1.reg.trans (h2.reg.trans
        (regFrame_modDeco s4 d (fun x => if x.state == .called then x else { x with state := .ready })
          (fun x => by split <;> exact ⟨rfl, rfl, rfl, rfl, rfl⟩))))
  · show s4.hist = st.hist ++ (l1 ++ lt)
    rw [hht, hh1, List.append_assoc]; rfl
  · show s4.log = st.log ++ (l1 ++ lt)
    rw [hlt, hl1, List.append_assoc]; rfl
  · intro n
    rw [okExits_append]
    obtain ⟨a1, a2, a3, a4⟩ := hc1 n
    have z : okExits (.ctor n) lt = 0 := hwt _ (by intro h; cases h)
    rw [modDeco_ctor] at a2 a3
    refine ⟨by omega, fun h => (by have := a2 h; omega), fun h => (by have := a3 h; omega), ?_⟩
    intro h
    rw [modDeco_ctor, hc4]; exact a4 (by omega)
  · intro m
    rw [okExits_append]
    obtain ⟨a1, a2, a3, a4⟩ := hd1 m
    rw [ha1] at a2 a3
    by_cases hm : d = m
    · subst hm
      have z : okExits (.deco d) l1 = 0 := a3 (by simp)
      refine ⟨by omega, fun h => absurd h hs, fun h => absurd h ho, ?_⟩
      intro h
      have hcalled := hct (by omega)
      rw [h5]; simp [hcalled]
    · simp only [hm, if_false] at a2 a3
      have z : okExits (.deco m) lt = 0 := hwt _ (by intro h; injection h with h; exact hm h.symm)
      refine ⟨by omega, fun h => (by have := a2 h; omega), fun h => (by have := a3 h; omega), ?_⟩
      intro h
      rw [h5]; simp only [hm, if_false]
      rw [h2.others m (fun h => hm h.symm)]
      exact a4 (by omega)
  · intro n hn
    rw [modDeco_ctor, hc4]
    have := h1.ctorFrame n (by rw [modDeco_ctor]; exact hn)
    rw [this, modDeco_ctor]
  · intro n
    rw [modDeco_ctor, hc4, h1.ctorBal n, modDeco_ctor]
  · intro n hn
    rw [modDeco_ctor, hc4]
    exact h1.ctorMono n (by rw [modDeco_ctor]; exact hn)
  · -- decoFrame
    intro m hm
    have hmd : d ≠ m := fun h => by subst h; exact ho hm
    rw [h5]; simp only [hmd, if_false]
    rw [h2.others m (fun h => hmd h.symm)]
    have := h1.decoFrame m (by rw [ha1]; simp [hmd, hm])
    rw [this, ha1]; simp [hmd]
  · -- decoBal
    intro m
    rw [h5]
    by_cases hmd : d = m
    · subst hmd
      simp only [if_true]
      constructor
      · intro h
        split at h
        · rename_i hc; simp at hc; rw [hc] at h; cases h
        · simp at h
      · intro h; exact absurd h ho
    · simp only [hmd, if_false]
      rw [h2.others m (fun h => hmd h.symm)]
      have := h1.decoBal m
      rw [ha1] at this
      simpa [hmd] using this
  · -- decoMono
    intro m hm
    have hmd : d ≠ m := fun h => by subst h; exact hs hm
    rw [h5]; simp only [hmd, if_false]
    rw [h2.others m (fun h => hmd h.symm)]
    exact h1.decoMono m (by rw [ha1]; simp [hmd, hm])
  · -- range
    intro l hl
    have : l = l1 ++ lt := by
      apply List.append_cancel_left (as := st.hist)
      rw [← hl]
      show s4.hist = _
      rw [hht, hh1, List.append_assoc]; rfl
    subst this
    obtain ⟨r1, r1'⟩ := h1.range l1 hh1
    constructor
    · intro n hn
      rw [okExits_append, r1 n hn, hwt _ (by intro h; cases h)]
    · intro m hm
      have hmd : m ≠ d := by omega
      rw [okExits_append, r1' m (by simpa [St.modDeco] using hm), hwt _ (by intro h; injection h with h; exact hmd h)]

end Dig

namespace Dig

/-! ### the resolver respects the flag discipline -/

/-- validity of the registry, with the table sizes named -/
def VL (L L' : Nat) (s : St) : Prop := ValidReg s ∧ s.ctors.length = L ∧ s.decos.length = L'

theorem VL.step {L L' : Nat} {a b : St} (h : VL L L' a) (hf : Flags a b) : VL L L' b :=
  ⟨h.1.of_frame hf.reg, by rw [← hf.reg.2.2.2.1]; exact h.2.1, by rw [← hf.reg.2.2.2.2.2.1]; exact h.2.2⟩

theorem findDeco_some (st : St) (k : Key) (anc : List Nat) (d ds : Nat) (h : findDeco st k anc = some (d, ds)) :
    aget (st.scope ds).decorators k = some d ∧ (st.deco d).state ≠ .onStack := by
  induction anc with
  | nil => simp [findDeco] at h
  | cons s rest ih =>
    simp only [findDeco] at h
    split at h
    · rename_i d' hd'
      split at h
      · exact ih h
      · rename_i hne
        injection h with h; injection h with e1 e2; subst e1; subst e2
        exact ⟨hd', by intro hc; apply hne; simp [hc]⟩
    · exact ih h

theorem findProviders_providers (st : St) (k : Key) (anc : List Nat) (pc : Nat) (ns : List Nat)
    (h : findProviders st k anc = .providers pc ns) : ns = agetL (st.scope pc).providers k := by
  induction anc with
  | nil => simp [findProviders] at h
  | cons s rest ih =>
    simp only [findProviders] at h
    split at h
    · cases h
    · split at h
      · exact ih h
      · rename_i hne
        injection h with e1 e2
        subst e1; subst e2
        rfl

theorem ctorOutcome_ok_iff (ctx : Ctx) (f : Nat) (r : BodyRes) :
    (∃ u, (ctorOutcome ctx f r).1 = .ok u) ↔ r.commits = true := by
  cases r <;> simp [ctorOutcome, BodyRes.commits]
  split <;> simp

theorem decoOutcome_ok_iff (ctx : Ctx) (f : Nat) (r : BodyRes) :
    (∃ u, (decoOutcome ctx f r).1 = .ok u) ↔ r.commits = true := by
  cases r <;> simp [decoOutcome, BodyRes.commits]
  split <;> simp

/-- the part of `constructorNode.Call` between setting and clearing `onStack`; when it ends with a
    failure the constructor's `called` flag is what it was after its arguments were built -/
theorem ctor_inner (ctx : Ctx) (fuel n c : Nat) (node : CtorNode) (L L' : Nat) (hn : n < L)
    (hL : PresV (VL L L') Flags (buildList ctx fuel node.params c)) (st1 : St) (hv : VL L L' st1) :
    ∃ s3, Flags st1 s3 ∧ CtorTailFacts n s3
      ((EM.bind (shallowCheck c node.params) fun _ =>
        EM.bind (EM.wrapErr (buildList ctx fuel node.params c) .argsFailed) fun args =>
        ctorTail ctx n node args) st1).2 ∧
      (∀ e, ((EM.bind (shallowCheck c node.params) fun _ =>
        EM.bind (EM.wrapErr (buildList ctx fuel node.params c) .argsFailed) fun args =>
        ctorTail ctx n node args) st1).1 = .error e →
        (((EM.bind (shallowCheck c node.params) fun _ =>
        EM.bind (EM.wrapErr (buildList ctx fuel node.params c) .argsFailed) fun args =>
        ctorTail ctx n node args) st1).2.ctor n).called = (s3.ctor n).called) := by
  unfold EM.bind
  have hs := shallowCheck_state' c node.params st1
  cases hsc : shallowCheck c node.params st1 with
  | mk r1 s1 =>
    rw [hsc] at hs; simp only at hs; subst hs
    cases r1 with
    | error e => exact ⟨s1, Flags.refl _, CtorTailFacts.refl _ _, fun _ _ => rfl⟩
    | ok u =>
      simp only
      have hb := presV_wrapErr flags_stepRel (fun h1 h2 => VL.step h1 h2) .argsFailed hL s1 hv
      cases hbl : EM.wrapErr (buildList ctx fuel node.params c) DErr.argsFailed s1 with
      | mk r2 s3 =>
        rw [hbl] at hb
        cases r2 with
        | error e => exact ⟨s3, hb, CtorTailFacts.refl _ _, fun _ _ => rfl⟩
        | ok args =>
          simp only
          have hv3 := VL.step hv hb
          refine ⟨s3, hb, ctorTail_facts ctx n node args s3 (by rw [hv3.2.1]; exact hn), ?_⟩
          intro e he
          have hnc : (callBody ctx (.ctor n) node.fn args s3).1.commits ≠ true := by
            intro hcm
            obtain ⟨u, hu⟩ := (ctorOutcome_ok_iff ctx node.fn.id _).mpr hcm
            simp only [ctorTail] at he
            rw [hu] at he; cases he
          rw [ctorTail_ctor]; simp [hnc]

theorem deco_inner (ctx : Ctx) (fuel d c : Nat) (node : DecoNode) (L L' : Nat) (hd : d < L')
    (hL : PresV (VL L L') Flags (buildList ctx fuel node.params node.s)) (st1 : St) (hv : VL L L' st1) :
    ∃ s3, Flags st1 s3 ∧ DecoTailFacts d s3
      ((EM.bind (shallowCheck c node.params) fun _ =>
        EM.bind (EM.wrapErr (buildList ctx fuel node.params node.s) .argsFailed) fun args =>
        decoTail ctx d node args) st1).2 ∧
      (∀ e, ((EM.bind (shallowCheck c node.params) fun _ =>
        EM.bind (EM.wrapErr (buildList ctx fuel node.params node.s) .argsFailed) fun args =>
        decoTail ctx d node args) st1).1 = .error e →
        (((EM.bind (shallowCheck c node.params) fun _ =>
        EM.bind (EM.wrapErr (buildList ctx fuel node.params node.s) .argsFailed) fun args =>
        decoTail ctx d node args) st1).2.deco d).state = (s3.deco d).state) := by
  unfold EM.bind
  have hs := shallowCheck_state' c node.params st1
  cases hsc : shallowCheck c node.params st1 with
  | mk r1 s1 =>
    rw [hsc] at hs; simp only at hs; subst hs
    cases r1 with
    | error e => exact ⟨s1, Flags.refl _, DecoTailFacts.refl _ _, fun _ _ => rfl⟩
    | ok u =>
      simp only
      have hb := presV_wrapErr flags_stepRel (fun h1 h2 => VL.step h1 h2) .argsFailed hL s1 hv
      cases hbl : EM.wrapErr (buildList ctx fuel node.params node.s) DErr.argsFailed s1 with
      | mk r2 s3 =>
        rw [hbl] at hb
        cases r2 with
        | error e => exact ⟨s3, hb, DecoTailFacts.refl _ _, fun _ _ => rfl⟩
        | ok args =>
          simp only
          have hv3 := VL.step hv hb
          refine ⟨s3, hb, decoTail_facts ctx d node args s3 (by rw [hv3.2.2]; exact hd), ?_⟩
          intro e he
          have hnc : (callBody ctx (.deco d) node.fn args s3).1.commits ≠ true := by
            intro hcm
            obtain ⟨u, hu⟩ := (decoOutcome_ok_iff ctx node.fn.id _).mpr hcm
            simp only [decoTail] at he
            rw [hu] at he; cases he
          rw [decoTail_deco]; simp [hnc]

end Dig

namespace Dig

theorem engine_flags (ctx : Ctx) (L L' : Nat) :
    ∀ fuel,
      (∀ n c, n < L → PresV (VL L L') Flags (callCtor ctx fuel n c)) ∧
      (∀ d s st, d < L' → VL L L' st → (st.deco d).state ≠ .onStack → Flags st (callDeco ctx fuel d s st).2) ∧
      (∀ k opt c, PresV (VL L L') Flags (buildSingle ctx fuel k opt c)) ∧
      (∀ k soft c, PresV (VL L L') Flags (buildGroup ctx fuel k soft c)) ∧
      (∀ p c, PresV (VL L L') Flags (buildParam ctx fuel p c)) ∧
      (∀ ps c, PresV (VL L L') Flags (buildList ctx fuel ps c)) := by
  have hR := flags_stepRel
  have hV : ∀ {a b : St}, VL L L' a → Flags a b → VL L L' b := fun h1 h2 => VL.step h1 h2
  intro fuel
  induction fuel with
  | zero =>
    refine ⟨?_, ?_, ?_, ?_, ?_, ?_⟩
    · intro n c _ st _; simp only [callCtor]; exact Flags.refl st
    · intro d s st _ _ _; simp only [callDeco]; exact Flags.refl st
    · intro k o c st _; simp only [buildSingle]; exact Flags.refl st
    · intro k o c st _; simp only [buildGroup]; exact Flags.refl st
    · intro p c st _; simp only [buildParam]; exact Flags.refl st
    · intro ps c st _; simp only [buildList]; exact Flags.refl st
  | succ fuel ih =>
    obtain ⟨ihC, ihD, ihS, ihG, ihP, ihL⟩ := ih
    refine ⟨?_, ?_, ?_, ?_, ?_, ?_⟩
    · -- callCtor
      intro n c hn st hv
      simp only [callCtor]
      split
      · exact Flags.refl st
      · rename_i hcalled
        split
        · exact Flags.refl st
        · rename_i hon
          have hc : (st.ctor n).called = false := by simpa using hcalled
          have ho : (st.ctor n).onStack = false := by simpa using hon
          have hv1 : VL L L' (st.modCtor n fun x => { x with onStack := true }) :=
            ⟨hv.1.of_frame (regFrame_modCtor st n _ (fun _ => ⟨rfl, rfl, rfl, rfl, rfl, rfl, rfl⟩)),
             by simp [St.modCtor, hv.2.1], hv.2.2⟩
          obtain ⟨s3, h1, h2, _⟩ := ctor_inner ctx fuel n c (st.ctor n) L L' hn (ihL _ _) _ hv1
          unfold EM.finally_
          simp only
          exact ctor_bracket n st s3 _ (by rw [hv.2.1]; exact hn) hc ho h1 h2
    · -- callDeco
      intro d s st hd hv hne
      simp only [callDeco]
      split
      · exact Flags.refl st
      · rename_i hcalled
        have hs : (st.deco d).state ≠ .called := by
          intro h; apply hcalled; simp [h]
        have hv1 : VL L L' (st.modDeco d fun x => { x with state := .onStack }) :=
          ⟨hv.1.of_frame (regFrame_modDeco st d _ (fun _ => ⟨rfl, rfl, rfl, rfl, rfl⟩)),
           hv.2.1, by simp [St.modDeco, hv.2.2]⟩
        obtain ⟨s3, h1, h2, _⟩ := deco_inner ctx fuel d s (st.deco d) L L' hd (ihL _ _) _ hv1
        unfold EM.finally_
        simp only
        exact deco_bracket d st s3 _ (by rw [hv.2.2]; exact hd) hs hne h1 h2
    · -- buildSingle
      intro k opt c st hv
      simp only [buildSingle]
      split
      · rename_i d ds hfd
        obtain ⟨hdec, hst⟩ := findDeco_some st k _ d ds hfd
        have hdl : d < L' := by rw [← hv.2.2]; exact hv.1.2 ds k d hdec
        have h1 : Flags st (EM.wrapErr (callDeco ctx fuel d ds) (DErr.paramSingle k 1) st).2 := by
          rw [wrapErr_state'']; exact ihD d ds st hdl hv hst
        unfold EM.bind
        cases hw : EM.wrapErr (callDeco ctx fuel d ds) (DErr.paramSingle k 1) st with
        | mk r s' =>
          rw [hw] at h1
          cases r with
          | error e => exact h1
          | ok u => simp only; split <;> exact h1
      · split
        · exact Flags.refl st
        · split
          · exact Flags.refl st
          · split <;> exact Flags.refl st
          · rename_i pc ns hfp
            have hns := findProviders_providers st k _ pc ns hfp
            have hmem : ∀ n, n ∈ ns → n < L := by
              intro n hn; rw [hns] at hn; rw [← hv.2.1]; exact hv.1.1 pc k n hn
            have h1 := presV_firstM_mem hR hV ns (f := fun n => fun st1 =>
                providerStep ctx.env k opt (ctorId ctx.sameIds (st1.ctor n).fn) (callCtor ctx fuel n (st1.ctor n).origS st1))
              (fun n hn st1 hv1 => by
                rw [providerStep_state]
                exact ihC n _ (hmem n hn) st1 hv1) st hv
            unfold EM.bind
            cases hw : firstM ns (fun n => fun st1 =>
                providerStep ctx.env k opt (ctorId ctx.sameIds (st1.ctor n).fn) (callCtor ctx fuel n (st1.ctor n).origS st1)) st with
            | mk r s' =>
              rw [hw] at h1
              cases r with
              | error e => exact h1
              | ok early =>
                simp only
                split
                · exact h1
                · split <;> exact h1
    · -- buildGroup
      intro k soft c st hv
      simp only [buildGroup]
      apply presV_bind hR hV (m := forEachM (st.ancestors c).reverse _) ?_ ?_ st hv
      · apply presV_forEachM hR hV
        intro s st1 hv1
        simp only
        split
        · rename_i d hdec
          split
          · exact Flags.refl st1
          · rename_i hne
            rw [wrapErr_state'']
            refine ihD d s st1 (by rw [← hv1.2.2]; exact hv1.1.2 s k d hdec) hv1 ?_
            intro hc; apply hne; simp [hc]
        · exact Flags.refl st1
      · intro _ st2 hv2
        simp only
        split
        · exact Flags.refl st2
        · apply presV_bind hR hV ?_ ?_ st2 hv2
          · split
            · exact presV_pure hR hV ()
            · apply presV_forEachM hR hV
              intro s st3 hv3
              apply presV_forEachM_mem hR hV _ ?_ st3 hv3
              intro n hn st4 hv4
              rw [wrapErr_state'']
              exact ihC n _ (by rw [← hv3.2.1]; exact hv3.1.1 s k n hn) st4 hv4
          · intro _ st5 _
            exact Flags.refl st5
    · -- buildParam
      intro p c
      cases p with
      | single k opt => simp only [buildParam]; exact ihS k opt c
      | grouped ty k soft pg => simp only [buildParam]; exact ihG k soft c
      | object ty fs =>
        simp only [buildParam]
        apply presV_bind hR hV (presV_mapM hR hV _ (fun f => ihP f c))
        intro hard
        apply presV_bind hR hV (presV_mapM hR hV _ (fun f => ihP f c))
        intro soft
        exact presV_pure hR hV _
    · -- buildList
      intro ps c
      simp only [buildList]
      exact presV_mapM hR hV _ (fun p => ihP p c)

end Dig

#print axioms Dig.engine_flags
