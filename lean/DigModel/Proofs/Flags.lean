import DigModel.Proofs.Frame
/-
  The flag discipline of the resolver (`called`, `onStack`, decorator state) and
  its consequence for executions: across any resolver call, whatever its outcome,

  * a node that is being built (`onStack`) is left completely untouched and is not executed;
  * a node that was built already is not executed;
  * every node has at most one *successful* execution, and then it is marked built;
  * `onStack` marks are balanced (every call leaves them as it found them), `called` only grows.
-/
namespace Dig

def isOkExit (w : Who) : Event → Bool
  | .exit w' _ _ .ok => decide (w' = w)
  | _ => false

/-- number of successful executions of node `w` in a list of events -/
def okExits (w : Who) (l : List Event) : Nat := l.countP (isOkExit w)

theorem okExits_append (w : Who) (l1 l2 : List Event) : okExits w (l1 ++ l2) = okExits w l1 + okExits w l2 := by
  simp [okExits, List.countP_append]

theorem okExits_nil (w : Who) : okExits w [] = 0 := rfl

/-- provider and decorator tables only mention existing nodes -/
def ValidReg (st : St) : Prop :=
  (∀ s k n, n ∈ agetL (st.scope s).providers k → n < st.ctors.length) ∧
  (∀ s k d, aget (st.scope s).decorators k = some d → d < st.decos.length)

theorem ValidReg.of_frame {a b : St} (h : ValidReg a) (hf : RegFrame a b) : ValidReg b := by
  obtain ⟨hl, hs, _, hc, _, hd, _⟩ := hf
  constructor
  · intro s k n hn
    rw [← (hs s).2.2.1] at hn
    rw [← hc]; exact h.1 s k n hn
  · intro s k d hd'
    rw [← (hs s).2.2.2.1] at hd'
    rw [← hd]; exact h.2 s k d hd'

/-- the relation between the state before and after a resolver call -/
structure Flags (a b : St) : Prop where
  reg : RegFrame a b
  ext : ∃ l, b.hist = a.hist ++ l ∧ b.log = a.log ++ l ∧
    (∀ n, okExits (.ctor n) l ≤ 1 ∧
          ((a.ctor n).called = true → okExits (.ctor n) l = 0) ∧
          ((a.ctor n).onStack = true → okExits (.ctor n) l = 0) ∧
          (okExits (.ctor n) l = 1 → (b.ctor n).called = true)) ∧
    (∀ d, okExits (.deco d) l ≤ 1 ∧
          ((a.deco d).state = .called → okExits (.deco d) l = 0) ∧
          ((a.deco d).state = .onStack → okExits (.deco d) l = 0) ∧
          (okExits (.deco d) l = 1 → (b.deco d).state = .called))
  ctorFrame : ∀ n, (a.ctor n).onStack = true → b.ctor n = a.ctor n
  ctorBal : ∀ n, (b.ctor n).onStack = (a.ctor n).onStack
  ctorMono : ∀ n, (a.ctor n).called = true → (b.ctor n).called = true
  decoFrame : ∀ d, (a.deco d).state = .onStack → b.deco d = a.deco d
  decoBal : ∀ d, ((b.deco d).state = .onStack ↔ (a.deco d).state = .onStack)
  decoMono : ∀ d, (a.deco d).state = .called → (b.deco d).state = .called

theorem Flags.refl (a : St) : Flags a a where
  reg := RegFrame.refl a
  ext := ⟨[], by simp, by simp,
    fun n => ⟨by simp [okExits], fun _ => rfl, fun _ => rfl, fun h => by simp [okExits] at h⟩,
    fun d => ⟨by simp [okExits], fun _ => rfl, fun _ => rfl, fun h => by simp [okExits] at h⟩⟩
  ctorFrame _ _ := rfl
  ctorBal _ := rfl
  ctorMono _ h := h
  decoFrame _ _ := rfl
  decoBal _ := Iff.rfl
  decoMono _ h := h

theorem Flags.trans {a b c : St} (h1 : Flags a b) (h2 : Flags b c) : Flags a c where
  reg := h1.reg.trans h2.reg
  ext := by
    obtain ⟨l1, hh1, hl1, hc1, hd1⟩ := h1.ext
    obtain ⟨l2, hh2, hl2, hc2, hd2⟩ := h2.ext
    refine ⟨l1 ++ l2, by rw [hh2, hh1, List.append_assoc], by rw [hl2, hl1, List.append_assoc], ?_, ?_⟩
    · intro n
      obtain ⟨a1, a2, a3, a4⟩ := hc1 n
      obtain ⟨b1, b2, b3, b4⟩ := hc2 n
      rw [okExits_append]
      refine ⟨?_, ?_, ?_, ?_⟩
      · by_cases h : okExits (.ctor n) l1 = 1
        · have := b2 (a4 h); omega
        · omega
      · intro h; have := a2 h; have := b2 (h1.ctorMono n h); omega
      · intro h
        have e1 := a3 h
        have : (b.ctor n).onStack = true := by rw [h1.ctorBal n]; exact h
        have := b3 this; omega
      · intro h
        by_cases h' : okExits (.ctor n) l1 = 1
        · exact h2.ctorMono n (a4 h')
        · exact b4 (by omega)
    · intro d
      obtain ⟨a1, a2, a3, a4⟩ := hd1 d
      obtain ⟨b1, b2, b3, b4⟩ := hd2 d
      rw [okExits_append]
      refine ⟨?_, ?_, ?_, ?_⟩
      · by_cases h : okExits (.deco d) l1 = 1
        · have := b2 (a4 h); omega
        · omega
      · intro h; have := a2 h; have := b2 (h1.decoMono d h); omega
      · intro h
        have e1 := a3 h
        have := b3 ((h1.decoBal d).mpr h); omega
      · intro h
        by_cases h' : okExits (.deco d) l1 = 1
        · exact h2.decoMono d (a4 h')
        · exact b4 (by omega)
  ctorFrame n h := by
    have e := h1.ctorFrame n h
    have : (b.ctor n).onStack = true := by rw [e]; exact h
    rw [h2.ctorFrame n this, e]
  ctorBal n := by rw [h2.ctorBal, h1.ctorBal]
  ctorMono n h := h2.ctorMono n (h1.ctorMono n h)
  decoFrame d h := by
    have e := h1.decoFrame d h
    have : (b.deco d).state = .onStack := by rw [e]; exact h
    rw [h2.decoFrame d this, e]
  decoBal d := (h2.decoBal d).trans (h1.decoBal d)
  decoMono d h := h2.decoMono d (h1.decoMono d h)

end Dig

namespace Dig

/-! ### the tails -/

theorem okExits_cb (w : Who) (l : List Event) (h : l = [] ∨ ∃ op who fn err rt, l = [.cb op who fn err rt]) :
    okExits w l = 0 := by
  rcases h with h | ⟨op, who, fn, err, rt, h⟩ <;> subst h <;> simp [okExits, isOkExit]

theorem okExits_bodyEvents (ctx : Ctx) (who : Who) (fn : Fn) (args : List Val) (st : St) (w : Who) :
    okExits w (bodyEvents ctx who fn args st) =
      if who = w ∧ exitKind ctx fn (ctx.beh fn.id (st.execCount fn.id)) = .ok then 1 else 0 := by
  simp only [bodyEvents, okExits, List.countP_cons, List.countP_nil, isOkExit]
  cases hk : exitKind ctx fn (ctx.beh fn.id (st.execCount fn.id)) <;> by_cases hw : who = w <;> simp [hw]

/-- successful executions in the events of one run of node `who`'s function -/
theorem okExits_tail (ctx : Ctx) (who : Who) (fn : Fn) (args : List Val) (st : St) (lb lc : List Event)
    (hb : (ctx.cfg.dry = true ∧ lb = []) ∨ (ctx.cfg.dry = false ∧ lb = bodyEvents ctx who fn args st))
    (hc : lc = [] ∨ ∃ op err rt, lc = [.cb op who fn.id err rt]) (w : Who) :
    okExits w (lb ++ lc) ≤ 1 ∧ (w ≠ who → okExits w (lb ++ lc) = 0) ∧
    (okExits w (lb ++ lc) = 1 → (callBody ctx who fn args st).1.commits = true) := by
  have hcb : okExits w lc = 0 := okExits_cb w lc (by
    rcases hc with h | ⟨op, err, rt, h⟩
    · exact Or.inl h
    · exact Or.inr ⟨_, _, _, _, _, h⟩)
  rw [okExits_append, hcb]
  rcases hb with ⟨_, h⟩ | ⟨hnd, h⟩
  · subst h; simp [okExits]
  · subst h
    rw [okExits_bodyEvents]
    refine ⟨by split <;> omega, ?_, ?_⟩
    · intro hw
      have : ¬ (who = w) := fun h => hw h.symm
      simp [this]
    · intro h1
      by_cases hk : exitKind ctx fn (ctx.beh fn.id (st.execCount fn.id)) = .ok
      · exact commits_of_ok_exit ctx hnd who fn args st hk
      · simp [hk] at h1

end Dig
