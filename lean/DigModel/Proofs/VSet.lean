import DigModel.Proofs.Body
import DigModel.Proofs.Frame
/-
  The resolver neither reads nor writes the `isVerifiedAcyclic` flags: it commutes with any reassignment of them.
-/
namespace Dig

/-- reassign the `isVerifiedAcyclic` flag of every scope -/
def vset (g : Nat → Bool) (st : St) : St :=
  { st with scopes := st.scopes.mapIdx fun j x => { x with verified := g j } }

theorem vset_len (g : Nat → Bool) (st : St) : (vset g st).scopes.length = st.scopes.length := by simp [vset]

theorem vset_scope (g : Nat → Bool) (st : St) (j : Nat) :
    (vset g st).scope j = if j < st.scopes.length then { st.scope j with verified := g j } else st.scope j := by
  unfold St.scope vset
  simp only [List.getD_eq_getElem?_getD, List.getElem?_mapIdx]
  by_cases hj : j < st.scopes.length
  · simp [hj, List.getElem?_eq_getElem hj]
  · have : st.scopes[j]? = none := by simp; omega
    simp [hj, this]

theorem vset_scope_fields (g : Nat → Bool) (st : St) (j : Nat) :
    ((vset g st).scope j).parent = (st.scope j).parent ∧ ((vset g st).scope j).children = (st.scope j).children ∧
    ((vset g st).scope j).providers = (st.scope j).providers ∧ ((vset g st).scope j).decorators = (st.scope j).decorators ∧
    ((vset g st).scope j).values = (st.scope j).values ∧ ((vset g st).scope j).decoratedValues = (st.scope j).decoratedValues ∧
    ((vset g st).scope j).groups = (st.scope j).groups ∧ ((vset g st).scope j).decoratedGroups = (st.scope j).decoratedGroups ∧
    ((vset g st).scope j).nodes = (st.scope j).nodes ∧ ((vset g st).scope j).gh = (st.scope j).gh := by
  rw [vset_scope]
  split <;> exact ⟨rfl, rfl, rfl, rfl, rfl, rfl, rfl, rfl, rfl, rfl⟩

@[simp] theorem vset_ctor (g : Nat → Bool) (st : St) (n : Nat) : (vset g st).ctor n = st.ctor n := rfl
@[simp] theorem vset_deco (g : Nat → Bool) (st : St) (d : Nat) : (vset g st).deco d = st.deco d := rfl
@[simp] theorem vset_ctors (g : Nat → Bool) (st : St) : (vset g st).ctors = st.ctors := rfl
@[simp] theorem vset_decos (g : Nat → Bool) (st : St) : (vset g st).decos = st.decos := rfl
@[simp] theorem vset_pgs (g : Nat → Bool) (st : St) : (vset g st).pgs = st.pgs := rfl
@[simp] theorem vset_clock (g : Nat → Bool) (st : St) : (vset g st).clock = st.clock := rfl
@[simp] theorem vset_log (g : Nat → Bool) (st : St) : (vset g st).log = st.log := rfl
@[simp] theorem vset_execCount (g : Nat → Bool) (st : St) (f : Nat) : (vset g st).execCount f = st.execCount f := rfl

theorem vset_modCtor (g : Nat → Bool) (st : St) (n : Nat) (f : CtorNode → CtorNode) :
    (vset g st).modCtor n f = vset g (st.modCtor n f) := rfl
theorem vset_modDeco (g : Nat → Bool) (st : St) (d : Nat) (f : DecoNode → DecoNode) :
    (vset g st).modDeco d f = vset g (st.modDeco d f) := rfl
theorem vset_emit (g : Nat → Bool) (st : St) (e : Event) : (vset g st).emit e = vset g (st.emit e) := rfl
theorem vset_bumpExec (g : Nat → Bool) (st : St) (f : Nat) : (vset g st).bumpExec f = vset g (st.bumpExec f) := by
  unfold St.bumpExec
  have e : (vset g st).execs = st.execs := rfl
  rw [e]
  by_cases h : (st.execs.any fun x => x.1 == f) = true
  · simp only [h, if_true]; rfl
  · simp only [h]; rfl

/-- a scope update that neither reads nor writes the flag commutes with the reassignment -/
theorem vset_modScope (g : Nat → Bool) (st : St) (s : Nat) (f : ScopeSt → ScopeSt)
    (hf : ∀ x v, f { x with verified := v } = { f x with verified := v }) :
    (vset g st).modScope s f = vset g (st.modScope s f) := by
  unfold St.modScope vset
  simp only
  congr 1
  apply List.ext_getElem?
  intro j
  simp only [List.getElem?_modify, List.getElem?_mapIdx]
  cases st.scopes[j]? with
  | none => rfl
  | some x =>
    by_cases h : s = j
    · subst h
      simp only [Option.map_some, if_true]
      show some (f _) = some _
      rw [hf]
    · simp only [Option.map_some, h, if_false]; rfl

theorem vset_ancestors (g : Nat → Bool) (st : St) (c : Nat) : (vset g st).ancestors c = st.ancestors c := by
  unfold St.ancestors
  rw [vset_len]
  have : ∀ fuel s, ancestorsAux (vset g st).scopes fuel s = ancestorsAux st.scopes fuel s := by
    intro fuel
    induction fuel with
    | zero => intro s; rfl
    | succ fuel ih =>
      intro s
      simp only [ancestorsAux, vset, List.getElem?_mapIdx]
      cases st.scopes[s]? with
      | none => rfl
      | some x =>
        simp only [Option.map_some]
        congr 1
        cases x.parent with
        | none => rfl
        | some p => exact ih p
  exact this _ _

theorem vset_allProviders (g : Nat → Bool) (st : St) (c : Nat) (k : Key) : (vset g st).allProviders c k = st.allProviders c k := by
  unfold St.allProviders
  rw [vset_ancestors]
  congr 1
  funext a
  rw [(vset_scope_fields g st a).2.2.1]

end Dig

namespace Dig

/-- `m` commutes with the reassignment of the flags -/
def Comm (g : Nat → Bool) {α : Type} (m : EM α) : Prop := ∀ st, m (vset g st) = ((m st).1, vset g (m st).2)

section
variable (g : Nat → Bool)

theorem comm_pure {α : Type} (a : α) : Comm g (EM.pure a) := fun _ => rfl
theorem comm_fail {α : Type} (e : Fail) : Comm g (EM.fail e : EM α) := fun _ => rfl

theorem comm_bind {α β : Type} {m : EM α} {f : α → EM β} (hm : Comm g m) (hf : ∀ a, Comm g (f a)) : Comm g (EM.bind m f) := by
  intro st
  unfold EM.bind
  rw [hm st]
  cases h : m st with
  | mk r s' =>
    cases r with
    | ok a => simp only; exact hf a s'
    | error e => rfl

theorem comm_wrapErr {α : Type} {m : EM α} (w : DErr → DErr) (hm : Comm g m) : Comm g (EM.wrapErr m w) := by
  intro st
  unfold EM.wrapErr
  rw [hm st]
  cases h : m st with
  | mk r s' =>
    cases r with
    | ok a => rfl
    | error e => cases e <;> rfl

theorem comm_finally {α : Type} {m : EM α} {fin : St → St} (hm : Comm g m) (hfin : ∀ st, fin (vset g st) = vset g (fin st)) :
    Comm g (EM.finally_ m fin) := by
  intro st
  unfold EM.finally_
  rw [hm st]
  cases h : m st with
  | mk r s' => simp only [hfin]

theorem comm_forEachM {α : Type} (xs : List α) {f : α → EM Unit} (hf : ∀ a, Comm g (f a)) : Comm g (forEachM xs f) := by
  induction xs with
  | nil => unfold forEachM; exact comm_pure g ()
  | cons x rest ih => unfold forEachM; exact comm_bind g (hf x) (fun _ => ih)

theorem comm_firstM {α β : Type} (xs : List α) {f : α → EM (Option β)} (hf : ∀ a, Comm g (f a)) : Comm g (firstM xs f) := by
  induction xs with
  | nil => unfold firstM; exact comm_pure g none
  | cons x rest ih =>
    unfold firstM
    apply comm_bind g (hf x)
    intro r
    cases r with
    | none => exact ih
    | some b => exact comm_pure g (some b)

theorem comm_mapM {α β : Type} (xs : List α) {f : α → EM β} (hf : ∀ a, Comm g (f a)) : Comm g (mapM' xs f) := by
  induction xs with
  | nil => unfold mapM'; exact comm_pure g []
  | cons x rest ih =>
    unfold mapM'
    apply comm_bind g (hf x)
    intro b
    apply comm_bind g ih
    intro bs
    exact comm_pure g _

/-- a step that first reads something the reassignment does not change -/
theorem comm_read {α ρ : Type} (rd : St → ρ) (k : ρ → EM α) (hr : ∀ st, rd (vset g st) = rd st) (hk : ∀ r, Comm g (k r)) :
    Comm g (fun st => k (rd st) st) := by
  intro st
  simp only [hr]
  exact hk (rd st) st

end

/-! ### reads -/

theorem vset_missingOf (g : Nat → Bool) (st : St) (c : Nat) (p : Param) : missingOf (vset g st) c p = missingOf st c p := by
  apply missingOf.induct st c (motive_1 := fun p => missingOf (vset g st) c p = missingOf st c p)
    (motive_2 := fun ps => missingOfList (vset g st) c ps = missingOfList st c ps)
  · intro k opt _; simp only [missingOf, vset_allProviders, (vset_scope_fields g st c).2.2.2.2.2.1]
  · intro k opt _; simp only [missingOf, vset_allProviders, (vset_scope_fields g st c).2.2.2.2.2.1]
  · intro ty k soft pg; simp only [missingOf]
  · intro ty fs ih; simp only [missingOf]; exact ih
  · simp only [missingOfList]
  · intro p ps ih1 ih2; simp only [missingOfList, ih1, ih2]

theorem vset_missingOfList (g : Nat → Bool) (st : St) (c : Nat) : ∀ ps, missingOfList (vset g st) c ps = missingOfList st c ps := by
  intro ps
  induction ps with
  | nil => simp only [missingOfList]
  | cons p ps ih => simp only [missingOfList, vset_missingOf, ih]

theorem comm_shallowCheck (g : Nat → Bool) (c : Nat) (ps : List Param) : Comm g (shallowCheck c ps) := by
  intro st
  unfold shallowCheck
  rw [vset_missingOfList]
  cases missingOfList st c ps <;> rfl

theorem vset_findDeco (g : Nat → Bool) (st : St) (k : Key) : ∀ anc, findDeco (vset g st) k anc = findDeco st k anc := by
  intro anc
  induction anc with
  | nil => rfl
  | cons s rest ih => simp only [findDeco, (vset_scope_fields g st s).2.2.2.1, vset_deco, ih]

theorem vset_findDecoratedValue (g : Nat → Bool) (st : St) (k : Key) : ∀ anc,
    findDecoratedValue (vset g st) k anc = findDecoratedValue st k anc := by
  intro anc
  induction anc with
  | nil => rfl
  | cons s rest ih => simp only [findDecoratedValue, (vset_scope_fields g st s).2.2.2.2.2.1, ih]

theorem vset_findDecoratedGroup (g : Nat → Bool) (st : St) (k : Key) : ∀ anc,
    findDecoratedGroup (vset g st) k anc = findDecoratedGroup st k anc := by
  intro anc
  induction anc with
  | nil => rfl
  | cons s rest ih => simp only [findDecoratedGroup, (vset_scope_fields g st s).2.2.2.2.2.2.2.1, ih]

theorem vset_findProviders (g : Nat → Bool) (st : St) (k : Key) : ∀ anc,
    findProviders (vset g st) k anc = findProviders st k anc := by
  intro anc
  induction anc with
  | nil => rfl
  | cons s rest ih =>
    simp only [findProviders, (vset_scope_fields g st s).2.2.2.2.1, (vset_scope_fields g st s).2.2.1, ih]

end Dig

namespace Dig

/-! ### extraction does not look at the flag -/

theorem extractResult_verified (env : TyEnv) (r : Ret) (v : Bool) (sc : ScopeSt) (x : Result) :
    extractResult env r { sc with verified := v } x = { extractResult env r sc x with verified := v } := by
  apply extractResult.induct env r
    (fun sc x => extractResult env r { sc with verified := v } x = { extractResult env r sc x with verified := v })
    (fun sc xs => extractResults env r { sc with verified := v } xs = { extractResults env r sc xs with verified := v })
  · intro sc slot decl ty name as; simp only [extractResult]
  · intro sc slot decl ty group as; simp only [extractResult]; rfl
  · intro sc slot decl ty group flatten as hf
    simp only [extractResult, hf]; rfl
  · intro sc ty fs ih; simp only [extractResult]; exact ih
  · intro sc; simp only [extractResults]
  · intro sc x xs ih1 ih2; simp only [extractResults]; rw [ih1, ih2]

theorem extractDeco_verified (env : TyEnv) (r : Ret) (v : Bool) (sc : ScopeSt) (x : Result) :
    extractDeco env r { sc with verified := v } x = { extractDeco env r sc x with verified := v } := by
  apply extractDeco.induct env r
    (fun sc x => extractDeco env r { sc with verified := v } x = { extractDeco env r sc x with verified := v })
    (fun sc xs => extractDecos env r { sc with verified := v } xs = { extractDecos env r sc xs with verified := v })
  · intro sc slot decl ty name as; simp only [extractDeco]
  · intro sc slot decl ty group f as; simp only [extractDeco]
  · intro sc ty fs ih; simp only [extractDeco]; exact ih
  · intro sc; simp only [extractDecos]
  · intro sc x xs ih1 ih2; simp only [extractDecos]; rw [ih1, ih2]

theorem extractSlots_verified (env : TyEnv) (deco : Bool) (r : Ret) (v : Bool) (slots : List RSlot) :
    ∀ sc, extractSlots env deco r { sc with verified := v } slots = { extractSlots env deco r sc slots with verified := v } := by
  induction slots with
  | nil => intro sc; simp only [extractSlots]
  | cons s rest ih =>
    intro sc
    cases s with
    | err => simp only [extractSlots]; exact ih sc
    | val x =>
      simp only [extractSlots]
      cases deco with
      | true => simp only [if_true]; rw [extractDeco_verified, ih]
      | false => simp only [Bool.false_eq_true, if_false]; rw [extractResult_verified, ih]

theorem vset_callBody (g : Nat → Bool) (ctx : Ctx) (who : Who) (fn : Fn) (args : List Val) (st : St) :
    callBody ctx who fn args (vset g st) = ((callBody ctx who fn args st).1, vset g (callBody ctx who fn args st).2) := by
  by_cases hd : ctx.cfg.dry = true
  · rw [callBody_dry ctx hd, callBody_dry ctx hd]
  · have hnd : ctx.cfg.dry = false := by simpa using hd
    rw [callBody_spec ctx hnd, callBody_spec ctx hnd]
    simp only
    refine Prod.ext rfl ?_
    show afterBody ctx who fn args (vset g st) = vset g (afterBody ctx who fn args st)
    unfold afterBody bodyEvents
    simp only [vset_execCount, vset_bumpExec, vset_clock, vset_log]
    rfl

theorem vset_runCallback (g : Nat → Bool) (cb : Option Nat) (who : Who) (fn start : Nat) (err : Option DErr) (st : St) :
    runCallback cb who fn start err (vset g st) = vset g (runCallback cb who fn start err st) := by
  unfold runCallback
  cases cb <;> rfl

theorem vset_ctorCommit (g : Nat → Bool) (ctx : Ctx) (n : Nat) (node : CtorNode) (r : BodyRes) (st : St) :
    ctorCommit ctx n node r (vset g st) = vset g (ctorCommit ctx n node r st) := by
  unfold ctorCommit
  cases r with
  | dry => simp only; rw [vset_modScope g st node.s _ (fun x v => extractSlots_verified ctx.env false _ v node.results x), vset_modCtor]
  | ok x len => simp only; rw [vset_modScope g st node.s _ (fun x v => extractSlots_verified ctx.env false _ v node.results x), vset_modCtor]
  | err x out => rfl
  | panic x => rfl

theorem vset_decoCommit (g : Nat → Bool) (ctx : Ctx) (d : Nat) (node : DecoNode) (r : BodyRes) (st : St) :
    decoCommit ctx d node r (vset g st) = vset g (decoCommit ctx d node r st) := by
  unfold decoCommit
  cases r with
  | dry => simp only; rw [vset_modScope g st node.s _ (fun x v => extractSlots_verified ctx.env true _ v node.results x), vset_modDeco]
  | ok x len => simp only; rw [vset_modScope g st node.s _ (fun x v => extractSlots_verified ctx.env true _ v node.results x), vset_modDeco]
  | err x out => rfl
  | panic x => rfl

theorem comm_ctorTail (g : Nat → Bool) (ctx : Ctx) (n : Nat) (node : CtorNode) (args : List Val) : Comm g (ctorTail ctx n node args) := by
  intro st
  unfold ctorTail
  simp only [vset_callBody, vset_ctorCommit, vset_runCallback, vset_clock]

theorem comm_decoTail (g : Nat → Bool) (ctx : Ctx) (d : Nat) (node : DecoNode) (args : List Val) : Comm g (decoTail ctx d node args) := by
  intro st
  unfold decoTail
  simp only [vset_callBody, vset_decoCommit, vset_runCallback, vset_clock]

end Dig

namespace Dig

/-- **the resolver commutes with any reassignment of the `isVerifiedAcyclic` flags** -/
theorem comm_engine (g : Nat → Bool) (ctx : Ctx) :
    ∀ fuel,
      (∀ n c, Comm g (callCtor ctx fuel n c)) ∧
      (∀ d s, Comm g (callDeco ctx fuel d s)) ∧
      (∀ k opt c, Comm g (buildSingle ctx fuel k opt c)) ∧
      (∀ k soft c, Comm g (buildGroup ctx fuel k soft c)) ∧
      (∀ p c, Comm g (buildParam ctx fuel p c)) ∧
      (∀ ps c, Comm g (buildList ctx fuel ps c)) := by
  intro fuel
  induction fuel with
  | zero =>
    refine ⟨?_, ?_, ?_, ?_, ?_, ?_⟩ <;> intros <;> intro st
    · simp only [callCtor, EM.fail]
    · simp only [callDeco, EM.fail]
    · simp only [buildSingle, EM.fail]
    · simp only [buildGroup, EM.fail]
    · simp only [buildParam, EM.fail]
    · simp only [buildList, EM.fail]
  | succ fuel ih =>
    obtain ⟨ihC, ihD, ihS, ihG, ihP, ihL⟩ := ih
    refine ⟨?_, ?_, ?_, ?_, ?_, ?_⟩
    · -- callCtor
      intro n c st
      simp only [callCtor, vset_ctor]
      by_cases h1 : (st.ctor n).called = true
      · simp only [h1, if_true]
      · simp only [h1, if_false, Bool.false_eq_true]
        by_cases h2 : (st.ctor n).onStack = true
        · simp only [h2, if_true]
        · simp only [h2, if_false, Bool.false_eq_true]
          rw [vset_modCtor]
          have hfin : ∀ s, (fun st : St => st.modCtor n fun x => { x with onStack := false }) (vset g s) =
              vset g ((fun st : St => st.modCtor n fun x => { x with onStack := false }) s) := fun _ => rfl
          exact comm_finally g (comm_bind g (comm_shallowCheck g c _) (fun _ => comm_bind g (comm_wrapErr g _ (ihL _ c)) (fun args => comm_ctorTail g ctx n _ args)))
            hfin _
    · -- callDeco
      intro d s st
      simp only [callDeco, vset_deco]
      by_cases h1 : ((st.deco d).state == DecoState.called) = true
      · simp only [h1, if_true]
      · simp only [h1, if_false, Bool.false_eq_true]
        rw [vset_modDeco]
        have hfin : ∀ s', (fun st : St => st.modDeco d fun x => if x.state == .called then x else { x with state := .ready }) (vset g s') =
            vset g ((fun st : St => st.modDeco d fun x => if x.state == .called then x else { x with state := .ready }) s') := fun _ => rfl
        exact comm_finally g (comm_bind g (comm_shallowCheck g s _) (fun _ => comm_bind g (comm_wrapErr g _ (ihL _ _)) (fun args => comm_decoTail g ctx d _ args)))
          hfin _
    · -- buildSingle
      intro k opt c st
      simp only [buildSingle, vset_ancestors, vset_findDeco, vset_findDecoratedValue, vset_findProviders]
      split
      · rename_i d ds _
        refine comm_bind g (comm_wrapErr g _ (ihD d ds)) (fun _ => ?_) st
        intro st'
        simp only [(vset_scope_fields g st' ds).2.2.2.2.2.1]
        split <;> rfl
      · split
        · rfl
        · split
          · rfl
          · split <;> rfl
          · rename_i pc ns _
            refine comm_bind g (comm_firstM g ns (fun n => ?_)) (fun early => ?_) st
            · intro s1
              simp only [vset_ctor]
              rw [ihC n _ s1]
              unfold providerStep
              cases hc : callCtor ctx fuel n (s1.ctor n).origS s1 with
              | mk r s2 =>
                cases r with
                | ok u => rfl
                | error f =>
                  cases f with
                  | err e => simp only; split <;> rfl
                  | panic a b => rfl
                  | bug => rfl
                  | fuel => rfl
            · intro st'
              cases early with
              | some z => rfl
              | none =>
                simp only [(vset_scope_fields g st' pc).2.2.2.2.1]
                split <;> rfl
    · -- buildGroup
      intro k soft c st
      simp only [buildGroup, vset_ancestors]
      refine comm_bind g (comm_forEachM g _ (fun s => ?_)) (fun _ => ?_) st
      · intro s1
        simp only [(vset_scope_fields g s1 s).2.2.2.1, vset_deco]
        cases aget (s1.scope s).decorators k with
        | none => rfl
        | some d =>
          simp only
          by_cases h1 : ((s1.deco d).state == DecoState.onStack) = true
          · simp only [h1, if_true]
          · simp only [h1, if_false, Bool.false_eq_true]
            exact comm_wrapErr g _ (ihD _ s) s1
      · intro st2
        simp only [vset_findDecoratedGroup]
        split
        · rfl
        · refine comm_bind g ?_ (fun _ => ?_) st2
          · cases soft with
            | true => simp only [if_true]; exact comm_pure g ()
            | false =>
              simp only [Bool.false_eq_true, if_false]
              refine comm_forEachM g _ (fun s => ?_)
              intro s3
              simp only [(vset_scope_fields g s3 s).2.2.1]
              refine comm_forEachM g _ (fun n => ?_) s3
              intro s4
              simp only [vset_ctor]
              exact comm_wrapErr g _ (ihC n _) s4
          · intro s5
            have : (st.ancestors c).flatMap (fun s => agetL ((vset g s5).scope s).groups k) =
                (st.ancestors c).flatMap (fun s => agetL (s5.scope s).groups k) := by
              congr 1; funext s; rw [(vset_scope_fields g s5 s).2.2.2.2.2.2.1]
            simp only [this]
    · -- buildParam
      intro p c
      cases p with
      | single k opt => simp only [buildParam]; exact ihS k opt c
      | grouped ty k soft pg => simp only [buildParam]; exact ihG k soft c
      | object ty fs =>
        simp only [buildParam]
        exact comm_bind g (comm_mapM g _ (fun f => ihP f c)) (fun hard =>
          comm_bind g (comm_mapM g _ (fun f => ihP f c)) (fun soft => comm_pure g _))
    · -- buildList
      intro ps c
      simp only [buildList]
      exact comm_mapM g _ (fun p => ihP p c)

end Dig
