import DigModel.Proofs.DecoHide
import DigModel.Proofs.VSetApi
import DigModel.Proofs.ProvideStages
import DigModel.Proofs.Views
import DigModel.Proofs.DrySimApi
import DigModel.Proofs.DepsApi
/-
  Provide neither reads nor writes what Decorate registers: it commutes with any replacement of the decorator tables
  and of the list of decorator nodes (`dtr`).  Hence a Provide and an adjacent Decorate whose function has no
  value-group parameter (its parse adds no graph node) can be swapped: the same two verdicts, the same two Info
  structs, the same container.
-/
namespace Dig

/-- replace the decorator table of every scope and the list of decorator nodes -/
def dtr (T : Nat → List (Key × Nat)) (ds : List DecoNode) (st : St) : St := { dset T st with decos := ds }

section
variable (T : Nat → List (Key × Nat)) (ds : List DecoNode)

@[simp] theorem dtr_ctors (st : St) : (dtr T ds st).ctors = st.ctors := rfl
@[simp] theorem dtr_pgs (st : St) : (dtr T ds st).pgs = st.pgs := rfl
theorem dtr_len (st : St) : (dtr T ds st).scopes.length = st.scopes.length := dset_len T st
theorem dtr_scope (st : St) (j : Nat) : (dtr T ds st).scope j = (dset T st).scope j := rfl

theorem dtr_scope_fields (st : St) (j : Nat) :
    ((dtr T ds st).scope j).parent = (st.scope j).parent ∧ ((dtr T ds st).scope j).children = (st.scope j).children ∧
    ((dtr T ds st).scope j).providers = (st.scope j).providers ∧ ((dtr T ds st).scope j).verified = (st.scope j).verified ∧
    ((dtr T ds st).scope j).values = (st.scope j).values ∧ ((dtr T ds st).scope j).decoratedValues = (st.scope j).decoratedValues ∧
    ((dtr T ds st).scope j).groups = (st.scope j).groups ∧ ((dtr T ds st).scope j).decoratedGroups = (st.scope j).decoratedGroups ∧
    ((dtr T ds st).scope j).nodes = (st.scope j).nodes ∧ ((dtr T ds st).scope j).gh = (st.scope j).gh :=
  dset_scope_fields T st j

theorem dtr_modCtor (st : St) (n : Nat) (f : CtorNode → CtorNode) : (dtr T ds st).modCtor n f = dtr T ds (st.modCtor n f) := rfl

theorem dtr_modScope (st : St) (s : Nat) (f : ScopeSt → ScopeSt)
    (hf : ∀ x t, f { x with decorators := t } = { f x with decorators := t }) :
    (dtr T ds st).modScope s f = dtr T ds (st.modScope s f) := by
  have h := dset_modScope T st s f hf
  unfold dtr
  have e : ({ dset T st with decos := ds } : St).modScope s f = { (dset T st).modScope s f with decos := ds } := rfl
  rw [e, h]

theorem dtr_subscopes (st : St) (s : Nat) : (dtr T ds st).subscopes s = st.subscopes s := by
  unfold St.subscopes
  rw [dtr_len]
  exact subscopesAux_congr _ _ (dtr_len T ds st) (fun j => (dtr_scope_fields T ds st j).2.1) _ _

theorem dtr_ghStep (node : GNode) (st : St) (sc : Nat) : ghStep node (dtr T ds st) sc = dtr T ds (ghStep node st sc) := by
  unfold Dig.ghStep
  have hlen : ((dtr T ds st).scope sc).gh.length = (st.scope sc).gh.length := by
    rw [(dtr_scope_fields T ds st sc).2.2.2.2.2.2.2.2.2]
  cases node with
  | ctor n =>
    simp only [hlen]
    rw [dtr_modScope T ds st sc _ (fun _ _ => rfl), dtr_modCtor]
  | pg i =>
    simp only [hlen]
    rw [dtr_modScope T ds st sc _ (fun _ _ => rfl)]
    rfl

theorem dtr_newGraphNode (st : St) (s : Nat) (node : GNode) :
    (dtr T ds st).newGraphNode s node = dtr T ds (st.newGraphNode s node) := by
  rw [newGraphNode_eq, newGraphNode_eq, dtr_subscopes]
  generalize st.subscopes s = l
  induction l generalizing st with
  | nil => rfl
  | cons x xs ih => simp only [List.foldl_cons]; rw [dtr_ghStep]; exact ih _

theorem dtr_addPGNodes (st : St) (s oldLen : Nat) (descs : List PGDesc) :
    addPGNodes (dtr T ds st) s oldLen descs = dtr T ds (addPGNodes st s oldLen descs) := by
  unfold Dig.addPGNodes
  simp only [dtr_pgs]
  have h0 : ({ dtr T ds st with pgs := st.pgs ++ (descs.drop oldLen).map fun d => ({ desc := d } : PGNode) } : St) =
      dtr T ds { st with pgs := st.pgs ++ (descs.drop oldLen).map fun d => ({ desc := d } : PGNode) } := rfl
  rw [h0]
  generalize ({ st with pgs := st.pgs ++ (descs.drop oldLen).map fun d => ({ desc := d } : PGNode) } : St) = v
  generalize List.range (descs.length - oldLen) = l
  induction l generalizing v with
  | nil => rfl
  | cons x xs ih => simp only [List.foldl_cons]; rw [dtr_newGraphNode]; exact ih _

theorem dtr_parseParams (env : TyEnv) (st : St) (s : Nat) (fn : Fn) :
    Dig.parseParams env (dtr T ds st) s fn = ((Dig.parseParams env st s fn).1, dtr T ds (Dig.parseParams env st s fn).2) := by
  unfold Dig.parseParams
  simp only [dtr_pgs]
  rw [dtr_addPGNodes]

theorem dtr_rollbackProvide (st0 w : St) (target : Nat) (scopes : List Nat) :
    rollbackProvide (dtr T ds st0) (dtr T ds w) target scopes = dtr T ds (rollbackProvide st0 w target scopes) := by
  unfold rollbackProvide
  have hfold : ∀ (l : List Nat) (v : St),
      l.foldl (fun w sc => w.modScope sc fun x => { x with gh := x.gh.take ((dtr T ds st0).scope sc).gh.length }) (dtr T ds v) =
      dtr T ds (l.foldl (fun w sc => w.modScope sc fun x => { x with gh := x.gh.take (st0.scope sc).gh.length }) v) := by
    intro l
    induction l with
    | nil => intro v; rfl
    | cons x xs ih =>
      intro v
      simp only [List.foldl_cons]
      rw [(dtr_scope_fields T ds st0 x).2.2.2.2.2.2.2.2.2, dtr_modScope T ds v x _ (fun _ _ => rfl)]
      exact ih _
  simp only [hfold, (dtr_scope_fields T ds st0 target).2.2.1]
  rw [dtr_modScope T ds _ target _ (fun _ _ => rfl)]
  rfl

/-- the registration stage of Provide commutes with the replacement -/
theorem dtr_provideRegister (ctx : Ctx) (fn : Fn) (st : St) (i s : Nat) (o : ProvideOpts) :
    provideRegister ctx fn (dtr T ds st) i s o =
      match provideRegister ctx fn st i s o with
      | .error r => .error (dtr T ds r.1, r.2)
      | .ok (target, params, results, n, w) => .ok (target, params, results, n, dtr T ds w) := by
  unfold provideRegister
  cases fn.nonfunc with
  | some _ => rfl
  | none =>
    simp only
    cases validateOpts ctx.env o with
    | error e => rfl
    | ok as =>
      simp only [dtr_subscopes]
      rw [dtr_parseParams]
      cases hpp : Dig.parseParams ctx.env st (if o.export_ then St.root else s) fn with
      | mk r w1 =>
        cases r with
        | error e => simp only; rw [dtr_rollbackProvide]
        | ok params =>
          simp only
          cases newResultList ctx.env { name := o.name, group := o.group, as := as } fn with
          | error e => simp only; rw [dtr_rollbackProvide]
          | ok results =>
            simp only [dtr_ctors]
            have e1 : ({ dtr T ds w1 with ctors := w1.ctors ++ [({ fn := fn, params := params, results := results, s := (if o.export_ then St.root else s), origS := s, cb := if o.cb then some i else none } : CtorNode)] } : St) =
                dtr T ds { w1 with ctors := w1.ctors ++ [({ fn := fn, params := params, results := results, s := (if o.export_ then St.root else s), origS := s, cb := if o.cb then some i else none } : CtorNode)] } := rfl
            rw [e1, dtr_newGraphNode]
            generalize (St.newGraphNode { w1 with ctors := w1.ctors ++ [_] } (if o.export_ then St.root else s) (.ctor w1.ctors.length)) = w3
            rw [visitKeys_congr _ _ (dtr_scope_fields T ds w3 (if o.export_ then St.root else s)).2.2.1]
            cases visitKeys (w3.scope (if o.export_ then St.root else s)) (slotResults results) [] with
            | error e => simp only; rw [dtr_rollbackProvide]
            | ok keys =>
              cases keys with
              | nil => simp only; rw [dtr_rollbackProvide]
              | cons k0 ks =>
                simp only
                rw [dtr_modScope T ds w3 _ _ (fun _ _ => rfl)]

theorem graphSame_dtr (st : St) : GraphSame st (dtr T ds st) :=
  ⟨rfl, rfl, (dtr_len T ds st).symm, fun j =>
    ⟨(dtr_scope_fields T ds st j).1.symm, (dtr_scope_fields T ds st j).2.2.1.symm, (dtr_scope_fields T ds st j).2.2.2.2.2.2.2.2.2.symm⟩⟩

theorem dtr_cyclePath (st : St) (s : Nat) (p : List Nat) : cyclePath (dtr T ds st) s p = cyclePath st s p := by
  unfold cyclePath
  rw [(dtr_scope_fields T ds st s).2.2.2.2.2.2.2.2.2]

/-- the verification loop commutes with the replacement -/
theorem dtr_verifyScopes (cfg : Cfg) : ∀ (l : List Nat) (st : St),
    verifyScopes cfg l (dtr T ds st) = ((verifyScopes cfg l st).1, dtr T ds (verifyScopes cfg l st).2)
  | [], st => rfl
  | sc :: rest, st => by
    simp only [verifyScopes]
    rw [dtr_modScope T ds st sc _ (fun _ _ => rfl)]
    by_cases hd : cfg.deferAcyclic = true
    · simp only [hd, if_true]
      exact dtr_verifyScopes cfg rest _
    · simp only [hd, if_false]
      rw [← (graphSame_dtr T ds (st.modScope sc fun x => { x with verified := false })).checkAcyclic sc]
      cases hc : checkAcyclic (st.modScope sc fun x => { x with verified := false }) sc with
      | acyclic =>
        simp only
        rw [dtr_modScope T ds _ sc _ (fun _ _ => rfl)]
        exact dtr_verifyScopes cfg rest _
      | cycle p => rfl
      | outOfRange => rfl
      | fuel => rfl

/-- **Provide commutes with any replacement of what Decorate registers** -/
theorem dtr_apiProvide (ctx : Ctx) (fn : Fn) (st : St) (i s : Nat) (o : ProvideOpts) :
    apiProvide ctx fn (dtr T ds st) i s o =
      (dtr T ds (apiProvide ctx fn st i s o).1, (apiProvide ctx fn st i s o).2) := by
  rw [apiProvide_eq, apiProvide_eq]
  unfold apiProvide'
  rw [dtr_provideRegister]
  cases provideRegister ctx fn st i s o with
  | error r => rfl
  | ok x =>
    obtain ⟨target, params, results, n, w⟩ := x
    simp only
    unfold provideVerify
    rw [dtr_subscopes, dtr_verifyScopes]
    cases hv : verifyScopes ctx.cfg (st.subscopes target) w with
    | mk r w2 =>
      cases r with
      | ok u =>
        simp only
        rw [dtr_modScope T ds w2 target _ (fun _ _ => rfl)]
      | error e =>
        obtain ⟨sc, cr⟩ := e
        cases cr with
        | cycle p => simp only; rw [dtr_rollbackProvide, dtr_cyclePath]
        | acyclic => rfl
        | outOfRange => rfl
        | fuel => rfl

end

end Dig

namespace Dig

/-! ### a Decorate whose parse adds no graph node, seen as a replacement -/

/-- updating the decorator table of one scope and replacing the list of decorator nodes is a `dtr` -/
theorem dtr_of_modScope (x : St) (ds : List DecoNode) (s : Nat) (g : List (Key × Nat) → List (Key × Nat)) :
    ({ x with decos := ds } : St).modScope s (fun sc => { sc with decorators := g sc.decorators }) =
      dtr (fun j => if j = s then g (x.scope j).decorators else (x.scope j).decorators) ds x := by
  unfold dtr dset St.modScope
  simp only
  congr 1
  apply List.ext_getElem?
  intro j
  simp only [List.getElem?_modify, List.getElem?_mapIdx]
  cases hx : x.scopes[j]? with
  | none => rfl
  | some sc =>
    have hsc := (scope_of_getElem? hx).2
    by_cases h : s = j
    · subst h
      simp only [Option.map_some, if_true, hsc]
      rfl
    · have h' : ¬ j = s := fun e => h e.symm
      simp only [Option.map_some, h, if_false, h', hsc]
      rfl

theorem dtr_self (st : St) : dtr (fun j => (st.scope j).decorators) st.decos st = st := by
  have h := dtr_of_modScope st st.decos 0 id
  simp only [id, ite_self] at h
  rw [← h]
  unfold St.modScope
  have : st.scopes.modify 0 (fun sc => { sc with decorators := sc.decorators }) = st.scopes := by
    apply List.ext_getElem?
    intro j
    simp only [List.getElem?_modify]
    cases st.scopes[j]? with
    | none => rfl
    | some sc => by_cases h : 0 = j <;> simp [h]
  simp only [this]

/-- Provide leaves the decorator nodes and every decorator table as they are -/
theorem apiProvide_decos (ctx : Ctx) (fn : Fn) (st : St) (i s : Nat) (o : ProvideOpts) :
    (apiProvide ctx fn st i s o).1.decos = st.decos ∧
    ∀ j, ((apiProvide ctx fn st i s o).1.scope j).decorators = (st.scope j).decorators := by
  have h := dtr_apiProvide (fun j => (st.scope j).decorators) st.decos ctx fn st i s o
  rw [dtr_self] at h
  have h1 : (apiProvide ctx fn st i s o).1 = dtr (fun j => (st.scope j).decorators) st.decos (apiProvide ctx fn st i s o).1 :=
    congrArg Prod.fst h
  constructor
  · rw [h1]; rfl
  · intro j
    rw [h1, dtr_scope, dset_scope]
    split
    · rfl
    · rename_i hj
      -- out of range on both sides: Provide does not create scopes
      have hl : (apiProvide ctx fn st i s o).1.scopes.length = st.scopes.length := by
        rcases apiProvide_work ctx fn st i s o with he | ⟨target, w, hw, hr | ⟨n, hr⟩⟩
        · exact he.2.2.2.2.2.2.2.1.symm
        · rw [hr]; exact hw.len
        · rw [hr]; simp [St.modScope]; exact hw.len
      have e1 : (apiProvide ctx fn st i s o).1.scope j = { parent := none } := by
        unfold St.scope; rw [List.getD_eq_getElem?_getD, List.getElem?_eq_none (by omega)]; rfl
      have e2 : st.scope j = { parent := none } := by
        unfold St.scope; rw [List.getD_eq_getElem?_getD, List.getElem?_eq_none (by omega)]; rfl
      rw [e1, e2]

end Dig

namespace Dig

/-- what Decorate decides once the parameters are parsed: it looks at the function, the parse and the decorator table of
    the scope, at nothing else -/
def decoDecide (ctx : Ctx) (fn : Fn) (i s : Nat) (cb info : Bool) (r : Except DErr (List Param)) (tbl : List (Key × Nat)) :
    Except DErr (DecoNode × List Key × RegRes) :=
  match r with
  | .error e => .error e
  | .ok params =>
    match newResultList ctx.env {} fn with
    | .error e => .error e
    | .ok results =>
      match resultKeys ctx.env (slotResults results) with
      | .error e => .error e
      | .ok keys =>
        if hasDup keys || keys.any (fun k => (aget tbl k).isSome) then .error .invalid0
        else .ok ({ fn := fn, params := params, results := results, s := s, cb := if cb then some i else none }, keys,
          { v := .ok, info := if info then some { id := fn.id, ins := dotParams params, outs := dotSlots results } else none })

/-- a Decorate whose parse leaves the container as it is -/
theorem apiDecorate_decide (ctx : Ctx) (fn : Fn) (x : St) (i s : Nat) (cb info : Bool) (hnf : fn.nonfunc = none)
    (r : Except DErr (List Param)) (hD : parseParams ctx.env x s fn = (r, x)) :
    apiDecorate ctx fn x i s cb info =
      match decoDecide ctx fn i s cb info r (x.scope s).decorators with
      | .error e => (x, { v := .err e })
      | .ok (node, keys, res) =>
        (({ x with decos := x.decos ++ [node] } : St).modScope s
          (fun sc => { sc with decorators := keys.foldl (fun m k => aset m k x.decos.length) sc.decorators }), res) := by
  have hrb := parse_rollback_eq ctx.env x s fn
  rw [hD] at hrb
  simp only at hrb
  unfold apiDecorate decoDecide
  simp only [hnf, hD]
  cases r with
  | error e => simp only [hrb]
  | ok params =>
    simp only
    cases newResultList ctx.env {} fn with
    | error e => simp only [hrb]
    | ok results =>
      simp only
      cases resultKeys ctx.env (slotResults results) with
      | error e => simp only [hrb]
      | ok keys =>
        simp only
        split
        · simp only [hrb]
        · rfl

/-- **a Provide and an adjacent Decorate can be swapped** when the decorator's parse adds no graph node (it has no
    value-group parameter): the same two answers, the same container -/
theorem provide_decorate_swap (ctx : Ctx) (fP fD : Fn) (st : St) (iP iD sP sD : Nat) (o : ProvideOpts) (cb info : Bool)
    (r : Except DErr (List Param)) (hD : ∀ x, parseParams ctx.env x sD fD = (r, x)) :
    (apiDecorate ctx fD (apiProvide ctx fP st iP sP o).1 iD sD cb info).1 =
      (apiProvide ctx fP (apiDecorate ctx fD st iD sD cb info).1 iP sP o).1 ∧
    (apiProvide ctx fP st iP sP o).2 = (apiProvide ctx fP (apiDecorate ctx fD st iD sD cb info).1 iP sP o).2 ∧
    (apiDecorate ctx fD (apiProvide ctx fP st iP sP o).1 iD sD cb info).2 = (apiDecorate ctx fD st iD sD cb info).2 := by
  cases hnf : fD.nonfunc with
  | some v =>
    have e : ∀ x, apiDecorate ctx fD x iD sD cb info = (x, { v := .err .invalid0 }) := by
      intro x; unfold apiDecorate; simp only [hnf]
    rw [e, e]
    exact ⟨rfl, rfl, rfl⟩
  | none =>
    obtain ⟨hdecos, htbl⟩ := apiProvide_decos ctx fP st iP sP o
    rw [apiDecorate_decide ctx fD _ iD sD cb info hnf r (hD _), apiDecorate_decide ctx fD st iD sD cb info hnf r (hD _),
      htbl sD, hdecos]
    cases decoDecide ctx fD iD sD cb info r (st.scope sD).decorators with
    | error e => exact ⟨rfl, rfl, rfl⟩
    | ok x =>
      obtain ⟨node, keys, res⟩ := x
      simp only
      have h1 := dtr_of_modScope st (st.decos ++ [node]) sD (fun t => keys.foldl (fun m k => aset m k st.decos.length) t)
      have h2 := dtr_of_modScope (apiProvide ctx fP st iP sP o).1 (st.decos ++ [node]) sD
        (fun t => keys.foldl (fun m k => aset m k st.decos.length) t)
      rw [h1, dtr_apiProvide, h2]
      refine ⟨?_, rfl, trivial⟩
      simp only
      congr 1
      funext j
      rw [htbl j]

end Dig

namespace Dig

/-! ### functions whose parameters are positional values: their parse leaves every container as it is -/

theorem newParam_univ (env : TyEnv) (i : Nat) (s : List PGDesc) :
    newParam env (.univ i) s = ((newParam env (.univ i) []).1, s) := by
  unfold newParam
  simp only
  repeat (first | split | rfl)

theorem newParamListAux_univ (env : TyEnv) : ∀ (ts : List GoT), (∀ t ∈ ts, ∃ i, t = GoT.univ i) → ∀ s,
    newParamListAux env ts s = ((newParamListAux env ts []).1, s)
  | [], _, s => rfl
  | t :: rest, h, s => by
    obtain ⟨i, rfl⟩ := h t (by simp)
    have ih := newParamListAux_univ env rest (fun t ht => h t (by simp [ht]))
    simp only [newParamListAux]
    rw [newParam_univ env i s, newParam_univ env i []]
    cases (newParam env (.univ i) []).1 with
    | error e => rfl
    | ok p =>
      simp only
      rw [ih s, ih []]
      cases (newParamListAux env rest []).1 <;> rfl

theorem parseParams_plain (env : TyEnv) (fn : Fn)
    (h : ∀ t ∈ (if fn.variadic then fn.ins.dropLast else fn.ins), ∃ i, t = GoT.univ i) (x : St) (s : Nat) :
    parseParams env x s fn = ((newParamListAux env (if fn.variadic then fn.ins.dropLast else fn.ins) []).1, x) := by
  unfold parseParams newParamList
  have e := newParamListAux_univ env _ h (x.pgs.map (·.desc))
  simp only [e]
  unfold addPGNodes
  simp
  have : List.drop x.pgs.length (List.map ((fun d => ({ desc := d } : PGNode)) ∘ fun x => x.desc) x.pgs) = [] := by
    apply List.drop_eq_nil_of_le; simp
  rw [this, List.append_nil]

/-- a Provide and an adjacent Decorate whose decorator takes positional parameters only can be swapped -/
theorem provide_decorate_swap_plain (ctx : Ctx) (fP fD : Fn) (st : St) (iP iD sP sD : Nat) (o : ProvideOpts) (cb info : Bool)
    (h : ∀ t ∈ (if fD.variadic then fD.ins.dropLast else fD.ins), ∃ i, t = GoT.univ i) :
    (apiDecorate ctx fD (apiProvide ctx fP st iP sP o).1 iD sD cb info).1 =
      (apiProvide ctx fP (apiDecorate ctx fD st iD sD cb info).1 iP sP o).1 ∧
    (apiProvide ctx fP st iP sP o).2 = (apiProvide ctx fP (apiDecorate ctx fD st iD sD cb info).1 iP sP o).2 ∧
    (apiDecorate ctx fD (apiProvide ctx fP st iP sP o).1 iD sD cb info).2 = (apiDecorate ctx fD st iD sD cb info).2 :=
  provide_decorate_swap ctx fP fD st iP iD sP sD o cb info _ (fun x => parseParams_plain ctx.env fD h x sD)

end Dig

/-! ### creating a scope -/

namespace Dig

theorem dtr_copyOrder (T : Nat → List (Key × Nat)) (ds : List DecoNode) (child parent : Nat) (st : St) (g : GNode) :
    copyOrder child parent (dtr T ds st) g = dtr T ds (copyOrder child parent st g) := by
  cases g <;> rfl

/-- `Scope.Scope` commutes with a replacement of the decorator tables that gives the new scope an empty one -/
theorem dtr_apiScope (T : Nat → List (Key × Nat)) (ds : List DecoNode) (st : St) (parent : Nat)
    (hT : T st.scopes.length = []) : apiScope (dtr T ds st) parent = dtr T ds (apiScope st parent) := by
  unfold apiScope
  simp only [dtr_len, (dtr_scope_fields T ds st parent).2.2.2.2.2.2.2.2.2]
  have e1 : ({ dtr T ds st with scopes := (dtr T ds st).scopes ++ [({ parent := some parent, gh := (st.scope parent).gh } : ScopeSt)] } : St) =
      dtr T ds { st with scopes := st.scopes ++ [({ parent := some parent, gh := (st.scope parent).gh } : ScopeSt)] } := by
    unfold dtr dset
    simp only [List.mapIdx_append, List.mapIdx_cons, List.mapIdx_nil, Nat.zero_add, hT]
  rw [e1, dtr_modScope T ds _ parent _ (fun _ _ => rfl)]
  generalize (St.modScope { st with scopes := st.scopes ++ [_] } parent _) = v
  generalize (st.scope parent).gh = l
  induction l generalizing v with
  | nil => rfl
  | cons x xs ih => simp only [List.foldl_cons]; rw [dtr_copyOrder]; exact ih _
end Dig

namespace Dig

theorem scope_default_of_ge (st : St) (j : Nat) (h : st.scopes.length ≤ j) : st.scope j = { parent := none } := by
  unfold St.scope; rw [List.getD_eq_getElem?_getD, List.getElem?_eq_none h]; rfl

theorem apiScope_len (st : St) (parent : Nat) : (apiScope st parent).scopes.length = st.scopes.length + 1 := by
  unfold apiScope
  simp only
  generalize (st.scope parent).gh = l
  have h0 : (St.modScope { st with scopes := st.scopes ++ [({ parent := some parent, gh := l } : ScopeSt)] } parent
      fun x => { x with children := x.children ++ [st.scopes.length] }).scopes.length = st.scopes.length + 1 := by
    simp [St.modScope]
  generalize (St.modScope { st with scopes := st.scopes ++ [({ parent := some parent, gh := l } : ScopeSt)] } parent _) = v at h0 ⊢
  induction l generalizing v with
  | nil => exact h0
  | cons x xs ih =>
    simp only [List.foldl_cons]
    apply ih
    cases x <;> simpa [copyOrder, St.modCtor] using h0

/-- `Scope.Scope` leaves the decorator nodes and every decorator table as they are (the new scope's is empty) -/
theorem apiScope_decos (st : St) (parent : Nat) :
    (apiScope st parent).decos = st.decos ∧ ∀ j, ((apiScope st parent).scope j).decorators = (st.scope j).decorators := by
  have hT : (fun j => (st.scope j).decorators) st.scopes.length = [] := by
    simp only [scope_default_of_ge st st.scopes.length (Nat.le_refl _)]
  have h := dtr_apiScope (fun j => (st.scope j).decorators) st.decos st parent hT
  rw [dtr_self] at h
  constructor
  · rw [h]; rfl
  · intro j
    rw [h, dtr_scope, dset_scope]
    split
    · rfl
    · rename_i hj
      rw [apiScope_len] at hj
      rw [scope_default_of_ge _ j (by rw [apiScope_len]; omega), scope_default_of_ge st j (by omega)]

/-- **creating a child scope and an adjacent Decorate can be swapped** when the decorator takes positional parameters
    only and decorates an existing scope: the same answer, the same container -/
theorem scope_decorate_swap (ctx : Ctx) (fD : Fn) (st : St) (parent iD sD : Nat) (cb info : Bool) (hsD : sD < st.scopes.length)
    (r : Except DErr (List Param)) (hD : ∀ x, parseParams ctx.env x sD fD = (r, x)) :
    (apiDecorate ctx fD (apiScope st parent) iD sD cb info).1 = apiScope (apiDecorate ctx fD st iD sD cb info).1 parent ∧
    (apiDecorate ctx fD (apiScope st parent) iD sD cb info).2 = (apiDecorate ctx fD st iD sD cb info).2 := by
  cases hnf : fD.nonfunc with
  | some v =>
    have e : ∀ x, apiDecorate ctx fD x iD sD cb info = (x, { v := .err .invalid0 }) := by
      intro x; unfold apiDecorate; simp only [hnf]
    rw [e, e]
    exact ⟨rfl, rfl⟩
  | none =>
    obtain ⟨hdecos, htbl⟩ := apiScope_decos st parent
    rw [apiDecorate_decide ctx fD _ iD sD cb info hnf r (hD _),
      apiDecorate_decide ctx fD st iD sD cb info hnf r (hD _), htbl sD, hdecos]
    cases decoDecide ctx fD iD sD cb info r (st.scope sD).decorators with
    | error e => exact ⟨rfl, rfl⟩
    | ok x =>
      obtain ⟨node, keys, res⟩ := x
      simp only
      have h1 := dtr_of_modScope st (st.decos ++ [node]) sD (fun t => keys.foldl (fun m k => aset m k st.decos.length) t)
      have h2 := dtr_of_modScope (apiScope st parent) (st.decos ++ [node]) sD
        (fun t => keys.foldl (fun m k => aset m k st.decos.length) t)
      refine ⟨?_, trivial⟩
      rw [h1, dtr_apiScope, h2]
      · congr 1
        funext j
        rw [htbl j]
      · -- the new scope gets an empty table
        show (if st.scopes.length = sD then _ else _) = []
        have hd := scope_default_of_ge st st.scopes.length (Nat.le_refl _)
        split
        · rename_i hs; omega
        · rw [hd]

end Dig

/-! ### functions without value-group parameters -/

namespace Dig

mutual
/-- no field, at any depth, carries a `group` tag -/
def noGroupT : GoT → Bool
  | .univ _ => true
  | .ptr _ _ => true
  | .strct _ fs => noGroupFs fs
def noGroupFs : List (FieldMeta × GoT) → Bool
  | [] => true
  | (m, t) :: rest => m.tags.group == "" && noGroupT t && noGroupFs rest
end

mutual
theorem newParam_noGroup (env : TyEnv) : ∀ (t : GoT), noGroupT t = true → ∀ s, newParam env t s = ((newParam env t []).1, s)
  | .univ i, _, s => newParam_univ env i s
  | .ptr i inner, _, s => by
    unfold newParam
    simp only
    repeat (first | split | rfl)
  | .strct i fs, h, s => by
    have hfs : noGroupFs fs = true := by simpa [noGroupT] using h
    unfold newParam
    simp only
    split
    · rfl
    · split
      · cases boolTag (if hasInField fs then findIgnoreTag fs else "") with
        | error e => rfl
        | ok ignore =>
          simp only
          rw [newParamFields_noGroup env ignore fs hfs s, newParamFields_noGroup env ignore fs hfs []]
          cases (newParamFields env ignore fs []).1 <;> rfl
      · split <;> rfl
theorem newParamFields_noGroup (env : TyEnv) (ignore : Bool) : ∀ (fs : List (FieldMeta × GoT)), noGroupFs fs = true →
    ∀ s, newParamFields env ignore fs s = ((newParamFields env ignore fs []).1, s)
  | [], _, s => rfl
  | (m, t) :: rest, h, s => by
    have h' : m.tags.group = "" ∧ noGroupT t = true ∧ noGroupFs rest = true := by
      simpa [noGroupFs, Bool.and_eq_true, beq_iff_eq, and_assoc] using h
    have ihr := newParamFields_noGroup env ignore rest h'.2.2
    unfold newParamFields
    simp only
    split
    · rw [ihr s, ihr []]
    · split
      · rw [ihr s, ihr []]
      · rw [newParamField_noGroup env m t h'.1 h'.2.1 s, newParamField_noGroup env m t h'.1 h'.2.1 []]
        cases (newParamField env (m, t) []).1 with
        | error e => rfl
        | ok p =>
          simp only
          rw [ihr s, ihr []]
          cases (newParamFields env ignore rest []).1 <;> rfl
theorem newParamField_noGroup (env : TyEnv) (m : FieldMeta) (t : GoT) (hg : m.tags.group = "") (ht : noGroupT t = true) :
    ∀ s, newParamField env (m, t) s = ((newParamField env (m, t) []).1, s) := by
  intro s
  unfold newParamField
  simp only [hg, bne_self_eq_false, Bool.false_eq_true, if_false]
  split
  · rfl
  · rw [newParam_noGroup env t ht s, newParam_noGroup env t ht []]
    cases (newParam env t []).1 with
    | error e => rfl
    | ok p =>
      cases p with
      | single k o => simp only; cases boolTag m.tags.optional <;> rfl
      | grouped a b c d => rfl
      | object a b => rfl
end
end Dig

namespace Dig

theorem newParamListAux_noGroup (env : TyEnv) : ∀ (ts : List GoT), (∀ t ∈ ts, noGroupT t = true) → ∀ s,
    newParamListAux env ts s = ((newParamListAux env ts []).1, s)
  | [], _, s => rfl
  | t :: rest, h, s => by
    have ht := h t (by simp)
    have ih := newParamListAux_noGroup env rest (fun t ht => h t (by simp [ht]))
    simp only [newParamListAux]
    rw [newParam_noGroup env t ht s, newParam_noGroup env t ht []]
    cases (newParam env t []).1 with
    | error e => rfl
    | ok p =>
      simp only
      rw [ih s, ih []]
      cases (newParamListAux env rest []).1 <;> rfl

/-- a function without value-group parameters (at any depth of parameter objects): its parse leaves every container as
    it is, and gives the same parameter list whatever the container -/
theorem parseParams_noGroup (env : TyEnv) (fn : Fn)
    (h : ∀ t ∈ (if fn.variadic then fn.ins.dropLast else fn.ins), noGroupT t = true) (x : St) (s : Nat) :
    parseParams env x s fn = ((newParamListAux env (if fn.variadic then fn.ins.dropLast else fn.ins) []).1, x) := by
  unfold parseParams newParamList
  have e := newParamListAux_noGroup env _ h (x.pgs.map (·.desc))
  simp only [e]
  unfold addPGNodes
  simp
  have : List.drop x.pgs.length (List.map ((fun d => ({ desc := d } : PGNode)) ∘ fun x => x.desc) x.pgs) = [] := by
    apply List.drop_eq_nil_of_le; simp
  rw [this, List.append_nil]

theorem provide_decorate_swap_noGroup (ctx : Ctx) (fP fD : Fn) (st : St) (iP iD sP sD : Nat) (o : ProvideOpts) (cb info : Bool)
    (h : ∀ t ∈ (if fD.variadic then fD.ins.dropLast else fD.ins), noGroupT t = true) :
    (apiDecorate ctx fD (apiProvide ctx fP st iP sP o).1 iD sD cb info).1 =
      (apiProvide ctx fP (apiDecorate ctx fD st iD sD cb info).1 iP sP o).1 ∧
    (apiProvide ctx fP st iP sP o).2 = (apiProvide ctx fP (apiDecorate ctx fD st iD sD cb info).1 iP sP o).2 ∧
    (apiDecorate ctx fD (apiProvide ctx fP st iP sP o).1 iD sD cb info).2 = (apiDecorate ctx fD st iD sD cb info).2 :=
  provide_decorate_swap ctx fP fD st iP iD sP sD o cb info _ (fun x => parseParams_noGroup ctx.env fD h x sD)

end Dig

namespace Dig

theorem scope_decorate_swap_noGroup (ctx : Ctx) (fD : Fn) (st : St) (parent iD sD : Nat) (cb info : Bool)
    (hsD : sD < st.scopes.length) (h : ∀ t ∈ (if fD.variadic then fD.ins.dropLast else fD.ins), noGroupT t = true) :
    (apiDecorate ctx fD (apiScope st parent) iD sD cb info).1 = apiScope (apiDecorate ctx fD st iD sD cb info).1 parent ∧
    (apiDecorate ctx fD (apiScope st parent) iD sD cb info).2 = (apiDecorate ctx fD st iD sD cb info).2 :=
  scope_decorate_swap ctx fD st parent iD sD cb info hsD _ (fun x => parseParams_noGroup ctx.env fD h x sD)

end Dig
