import DigModel.Api
/-
  `apiInvoke` with its two last stages named (definitionally the same function).
-/
namespace Dig

/-- the acyclicity step of Invoke -/
def invokeCheck (w : St) (s : Nat) : Except Verdict St :=
  if (w.scope s).verified then .ok w
  else match checkAcyclic w s with
    | .acyclic => .ok (w.modScope s fun x => { x with verified := true })
    | .cycle p => .error (.err (.invalid (.cycle (cyclePath w s p) s)))
    | _ => .error .panicDig

/-- resolution and the call of the invoked function -/
def invokeRun (ctx : Ctx) (fn : Fn) (params : List Param) (s : Nat) (info : Bool) (w : St) : St × OpRes :=
  match EM.wrapErr (buildList ctx (engineFuel w params) params s) .argsFailed w with
  | (.error f, w) => (w, { v := failToVerdict f, ev := w.log })
  | (.ok args, w) =>
    let inf : Option InfoOut :=
      if info then some { id := 0, ins := dotParams params, outs := [] } else none
    match callBody ctx .invoked fn args w with
    | (r, w) =>
      let v : Verdict := match r with
        | .dry => .ok
        | .ok _ _ => .ok
        | .err x out =>
          if out + 1 == fn.outs.length then .err (.user fn.id x) else .ok
        | .panic x => if ctx.cfg.recover then .err (.panicErr fn.id x) else .panicUser fn.id x
      (w, { v := v, ev := w.log, info := inf })

/-- `apiInvoke`, with its two last stages named -/
def apiInvoke' (ctx : Ctx) (fn : Fn) (st : St) (s : Nat) (info : Bool) : St × OpRes :=
  match fn.nonfunc with
  | some _ => (st, { v := .err .invalid0 })
  | none =>
    match parseParams ctx.env st s fn with
    | (.error e, w) => (rollbackProvide st w s (st.subscopes s), { v := .err e })
    | (.ok params, w) =>
      match shallowCheck s params w with
      | (.error f, w) => (w, { v := failToVerdict f })
      | (.ok (), w) =>
        match invokeCheck w s with
        | .error v => (w, { v := v })
        | .ok w => invokeRun ctx fn params s info w

theorem apiInvoke_eq (ctx : Ctx) (fn : Fn) (st : St) (s : Nat) (info : Bool) :
    apiInvoke ctx fn st s info = apiInvoke' ctx fn st s info := by
  unfold apiInvoke apiInvoke' invokeCheck invokeRun
  rfl

end Dig
