import DigModel.Engine
/-
  The three stages of running a user function for a node:
  `callBody` (events, clock, execution counter), `ctorCommit`/`decoCommit`
  (cache writes and the `called` flag), `runCallback`.
-/
namespace Dig

theorem bumpExec_fields (st : St) (f : Nat) :
    (st.bumpExec f).scopes = st.scopes ∧ (st.bumpExec f).ctors = st.ctors ∧ (st.bumpExec f).decos = st.decos ∧
    (st.bumpExec f).pgs = st.pgs ∧ (st.bumpExec f).log = st.log ∧ (st.bumpExec f).clock = st.clock ∧
    (st.bumpExec f).hist = st.hist := by
  unfold St.bumpExec
  split <;> exact ⟨rfl, rfl, rfl, rfl, rfl, rfl, rfl⟩

/-- how execution `x` of `fn` ends, according to the script -/
def exitKind (ctx : Ctx) (fn : Fn) (b : Beh) : ExitKind :=
  match b.k with
  | .panic => .panic
  | .err => if (errOuts ctx.env fn).isEmpty then .ok else .err
  | .ok => .ok

/-- the two events of one execution -/
def bodyEvents (ctx : Ctx) (who : Who) (fn : Fn) (args : List Val) (st : St) : List Event :=
  let x := st.execCount fn.id
  [.enter who fn.id x args, .exit who fn.id x (exitKind ctx fn (ctx.beh fn.id x))]

/-- the state after the body of the next execution of `fn` has run -/
def afterBody (ctx : Ctx) (who : Who) (fn : Fn) (args : List Val) (st : St) : St :=
  { (st.bumpExec fn.id) with
    clock := st.clock + (ctx.beh fn.id (st.execCount fn.id)).dt
    log := st.log ++ bodyEvents ctx who fn args st
    hist := st.hist ++ bodyEvents ctx who fn args st }

def bodyRes (ctx : Ctx) (fn : Fn) (st : St) : BodyRes :=
  let x := st.execCount fn.id
  let b := ctx.beh fn.id x
  let eo := errOuts ctx.env fn
  match b.k with
  | .panic => .panic x
  | .err => if eo.isEmpty then .ok x b.len else .err x (eo.getD (b.eslot % eo.length) 0)
  | .ok => .ok x b.len

theorem callBody_spec (ctx : Ctx) (hnd : ctx.cfg.dry = false) (who : Who) (fn : Fn) (args : List Val) (st : St) :
    callBody ctx who fn args st = (bodyRes ctx fn st, afterBody ctx who fn args st) := by
  obtain ⟨_, _, _, _, hl, hc, hh⟩ := bumpExec_fields st fn.id
  simp only [callBody, hnd, bodyRes, afterBody, bodyEvents, exitKind, St.emit, hl, hc, hh]
  cases (ctx.beh fn.id (st.execCount fn.id)).k
  · simp
  · by_cases h : (errOuts ctx.env fn).isEmpty <;> simp [h]
  · simp

/-- in a DryRun container the body is not run: the state is unchanged -/
theorem callBody_dry (ctx : Ctx) (h : ctx.cfg.dry = true) (who : Who) (fn : Fn) (args : List Val) (st : St) :
    callBody ctx who fn args st = (.dry, st) := by
  unfold callBody; simp [h]

/-- the result says `ok` exactly when the exit event does -/
theorem bodyRes_ok_iff (ctx : Ctx) (fn : Fn) (st : St) :
    (∃ x len, bodyRes ctx fn st = .ok x len) ↔ exitKind ctx fn (ctx.beh fn.id (st.execCount fn.id)) = .ok := by
  unfold bodyRes exitKind
  cases hk : (ctx.beh fn.id (st.execCount fn.id)).k
  · simp [hk]
  · by_cases h : (errOuts ctx.env fn).isEmpty <;> simp [h, hk]
  · simp [hk]

theorem bodyRes_ne_dry (ctx : Ctx) (fn : Fn) (st : St) : bodyRes ctx fn st ≠ .dry := by
  unfold bodyRes
  cases hk : (ctx.beh fn.id (st.execCount fn.id)).k
  · simp [hk]
  · by_cases h : (errOuts ctx.env fn).isEmpty <;> simp [h, hk]
  · simp [hk]

/-! ### fields left alone by the stages -/

theorem afterBody_fields (ctx : Ctx) (who : Who) (fn : Fn) (args : List Val) (st : St) :
    (afterBody ctx who fn args st).scopes = st.scopes ∧ (afterBody ctx who fn args st).ctors = st.ctors ∧
    (afterBody ctx who fn args st).decos = st.decos ∧ (afterBody ctx who fn args st).pgs = st.pgs := by
  obtain ⟨h1, h2, h3, h4, _, _, _⟩ := bumpExec_fields st fn.id
  exact ⟨h1, h2, h3, h4⟩

theorem runCallback_fields (cb : Option Nat) (who : Who) (fn start : Nat) (err : Option DErr) (st : St) :
    (runCallback cb who fn start err st).scopes = st.scopes ∧ (runCallback cb who fn start err st).ctors = st.ctors ∧
    (runCallback cb who fn start err st).decos = st.decos ∧ (runCallback cb who fn start err st).pgs = st.pgs := by
  unfold runCallback
  split <;> exact ⟨rfl, rfl, rfl, rfl⟩

/-- the callback stage appends at most one event, a callback event -/
theorem runCallback_log (cb : Option Nat) (who : Who) (fn start : Nat) (err : Option DErr) (st : St) :
    ∃ l, (runCallback cb who fn start err st).log = st.log ++ l ∧ (runCallback cb who fn start err st).hist = st.hist ++ l ∧
      (l = [] ∨ ∃ op rt, l = [.cb op who fn err rt]) := by
  unfold runCallback
  split
  · exact ⟨[_], rfl, rfl, Or.inr ⟨_, _, rfl⟩⟩
  · exact ⟨[], by simp, by simp, Or.inl rfl⟩

theorem ctorCommit_fields (ctx : Ctx) (n : Nat) (node : CtorNode) (r : BodyRes) (st : St) :
    (ctorCommit ctx n node r st).log = st.log ∧ (ctorCommit ctx n node r st).hist = st.hist ∧
    (ctorCommit ctx n node r st).decos = st.decos ∧ (ctorCommit ctx n node r st).pgs = st.pgs ∧
    (ctorCommit ctx n node r st).clock = st.clock := by
  unfold ctorCommit
  cases r <;> exact ⟨rfl, rfl, rfl, rfl, rfl⟩

theorem decoCommit_fields (ctx : Ctx) (d : Nat) (node : DecoNode) (r : BodyRes) (st : St) :
    (decoCommit ctx d node r st).log = st.log ∧ (decoCommit ctx d node r st).hist = st.hist ∧
    (decoCommit ctx d node r st).ctors = st.ctors ∧ (decoCommit ctx d node r st).pgs = st.pgs ∧
    (decoCommit ctx d node r st).clock = st.clock := by
  unfold decoCommit
  cases r <;> exact ⟨rfl, rfl, rfl, rfl, rfl⟩

/-- did the call return normally (so that its results are committed)? -/
def BodyRes.commits : BodyRes → Bool
  | .ok _ _ => true
  | .dry => true
  | _ => false

/-- the commit stage touches the constructor table only to set `called` on node `n`, and only after a normal return -/
theorem ctorCommit_ctors (ctx : Ctx) (n : Nat) (node : CtorNode) (r : BodyRes) (st : St) :
    (ctorCommit ctx n node r st).ctors =
      if r.commits then st.ctors.modify n (fun y => { y with called := true }) else st.ctors := by
  unfold ctorCommit
  cases r <;> simp [St.modCtor, St.modScope, BodyRes.commits]

theorem decoCommit_decos (ctx : Ctx) (d : Nat) (node : DecoNode) (r : BodyRes) (st : St) :
    (decoCommit ctx d node r st).decos =
      if r.commits then st.decos.modify d (fun y => { y with state := .called }) else st.decos := by
  unfold decoCommit
  cases r <;> simp [St.modDeco, St.modScope, BodyRes.commits]

/-- the body stage leaves the tables alone -/
theorem callBody_fields (ctx : Ctx) (who : Who) (fn : Fn) (args : List Val) (st : St) :
    (callBody ctx who fn args st).2.scopes = st.scopes ∧ (callBody ctx who fn args st).2.ctors = st.ctors ∧
    (callBody ctx who fn args st).2.decos = st.decos ∧ (callBody ctx who fn args st).2.pgs = st.pgs := by
  by_cases hd : ctx.cfg.dry = true
  · rw [callBody_dry ctx hd]; exact ⟨rfl, rfl, rfl, rfl⟩
  · rw [callBody_spec ctx (by simpa using hd)]; exact afterBody_fields ctx who fn args st

theorem getD_modify' {α : Type} (l : List α) (i j : Nat) (f : α → α) (d : α) :
    (l.modify i f).getD j d = if i = j ∧ j < l.length then f (l.getD j d) else l.getD j d := by
  simp only [List.getD_eq_getElem?_getD, List.getElem?_modify]
  by_cases hj : j < l.length
  · simp [List.getElem?_eq_getElem hj]
    split <;> simp_all
  · have : l[j]? = none := by simp; omega
    simp [this, hj]

/-- the constructor table after one run of constructor `n`'s function -/
theorem ctorTail_ctor (ctx : Ctx) (n : Nat) (node : CtorNode) (args : List Val) (st : St) (m : Nat) :
    (ctorTail ctx n node args st).2.ctor m =
      if (callBody ctx (.ctor n) node.fn args st).1.commits = true ∧ n = m ∧ m < st.ctors.length
      then { st.ctor m with called := true } else st.ctor m := by
  simp only [ctorTail, St.ctor, (runCallback_fields _ _ _ _ _ _).2.1, ctorCommit_ctors,
    (callBody_fields ctx (.ctor n) node.fn args st).2.1]
  by_cases hc : (callBody ctx (.ctor n) node.fn args st).1.commits = true
  · simp only [hc, if_true, getD_modify', true_and]
  · simp [hc]

theorem ctorTail_decos (ctx : Ctx) (n : Nat) (node : CtorNode) (args : List Val) (st : St) :
    (ctorTail ctx n node args st).2.decos = st.decos := by
  simp only [ctorTail, (runCallback_fields _ _ _ _ _ _).2.2.1, (ctorCommit_fields ctx n node _ _).2.2.1,
    (callBody_fields ctx (.ctor n) node.fn args st).2.2.1]

theorem decoTail_deco (ctx : Ctx) (d : Nat) (node : DecoNode) (args : List Val) (st : St) (m : Nat) :
    (decoTail ctx d node args st).2.deco m =
      if (callBody ctx (.deco d) node.fn args st).1.commits = true ∧ d = m ∧ m < st.decos.length
      then { st.deco m with state := .called } else st.deco m := by
  simp only [decoTail, St.deco, (runCallback_fields _ _ _ _ _ _).2.2.1, decoCommit_decos,
    (callBody_fields ctx (.deco d) node.fn args st).2.2.1]
  by_cases hc : (callBody ctx (.deco d) node.fn args st).1.commits = true
  · simp only [hc, if_true, getD_modify', true_and]
  · simp [hc]

theorem decoTail_ctors (ctx : Ctx) (d : Nat) (node : DecoNode) (args : List Val) (st : St) :
    (decoTail ctx d node args st).2.ctors = st.ctors := by
  simp only [decoTail, (runCallback_fields _ _ _ _ _ _).2.1, (decoCommit_fields ctx d node _ _).2.2.1,
    (callBody_fields ctx (.deco d) node.fn args st).2.1]

/-- the events appended by one run of a node's function: nothing or the body's two events, then at most one callback event -/
theorem ctorTail_log (ctx : Ctx) (n : Nat) (node : CtorNode) (args : List Val) (st : St) :
    ∃ lb lc, (ctorTail ctx n node args st).2.hist = st.hist ++ (lb ++ lc) ∧
      (ctorTail ctx n node args st).2.log = st.log ++ (lb ++ lc) ∧
      ((ctx.cfg.dry = true ∧ lb = []) ∨ (ctx.cfg.dry = false ∧ lb = bodyEvents ctx (.ctor n) node.fn args st)) ∧
      (lc = [] ∨ ∃ op err rt, lc = [.cb op (.ctor n) node.fn.id err rt]) := by
  by_cases hd : ctx.cfg.dry = true
  · obtain ⟨l, h1, h2, h3⟩ := runCallback_log node.cb (.ctor n) node.fn.id st.clock (ctorOutcome ctx node.fn.id .dry).2
      (ctorCommit ctx n node .dry st)
    refine ⟨[], l, ?_, ?_, Or.inl ⟨hd, rfl⟩, ?_⟩
    · simp only [ctorTail, callBody_dry ctx hd, h2, (ctorCommit_fields ctx n node _ _).2.1, List.nil_append]
    · simp only [ctorTail, callBody_dry ctx hd, h1, (ctorCommit_fields ctx n node _ _).1, List.nil_append]
    · rcases h3 with h | ⟨op, rt, h⟩
      · exact Or.inl h
      · exact Or.inr ⟨_, _, _, h⟩
  · have hnd : ctx.cfg.dry = false := by simpa using hd
    obtain ⟨l, h1, h2, h3⟩ := runCallback_log node.cb (.ctor n) node.fn.id st.clock
      (ctorOutcome ctx node.fn.id (bodyRes ctx node.fn st)).2
      (ctorCommit ctx n node (bodyRes ctx node.fn st) (afterBody ctx (.ctor n) node.fn args st))
    refine ⟨bodyEvents ctx (.ctor n) node.fn args st, l, ?_, ?_, Or.inr ⟨hnd, rfl⟩, ?_⟩
    · simp only [ctorTail, callBody_spec ctx hnd]
      rw [h2, (ctorCommit_fields ctx n node _ _).2.1]
      simp [afterBody, List.append_assoc]
    · simp only [ctorTail, callBody_spec ctx hnd]
      rw [h1, (ctorCommit_fields ctx n node _ _).1]
      simp [afterBody, List.append_assoc]
    · rcases h3 with h | ⟨op, rt, h⟩
      · exact Or.inl h
      · exact Or.inr ⟨_, _, _, h⟩

theorem decoTail_log (ctx : Ctx) (d : Nat) (node : DecoNode) (args : List Val) (st : St) :
    ∃ lb lc, (decoTail ctx d node args st).2.hist = st.hist ++ (lb ++ lc) ∧
      (decoTail ctx d node args st).2.log = st.log ++ (lb ++ lc) ∧
      ((ctx.cfg.dry = true ∧ lb = []) ∨ (ctx.cfg.dry = false ∧ lb = bodyEvents ctx (.deco d) node.fn args st)) ∧
      (lc = [] ∨ ∃ op err rt, lc = [.cb op (.deco d) node.fn.id err rt]) := by
  by_cases hd : ctx.cfg.dry = true
  · obtain ⟨l, h1, h2, h3⟩ := runCallback_log node.cb (.deco d) node.fn.id st.clock (decoOutcome ctx node.fn.id .dry).2
      (decoCommit ctx d node .dry st)
    refine ⟨[], l, ?_, ?_, Or.inl ⟨hd, rfl⟩, ?_⟩
    · simp only [decoTail, callBody_dry ctx hd, h2, (decoCommit_fields ctx d node _ _).2.1, List.nil_append]
    · simp only [decoTail, callBody_dry ctx hd, h1, (decoCommit_fields ctx d node _ _).1, List.nil_append]
    · rcases h3 with h | ⟨op, rt, h⟩
      · exact Or.inl h
      · exact Or.inr ⟨_, _, _, h⟩
  · have hnd : ctx.cfg.dry = false := by simpa using hd
    obtain ⟨l, h1, h2, h3⟩ := runCallback_log node.cb (.deco d) node.fn.id st.clock
      (decoOutcome ctx node.fn.id (bodyRes ctx node.fn st)).2
      (decoCommit ctx d node (bodyRes ctx node.fn st) (afterBody ctx (.deco d) node.fn args st))
    refine ⟨bodyEvents ctx (.deco d) node.fn args st, l, ?_, ?_, Or.inr ⟨hnd, rfl⟩, ?_⟩
    · simp only [decoTail, callBody_spec ctx hnd]
      rw [h2, (decoCommit_fields ctx d node _ _).2.1]
      simp [afterBody, List.append_assoc]
    · simp only [decoTail, callBody_spec ctx hnd]
      rw [h1, (decoCommit_fields ctx d node _ _).1]
      simp [afterBody, List.append_assoc]
    · rcases h3 with h | ⟨op, rt, h⟩
      · exact Or.inl h
      · exact Or.inr ⟨_, _, _, h⟩

/-- a successful body execution is one whose results are committed -/
theorem commits_of_ok_exit (ctx : Ctx) (hnd : ctx.cfg.dry = false) (who : Who) (fn : Fn) (args : List Val) (st : St)
    (h : exitKind ctx fn (ctx.beh fn.id (st.execCount fn.id)) = .ok) :
    (callBody ctx who fn args st).1.commits = true := by
  rw [callBody_spec ctx hnd]
  obtain ⟨x, len, hr⟩ := (bodyRes_ok_iff ctx fn st).mpr h
  simp [hr, BodyRes.commits]

end Dig
