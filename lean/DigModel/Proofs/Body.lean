import DigModel.Engine
/-
  The three stages of running a user function for a node:
  `callBody` (events, clock, execution counter), `ctorCommit`/`decoCommit`
  (cache writes and the `called` flag), `runCallback`.
-/
namespace Dig

theorem bumpExec_fields (st : St) (f : Nat) :
    (st.bumpExec f).scopes = st.scopes ∧ (st.bumpExec f).ctors = st.ctors ∧ (st.bumpExec f).decos = st.decos ∧
    (st.bumpExec f).pgs = st.pgs ∧ (st.bumpExec f).log = st.log ∧ (st.bumpExec f).clock = st.clock ∧
    (st.bumpExec f).hist = st.hist := by
  unfold St.bumpExec
  split <;> exact ⟨rfl, rfl, rfl, rfl, rfl, rfl, rfl⟩

/-- how execution `x` of `fn` ends, according to the script -/
def exitKind (ctx : Ctx) (fn : Fn) (b : Beh) : ExitKind :=
  match b.k with
  | .panic => .panic
  | .err => if (errOuts ctx.env fn).isEmpty then .ok else .err
  | .ok => .ok

/-- the two events of one execution -/
def bodyEvents (ctx : Ctx) (who : Who) (fn : Fn) (args : List Val) (st : St) : List Event :=
  let x := st.execCount fn.id
  [.enter who fn.id x args, .exit who fn.id x (exitKind ctx fn (ctx.beh fn.id x))]

/-- the state after the body of the next execution of `fn` has run -/
def afterBody (ctx : Ctx) (who : Who) (fn : Fn) (args : List Val) (st : St) : St :=
  { (st.bumpExec fn.id) with
    clock := st.clock + (ctx.beh fn.id (st.execCount fn.id)).dt
    log := st.log ++ bodyEvents ctx who fn args st
    hist := st.hist ++ bodyEvents ctx who fn args st }

def bodyRes (ctx : Ctx) (fn : Fn) (st : St) : BodyRes :=
  let x := st.execCount fn.id
  let b := ctx.beh fn.id x
  let eo := errOuts ctx.env fn
  match b.k with
  | .panic => .panic x
  | .err => if eo.isEmpty then .ok x b.len else .err x (eo.getD (b.eslot % eo.length) 0)
  | .ok => .ok x b.len

theorem callBody_spec (ctx : Ctx) (hnd : ctx.cfg.dry = false) (who : Who) (fn : Fn) (args : List Val) (st : St) :
    callBody ctx who fn args st = (bodyRes ctx fn st, afterBody ctx who fn args st) := by
  obtain ⟨_, _, _, _, hl, hc, hh⟩ := bumpExec_fields st fn.id
  simp only [callBody, hnd, bodyRes, afterBody, bodyEvents, exitKind, St.emit, hl, hc, hh]
  cases (ctx.beh fn.id (st.execCount fn.id)).k
  · simp
  · by_cases h : (errOuts ctx.env fn).isEmpty <;> simp [h]
  · simp

/-- in a DryRun container the body is not run: the state is unchanged -/
theorem callBody_dry (ctx : Ctx) (h : ctx.cfg.dry = true) (who : Who) (fn : Fn) (args : List Val) (st : St) :
    callBody ctx who fn args st = (.dry, st) := by
  unfold callBody; simp [h]

/-- the result says `ok` exactly when the exit event does -/
theorem bodyRes_ok_iff (ctx : Ctx) (fn : Fn) (st : St) :
    (∃ x len, bodyRes ctx fn st = .ok x len) ↔ exitKind ctx fn (ctx.beh fn.id (st.execCount fn.id)) = .ok := by
  unfold bodyRes exitKind
  cases hk : (ctx.beh fn.id (st.execCount fn.id)).k
  · simp [hk]
  · by_cases h : (errOuts ctx.env fn).isEmpty <;> simp [h, hk]
  · simp [hk]

theorem bodyRes_ne_dry (ctx : Ctx) (fn : Fn) (st : St) : bodyRes ctx fn st ≠ .dry := by
  unfold bodyRes
  cases hk : (ctx.beh fn.id (st.execCount fn.id)).k
  · simp [hk]
  · by_cases h : (errOuts ctx.env fn).isEmpty <;> simp [h, hk]
  · simp [hk]

/-! ### fields left alone by the stages -/

theorem afterBody_fields (ctx : Ctx) (who : Who) (fn : Fn) (args : List Val) (st : St) :
    (afterBody ctx who fn args st).scopes = st.scopes ∧ (afterBody ctx who fn args st).ctors = st.ctors ∧
    (afterBody ctx who fn args st).decos = st.decos ∧ (afterBody ctx who fn args st).pgs = st.pgs := by
  obtain ⟨h1, h2, h3, h4, _, _, _⟩ := bumpExec_fields st fn.id
  exact ⟨h1, h2, h3, h4⟩

theorem runCallback_fields (cb : Option Nat) (who : Who) (fn start : Nat) (err : Option DErr) (st : St) :
    (runCallback cb who fn start err st).scopes = st.scopes ∧ (runCallback cb who fn start err st).ctors = st.ctors ∧
    (runCallback cb who fn start err st).decos = st.decos ∧ (runCallback cb who fn start err st).pgs = st.pgs := by
  unfold runCallback
  split <;> exact ⟨rfl, rfl, rfl, rfl⟩

/-- the callback stage appends at most one event, a callback event -/
theorem runCallback_log (cb : Option Nat) (who : Who) (fn start : Nat) (err : Option DErr) (st : St) :
    ∃ l, (runCallback cb who fn start err st).log = st.log ++ l ∧ (runCallback cb who fn start err st).hist = st.hist ++ l ∧
      (l = [] ∨ ∃ op rt, l = [.cb op who fn err rt]) := by
  unfold runCallback
  split
  · exact ⟨[_], rfl, rfl, Or.inr ⟨_, _, rfl⟩⟩
  · exact ⟨[], by simp, by simp, Or.inl rfl⟩

theorem ctorCommit_fields (ctx : Ctx) (n : Nat) (node : CtorNode) (r : BodyRes) (st : St) :
    (ctorCommit ctx n node r st).log = st.log ∧ (ctorCommit ctx n node r st).hist = st.hist ∧
    (ctorCommit ctx n node r st).decos = st.decos ∧ (ctorCommit ctx n node r st).pgs = st.pgs ∧
    (ctorCommit ctx n node r st).clock = st.clock := by
  unfold ctorCommit
  cases r <;> exact ⟨rfl, rfl, rfl, rfl, rfl⟩

theorem decoCommit_fields (ctx : Ctx) (d : Nat) (node : DecoNode) (r : BodyRes) (st : St) :
    (decoCommit ctx d node r st).log = st.log ∧ (decoCommit ctx d node r st).hist = st.hist ∧
    (decoCommit ctx d node r st).ctors = st.ctors ∧ (decoCommit ctx d node r st).pgs = st.pgs ∧
    (decoCommit ctx d node r st).clock = st.clock := by
  unfold decoCommit
  cases r <;> exact ⟨rfl, rfl, rfl, rfl, rfl⟩

/-- the commit stage touches the constructor table only to set `called` on node `n`, and only after a normal return -/
theorem ctorCommit_ctors (ctx : Ctx) (n : Nat) (node : CtorNode) (r : BodyRes) (st : St) :
    (ctorCommit ctx n node r st).ctors =
      if (match r with | .ok _ _ => true | .dry => true | _ => false) then st.ctors.modify n (fun y => { y with called := true })
      else st.ctors := by
  unfold ctorCommit
  cases r <;> simp [St.modCtor, St.modScope]

theorem decoCommit_decos (ctx : Ctx) (d : Nat) (node : DecoNode) (r : BodyRes) (st : St) :
    (decoCommit ctx d node r st).decos =
      if (match r with | .ok _ _ => true | .dry => true | _ => false) then st.decos.modify d (fun y => { y with state := .called })
      else st.decos := by
  unfold decoCommit
  cases r <;> simp [St.modDeco, St.modScope]

end Dig
