import DigModel.Proofs.GraphMeaning
import DigModel.Proofs.GhBoundApi
/-
  `GM0` and `TreeInv` in every reachable container.
-/
namespace Dig

structure GT (st : St) : Prop where
  gm : GM0 st
  tree : TreeInv st

theorem GT.init : GT ({} : St) := ⟨GM0.init, TreeInv.init⟩

theorem GT.eqButVerified {a b : St} (h : GT a) (he : EqButVerified a b) : GT b :=
  ⟨h.gm.eqButVerified he, h.tree.transfer he.2.2.2.2.2.2.2.1.symm
    (fun j => ⟨((he.2.2.2.2.2.2.2.2 j).1).symm, ((he.2.2.2.2.2.2.2.2 j).2.1).symm⟩)⟩

theorem GT.regFrame {a b : St} (h : GT a) (hf : RegFrame a b) : GT b :=
  ⟨h.gm.regFrame hf, h.tree.transfer hf.1.symm (fun j => ⟨((hf.2.1 j).1).symm, ((hf.2.1 j).2.1).symm⟩)⟩

/-- a change of one scope that keeps holder, tree position and providers -/
theorem GT.modScope {w : St} (h : GT w) (s : Nat) (f : ScopeSt → ScopeSt)
    (hf : ∀ x, (f x).gh = x.gh ∧ (f x).parent = x.parent ∧ (f x).providers = x.providers ∧ (f x).children = x.children) :
    GT (w.modScope s f) :=
  ⟨h.gm.modScope s f (fun x => ⟨(hf x).1, (hf x).2.1, (hf x).2.2.1⟩),
   h.tree.transfer (by simp [St.modScope]) (fun j => by rw [scope_modScope]; split <;> simp [hf])⟩

theorem GT.newGraphNode {w : St} (h : GT w) (s : Nat) (node : GNode) (hv : NodeValid w node) : GT (w.newGraphNode s node) :=
  ⟨h.gm.newGraphNode s node hv, h.tree.newGraphNode s node⟩

theorem GT.addCtor {w : St} (h : GT w) (node : CtorNode) : GT { w with ctors := w.ctors ++ [node] } :=
  ⟨h.gm.addCtor node, h.tree.transfer rfl (fun _ => ⟨rfl, rfl⟩)⟩

theorem GT.addDecos {w : St} (h : GT w) (l : List DecoNode) : GT { w with decos := l } :=
  ⟨h.gm.addDecos l, h.tree.transfer rfl (fun _ => ⟨rfl, rfl⟩)⟩

theorem GT.resetLog {w : St} (h : GT w) : GT { w with log := [] } :=
  ⟨⟨h.gm.pos, h.gm.prov, h.gm.bnd⟩, h.tree.transfer rfl (fun _ => ⟨rfl, rfl⟩)⟩

theorem newGraphNode_pgsLen (w : St) (s : Nat) (node : GNode) : (w.newGraphNode s node).pgs.length = w.pgs.length := by
  rw [newGraphNode_eq]
  generalize w.subscopes s = l
  induction l generalizing w with
  | nil => rfl
  | cons x xs ih => simp only [List.foldl_cons]; rw [ih]; exact (ghStep_len node w x).2.2

theorem GT.addPGNodes {w : St} (h : GT w) (s : Nat) (descs : List PGDesc) :
    GT (addPGNodes w s w.pgs.length descs) := by
  unfold Dig.addPGNodes
  simp only
  have h1 : GT { w with pgs := w.pgs ++ (descs.drop w.pgs.length).map fun d => ({ desc := d } : PGNode) } :=
    ⟨h.gm.addPgs _, h.tree.transfer rfl (fun _ => ⟨rfl, rfl⟩)⟩
  have hlen : ({ w with pgs := w.pgs ++ (descs.drop w.pgs.length).map fun d => ({ desc := d } : PGNode) } : St).pgs.length =
      w.pgs.length + (descs.length - w.pgs.length) := by simp
  generalize ({ w with pgs := w.pgs ++ (descs.drop w.pgs.length).map fun d => ({ desc := d } : PGNode) } : St) = v at h1 hlen
  have key : ∀ (l : List Nat) (v : St), GT v → v.pgs.length = w.pgs.length + (descs.length - w.pgs.length) →
      (∀ j ∈ l, j < descs.length - w.pgs.length) →
      GT (l.foldl (fun st j => st.newGraphNode s (.pg (w.pgs.length + j))) v) := by
    intro l
    induction l with
    | nil => intro v hv _ _; exact hv
    | cons x xs ih =>
      intro v hv hl hx
      simp only [List.foldl_cons]
      refine ih _ (hv.newGraphNode s _ ?_) ?_ (fun j hj => hx j (by simp [hj]))
      · show w.pgs.length + x < v.pgs.length
        rw [hl]; have := hx x (by simp); omega
      · rw [newGraphNode_pgsLen]; exact hl
  exact key _ v h1 hlen (fun j hj => List.mem_range.mp hj)

theorem GT.parseParams {st : St} (h : GT st) (env : TyEnv) (s : Nat) (fn : Fn) : GT (Dig.parseParams env st s fn).2 := by
  unfold Dig.parseParams
  simp only
  have : (st.pgs.map (·.desc)).length = st.pgs.length := by simp
  rw [this]
  exact h.addPGNodes s _

theorem verifyScopes_tree (cfg : Cfg) : ∀ (l : List Nat) (w : St),
    (Dig.verifyScopes cfg l w).2.scopes.length = w.scopes.length ∧
    ∀ j, ((Dig.verifyScopes cfg l w).2.scope j).parent = (w.scope j).parent ∧
         ((Dig.verifyScopes cfg l w).2.scope j).children = (w.scope j).children := by
  intro l
  induction l with
  | nil => intro w; exact ⟨rfl, fun _ => ⟨rfl, rfl⟩⟩
  | cons sc rest ih =>
    intro w
    simp only [Dig.verifyScopes]
    have h1 : (w.modScope sc fun x => { x with verified := false }).scopes.length = w.scopes.length ∧
        ∀ j, ((w.modScope sc fun x => { x with verified := false }).scope j).parent = (w.scope j).parent ∧
             ((w.modScope sc fun x => { x with verified := false }).scope j).children = (w.scope j).children :=
      ⟨by simp [St.modScope], fun j => by rw [scope_modScope]; split <;> exact ⟨rfl, rfl⟩⟩
    split
    · obtain ⟨a, b⟩ := ih (w.modScope sc fun x => { x with verified := false })
      exact ⟨a.trans h1.1, fun j => ⟨(b j).1.trans (h1.2 j).1, (b j).2.trans (h1.2 j).2⟩⟩
    · split
      · obtain ⟨a, b⟩ := ih ((w.modScope sc fun x => { x with verified := false }).modScope sc fun x => { x with verified := true })
        have h2 : ((w.modScope sc fun x => { x with verified := false }).modScope sc fun x => { x with verified := true }).scopes.length = w.scopes.length ∧
            ∀ j, (((w.modScope sc fun x => { x with verified := false }).modScope sc fun x => { x with verified := true }).scope j).parent = (w.scope j).parent ∧
                 (((w.modScope sc fun x => { x with verified := false }).modScope sc fun x => { x with verified := true }).scope j).children = (w.scope j).children :=
          ⟨by simp [St.modScope], fun j => by
            rw [scope_modScope]
            split
            · exact ⟨(h1.2 j).1, (h1.2 j).2⟩
            · exact h1.2 j⟩
        exact ⟨a.trans h2.1, fun j => ⟨(b j).1.trans (h2.2 j).1, (b j).2.trans (h2.2 j).2⟩⟩
      · exact h1

theorem GT.verifyScopes {w : St} (h : GT w) (cfg : Cfg) (l : List Nat) : GT (Dig.verifyScopes cfg l w).2 :=
  ⟨h.gm.graphSame (graphSame_verifyScopes cfg l w),
   h.tree.transfer (verifyScopes_tree cfg l w).1 (verifyScopes_tree cfg l w).2⟩

end Dig

namespace Dig

theorem subscopes_congr {a b : St} (hl : a.scopes.length = b.scopes.length)
    (hc : ∀ j, (a.scope j).children = (b.scope j).children) (s : Nat) : a.subscopes s = b.subscopes s := by
  unfold St.subscopes
  rw [hl]
  exact subscopesAux_congr _ _ hl hc _ _

theorem GT.provide {st : St} (h : GT st) (ctx : Ctx) (fn : Fn) (i s : Nat) (o : ProvideOpts) :
    GT (apiProvide ctx fn st i s o).1 := by
  unfold apiProvide
  cases fn.nonfunc with
  | some _ => exact h
  | none =>
    simp only
    cases validateOpts ctx.env o with
    | error e' => exact h
    | ok as =>
      simp only
      generalize (if o.export_ then St.root else s) = target
      have hw1 := work_parseParams (Work.refl st target) ctx.env fn
      have ho1 := h.parseParams ctx.env target fn
      cases hpp : Dig.parseParams ctx.env st target fn with
      | mk r w1 =>
        rw [hpp] at hw1 ho1
        simp only at hw1 ho1
        cases r with
        | error e1 => exact h.eqButVerified (rollback_restores hw1)
        | ok params =>
          simp only
          cases newResultList ctx.env { name := o.name, group := o.group, as := as } fn with
          | error e2 => exact h.eqButVerified (rollback_restores hw1)
          | ok results =>
            simp only
            let node : CtorNode := { fn := fn, params := params, results := results, s := target, origS := s, cb := if o.cb then some i else none }
            have hw3 := work_newGraphNode (work_addCtor hw1 node) (.ctor w1.ctors.length)
              (by show st.ctors.length ≤ w1.ctors.length; exact hw1.ctorsLen)
            have ho2 := ho1.addCtor node
            have ho3 := ho2.newGraphNode target (.ctor w1.ctors.length) (by show w1.ctors.length < (w1.ctors ++ [node]).length; simp)
            -- the new node is in the holder of every scope of the subtree
            have hmem : ∀ sc ∈ ({ w1 with ctors := w1.ctors ++ [node] } : St).subscopes target, sc < w1.scopes.length →
                GNode.ctor w1.ctors.length ∈ ((St.newGraphNode { w1 with ctors := w1.ctors ++ [node] } target (.ctor w1.ctors.length)).scope sc).gh :=
              fun sc hsc hlt => newGraphNode_mem _ target _ sc hsc hlt
            have hsub : (St.newGraphNode { w1 with ctors := w1.ctors ++ [node] } target (.ctor w1.ctors.length)).subscopes target =
                ({ w1 with ctors := w1.ctors ++ [node] } : St).subscopes target := by
              rw [newGraphNode_eq]
              obtain ⟨a1, a2, _, _⟩ := foldGhStep_facts (.ctor w1.ctors.length) (({ w1 with ctors := w1.ctors ++ [node] } : St).subscopes target)
                { w1 with ctors := w1.ctors ++ [node] }
              exact subscopes_congr a1 (fun j => (a2 j).2.1) target
            have hlen3 : (St.newGraphNode { w1 with ctors := w1.ctors ++ [node] } target (.ctor w1.ctors.length)).scopes.length = w1.scopes.length := by
              rw [newGraphNode_eq]
              exact (foldGhStep_facts (.ctor w1.ctors.length) _ { w1 with ctors := w1.ctors ++ [node] }).1
            generalize (St.newGraphNode { w1 with ctors := w1.ctors ++ [node] } target (.ctor w1.ctors.length)) = w3 at hw3 ho3 hmem hsub hlen3
            cases hvk : visitKeys (w3.scope target) (slotResults results) [] with
            | error e3 => exact h.eqButVerified (rollback_restores hw3)
            | ok keys =>
              cases keys with
              | nil => exact h.eqButVerified (rollback_restores hw3)
              | cons k0 ks =>
                simp only
                have hsame : (w3.modScope target fun x =>
                    { x with providers := (k0 :: ks).foldl (fun m k => aset m k (agetL m k ++ [w1.ctors.length])) x.providers }) =
                    (w3.modScope target fun x =>
                    { x with providers := (k0 :: ks).foldl (fun m k => aset m k (agetL m k ++ [w1.ctors.length])) (w3.scope target).providers }) := by
                  unfold St.modScope
                  congr 1
                  apply List.ext_getElem?
                  intro j
                  simp only [List.getElem?_modify]
                  by_cases hj : target = j
                  · subst hj
                    cases hg : w3.scopes[target]? with
                    | none => rfl
                    | some x =>
                      have : w3.scope target = x := by
                        unfold St.scope; rw [List.getD_eq_getElem?_getD, hg]; rfl
                      simp [this]
                  · simp [hj]
                rw [hsame]
                have hw4 := work_modScope_providers hw3
                  ((k0 :: ks).foldl (fun m k => aset m k (agetL m k ++ [w1.ctors.length])) (w3.scope target).providers)
                have ho4 : GT (w3.modScope target fun x =>
                    { x with providers := (k0 :: ks).foldl (fun m k => aset m k (agetL m k ++ [w1.ctors.length])) (w3.scope target).providers }) :=
                  ⟨ho3.gm.addProviders ho3.tree target w1.ctors.length (k0 :: ks)
                      (fun sc hsc hlt => hmem sc (by rw [← hsub]; exact hsc) (by rw [← hlen3]; exact hlt)),
                   ho3.tree.transfer (by simp [St.modScope]) (fun j => by rw [scope_modScope]; split <;> exact ⟨rfl, rfl⟩)⟩
                have hw5 := work_verifyScopes (target := target) ctx.cfg (st.subscopes target) _ hw4
                have ho5 := ho4.verifyScopes ctx.cfg (st.subscopes target)
                cases hvs : Dig.verifyScopes ctx.cfg (st.subscopes target) (w3.modScope target fun x =>
                    { x with providers := (k0 :: ks).foldl (fun m k => aset m k (agetL m k ++ [w1.ctors.length])) (w3.scope target).providers }) with
                | mk r5 w5 =>
                  rw [hvs] at hw5 ho5
                  simp only at hw5 ho5
                  cases r5 with
                  | ok u =>
                    simp only
                    exact ho5.modScope target _ (fun _ => ⟨rfl, rfl, rfl, rfl⟩)
                  | error ec =>
                    obtain ⟨sc, r⟩ := ec
                    cases r with
                    | cycle p => simp only; exact h.eqButVerified (rollback_restores hw5)
                    | acyclic => simp only; exact ho5
                    | outOfRange => simp only; exact ho5
                    | fuel => simp only; exact ho5

theorem GT.decorate {st : St} (h : GT st) (ctx : Ctx) (fn : Fn) (i s : Nat) (cb info : Bool) :
    GT (apiDecorate ctx fn st i s cb info).1 := by
  unfold apiDecorate
  cases fn.nonfunc with
  | some _ => exact h
  | none =>
    simp only
    have hw1 := work_parseParams (Work.refl st s) ctx.env fn
    have ho1 := h.parseParams ctx.env s fn
    have hrej : ∀ e, GT (rollbackProvide st (Dig.parseParams ctx.env st s fn).2 s (st.subscopes s), ({ v := .err e } : RegRes)).1 :=
      fun e => h.eqButVerified (rollback_restores hw1)
    cases hpp : Dig.parseParams ctx.env st s fn with
    | mk r w1 =>
      rw [hpp] at ho1 hrej
      simp only at ho1 hrej
      cases r with
      | error e1 => exact hrej .invalid0
      | ok params =>
        simp only
        cases newResultList ctx.env {} fn with
        | error e2 => exact hrej .invalid0
        | ok results =>
          simp only
          cases resultKeys ctx.env (slotResults results) with
          | error e3 => exact hrej .invalid0
          | ok keys =>
            simp only
            split
            · exact hrej .invalid0
            · exact (ho1.addDecos _).modScope s _ (fun _ => ⟨rfl, rfl, rfl, rfl⟩)

theorem GT.scope {st : St} (h : GT st) (parent : Nat) (hp : parent < st.scopes.length) : GT (apiScope st parent) :=
  ⟨h.gm.scope h.tree parent hp, h.tree.scope parent hp⟩

theorem GT.invoke {st : St} (h : GT st) (ctx : Ctx) (fn : Fn) (s : Nat) (info : Bool) : GT (apiInvoke ctx fn st s info).1 := by
  rw [apiInvoke_eq]
  unfold apiInvoke'
  cases fn.nonfunc with
  | some _ => exact h
  | none =>
    simp only
    have ho1 := h.parseParams ctx.env s fn
    have hrb := parse_rollback_eq ctx.env st s fn
    cases hpp : Dig.parseParams ctx.env st s fn with
    | mk r w =>
      rw [hpp] at ho1 hrb
      simp only at ho1 hrb
      cases r with
      | error e => simp only; rw [hrb]; exact h
      | ok params =>
        simp only
        have hs := shallowCheck_state s params w
        cases hsc : shallowCheck s params w with
        | mk r2 w2 =>
          rw [hsc] at hs; simp only at hs; subst hs
          cases r2 with
          | error f => exact ho1
          | ok u =>
            simp only
            cases hck : invokeCheck w2 s with
            | error v => exact ho1
            | ok w3 =>
              simp only
              have ho3 : GT w3 := by
                unfold invokeCheck at hck
                split at hck
                · injection hck with e; rw [← e]; exact ho1
                · split at hck
                  · injection hck with e; rw [← e]; exact ho1.modScope s _ (fun _ => ⟨rfl, rfl, rfl, rfl⟩)
                  · cases hck
                  · cases hck
              unfold invokeRun
              have hb : GT (EM.wrapErr (buildList ctx (engineFuel w3 params) params s) DErr.argsFailed w3).2 := by
                rw [wrapErr_state]
                exact ho3.regFrame (buildList_regFrame ctx _ params s w3)
              cases hbl : EM.wrapErr (buildList ctx (engineFuel w3 params) params s) DErr.argsFailed w3 with
              | mk r4 w4 =>
                rw [hbl] at hb
                simp only at hb
                cases r4 with
                | error f => exact hb
                | ok args =>
                  simp only
                  have hf := callBody_fields ctx .invoked fn args w4
                  exact hb.regFrame (regFrame_of_same _ _ hf.1.symm hf.2.1.symm hf.2.2.1.symm hf.2.2.2.symm)

theorem GT.step {st : St} (h : GT st) (ctx : Ctx) (fns : List Fn) (i : Nat) (op : Op) : GT (Dig.step ctx fns st i op).1 := by
  have h0 := h.resetLog
  cases op with
  | scope parent =>
    simp only [Dig.step]
    split
    · rename_i hp; exact h0.scope parent hp
    · exact h0
  | provide s f o =>
    simp only [Dig.step]
    split
    · split
      · exact h0.provide ctx _ i s o
      · exact h0
    · exact h0
  | decorate s f cb info =>
    simp only [Dig.step]
    split
    · split
      · exact h0.decorate ctx _ i s cb info
      · exact h0
    · exact h0
  | invoke s f info =>
    simp only [Dig.step]
    split
    · split
      · exact h0.invoke ctx _ s info
      · exact h0
    · exact h0
  | visualize s e => cases e <;> (simp only [Dig.step]; split <;> exact h0)
  | string s => simp only [Dig.step]; split <;> exact h0

theorem GT.runOps (ctx : Ctx) (fns : List Fn) : ∀ (ops : List Op) (i : Nat) (st : St) (acc : List OpRes),
    GT st → GT (Dig.runOps ctx fns ops i st acc).1 := by
  intro ops
  induction ops with
  | nil => intro i st acc h; exact h
  | cons op rest ih =>
    intro i st acc h
    simp only [Dig.runOps]
    exact ih _ _ _ (h.step ctx fns i op)

theorem gt_program (p : Program) : GT (runProgram p).1 := GT.runOps p.ctx p.fns p.ops 0 {} [] GT.init

end Dig
