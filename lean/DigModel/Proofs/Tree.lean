import DigModel.Proofs.Frame
import DigModel.Api
/-
  The scope tree: parent and children fields describe the same tree, parents precede children; whoever has `a` on
  its path to the root is in the subtree of `a` (the direction Provide needs: every scope that can see a scope is
  reached by the walk over that scope's descendants).
-/
namespace Dig

theorem scope_of_getElem? {st : St} {c : Nat} {sc : ScopeSt} (h : st.scopes[c]? = some sc) :
    c < st.scopes.length ∧ st.scope c = sc := by
  have hc : c < st.scopes.length := by
    rcases Nat.lt_or_ge c st.scopes.length with h1 | h1
    · exact h1
    · have : st.scopes[c]? = none := by simp; omega
      rw [this] at h; cases h
  refine ⟨hc, ?_⟩
  unfold St.scope
  rw [List.getD_eq_getElem?_getD, h]; rfl

theorem getElem?_scope {st : St} {c : Nat} (hc : c < st.scopes.length) : st.scopes[c]? = some (st.scope c) := by
  unfold St.scope
  rw [List.getD_eq_getElem?_getD, List.getElem?_eq_getElem hc]; rfl

structure TreeInv (st : St) : Prop where
  /-- a scope's parent precedes it and lists it among its children -/
  up : ∀ c, c < st.scopes.length → ∀ p, (st.scope c).parent = some p → p < c ∧ c ∈ (st.scope p).children
  /-- children come after their parent and exist -/
  down : ∀ p, p < st.scopes.length → ∀ c ∈ (st.scope p).children, p < c ∧ c < st.scopes.length
  /-- the root exists and is the only scope without a parent -/
  root : 0 < st.scopes.length ∧ ∀ c, c < st.scopes.length → ((st.scope c).parent = none ↔ c = 0)

theorem TreeInv.init : TreeInv ({} : St) where
  up c hc p hp := by
    have : c = 0 := by simp at hc; omega
    subst this; simp [St.scope] at hp
  down p hp c hc := by
    have : p = 0 := by simp at hp; omega
    subst this; simp [St.scope] at hc
  root := by
    refine ⟨by decide, ?_⟩
    intro c hc
    have : c = 0 := by simp at hc; omega
    subst this
    simp [St.scope]

theorem TreeInv.up' {st : St} (h : TreeInv st) (c : Nat) (sc : ScopeSt) (hs : st.scopes[c]? = some sc) (p : Nat)
    (hp : sc.parent = some p) : p < c ∧ ∃ psc : ScopeSt, st.scopes[p]? = some psc ∧ c ∈ psc.children := by
  obtain ⟨hc, e⟩ := scope_of_getElem? hs
  subst e
  obtain ⟨h1, h2⟩ := h.up c hc p hp
  exact ⟨h1, st.scope p, getElem?_scope (by omega), h2⟩

theorem TreeInv.down' {st : St} (h : TreeInv st) (p : Nat) (psc : ScopeSt) (hs : st.scopes[p]? = some psc) :
    ∀ c ∈ psc.children, p < c ∧ c < st.scopes.length := by
  obtain ⟨hp, e⟩ := scope_of_getElem? hs
  subst e
  exact h.down p hp

/-- same tree -/
theorem TreeInv.transfer {a b : St} (h : TreeInv a) (hl : b.scopes.length = a.scopes.length)
    (hs : ∀ j, (b.scope j).parent = (a.scope j).parent ∧ (b.scope j).children = (a.scope j).children) : TreeInv b where
  up c hc p hp := by
    rw [(hs c).1] at hp
    rw [(hs p).2]
    exact h.up c (by rw [← hl]; exact hc) p hp
  down p hp c hc := by
    rw [(hs p).2] at hc
    rw [hl]
    exact h.down p (by rw [← hl]; exact hp) c hc
  root := ⟨by rw [hl]; exact h.root.1, fun c hc => by rw [(hs c).1]; exact h.root.2 c (by rw [← hl]; exact hc)⟩

/-- `x` is `a` or one of its descendants -/
inductive Desc (st : St) (a : Nat) : Nat → Prop where
  | self : a < st.scopes.length → Desc st a a
  | child {p c : Nat} {psc : ScopeSt} : Desc st a p → st.scopes[p]? = some psc → c ∈ psc.children → Desc st a c

theorem mem_subscopesAux_self (scopes : List ScopeSt) (f a : Nat) (ha : a < scopes.length) :
    a ∈ subscopesAux scopes (f + 1) a := by
  simp only [subscopesAux, List.getElem?_eq_getElem ha, List.mem_cons, true_or]

theorem subscopesAux_mono (scopes : List ScopeSt) : ∀ (f a x : Nat), x ∈ subscopesAux scopes f a →
    x ∈ subscopesAux scopes (f + 1) a := by
  intro f
  induction f with
  | zero => intro a x h; simp [subscopesAux] at h
  | succ f ih =>
    intro a x h
    simp only [subscopesAux] at h ⊢
    cases hs : scopes[a]? with
    | none => rw [hs] at h; cases h
    | some sc =>
      rw [hs] at h
      simp only [List.mem_cons, List.mem_flatMap] at h ⊢
      rcases h with h | ⟨c, hc, hx⟩
      · exact Or.inl h
      · exact Or.inr ⟨c, hc, ih c x hx⟩

theorem subscopesAux_mono_le (scopes : List ScopeSt) (a x : Nat) : ∀ (f g : Nat), f ≤ g → x ∈ subscopesAux scopes f a →
    x ∈ subscopesAux scopes g a := by
  intro f g hfg
  induction hfg with
  | refl => exact id
  | step _ ih => intro h; exact subscopesAux_mono scopes _ a x (ih h)

/-- stepping down from a member of a subtree stays in the subtree, one more level of fuel -/
theorem subscopesAux_child (scopes : List ScopeSt) : ∀ (f a p c : Nat) (psc : ScopeSt), p ∈ subscopesAux scopes f a →
    scopes[p]? = some psc → c ∈ psc.children → c < scopes.length → c ∈ subscopesAux scopes (f + 1) a := by
  intro f
  induction f with
  | zero => intro a p c psc h; simp [subscopesAux] at h
  | succ f ih =>
    intro a p c psc h hp hc hcl
    simp only [subscopesAux] at h
    cases hs : scopes[a]? with
    | none => rw [hs] at h; cases h
    | some sc =>
      rw [hs] at h
      simp only [List.mem_cons, List.mem_flatMap] at h
      show c ∈ subscopesAux scopes (f + 1 + 1) a
      rw [subscopesAux]
      simp only [hs, List.mem_cons, List.mem_flatMap]
      rcases h with h | ⟨c', hc', hx⟩
      · subst h
        rw [hs] at hp; injection hp with hp; subst hp
        exact Or.inr ⟨c, hc, mem_subscopesAux_self scopes f c hcl⟩
      · exact Or.inr ⟨c', hc', ih c' p c psc hx hp hc hcl⟩

/-- a descendant is found by the walk with as much fuel as its distance in indexes allows -/
theorem Desc.mem_aux {st : St} (ht : TreeInv st) {a x : Nat} (h : Desc st a x) :
    a ≤ x ∧ x < st.scopes.length ∧ x ∈ subscopesAux st.scopes (x - a + 1) a := by
  induction h with
  | self ha => exact ⟨Nat.le_refl _, ha, by rw [Nat.sub_self]; exact mem_subscopesAux_self _ 0 a ha⟩
  | @child p c psc _ hp hc ih =>
    obtain ⟨h1, h2, h3⟩ := ih
    obtain ⟨hlt, hcl⟩ := ht.down' p psc hp c hc
    refine ⟨by omega, hcl, ?_⟩
    have := subscopesAux_child st.scopes (p - a + 1) a p c psc h3 hp hc hcl
    exact subscopesAux_mono_le st.scopes a c _ _ (by omega) this

theorem Desc.mem_subscopes {st : St} (ht : TreeInv st) {a x : Nat} (h : Desc st a x) : x ∈ st.subscopes a := by
  obtain ⟨h1, h2, h3⟩ := h.mem_aux ht
  exact subscopesAux_mono_le st.scopes a x _ _ (by omega) h3

theorem desc_of_ancestorsAux {st : St} (ht : TreeInv st) : ∀ (f s a : Nat), a ∈ ancestorsAux st.scopes f s → Desc st a s := by
  intro f
  induction f with
  | zero => intro s a h; simp [ancestorsAux] at h
  | succ f ih =>
    intro s a h
    simp only [ancestorsAux] at h
    cases hs : st.scopes[s]? with
    | none => rw [hs] at h; cases h
    | some sc =>
      rw [hs] at h
      have hsl : s < st.scopes.length := by
        rcases Nat.lt_or_ge s st.scopes.length with h1 | h1
        · exact h1
        · have : st.scopes[s]? = none := by simp; omega
          rw [this] at hs; cases hs
      simp only [List.mem_cons] at h
      rcases h with h | h
      · subst h; exact Desc.self hsl
      · cases hp : sc.parent with
        | none => rw [hp] at h; cases h
        | some p =>
          rw [hp] at h
          simp only at h
          obtain ⟨_, psc, hps, hc⟩ := ht.up' s sc hs p hp
          exact Desc.child (ih p a h) hps hc

/-- **whoever has `a` on its path to the root is visited by the walk over `a`'s subtree** -/
theorem mem_subscopes_of_mem_ancestors {st : St} (ht : TreeInv st) {s a : Nat} (h : a ∈ st.ancestors s) :
    s ∈ st.subscopes a :=
  (desc_of_ancestorsAux ht _ s a h).mem_subscopes ht

end Dig

namespace Dig

theorem copyOrderFold_scopes (child parent : Nat) : ∀ (l : List GNode) (w : St),
    (l.foldl (copyOrder child parent) w).scopes = w.scopes := by
  intro l
  induction l with
  | nil => intro w; rfl
  | cons x xs ih => intro w; simp only [List.foldl_cons]; rw [ih]; cases x <;> rfl

theorem getD_snoc {α : Type} (l : List α) (c d : α) (j : Nat) :
    (l ++ [c]).getD j d = if j < l.length then l.getD j d else if j = l.length then c else d := by
  simp only [List.getD_eq_getElem?_getD]
  by_cases hj : j < l.length
  · rw [List.getElem?_append_left hj]; simp [hj]
  · by_cases hje : j = l.length
    · subst hje; simp
    · have h1 : (l ++ [c])[j]? = none := by simp; omega
      simp [h1, hj, hje]

/-- the scopes after `Scope.Scope(name)` -/
theorem apiScope_scope (st : St) (parent : Nat) (hp : parent < st.scopes.length) :
    (apiScope st parent).scopes.length = st.scopes.length + 1 ∧
    ∀ j, (apiScope st parent).scope j =
      if j = st.scopes.length then ({ parent := some parent, gh := (st.scope parent).gh } : ScopeSt)
      else if j = parent then { st.scope parent with children := (st.scope parent).children ++ [st.scopes.length] }
      else st.scope j := by
  generalize hc : ({ parent := some parent, gh := (st.scope parent).gh } : ScopeSt) = c
  have hS : (apiScope st parent).scopes =
      (st.scopes ++ [c]).modify parent (fun x => { x with children := x.children ++ [st.scopes.length] }) := by
    unfold apiScope
    simp only
    rw [copyOrderFold_scopes, hc]
    rfl
  refine ⟨by rw [hS]; simp, ?_⟩
  intro j
  have hd : st.scopes.getD j ({ parent := none } : ScopeSt) = st.scope j := rfl
  show (apiScope st parent).scopes.getD j { parent := none } = _
  rw [hS, getD_modify, getD_snoc]
  have hlen1 : (st.scopes ++ [c]).length = st.scopes.length + 1 := by simp
  by_cases hjl : j = st.scopes.length
  · subst hjl
    have h1 : ¬ (parent = st.scopes.length ∧ st.scopes.length < (st.scopes ++ [c]).length) := by intro hx; omega
    simp only [h1, if_false, Nat.lt_irrefl, if_true]
  · by_cases hjp : j = parent
    · subst hjp
      have h1 : j = j ∧ j < (st.scopes ++ [c]).length := ⟨rfl, by omega⟩
      simp only [h1, and_self, if_true, hp, hjl, if_false]
      rfl
    · have h1 : ¬ (parent = j ∧ j < (st.scopes ++ [c]).length) := fun hx => hjp hx.1.symm
      simp only [h1, if_false, hjl, hjp]
      by_cases hj : j < st.scopes.length
      · simp only [hj, if_true]; rfl
      · simp only [hj, if_false]
        show _ = st.scopes.getD j { parent := none }
        rw [List.getD_eq_getElem?_getD]
        have : st.scopes[j]? = none := by simp; omega
        simp [this]

theorem TreeInv.scope {st : St} (h : TreeInv st) (parent : Nat) (hp : parent < st.scopes.length) :
    TreeInv (apiScope st parent) := by
  obtain ⟨hlen, hsc⟩ := apiScope_scope st parent hp
  have hchildren : ∀ p, (st.scope p).children ⊆ ((apiScope st parent).scope p).children ∨ p = st.scopes.length := by
    intro p
    by_cases h1 : p = st.scopes.length
    · exact Or.inr h1
    · left
      rw [hsc p, if_neg h1]
      split
      · rename_i h2; subst h2; intro x hx; simp [hx]
      · exact fun x hx => hx
  refine ⟨?_, ?_, ?_⟩
  · intro c hc p hpar
    rw [hlen] at hc
    rw [hsc c] at hpar
    by_cases h1 : c = st.scopes.length
    · subst h1
      rw [if_pos rfl] at hpar
      simp only [Option.some.injEq] at hpar
      subst hpar
      refine ⟨hp, ?_⟩
      rw [hsc, if_neg (by omega), if_pos rfl]
      simp
    · rw [if_neg h1] at hpar
      have hc' : c < st.scopes.length := by omega
      have hpar' : (st.scope c).parent = some p := by
        split at hpar
        · rename_i hcp; rw [hcp]; exact hpar
        · exact hpar
      obtain ⟨a1, a2⟩ := h.up c hc' p hpar'
      refine ⟨a1, ?_⟩
      rcases hchildren p with h2 | h2
      · exact h2 a2
      · omega
  · intro p hpl c hc
    rw [hlen] at hpl ⊢
    rw [hsc p] at hc
    by_cases h1 : p = st.scopes.length
    · rw [if_pos h1] at hc; cases hc
    · rw [if_neg h1] at hc
      have hp' : p < st.scopes.length := by omega
      by_cases h2 : p = parent
      · rw [if_pos h2] at hc
        simp only [List.mem_append, List.mem_singleton] at hc
        rcases hc with hc | hc
        · rw [← h2] at hc
          obtain ⟨a1, a2⟩ := h.down p hp' c hc
          exact ⟨a1, by omega⟩
        · subst hc; exact ⟨hp', by omega⟩
      · rw [if_neg h2] at hc
        obtain ⟨a1, a2⟩ := h.down p hp' c hc
        exact ⟨a1, by omega⟩
  · refine ⟨by rw [hlen]; omega, ?_⟩
    intro c hc
    rw [hlen] at hc
    rw [hsc c]
    by_cases h1 : c = st.scopes.length
    · rw [if_pos h1]
      constructor
      · intro hh; cases hh
      · intro hh; have := h.root.1; omega
    · rw [if_neg h1]
      have hc' : c < st.scopes.length := by omega
      split
      · rename_i h2; rw [h2]; exact h.root.2 parent hp
      · exact h.root.2 c hc'

end Dig
