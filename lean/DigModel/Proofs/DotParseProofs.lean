import DigModel.Proofs.DotRenderProofs
/-
  The tokens of the document `visualizeGraph` writes parse as DOT, into exactly the statements the writer meant: one
  node per value group with an edge to each member, one cluster per constructor holding its result nodes, one edge per
  parameter (dashed exactly when optional) and per group parameter, one coloured node per failed result.
-/
namespace Dig.DotRender
open Dig.DotSyntax Dig.DotText

theorem run_append (st : PState) : ∀ (a b : List Tok), run st (a ++ b) = (run st a).bind fun s => run s b := by
  intro a
  induction a generalizing st with
  | nil => intro b; simp [run]
  | cons t rest ih =>
    intro b
    simp only [List.cons_append, run]
    cases h : step st t with
    | none => simp
    | some st' => simp [ih]

theorem toks_append : ∀ (a b : List Item), toks (a ++ b) = toks a ++ toks b
  | [], _ => rfl
  | .ws _ :: rest, b => by simp [toks, toks_append rest b]
  | .tk t :: rest, b => by simp [toks, toks_append rest b]

theorem toks_flatMap {α : Type} (f : α → List Item) : ∀ (xs : List α), toks (xs.flatMap f) = xs.flatMap fun x => toks (f x)
  | [] => rfl
  | x :: rest => by simp [List.flatMap_cons, toks_append, toks_flatMap f rest]

/-! ### what the writer meant -/

def A (k : String) (v : Tok) : Attr := { key := .bare k.toList, val := v }

def clusterTok (i : Nat) : Tok := .bare ("cluster_".toList ++ natDigits i)
def ctorTok (i : Nat) : Tok := .bare ("constructor_".toList ++ natDigits i)

section
variable (q : List Char → List Char)

def groupAst (g : RGroup) : List Stmt :=
  Stmt.node (.quoted (q g.str))
    ([A "shape" (.bare "diamond".toList), A "label" (.html (labelBody g.ty (some ("Group: ".toList, g.name))))] ++
     (if g.err = 0 then [] else [A "color" (.bare (colorName g.err).toList)])) ::
  g.results.map fun r => Stmt.edge (.quoted (q g.str)) (.quoted (q r)) []

def paramAst (i : Nat) (p : RParam) : Stmt :=
  .edge (ctorTok i) (.quoted (q p.str))
    ([A "ltail" (clusterTok i)] ++ (if p.optional then [A "style" (.bare "dashed".toList)] else []))

def gparamAst (i : Nat) (g : List Char) : Stmt := .edge (ctorTok i) (.quoted (q g)) [A "ltail" (clusterTok i)]

def resultAst (r : RResult) : Stmt := .node (.quoted (q r.str)) [A "label" (.html (resultBody r.ty r.name r.group))]

def clusterBody (i : Nat) (c : RCtor) : List Stmt :=
  (if c.pkg = [] then [] else [Stmt.assign (.bare "label".toList) (.quoted (q c.pkg))]) ++
  [Stmt.node (ctorTok i) [A "shape" (.bare "plaintext".toList), A "label" (.quoted (q c.name))]] ++
  (if c.err = 0 then [] else [Stmt.assign (.bare "color".toList) (.bare (colorName c.err).toList)]) ++
  c.results.map (resultAst q)

def ctorAst (i : Nat) (c : RCtor) : List Stmt :=
  Stmt.subgraph ("cluster_".toList ++ natDigits i) (clusterBody q i c) ::
  (c.params.map (paramAst q i) ++ c.gparams.map (gparamAst q i))

def ctorsAst : Nat → List RCtor → List Stmt
  | _, [] => []
  | i, c :: rest => ctorAst q i c ++ ctorsAst (i + 1) rest

def failedAst (color : String) (f : List Char) : Stmt := .node (.quoted (q f)) [A "color" (.bare color.toList)]

/-- the statements of the document -/
def graphAst (g : RGraph) : List Stmt :=
  [Stmt.assign (.bare "rankdir".toList) (.bare "RL".toList), Stmt.attrs "graph".toList [A "compound" (.bare "true".toList)]] ++
  g.groups.flatMap (groupAst q) ++ ctorsAst q 0 g.ctors ++ g.transitive.map (failedAst q "orange") ++
  g.roots.map (failedAst q "red")

end

/-! ### one token at a time -/

theorem run_nil (st : PState) : run st [] = some st := rfl
theorem run_cons (st : PState) (t : Tok) (rest : List Tok) : run st (t :: rest) = (step st t).bind fun st' => run st' rest := rfl

section steps
variable (s : List (List Char × List Stmt)) (c : List Stmt)

theorem step_start : step ⟨s, c, .start⟩ (.bare "digraph".toList) = some ⟨s, c, .open0⟩ := by
  simp [step]
theorem step_open0 : step ⟨s, c, .open0⟩ .lbrace = some ⟨s, c, .stmt⟩ := by simp [step]
theorem step_stmt (t : Tok) : step ⟨s, c, .stmt⟩ t = stepStmt ⟨s, c, .stmt⟩ t := rfl
theorem step_kwSub (n : List Char) : step ⟨s, c, .kwSub⟩ (.bare n) = some ⟨s, c, .kwSubName n⟩ := rfl
theorem step_kwSubName (n : List Char) : step ⟨s, c, .kwSubName n⟩ .lbrace = some ⟨(n, c) :: s, [], .stmt⟩ := by simp [step]
theorem step_afterKw (k : List Char) : step ⟨s, c, .afterKw k⟩ .lbrack = some ⟨s, c, .inAttr (.attrs k) []⟩ := by simp [step]
theorem step_id1_eq (a : Tok) : step ⟨s, c, .id1 a⟩ .eq = some ⟨s, c, .assignV a⟩ := rfl
theorem step_id1_arrow (a : Tok) : step ⟨s, c, .id1 a⟩ .arrow = some ⟨s, c, .edge1 a⟩ := rfl
theorem step_id1_lbrack (a : Tok) : step ⟨s, c, .id1 a⟩ .lbrack = some ⟨s, c, .inAttr (.node a) []⟩ := rfl
theorem step_assignV_bare (a : Tok) (x : List Char) : step ⟨s, c, .assignV a⟩ (.bare x) = some ⟨s, c ++ [.assign a (.bare x)], .stmt⟩ := rfl
theorem step_assignV_quoted (a : Tok) (x : List Char) : step ⟨s, c, .assignV a⟩ (.quoted x) = some ⟨s, c ++ [.assign a (.quoted x)], .stmt⟩ := rfl
theorem step_edge1_quoted (a : Tok) (x : List Char) : step ⟨s, c, .edge1 a⟩ (.quoted x) = some ⟨s, c, .afterHead (.edge a (.quoted x)) []⟩ := rfl
theorem step_afterHead_lbrack (h : Head) (as : List Attr) : step ⟨s, c, .afterHead h as⟩ .lbrack = some ⟨s, c, .inAttr h as⟩ := by
  simp [step]
theorem step_afterHead_semi (h : Head) (as : List Attr) : step ⟨s, c, .afterHead h as⟩ .semi = some ⟨s, c ++ [h.toStmt as], .stmt⟩ := by
  simp [step, stepStmt, PState.commit]
theorem step_inAttr_rbrack (h : Head) (as : List Attr) : step ⟨s, c, .inAttr h as⟩ .rbrack = some ⟨s, c, .afterHead h as⟩ := rfl
theorem step_inAttr_bare (h : Head) (as : List Attr) (x : List Char) : step ⟨s, c, .inAttr h as⟩ (.bare x) = some ⟨s, c, .attrEq h as (.bare x)⟩ := rfl
theorem step_attrEq (h : Head) (as : List Attr) (k : Tok) : step ⟨s, c, .attrEq h as k⟩ .eq = some ⟨s, c, .attrVal h as k⟩ := by
  simp [step]
theorem step_attrVal_bare (h : Head) (as : List Attr) (k : Tok) (x : List Char) :
    step ⟨s, c, .attrVal h as k⟩ (.bare x) = some ⟨s, c, .inAttr h (as ++ [{ key := k, val := .bare x }])⟩ := rfl
theorem step_attrVal_quoted (h : Head) (as : List Attr) (k : Tok) (x : List Char) :
    step ⟨s, c, .attrVal h as k⟩ (.quoted x) = some ⟨s, c, .inAttr h (as ++ [{ key := k, val := .quoted x }])⟩ := rfl
theorem step_attrVal_html (h : Head) (as : List Attr) (k : Tok) (x : List Char) :
    step ⟨s, c, .attrVal h as k⟩ (.html x) = some ⟨s, c, .inAttr h (as ++ [{ key := k, val := .html x }])⟩ := rfl

theorem stepStmt_semi (m : Mode) : stepStmt ⟨s, c, m⟩ .semi = some ⟨s, c, m⟩ := rfl
theorem stepStmt_rbrace_nil (m : Mode) : stepStmt ⟨[], c, m⟩ .rbrace = some ⟨[], c, .done⟩ := rfl
theorem stepStmt_rbrace_cons (n : List Char) (o : List Stmt) (m : Mode) :
    stepStmt ⟨(n, o) :: s, c, m⟩ .rbrace = some ⟨s, o ++ [.subgraph n c], .stmt⟩ := rfl
theorem stepStmt_quoted (m : Mode) (x : List Char) : stepStmt ⟨s, c, m⟩ (.quoted x) = some ⟨s, c, .id1 (.quoted x)⟩ := rfl
theorem stepStmt_subgraph (m : Mode) : stepStmt ⟨s, c, m⟩ (.bare "subgraph".toList) = some ⟨s, c, .kwSub⟩ := by
  simp [stepStmt]
theorem stepStmt_kw (m : Mode) (x : List Char) (h1 : (x == "subgraph".toList) = false) (h2 : isKw x = true) :
    stepStmt ⟨s, c, m⟩ (.bare x) = some ⟨s, c, .afterKw x⟩ := by
  unfold stepStmt
  simp only [h1, h2, Bool.false_eq_true, if_false, if_true]
theorem stepStmt_id (m : Mode) (x : List Char) (h1 : (x == "subgraph".toList) = false) (h2 : isKw x = false) :
    stepStmt ⟨s, c, m⟩ (.bare x) = some ⟨s, c, .id1 (.bare x)⟩ := by
  unfold stepStmt
  simp only [h1, h2, Bool.false_eq_true, if_false]

private theorem c_ne_sub (x : List Char) : (("constructor_".toList ++ x) == "subgraph".toList) = false := by
  have e1 : "constructor_".toList = 'c' :: "onstructor_".toList := by decide
  have e2 : "subgraph".toList = 's' :: "ubgraph".toList := by decide
  rw [e1, e2]; simp

private theorem c_not_kw (x : List Char) : isKw ("constructor_".toList ++ x) = false := by
  have e1 : "constructor_".toList = 'c' :: "onstructor_".toList := by decide
  have e2 : "graph".toList = 'g' :: "raph".toList := by decide
  have e3 : "node".toList = 'n' :: "ode".toList := by decide
  have e4 : "edge".toList = 'e' :: "dge".toList := by decide
  unfold isKw
  rw [e1, e2, e3, e4]; simp

theorem stepStmt_ctor (m : Mode) (i : Nat) : stepStmt ⟨s, c, m⟩ (.bare ("constructor_".toList ++ natDigits i)) =
    some ⟨s, c, .id1 (.bare ("constructor_".toList ++ natDigits i))⟩ :=
  stepStmt_id s c m _ (c_ne_sub _) (c_not_kw _)
theorem stepStmt_rankdir (m : Mode) : stepStmt ⟨s, c, m⟩ (.bare "rankdir".toList) = some ⟨s, c, .id1 (.bare "rankdir".toList)⟩ :=
  stepStmt_id s c m _ (by decide) (by decide)
theorem stepStmt_label (m : Mode) : stepStmt ⟨s, c, m⟩ (.bare "label".toList) = some ⟨s, c, .id1 (.bare "label".toList)⟩ :=
  stepStmt_id s c m _ (by decide) (by decide)
theorem stepStmt_color (m : Mode) : stepStmt ⟨s, c, m⟩ (.bare "color".toList) = some ⟨s, c, .id1 (.bare "color".toList)⟩ :=
  stepStmt_id s c m _ (by decide) (by decide)
theorem stepStmt_graph (m : Mode) : stepStmt ⟨s, c, m⟩ (.bare "graph".toList) = some ⟨s, c, .afterKw "graph".toList⟩ :=
  stepStmt_kw s c m _ (by decide) (by decide)

end steps

/-- evaluate the parser over an explicit list of tokens, one token at a time -/
macro "dot_run" : tactic => `(tactic| simp only [toks, W, P, B, Q, ctorName, clusterName, run_nil, run_cons, Option.bind_some,
  step_start, step_open0, step_stmt, step_kwSub, step_kwSubName, step_afterKw, step_id1_eq, step_id1_arrow, step_id1_lbrack,
  step_assignV_bare, step_assignV_quoted, step_edge1_quoted, step_afterHead_lbrack, step_afterHead_semi, step_inAttr_rbrack,
  step_inAttr_bare, step_attrEq, step_attrVal_bare, step_attrVal_quoted, step_attrVal_html, stepStmt_semi, stepStmt_rbrace_nil,
  stepStmt_rbrace_cons, stepStmt_quoted, stepStmt_subgraph, stepStmt_rankdir, stepStmt_label, stepStmt_color, stepStmt_graph,
  stepStmt_ctor, ctorTok, clusterTok, Head.toStmt, A, List.nil_append, List.append_assoc, List.cons_append])

/-! ### running the parser over the fragments; `⟨stack, cur, .stmt⟩` = at the start of a statement -/

section
variable (q : List Char → List Char)

theorem parse_header : run {} (toks header) =
    some ⟨[], [Stmt.assign (.bare "rankdir".toList) (.bare "RL".toList),
               Stmt.attrs "graph".toList [A "compound" (.bare "true".toList)]], .stmt⟩ := by
  unfold header
  dot_run

theorem parse_members (stack : List (List Char × List Stmt)) (gs : List Char) : ∀ (rs : List (List Char)) (cur : List Stmt),
    run ⟨stack, cur, .stmt⟩
      (rs.flatMap fun r => toks [W "\t\t", Q q gs, W " ", P .arrow, W " ", Q q r, P .semi, W "\n"]) =
    some ⟨stack, cur ++ rs.map (fun r => Stmt.edge (.quoted (q gs)) (.quoted (q r)) []), .stmt⟩
  | [], cur => by simp [run]
  | r :: rest, cur => by
    rw [List.flatMap_cons, run_append]
    have h1 : run ⟨stack, cur, .stmt⟩ (toks [W "\t\t", Q q gs, W " ", P .arrow, W " ", Q q r, P .semi, W "\n"]) =
        some ⟨stack, cur ++ [Stmt.edge (.quoted (q gs)) (.quoted (q r)) []], .stmt⟩ := by
      dot_run
    rw [h1]
    simp only [Option.bind_some]
    rw [parse_members stack gs rest]
    simp

theorem parse_group (stack : List (List Char × List Stmt)) (cur : List Stmt) (g : RGroup) :
    run ⟨stack, cur, .stmt⟩ (toks (groupItems q g)) = some ⟨stack, cur ++ groupAst q g, .stmt⟩ := by
  unfold groupItems groupAst
  rw [toks_append, toks_append, toks_append, toks_append, run_append, run_append, run_append, run_append]
  have h1 : run ⟨stack, cur, .stmt⟩ (toks [W "\t", Q q g.str, W " ", P .lbrack, B "shape", P .eq, B "diamond", W " ", B "label", P .eq,
        P (.html (labelBody g.ty (some ("Group: ".toList, g.name))))]) =
      some ⟨stack, cur, .inAttr (.node (.quoted (q g.str)))
        [A "shape" (.bare "diamond".toList), A "label" (.html (labelBody g.ty (some ("Group: ".toList, g.name))))]⟩ := by
    dot_run
  rw [h1]
  simp only [Option.bind_some]
  have h3 : ∀ as, run ⟨stack, cur, .inAttr (.node (.quoted (q g.str))) as⟩ (toks [P .rbrack, P .semi, W "\n"]) =
      some ⟨stack, cur ++ [Stmt.node (.quoted (q g.str)) as], .stmt⟩ := by
    intro as
    dot_run
  by_cases he : g.err = 0
  · simp only [he, if_true, toks, run_nil, Option.bind_some, List.append_nil]
    rw [h3]
    simp only [Option.bind_some]
    rw [toks_flatMap, parse_members q stack g.str g.results]
    simp [toks, W, run]
  · simp only [he, if_false]
    have h2 : run ⟨stack, cur, .inAttr (.node (.quoted (q g.str)))
          [A "shape" (.bare "diamond".toList), A "label" (.html (labelBody g.ty (some ("Group: ".toList, g.name))))]⟩
        (toks [W " ", B "color", P .eq, B (colorName g.err)]) =
        some ⟨stack, cur, .inAttr (.node (.quoted (q g.str)))
          ([A "shape" (.bare "diamond".toList), A "label" (.html (labelBody g.ty (some ("Group: ".toList, g.name))))] ++
           [A "color" (.bare (colorName g.err).toList)])⟩ := by
      dot_run
    rw [h2]
    simp only [Option.bind_some]
    rw [h3]
    simp only [Option.bind_some]
    rw [toks_flatMap, parse_members q stack g.str g.results]
    simp [toks, W, run]

theorem parse_groups (stack : List (List Char × List Stmt)) : ∀ (gs : List RGroup) (cur : List Stmt),
    run ⟨stack, cur, .stmt⟩ (toks (gs.flatMap (groupItems q))) = some ⟨stack, cur ++ gs.flatMap (groupAst q), .stmt⟩
  | [], cur => by simp [toks, run]
  | g :: rest, cur => by
    rw [List.flatMap_cons, toks_append, run_append, parse_group q stack cur g]
    simp only [Option.bind_some]
    rw [parse_groups stack rest]
    simp

theorem parse_results (stack : List (List Char × List Stmt)) : ∀ (rs : List RResult) (cur : List Stmt),
    run ⟨stack, cur, .stmt⟩ (toks (rs.flatMap (resultItems q))) = some ⟨stack, cur ++ rs.map (resultAst q), .stmt⟩
  | [], cur => by simp [toks, run]
  | r :: rest, cur => by
    rw [List.flatMap_cons, toks_append, run_append]
    have h1 : run ⟨stack, cur, .stmt⟩ (toks (resultItems q r)) = some ⟨stack, cur ++ [resultAst q r], .stmt⟩ := by
      unfold resultItems resultAst
      dot_run
    rw [h1]
    simp only [Option.bind_some]
    rw [parse_results stack rest]
    simp

theorem parse_param (stack : List (List Char × List Stmt)) (cur : List Stmt) (i : Nat) (p : RParam) :
    run ⟨stack, cur, .stmt⟩ (toks (paramItems q i p)) = some ⟨stack, cur ++ [paramAst q i p], .stmt⟩ := by
  unfold paramItems paramAst
  cases p.optional with
  | true => simp only [if_true]; dot_run
  | false => simp only [Bool.false_eq_true, if_false]; dot_run

theorem parse_params (stack : List (List Char × List Stmt)) (i : Nat) : ∀ (ps : List RParam) (cur : List Stmt),
    run ⟨stack, cur, .stmt⟩ (toks (ps.flatMap (paramItems q i))) = some ⟨stack, cur ++ ps.map (paramAst q i), .stmt⟩
  | [], cur => by simp [toks, run]
  | p :: rest, cur => by
    rw [List.flatMap_cons, toks_append, run_append, parse_param q stack cur i p]
    simp only [Option.bind_some]
    rw [parse_params stack i rest]
    simp

theorem parse_gparams (stack : List (List Char × List Stmt)) (i : Nat) : ∀ (gs : List (List Char)) (cur : List Stmt),
    run ⟨stack, cur, .stmt⟩ (toks (gs.flatMap (gparamItems q i))) = some ⟨stack, cur ++ gs.map (gparamAst q i), .stmt⟩
  | [], cur => by simp [toks, run]
  | g :: rest, cur => by
    rw [List.flatMap_cons, toks_append, run_append]
    have h1 : run ⟨stack, cur, .stmt⟩ (toks (gparamItems q i g)) = some ⟨stack, cur ++ [gparamAst q i g], .stmt⟩ := by
      unfold gparamItems gparamAst
      dot_run
    rw [h1]
    simp only [Option.bind_some]
    rw [parse_gparams stack i rest]
    simp

/-- the cluster of one constructor and the edges that leave it -/
theorem parse_ctor (stack : List (List Char × List Stmt)) (cur : List Stmt) (i : Nat) (c : RCtor) :
    run ⟨stack, cur, .stmt⟩ (toks (ctorItems q i c)) = some ⟨stack, cur ++ ctorAst q i c, .stmt⟩ := by
  unfold ctorItems ctorAst clusterBody
  simp only [toks_append, run_append]
  -- `subgraph cluster_i {`
  have h1 : run ⟨stack, cur, .stmt⟩ (toks [W "\t\t", B "subgraph", W " ", clusterName i, W " ", P .lbrace, W "\n"]) =
      some ⟨("cluster_".toList ++ natDigits i, cur) :: stack, [], .stmt⟩ := by
    dot_run
  rw [h1]
  simp only [Option.bind_some]
  -- the label of the cluster
  have h2 : ∀ body, run ⟨("cluster_".toList ++ natDigits i, cur) :: stack, body, .stmt⟩
      (toks (W "\t\t\t" :: (if c.pkg = [] then [] else [B "label", W " ", P .eq, W " ", Q q c.pkg, P .semi]))) =
      some ⟨("cluster_".toList ++ natDigits i, cur) :: stack,
        body ++ (if c.pkg = [] then [] else [Stmt.assign (.bare "label".toList) (.quoted (q c.pkg))]), .stmt⟩ := by
    intro body
    by_cases hp : c.pkg = []
    · simp only [hp, if_true, List.append_nil]; dot_run
    · simp only [hp, if_false]; dot_run
  rw [h2]
  simp only [Option.bind_some]
  -- the constructor's own node
  have h3 : ∀ body, run ⟨("cluster_".toList ++ natDigits i, cur) :: stack, body, .stmt⟩
      (toks [W "\n", W "\t\t\t", ctorName i, W " ", P .lbrack, B "shape", P .eq, B "plaintext", W " ", B "label", P .eq,
        Q q c.name, P .rbrack, P .semi, W "\n"]) =
      some ⟨("cluster_".toList ++ natDigits i, cur) :: stack,
        body ++ [Stmt.node (ctorTok i) [A "shape" (.bare "plaintext".toList), A "label" (.quoted (q c.name))]], .stmt⟩ := by
    intro body
    dot_run
  rw [h3]
  simp only [Option.bind_some]
  -- its colour
  have h4 : ∀ body, run ⟨("cluster_".toList ++ natDigits i, cur) :: stack, body, .stmt⟩
      (toks (W "\t\t\t" :: (if c.err = 0 then [] else [B "color", P .eq, B (colorName c.err), P .semi]))) =
      some ⟨("cluster_".toList ++ natDigits i, cur) :: stack,
        body ++ (if c.err = 0 then [] else [Stmt.assign (.bare "color".toList) (.bare (colorName c.err).toList)]), .stmt⟩ := by
    intro body
    by_cases he : c.err = 0
    · simp only [he, if_true, List.append_nil]; dot_run
    · simp only [he, if_false]; dot_run
  rw [h4]
  simp only [Option.bind_some]
  have h5 : ∀ (st : PState), run st (toks [W "\n"]) = some st := by intro st; rfl
  rw [h5]
  simp only [Option.bind_some]
  rw [parse_results q]
  simp only [Option.bind_some]
  -- `}` closes the cluster
  have h6 : ∀ body, run ⟨("cluster_".toList ++ natDigits i, cur) :: stack, body, .stmt⟩
      (toks [W "\t\t\t\n\t\t", P .rbrace, W "\n\t\t\n"]) =
      some ⟨stack, cur ++ [Stmt.subgraph ("cluster_".toList ++ natDigits i) body], .stmt⟩ := by
    intro body
    dot_run
  rw [h6]
  simp only [Option.bind_some]
  rw [parse_params q]
  simp only [Option.bind_some]
  have h7 : ∀ (st : PState), run st (toks [W "\t\t\n"]) = some st := by intro st; rfl
  rw [h7]
  simp only [Option.bind_some]
  rw [parse_gparams q]
  simp [List.append_assoc]

theorem parse_ctors (stack : List (List Char × List Stmt)) : ∀ (cs : List RCtor) (i : Nat) (cur : List Stmt),
    run ⟨stack, cur, .stmt⟩ (toks (ctorsItems q i cs)) = some ⟨stack, cur ++ ctorsAst q i cs, .stmt⟩
  | [], _, cur => by simp [ctorsItems, ctorsAst, toks, run]
  | c :: rest, i, cur => by
    simp only [ctorsItems, ctorsAst]
    rw [toks_append, run_append, parse_ctor q stack cur i c]
    simp only [Option.bind_some]
    rw [parse_ctors stack rest]
    simp

theorem parse_failed (stack : List (List Char × List Stmt)) (color : String) :
    ∀ (fs : List (List Char)) (cur : List Stmt),
    run ⟨stack, cur, .stmt⟩ (toks (fs.flatMap (failedItems q color))) = some ⟨stack, cur ++ fs.map (failedAst q color), .stmt⟩
  | [], cur => by simp [toks, run]
  | f :: rest, cur => by
    rw [List.flatMap_cons, toks_append, run_append]
    have h : run ⟨stack, cur, .stmt⟩ (toks (failedItems q color f)) = some ⟨stack, cur ++ [failedAst q color f], .stmt⟩ := by
      unfold failedItems failedAst
      dot_run
    rw [h]
    simp only [Option.bind_some]
    rw [parse_failed stack color rest]
    simp

/-- **the document parses as DOT, into the statements the writer meant** -/
theorem parse_render (g : RGraph) : parseDot (toks (graphItems q g)) = some (graphAst q g) := by
  unfold parseDot graphItems graphAst
  simp only [toks_append, run_append]
  rw [parse_header]
  simp only [Option.bind_some]
  rw [parse_groups q]
  simp only [Option.bind_some]
  have h1 : ∀ (st : PState), run st (toks [W "\t\n"]) = some st := by intro st; rfl
  rw [h1]
  simp only [Option.bind_some]
  rw [parse_ctors q]
  simp only [Option.bind_some]
  rw [parse_failed q [] "orange"]
  simp only [Option.bind_some]
  rw [parse_failed q [] "red"]
  simp only [Option.bind_some]
  have h2 : ∀ cur, run ⟨[], cur, .stmt⟩ (toks [W "\t\n", P .rbrace]) = some ⟨[], cur, .done⟩ := by
    intro cur
    dot_run
  rw [h2]

end

end Dig.DotRender
