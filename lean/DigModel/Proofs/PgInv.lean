import DigModel.Proofs.GraphMeaningGroups
import DigModel.Proofs.PgLink
/-
  In every reachable container the value-group parameters of a registered constructor point at graph nodes that
  describe them, and those nodes sit in every holder the constructor's node sits in.
-/
namespace Dig

def descsOf (st : St) : List PGDesc := st.pgs.map (·.desc)

mutual
theorem pgOK_mem (lo : Nat) (descs : List PGDesc) : ∀ (p : Param), PgOK lo descs p → ∀ i ∈ pgsOf p, lo ≤ i ∧ i < descs.length
  | .single _ _, _, i, hi => by simp [pgsOf] at hi
  | .grouped _ k _ pg, h, i, hi => by
    simp only [pgsOf, List.mem_singleton] at hi
    subst hi
    simp only [PgOK] at h
    refine ⟨h.1, ?_⟩
    rcases Nat.lt_or_ge i descs.length with h1 | h1
    · exact h1
    · have : descs[i]? = none := by simp; omega
      rw [this] at h; cases h.2
  | .object _ fs, h, i, hi => by
    simp only [pgsOf] at hi
    simp only [PgOK] at h
    exact pgOKL_mem lo descs fs h i hi
theorem pgOKL_mem (lo : Nat) (descs : List PGDesc) : ∀ (ps : List Param), PgOKL lo descs ps → ∀ i ∈ pgsOfL ps, lo ≤ i ∧ i < descs.length
  | [], _, i, hi => by simp [pgsOfL] at hi
  | p :: ps, h, i, hi => by
    simp only [pgsOfL, List.mem_append] at hi
    simp only [PgOKL] at h
    rcases hi with hi | hi
    · exact pgOK_mem lo descs p h.1 i hi
    · exact pgOKL_mem lo descs ps h.2 i hi
end

structure PG (st : St) : Prop where
  /-- group parameters of registered constructors point at descriptors that describe them -/
  link : ∀ n, n < st.ctors.length → PgOKL 0 (descsOf st) (st.ctor n).params
  /-- ... and their nodes are wherever the constructor's node is -/
  pgIn : ∀ s n i, GNode.ctor n ∈ (st.scope s).gh → i ∈ pgsOfL (st.ctor n).params → GNode.pg i ∈ (st.scope s).gh

theorem PG.init : PG ({} : St) where
  link n hn := by simp at hn
  pgIn s n i h := by cases s <;> simp [St.scope] at h

/-- same constructors (parameters), descriptors only appended, same holders -/
theorem PG.transfer {a b : St} (h : PG a) (hl : b.ctors.length = a.ctors.length)
    (hp : ∀ n, (b.ctor n).params = (a.ctor n).params) (hd : ∃ x, descsOf b = descsOf a ++ x)
    (hg : ∀ s, (b.scope s).gh = (a.scope s).gh) : PG b where
  link n hn := by
    obtain ⟨x, hx⟩ := hd
    rw [hp n, hx]
    exact PgOKL.mono 0 0 (Nat.le_refl _) _ x _ (h.link n (by rw [← hl]; exact hn))
  pgIn s n i hn hi := by
    rw [hg s] at hn ⊢
    rw [hp n] at hi
    exact h.pgIn s n i hn hi

theorem PG.eqButVerified {a b : St} (h : PG a) (he : EqButVerified a b) : PG b :=
  h.transfer (by rw [he.1]) (fun n => by simp [St.ctor, he.1]) ⟨[], by simp [descsOf, he.2.2.1]⟩
    (fun s => ((he.2.2.2.2.2.2.2.2 s).2.2.2.2.2.2.2.2.2).symm)

theorem PG.regFrame {a b : St} (h : PG a) (hf : RegFrame a b) : PG b :=
  h.transfer hf.2.2.2.1.symm (fun n => ((hf.2.2.2.2.1 n).2.1).symm) ⟨[], by simp [descsOf, hf.2.2.1]⟩
    (fun s => ((hf.2.1 s).2.2.2.2.2.1).symm)

theorem PG.graphSame {a b : St} (h : PG a) (hg : GraphSame a b) : PG b :=
  h.transfer (by rw [hg.1]) (fun n => by simp [St.ctor, hg.1]) ⟨[], by simp [descsOf, hg.2.1]⟩
    (fun s => ((hg.2.2.2 s).2.2).symm)

theorem PG.modScope {w : St} (h : PG w) (s : Nat) (f : ScopeSt → ScopeSt) (hf : ∀ x, (f x).gh = x.gh) : PG (w.modScope s f) :=
  h.transfer rfl (fun _ => rfl) ⟨[], by simp [descsOf, St.modScope]⟩ (fun j => by rw [scope_modScope]; split <;> simp [hf])

theorem PG.addDecos {w : St} (h : PG w) (l : List DecoNode) : PG { w with decos := l } := ⟨h.link, h.pgIn⟩
theorem PG.resetLog {w : St} (h : PG w) : PG { w with log := [] } := ⟨h.link, h.pgIn⟩

theorem ghStep_descs (node : GNode) (w : St) (sc : Nat) : descsOf (ghStep node w sc) = descsOf w := by
  unfold Dig.ghStep descsOf
  cases node with
  | ctor n => rfl
  | pg i =>
    simp only
    show ((w.modScope sc _).pgs.modify i _).map (·.desc) = w.pgs.map (·.desc)
    apply List.ext_getElem?
    intro j
    simp only [List.getElem?_map, List.getElem?_modify]
    have e : (w.modScope sc fun x => { x with gh := x.gh ++ [GNode.pg i] }).pgs = w.pgs := rfl
    rw [e]
    cases w.pgs[j]? with
    | none => rfl
    | some x => by_cases hij : i = j <;> simp [hij]

theorem ghStep_params (node : GNode) (w : St) (sc n : Nat) : ((ghStep node w sc).ctor n).params = (w.ctor n).params := by
  unfold Dig.ghStep
  cases node with
  | ctor m =>
    simp only
    show ((St.modCtor (w.modScope sc _) m _).ctor n).params = _
    rw [ctor_modCtor]
    split <;> rfl
  | pg i => rfl

/-- one step of `newGraphNode`: when a constructor's node enters a holder, the nodes of its group parameters must be there -/
theorem PG.ghStep {w : St} (h : PG w) (node : GNode) (sc : Nat)
    (hnew : ∀ n i, node = .ctor n → sc < w.scopes.length → i ∈ pgsOfL (w.ctor n).params → GNode.pg i ∈ (w.scope sc).gh) :
    PG (Dig.ghStep node w sc) where
  link n hn := by
    rw [ghStep_descs, ghStep_params]
    exact h.link n (by rw [← (ghStep_len node w sc).2.1]; exact hn)
  pgIn s n i hn hi := by
    rw [ghStep_params] at hi
    rw [ghStep_scope] at hn ⊢
    by_cases hc : sc = s ∧ s < w.scopes.length
    · rw [if_pos hc] at hn ⊢
      obtain ⟨rfl, hs⟩ := hc
      simp only [List.mem_append, List.mem_singleton] at hn ⊢
      rcases hn with hn | hn
      · exact Or.inl (h.pgIn sc n i hn hi)
      · exact Or.inl (hnew n i hn.symm hs hi)
    · rw [if_neg hc] at hn ⊢
      exact h.pgIn s n i hn hi

theorem PG.foldGhStep (node : GNode) : ∀ (l : List Nat) (w : St), PG w →
    (∀ n i, node = .ctor n → ∀ sc ∈ l, sc < w.scopes.length → i ∈ pgsOfL (w.ctor n).params → GNode.pg i ∈ (w.scope sc).gh) →
    PG (l.foldl (Dig.ghStep node) w) := by
  intro l
  induction l with
  | nil => intro w h _; exact h
  | cons x xs ih =>
    intro w h hnew
    simp only [List.foldl_cons]
    apply ih _ (h.ghStep node x (fun n i hn hs hi => hnew n i hn x (by simp) hs hi))
    intro n i hn sc hsc hlt hi
    rw [ghStep_params] at hi
    rw [(ghStep_len node w x).1] at hlt
    exact ghStep_gh_mono node w x sc _ (hnew n i hn sc (by simp [hsc]) hlt hi)

theorem PG.newGraphNode {w : St} (h : PG w) (s : Nat) (node : GNode)
    (hnew : ∀ n i, node = .ctor n → ∀ sc ∈ w.subscopes s, sc < w.scopes.length → i ∈ pgsOfL (w.ctor n).params →
      GNode.pg i ∈ (w.scope sc).gh) : PG (w.newGraphNode s node) := by
  rw [newGraphNode_eq]; exact PG.foldGhStep node _ w h hnew

end Dig

namespace Dig

theorem newGraphNode_facts (w : St) (s : Nat) (node : GNode) :
    (w.newGraphNode s node).scopes.length = w.scopes.length ∧
    (∀ j, ((w.newGraphNode s node).scope j).parent = (w.scope j).parent ∧
          ((w.newGraphNode s node).scope j).children = (w.scope j).children ∧
          ((w.newGraphNode s node).scope j).providers = (w.scope j).providers) ∧
    (∀ j x, x ∈ (w.scope j).gh → x ∈ ((w.newGraphNode s node).scope j).gh) ∧
    (∀ sc ∈ w.subscopes s, sc < w.scopes.length → node ∈ ((w.newGraphNode s node).scope sc).gh) := by
  rw [newGraphNode_eq]; exact foldGhStep_facts node (w.subscopes s) w

theorem newGraphNode_descs (w : St) (s : Nat) (node : GNode) : descsOf (w.newGraphNode s node) = descsOf w := by
  rw [newGraphNode_eq]
  generalize w.subscopes s = l
  induction l generalizing w with
  | nil => rfl
  | cons x xs ih => simp only [List.foldl_cons]; rw [ih]; exact ghStep_descs node w x

theorem newGraphNode_params (w : St) (s : Nat) (node : GNode) (n : Nat) :
    ((w.newGraphNode s node).ctor n).params = (w.ctor n).params := by
  rw [newGraphNode_eq]
  generalize w.subscopes s = l
  induction l generalizing w with
  | nil => rfl
  | cons x xs ih => simp only [List.foldl_cons]; rw [ih]; exact ghStep_params node w x n

theorem newGraphNode_ctorsLen (w : St) (s : Nat) (node : GNode) : (w.newGraphNode s node).ctors.length = w.ctors.length := by
  rw [newGraphNode_eq]
  generalize w.subscopes s = l
  induction l generalizing w with
  | nil => rfl
  | cons x xs ih => simp only [List.foldl_cons]; rw [ih]; exact (ghStep_len node w x).2.1

theorem newGraphNode_subscopes (w : St) (s : Nat) (node : GNode) (t : Nat) :
    (w.newGraphNode s node).subscopes t = w.subscopes t := by
  obtain ⟨a1, a2, _, _⟩ := newGraphNode_facts w s node
  exact subscopes_congr a1 (fun j => (a2 j).2.1) t

/-- what `addPGNodes` leaves behind -/
theorem addPGNodes_facts {w : St} (h : PG w) (s : Nat) (descs : List PGDesc) :
    PG (addPGNodes w s w.pgs.length descs) ∧
    descsOf (addPGNodes w s w.pgs.length descs) = descsOf w ++ descs.drop w.pgs.length ∧
    (addPGNodes w s w.pgs.length descs).scopes.length = w.scopes.length ∧
    (addPGNodes w s w.pgs.length descs).ctors.length = w.ctors.length ∧
    (∀ n, ((addPGNodes w s w.pgs.length descs).ctor n).params = (w.ctor n).params) ∧
    (∀ t, (addPGNodes w s w.pgs.length descs).subscopes t = w.subscopes t) ∧
    (∀ i, w.pgs.length ≤ i → i < descs.length → ∀ sc ∈ w.subscopes s, sc < w.scopes.length →
      GNode.pg i ∈ ((addPGNodes w s w.pgs.length descs).scope sc).gh) := by
  unfold Dig.addPGNodes
  simp only
  let v0 : St := { w with pgs := w.pgs ++ (descs.drop w.pgs.length).map fun d => ({ desc := d } : PGNode) }
  have h0 : PG v0 := h.transfer rfl (fun _ => rfl)
    ⟨descs.drop w.pgs.length, by simp [descsOf, v0, List.map_append, Function.comp_def]⟩ (fun _ => rfl)
  have hd0 : descsOf v0 = descsOf w ++ descs.drop w.pgs.length := by
    simp [descsOf, v0, List.map_append, Function.comp_def]
  -- generalised over the prefix of the range already handled
  have key : ∀ (l : List Nat) (v : St), PG v → descsOf v = descsOf w ++ descs.drop w.pgs.length →
      v.scopes.length = w.scopes.length → v.ctors.length = w.ctors.length →
      (∀ n, (v.ctor n).params = (w.ctor n).params) → (∀ t, v.subscopes t = w.subscopes t) →
      let v' := l.foldl (fun st j => st.newGraphNode s (.pg (w.pgs.length + j))) v
      PG v' ∧ descsOf v' = descsOf w ++ descs.drop w.pgs.length ∧ v'.scopes.length = w.scopes.length ∧
      v'.ctors.length = w.ctors.length ∧ (∀ n, (v'.ctor n).params = (w.ctor n).params) ∧ (∀ t, v'.subscopes t = w.subscopes t) ∧
      (∀ x sc, x ∈ (v.scope sc).gh → x ∈ (v'.scope sc).gh) ∧
      (∀ j ∈ l, ∀ sc ∈ w.subscopes s, sc < w.scopes.length → GNode.pg (w.pgs.length + j) ∈ (v'.scope sc).gh) := by
    intro l
    induction l with
    | nil => intro v a b c d e f; exact ⟨a, b, c, d, e, f, fun _ _ hx => hx, fun j hj => by cases hj⟩
    | cons x xs ih =>
      intro v a b c d e f
      simp only [List.foldl_cons]
      obtain ⟨g1, g2, g3, g4⟩ := newGraphNode_facts v s (.pg (w.pgs.length + x))
      have a' : PG (v.newGraphNode s (.pg (w.pgs.length + x))) := a.newGraphNode s _ (fun n i hn => by cases hn)
      obtain ⟨r1, r2, r3, r4, r5, r6, r7, r8⟩ := ih (v.newGraphNode s (.pg (w.pgs.length + x))) a'
        (by rw [newGraphNode_descs]; exact b) (by rw [g1]; exact c) (by rw [newGraphNode_ctorsLen]; exact d)
        (fun n => by rw [newGraphNode_params]; exact e n) (fun t => by rw [newGraphNode_subscopes]; exact f t)
      refine ⟨r1, r2, r3, r4, r5, r6, fun y sc hy => r7 y sc (g3 sc y hy), ?_⟩
      intro j hj sc hsc hlt
      rcases List.mem_cons.mp hj with rfl | hm
      · apply r7
        exact g4 sc (by rw [f s]; exact hsc) (by rw [c]; exact hlt)
      · exact r8 j hm sc hsc hlt
  obtain ⟨r1, r2, r3, r4, r5, r6, _, r8⟩ := key (List.range (descs.length - w.pgs.length)) v0 h0 hd0 rfl rfl (fun _ => rfl)
    (fun t => subscopes_congr rfl (fun _ => rfl) t)
  refine ⟨r1, r2, r3, r4, r5, r6, ?_⟩
  intro i hlo hhi sc hsc hlt
  have := r8 (i - w.pgs.length) (List.mem_range.mpr (by omega)) sc hsc hlt
  rwa [show w.pgs.length + (i - w.pgs.length) = i by omega] at this

/-- what the parse of a signature leaves behind: the parsed parameters point at nodes that describe them, and
    those nodes are in the holders of the scope and of all its descendants -/
theorem parseParams_pg {st : St} (h : PG st) (env : TyEnv) (s : Nat) (fn : Fn) :
    PG (parseParams env st s fn).2 ∧
    (∃ x, descsOf (parseParams env st s fn).2 = descsOf st ++ x) ∧
    (parseParams env st s fn).2.ctors.length = st.ctors.length ∧
    (∀ n, ((parseParams env st s fn).2.ctor n).params = (st.ctor n).params) ∧
    ∀ ps, (parseParams env st s fn).1 = .ok ps →
      PgOKL 0 (descsOf (parseParams env st s fn).2) ps ∧
      ∀ i ∈ pgsOfL ps, ∀ sc ∈ st.subscopes s, sc < st.scopes.length → GNode.pg i ∈ ((parseParams env st s fn).2.scope sc).gh := by
  unfold parseParams
  simp only
  have hlen : (st.pgs.map (·.desc)).length = st.pgs.length := by simp
  cases hp : newParamList env fn (st.pgs.map (·.desc)) with
  | mk r descs =>
    simp only
    rw [hlen]
    obtain ⟨⟨x, hx⟩, hok⟩ := newParamListAux_link env _ _ descs r hp
    obtain ⟨a1, a2, a3, a4, a5, a6, a7⟩ := addPGNodes_facts h s descs
    have hdrop : descs.drop st.pgs.length = x := by
      rw [hx, ← hlen]; simp
    have hdescs : descsOf (addPGNodes st s st.pgs.length descs) = descs := by
      rw [a2, hdrop, hx]; rfl
    refine ⟨a1, ⟨x, by rw [a2, hdrop]⟩, a4, a5, ?_⟩
    intro ps hps
    have hl := hok ps hps
    rw [hlen] at hl
    refine ⟨by rw [hdescs]; have := PgOKL.mono st.pgs.length 0 (Nat.zero_le _) descs [] ps hl; simpa using this, ?_⟩
    intro i hi sc hsc hlt
    obtain ⟨b1, b2⟩ := pgOKL_mem st.pgs.length descs ps hl i hi
    exact a7 i b1 b2 sc hsc hlt

end Dig

namespace Dig

theorem PG.addCtor {w : St} (h : PG w) (hg : GM0 w) (node : CtorNode) (hl : PgOKL 0 (descsOf w) node.params) :
    PG { w with ctors := w.ctors ++ [node] } where
  link n hn := by
    show PgOKL 0 (descsOf w) ((w.ctors ++ [node]).getD n default).params
    rw [getD_append_fresh]
    split
    · rename_i h1; exact h.link n h1
    · have : n = w.ctors.length := by simp at hn; omega
      subst this; simp; exact hl
  pgIn s n i hn hi := by
    have hv := hg.bnd s _ hn
    simp only [NodeValid] at hv
    have e : ({ w with ctors := w.ctors ++ [node] } : St).ctor n = w.ctor n := by
      show (w.ctors ++ [node]).getD n default = w.ctors.getD n default
      rw [getD_append_fresh, if_pos hv]
    rw [e] at hi
    exact h.pgIn s n i hn hi

theorem PG.provide {st : St} (h : PG st) (hg : GT st) (ctx : Ctx) (fn : Fn) (i s : Nat) (o : ProvideOpts) :
    PG (apiProvide ctx fn st i s o).1 := by
  unfold apiProvide
  cases fn.nonfunc with
  | some _ => exact h
  | none =>
    simp only
    cases validateOpts ctx.env o with
    | error e' => exact h
    | ok as =>
      simp only
      generalize (if o.export_ then St.root else s) = target
      have hw1 := work_parseParams (Work.refl st target) ctx.env fn
      have hg1 := hg.parseParams ctx.env target fn
      obtain ⟨hp1, _, hcl1, hpar1, hps1⟩ := parseParams_pg h ctx.env target fn
      cases hpp : Dig.parseParams ctx.env st target fn with
      | mk r w1 =>
        rw [hpp] at hw1 hg1 hp1 hcl1 hpar1 hps1
        simp only at hw1 hg1 hp1 hcl1 hpar1 hps1
        cases r with
        | error e1 => exact h.eqButVerified (rollback_restores hw1)
        | ok params =>
          simp only
          obtain ⟨hlink, hmem⟩ := hps1 params rfl
          cases newResultList ctx.env { name := o.name, group := o.group, as := as } fn with
          | error e2 => exact h.eqButVerified (rollback_restores hw1)
          | ok results =>
            simp only
            let node : CtorNode := { fn := fn, params := params, results := results, s := target, origS := s, cb := if o.cb then some i else none }
            have hw3 := work_newGraphNode (work_addCtor hw1 node) (.ctor w1.ctors.length)
              (by show st.ctors.length ≤ w1.ctors.length; exact hw1.ctorsLen)
            have hp2 : PG { w1 with ctors := w1.ctors ++ [node] } := hp1.addCtor hg1.gm node hlink
            have hnode : ({ w1 with ctors := w1.ctors ++ [node] } : St).ctor w1.ctors.length = node := by
              show (w1.ctors ++ [node]).getD w1.ctors.length default = node
              rw [getD_append_fresh]; simp
            have hsub1 : ({ w1 with ctors := w1.ctors ++ [node] } : St).subscopes target = st.subscopes target := hw1.subscopes
            have hp3 := hp2.newGraphNode target (.ctor w1.ctors.length) (by
              intro n j hn sc hsc hlt hj
              injection hn with hn
              subst hn
              rw [hnode] at hj
              exact hmem j hj sc (by rw [← hsub1]; exact hsc) (by rw [← hw1.len]; exact hlt))
            generalize (St.newGraphNode { w1 with ctors := w1.ctors ++ [node] } target (.ctor w1.ctors.length)) = w3 at hw3 hp3
            cases hvk : visitKeys (w3.scope target) (slotResults results) [] with
            | error e3 => exact h.eqButVerified (rollback_restores hw3)
            | ok keys =>
              cases keys with
              | nil => exact h.eqButVerified (rollback_restores hw3)
              | cons k0 ks =>
                simp only
                have hp4 := hp3.modScope target (fun x =>
                    { x with providers := (k0 :: ks).foldl (fun m k => aset m k (agetL m k ++ [w1.ctors.length])) x.providers }) (fun _ => rfl)
                have hw4 : Work st (w3.modScope target fun x =>
                    { x with providers := (k0 :: ks).foldl (fun m k => aset m k (agetL m k ++ [w1.ctors.length])) x.providers }) target := by
                  have hsame : (w3.modScope target fun x =>
                      { x with providers := (k0 :: ks).foldl (fun m k => aset m k (agetL m k ++ [w1.ctors.length])) x.providers }) =
                      (w3.modScope target fun x =>
                      { x with providers := (k0 :: ks).foldl (fun m k => aset m k (agetL m k ++ [w1.ctors.length])) (w3.scope target).providers }) := by
                    unfold St.modScope
                    congr 1
                    apply List.ext_getElem?
                    intro j
                    simp only [List.getElem?_modify]
                    by_cases hj : target = j
                    · subst hj
                      cases hgj : w3.scopes[target]? with
                      | none => rfl
                      | some x =>
                        have : w3.scope target = x := by
                          unfold St.scope; rw [List.getD_eq_getElem?_getD, hgj]; rfl
                        simp [this]
                    · simp [hj]
                  rw [hsame]
                  exact work_modScope_providers hw3 _
                have hw5 := work_verifyScopes (target := target) ctx.cfg (st.subscopes target) _ hw4
                have hp5 := hp4.graphSame (graphSame_verifyScopes ctx.cfg (st.subscopes target) _)
                cases hvs : Dig.verifyScopes ctx.cfg (st.subscopes target) (w3.modScope target fun x =>
                    { x with providers := (k0 :: ks).foldl (fun m k => aset m k (agetL m k ++ [w1.ctors.length])) x.providers }) with
                | mk r5 w5 =>
                  rw [hvs] at hw5 hp5
                  simp only at hw5 hp5
                  cases r5 with
                  | ok u => simp only; exact hp5.modScope target _ (fun _ => rfl)
                  | error ec =>
                    obtain ⟨sc, r⟩ := ec
                    cases r with
                    | cycle p => simp only; exact h.eqButVerified (rollback_restores hw5)
                    | acyclic => simp only; exact hp5
                    | outOfRange => simp only; exact hp5
                    | fuel => simp only; exact hp5

theorem PG.decorate {st : St} (h : PG st) (ctx : Ctx) (fn : Fn) (i s : Nat) (cb info : Bool) :
    PG (apiDecorate ctx fn st i s cb info).1 := by
  unfold apiDecorate
  cases fn.nonfunc with
  | some _ => exact h
  | none =>
    simp only
    have hw1 := work_parseParams (Work.refl st s) ctx.env fn
    obtain ⟨hp1, _, _, _, _⟩ := parseParams_pg h ctx.env s fn
    have hrej : ∀ e : DErr, PG (rollbackProvide st (Dig.parseParams ctx.env st s fn).2 s (st.subscopes s), ({ v := .err e } : RegRes)).1 :=
      fun e => h.eqButVerified (rollback_restores hw1)
    cases hpp : Dig.parseParams ctx.env st s fn with
    | mk r w1 =>
      rw [hpp] at hp1 hrej
      simp only at hp1 hrej
      cases r with
      | error e1 => exact hrej .invalid0
      | ok params =>
        simp only
        cases newResultList ctx.env {} fn with
        | error e2 => exact hrej .invalid0
        | ok results =>
          simp only
          cases resultKeys ctx.env (slotResults results) with
          | error e3 => exact hrej .invalid0
          | ok keys =>
            simp only
            split
            · exact hrej .invalid0
            · exact (hp1.addDecos _).modScope s _ (fun _ => rfl)

theorem PG.invoke {st : St} (h : PG st) (ctx : Ctx) (fn : Fn) (s : Nat) (info : Bool) : PG (apiInvoke ctx fn st s info).1 := by
  rw [apiInvoke_eq]
  unfold apiInvoke'
  cases fn.nonfunc with
  | some _ => exact h
  | none =>
    simp only
    obtain ⟨hp1, _, _, _, _⟩ := parseParams_pg h ctx.env s fn
    have hrb := parse_rollback_eq ctx.env st s fn
    cases hpp : Dig.parseParams ctx.env st s fn with
    | mk r w =>
      rw [hpp] at hp1 hrb
      simp only at hp1 hrb
      cases r with
      | error e => simp only; rw [hrb]; exact h
      | ok params =>
        simp only
        have hs := shallowCheck_state s params w
        cases hsc : shallowCheck s params w with
        | mk r2 w2 =>
          rw [hsc] at hs; simp only at hs; subst hs
          cases r2 with
          | error f => exact hp1
          | ok u =>
            simp only
            cases hck : invokeCheck w2 s with
            | error v => exact hp1
            | ok w3 =>
              simp only
              have hp3 : PG w3 := by
                unfold invokeCheck at hck
                split at hck
                · injection hck with e; rw [← e]; exact hp1
                · split at hck
                  · injection hck with e; rw [← e]; exact hp1.modScope s _ (fun _ => rfl)
                  · cases hck
                  · cases hck
              unfold invokeRun
              have hb : PG (EM.wrapErr (buildList ctx (engineFuel w3 params) params s) DErr.argsFailed w3).2 := by
                rw [wrapErr_state]
                exact hp3.regFrame (buildList_regFrame ctx _ params s w3)
              cases hbl : EM.wrapErr (buildList ctx (engineFuel w3 params) params s) DErr.argsFailed w3 with
              | mk r4 w4 =>
                rw [hbl] at hb
                simp only at hb
                cases r4 with
                | error f => exact hb
                | ok args =>
                  simp only
                  have hf := callBody_fields ctx .invoked fn args w4
                  exact hb.regFrame (regFrame_of_same _ _ hf.1.symm hf.2.1.symm hf.2.2.1.symm hf.2.2.2.symm)

end Dig

namespace Dig

theorem copyOrder_descs (child parent : Nat) (w : St) (y : GNode) : descsOf (copyOrder child parent w y) = descsOf w := by
  cases y with
  | ctor n => rfl
  | pg i =>
    unfold descsOf
    simp only [copyOrder]
    apply List.ext_getElem?
    intro j
    simp only [List.getElem?_map, List.getElem?_modify]
    cases w.pgs[j]? with
    | none => rfl
    | some x => by_cases hij : i = j <;> simp [hij]

theorem copyOrderFold_descs (child parent : Nat) : ∀ (l : List GNode) (w : St),
    descsOf (l.foldl (copyOrder child parent) w) = descsOf w := by
  intro l
  induction l with
  | nil => intro w; rfl
  | cons y ys ih => intro w; simp only [List.foldl_cons]; rw [ih]; exact copyOrder_descs child parent w y

theorem PG.scope {st : St} (h : PG st) (parent : Nat) (hp : parent < st.scopes.length) : PG (apiScope st parent) := by
  obtain ⟨hlen, hsc⟩ := apiScope_scope st parent hp
  let c : ScopeSt := { parent := some parent, gh := (st.scope parent).gh }
  let st1 : St := { st with scopes := st.scopes ++ [c] }
  let st2 : St := st1.modScope parent fun x => { x with children := x.children ++ [st.scopes.length] }
  have hdef : apiScope st parent = (st.scope parent).gh.foldl (copyOrder st.scopes.length parent) st2 := rfl
  have hdescs : descsOf (apiScope st parent) = descsOf st := by rw [hdef, copyOrderFold_descs]; rfl
  have hparams : ∀ n, ((apiScope st parent).ctor n).params = (st.ctor n).params := by
    intro n
    rw [hdef]
    exact (copyOrder_desc2 st.scopes.length parent (st.scope parent).gh st2 n).2.2.2.1
  have hcl : (apiScope st parent).ctors.length = st.ctors.length := by
    rw [hdef]; exact (copyOrderFold_lens st.scopes.length parent (st.scope parent).gh st2).1
  have hgh : ∀ s, ((apiScope st parent).scope s).gh = if s = st.scopes.length then (st.scope parent).gh else (st.scope s).gh := by
    intro s
    rw [hsc s]
    by_cases h1 : s = st.scopes.length
    · rw [if_pos h1, if_pos h1]
    · rw [if_neg h1, if_neg h1]
      split
      · rename_i h2; rw [h2]
      · rfl
  refine ⟨?_, ?_⟩
  · intro n hn
    rw [hdescs, hparams]
    exact h.link n (by rw [← hcl]; exact hn)
  · intro s n i hn hi
    rw [hparams] at hi
    rw [hgh s] at hn ⊢
    by_cases h1 : s = st.scopes.length
    · rw [if_pos h1] at hn ⊢; exact h.pgIn parent n i hn hi
    · rw [if_neg h1] at hn ⊢; exact h.pgIn s n i hn hi

theorem PG.step {st : St} (h : PG st) (hg : GT st) (ctx : Ctx) (fns : List Fn) (i : Nat) (op : Op) : PG (Dig.step ctx fns st i op).1 := by
  have h0 := h.resetLog
  have hg0 := hg.resetLog
  cases op with
  | scope parent =>
    simp only [Dig.step]
    split
    · rename_i hp; exact h0.scope parent hp
    · exact h0
  | provide s f o =>
    simp only [Dig.step]
    split
    · split
      · exact h0.provide hg0 ctx _ i s o
      · exact h0
    · exact h0
  | decorate s f cb info =>
    simp only [Dig.step]
    split
    · split
      · exact h0.decorate ctx _ i s cb info
      · exact h0
    · exact h0
  | invoke s f info =>
    simp only [Dig.step]
    split
    · split
      · exact h0.invoke ctx _ s info
      · exact h0
    · exact h0
  | visualize s e => cases e <;> (simp only [Dig.step]; split <;> exact h0)
  | string s => simp only [Dig.step]; split <;> exact h0

theorem PG.runOps (ctx : Ctx) (fns : List Fn) : ∀ (ops : List Op) (i : Nat) (st : St) (acc : List OpRes),
    PG st → GT st → PG (Dig.runOps ctx fns ops i st acc).1 := by
  intro ops
  induction ops with
  | nil => intro i st acc h _; exact h
  | cons op rest ih =>
    intro i st acc h hg
    simp only [Dig.runOps]
    exact ih _ _ _ (h.step hg ctx fns i op) (hg.step ctx fns i op)

theorem pg_program (p : Program) : PG (runProgram p).1 := PG.runOps p.ctx p.fns p.ops 0 {} [] PG.init GT.init

/-- in a closed chain of node dependencies the value-group nodes are in the holder as soon as the constructor nodes are -/
theorem chain_nodes_in_holder {st : St} (hp : PG st) (s : Nat) (a : GNode) (l : List GNode) (hl : l ≠ [])
    (hc : NodeChain st s (a :: l)) (hclosed : (a :: l).getLast (by simp) = a)
    (hin : ∀ n, GNode.ctor n ∈ a :: l → GNode.ctor n ∈ (st.scope s).gh) : ∀ x ∈ a :: l, x ∈ (st.scope s).gh := by
  -- every element but the first has a predecessor it depends on
  have hpred : ∀ (l : List GNode) (a : GNode), NodeChain st s (a :: l) → ∀ y ∈ l, ∃ x ∈ a :: l, NodeDep st s x y := by
    intro l
    induction l with
    | nil => intro a _ y hy; cases hy
    | cons b rest ih =>
      intro a hc y hy
      obtain ⟨hd, hc'⟩ := hc
      rcases List.mem_cons.mp hy with rfl | hm
      · exact ⟨a, by simp, hd⟩
      · obtain ⟨x, hx, hxd⟩ := ih b hc' y hm
        exact ⟨x, by simp [hx], hxd⟩
  have hlast_mem : a ∈ l := by
    have : (a :: l).getLast (by simp) = l.getLast hl := List.getLast_cons hl
    rw [this] at hclosed
    rw [← hclosed]; exact List.getLast_mem hl
  intro x hx
  cases x with
  | ctor n => exact hin n hx
  | pg i =>
    have hxl : GNode.pg i ∈ l := by
      rcases List.mem_cons.mp hx with h1 | h1
      · rw [h1]; exact hlast_mem
      · exact h1
    obtain ⟨y, hy, hyd⟩ := hpred l a hc _ hxl
    cases hyd with
    | toGroup hi => exact hp.pgIn s _ i (hin _ hy) hi

end Dig

namespace Dig

mutual
/-- the value-group parameters of a parameter tree: group key and graph node -/
def pGroupLeaves : Param → List (Key × Nat)
  | .single _ _ => []
  | .grouped _ k _ pg => [(k, pg)]
  | .object _ fs => pGroupLeavesL fs
def pGroupLeavesL : List Param → List (Key × Nat)
  | [] => []
  | p :: ps => pGroupLeaves p ++ pGroupLeavesL ps
end

mutual
theorem pgOK_leaf (lo : Nat) (descs : List PGDesc) : ∀ (p : Param), PgOK lo descs p → ∀ k pg, (k, pg) ∈ pGroupLeaves p →
    pg ∈ pgsOf p ∧ descs[pg]? = some { group := k.group, elem := k.ty }
  | .single _ _, _, k, pg, hm => by simp [pGroupLeaves] at hm
  | .grouped _ k' _ pg', h, k, pg, hm => by
    simp only [pGroupLeaves, List.mem_singleton, Prod.mk.injEq] at hm
    obtain ⟨rfl, rfl⟩ := hm
    simp only [PgOK] at h
    exact ⟨by simp [pgsOf], h.2⟩
  | .object _ fs, h, k, pg, hm => by
    simp only [pGroupLeaves] at hm
    simp only [PgOK] at h
    simp only [pgsOf]
    exact pgOKL_leaf lo descs fs h k pg hm
theorem pgOKL_leaf (lo : Nat) (descs : List PGDesc) : ∀ (ps : List Param), PgOKL lo descs ps → ∀ k pg, (k, pg) ∈ pGroupLeavesL ps →
    pg ∈ pgsOfL ps ∧ descs[pg]? = some { group := k.group, elem := k.ty }
  | [], _, k, pg, hm => by simp [pGroupLeavesL] at hm
  | p :: ps, h, k, pg, hm => by
    simp only [pGroupLeavesL, List.mem_append] at hm
    simp only [PgOKL] at h
    simp only [pgsOfL, List.mem_append]
    rcases hm with hm | hm
    · obtain ⟨a, b⟩ := pgOK_leaf lo descs p h.1 k pg hm
      exact ⟨Or.inl a, b⟩
    · obtain ⟨a, b⟩ := pgOKL_leaf lo descs ps h.2 k pg hm
      exact ⟨Or.inr a, b⟩
end

/-- the graph node of a value-group parameter of a registered constructor stands for that parameter's group:
    the constructor depends on the node, and the node on every visible provider of `(element type, group)` -/
theorem group_param_node {st : St} (hp : PG st) (n : Nat) (hn : n < st.ctors.length) (k : Key) (pg : Nat)
    (hm : (k, pg) ∈ pGroupLeavesL (st.ctor n).params) (s : Nat) :
    NodeDep st s (.ctor n) (.pg pg) ∧ pgKey st pg = { ty := k.ty, name := "", group := k.group } := by
  obtain ⟨a, b⟩ := pgOKL_leaf 0 (descsOf st) _ (hp.link n hn) k pg hm
  refine ⟨NodeDep.toGroup a, ?_⟩
  unfold pgKey
  have : (st.pgs.getD pg default).desc = { group := k.group, elem := k.ty } := by
    unfold descsOf at b
    rw [List.getElem?_map] at b
    rw [List.getD_eq_getElem?_getD]
    cases hx : st.pgs[pg]? with
    | none => rw [hx] at b; cases b
    | some x => rw [hx] at b; simp at b; simp [b]
  rw [this]

end Dig
