import DigModel.Proofs.VSet
import DigModel.Proofs.Lookup
import DigModel.Proofs.EngineRel
/-
  A decorator that is running is invisible: while decorator `d` is on the stack, the resolver behaves — same results,
  same executions, same state changes — exactly as it does in the container whose decorator tables do not mention `d`
  at all.  So what a decorator receives for the key it decorates is what a consumer in its scope would receive if the
  decorator had never been registered: the next outer decorator's output, otherwise the provided value.
-/
namespace Dig

/-- replace the decorator table of every scope -/
def dset (T : Nat → List (Key × Nat)) (st : St) : St :=
  { st with scopes := st.scopes.mapIdx fun j x => { x with decorators := T j } }

theorem dset_len (T : Nat → List (Key × Nat)) (st : St) : (dset T st).scopes.length = st.scopes.length := by simp [dset]

theorem dset_scope (T : Nat → List (Key × Nat)) (st : St) (j : Nat) :
    (dset T st).scope j = if j < st.scopes.length then { st.scope j with decorators := T j } else st.scope j := by
  unfold St.scope dset
  simp only [List.getD_eq_getElem?_getD, List.getElem?_mapIdx]
  by_cases hj : j < st.scopes.length
  · simp [hj, List.getElem?_eq_getElem hj]
  · have : st.scopes[j]? = none := by simp; omega
    simp [hj, this]

theorem dset_scope_fields (T : Nat → List (Key × Nat)) (st : St) (j : Nat) :
    ((dset T st).scope j).parent = (st.scope j).parent ∧ ((dset T st).scope j).children = (st.scope j).children ∧
    ((dset T st).scope j).providers = (st.scope j).providers ∧ ((dset T st).scope j).verified = (st.scope j).verified ∧
    ((dset T st).scope j).values = (st.scope j).values ∧ ((dset T st).scope j).decoratedValues = (st.scope j).decoratedValues ∧
    ((dset T st).scope j).groups = (st.scope j).groups ∧ ((dset T st).scope j).decoratedGroups = (st.scope j).decoratedGroups ∧
    ((dset T st).scope j).nodes = (st.scope j).nodes ∧ ((dset T st).scope j).gh = (st.scope j).gh := by
  rw [dset_scope]
  split <;> exact ⟨rfl, rfl, rfl, rfl, rfl, rfl, rfl, rfl, rfl, rfl⟩

/-- the decorator table read through `aget`: out of range both sides read the empty table -/
theorem dset_decorators (T : Nat → List (Key × Nat)) (st : St) (j : Nat) (k : Key) (hT : st.scopes.length ≤ j → aget (T j) k = none) :
    aget ((dset T st).scope j).decorators k =
      if j < st.scopes.length then aget (T j) k else none := by
  rw [dset_scope]
  by_cases hj : j < st.scopes.length
  · simp only [hj, if_true]
  · simp only [hj, if_false]
    have : st.scope j = default := by
      unfold St.scope; simp only [List.getD_eq_getElem?_getD]; rw [List.getElem?_eq_none (by omega)]; rfl
    rw [this]; rfl

@[simp] theorem dset_ctor (T : Nat → List (Key × Nat)) (st : St) (n : Nat) : (dset T st).ctor n = st.ctor n := rfl
@[simp] theorem dset_deco (T : Nat → List (Key × Nat)) (st : St) (d : Nat) : (dset T st).deco d = st.deco d := rfl
@[simp] theorem dset_clock (T : Nat → List (Key × Nat)) (st : St) : (dset T st).clock = st.clock := rfl
@[simp] theorem dset_log (T : Nat → List (Key × Nat)) (st : St) : (dset T st).log = st.log := rfl
@[simp] theorem dset_execCount (T : Nat → List (Key × Nat)) (st : St) (f : Nat) : (dset T st).execCount f = st.execCount f := rfl

theorem dset_modCtor (T : Nat → List (Key × Nat)) (st : St) (n : Nat) (f : CtorNode → CtorNode) :
    (dset T st).modCtor n f = dset T (st.modCtor n f) := rfl
theorem dset_modDeco (T : Nat → List (Key × Nat)) (st : St) (d : Nat) (f : DecoNode → DecoNode) :
    (dset T st).modDeco d f = dset T (st.modDeco d f) := rfl
theorem dset_bumpExec (T : Nat → List (Key × Nat)) (st : St) (f : Nat) : (dset T st).bumpExec f = dset T (st.bumpExec f) := by
  unfold St.bumpExec
  have e : (dset T st).execs = st.execs := rfl
  rw [e]
  by_cases h : (st.execs.any fun x => x.1 == f) = true
  · simp only [h, if_true]; rfl
  · simp only [h]; rfl

/-- a scope update that neither reads nor writes the decorator table commutes with its replacement -/
theorem dset_modScope (T : Nat → List (Key × Nat)) (st : St) (s : Nat) (f : ScopeSt → ScopeSt)
    (hf : ∀ x t, f { x with decorators := t } = { f x with decorators := t }) :
    (dset T st).modScope s f = dset T (st.modScope s f) := by
  unfold St.modScope dset
  simp only
  congr 1
  apply List.ext_getElem?
  intro j
  simp only [List.getElem?_modify, List.getElem?_mapIdx]
  cases st.scopes[j]? with
  | none => rfl
  | some x =>
    by_cases h : s = j
    · subst h
      simp only [Option.map_some, if_true]
      show some (f _) = some _
      rw [hf]
    · simp only [Option.map_some, h, if_false]; rfl

theorem dset_ancestors (T : Nat → List (Key × Nat)) (st : St) (c : Nat) : (dset T st).ancestors c = st.ancestors c := by
  unfold St.ancestors
  rw [dset_len]
  have : ∀ fuel s, ancestorsAux (dset T st).scopes fuel s = ancestorsAux st.scopes fuel s := by
    intro fuel
    induction fuel with
    | zero => intro s; rfl
    | succ fuel ih =>
      intro s
      simp only [ancestorsAux, dset, List.getElem?_mapIdx]
      cases st.scopes[s]? with
      | none => rfl
      | some x =>
        simp only [Option.map_some]
        congr 1
        cases x.parent with
        | none => rfl
        | some p => exact ih p
  exact this _ _

theorem dset_allProviders (T : Nat → List (Key × Nat)) (st : St) (c : Nat) (k : Key) : (dset T st).allProviders c k = st.allProviders c k := by
  unfold St.allProviders
  rw [dset_ancestors]
  congr 1
  funext a
  rw [(dset_scope_fields T st a).2.2.1]

/-! ### reads that do not look at decorator tables -/

theorem dset_missingOf (T : Nat → List (Key × Nat)) (st : St) (c : Nat) (p : Param) : missingOf (dset T st) c p = missingOf st c p := by
  apply missingOf.induct st c (motive_1 := fun p => missingOf (dset T st) c p = missingOf st c p)
    (motive_2 := fun ps => missingOfList (dset T st) c ps = missingOfList st c ps)
  · intro k opt _; simp only [missingOf, dset_allProviders, (dset_scope_fields T st c).2.2.2.2.2.1]
  · intro k opt _; simp only [missingOf, dset_allProviders, (dset_scope_fields T st c).2.2.2.2.2.1]
  · intro ty k soft pg; simp only [missingOf]
  · intro ty fs ih; simp only [missingOf]; exact ih
  · simp only [missingOfList]
  · intro p ps ih1 ih2; simp only [missingOfList, ih1, ih2]

theorem dset_missingOfList (T : Nat → List (Key × Nat)) (st : St) (c : Nat) : ∀ ps, missingOfList (dset T st) c ps = missingOfList st c ps := by
  intro ps
  induction ps with
  | nil => simp only [missingOfList]
  | cons p ps ih => simp only [missingOfList, dset_missingOf, ih]

theorem dset_shallowCheck (T : Nat → List (Key × Nat)) (c : Nat) (ps : List Param) (st : St) :
    shallowCheck c ps (dset T st) = ((shallowCheck c ps st).1, dset T (shallowCheck c ps st).2) := by
  unfold shallowCheck
  rw [dset_missingOfList]
  cases missingOfList st c ps <;> rfl

theorem dset_findDecoratedValue (T : Nat → List (Key × Nat)) (st : St) (k : Key) : ∀ anc,
    findDecoratedValue (dset T st) k anc = findDecoratedValue st k anc := by
  intro anc
  induction anc with
  | nil => rfl
  | cons s rest ih => simp only [findDecoratedValue, (dset_scope_fields T st s).2.2.2.2.2.1, ih]

theorem dset_findDecoratedGroup (T : Nat → List (Key × Nat)) (st : St) (k : Key) : ∀ anc,
    findDecoratedGroup (dset T st) k anc = findDecoratedGroup st k anc := by
  intro anc
  induction anc with
  | nil => rfl
  | cons s rest ih => simp only [findDecoratedGroup, (dset_scope_fields T st s).2.2.2.2.2.2.2.1, ih]

theorem dset_findProviders (T : Nat → List (Key × Nat)) (st : St) (k : Key) : ∀ anc,
    findProviders (dset T st) k anc = findProviders st k anc := by
  intro anc
  induction anc with
  | nil => rfl
  | cons s rest ih =>
    simp only [findProviders, (dset_scope_fields T st s).2.2.2.2.1, (dset_scope_fields T st s).2.2.1, ih]

/-! ### extraction does not look at the decorator table -/

theorem extractResult_decorators (env : TyEnv) (r : Ret) (t : List (Key × Nat)) (sc : ScopeSt) (x : Result) :
    extractResult env r { sc with decorators := t } x = { extractResult env r sc x with decorators := t } := by
  apply extractResult.induct env r
    (fun sc x => extractResult env r { sc with decorators := t } x = { extractResult env r sc x with decorators := t })
    (fun sc xs => extractResults env r { sc with decorators := t } xs = { extractResults env r sc xs with decorators := t })
  · intro sc slot decl ty name as; simp only [extractResult]
  · intro sc slot decl ty group as; simp only [extractResult]; rfl
  · intro sc slot decl ty group flatten as hf
    simp only [extractResult, hf]; rfl
  · intro sc ty fs ih; simp only [extractResult]; exact ih
  · intro sc; simp only [extractResults]
  · intro sc x xs ih1 ih2; simp only [extractResults]; rw [ih1, ih2]

theorem extractDeco_decorators (env : TyEnv) (r : Ret) (t : List (Key × Nat)) (sc : ScopeSt) (x : Result) :
    extractDeco env r { sc with decorators := t } x = { extractDeco env r sc x with decorators := t } := by
  apply extractDeco.induct env r
    (fun sc x => extractDeco env r { sc with decorators := t } x = { extractDeco env r sc x with decorators := t })
    (fun sc xs => extractDecos env r { sc with decorators := t } xs = { extractDecos env r sc xs with decorators := t })
  · intro sc slot decl ty name as; simp only [extractDeco]
  · intro sc slot decl ty group f as; simp only [extractDeco]
  · intro sc ty fs ih; simp only [extractDeco]; exact ih
  · intro sc; simp only [extractDecos]
  · intro sc x xs ih1 ih2; simp only [extractDecos]; rw [ih1, ih2]

theorem extractSlots_decorators (env : TyEnv) (deco : Bool) (r : Ret) (t : List (Key × Nat)) (slots : List RSlot) :
    ∀ sc, extractSlots env deco r { sc with decorators := t } slots = { extractSlots env deco r sc slots with decorators := t } := by
  induction slots with
  | nil => intro sc; simp only [extractSlots]
  | cons s rest ih =>
    intro sc
    cases s with
    | err => simp only [extractSlots]; exact ih sc
    | val x =>
      simp only [extractSlots]
      cases deco with
      | true => simp only [if_true]; rw [extractDeco_decorators, ih]
      | false => simp only [Bool.false_eq_true, if_false]; rw [extractResult_decorators, ih]

theorem dset_callBody (T : Nat → List (Key × Nat)) (ctx : Ctx) (who : Who) (fn : Fn) (args : List Val) (st : St) :
    callBody ctx who fn args (dset T st) = ((callBody ctx who fn args st).1, dset T (callBody ctx who fn args st).2) := by
  by_cases hd : ctx.cfg.dry = true
  · rw [callBody_dry ctx hd, callBody_dry ctx hd]
  · have hnd : ctx.cfg.dry = false := by simpa using hd
    rw [callBody_spec ctx hnd, callBody_spec ctx hnd]
    simp only
    refine Prod.ext rfl ?_
    show afterBody ctx who fn args (dset T st) = dset T (afterBody ctx who fn args st)
    unfold afterBody bodyEvents
    simp only [dset_execCount, dset_bumpExec, dset_clock, dset_log]
    rfl

theorem dset_runCallback (T : Nat → List (Key × Nat)) (cb : Option Nat) (who : Who) (fn start : Nat) (err : Option DErr) (st : St) :
    runCallback cb who fn start err (dset T st) = dset T (runCallback cb who fn start err st) := by
  unfold runCallback
  cases cb <;> rfl

theorem dset_ctorCommit (T : Nat → List (Key × Nat)) (ctx : Ctx) (n : Nat) (node : CtorNode) (r : BodyRes) (st : St) :
    ctorCommit ctx n node r (dset T st) = dset T (ctorCommit ctx n node r st) := by
  unfold ctorCommit
  cases r with
  | dry => simp only; rw [dset_modScope T st node.s _ (fun x t => extractSlots_decorators ctx.env false _ t node.results x), dset_modCtor]
  | ok x len => simp only; rw [dset_modScope T st node.s _ (fun x t => extractSlots_decorators ctx.env false _ t node.results x), dset_modCtor]
  | err x out => rfl
  | panic x => rfl

theorem dset_decoCommit (T : Nat → List (Key × Nat)) (ctx : Ctx) (d : Nat) (node : DecoNode) (r : BodyRes) (st : St) :
    decoCommit ctx d node r (dset T st) = dset T (decoCommit ctx d node r st) := by
  unfold decoCommit
  cases r with
  | dry => simp only; rw [dset_modScope T st node.s _ (fun x t => extractSlots_decorators ctx.env true _ t node.results x), dset_modDeco]
  | ok x len => simp only; rw [dset_modScope T st node.s _ (fun x t => extractSlots_decorators ctx.env true _ t node.results x), dset_modDeco]
  | err x out => rfl
  | panic x => rfl

theorem dset_ctorTail (T : Nat → List (Key × Nat)) (ctx : Ctx) (n : Nat) (node : CtorNode) (args : List Val) (st : St) :
    ctorTail ctx n node args (dset T st) = ((ctorTail ctx n node args st).1, dset T (ctorTail ctx n node args st).2) := by
  unfold ctorTail
  simp only [dset_callBody, dset_ctorCommit, dset_runCallback, dset_clock]

theorem dset_decoTail (T : Nat → List (Key × Nat)) (ctx : Ctx) (d : Nat) (node : DecoNode) (args : List Val) (st : St) :
    decoTail ctx d node args (dset T st) = ((decoTail ctx d node args st).1, dset T (decoTail ctx d node args st).2) := by
  unfold decoTail
  simp only [dset_callBody, dset_decoCommit, dset_runCallback, dset_clock]

end Dig

namespace Dig

/-! ### the container without decorator `d` -/

/-- what a table without `d` answers -/
def hideD (d : Nat) : Option Nat → Option Nat
  | some d' => if d' = d then none else some d'
  | none => none

/-- `d` is running, and the tables `T` are the container's decorator tables with every entry for `d` taken out -/
structure Hid (d : Nat) (T : Nat → List (Key × Nat)) (st : St) : Prop where
  running : (st.deco d).state = .onStack
  tables : ∀ j k, aget (T j) k = if j < st.scopes.length then hideD d (aget (st.scope j).decorators k) else none

/-- `m` behaves in the container without `d` as it does in the container itself -/
def CommD (d : Nat) (T : Nat → List (Key × Nat)) {α : Type} (m : EM α) : Prop :=
  ∀ st, Hid d T st → m (dset T st) = ((m st).1, dset T (m st).2) ∧ Hid d T (m st).2

section
variable (d : Nat) (T : Nat → List (Key × Nat))

theorem commd_pure {α : Type} (a : α) : CommD d T (EM.pure a) := fun _ h => ⟨rfl, h⟩
theorem commd_fail {α : Type} (e : Fail) : CommD d T (EM.fail e : EM α) := fun _ h => ⟨rfl, h⟩

theorem commd_bind {α β : Type} {m : EM α} {f : α → EM β} (hm : CommD d T m) (hf : ∀ a, CommD d T (f a)) : CommD d T (EM.bind m f) := by
  intro st hs
  obtain ⟨h1, h2⟩ := hm st hs
  unfold EM.bind
  rw [h1]
  cases h : m st with
  | mk r s' =>
    rw [h] at h2
    cases r with
    | ok a => simp only; exact hf a s' h2
    | error e => exact ⟨rfl, h2⟩

theorem commd_wrapErr {α : Type} {m : EM α} (w : DErr → DErr) (hm : CommD d T m) : CommD d T (EM.wrapErr m w) := by
  intro st hs
  obtain ⟨h1, h2⟩ := hm st hs
  unfold EM.wrapErr
  rw [h1]
  cases h : m st with
  | mk r s' =>
    rw [h] at h2
    cases r with
    | ok a => exact ⟨rfl, h2⟩
    | error e => cases e <;> exact ⟨rfl, h2⟩

theorem commd_finally {α : Type} {m : EM α} {fin : St → St} (hm : CommD d T m)
    (hfin : ∀ st, Hid d T st → fin (dset T st) = dset T (fin st) ∧ Hid d T (fin st)) :
    CommD d T (EM.finally_ m fin) := by
  intro st hs
  obtain ⟨h1, h2⟩ := hm st hs
  unfold EM.finally_
  rw [h1]
  cases h : m st with
  | mk r s' =>
    rw [h] at h2
    simp only
    obtain ⟨f1, f2⟩ := hfin s' h2
    exact ⟨by rw [f1], f2⟩

theorem commd_forEachM {α : Type} (xs : List α) {f : α → EM Unit} (hf : ∀ a, CommD d T (f a)) : CommD d T (forEachM xs f) := by
  induction xs with
  | nil => unfold forEachM; exact commd_pure d T ()
  | cons x rest ih => unfold forEachM; exact commd_bind d T (hf x) (fun _ => ih)

theorem commd_firstM {α β : Type} (xs : List α) {f : α → EM (Option β)} (hf : ∀ a, CommD d T (f a)) : CommD d T (firstM xs f) := by
  induction xs with
  | nil => unfold firstM; exact commd_pure d T none
  | cons x rest ih =>
    unfold firstM
    apply commd_bind d T (hf x)
    intro r
    cases r with
    | none => exact ih
    | some b => exact commd_pure d T (some b)

theorem commd_mapM {α β : Type} (xs : List α) {f : α → EM β} (hf : ∀ a, CommD d T (f a)) : CommD d T (mapM' xs f) := by
  induction xs with
  | nil => unfold mapM'; exact commd_pure d T []
  | cons x rest ih =>
    unfold mapM'
    apply commd_bind d T (hf x)
    intro b
    apply commd_bind d T ih
    intro bs
    exact commd_pure d T _

end

/-- whatever keeps the registry and the state of `d` keeps `Hid` -/
theorem Hid.of_regFrame {d : Nat} {T : Nat → List (Key × Nat)} {a b : St} (h : Hid d T a) (hf : RegFrame a b)
    (hd : (b.deco d).state = (a.deco d).state) : Hid d T b where
  running := by rw [hd]; exact h.running
  tables j k := by
    rw [h.tables j k, hf.1, (hf.2.1 j).2.2.2.1]

theorem commd_shallowCheck (d : Nat) (T : Nat → List (Key × Nat)) (c : Nat) (ps : List Param) : CommD d T (shallowCheck c ps) := by
  intro st hs
  refine ⟨dset_shallowCheck T c ps st, ?_⟩
  have : (shallowCheck c ps st).2 = st := by unfold shallowCheck; split <;> rfl
  rw [this]; exact hs

theorem commd_ctorTail (d : Nat) (T : Nat → List (Key × Nat)) (ctx : Ctx) (n : Nat) (node : CtorNode) (args : List Val) :
    CommD d T (ctorTail ctx n node args) := by
  intro st hs
  refine ⟨dset_ctorTail T ctx n node args st, hs.of_regFrame (regFrame_ctorTail ctx st n node args) ?_⟩
  simp only [St.deco, ctorTail_decos]

theorem commd_decoTail (d : Nat) (T : Nat → List (Key × Nat)) (ctx : Ctx) (d' : Nat) (hne : d' ≠ d) (node : DecoNode) (args : List Val) :
    CommD d T (decoTail ctx d' node args) := by
  intro st hs
  refine ⟨dset_decoTail T ctx d' node args st, hs.of_regFrame (regFrame_decoTail ctx st d' node args) ?_⟩
  rw [decoTail_deco, if_neg (fun h => hne h.2.1)]

/-- the decorator look-up skips `d` in the container, and does not find it in the container without it -/
theorem dset_findDeco {d : Nat} {T : Nat → List (Key × Nat)} {st : St} (h : Hid d T st) (k : Key) : ∀ anc,
    findDeco (dset T st) k anc = findDeco st k anc := by
  intro anc
  induction anc with
  | nil => rfl
  | cons s rest ih =>
    simp only [findDeco, dset_deco]
    rw [dset_decorators T st s k (fun hj => by rw [h.tables s k, if_neg (by omega)]), h.tables s k]
    by_cases hs : s < st.scopes.length
    · simp only [hs, if_true]
      cases hg : aget (st.scope s).decorators k with
      | none => simp only [hideD]; exact ih
      | some d' =>
        simp only [hideD]
        by_cases hd : d' = d
        · subst hd
          simp only [if_true, h.running, beq_self_eq_true]
          exact ih
        · simp only [hd, if_false]
          rw [ih]
          rfl
    · simp only [hs, if_false]
      have : st.scope s = default := by
        unfold St.scope; simp only [List.getD_eq_getElem?_getD]; rw [List.getElem?_eq_none (by omega)]; rfl
      rw [this]
      exact ih

end Dig

namespace Dig

theorem Hid.modCtor {d : Nat} {T : Nat → List (Key × Nat)} {st : St} (h : Hid d T st) (n : Nat) (f : CtorNode → CtorNode) :
    Hid d T (st.modCtor n f) :=
  ⟨h.running, fun j k => h.tables j k⟩

theorem Hid.modDeco {d : Nat} {T : Nat → List (Key × Nat)} {st : St} (h : Hid d T st) (d' : Nat) (hne : d' ≠ d) (f : DecoNode → DecoNode) :
    Hid d T (st.modDeco d' f) := by
  refine ⟨?_, fun j k => h.tables j k⟩
  rw [deco_modDeco, if_neg (fun hc => hne hc.1)]
  exact h.running

/-- **while decorator `d` is running, the resolver behaves in the container without `d` exactly as in the container** -/
theorem commd_engine (d : Nat) (T : Nat → List (Key × Nat)) (ctx : Ctx) :
    ∀ fuel,
      (∀ n c, CommD d T (callCtor ctx fuel n c)) ∧
      (∀ d' s, d' ≠ d → CommD d T (callDeco ctx fuel d' s)) ∧
      (∀ k opt c, CommD d T (buildSingle ctx fuel k opt c)) ∧
      (∀ k soft c, CommD d T (buildGroup ctx fuel k soft c)) ∧
      (∀ p c, CommD d T (buildParam ctx fuel p c)) ∧
      (∀ ps c, CommD d T (buildList ctx fuel ps c)) := by
  intro fuel
  induction fuel with
  | zero =>
    refine ⟨?_, ?_, ?_, ?_, ?_, ?_⟩ <;> intros <;> intro st hs
    · simp only [callCtor, EM.fail]; exact ⟨trivial, hs⟩
    · simp only [callDeco, EM.fail]; exact ⟨trivial, hs⟩
    · simp only [buildSingle, EM.fail]; exact ⟨trivial, hs⟩
    · simp only [buildGroup, EM.fail]; exact ⟨trivial, hs⟩
    · simp only [buildParam, EM.fail]; exact ⟨trivial, hs⟩
    · simp only [buildList, EM.fail]; exact ⟨trivial, hs⟩
  | succ fuel ih =>
    obtain ⟨ihC, ihD, ihS, ihG, ihP, ihL⟩ := ih
    refine ⟨?_, ?_, ?_, ?_, ?_, ?_⟩
    · -- callCtor
      intro n c st hs
      simp only [callCtor, dset_ctor]
      by_cases h1 : (st.ctor n).called = true
      · simp only [h1, if_true]; exact ⟨trivial, hs⟩
      · simp only [h1, if_false, Bool.false_eq_true]
        by_cases h2 : (st.ctor n).onStack = true
        · simp only [h2, if_true]; exact ⟨trivial, hs⟩
        · simp only [h2, if_false, Bool.false_eq_true]
          rw [dset_modCtor]
          exact commd_finally d T (fin := fun st : St => st.modCtor n fun x => { x with onStack := false })
            (commd_bind d T (commd_shallowCheck d T c _) (fun _ =>
              commd_bind d T (commd_wrapErr d T _ (ihL _ c)) (fun args => commd_ctorTail d T ctx n _ args)))
            (fun s hs' => ⟨rfl, hs'.modCtor n _⟩) _ (hs.modCtor n _)
    · -- callDeco
      intro d' s hne st hs
      simp only [callDeco, dset_deco]
      by_cases h1 : ((st.deco d').state == DecoState.called) = true
      · simp only [h1, if_true]; exact ⟨trivial, hs⟩
      · simp only [h1, if_false, Bool.false_eq_true]
        rw [dset_modDeco]
        exact commd_finally d T (fin := fun st : St => st.modDeco d' fun x => if x.state == .called then x else { x with state := .ready })
          (commd_bind d T (commd_shallowCheck d T s _) (fun _ =>
            commd_bind d T (commd_wrapErr d T _ (ihL _ _)) (fun args => commd_decoTail d T ctx d' hne _ args)))
          (fun s' hs' => ⟨rfl, hs'.modDeco d' hne _⟩) _ (hs.modDeco d' hne _)
    · -- buildSingle
      intro k opt c st hs
      simp only [buildSingle, dset_ancestors, dset_findDeco hs, dset_findDecoratedValue, dset_findProviders]
      cases hfd : findDeco st k (st.ancestors c) with
      | some p =>
        obtain ⟨d', ds⟩ := p
        simp only
        have hne : d' ≠ d := by
          intro e
          obtain ⟨_, _, _, _, hst, _⟩ := findDeco_spec st k _ d' ds hfd
          rw [e] at hst
          exact hst hs.running
        refine commd_bind d T (commd_wrapErr d T _ (ihD d' ds hne)) (fun _ => ?_) st hs
        intro st' hs'
        simp only [(dset_scope_fields T st' ds).2.2.2.2.2.1]
        split <;> exact ⟨rfl, hs'⟩
      | none =>
        simp only
        split
        · exact ⟨rfl, hs⟩
        · split
          · exact ⟨rfl, hs⟩
          · split <;> exact ⟨rfl, hs⟩
          · rename_i pc ns _
            refine commd_bind d T (commd_firstM d T ns (fun n => ?_)) (fun early => ?_) st hs
            · intro s1 hs1
              simp only [dset_ctor]
              obtain ⟨c1, c2⟩ := ihC n (s1.ctor n).origS s1 hs1
              rw [c1]
              refine ⟨?_, by rw [providerStep_state]; exact c2⟩
              unfold providerStep
              cases hc : callCtor ctx fuel n (s1.ctor n).origS s1 with
              | mk r s2 =>
                cases r with
                | ok u => rfl
                | error f =>
                  cases f with
                  | err e => simp only; split <;> rfl
                  | panic a b => rfl
                  | bug => rfl
                  | fuel => rfl
            · intro st' hs'
              cases early with
              | some z => exact ⟨rfl, hs'⟩
              | none =>
                simp only [(dset_scope_fields T st' pc).2.2.2.2.1]
                split <;> exact ⟨rfl, hs'⟩
    · -- buildGroup
      intro k soft c st hs
      simp only [buildGroup, dset_ancestors]
      refine commd_bind d T (commd_forEachM d T _ (fun s => ?_)) (fun _ => ?_) st hs
      · intro s1 hs1
        simp only [dset_deco]
        rw [dset_decorators T s1 s k (fun hj => by rw [hs1.tables s k, if_neg (by omega)]), hs1.tables s k]
        by_cases hsl : s < s1.scopes.length
        · simp only [hsl, if_true]
          cases hg : aget (s1.scope s).decorators k with
          | none => simp only [hideD]; exact ⟨trivial, hs1⟩
          | some d' =>
            simp only [hideD]
            by_cases hd : d' = d
            · subst hd
              simp only [if_true, hs1.running, beq_self_eq_true]
              exact ⟨trivial, hs1⟩
            · simp only [hd, if_false]
              by_cases h1 : ((s1.deco d').state == DecoState.onStack) = true
              · simp only [h1, if_true]; exact ⟨trivial, hs1⟩
              · simp only [h1, if_false, Bool.false_eq_true]
                exact commd_wrapErr d T _ (ihD d' s hd) s1 hs1
        · simp only [hsl, if_false]
          have : s1.scope s = default := by
            unfold St.scope; simp only [List.getD_eq_getElem?_getD]; rw [List.getElem?_eq_none (by omega)]; rfl
          rw [this]
          exact ⟨rfl, hs1⟩
      · intro st2 hs2
        simp only [dset_findDecoratedGroup]
        split
        · exact ⟨rfl, hs2⟩
        · refine commd_bind d T ?_ (fun _ => ?_) st2 hs2
          · cases soft with
            | true => simp only [if_true]; exact commd_pure d T ()
            | false =>
              simp only [Bool.false_eq_true, if_false]
              refine commd_forEachM d T _ (fun s => ?_)
              intro s3 hs3
              simp only [(dset_scope_fields T s3 s).2.2.1]
              refine commd_forEachM d T _ (fun n => ?_) s3 hs3
              intro s4 hs4
              simp only [dset_ctor]
              exact commd_wrapErr d T _ (ihC n _) s4 hs4
          · intro s5 hs5
            have : (st.ancestors c).flatMap (fun s => agetL ((dset T s5).scope s).groups k) =
                (st.ancestors c).flatMap (fun s => agetL (s5.scope s).groups k) := by
              congr 1; funext s; rw [(dset_scope_fields T s5 s).2.2.2.2.2.2.1]
            simp only [this]
            exact ⟨trivial, hs5⟩
    · -- buildParam
      intro p c
      cases p with
      | single k opt => simp only [buildParam]; exact ihS k opt c
      | grouped ty k soft pg => simp only [buildParam]; exact ihG k soft c
      | object ty fs =>
        simp only [buildParam]
        exact commd_bind d T (commd_mapM d T _ (fun f => ihP f c)) (fun hard =>
          commd_bind d T (commd_mapM d T _ (fun f => ihP f c)) (fun soft => commd_pure d T _))
    · -- buildList
      intro ps c
      simp only [buildList]
      exact commd_mapM d T _ (fun p => ihP p c)

end Dig

namespace Dig

/-! ### the tables without `d` exist -/

/-- a table with the entries for `d` taken out (and, as `aget` reads the first entry of a key only, later entries of a
    key already met dropped) -/
def hideAux (d : Nat) : List Key → List (Key × Nat) → List (Key × Nat)
  | _, [] => []
  | seen, (k, d') :: rest =>
    if k ∈ seen then hideAux d seen rest
    else if d' = d then hideAux d (k :: seen) rest
    else (k, d') :: hideAux d (k :: seen) rest

theorem aget_hideAux (d : Nat) : ∀ (l : List (Key × Nat)) (seen : List Key) (k : Key),
    aget (hideAux d seen l) k = if k ∈ seen then none else hideD d (aget l k) := by
  intro l
  induction l with
  | nil => intro seen k; simp [hideAux, aget, hideD]
  | cons p rest ih =>
    intro seen k
    obtain ⟨k1, d1⟩ := p
    simp only [hideAux]
    by_cases hk1 : k1 ∈ seen
    · simp only [hk1, if_true]
      rw [ih seen k]
      by_cases hk : k ∈ seen
      · simp only [hk, if_true]
      · simp only [hk, if_false]
        have hne : (k1 == k) = false := by
          simp only [beq_eq_false_iff_ne, ne_eq]; intro e; subst e; exact hk hk1
        simp only [aget, hne, Bool.false_eq_true, if_false]
    · simp only [hk1, if_false]
      by_cases hd : d1 = d
      · simp only [hd, if_true]
        rw [ih (k1 :: seen) k]
        by_cases hk : k ∈ seen
        · have : k ∈ k1 :: seen := by simp [hk]
          simp only [this, hk, if_true]
        · simp only [hk, if_false]
          by_cases he : k1 = k
          · subst he
            simp only [List.mem_cons, true_or, if_true, aget, beq_self_eq_true, hideD, hd]
          · have hne : (k1 == k) = false := by simpa using he
            have hm : ¬ k ∈ k1 :: seen := by
              simp only [List.mem_cons, not_or]; exact ⟨fun e => he e.symm, hk⟩
            simp only [hm, if_false, aget, hne, Bool.false_eq_true]
      · simp only [hd, if_false]
        by_cases hk : k ∈ seen
        · simp only [hk, if_true]
          have hne : (k1 == k) = false := by
            simp only [beq_eq_false_iff_ne, ne_eq]; intro e; subst e; exact hk1 hk
          simp only [aget, hne, Bool.false_eq_true, if_false]
          rw [ih (k1 :: seen) k]
          have : k ∈ k1 :: seen := by simp [hk]
          simp only [this, if_true]
        · simp only [hk, if_false]
          by_cases he : k1 = k
          · subst he
            simp only [aget, beq_self_eq_true, if_true, hideD, hd, if_false]
          · have hne : (k1 == k) = false := by simpa using he
            simp only [aget, hne, Bool.false_eq_true, if_false]
            rw [ih (k1 :: seen) k]
            have hm : ¬ k ∈ k1 :: seen := by
              simp only [List.mem_cons, not_or]; exact ⟨fun e => he e.symm, hk⟩
            simp only [hm, if_false]

/-- the decorator tables of `st` without decorator `d` -/
def tablesWithout (d : Nat) (st : St) : Nat → List (Key × Nat) :=
  fun j => if j < st.scopes.length then hideAux d [] (st.scope j).decorators else []

theorem hid_tablesWithout (d : Nat) (st : St) (h : (st.deco d).state = .onStack) : Hid d (tablesWithout d st) st where
  running := h
  tables j k := by
    unfold tablesWithout
    by_cases hj : j < st.scopes.length
    · simp only [hj, if_true]
      rw [aget_hideAux]
      simp
    · simp only [hj, if_false]
      rfl

end Dig
