import DigModel.Proofs.RootCause
import DigModel.Proofs.InvokeShape
import DigModel.Proofs.ApiLemmas
import DigModel.Proofs.Parse
/-
  Error transparency of Invoke: what the verdict of the resolution-and-call stage says about the events of that Invoke.
-/
namespace Dig

/-- what a verdict must say about the events `l` of the operation -/
def InvGood (ctx : Ctx) (l : List Event) : Verdict → Prop
  | .ok => ∀ e ∈ l, e.isFail = true → ∃ f x k, e = Event.exit Who.invoked f x k
  | .err e => (Clean l ∧ DigRoot e) ∨ ∃ who f x,
      (e.rootCause = .user f x ∧ (ctx.beh f x).k = .err ∧ FailAt l who f x .err) ∨
      (e.rootCause = .panicErr f x ∧ ctx.cfg.recover = true ∧ (ctx.beh f x).k = .panic ∧ FailAt l who f x .panic)
  | .panicUser f x => ctx.cfg.recover = false ∧ (ctx.beh f x).k = .panic ∧ ∃ who, FailAt l who f x .panic
  | _ => True

theorem invokeRun_root (ctx : Ctx) (fn : Fn) (params : List Param) (s : Nat) (info : Bool) (w : St) (hlog : w.log = []) :
    InvGood ctx (invokeRun ctx fn params s info w).2.ev (invokeRun ctx fn params s info w).2.v := by
  have her := er_wrapErr (m := buildList ctx (engineFuel w params) params s) DErr.argsFailed (st := w) (fun _ => rfl) hmd_argsFailed
    ((engine_root ctx (engineFuel w params)).2.2.2.2.2 params s w)
  obtain ⟨l, hl, hg⟩ := her
  rw [hlog, List.nil_append] at hl
  unfold invokeRun
  cases hb : EM.wrapErr (buildList ctx (engineFuel w params) params s) DErr.argsFailed w with
  | mk r w' =>
    rw [hb] at hl hg
    simp only at hl hg
    cases r with
    | error f =>
      simp only
      rw [hl]
      cases f with
      | err e =>
        simp only [failToVerdict, InvGood]
        rcases hg with hc | ⟨_, who, f, x, _, hh⟩
        · exact Or.inl ⟨hc.1, hc.2.digRoot⟩
        · exact Or.inr ⟨who, f, x, hh⟩
      | panic f x =>
        simp only [failToVerdict, InvGood]
        obtain ⟨hr, hbk, who, _, hf⟩ := hg
        exact ⟨hr, hbk, who, hf⟩
      | bug => simp only [failToVerdict, InvGood]
      | fuel => simp only [failToVerdict, InvGood]
    | ok args =>
      simp only
      have hcl : Clean l := hg
      by_cases hd : ctx.cfg.dry = true
      · rw [callBody_dry ctx hd]
        simp only [InvGood]
        rw [hl]
        intro e he hf
        rw [hcl e he] at hf; cases hf
      · have hnd : ctx.cfg.dry = false := by simpa using hd
        rw [callBody_spec ctx hnd]
        simp only
        have hk := bodyRes_kind ctx fn w'
        have hlog' : (afterBody ctx .invoked fn args w').log = l ++ bodyEvents ctx .invoked fn args w' := by
          show w'.log ++ _ = _; rw [hl]
        rw [hlog']
        unfold bodyEvents
        have hcl1 : Clean (l ++ [Event.enter Who.invoked fn.id (w'.execCount fn.id) args]) := hcl.append (clean_enter _ _ _ _)
        have hsplit : ∀ k, l ++ [Event.enter Who.invoked fn.id (w'.execCount fn.id) args, Event.exit Who.invoked fn.id (w'.execCount fn.id) k] =
            (l ++ [Event.enter Who.invoked fn.id (w'.execCount fn.id) args]) ++ Event.exit Who.invoked fn.id (w'.execCount fn.id) k :: [] := by
          intro k; simp
        have honly : ∀ k, ∀ e ∈ l ++ [Event.enter Who.invoked fn.id (w'.execCount fn.id) args, Event.exit Who.invoked fn.id (w'.execCount fn.id) k],
            e.isFail = true → ∃ f x k, e = Event.exit Who.invoked f x k := by
          intro k e he hf
          rw [hsplit k] at he
          rcases List.mem_append.mp he with h1 | h1
          · rw [hcl1 e h1] at hf; cases hf
          · simp only [List.mem_singleton] at h1; exact ⟨_, _, _, h1⟩
        cases hbr : bodyRes ctx fn w' with
        | dry => rw [hbr] at hk; exact hk.elim
        | ok x len =>
          simp only [InvGood]
          exact honly _
        | err x out =>
          rw [hbr] at hk
          obtain ⟨hx, hk, hbk⟩ := hk
          simp only
          by_cases hlast : (out + 1 == fn.outs.length) = true
          · simp only [hlast, if_true, InvGood]
            refine Or.inr ⟨.invoked, fn.id, x, Or.inl ⟨rfl, by rw [hx]; exact hbk, ?_⟩⟩
            rw [hk, hx, hsplit]
            exact ⟨_, [], rfl, hcl1, (by intro e he; cases he), (by intro hc; cases hc)⟩
          · simp only [hlast, Bool.false_eq_true, if_false, InvGood]
            exact honly _
        | panic x =>
          rw [hbr] at hk
          obtain ⟨hx, hk, hbk⟩ := hk
          simp only
          by_cases hrec : ctx.cfg.recover = true
          · simp only [hrec, if_true, InvGood]
            refine Or.inr ⟨.invoked, fn.id, x, Or.inr ⟨rfl, trivial, by rw [hx]; exact hbk, ?_⟩⟩
            rw [hk, hx, hsplit]
            exact ⟨_, [], rfl, hcl1, (by intro e he; cases he), (by intro hc; cases hc)⟩
          · have hrec' : ctx.cfg.recover = false := by simpa using hrec
            simp only [hrec', Bool.false_eq_true, if_false, InvGood]
            refine ⟨trivial, by rw [hx]; exact hbk, .invoked, ?_⟩
            rw [hk, hx, hsplit]
            exact ⟨_, [], rfl, hcl1, (by intro e he; cases he), (by intro hc; cases hc)⟩

end Dig

namespace Dig

/-- the only errors the resolution-and-call stage of Invoke produces by itself are "missing type" and "cycle";
    everything else is a user function's own error or recovered panic -/
theorem invokeRun_engRoot (ctx : Ctx) (fn : Fn) (params : List Param) (s : Nat) (info : Bool) (w : St) (e : DErr)
    (h : (invokeRun ctx fn params s info w).2.v = .err e) :
    EngRoot e ∨ ∃ f x, (e.rootCause = .user f x ∧ (ctx.beh f x).k = .err) ∨ (e.rootCause = .panicErr f x ∧ (ctx.beh f x).k = .panic) := by
  have her := er_wrapErr (m := buildList ctx (engineFuel w params) params s) DErr.argsFailed (st := w) (fun _ => rfl) hmd_argsFailed
    ((engine_root ctx (engineFuel w params)).2.2.2.2.2 params s w)
  obtain ⟨l, _, hg⟩ := her
  unfold invokeRun at h
  cases hb : EM.wrapErr (buildList ctx (engineFuel w params) params s) DErr.argsFailed w with
  | mk r w' =>
    rw [hb] at h hg
    cases r with
    | error f =>
      simp only at h
      cases f with
      | err e' =>
        simp only [failToVerdict] at h
        injection h with h; subst h
        rcases hg with hc | ⟨_, who, f, x, _, hh⟩
        · exact Or.inl hc.2
        · rcases hh with ⟨hr, hb, _⟩ | ⟨hr, _, hb, _⟩
          · exact Or.inr ⟨f, x, Or.inl ⟨hr, hb⟩⟩
          · exact Or.inr ⟨f, x, Or.inr ⟨hr, hb⟩⟩
      | panic f x => simp only [failToVerdict] at h; cases h
      | bug => simp only [failToVerdict] at h; cases h
      | fuel => simp only [failToVerdict] at h; cases h
    | ok args =>
      simp only at h
      cases hcb : callBody ctx .invoked fn args w' with
      | mk r5 w5 =>
        rw [hcb] at h
        simp only at h
        cases r5 with
        | dry => cases h
        | ok a b => cases h
        | err a b =>
          by_cases hc : (b + 1 == fn.outs.length) = true
          · simp only [if_pos hc] at h; injection h with h; subst h
            have hk := bodyRes_kind ctx fn w'
            rw [callBody_spec ctx (by cases hd : ctx.cfg.dry <;> simp_all [callBody])] at hcb
            injection hcb with hcb1 _
            rw [hcb1] at hk
            exact Or.inr ⟨_, _, Or.inl ⟨rfl, by rw [hk.1]; exact hk.2.2⟩⟩
          · simp only [if_neg hc] at h; cases h
        | panic a =>
          by_cases hc : ctx.cfg.recover = true
          · simp only [if_pos hc] at h; injection h with h; subst h
            have hk := bodyRes_kind ctx fn w'
            rw [callBody_spec ctx (by cases hd : ctx.cfg.dry <;> simp_all [callBody])] at hcb
            injection hcb with hcb1 _
            rw [hcb1] at hk
            exact Or.inr ⟨_, _, Or.inr ⟨rfl, by rw [hk.1]; exact hk.2.2⟩⟩
          · simp only [if_neg hc] at h; cases h

/-- every failing execution of a constructor or decorator among the events of an operation is *the* failure the
    operation reports: its error (or recovered panic) is the root cause of the returned error, its unrecovered panic
    is the panic that propagates; and there is no second one -/
def Reported (ctx : Ctx) (r : OpRes) : Prop :=
  ∀ who g x k, who ≠ Who.invoked → Event.exit who g x k ∈ r.ev → k ≠ .ok →
    (k = .err → ∃ e, r.v = .err e ∧ e.rootCause = .user g x) ∧
    (k = .panic → (ctx.cfg.recover = true → ∃ e, r.v = .err e ∧ e.rootCause = .panicErr g x) ∧
                  (ctx.cfg.recover = false → r.v = .panicUser g x)) ∧
    (∀ who' g' x' k', Event.exit who' g' x' k' ∈ r.ev → k' ≠ .ok → who' = who ∧ g' = g ∧ x' = x ∧ k' = k)

theorem failAt_unique {l : List Event} {who : Who} {f x : Nat} {k : ExitKind} (h : FailAt l who f x k)
    {who' : Who} {g y : Nat} {k' : ExitKind} (hm : Event.exit who' g y k' ∈ l) (hk' : k' ≠ .ok) :
    who' = who ∧ g = f ∧ y = x ∧ k' = k := by
  obtain ⟨l1, cbs, e, h1, hc, _⟩ := h
  rw [e] at hm
  rcases List.mem_append.mp hm with hm | hm
  · have := h1 _ hm
    cases k' with
    | ok => exact absurd rfl hk'
    | err => cases this
    | panic => cases this
  · rcases List.mem_cons.mp hm with hm | hm
    · injection hm with a b c d
      exact ⟨a, b, c, d⟩
    · have := hc _ hm
      cases this

theorem reported_of_invGood {ctx : Ctx} {r : OpRes} (h : InvGood ctx r.ev r.v) (h1 : r.v ≠ .panicDig) (h2 : r.v ≠ .fuel)
    (h3 : r.v ≠ .badop) : Reported ctx r := by
  intro who g x k hw hm hk
  have hfail : (Event.exit who g x k).isFail = true := by
    cases k with
    | ok => exact absurd rfl hk
    | err => rfl
    | panic => rfl
  cases hv : r.v with
  | ok =>
    rw [hv] at h
    obtain ⟨f, y, k2, e⟩ := h _ hm hfail
    injection e with a _ _ _
    exact absurd a hw
  | badop => exact absurd hv h3
  | panicDig => exact absurd hv h1
  | fuel => exact absurd hv h2
  | err e =>
    rw [hv] at h
    rcases h with ⟨hc, _⟩ | ⟨who', f, y, hh⟩
    · have := hc _ hm; rw [hfail] at this; cases this
    · rcases hh with ⟨hr, _, hf⟩ | ⟨hr, hrec, _, hf⟩
      · obtain ⟨a, b, c, d⟩ := failAt_unique hf hm hk
        subst a; subst b; subst c; subst d
        refine ⟨fun _ => ⟨e, rfl, hr⟩, (fun hc => by cases hc), ?_⟩
        intro who' g' x' k' hm' hk'
        exact failAt_unique hf hm' hk'
      · obtain ⟨a, b, c, d⟩ := failAt_unique hf hm hk
        subst a; subst b; subst c; subst d
        refine ⟨(fun hc => by cases hc), fun _ => ⟨fun _ => ⟨e, rfl, hr⟩, (fun hc => by rw [hrec] at hc; cases hc)⟩, ?_⟩
        intro who' g' x' k' hm' hk'
        exact failAt_unique hf hm' hk'
  | panicUser f y =>
    rw [hv] at h
    obtain ⟨hrec, _, who', hf⟩ := h
    obtain ⟨a, b, c, d⟩ := failAt_unique hf hm hk
    subst a; subst b; subst c; subst d
    refine ⟨(fun hc => by cases hc), fun _ => ⟨(fun hc => by rw [hrec] at hc; cases hc), fun _ => rfl⟩, ?_⟩
    intro who' g' x' k' hm' hk'
    exact failAt_unique hf hm' hk'

theorem reported_nil (ctx : Ctx) (r : OpRes) (h : r.ev = []) : Reported ctx r := by
  intro who g x k _ hm; rw [h] at hm; cases hm

theorem invokeCheck_log (w w' : St) (s : Nat) (h : invokeCheck w s = .ok w') : w'.log = w.log := by
  unfold invokeCheck at h
  split at h
  · injection h with e; rw [← e]
  · split at h
    · injection h with e; rw [← e]; rfl
    · cases h
    · cases h

theorem apiInvoke_reported (ctx : Ctx) (fn : Fn) (st : St) (s : Nat) (info : Bool) (hlog : st.log = [])
    (h1 : (apiInvoke ctx fn st s info).2.v ≠ .panicDig) (h2 : (apiInvoke ctx fn st s info).2.v ≠ .fuel) :
    Reported ctx (apiInvoke ctx fn st s info).2 := by
  rw [apiInvoke_eq] at h1 h2 ⊢
  unfold apiInvoke' at h1 h2 ⊢
  cases hnf : fn.nonfunc with
  | some _ => exact reported_nil _ _ rfl
  | none =>
    rw [hnf] at h1 h2
    simp only at h1 h2 ⊢
    have hg := ghOnly_parseParams ctx.env st s fn
    cases hpp : parseParams ctx.env st s fn with
    | mk r w =>
      rw [hpp] at hg h1 h2
      simp only at hg h1 h2 ⊢
      cases r with
      | error e => exact reported_nil _ _ rfl
      | ok params =>
        simp only at h1 h2 ⊢
        have hs := shallowCheck_state s params w
        cases hsc : shallowCheck s params w with
        | mk r2 w2 =>
          rw [hsc] at hs h1 h2; simp only at hs h1 h2; subst hs
          cases r2 with
          | error f => exact reported_nil _ _ rfl
          | ok u =>
            simp only at h1 h2 ⊢
            cases hck : invokeCheck w2 s with
            | error v => exact reported_nil _ _ rfl
            | ok w3 =>
              rw [hck] at h1 h2
              simp only at h1 h2 ⊢
              have hl3 : w3.log = [] := by rw [invokeCheck_log w2 w3 s hck, ← hg.2.2.2.1]; exact hlog
              refine reported_of_invGood (invokeRun_root ctx fn params s info w3 hl3) h1 h2 ?_
              unfold invokeRun
              cases EM.wrapErr (buildList ctx (engineFuel w3 params) params s) DErr.argsFailed w3 with
              | mk r4 w4 =>
                cases r4 with
                | error f => simp only; cases f <;> (intro hc; cases hc)
                | ok args =>
                  simp only
                  cases callBody ctx .invoked fn args w4 with
                  | mk r5 w5 =>
                    simp only
                    cases r5 with
                    | dry => intro hc; cases hc
                    | ok a b => intro hc; cases hc
                    | err a b =>
                      by_cases hc : (b + 1 == fn.outs.length) = true
                      · simp only [if_pos hc]; intro hc; cases hc
                      · simp only [if_neg hc]; intro hc; cases hc
                    | panic a =>
                      by_cases hc : ctx.cfg.recover = true
                      · simp only [if_pos hc]; intro hc; cases hc
                      · simp only [if_neg hc]; intro hc; cases hc

theorem step_reported (ctx : Ctx) (fns : List Fn) (st : St) (i : Nat) (op : Op)
    (h1 : (Dig.step ctx fns st i op).2.v ≠ .panicDig) (h2 : (Dig.step ctx fns st i op).2.v ≠ .fuel) :
    Reported ctx (Dig.step ctx fns st i op).2 := by
  cases op with
  | scope parent => simp only [Dig.step]; split <;> exact reported_nil _ _ rfl
  | provide s f o =>
    simp only [Dig.step]
    split
    · split
      · exact reported_nil _ _ rfl
      · exact reported_nil _ _ rfl
    · exact reported_nil _ _ rfl
  | decorate s f cb info =>
    simp only [Dig.step]
    split
    · split
      · exact reported_nil _ _ rfl
      · exact reported_nil _ _ rfl
    · exact reported_nil _ _ rfl
  | invoke s f info =>
    simp only [Dig.step] at h1 h2 ⊢
    split
    · rename_i fn hfn
      rw [hfn] at h1 h2
      simp only at h1 h2
      split
      · rename_i hs
        rw [if_pos hs] at h1 h2
        exact apiInvoke_reported ctx fn _ s info rfl h1 h2
      · exact reported_nil _ _ rfl
    · exact reported_nil _ _ rfl
  | visualize s e => cases e <;> (simp only [Dig.step]; split <;> exact reported_nil _ _ rfl)
  | string s => simp only [Dig.step]; split <;> exact reported_nil _ _ rfl

/-- a fact about single results that holds for every step, holds for every result of a run -/
theorem runOps_all (ctx : Ctx) (fns : List Fn) (P : OpRes → Prop) (hP : ∀ st i op, P (Dig.step ctx fns st i op).2) :
    ∀ (ops : List Op) (i : Nat) (st : St) (acc : List OpRes), (∀ r ∈ acc, P r) →
      ∀ r ∈ (Dig.runOps ctx fns ops i st acc).2, P r := by
  intro ops
  induction ops with
  | nil =>
    intro i st acc hacc r hr
    simp only [Dig.runOps, List.mem_reverse] at hr
    exact hacc r hr
  | cons op rest ih =>
    intro i st acc hacc
    simp only [Dig.runOps]
    cases hs : Dig.step ctx fns st i op with
    | mk st' r0 =>
      apply ih
      intro r hr
      rcases List.mem_cons.mp hr with e | hr
      · rw [e]; have := hP st i op; rw [hs] at this; exact this
      · exact hacc r hr

end Dig

namespace Dig

/-- for whole programs, given that no operation answers `panicDig` or `fuel` (both proved elsewhere for every program) -/
theorem runOps_reported (ctx : Ctx) (fns : List Fn) (ops : List Op) :
    ∀ r ∈ (Dig.runOps ctx fns ops 0 {} []).2, r.v ≠ .panicDig → r.v ≠ .fuel → Reported ctx r :=
  runOps_all ctx fns (fun r => r.v ≠ .panicDig → r.v ≠ .fuel → Reported ctx r)
    (fun st i op h1 h2 => step_reported ctx fns st i op h1 h2) ops 0 {} [] (by intro r hr; cases hr)

end Dig
