import DigModel.Proofs.ApiLemmas
/-
  The shape of the event log.  User functions are leaves: dig builds all arguments of a function before it
  enters it, so executions never nest in the log, and a callback event can only appear directly behind the
  exit event of the execution it reports.  Every resolver call appends a sequence of *blocks*:

      enter w f x args · exit w f x r               a node's function ran (no callback registered)
      enter w f x args · exit w f x r · cb op w f   … with its callback
      cb op w f                                     DryRun: the function is skipped, the callback is not

  where `w` is a constructor or decorator node, never the invoked function.
-/
namespace Dig

/-- the events of one execution of a node's function, as they appear in the log -/
inductive Block (dry : Bool) : List Event → Prop
  | body (w : Who) (f x : Nat) (args : List Val) (r : ExitKind) : w ≠ .invoked → dry = false →
      Block dry [.enter w f x args, .exit w f x r]
  | bodyCb (w : Who) (f x : Nat) (args : List Val) (r : ExitKind) (op : Nat) (err : Option DErr) (rt : Nat) :
      w ≠ .invoked → dry = false → Block dry [.enter w f x args, .exit w f x r, .cb op w f err rt]
  | cbOnly (op : Nat) (w : Who) (f : Nat) (err : Option DErr) (rt : Nat) : w ≠ .invoked → dry = true →
      Block dry [.cb op w f err rt]

inductive Blocks (dry : Bool) : List Event → Prop
  | nil : Blocks dry []
  | cons {b l : List Event} : Block dry b → Blocks dry l → Blocks dry (b ++ l)

theorem Blocks.append {dry : Bool} {l1 l2 : List Event} (h1 : Blocks dry l1) (h2 : Blocks dry l2) :
    Blocks dry (l1 ++ l2) := by
  induction h1 with
  | nil => simpa using h2
  | cons hb _ ih => rw [List.append_assoc]; exact Blocks.cons hb ih

theorem Blocks.single {dry : Bool} {b : List Event} (h : Block dry b) : Blocks dry b := by
  have := Blocks.cons h Blocks.nil
  simpa using this

/-- log and history grow by the same sequence of blocks -/
def Shape (dry : Bool) (a b : St) : Prop := ∃ l, b.log = a.log ++ l ∧ b.hist = a.hist ++ l ∧ Blocks dry l

theorem Shape.refl (dry : Bool) (a : St) : Shape dry a a := ⟨[], by simp, by simp, Blocks.nil⟩

theorem Shape.trans {dry : Bool} {a b c : St} (h1 : Shape dry a b) (h2 : Shape dry b c) : Shape dry a c := by
  obtain ⟨l1, e1, g1, p1⟩ := h1
  obtain ⟨l2, e2, g2, p2⟩ := h2
  exact ⟨l1 ++ l2, by rw [e2, e1, List.append_assoc], by rw [g2, g1, List.append_assoc], p1.append p2⟩

theorem shape_of_eq {dry : Bool} (a b : St) (h1 : b.log = a.log) (h2 : b.hist = a.hist) : Shape dry a b :=
  ⟨[], by simp [h1], by simp [h2], Blocks.nil⟩

theorem shape_tail {dry : Bool} (w : Who) (hw : w ≠ .invoked) (f : Nat) (a b : St) (lb lc : List Event)
    (hh : b.hist = a.hist ++ (lb ++ lc)) (hl : b.log = a.log ++ (lb ++ lc))
    (hb : (dry = true ∧ lb = []) ∨ (dry = false ∧ ∃ x args r, lb = [.enter w f x args, .exit w f x r]))
    (hc : lc = [] ∨ ∃ op err rt, lc = [.cb op w f err rt]) : Shape dry a b := by
  refine ⟨lb ++ lc, hl, hh, ?_⟩
  rcases hb with ⟨hd, rfl⟩ | ⟨hd, x, args, r, rfl⟩
  · rcases hc with rfl | ⟨op, err, rt, rfl⟩
    · exact Blocks.nil
    · exact Blocks.single (Block.cbOnly op w f err rt hw hd)
  · rcases hc with rfl | ⟨op, err, rt, rfl⟩
    · simpa using Blocks.single (Block.body w f x args r hw hd)
    · exact Blocks.single (Block.bodyCb w f x args r op err rt hw hd)

theorem shape_leaf (ctx : Ctx) : LeafRel ctx (Shape ctx.cfg.dry) where
  refl := Shape.refl _
  trans := Shape.trans
  setOnStack st n := shape_of_eq _ _ rfl rfl
  clearOnStack st n := shape_of_eq _ _ rfl rfl
  decoOnStack st d := shape_of_eq _ _ rfl rfl
  decoFinally st d := shape_of_eq _ _ rfl rfl
  ctorTail st n node args := by
    obtain ⟨lb, lc, hh, hl, hb, hc⟩ := ctorTail_log ctx n node args st
    apply shape_tail (.ctor n) (by intro h; cases h) node.fn.id st _ lb lc hh hl _ hc
    rcases hb with ⟨hd, e⟩ | ⟨hd, e⟩
    · exact Or.inl ⟨hd, e⟩
    · exact Or.inr ⟨hd, _, _, _, e⟩
  decoTail st d node args := by
    obtain ⟨lb, lc, hh, hl, hb, hc⟩ := decoTail_log ctx d node args st
    apply shape_tail (.deco d) (by intro h; cases h) node.fn.id st _ lb lc hh hl _ hc
    rcases hb with ⟨hd, e⟩ | ⟨hd, e⟩
    · exact Or.inl ⟨hd, e⟩
    · exact Or.inr ⟨hd, _, _, _, e⟩

/-- every resolver call appends a sequence of blocks -/
theorem buildList_shape (ctx : Ctx) (fuel : Nat) (ps : List Param) (c : Nat) (st : St) :
    Shape ctx.cfg.dry st (buildList ctx fuel ps c st).2 :=
  (engine_pres ctx (shape_leaf ctx) fuel).2.2.2.2.2 ps c st

/-- what an Invoke reports: blocks of the constructors and decorators it ran, then — only if all arguments
    were built — the two events of the invoked function (none in a DryRun container) -/
theorem apiInvoke_shape (ctx : Ctx) (fn : Fn) (st : St) (s : Nat) (info : Bool) (hlog : st.log = []) :
    ∃ l t, (apiInvoke ctx fn st s info).2.ev = l ++ t ∧ Blocks ctx.cfg.dry l ∧
      (t = [] ∨ (ctx.cfg.dry = false ∧ ∃ x args r, t = [.enter .invoked fn.id x args, .exit .invoked fn.id x r])) ∧
      ((apiInvoke ctx fn st s info).2.v = .ok → ctx.cfg.dry = false → t ≠ []) := by
  unfold apiInvoke
  split
  · exact ⟨[], [], rfl, Blocks.nil, Or.inl rfl, fun h => by cases h⟩
  · have hp := parseParams_log ctx.env st s fn
    cases hpp : parseParams ctx.env st s fn with
    | mk r w =>
      rw [hpp] at hp
      simp only at hp
      cases r with
      | error e => exact ⟨[], [], rfl, Blocks.nil, Or.inl rfl, fun h => by cases h⟩
      | ok params =>
        simp only
        have hs := shallowCheck_state s params w
        cases hsc : shallowCheck s params w with
        | mk r2 w2 =>
          rw [hsc] at hs
          simp only at hs
          subst hs
          cases r2 with
          | error f =>
            refine ⟨[], [], rfl, Blocks.nil, Or.inl rfl, ?_⟩
            intro h
            cases f <;> simp [failToVerdict] at h
          | ok u =>
            simp only
            split
            · rename_i v hchk
              refine ⟨[], [], rfl, Blocks.nil, Or.inl rfl, ?_⟩
              intro h
              simp only at h
              subst h
              split at hchk
              · cases hchk
              · split at hchk <;> cases hchk
            · rename_i w3 hchk
              have hw3 : w3.log = [] := by
                split at hchk
                · injection hchk with h; rw [← h, hp, hlog]
                · split at hchk
                  · injection hchk with h; rw [← h]; show w2.log = []; rw [hp, hlog]
                  · cases hchk
                  · cases hchk
              have hb := buildList_shape ctx (engineFuel w3 params) params s w3
              rw [← wrapErr_state _ DErr.argsFailed] at hb
              cases hbl : EM.wrapErr (buildList ctx (engineFuel w3 params) params s) DErr.argsFailed w3 with
              | mk r4 w4 =>
                rw [hbl] at hb
                obtain ⟨l, hl, _, hbk⟩ := hb
                simp only at hl
                rw [hw3, List.nil_append] at hl
                cases r4 with
                | error f =>
                  refine ⟨l, [], by simp [hl], hbk, Or.inl rfl, ?_⟩
                  intro h
                  cases f <;> simp [failToVerdict] at h
                | ok args =>
                  simp only
                  by_cases hd : ctx.cfg.dry = true
                  · rw [callBody_dry ctx hd]
                    exact ⟨l, [], by simp [hl], hbk, Or.inl rfl, fun _ h => by rw [hd] at h; cases h⟩
                  · have hnd : ctx.cfg.dry = false := by simpa using hd
                    rw [callBody_spec ctx hnd]
                    refine ⟨l, bodyEvents ctx .invoked fn args w4, ?_, hbk, Or.inr ⟨hnd, _, _, _, rfl⟩, ?_⟩
                    · simp [afterBody, hl]
                    · intro _ _ h; cases h


/-! ### reading the shape by position -/

def Event.who : Event → Who
  | .enter w _ _ _ => w
  | .exit w _ _ _ => w
  | .cb _ w _ _ _ => w

theorem Block.who {dry : Bool} {b : List Event} (h : Block dry b) : ∀ e ∈ b, e.who ≠ .invoked := by
  cases h with
  | body w f x args r hw _ => intro e he; simp at he; rcases he with rfl | rfl <;> exact hw
  | bodyCb w f x args r op err rt hw _ => intro e he; simp at he; rcases he with rfl | rfl | rfl <;> exact hw
  | cbOnly op w f err rt hw _ => intro e he; simp at he; subst he; exact hw

theorem Blocks.who {dry : Bool} {l : List Event} (h : Blocks dry l) : ∀ e ∈ l, e.who ≠ .invoked := by
  induction h with
  | nil => intro e he; cases he
  | cons hb _ ih =>
    intro e he
    rcases List.mem_append.mp he with h | h
    · exact hb.who e h
    · exact ih e h

/-- a callback event sits directly behind the exit event of the same node and function -/
theorem Blocks.cb_after_exit {l : List Event} (h : Blocks false l) :
    ∀ i op w f err rt, l[i]? = some (.cb op w f err rt) → ∃ x r, 0 < i ∧ l[i - 1]? = some (.exit w f x r) := by
  induction h with
  | nil => intro i op w f err rt hi; simp at hi
  | @cons b l hb _ ih =>
    intro i op w f err rt hi
    by_cases hlt : i < b.length
    · rw [List.getElem?_append_left hlt] at hi
      cases hb with
      | body w' f' x args r _ _ =>
        have : i = 0 ∨ i = 1 := by simp at hlt; omega
        rcases this with rfl | rfl <;> simp at hi
      | bodyCb w' f' x args r op' err' rt' _ _ =>
        have : i = 0 ∨ i = 1 ∨ i = 2 := by simp at hlt; omega
        rcases this with rfl | rfl | rfl
        · simp at hi
        · simp at hi
        · simp at hi
          obtain ⟨_, rfl, rfl, _, _⟩ := hi
          exact ⟨x, r, by omega, by simp⟩
      | cbOnly _ _ _ _ _ _ hd => cases hd
    · have hge : b.length ≤ i := by omega
      rw [List.getElem?_append_right hge] at hi
      obtain ⟨x, r, hpos, hprev⟩ := ih _ op w f err rt hi
      refine ⟨x, r, by omega, ?_⟩
      rw [List.getElem?_append_right (by omega)]
      have : i - 1 - b.length = i - b.length - 1 := by omega
      rw [this]; exact hprev

/-- executions do not nest: an enter event is directly followed by the exit event of the same execution -/
theorem Blocks.exit_after_enter {dry : Bool} {l : List Event} (h : Blocks dry l) :
    ∀ i w f x args, l[i]? = some (.enter w f x args) → ∃ r, l[i + 1]? = some (.exit w f x r) := by
  induction h with
  | nil => intro i w f x args hi; simp at hi
  | @cons b l hb _ ih =>
    intro i w f x args hi
    by_cases hlt : i < b.length
    · rw [List.getElem?_append_left hlt] at hi
      cases hb with
      | body w' f' x' args' r _ _ =>
        have : i = 0 ∨ i = 1 := by simp at hlt; omega
        rcases this with rfl | rfl
        · simp at hi
          obtain ⟨rfl, rfl, rfl, _⟩ := hi
          exact ⟨r, by simp⟩
        · simp at hi
      | bodyCb w' f' x' args' r op' err' rt' _ _ =>
        have : i = 0 ∨ i = 1 ∨ i = 2 := by simp at hlt; omega
        rcases this with rfl | rfl | rfl
        · simp at hi
          obtain ⟨rfl, rfl, rfl, _⟩ := hi
          exact ⟨r, by simp⟩
        · simp at hi
        · simp at hi
      | cbOnly _ _ _ _ _ _ _ =>
        have : i = 0 := by simp at hlt; omega
        subst this; simp at hi
    · have hge : b.length ≤ i := by omega
      rw [List.getElem?_append_right hge] at hi
      obtain ⟨r, hnext⟩ := ih _ w f x args hi
      refine ⟨r, ?_⟩
      rw [List.getElem?_append_right (by omega)]
      have : i + 1 - b.length = i - b.length + 1 := by omega
      rw [this]; exact hnext

end Dig
