import DigModel.State
/- association-list lemmas (Go map semantics) -/
namespace Dig

theorem aget_aset_self {β : Type} (l : List (Key × β)) (k : Key) (v : β) : aget (aset l k v) k = some v := by
  induction l with
  | nil => simp [aset, aget]
  | cons p rest ih =>
    obtain ⟨k', v'⟩ := p
    simp only [aset]
    by_cases h : (k' == k) = true
    · simp [h, aget]
    · simp [h, aget, ih]

theorem aget_aset_other {β : Type} (l : List (Key × β)) (k k' : Key) (v : β) (hne : k' ≠ k) :
    aget (aset l k v) k' = aget l k' := by
  induction l with
  | nil =>
    simp only [aset, aget]
    have : (k == k') = false := by simpa using fun h => hne h.symm
    simp [this]
  | cons p rest ih =>
    obtain ⟨k1, v1⟩ := p
    simp only [aset]
    by_cases h : (k1 == k) = true
    · have e : k1 = k := by simpa using h
      subst e
      have : (k1 == k') = false := by simpa using fun h => hne h.symm
      simp [h, aget, this]
    · have hf : (k1 == k) = false := by simpa using h
      simp only [hf]
      by_cases h2 : (k1 == k') = true
      · simp [aget, h2]
      · simp [aget, h2, ih]

theorem aget_aset {β : Type} (l : List (Key × β)) (k k' : Key) (v : β) :
    aget (aset l k v) k' = if k' = k then some v else aget l k' := by
  by_cases h : k' = k
  · subst h; simp [aget_aset_self]
  · simp [h, aget_aset_other l k k' v h]

/-- registering keys one by one never touches other keys -/
theorem foldl_aset_other (keys : List Key) (d : Nat) (m : List (Key × Nat)) (k : Key) (hk : k ∉ keys) :
    aget (keys.foldl (fun m k => aset m k d) m) k = aget m k := by
  induction keys generalizing m with
  | nil => rfl
  | cons x xs ih =>
    simp only [List.foldl_cons]
    rw [ih _ (fun h => hk (by simp [h]))]
    exact aget_aset_other m x k d (fun h => hk (by simp [h]))


end Dig
