import DigModel.Proofs.Lookup
/- the shape of `paramGroupedSlice.Build` when nothing on the path decorates the group -/
namespace Dig

theorem forEachM_fixed {α : Type} (xs : List α) (f : α → EM Unit) (st : St)
    (h : ∀ x ∈ xs, f x st = (.ok (), st)) : forEachM xs f st = (.ok (), st) := by
  induction xs with
  | nil => rfl
  | cons x rest ih =>
    simp only [forEachM, EM.bind, h x (by simp)]
    exact ih (fun y hy => h y (by simp [hy]))

theorem findDecoratedGroup_none (st : St) (k : Key) (anc : List Nat)
    (h : ∀ s ∈ anc, aget (st.scope s).decoratedGroups k = none) : findDecoratedGroup st k anc = none := by
  induction anc with
  | nil => rfl
  | cons s rest ih =>
    simp only [findDecoratedGroup, h s (by simp)]
    exact ih (fun y hy => h y (by simp [hy]))

/-- the shape of `paramGroupedSlice.Build` when nothing on the path decorates the group -/
theorem buildGroup_undecorated (ctx : Ctx) (fuel : Nat) (k : Key) (soft : Bool) (c : Nat) (st : St)
    (hd : ∀ s ∈ st.ancestors c, aget (st.scope s).decorators k = none)
    (hg : ∀ s ∈ st.ancestors c, aget (st.scope s).decoratedGroups k = none) :
    buildGroup ctx (fuel + 1) k soft c st =
      EM.bind
        (if soft then EM.pure () else
          forEachM (st.ancestors c) fun s => fun st3 =>
            forEachM (agetL (st3.scope s).providers k)
              (fun n => fun st4 => EM.wrapErr (callCtor ctx fuel n (st4.ctor n).origS)
                (.paramGroup k (ctorId ctx.sameIds (st4.ctor n).fn)) st4) st3)
        (fun _ => fun st5 => (.ok (Val.sl ((st.ancestors c).flatMap fun s => agetL (st5.scope s).groups k)), st5)) st := by
  simp only [buildGroup]
  generalize hL : forEachM (st.ancestors c).reverse _ = L
  have h1 : L st = (.ok (), st) := by
    subst hL
    apply forEachM_fixed
    intro s hs
    simp only [hd s (by simpa using hs)]
  simp only [EM.bind, h1, findDecoratedGroup_none st k _ hg]


end Dig
