import DigModel.Proofs.Deps
import DigModel.Proofs.RootCause
/-
  "A failure of the resolver is real": when the resolution stage of an Invoke fails with *missing type* there is a
  required (non-optional, single) parameter — of the invoked function or of a constructor or decorator reachable from
  it — for which no constructor is visible from the scope it is looked up from; when it fails with *cycle* there is a
  node that is needed to build its own arguments (a dependency cycle, decorators' parameters included).  Hence, with
  `invokeRun_allOk`: if every required dependency in the closure has a visible constructor, the closure has no
  dependency cycle and no user function fails, the resolution succeeds.

  The induction over the six resolver functions carries a pre-condition on the on-stack marks (`Stk`: whatever is
  being built is needed, transitively, by every constructor whose arguments are being built) and a post-condition
  (`AvPost`: the registry is the same, the marks are as before, an `error` has a real root cause).
-/
namespace Dig

def nodeParams (st : St) : Who → List Param
  | .ctor n => (st.ctor n).params
  | .deco d => (st.deco d).params
  | .invoked => []

/-- the scope the arguments of a node are built from -/
def nodeView (st : St) : Who → Nat
  | .ctor n => (st.ctor n).origS
  | .deco d => (st.deco d).s
  | .invoked => 0

/-- `w'` may be run while the arguments of `w` are built -/
def Below (st : St) (w w' : Who) : Prop := ∃ l ∈ leavesL (nodeParams st w), Reach st (nodeView st w) l w'

/-- the scopes from which the required parameters of a node are looked up: a constructor's own scope; for a decorator
    its scope and (`shallowCheckDependencies`) any scope that lists it -/
def CheckedFrom (st : St) : Who → Nat → Prop
  | .ctor n, c => c = (st.ctor n).origS
  | .deco d, c => c = (st.deco d).s ∨ ∃ k, aget (st.scope c).decorators k = some d
  | .invoked, _ => False

/-- node `w` has the required single parameter `k`, looked up from scope `c` -/
def ReqNode (st : St) (w : Who) (c : Nat) (k : Key) : Prop := k ∈ reqSinglesL (nodeParams st w) ∧ CheckedFrom st w c

/-- what a root cause says is true of the registry `st0`; `T` = the nodes the task may run, `D` = the task's own
    required keys -/
structure RealRoot (st0 : St) (T : Who → Prop) (D : Nat → Key → Prop) (r : DErr) : Prop where
  cyc : ∀ p s, r = .cycle p s → ∃ w, T w ∧ Below st0 w w
  mis : ∀ ks, r = .missingTypes ks → ks ≠ [] ∧
    ∀ k ∈ ks, ∃ c, st0.allProviders c k = [] ∧ (D c k ∨ ∃ w, T w ∧ ReqNode st0 w c k)

theorem RealRoot.mono {st0 : St} {T T' : Who → Prop} {D D' : Nat → Key → Prop} {r : DErr} (h : RealRoot st0 T' D' r)
    (hT : ∀ w, T' w → T w) (hD : ∀ c k, D' c k → D c k ∨ ∃ w, T w ∧ ReqNode st0 w c k) : RealRoot st0 T D r where
  cyc p s hr := by obtain ⟨w, hw, hb⟩ := h.cyc p s hr; exact ⟨w, hT w hw, hb⟩
  mis ks hr := by
    obtain ⟨hne, hall⟩ := h.mis ks hr
    refine ⟨hne, fun k hk => ?_⟩
    obtain ⟨c, hp, hd⟩ := hall k hk
    refine ⟨c, hp, ?_⟩
    rcases hd with hd | ⟨w, hw, hq⟩
    · exact hD c k hd
    · exact Or.inr ⟨w, hT w hw, hq⟩

theorem realRoot_other {st0 : St} {T : Who → Prop} {D : Nat → Key → Prop} {r : DErr}
    (h1 : ∀ p s, r ≠ .cycle p s) (h2 : ∀ ks, r ≠ .missingTypes ks) : RealRoot st0 T D r :=
  ⟨fun p s hr => absurd hr (h1 p s), fun ks hr => absurd hr (h2 ks)⟩

/-- what the resolver may return as an `error`: its root cause is real, and the optional-parameter rule of
    `paramSingle.Build` (which looks for `errMissingDependencies` in the chain) fires only for a missing type -/
def ErrOK (st0 : St) (T : Who → Prop) (D : Nat → Key → Prop) (e : DErr) : Prop :=
  RealRoot st0 T D e.rootCause ∧ (e.hasMissingDeps = true → ∃ ks, e.rootCause = .missingTypes ks)

theorem ErrOK.mono {st0 : St} {T T' : Who → Prop} {D D' : Nat → Key → Prop} {e : DErr} (h : ErrOK st0 T' D' e)
    (hT : ∀ w, T' w → T w) (hD : ∀ c k, D' c k → D c k ∨ ∃ w, T w ∧ ReqNode st0 w c k) : ErrOK st0 T D e :=
  ⟨h.1.mono hT hD, h.2⟩

/-! ### the on-stack marks -/

def SameStk (a b : St) : Prop := ∀ m, (b.ctor m).onStack = (a.ctor m).onStack

theorem SameStk.refl (a : St) : SameStk a a := fun _ => rfl
theorem SameStk.trans {a b c : St} (h1 : SameStk a b) (h2 : SameStk b c) : SameStk a c := fun m => (h2 m).trans (h1 m)
theorem SameStk.of_ctors {a b : St} (h : b.ctors = a.ctors) : SameStk a b := fun m => by simp [St.ctor, h]

/-- every constructor whose arguments are being built needs, transitively, whatever the task may run -/
def Stk (st0 st : St) (T : Who → Prop) : Prop :=
  ∀ m, (st.ctor m).onStack = true → ∀ w, T w → Below st0 (.ctor m) w

theorem Stk.same {st0 st s : St} {T : Who → Prop} (h : Stk st0 st T) (hs : SameStk st s) : Stk st0 s T :=
  fun m hm w hw => h m (by rw [← hs m]; exact hm) w hw

theorem Stk.mono {st0 st : St} {T T' : Who → Prop} (h : Stk st0 st T) (hT : ∀ w, T' w → T w) : Stk st0 st T' :=
  fun m hm w hw => h m hm w (hT w hw)

/-! ### the post-condition and its combinators -/

def AvPost (st0 : St) (T : Who → Prop) (D : Nat → Key → Prop) (st : St) {α : Type} (r : Except Fail α × St) : Prop :=
  RegFrame st0 r.2 ∧ SameStk st r.2 ∧ ∀ e, r.1 = .error (.err e) → ErrOK st0 T D e

section
variable {st0 : St} {T : Who → Prop} {D : Nat → Key → Prop}

theorem avp_ok {st : St} {α : Type} (h0 : RegFrame st0 st) (a : α) :
    AvPost st0 T D st ((.ok a, st) : Except Fail α × St) :=
  ⟨h0, SameStk.refl st, fun e he => by cases he⟩

theorem avp_fail {st : St} {α : Type} (h0 : RegFrame st0 st) (f : Fail) (hf : ∀ e, f ≠ .err e) :
    AvPost st0 T D st ((.error f, st) : Except Fail α × St) :=
  ⟨h0, SameStk.refl st, fun e he => by simp only [Except.error.injEq] at he; exact absurd he (hf e)⟩

theorem avp_err {st : St} {α : Type} (h0 : RegFrame st0 st) (e : DErr) (hr : ErrOK st0 T D e) :
    AvPost st0 T D st ((.error (.err e), st) : Except Fail α × St) :=
  ⟨h0, SameStk.refl st, fun e' he => by
    simp only [Except.error.injEq, Fail.err.injEq] at he; subst he; exact hr⟩

theorem AvPost.mono {T' : Who → Prop} {D' : Nat → Key → Prop} {st : St} {α : Type} {r : Except Fail α × St}
    (h : AvPost st0 T' D' st r) (hT : ∀ w, T' w → T w) (hD : ∀ c k, D' c k → D c k ∨ ∃ w, T w ∧ ReqNode st0 w c k) :
    AvPost st0 T D st r := ⟨h.1, h.2.1, fun e he => (h.2.2 e he).mono hT hD⟩

theorem AvPost.anchor {st s : St} {α : Type} {r : Except Fail α × St} (hs : SameStk st s) (h : AvPost st0 T D s r) :
    AvPost st0 T D st r := ⟨h.1, hs.trans h.2.1, h.2.2⟩

theorem avp_bind {α β : Type} {m : EM α} {f : α → EM β} (st : St)
    (hm : AvPost st0 T D st (m st)) (hf : ∀ a s, RegFrame st0 s → SameStk st s → AvPost st0 T D s (f a s)) :
    AvPost st0 T D st (EM.bind m f st) := by
  unfold EM.bind
  obtain ⟨r1, k1, e1⟩ := hm
  cases h : m st with
  | mk r s' =>
    rw [h] at r1 k1 e1
    cases r with
    | ok a =>
      obtain ⟨r2, k2, e2⟩ := hf a s' r1 k1
      exact ⟨r2, k1.trans k2, e2⟩
    | error e =>
      exact ⟨r1, k1, fun e' he => e1 e' (by simp only [Except.error.injEq] at he ⊢; exact he)⟩

theorem avp_wrapErr {α : Type} {m : EM α} (w : DErr → DErr) (hw : ∀ e, (w e).rootCause = e.rootCause)
    (hmd : ∀ e, (w e).hasMissingDeps = e.hasMissingDeps) (st : St)
    (hm : AvPost st0 T D st (m st)) : AvPost st0 T D st (EM.wrapErr m w st) := by
  unfold EM.wrapErr
  obtain ⟨r1, k1, e1⟩ := hm
  cases h : m st with
  | mk r s' =>
    rw [h] at r1 k1 e1
    cases r with
    | ok a => exact ⟨r1, k1, e1⟩
    | error e =>
      cases e with
      | err e =>
        refine ⟨r1, k1, fun e' he => ?_⟩
        simp only [Except.error.injEq, Fail.err.injEq] at he
        subst he
        unfold ErrOK
        rw [hw, hmd]
        exact e1 e rfl
      | panic f x => exact ⟨r1, k1, e1⟩
      | bug => exact ⟨r1, k1, e1⟩
      | fuel => exact ⟨r1, k1, e1⟩

theorem avp_finally {α : Type} {m : EM α} {fin : St → St} (st st1 : St)
    (hm : AvPost st0 T D st1 (m st1)) (hfin : ∀ s, RegFrame s (fin s))
    (hstk : ∀ s, RegFrame st0 s → SameStk st1 s → SameStk st (fin s)) :
    AvPost st0 T D st (EM.finally_ m fin st1) := by
  unfold EM.finally_
  obtain ⟨r1, k1, e1⟩ := hm
  cases h : m st1 with
  | mk r s' =>
    rw [h] at r1 k1 e1
    exact ⟨r1.trans (hfin s'), hstk s' r1 k1, e1⟩

theorem avp_forEachM {α : Type} (st : St) (xs : List α) (f : α → EM Unit)
    (hf : ∀ x ∈ xs, ∀ s, RegFrame st0 s → SameStk st s → AvPost st0 T D s (f x s)) :
    ∀ s, RegFrame st0 s → SameStk st s → AvPost st0 T D s (forEachM xs f s) := by
  induction xs with
  | nil => intro s h0 _; unfold forEachM; exact avp_ok h0 _
  | cons x rest ih =>
    intro s h0 hk
    unfold forEachM
    exact avp_bind s (hf x (by simp) s h0 hk)
      (fun _ s2 hs2 hk2 => ih (fun y hy => hf y (by simp [hy])) s2 hs2 (hk.trans hk2))

theorem avp_firstM {α β : Type} (st : St) (xs : List α) (f : α → EM (Option β))
    (hf : ∀ x ∈ xs, ∀ s, RegFrame st0 s → SameStk st s → AvPost st0 T D s (f x s)) :
    ∀ s, RegFrame st0 s → SameStk st s → AvPost st0 T D s (firstM xs f s) := by
  induction xs with
  | nil => intro s h0 _; unfold firstM; exact avp_ok h0 _
  | cons x rest ih =>
    intro s h0 hk
    unfold firstM
    refine avp_bind s (hf x (by simp) s h0 hk) ?_
    intro r s2 hs2 hk2
    cases r with
    | none => exact ih (fun y hy => hf y (by simp [hy])) s2 hs2 (hk.trans hk2)
    | some b => exact avp_ok hs2 _

theorem avp_mapM {α β : Type} (st : St) (xs : List α) (f : α → EM β)
    (hf : ∀ x ∈ xs, ∀ s, RegFrame st0 s → SameStk st s → AvPost st0 T D s (f x s)) :
    ∀ s, RegFrame st0 s → SameStk st s → AvPost st0 T D s (mapM' xs f s) := by
  induction xs with
  | nil => intro s h0 _; unfold mapM'; exact avp_ok h0 _
  | cons x rest ih =>
    intro s h0 hk
    unfold mapM'
    refine avp_bind s (hf x (by simp) s h0 hk) ?_
    intro b s2 hs2 hk2
    refine avp_bind s2 (ih (fun y hy => hf y (by simp [hy])) s2 hs2 (hk.trans hk2)) ?_
    intro bs s3 hs3 _
    exact avp_ok hs3 _

end

/-! ### leaf facts -/

theorem regFrame_allProviders {a b : St} (h : RegFrame a b) (c : Nat) (k : Key) :
    a.allProviders c k = b.allProviders c k := by
  unfold St.allProviders
  rw [regFrame_ancestors h c]
  congr 1
  funext s
  rw [(h.2.1 s).2.2.1]

theorem mem_missingOf (st : St) (c : Nat) (k : Key) (p : Param) :
    k ∈ missingOf st c p → k ∈ reqSingles p ∧ st.allProviders c k = [] := by
  apply missingOf.induct st c (motive_1 := fun p => k ∈ missingOf st c p → k ∈ reqSingles p ∧ st.allProviders c k = [])
    (motive_2 := fun ps => k ∈ missingOfList st c ps → k ∈ reqSinglesL ps ∧ st.allProviders c k = [])
  · intro k' opt hc hk
    simp only [missingOf, hc, if_true, List.mem_singleton] at hk
    subst hk
    simp only [Bool.and_eq_true, List.isEmpty_iff, Bool.not_eq_true'] at hc
    exact ⟨by simp [reqSingles, hc.2], hc.1.1⟩
  · intro k' opt hc hk
    simp only [missingOf, hc] at hk
    simp at hk
  · intro ty k' soft pg hk; simp [missingOf] at hk
  · intro ty fs ih hk
    simp only [missingOf] at hk
    simp only [reqSingles]
    exact ih hk
  · intro hk; simp [missingOfList] at hk
  · intro p ps ih1 ih2 hk
    simp only [missingOfList, List.mem_append] at hk
    simp only [reqSinglesL, List.mem_append]
    rcases hk with hk | hk
    · exact ⟨Or.inl (ih1 hk).1, (ih1 hk).2⟩
    · exact ⟨Or.inr (ih2 hk).1, (ih2 hk).2⟩

theorem mem_missingOfList (st : St) (c : Nat) (k : Key) : ∀ ps,
    k ∈ missingOfList st c ps → k ∈ reqSinglesL ps ∧ st.allProviders c k = []
  | [] => by intro hk; simp [missingOfList] at hk
  | p :: ps => by
    intro hk
    simp only [missingOfList, List.mem_append] at hk
    simp only [reqSinglesL, List.mem_append]
    rcases hk with hk | hk
    · exact ⟨Or.inl (mem_missingOf st c k p hk).1, (mem_missingOf st c k p hk).2⟩
    · exact ⟨Or.inr (mem_missingOfList st c k ps hk).1, (mem_missingOfList st c k ps hk).2⟩

theorem avp_shallowCheck {st0 st : St} {T : Who → Prop} {D : Nat → Key → Prop} (h0 : RegFrame st0 st) (c : Nat)
    (ps : List Param) (hreq : ∀ k ∈ reqSinglesL ps, D c k ∨ ∃ w, T w ∧ ReqNode st0 w c k) :
    AvPost st0 T D st (shallowCheck c ps st) := by
  unfold shallowCheck
  cases hm : missingOfList st c ps with
  | nil => exact avp_ok h0 _
  | cons k0 ks0 =>
    refine avp_err h0 _ ⟨?_, fun _ => ⟨_, rfl⟩⟩
    constructor
    · intro p s hr; simp [DErr.rootCause] at hr
    · intro ks hr
      simp only [DErr.rootCause, DErr.missingTypes.injEq] at hr
      subst hr
      refine ⟨by simp, fun k hk => ?_⟩
      rw [← hm] at hk
      obtain ⟨h1, h2⟩ := mem_missingOfList st c k ps hk
      exact ⟨c, by rw [regFrame_allProviders h0]; exact h2, hreq k h1⟩

theorem ctorOutcome_root (ctx : Ctx) (f : Nat) (r : BodyRes) (e : DErr) (h : (ctorOutcome ctx f r).1 = .error (.err e)) :
    (∀ p s, e.rootCause ≠ .cycle p s) ∧ (∀ ks, e.rootCause ≠ .missingTypes ks) ∧ e.hasMissingDeps = false := by
  unfold ctorOutcome at h
  cases r with
  | dry => simp at h
  | ok x l => simp at h
  | err x o =>
    simp only [Except.error.injEq, Fail.err.injEq] at h; subst h
    exact ⟨fun p s hh => by simp [DErr.rootCause] at hh, fun ks hh => by simp [DErr.rootCause] at hh,
        by simp [DErr.hasMissingDeps, DErr.chain]⟩
  | panic x =>
    simp only at h
    split at h
    · simp only [Except.error.injEq, Fail.err.injEq] at h; subst h
      exact ⟨fun p s hh => by simp [DErr.rootCause] at hh, fun ks hh => by simp [DErr.rootCause] at hh,
        by simp [DErr.hasMissingDeps, DErr.chain]⟩
    · simp at h

theorem decoOutcome_root (ctx : Ctx) (f : Nat) (r : BodyRes) (e : DErr) (h : (decoOutcome ctx f r).1 = .error (.err e)) :
    (∀ p s, e.rootCause ≠ .cycle p s) ∧ (∀ ks, e.rootCause ≠ .missingTypes ks) ∧ e.hasMissingDeps = false := by
  unfold decoOutcome at h
  cases r with
  | dry => simp at h
  | ok x l => simp at h
  | err x o =>
    simp only [Except.error.injEq, Fail.err.injEq] at h; subst h
    exact ⟨fun p s hh => by simp [DErr.rootCause] at hh, fun ks hh => by simp [DErr.rootCause] at hh,
        by simp [DErr.hasMissingDeps, DErr.chain]⟩
  | panic x =>
    simp only at h
    split at h
    · simp only [Except.error.injEq, Fail.err.injEq] at h; subst h
      exact ⟨fun p s hh => by simp [DErr.rootCause] at hh, fun ks hh => by simp [DErr.rootCause] at hh,
        by simp [DErr.hasMissingDeps, DErr.chain]⟩
    · simp at h

theorem avp_ctorTail {st0 st : St} {T : Who → Prop} {D : Nat → Key → Prop} (ctx : Ctx) (h0 : RegFrame st0 st) (n : Nat)
    (node : CtorNode) (args : List Val) : AvPost st0 T D st (ctorTail ctx n node args st) := by
  refine ⟨h0.trans (regFrame_ctorTail ctx st n node args), ?_, ?_⟩
  · intro m
    rw [ctorTail_ctor]
    split <;> rfl
  · intro e he
    obtain ⟨h1, h2, h3⟩ := ctorOutcome_root ctx node.fn.id _ e he
    exact ⟨realRoot_other h1 h2, fun hh => by rw [h3] at hh; cases hh⟩

theorem avp_decoTail {st0 st : St} {T : Who → Prop} {D : Nat → Key → Prop} (ctx : Ctx) (h0 : RegFrame st0 st) (d : Nat)
    (node : DecoNode) (args : List Val) : AvPost st0 T D st (decoTail ctx d node args st) := by
  refine ⟨h0.trans (regFrame_decoTail ctx st d node args), SameStk.of_ctors (decoTail_ctors ctx d node args st), ?_⟩
  intro e he
  obtain ⟨h1, h2, h3⟩ := decoOutcome_root ctx node.fn.id _ e he
  exact ⟨realRoot_other h1 h2, fun hh => by rw [h3] at hh; cases hh⟩

theorem avp_providerStep {st0 st : St} {T : Who → Prop} {D : Nat → Key → Prop} (env : TyEnv) (k : Key) (opt : Bool)
    (cid : Nat) (r : Except Fail Unit × St) (h : AvPost st0 T D st r) : AvPost st0 T D st (providerStep env k opt cid r) := by
  obtain ⟨r1, k1, e1⟩ := h
  unfold providerStep
  cases r with
  | mk x s2 =>
    cases x with
    | ok u => exact ⟨r1, k1, fun e he => by cases he⟩
    | error f =>
      cases f with
      | err e =>
        simp only
        split
        · exact ⟨r1, k1, fun e he => by cases he⟩
        · refine ⟨r1, k1, fun e' he => ?_⟩
          simp only [Except.error.injEq, Fail.err.injEq] at he
          subst he
          have := e1 e rfl
          unfold ErrOK at this ⊢
          rw [hmd_paramSingle]
          exact this
      | panic f x => exact ⟨r1, k1, fun e he => by cases he⟩
      | bug => exact ⟨r1, k1, fun e he => by cases he⟩
      | fuel => exact ⟨r1, k1, fun e he => by cases he⟩

theorem allProviders_nil_of (st : St) (c : Nat) (k : Key)
    (h : ∀ s ∈ st.ancestors c, agetL (st.scope s).providers k = []) : st.allProviders c k = [] := by
  unfold St.allProviders
  simp only [List.flatMap_eq_nil_iff]
  exact h

end Dig
