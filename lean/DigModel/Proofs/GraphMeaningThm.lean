import DigModel.Proofs.GraphMeaningApi
/-
  Cycles among constructors, as seen from a scope, and the answer of that scope's acyclicity check.
-/
namespace Dig

mutual
/-- keys of the plain (single) parameters of a parameter tree, at any depth of parameter objects -/
def pSingleKeys : Param → List Key
  | .single k _ => [k]
  | .grouped _ _ _ _ => []
  | .object _ fs => pSingleKeysL fs
def pSingleKeysL : List Param → List Key
  | [] => []
  | p :: ps => pSingleKeys p ++ pSingleKeysL ps
end

/-- as seen from scope `s`, constructor `n` depends directly on constructor `m`: one of `n`'s plain, named or optional
    parameters (possibly a field of a parameter object) has a key that `m` provides in `s` or in an ancestor of `s` -/
def DependsOn (st : St) (s n m : Nat) : Prop :=
  ∃ k ∈ pSingleKeysL (st.ctor n).params, m ∈ st.allProviders s k

theorem mem_pOrders_of_single (st : St) (s : Nat) (p : Param) :
    ∀ k ∈ pSingleKeys p, ∀ m ∈ st.allProviders s k, orderOf (st.ctor m).orders s ∈ paramOrders st s p := by
  apply paramOrders.induct (motive_2 := fun p => ∀ k ∈ pSingleKeys p, ∀ m ∈ st.allProviders s k,
      orderOf (st.ctor m).orders s ∈ paramOrders st s p)
    (motive_1 := fun ps => ∀ k ∈ pSingleKeysL ps, ∀ m ∈ st.allProviders s k,
      orderOf (st.ctor m).orders s ∈ paramOrders.paramOrdersList st s ps)
  · intro k opt k' hk m hm
    simp only [pSingleKeys, List.mem_singleton] at hk
    subst hk
    simp only [paramOrders, List.mem_map]
    exact ⟨m, hm, rfl⟩
  · intro ty g soft pg k hk
    simp [pSingleKeys] at hk
  · intro ty fs ih k hk m hm
    simp only [pSingleKeys] at hk
    simp only [paramOrders]
    exact ih k hk m hm
  · intro k hk
    simp [pSingleKeysL] at hk
  · intro p ps ihp ihps k hk m hm
    simp only [pSingleKeysL, List.mem_append] at hk
    simp only [paramOrders.paramOrdersList, List.mem_append]
    rcases hk with hk | hk
    · exact Or.inl (ihp k hk m hm)
    · exact Or.inr (ihps k hk m hm)

theorem mem_pOrdersList_of_single (st : St) (s : Nat) : ∀ (ps : List Param),
    ∀ k ∈ pSingleKeysL ps, ∀ m ∈ st.allProviders s k, orderOf (st.ctor m).orders s ∈ paramOrders.paramOrdersList st s ps := by
  intro ps
  induction ps with
  | nil => intro k hk; simp [pSingleKeysL] at hk
  | cons p ps ih =>
    intro k hk m hm
    simp only [pSingleKeysL, List.mem_append] at hk
    simp only [paramOrders.paramOrdersList, List.mem_append]
    rcases hk with hk | hk
    · exact Or.inl (mem_pOrders_of_single st s p k hk m hm)
    · exact Or.inr (ih k hk m hm)

/-- the position of a constructor's node in the holder of `s` -/
def posOf (st : St) (s n : Nat) : Nat := nodeOrder st (.ctor n) s

/-- a dependency between constructors is an edge between their positions in the holder -/
theorem dependsOn_edge {st : St} (h : GM0 st) (s n m : Nat) (hn : GNode.ctor n ∈ (st.scope s).gh) (hd : DependsOn st s n m) :
    posOf st s m ∈ edgesFrom st s (posOf st s n) := by
  obtain ⟨k, hk, hm⟩ := hd
  have hp := h.pos s (.ctor n) hn
  unfold edgesFrom
  show posOf st s m ∈ match (st.scope s).gh[nodeOrder st (.ctor n) s]? with
    | some (.ctor n) => paramOrders.paramOrdersList st s (st.ctor n).params
    | some (.pg i) => _
    | none => []
  rw [hp]
  exact mem_pOrdersList_of_single st s _ k hk m hm

/-- a chain of direct dependencies -/
def DepChain (st : St) (s : Nat) : List Nat → Prop
  | [] => True
  | [_] => True
  | a :: b :: rest => DependsOn st s a b ∧ DepChain st s (b :: rest)

theorem depChain_walk {st : St} (h : GM0 st) (s : Nat) (hs : s < st.scopes.length) : ∀ (l : List Nat),
    (∀ n ∈ l, GNode.ctor n ∈ (st.scope s).gh) → DepChain st s l → Dfs.IsWalk (edgesFrom st s) (l.map (posOf st s)) := by
  intro l
  induction l with
  | nil => intro _ _; trivial
  | cons a rest ih =>
    intro hin hc
    cases rest with
    | nil => trivial
    | cons b rest' =>
      simp only [List.map_cons, Dfs.IsWalk]
      obtain ⟨hd, hc'⟩ := hc
      exact ⟨dependsOn_edge h s a b (hin a (by simp)) hd, ih (fun n hn => hin n (by simp [hn])) hc'⟩

/-- **a dependency cycle among constructors, seen from a scope, is found by that scope's check**: if, as seen from `s`,
    `n₀` depends on `n₁`, …, `n_r` depends on `n₀` (through plain, named or optional parameters at any depth of parameter
    objects, providers in `s` or any ancestor), all of them being nodes of `s`'s holder, then `graph.IsAcyclic`
    of that holder reports a cycle -/
theorem cycle_is_found {st : St} (h : GM0 st) (ho : OB st) (s : Nat) (hs : s < st.scopes.length) (a : Nat) (l : List Nat)
    (hl : l ≠ []) (hin : ∀ n ∈ a :: l, GNode.ctor n ∈ (st.scope s).gh) (hc : DepChain st s (a :: l))
    (hclosed : (a :: l).getLast (by simp) = a) : ∃ p, checkAcyclic st s = .cycle p := by
  have hrange : ∀ u, u < (st.scope s).gh.length → ∀ v ∈ edgesFrom st s u, v < (st.scope s).gh.length := by
    intro u hu v hv
    rcases edgesFrom_bnd ho s u v hv with h0 | h1
    · omega
    · exact h1
  have hw := depChain_walk h s hs (a :: l) hin hc
  have hpos : ∀ x ∈ (a :: l).map (posOf st s), x < (st.scope s).gh.length := by
    intro x hx
    simp only [List.mem_map] at hx
    obtain ⟨n, hn, rfl⟩ := hx
    have hp := h.pos s (.ctor n) (hin n hn)
    rcases Nat.lt_or_ge (posOf st s n) (st.scope s).gh.length with h1 | h1
    · exact h1
    · have : (st.scope s).gh[nodeOrder st (.ctor n) s]? = none := by
        simp only [List.getElem?_eq_none_iff]; exact h1
      rw [this] at hp; cases hp
  have hlast : ((a :: l).map (posOf st s)).getLast (by simp) = posOf st s a := by
    rw [List.getLast_map]
    · rw [hclosed]
  simp only [List.map_cons] at hw hpos hlast
  obtain ⟨p, hp, _⟩ := Dfs.isAcyclic_complete (edgesFrom st s) (st.scope s).gh.length hrange (posOf st s a) (l.map (posOf st s))
    (by simpa using hl) hpos hw hlast
  refine ⟨p, ?_⟩
  have ht := checkAcyclic_total ho s
  unfold checkAcyclic at ht ⊢
  simp only at ht ⊢
  split
  · rename_i hany; rw [if_pos hany] at ht; exact absurd rfl ht.1
  · rw [hp]

end Dig
