import DigModel.Proofs.ParseWF
/-
  Every value-group parameter produced by the parser points at the graph-node descriptor the parser created for it
  (`PgOK`), and the parser only ever appends descriptors.
-/
namespace Dig

mutual
/-- the value-group parameters of `p` point at descriptors of index ≥ `lo` that describe them -/
def PgOK (lo : Nat) (descs : List PGDesc) : Param → Prop
  | .single _ _ => True
  | .grouped _ k _ pg => lo ≤ pg ∧ descs[pg]? = some { group := k.group, elem := k.ty }
  | .object _ fs => PgOKL lo descs fs
def PgOKL (lo : Nat) (descs : List PGDesc) : List Param → Prop
  | [] => True
  | p :: ps => PgOK lo descs p ∧ PgOKL lo descs ps
end

mutual
theorem PgOK.mono (lo lo' : Nat) (hlo : lo' ≤ lo) (descs x : List PGDesc) : ∀ (p : Param), PgOK lo descs p → PgOK lo' (descs ++ x) p
  | .single _ _, _ => trivial
  | .grouped _ k _ pg, h => by
    simp only [PgOK] at h ⊢
    have hlt : pg < descs.length := by
      rcases Nat.lt_or_ge pg descs.length with h1 | h1
      · exact h1
      · have : descs[pg]? = none := by simp; omega
        rw [this] at h; cases h.2
    rw [List.getElem?_append_left hlt]; exact ⟨by omega, h.2⟩
  | .object _ fs, h => by
    simp only [PgOK] at h ⊢
    exact PgOKL.mono lo lo' hlo descs x fs h
theorem PgOKL.mono (lo lo' : Nat) (hlo : lo' ≤ lo) (descs x : List PGDesc) : ∀ (ps : List Param), PgOKL lo descs ps → PgOKL lo' (descs ++ x) ps
  | [], _ => trivial
  | p :: ps, h => by
    simp only [PgOKL] at h ⊢
    exact ⟨PgOK.mono lo lo' hlo descs x p h.1, PgOKL.mono lo lo' hlo descs x ps h.2⟩
end

theorem newParamGroupedSlice_link (env : TyEnv) (m : FieldMeta) (t : GoT) (s s' : List PGDesc) (r : Except DErr Param)
    (h : newParamGroupedSlice env m t s = (r, s')) :
    (∃ x, s' = s ++ x) ∧ ∀ p, r = .ok p → PgOK s.length s' p := by
  unfold newParamGroupedSlice at h
  cases hg : parseGroupString m.tags.group with
  | error e => rw [hg] at h; simp only at h; injection h with h1 h2; subst h1; subst h2; exact ⟨⟨[], by simp⟩, fun p hp => by cases hp⟩
  | ok g =>
    rw [hg] at h
    simp only at h
    split at h
    · injection h with h1 h2; subst h1; subst h2; exact ⟨⟨[], by simp⟩, fun p hp => by cases hp⟩
    · split at h
      · injection h with h1 h2; subst h1; subst h2; exact ⟨⟨[], by simp⟩, fun p hp => by cases hp⟩
      · split at h
        · injection h with h1 h2; subst h1; subst h2; exact ⟨⟨[], by simp⟩, fun p hp => by cases hp⟩
        · split at h
          · injection h with h1 h2; subst h1; subst h2; exact ⟨⟨[], by simp⟩, fun p hp => by cases hp⟩
          · injection h with h1 h2
            subst h1; subst h2
            refine ⟨⟨_, rfl⟩, ?_⟩
            intro p hp
            injection hp with hp
            subst hp
            simp [PgOK]

mutual
theorem newParam_link (env : TyEnv) : ∀ (t : GoT) (s s' : List PGDesc) (r : Except DErr Param), newParam env t s = (r, s') →
    (∃ x, s' = s ++ x) ∧ ∀ p, r = .ok p → PgOK s.length s' p
  | .univ i, s, s', r, h => by
    simp only [newParam, PM.fail, PM.pure] at h
    split at h
    · injection h with h1 h2; subst h1; subst h2; exact ⟨⟨[], by simp⟩, fun p hp => by cases hp⟩
    · split at h
      · injection h with h1 h2; subst h1; subst h2; exact ⟨⟨[], by simp⟩, fun p hp => by cases hp⟩
      · split at h
        · injection h with h1 h2; subst h1; subst h2; exact ⟨⟨[], by simp⟩, fun p hp => by cases hp⟩
        · split at h
          · injection h with h1 h2; subst h1; subst h2; exact ⟨⟨[], by simp⟩, fun p hp => by cases hp⟩
          · injection h with h1 h2; subst h1; subst h2
            exact ⟨⟨[], by simp⟩, fun p hp => by injection hp with hp; subst hp; trivial⟩
  | .ptr i inner, s, s', r, h => by
    simp only [newParam, PM.fail, PM.pure] at h
    split at h
    · injection h with h1 h2; subst h1; subst h2; exact ⟨⟨[], by simp⟩, fun p hp => by cases hp⟩
    · split at h
      · injection h with h1 h2; subst h1; subst h2; exact ⟨⟨[], by simp⟩, fun p hp => by cases hp⟩
      · split at h
        · injection h with h1 h2; subst h1; subst h2; exact ⟨⟨[], by simp⟩, fun p hp => by cases hp⟩
        · injection h with h1 h2; subst h1; subst h2
          exact ⟨⟨[], by simp⟩, fun p hp => by injection hp with hp; subst hp; trivial⟩
  | .strct i fs, s, s', r, h => by
    simp only [newParam] at h
    split at h
    · simp only [PM.fail] at h; injection h with h1 h2; subst h1; subst h2; exact ⟨⟨[], by simp⟩, fun p hp => by cases hp⟩
    · split at h
      · cases hb : boolTag (if hasInField fs then findIgnoreTag fs else "") with
        | error e =>
          simp only [hb, PM.fail] at h
          injection h with h1 h2; subst h1; subst h2; exact ⟨⟨[], by simp⟩, fun p hp => by cases hp⟩
        | ok ignore =>
          simp only [hb] at h
          cases hf : newParamFields env ignore fs s with
          | mk r2 s2 =>
            rw [hf] at h
            obtain ⟨hx, hok⟩ := newParamFields_link env ignore fs s s2 r2 hf
            cases r2 with
            | error e => simp only at h; injection h with h1 h2; subst h1; subst h2; exact ⟨hx, fun p hp => by cases hp⟩
            | ok ps =>
              simp only at h
              injection h with h1 h2; subst h1; subst h2
              refine ⟨hx, ?_⟩
              intro p hp
              injection hp with hp; subst hp
              simp only [PgOK]
              exact hok ps rfl
      · split at h
        · simp only [PM.fail] at h; injection h with h1 h2; subst h1; subst h2; exact ⟨⟨[], by simp⟩, fun p hp => by cases hp⟩
        · simp only [PM.pure] at h; injection h with h1 h2; subst h1; subst h2
          exact ⟨⟨[], by simp⟩, fun p hp => by injection hp with hp; subst hp; trivial⟩
theorem newParamFields_link (env : TyEnv) (ignore : Bool) : ∀ (fs : List (FieldMeta × GoT)) (s s' : List PGDesc)
    (r : Except DErr (List Param)), newParamFields env ignore fs s = (r, s') →
    (∃ x, s' = s ++ x) ∧ ∀ ps, r = .ok ps → PgOKL s.length s' ps
  | [], s, s', r, h => by
    simp only [newParamFields, PM.pure] at h
    injection h with h1 h2; subst h1; subst h2
    exact ⟨⟨[], by simp⟩, fun ps hp => by injection hp with hp; subst hp; trivial⟩
  | f :: rest, s, s', r, h => by
    simp only [newParamFields] at h
    split at h
    · exact newParamFields_link env ignore rest s s' r h
    · split at h
      · exact newParamFields_link env ignore rest s s' r h
      · cases hf : newParamField env f s with
        | mk r1 s1 =>
          rw [hf] at h
          obtain ⟨⟨x1, hx1⟩, hok1⟩ := newParamField_link env f s s1 r1 hf
          cases r1 with
          | error e =>
            simp only at h; injection h with h1 h2; subst h1; subst h2
            exact ⟨⟨x1, hx1⟩, fun ps hp => by cases hp⟩
          | ok p =>
            simp only at h
            cases hr : newParamFields env ignore rest s1 with
            | mk r2 s2 =>
              rw [hr] at h
              obtain ⟨⟨x2, hx2⟩, hok2⟩ := newParamFields_link env ignore rest s1 s2 r2 hr
              cases r2 with
              | error e =>
                simp only at h; injection h with h1 h2; subst h1; subst h2
                exact ⟨⟨x1 ++ x2, by rw [hx2, hx1, List.append_assoc]⟩, fun ps hp => by cases hp⟩
              | ok ps' =>
                simp only at h
                injection h with h1 h2; subst h1; subst h2
                refine ⟨⟨x1 ++ x2, by rw [hx2, hx1, List.append_assoc]⟩, ?_⟩
                intro ps hp
                injection hp with hp; subst hp
                simp only [PgOKL]
                refine ⟨by rw [hx2]; exact PgOK.mono s.length s.length (Nat.le_refl _) s1 x2 p (hok1 p rfl), ?_⟩
                have := PgOKL.mono s1.length s.length (by rw [hx1]; simp) s2 [] ps' (hok2 ps' rfl)
                simpa using this
theorem newParamField_link (env : TyEnv) : ∀ (f : FieldMeta × GoT) (s s' : List PGDesc) (r : Except DErr Param),
    newParamField env f s = (r, s') → (∃ x, s' = s ++ x) ∧ ∀ p, r = .ok p → PgOK s.length s' p
  | (m, t), s, s', r, h => by
    simp only [newParamField] at h
    split at h
    · injection h with h1 h2; subst h1; subst h2; exact ⟨⟨[], by simp⟩, fun p hp => by cases hp⟩
    · split at h
      · exact newParamGroupedSlice_link env m t s s' r h
      · cases hp : newParam env t s with
        | mk r1 s1 =>
          rw [hp] at h
          obtain ⟨hx, hok⟩ := newParam_link env t s s1 r1 hp
          cases r1 with
          | error e => simp only at h; injection h with h1 h2; subst h1; subst h2; exact ⟨hx, fun p hp => by cases hp⟩
          | ok q =>
            cases q with
            | single k o =>
              simp only at h
              cases hb : boolTag m.tags.optional with
              | error e => simp only [hb] at h; injection h with h1 h2; subst h1; subst h2; exact ⟨hx, fun p hp => by cases hp⟩
              | ok b =>
                simp only [hb] at h; injection h with h1 h2; subst h1; subst h2
                exact ⟨hx, fun p hp => by injection hp with hp; subst hp; trivial⟩
            | grouped ty k soft pg =>
              simp only at h; injection h with h1 h2; subst h1; subst h2
              exact ⟨hx, fun p hp => by injection hp with hp; subst hp; exact hok _ rfl⟩
            | object ty fs =>
              simp only at h; injection h with h1 h2; subst h1; subst h2
              exact ⟨hx, fun p hp => by injection hp with hp; subst hp; exact hok _ rfl⟩
end

theorem newParamListAux_link (env : TyEnv) : ∀ (ts : List GoT) (s s' : List PGDesc) (r : Except DErr (List Param)),
    newParamListAux env ts s = (r, s') → (∃ x, s' = s ++ x) ∧ ∀ ps, r = .ok ps → PgOKL s.length s' ps
  | [], s, s', r, h => by
    simp only [newParamListAux, PM.pure] at h
    injection h with h1 h2; subst h1; subst h2
    exact ⟨⟨[], by simp⟩, fun ps hp => by injection hp with hp; subst hp; trivial⟩
  | t :: rest, s, s', r, h => by
    simp only [newParamListAux] at h
    cases hp : newParam env t s with
    | mk r1 s1 =>
      rw [hp] at h
      obtain ⟨⟨x1, hx1⟩, hok1⟩ := newParam_link env t s s1 r1 hp
      cases r1 with
      | error e =>
        simp only at h; injection h with h1 h2; subst h1; subst h2
        exact ⟨⟨x1, hx1⟩, fun ps hp => by cases hp⟩
      | ok p =>
        simp only at h
        cases hr : newParamListAux env rest s1 with
        | mk r2 s2 =>
          rw [hr] at h
          obtain ⟨⟨x2, hx2⟩, hok2⟩ := newParamListAux_link env rest s1 s2 r2 hr
          cases r2 with
          | error e =>
            simp only at h; injection h with h1 h2; subst h1; subst h2
            exact ⟨⟨x1 ++ x2, by rw [hx2, hx1, List.append_assoc]⟩, fun ps hp => by cases hp⟩
          | ok ps' =>
            simp only at h
            injection h with h1 h2; subst h1; subst h2
            refine ⟨⟨x1 ++ x2, by rw [hx2, hx1, List.append_assoc]⟩, ?_⟩
            intro ps hp
            injection hp with hp; subst hp
            simp only [PgOKL]
            refine ⟨by rw [hx2]; exact PgOK.mono s.length s.length (Nat.le_refl _) s1 x2 p (hok1 p rfl), ?_⟩
            have := PgOKL.mono s1.length s.length (by rw [hx1]; simp) s2 [] ps' (hok2 ps' rfl)
            simpa using this

end Dig
