import DigModel.Proofs.VSetApi
import DigModel.Proofs.CtxCongr
import DigModel.Proofs.AcycInv
/-
  DeferAcyclicVerification changes no outcome on histories in which the eager run never reports a cycle:
  a step-by-step simulation of the eager run by the deferring run, on containers equal up to the
  `isVerifiedAcyclic` flags.
-/
namespace Dig

theorem verifyScopes_eqV (cfg : Cfg) : ∀ (l : List Nat) (w : St), EqButVerified w (Dig.verifyScopes cfg l w).2 := by
  intro l
  induction l with
  | nil => intro w; exact ⟨rfl, rfl, rfl, rfl, rfl, rfl, rfl, rfl, fun _ => ⟨rfl, rfl, rfl, rfl, rfl, rfl, rfl, rfl, rfl, rfl⟩⟩
  | cons sc rest ih =>
    intro w
    have hm : ∀ (b : Bool) (v : St), EqButVerified v (v.modScope sc fun x => { x with verified := b }) := by
      intro b v
      refine ⟨rfl, rfl, rfl, rfl, rfl, rfl, rfl, by simp [St.modScope], fun j => ?_⟩
      rw [scope_modScope]
      split <;> exact ⟨rfl, rfl, rfl, rfl, rfl, rfl, rfl, rfl, rfl, rfl⟩
    simp only [Dig.verifyScopes]
    split
    · exact (hm false w).trans' (ih _)
    · split
      · exact ((hm false w).trans' (hm true _)).trans' (ih _)
      · exact hm false w

theorem checkAcyclic_eqV {a b : St} (h : EqButVerified a b) (s : Nat) : checkAcyclic b s = checkAcyclic a s :=
  ((graphSame_of_eqButVerified h).checkAcyclic s).symm

theorem engineFuel_vset (g : Nat → Bool) (st : St) (ps : List Param) : engineFuel (vset g st) ps = engineFuel st ps := rfl

/-- the resolution-and-call stage of Invoke on containers that differ by a reassignment of the flags -/
theorem invokeRun_vset (g : Nat → Bool) {ctx ctx' : Ctx} (hc : CtxSame ctx ctx') (fn : Fn) (params : List Param) (s : Nat)
    (info : Bool) (w : St) :
    invokeRun ctx' fn params s info (vset g w) =
      (vset g (invokeRun ctx fn params s info w).1, (invokeRun ctx fn params s info w).2) := by
  unfold invokeRun
  rw [engineFuel_vset, (engine_ctx hc _).2.2.2.2.2]
  have hb := comm_wrapErr g DErr.argsFailed ((comm_engine g ctx (engineFuel w params)).2.2.2.2.2 params s) w
  rw [hb]
  cases hbl : EM.wrapErr (buildList ctx (engineFuel w params) params s) DErr.argsFailed w with
  | mk r4 w4 =>
    cases r4 with
    | error f => rfl
    | ok args =>
      simp only
      rw [callBody_ctx hc, vset_callBody, hc.recover]
      cases callBody ctx .invoked fn args w4 with
      | mk r5 w5 => rfl

end Dig

namespace Dig

/-- Invoke on two containers equal up to the flags, the first of which has every view acyclic -/
theorem invoke_sim {a b : St} (hab : EqButVerified a b) (hinv : EagerInv a) {ctx ctx' : Ctx} (hc : CtxSame ctx ctx')
    (fn : Fn) (s : Nat) (hs : s < a.scopes.length) (info : Bool) :
    (apiInvoke ctx' fn b s info).2 = (apiInvoke ctx fn a s info).2 ∧
    EqButVerified (apiInvoke ctx fn a s info).1 (apiInvoke ctx' fn b s info).1 := by
  have hb := eqV_vset hab
  generalize (fun j => (b.scope j).verified) = g at hb
  subst hb
  rw [apiInvoke_eq, apiInvoke_eq]
  unfold apiInvoke'
  cases fn.nonfunc with
  | some _ => exact ⟨rfl, hab⟩
  | none =>
    simp only [vset_subscopes]
    rw [hc.env, vset_parseParams]
    have hea := hinv.ea.parseParams hinv.gt hinv.pg hinv.ob ctx.env s fn
    have hlen := (grow_parseParams ctx.env a s fn).len
    cases hpp : Dig.parseParams ctx.env a s fn with
    | mk r w =>
      rw [hpp] at hea hlen
      simp only at hea hlen
      cases r with
      | error e =>
        simp only
        rw [vset_rollbackProvide]
        exact ⟨trivial, vset_eqV g _⟩
      | ok params =>
        simp only
        rw [comm_shallowCheck g s params w]
        have hst := shallowCheck_state s params w
        cases hsc : shallowCheck s params w with
        | mk r2 w2 =>
          rw [hsc] at hst; simp only at hst; subst hst
          cases r2 with
          | error f => exact ⟨rfl, vset_eqV g _⟩
          | ok u =>
            simp only
            have hac : checkAcyclic w2 s = .acyclic := hea s (by rw [hlen]; exact hs)
            have hac' : checkAcyclic (vset g w2) s = .acyclic := by rw [checkAcyclic_eqV (vset_eqV g w2)]; exact hac
            -- both checks pass; the containers they hand on are equal up to the flags
            have hA : ∃ wa, invokeCheck w2 s = .ok wa ∧ EqButVerified w2 wa := by
              unfold invokeCheck
              split
              · exact ⟨w2, rfl, vset_eqV (fun j => (w2.scope j).verified) w2 |> fun _ =>
                  ⟨rfl, rfl, rfl, rfl, rfl, rfl, rfl, rfl, fun _ => ⟨rfl, rfl, rfl, rfl, rfl, rfl, rfl, rfl, rfl, rfl⟩⟩⟩
              · rw [hac]
                refine ⟨_, rfl, rfl, rfl, rfl, rfl, rfl, rfl, rfl, by simp [St.modScope], fun j => ?_⟩
                rw [scope_modScope]; split <;> exact ⟨rfl, rfl, rfl, rfl, rfl, rfl, rfl, rfl, rfl, rfl⟩
            have hB : ∃ wb, invokeCheck (vset g w2) s = .ok wb ∧ EqButVerified (vset g w2) wb := by
              unfold invokeCheck
              split
              · exact ⟨_, rfl, rfl, rfl, rfl, rfl, rfl, rfl, rfl, rfl, fun _ => ⟨rfl, rfl, rfl, rfl, rfl, rfl, rfl, rfl, rfl, rfl⟩⟩
              · rw [hac']
                refine ⟨_, rfl, rfl, rfl, rfl, rfl, rfl, rfl, rfl, by simp [St.modScope], fun j => ?_⟩
                rw [scope_modScope]; split <;> exact ⟨rfl, rfl, rfl, rfl, rfl, rfl, rfl, rfl, rfl, rfl⟩
            obtain ⟨wa, hwa, hea'⟩ := hA
            obtain ⟨wb, hwb, heb'⟩ := hB
            rw [hwa, hwb]
            simp only
            have hab' : EqButVerified wa wb := (hea'.symm'.trans' (vset_eqV g w2)).trans' heb'
            have hb2 := eqV_vset hab'
            generalize (fun j => (wb.scope j).verified) = g2 at hb2
            subst hb2
            rw [invokeRun_vset g2 hc]
            exact ⟨rfl, vset_eqV g2 _⟩

end Dig

namespace Dig

theorem provideRegister_ctx {ctx ctx' : Ctx} (hc : CtxSame ctx ctx') (fn : Fn) (st : St) (i s : Nat) (o : ProvideOpts) :
    provideRegister ctx' fn st i s o = provideRegister ctx fn st i s o := by
  unfold provideRegister
  simp only [hc.env]

/-- Provide on two containers equal up to the flags; the first run verifies eagerly and does not report a cycle -/
theorem provide_sim {a b : St} (hab : EqButVerified a b) (hinv : EagerInv a) {ctx ctx' : Ctx} (hc : CtxSame ctx ctx')
    (hd : ctx.cfg.deferAcyclic = false) (fn : Fn) (i s : Nat) (o : ProvideOpts)
    (hnc : ∀ e, (apiProvide ctx fn a i s o).2.v = .err e → e.isCycleDetected = false) :
    (apiProvide ctx' fn b i s o).2 = (apiProvide ctx fn a i s o).2 ∧
    EqButVerified (apiProvide ctx fn a i s o).1 (apiProvide ctx' fn b i s o).1 := by
  have hb := eqV_vset hab
  generalize (fun j => (b.scope j).verified) = g at hb
  subst hb
  rw [apiProvide_eq, apiProvide_eq] at *
  unfold apiProvide' at *
  rw [provideRegister_ctx hc, vset_provideRegister]
  cases hreg : provideRegister ctx fn a i s o with
  | error r => simp only; exact ⟨trivial, vset_eqV g _⟩
  | ok t =>
    obtain ⟨target, params, results, n, w⟩ := t
    rw [hreg] at hnc
    simp only at hnc ⊢
    obtain ⟨hgw, hbw, _, _, _, _, _, _, _, hw⟩ := provideRegister_inv hinv.gt hinv.ob ctx fn i s o target params results n w hreg
    unfold provideVerify at hnc ⊢
    simp only [vset_subscopes]
    have hgs := graphSame_verifyScopes ctx.cfg (a.subscopes target) w
    have hok := verifyScopes_ok_acyclic ctx.cfg hd (a.subscopes target) w
    have herr := verifyScopes_err_cycle hbw ctx.cfg (a.subscopes target)
    have hev := verifyScopes_eqV ctx.cfg (a.subscopes target) w
    have hev' := verifyScopes_eqV ctx'.cfg (a.subscopes target) (vset g w)
    have herr' := verifyScopes_err_check ctx'.cfg (a.subscopes target) (vset g w)
    cases hvs : Dig.verifyScopes ctx.cfg (a.subscopes target) w with
    | mk r5 w5 =>
      rw [hvs] at hnc hgs hok herr hev
      simp only at hnc hgs hok herr hev
      cases r5 with
      | error ec =>
        obtain ⟨sc, r⟩ := ec
        obtain ⟨p, rfl⟩ := herr sc r rfl
        simp only at hnc
        have := hnc _ rfl
        simp [DErr.isCycleDetected, DErr.chain] at this
      | ok u =>
        simp only
        cases hvs' : Dig.verifyScopes ctx'.cfg (a.subscopes target) (vset g w) with
        | mk r6 w6 =>
          rw [hvs'] at hev' herr'
          simp only at hev' herr'
          have hw56 : EqButVerified w5 w6 := (hev.symm'.trans' (vset_eqV g w)).trans' hev'
          cases r6 with
          | error ec =>
            exfalso
            obtain ⟨sc, r⟩ := ec
            obtain ⟨hmem, hchk, hne⟩ := herr' sc r rfl
            have h1 := hok rfl sc hmem
            rw [checkAcyclic_eqV hw56.symm'] at h1
            rw [h1] at hchk
            exact hne hchk.symm
          | ok u' =>
            simp only
            refine ⟨trivial, ?_⟩
            obtain ⟨k1, k2, k3, k4, k5, k6, k7, k8, k9⟩ := hw56
            refine ⟨k1, k2, k3, k4, k5, k6, k7, by simp [St.modScope]; exact k8, fun j => ?_⟩
            rw [scope_modScope, scope_modScope, k8]
            obtain ⟨q1, q2, q3, q4, q5, q6, q7, q8, q9, q10⟩ := k9 j
            split
            · exact ⟨q1, q2, q3, q4, q5, q6, q7, q8, by simp only; rw [q9], q10⟩
            · exact ⟨q1, q2, q3, q4, q5, q6, q7, q8, q9, q10⟩

end Dig

namespace Dig

theorem apiDecorate_ctx {ctx ctx' : Ctx} (hc : CtxSame ctx ctx') (fn : Fn) (st : St) (i s : Nat) (cb info : Bool) :
    apiDecorate ctx' fn st i s cb info = apiDecorate ctx fn st i s cb info := by
  unfold apiDecorate
  simp only [hc.env]

def NoCyc (r : OpRes) : Prop := ∀ e, r.v = .err e → e.isCycleDetected = false

theorem EagerInv.resetLog {st : St} (h : EagerInv st) : EagerInv { st with log := [] } :=
  ⟨h.gt.resetLog, h.pg.resetLog, h.ob.resetLog, h.ea.resetLog⟩

theorem eqV_resetLog {a b : St} (h : EqButVerified a b) : EqButVerified { a with log := [] } { b with log := [] } := by
  obtain ⟨h1, h2, h3, h4, h5, h6, h7, h8, h9⟩ := h
  exact ⟨h1, h2, h3, h4, h5, rfl, h7, h8, h9⟩

/-- one operation on two containers equal up to the flags: the eager run on the left, any run with the same other options
    on the right; if the eager run does not report a cycle, both answer the same and stay equal up to the flags -/
theorem step_sim {a b : St} (hab : EqButVerified a b) (hinv : EagerInv a) {ctx ctx' : Ctx} (hc : CtxSame ctx ctx')
    (hd : ctx.cfg.deferAcyclic = false) (fns : List Fn) (i : Nat) (op : Op) (hnc : NoCyc (Dig.step ctx fns a i op).2) :
    (Dig.step ctx' fns b i op).2 = (Dig.step ctx fns a i op).2 ∧
    EqButVerified (Dig.step ctx fns a i op).1 (Dig.step ctx' fns b i op).1 := by
  have hab0 := eqV_resetLog hab
  have hinv0 := hinv.resetLog
  have hlen : b.scopes.length = a.scopes.length := hab.2.2.2.2.2.2.2.1.symm
  cases op with
  | scope parent =>
    simp only [Dig.step, hlen]
    split
    · rename_i hp; exact ⟨rfl, eqV_apiScope hab0 parent hp⟩
    · exact ⟨rfl, hab0⟩
  | provide s f o =>
    simp only [Dig.step, hlen] at hnc ⊢
    cases hf : fnOf fns f with
    | none => exact ⟨rfl, hab0⟩
    | some fn =>
      rw [hf] at hnc
      simp only at hnc ⊢
      split
      · rename_i hs
        rw [if_pos hs] at hnc
        obtain ⟨h1, h2⟩ := provide_sim hab0 hinv0 hc hd fn i s o (fun e he => hnc e (by simpa [RegRes.toOpRes] using he))
        refine ⟨?_, h2⟩
        show (apiProvide ctx' fn _ i s o).2.toOpRes = (apiProvide ctx fn _ i s o).2.toOpRes
        rw [h1]
      · exact ⟨rfl, hab0⟩
  | decorate s f cb info =>
    simp only [Dig.step, hlen]
    cases hf : fnOf fns f with
    | none => exact ⟨rfl, hab0⟩
    | some fn =>
      simp only
      split
      · have hb := eqV_vset hab0
        generalize (fun j => (({ b with log := [] } : St).scope j).verified) = g at hb
        rw [hb, apiDecorate_ctx hc, vset_apiDecorate]
        exact ⟨rfl, vset_eqV g _⟩
      · exact ⟨rfl, hab0⟩
  | invoke s f info =>
    simp only [Dig.step, hlen]
    cases hf : fnOf fns f with
    | none => exact ⟨rfl, hab0⟩
    | some fn =>
      simp only
      split
      · rename_i hs
        exact invoke_sim hab0 hinv0 hc fn s hs info
      · exact ⟨rfl, hab0⟩
  | visualize s e => cases e <;> (simp only [Dig.step]; split <;> exact ⟨rfl, hab0⟩)
  | string s => simp only [Dig.step, hlen]; split <;> exact ⟨rfl, hab0⟩

theorem runOps_acc_mem (ctx : Ctx) (fns : List Fn) : ∀ (ops : List Op) (i : Nat) (st : St) (acc : List OpRes),
    ∀ r ∈ acc, r ∈ (Dig.runOps ctx fns ops i st acc).2 := by
  intro ops
  induction ops with
  | nil => intro i st acc r hr; simp only [Dig.runOps, List.mem_reverse]; exact hr
  | cons op rest ih =>
    intro i st acc r hr
    simp only [Dig.runOps]
    exact ih _ _ _ r (by simp [hr])

theorem runOps_sim {ctx ctx' : Ctx} (hc : CtxSame ctx ctx') (hd : ctx.cfg.deferAcyclic = false) (fns : List Fn) :
    ∀ (ops : List Op) (i : Nat) (a b : St) (acc : List OpRes), EqButVerified a b → EagerInv a →
      (∀ r ∈ (Dig.runOps ctx fns ops i a acc).2, NoCyc r) →
      (Dig.runOps ctx' fns ops i b acc).2 = (Dig.runOps ctx fns ops i a acc).2 := by
  intro ops
  induction ops with
  | nil => intro i a b acc _ _ _; rfl
  | cons op rest ih =>
    intro i a b acc hab hinv hnc
    simp only [Dig.runOps] at hnc ⊢
    have hr0 : NoCyc (Dig.step ctx fns a i op).2 :=
      hnc _ (runOps_acc_mem ctx fns rest (i + 1) _ _ _ (by simp))
    obtain ⟨h1, h2⟩ := step_sim hab hinv hc hd fns i op hr0
    cases hs : Dig.step ctx fns a i op with
    | mk a' r0 =>
      cases hs' : Dig.step ctx' fns b i op with
      | mk b' r0' =>
        rw [hs, hs'] at h1 h2
        simp only at h1 h2
        subst h1
        have hinv' := hinv.step ctx hd fns i op
        rw [hs] at hinv' hnc
        exact ih (i + 1) a' b' (r0' :: acc) h2 hinv' hnc

/-- **DeferAcyclicVerification changes no outcome on histories in which the eager run never reports a cycle**: the
    program with the option switched on answers every operation exactly as the program without it — same verdicts,
    same events (executions, arguments, callbacks), same Info -/
theorem defer_changes_nothing (p : Program) (hd : p.cfg.deferAcyclic = false)
    (hnc : ∀ r ∈ (runProgram p).2, NoCyc r) :
    (runProgram { p with cfg := { p.cfg with deferAcyclic := true } }).2 = (runProgram p).2 := by
  unfold runProgram
  have hc : CtxSame p.ctx ({ p with cfg := { p.cfg with deferAcyclic := true } } : Program).ctx :=
    ⟨rfl, rfl, rfl, rfl, rfl, rfl⟩
  exact runOps_sim hc hd p.fns p.ops 0 {} {} []
    ⟨rfl, rfl, rfl, rfl, rfl, rfl, rfl, rfl, fun _ => ⟨rfl, rfl, rfl, rfl, rfl, rfl, rfl, rfl, rfl, rfl⟩⟩ EagerInv.init hnc

end Dig
