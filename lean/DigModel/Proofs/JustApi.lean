import DigModel.Proofs.Just
import DigModel.Proofs.ProvideShape
/-
  `Just` is an invariant of the whole API.
-/
namespace Dig

theorem prov_callBody_hist (ctx : Ctx) (who : Who) (fn : Fn) (args : List Val) (st : St) :
    HistExt st (callBody ctx who fn args st).2 := by
  by_cases hd : ctx.cfg.dry = true
  · rw [callBody_dry ctx hd]; exact HistExt.refl st
  · rw [callBody_spec ctx (by simpa using hd)]; exact ⟨bodyEvents ctx who fn args st, rfl⟩

theorem ctor_of_take {st w : St} (h : w.ctors.take st.ctors.length = st.ctors) (n : Nat) (hn : n < st.ctors.length) :
    w.ctor n = st.ctor n := by
  unfold St.ctor
  rw [← getD_of_take w.ctors st.ctors.length n default hn, h]

theorem ctorsKeep_work {st w : St} {target : Nat} (h : Work st w target) : CtorsKeep st w := by
  intro n hn
  have := ctor_of_take h.ctorsPre n hn
  exact ⟨Nat.lt_of_lt_of_le hn h.ctorsLen, by rw [this], by rw [this], by rw [this], fun hc => by rw [this]; exact hc⟩

theorem ctorsKeep_of_ctors_eq {a b : St} (h : b.ctors = a.ctors) : CtorsKeep a b := by
  intro n hn
  have : b.ctor n = a.ctor n := by simp [St.ctor, h]
  exact ⟨by rw [h]; exact hn, by rw [this], by rw [this], by rw [this], fun hc => by rw [this]; exact hc⟩

theorem Just.cacheSame {env : TyEnv} {a b : St} (h : Just env a) (hc : CacheSame a b) (hk : CtorsKeep a b) : Just env b :=
  h.transfer hk (HistExt.of_eq hc.1) (fun j => (hc.2.2 j).1)

theorem Just.provide {env : TyEnv} {st : St} (h : Just env st) (ctx : Ctx) (fn : Fn) (i s : Nat) (o : ProvideOpts) :
    Just env (apiProvide ctx fn st i s o).1 := by
  have hcs := cacheSame_apiProvide ctx fn st i s o
  refine h.cacheSame hcs ?_
  rcases apiProvide_work ctx fn st i s o with he | ⟨target, w, hw, hr | ⟨n, hr⟩⟩
  · exact ctorsKeep_of_ctors_eq he.1.symm
  · rw [hr]; exact ctorsKeep_work hw
  · rw [hr]; exact (ctorsKeep_work hw).trans (ctorsKeep_of_ctors_eq rfl)

theorem rollback_ctors_same (st w : St) (target : Nat) (l : List Nat) (h : w.ctors = st.ctors) :
    (rollbackProvide st w target l).ctors = st.ctors := by
  unfold rollbackProvide
  simp only
  have h1 : ∀ (l : List Nat) (w : St), (l.foldl (fun w sc =>
      w.modScope sc fun x => { x with gh := x.gh.take (st.scope sc).gh.length }) w).ctors = w.ctors := by
    intro l
    induction l with
    | nil => intro w; rfl
    | cons sc rest ih => intro w; simp only [List.foldl_cons]; rw [ih]; rfl
  show List.take st.ctors.length (St.modScope _ target _).ctors = st.ctors
  show List.take st.ctors.length (List.foldl _ w l).ctors = st.ctors
  rw [h1, h]; simp

theorem apiDecorate_ctors (ctx : Ctx) (fn : Fn) (st : St) (i s : Nat) (cb info : Bool) :
    (apiDecorate ctx fn st i s cb info).1.ctors = st.ctors := by
  unfold apiDecorate
  cases fn.nonfunc with
  | some _ => rfl
  | none =>
    simp only
    have hg1 := (ghOnly_parseParams ctx.env st s fn).1
    cases hpp : parseParams ctx.env st s fn with
    | mk r w1 =>
      rw [hpp] at hg1
      simp only at hg1
      cases r with
      | error e1 => exact rollback_ctors_same _ _ _ _ hg1.symm
      | ok params =>
        simp only
        cases newResultList ctx.env {} fn with
        | error e2 => exact rollback_ctors_same _ _ _ _ hg1.symm
        | ok results =>
          simp only
          cases resultKeys ctx.env (slotResults results) with
          | error e3 => exact rollback_ctors_same _ _ _ _ hg1.symm
          | ok keys =>
            simp only
            split
            · exact rollback_ctors_same _ _ _ _ hg1.symm
            · exact hg1.symm

theorem copyOrder_keep (child parent : Nat) : ∀ (l : List GNode) (w : St),
    CtorsKeep w (l.foldl (copyOrder child parent) w) := by
  intro l
  induction l with
  | nil => intro w; exact CtorsKeep.refl w
  | cons x xs ih =>
    intro w
    simp only [List.foldl_cons]
    refine CtorsKeep.trans ?_ (ih _)
    cases x with
    | ctor m =>
      intro n hn
      simp only [copyOrder]
      rw [ctor_modCtor]
      refine ⟨by simp [St.modCtor]; exact hn, ?_⟩
      split <;> exact ⟨rfl, rfl, rfl, fun h => h⟩
    | pg i => exact ctorsKeep_of_ctors_eq rfl

theorem Just.scope {env : TyEnv} {st : St} (h : Just env st) (parent : Nat) : Just env (apiScope st parent) := by
  refine h.cacheSame (cacheSame_apiScope st parent) ?_
  let c : ScopeSt := { parent := some parent, gh := (st.scope parent).gh }
  let st1 : St := { st with scopes := st.scopes ++ [c] }
  let st2 : St := st1.modScope parent fun x => { x with children := x.children ++ [st.scopes.length] }
  have hdef : apiScope st parent = (st.scope parent).gh.foldl (copyOrder st.scopes.length parent) st2 := rfl
  rw [hdef]
  exact (ctorsKeep_of_ctors_eq (a := st) (b := st2) rfl).trans (copyOrder_keep _ _ _ _)

theorem Just.invoke {st : St} (ctx : Ctx) (h : Just ctx.env st) (fn : Fn) (s : Nat) (info : Bool) :
    Just ctx.env (apiInvoke ctx fn st s info).1 := by
  unfold apiInvoke
  cases fn.nonfunc with
  | some _ => exact h
  | none =>
    simp only
    have hg := ghOnly_parseParams ctx.env st s fn
    have hw := h.cacheSame (cacheSame_ghOnly hg) (ctorsKeep_of_ctors_eq hg.1.symm)
    cases hpp : parseParams ctx.env st s fn with
    | mk r w =>
      rw [hpp] at hw hg
      simp only at hw hg
      cases r with
      | error e =>
        exact hw.cacheSame (cacheSame_rollback _ _ _ _)
          (ctorsKeep_of_ctors_eq ((rollback_ctors_same st w s _ hg.1.symm).trans hg.1))
      | ok params =>
        simp only
        have hs := shallowCheck_state s params w
        cases hsc : shallowCheck s params w with
        | mk r2 w2 =>
          rw [hsc] at hs; simp only at hs; subst hs
          cases r2 with
          | error f => exact hw
          | ok u =>
            simp only
            split
            · exact hw
            · rename_i w3 hchk
              have hw3 : Just ctx.env w3 := by
                split at hchk
                · injection hchk with e; rw [← e]; exact hw
                · split at hchk
                  · injection hchk with e; rw [← e]
                    exact hw.cacheSame (cacheSame_modScope _ s _ (fun _ => ⟨rfl, rfl, rfl, rfl⟩)) (ctorsKeep_of_ctors_eq rfl)
                  · cases hchk
                  · cases hchk
              have hb := (hw3.buildList (engineFuel w3 params) params s).1
              rw [← wrapErr_state _ DErr.argsFailed] at hb
              cases hbl : EM.wrapErr (Dig.buildList ctx (engineFuel w3 params) params s) DErr.argsFailed w3 with
              | mk r4 w4 =>
                rw [hbl] at hb
                cases r4 with
                | error f => exact hb
                | ok args =>
                  simp only
                  have hf := callBody_fields ctx .invoked fn args w4
                  exact hb.transfer (ctorsKeep_of_ctors_eq hf.2.1) (prov_callBody_hist ctx .invoked fn args w4)
                    (fun j => by rw [scope_of_scopes_eq hf.1 j])

theorem Just.step {st : St} (ctx : Ctx) (h : Just ctx.env st) (fns : List Fn) (i : Nat) (op : Op) :
    Just ctx.env (Dig.step ctx fns st i op).1 := by
  have h0 : Just ctx.env { st with log := [] } :=
    h.transfer (ctorsKeep_of_ctors_eq rfl) (HistExt.of_eq rfl) (fun _ => rfl)
  cases op with
  | scope p =>
    simp only [Dig.step]
    split
    · exact h0.scope p
    · exact h0
  | provide s f o =>
    simp only [Dig.step]
    split
    · split
      · exact h0.provide ctx _ i s o
      · exact h0
    · exact h0
  | decorate s f cb info =>
    simp only [Dig.step]
    split
    · split
      · exact h0.cacheSame (cacheSame_apiDecorate ctx _ _ i s cb info) (ctorsKeep_of_ctors_eq (apiDecorate_ctors ctx _ _ i s cb info))
      · exact h0
    · exact h0
  | invoke s f info =>
    simp only [Dig.step]
    split
    · split
      · exact Just.invoke ctx h0 _ s info
      · exact h0
    · exact h0
  | visualize s e => cases e <;> (simp only [Dig.step]; split <;> exact h0)
  | string s => simp only [Dig.step]; split <;> exact h0

theorem Just.runOps (ctx : Ctx) (fns : List Fn) : ∀ (ops : List Op) (i : Nat) (st : St) (acc : List OpRes),
    Just ctx.env st → Just ctx.env (Dig.runOps ctx fns ops i st acc).1 := by
  intro ops
  induction ops with
  | nil => intro i st acc h; exact h
  | cons op rest ih =>
    intro i st acc h
    simp only [Dig.runOps]
    have := Just.step ctx h fns i op
    cases hs : Dig.step ctx fns st i op with
    | mk st' r =>
      rw [hs] at this
      exact ih _ _ _ this

theorem just_program (p : Program) : Just p.types (runProgram p).1 :=
  Just.runOps p.ctx p.fns p.ops 0 {} [] (Just.init p.types)

end Dig
