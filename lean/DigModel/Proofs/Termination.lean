import DigModel.Proofs.History
/-
  The resolver never runs out of its recursion budget.

  Go recurses on the goroutine stack; the model recurses structurally on a number (`fuel`) and answers
  `Fail.fuel` when it reaches zero.  This file proves that the budget handed out by `apiInvoke`
  (`engineFuel`) is always sufficient — for every registry, cyclic or not:

  * a constructor / decorator whose arguments are being built is marked (`onStack`), and a marked node is
    never entered again (constructors answer with a cycle error, decorators are skipped by their callers);
  * the marks are balanced and `called` only grows (`Flags`), so the number of *idle* nodes (neither built nor
    marked) never grows along an execution and strictly drops inside every entered node;
  * between two entries the recursion descends at most `D + 3` levels, `D` the deepest parameter object.

  Hence a budget of `idle · (D + 3) + 1` suffices for a `Call`, by induction on the budget.
-/
namespace Dig

/-- the computation does not end by running out of fuel -/
def NF {α : Type} (m : EM α) (st : St) : Prop := (m st).1 ≠ .error .fuel

theorem nf_ok {α : Type} (a : α) (st s' : St) {m : EM α} (h : m st = (.ok a, s')) : NF m st := by
  unfold NF; rw [h]; intro hc; cases hc

theorem nf_pure {α : Type} (a : α) (st : St) : NF (EM.pure a) st := by
  unfold NF EM.pure; intro hc; cases hc

theorem nf_bind {α β : Type} {m : EM α} {f : α → EM β} {st : St} (hm : NF m st)
    (hf : ∀ a s', m st = (.ok a, s') → NF (f a) s') : NF (EM.bind m f) st := by
  unfold NF EM.bind
  cases h : m st with
  | mk r s' =>
    cases r with
    | ok a => exact hf a s' h
    | error e =>
      intro he
      apply hm
      rw [h]
      simpa using he

theorem nf_wrapErr {α : Type} {m : EM α} (w : DErr → DErr) {st : St} (hm : NF m st) : NF (EM.wrapErr m w) st := by
  unfold NF EM.wrapErr
  unfold NF at hm
  cases h : m st with
  | mk r s' =>
    rw [h] at hm
    cases r with
    | ok a => intro hc; cases hc
    | error e =>
      cases e with
      | err e => intro hc; cases hc
      | panic f x => intro hc; cases hc
      | bug => intro hc; cases hc
      | fuel => exact absurd rfl hm

theorem nf_finally {α : Type} {m : EM α} (fin : St → St) {st : St} (hm : NF m st) : NF (EM.finally_ m fin) st := by
  unfold NF EM.finally_
  exact hm

theorem wrapErr_ok {α : Type} {m : EM α} (w : DErr → DErr) {st s' : St} {a : α}
    (h : EM.wrapErr m w st = (.ok a, s')) : m st = (.ok a, s') := by
  unfold EM.wrapErr at h
  cases hm : m st with
  | mk r s'' =>
    rw [hm] at h
    cases r with
    | ok b => exact h
    | error e => cases e <;> cases h

section loops
variable (V : St → Prop)

theorem nf_forEachM {α : Type} (xs : List α) (f : α → EM Unit)
    (hV : ∀ a, a ∈ xs → ∀ st, V st → V (f a st).2)
    (hN : ∀ a, a ∈ xs → ∀ st, V st → NF (f a) st) : ∀ st, V st → NF (forEachM xs f) st := by
  induction xs with
  | nil => intro st _; unfold forEachM; exact nf_pure () st
  | cons x rest ih =>
    intro st hv
    unfold forEachM
    apply nf_bind (hN x (by simp) st hv)
    intro a s' hs
    apply ih (fun a ha => hV a (by simp [ha])) (fun a ha => hN a (by simp [ha])) s'
    have := hV x (by simp) st hv
    rw [hs] at this
    exact this

theorem nf_firstM {α β : Type} (xs : List α) (f : α → EM (Option β))
    (hV : ∀ a, a ∈ xs → ∀ st, V st → V (f a st).2)
    (hN : ∀ a, a ∈ xs → ∀ st, V st → NF (f a) st) : ∀ st, V st → NF (firstM xs f) st := by
  induction xs with
  | nil => intro st _; unfold firstM; exact nf_pure none st
  | cons x rest ih =>
    intro st hv
    unfold firstM
    apply nf_bind (hN x (by simp) st hv)
    intro r s' hs
    cases r with
    | some b => exact nf_pure (some b) s'
    | none =>
      apply ih (fun a ha => hV a (by simp [ha])) (fun a ha => hN a (by simp [ha])) s'
      have := hV x (by simp) st hv
      rw [hs] at this
      exact this

theorem nf_mapM {α β : Type} (xs : List α) (f : α → EM β)
    (hV : ∀ a, a ∈ xs → ∀ st, V st → V (f a st).2)
    (hN : ∀ a, a ∈ xs → ∀ st, V st → NF (f a) st) : ∀ st, V st → NF (mapM' xs f) st := by
  induction xs with
  | nil => intro st _; unfold mapM'; exact nf_pure [] st
  | cons x rest ih =>
    intro st hv
    unfold mapM'
    apply nf_bind (hN x (by simp) st hv)
    intro b s' hs
    have hv' : V s' := by
      have := hV x (by simp) st hv
      rw [hs] at this
      exact this
    apply nf_bind (ih (fun a ha => hV a (by simp [ha])) (fun a ha => hN a (by simp [ha])) s' hv')
    intro bs s'' _
    exact nf_pure _ s''

theorem inv_forEachM {α : Type} (xs : List α) (f : α → EM Unit)
    (hV : ∀ a, a ∈ xs → ∀ st, V st → V (f a st).2) : ∀ st, V st → V (forEachM xs f st).2 := by
  induction xs with
  | nil => intro st hv; exact hv
  | cons x rest ih =>
    intro st hv
    unfold forEachM EM.bind
    have h1 := hV x (by simp) st hv
    cases h : f x st with
    | mk r s' =>
      rw [h] at h1
      cases r with
      | ok a => exact ih (fun a ha => hV a (by simp [ha])) s' h1
      | error e => exact h1

theorem inv_mapM {α β : Type} (xs : List α) (f : α → EM β)
    (hV : ∀ a, a ∈ xs → ∀ st, V st → V (f a st).2) : ∀ st, V st → V (mapM' xs f st).2 := by
  induction xs with
  | nil => intro st hv; exact hv
  | cons x rest ih =>
    intro st hv
    unfold mapM' EM.bind
    have h1 := hV x (by simp) st hv
    cases h : f x st with
    | mk r s' =>
      rw [h] at h1
      cases r with
      | error e => exact h1
      | ok b =>
        have h2 := ih (fun a ha => hV a (by simp [ha])) s' h1
        simp only
        cases h' : mapM' rest f s' with
        | mk r2 s'' =>
          rw [h'] at h2
          cases r2 with
          | ok bs => exact h2
          | error e => exact h2

/-- sequencing where the invariant is handed on to the continuation -/
theorem nf_bind_V {α β : Type} {m : EM α} {f : α → EM β} {st : St} (h : NF m st ∧ V (m st).2)
    (hf : ∀ a s', V s' → NF (f a) s') : NF (EM.bind m f) st :=
  nf_bind h.1 (fun a s' hs => hf a s' (by have := h.2; rw [hs] at this; exact this))

theorem nfV_forEachM {α : Type} (xs : List α) (f : α → EM Unit)
    (hV : ∀ a, a ∈ xs → ∀ st, V st → V (f a st).2)
    (hN : ∀ a, a ∈ xs → ∀ st, V st → NF (f a) st) (st : St) (hv : V st) :
    NF (forEachM xs f) st ∧ V (forEachM xs f st).2 :=
  ⟨nf_forEachM V xs f hV hN st hv, inv_forEachM V xs f hV st hv⟩

theorem nfV_mapM {α β : Type} (xs : List α) (f : α → EM β)
    (hV : ∀ a, a ∈ xs → ∀ st, V st → V (f a st).2)
    (hN : ∀ a, a ∈ xs → ∀ st, V st → NF (f a) st) (st : St) (hv : V st) :
    NF (mapM' xs f) st ∧ V (mapM' xs f st).2 :=
  ⟨nf_mapM V xs f hV hN st hv, inv_mapM V xs f hV st hv⟩

end loops

/-! ### counting idle nodes -/

theorem countP_range_flip (p q : Nat → Bool) (n : Nat) (hp : p n = true) (hq : q n = false)
    (hrest : ∀ m, m ≠ n → q m = p m) : ∀ L, n < L → (List.range L).countP q + 1 = (List.range L).countP p := by
  intro L
  induction L with
  | zero => intro h; omega
  | succ L ih =>
    intro hn
    rw [List.range_succ, List.countP_append, List.countP_append]
    by_cases hL : n = L
    · subst hL
      have : (List.range n).countP q = (List.range n).countP p := by
        apply List.countP_congr
        intro m hm
        have : m ≠ n := by simp at hm; omega
        rw [hrest m this]
      simp [hp, hq, this]
    · have hlt : n < L := by omega
      have := ih hlt
      have hL' : q L = p L := hrest L (fun h => hL h.symm)
      simp [List.countP_cons, hL']
      omega

def idleC (st : St) (n : Nat) : Bool := !(st.ctor n).called && !(st.ctor n).onStack
def idleD (st : St) (d : Nat) : Bool := (st.deco d).state == .ready

/-- number of nodes that are neither built nor being built -/
def idle (L L' : Nat) (st : St) : Nat := (List.range L).countP (idleC st) + (List.range L').countP (idleD st)

theorem idle_flags {L L' : Nat} {a b : St} (hf : Flags a b) : idle L L' b ≤ idle L L' a := by
  unfold idle
  apply Nat.add_le_add
  · apply List.countP_mono_left
    intro n _ hb
    simp only [idleC, Bool.and_eq_true, Bool.not_eq_true'] at hb ⊢
    constructor
    · cases hc : (a.ctor n).called with
      | false => rfl
      | true => rw [hf.ctorMono n hc] at hb; exact absurd hb.1 (by simp)
    · rw [← hf.ctorBal n]; exact hb.2
  · apply List.countP_mono_left
    intro d _ hb
    simp only [idleD, beq_iff_eq] at hb ⊢
    cases hs : (a.deco d).state with
    | ready => rfl
    | onStack => rw [(hf.decoBal d).mpr hs] at hb; cases hb
    | called => rw [hf.decoMono d hs] at hb; cases hb

theorem idle_setOnStack {L L' : Nat} (st : St) (n : Nat) (hL : st.ctors.length = L) (hn : n < L)
    (hc : (st.ctor n).called = false) (ho : (st.ctor n).onStack = false) :
    idle L L' (st.modCtor n fun x => { x with onStack := true }) + 1 = idle L L' st := by
  unfold idle
  have h1 : (List.range L).countP (idleC (st.modCtor n fun x => { x with onStack := true })) + 1 =
      (List.range L).countP (idleC st) := by
    apply countP_range_flip (idleC st) _ n _ _ _ L hn
    · simp [idleC, hc, ho]
    · simp [idleC, ctor_modCtor, hL, hn]
    · intro m hm
      have : ¬ (n = m ∧ m < st.ctors.length) := fun h => hm h.1.symm
      simp [idleC, ctor_modCtor, this]
  have h2 : (List.range L').countP (idleD (st.modCtor n fun x => { x with onStack := true })) =
      (List.range L').countP (idleD st) := rfl
  omega

theorem idle_decoOnStack {L L' : Nat} (st : St) (d : Nat) (hL : st.decos.length = L') (hd : d < L')
    (hr : (st.deco d).state = .ready) :
    idle L L' (st.modDeco d fun x => { x with state := .onStack }) + 1 = idle L L' st := by
  unfold idle
  have h1 : (List.range L').countP (idleD (st.modDeco d fun x => { x with state := .onStack })) + 1 =
      (List.range L').countP (idleD st) := by
    apply countP_range_flip (idleD st) _ d _ _ _ L' hd
    · simp [idleD, hr]
    · simp [idleD, deco_modDeco, hL, hd]
    · intro m hm
      have : ¬ (d = m ∧ m < st.decos.length) := fun h => hm h.1.symm
      simp [idleD, deco_modDeco, this]
  have h2 : (List.range L).countP (idleC (st.modDeco d fun x => { x with state := .onStack })) =
      (List.range L).countP (idleC st) := rfl
  omega

theorem idle_le (L L' : Nat) (st : St) : idle L L' st ≤ L + L' := by
  unfold idle
  have h1 := List.countP_le_length (p := idleC st) (l := List.range L)
  have h2 := List.countP_le_length (p := idleD st) (l := List.range L')
  simp at h1 h2
  omega

/-! ### parameter depth -/

theorem pdepth_le_of_mem {p : Param} {ps : List Param} (h : p ∈ ps) : pdepth p ≤ pdepthL ps := by
  induction ps with
  | nil => cases h
  | cons x xs ih =>
    simp only [pdepthL]
    rcases List.mem_cons.mp h with h | h
    · subst h; exact Nat.le_max_left _ _
    · exact Nat.le_trans (ih h) (Nat.le_max_right _ _)

/-- what the induction carries along: a valid registry of fixed size, parameter objects no deeper than `D`,
    at most `k` idle nodes -/
structure TV (L L' D k : Nat) (st : St) : Prop where
  vl : VL L L' st
  dc : ∀ n, pdepthL (st.ctor n).params ≤ D
  dd : ∀ d, pdepthL (st.deco d).params ≤ D
  idle : idle L L' st ≤ k

theorem TV.step {L L' D k : Nat} {a b : St} (h : TV L L' D k a) (hf : Flags a b) : TV L L' D k b where
  vl := h.vl.step hf
  dc n := by rw [← (hf.reg.2.2.2.2.1 n).2.1]; exact h.dc n
  dd d := by rw [← (hf.reg.2.2.2.2.2.2 d).2.1]; exact h.dd d
  idle := Nat.le_trans (idle_flags hf) h.idle

/-- budget that suffices for a `Call` with at most `k` idle nodes -/
def cC (D k : Nat) : Nat := k * (D + 3) + 1

theorem cC_succ (D k : Nat) : cC D (k + 1) = cC D k + D + 3 := by
  unfold cC
  rw [Nat.add_mul]
  omega


theorem providerStep_nf (env : TyEnv) (k : Key) (opt : Bool) (cid : Nat) (r : Except Fail Unit × St)
    (h : r.1 ≠ .error .fuel) : (providerStep env k opt cid r).1 ≠ .error .fuel := by
  unfold providerStep
  rcases r with ⟨r, s⟩
  cases r with
  | ok u => intro hc; cases hc
  | error e =>
    cases e with
    | err e => simp only; split <;> (intro hc; cases hc)
    | panic f x => intro hc; cases hc
    | bug => intro hc; cases hc
    | fuel => exact absurd rfl h

theorem ctorOutcome_nf (ctx : Ctx) (f : Nat) (r : BodyRes) : (ctorOutcome ctx f r).1 ≠ .error .fuel := by
  cases r <;> simp only [ctorOutcome]
  · intro hc; cases hc
  · intro hc; cases hc
  · intro hc; cases hc
  · split <;> (intro hc; cases hc)

theorem decoOutcome_nf (ctx : Ctx) (f : Nat) (r : BodyRes) : (decoOutcome ctx f r).1 ≠ .error .fuel := by
  cases r <;> simp only [decoOutcome]
  · intro hc; cases hc
  · intro hc; cases hc
  · intro hc; cases hc
  · split <;> (intro hc; cases hc)

theorem shallowCheck_nf (c : Nat) (ps : List Param) (st : St) : NF (shallowCheck c ps) st := by
  unfold NF shallowCheck
  split <;> (intro hc; cases hc)

/-- the resolver does not run out of fuel when it is given `cC D k` (plus the levels of the parameter it starts
    from), `k` bounding the number of idle nodes -/
theorem engine_nofuel (ctx : Ctx) (L L' D : Nat) :
    ∀ fuel,
      (∀ n c k st, n < L → TV L L' D k st → cC D k ≤ fuel → NF (callCtor ctx fuel n c) st) ∧
      (∀ d s k st, d < L' → (st.deco d).state ≠ .onStack → TV L L' D k st → cC D k ≤ fuel →
        NF (callDeco ctx fuel d s) st) ∧
      (∀ key opt c k st, TV L L' D k st → cC D k + 1 ≤ fuel → NF (buildSingle ctx fuel key opt c) st) ∧
      (∀ key soft c k st, TV L L' D k st → cC D k + 1 ≤ fuel → NF (buildGroup ctx fuel key soft c) st) ∧
      (∀ p c k st, TV L L' D k st → cC D k + 1 + pdepth p ≤ fuel → NF (buildParam ctx fuel p c) st) ∧
      (∀ ps c k st, TV L L' D k st → cC D k + 2 + pdepthL ps ≤ fuel → NF (buildList ctx fuel ps c) st) := by
  intro fuel
  induction fuel with
  | zero =>
    refine ⟨?_, ?_, ?_, ?_, ?_, ?_⟩
    · intro n c k st _ _ h; unfold cC at h; omega
    · intro d s k st _ _ _ h; unfold cC at h; omega
    · intro key opt c k st _ h; omega
    · intro key soft c k st _ h; omega
    · intro p c k st _ h; omega
    · intro ps c k st _ h; omega
  | succ fuel ih =>
    obtain ⟨ihC, ihD, ihS, ihG, ihP, ihL⟩ := ih
    obtain ⟨fC, fD, fS, fG, fP, fL⟩ := engine_flags ctx L L' fuel
    refine ⟨?_, ?_, ?_, ?_, ?_, ?_⟩
    · -- callCtor
      intro n c k st hn hv hk
      unfold NF
      simp only [callCtor]
      split
      · intro hc; cases hc
      · rename_i hcalled
        split
        · intro hc; cases hc
        · rename_i hon
          have hc : (st.ctor n).called = false := by simpa using hcalled
          have ho : (st.ctor n).onStack = false := by simpa using hon
          have hid := idle_setOnStack (L' := L') st n hv.vl.2.1 hn hc ho
          have hk1 : 1 ≤ k := by have := hv.idle; omega
          obtain ⟨k', rfl⟩ : ∃ k', k = k' + 1 := ⟨k - 1, by omega⟩
          have hv1 : TV L L' D k' (st.modCtor n fun x => { x with onStack := true }) := by
            refine ⟨⟨hv.vl.1.of_frame (regFrame_modCtor st n _ (fun _ => ⟨rfl, rfl, rfl, rfl, rfl, rfl, rfl⟩)),
              by simp [St.modCtor, hv.vl.2.1], hv.vl.2.2⟩, ?_, ?_, ?_⟩
            · intro m
              rw [ctor_modCtor]
              split
              · exact hv.dc m
              · exact hv.dc m
            · intro d; exact hv.dd d
            · have := hv.idle; omega
          apply nf_finally
          apply nf_bind (shallowCheck_nf _ _ _)
          intro _ s1 hs1
          have hs1' : s1 = st.modCtor n fun x => { x with onStack := true } := by
            have := shallowCheck_state' c (st.ctor n).params (st.modCtor n fun x => { x with onStack := true })
            rw [hs1] at this; exact this
          subst hs1'
          apply nf_bind
          · apply nf_wrapErr
            apply ihL _ _ k' _ hv1
            have := hv.dc n
            rw [cC_succ] at hk
            omega
          · intro args s2 _
            unfold NF ctorTail
            exact ctorOutcome_nf ctx _ _
    · -- callDeco
      intro d s k st hd hne hv hk
      unfold NF
      simp only [callDeco]
      split
      · intro hc; cases hc
      · rename_i hcalled
        have hr : (st.deco d).state = .ready := by
          cases hs : (st.deco d).state with
          | ready => rfl
          | onStack => exact absurd hs hne
          | called => rw [hs] at hcalled; simp at hcalled
        have hid := idle_decoOnStack (L := L) st d hv.vl.2.2 hd hr
        have hk1 : 1 ≤ k := by have := hv.idle; omega
        obtain ⟨k', rfl⟩ : ∃ k', k = k' + 1 := ⟨k - 1, by omega⟩
        have hv1 : TV L L' D k' (st.modDeco d fun x => { x with state := .onStack }) := by
          refine ⟨⟨hv.vl.1.of_frame (regFrame_modDeco st d _ (fun _ => ⟨rfl, rfl, rfl, rfl, rfl⟩)),
            hv.vl.2.1, by simp [St.modDeco, hv.vl.2.2]⟩, ?_, ?_, ?_⟩
          · intro n; exact hv.dc n
          · intro m
            rw [deco_modDeco]
            split
            · exact hv.dd m
            · exact hv.dd m
          · have := hv.idle; omega
        apply nf_finally
        apply nf_bind (shallowCheck_nf _ _ _)
        intro _ s1 hs1
        have hs1' : s1 = st.modDeco d fun x => { x with state := .onStack } := by
          have := shallowCheck_state' s (st.deco d).params (st.modDeco d fun x => { x with state := .onStack })
          rw [hs1] at this; exact this
        subst hs1'
        apply nf_bind
        · apply nf_wrapErr
          apply ihL _ _ k' _ hv1
          have := hv.dd d
          rw [cC_succ] at hk
          omega
        · intro args s2 _
          unfold NF decoTail
          exact decoOutcome_nf ctx _ _
    · -- buildSingle
      intro key opt c k st hv hk
      unfold NF
      simp only [buildSingle]
      split
      · rename_i d ds hfd
        obtain ⟨hdec, hst⟩ := findDeco_some st key _ d ds hfd
        have hdl : d < L' := by rw [← hv.vl.2.2]; exact hv.vl.1.2 ds key d hdec
        apply nf_bind
        · apply nf_wrapErr
          exact ihD d ds k st hdl hst hv (by omega)
        · intro _ s' _
          unfold NF
          simp only
          split <;> (intro hc; cases hc)
      · split
        · intro hc; cases hc
        · split
          · intro hc; cases hc
          · split <;> (intro hc; cases hc)
          · rename_i pc ns hfp
            have hns := findProviders_providers st key _ pc ns hfp
            have hmem : ∀ n, n ∈ ns → n < L := by
              intro n hn; rw [hns] at hn; rw [← hv.vl.2.1]; exact hv.vl.1.1 pc key n hn
            apply nf_bind
            · apply nf_firstM (TV L L' D k) ns _ _ _ st hv
              · intro n hn st1 hv1
                rw [providerStep_state]
                exact hv1.step (fC n _ (hmem n hn) st1 hv1.vl)
              · intro n hn st1 hv1
                unfold NF
                apply providerStep_nf
                exact ihC n _ k st1 (hmem n hn) hv1 (by omega)
            · intro early s' _
              unfold NF
              simp only
              split
              · intro hc; cases hc
              · split <;> (intro hc; cases hc)
    · -- buildGroup
      intro key soft c k st hv hk
      unfold NF
      simp only [buildGroup]
      have hR := flags_stepRel
      have hVL : ∀ {a b : St}, VL L L' a → Flags a b → VL L L' b := fun h1 h2 => VL.step h1 h2
      apply nf_bind_V (TV L L' D k) (nfV_forEachM (TV L L' D k) _ _ ?_ ?_ st hv)
      · intro _ st2 hv2
        unfold NF
        simp only
        split
        · intro hc; cases hc
        · apply nf_bind
          · split
            · exact nf_pure () st2
            · apply nf_forEachM (TV L L' D k) _ _ _ _ st2 hv2
              · intro s _ st3 hv3
                apply hv3.step
                apply presV_forEachM_mem hR hVL _ ?_ st3 hv3.vl
                intro n hn st4 hv4
                rw [wrapErr_state'']
                exact fC n _ (by rw [← hv3.vl.2.1]; exact hv3.vl.1.1 s key n hn) st4 hv4
              · intro s _ st3 hv3
                apply nf_forEachM (TV L L' D k) _ _ _ _ st3 hv3
                · intro n hn st4 hv4
                  rw [wrapErr_state'']
                  exact hv4.step (fC n _ (by rw [← hv3.vl.2.1]; exact hv3.vl.1.1 s key n hn) st4 hv4.vl)
                · intro n hn st4 hv4
                  apply nf_wrapErr
                  exact ihC n _ k st4 (by rw [← hv3.vl.2.1]; exact hv3.vl.1.1 s key n hn) hv4 (by omega)
          · intro _ st5 _
            intro hc; cases hc
      · -- the decorator loop keeps the invariant
        intro s _ st1 hv1
        apply hv1.step
        split
        · rename_i d hdec
          split
          · exact Flags.refl st1
          · rename_i hne
            rw [wrapErr_state'']
            refine fD d s st1 (by rw [← hv1.vl.2.2]; exact hv1.vl.1.2 s key d hdec) hv1.vl ?_
            intro hc; apply hne; simp [hc]
        · exact Flags.refl st1
      · -- and does not run out of fuel
        intro s _ st1 hv1
        unfold NF
        simp only
        split
        · rename_i d hdec
          split
          · intro hc; cases hc
          · rename_i hne
            apply nf_wrapErr
            refine ihD d s k st1 (by rw [← hv1.vl.2.2]; exact hv1.vl.1.2 s key d hdec) ?_ hv1 (by omega)
            intro hc; apply hne; simp [hc]
        · intro hc; cases hc
    · -- buildParam
      intro p c k st hv hk
      cases p with
      | single key opt =>
        simp only [buildParam]
        simp only [pdepth] at hk
        exact ihS key opt c k st hv (by omega)
      | grouped ty key soft pg =>
        simp only [buildParam]
        simp only [pdepth] at hk
        exact ihG key soft c k st hv (by omega)
      | object ty fs =>
        simp only [buildParam]
        simp only [pdepth] at hk
        have hfield : ∀ f, f ∈ fs → ∀ st1, TV L L' D k st1 → NF (buildParam ctx fuel f c) st1 := by
          intro f hf st1 hv1
          have := pdepth_le_of_mem hf
          exact ihP f c k st1 hv1 (by omega)
        have hstep : ∀ f, ∀ st1, TV L L' D k st1 → TV L L' D k (buildParam ctx fuel f c st1).2 :=
          fun f st1 hv1 => hv1.step (fP f c st1 hv1.vl)
        apply nf_bind_V (TV L L' D k) (nfV_mapM (TV L L' D k) _ _ ?_ ?_ st hv)
        · intro hard s1 hv1
          apply nf_bind
          · apply nf_mapM (TV L L' D k) _ _ _ _ s1 hv1
            · intro f _ st1 hv1; exact hstep f st1 hv1
            · intro f hf st1 hv1; exact hfield f (List.mem_filter.mp hf).1 st1 hv1
          · intro soft s2 _
            exact nf_pure _ s2
        · intro f _ st1 hv1; exact hstep f st1 hv1
        · intro f hf st1 hv1; exact hfield f (List.mem_filter.mp hf).1 st1 hv1
    · -- buildList
      intro ps c k st hv hk
      simp only [buildList]
      apply nf_mapM (TV L L' D k) _ _ _ _ st hv
      · intro f _ st1 hv1; exact hv1.step (fP f c st1 hv1.vl)
      · intro f hf st1 hv1
        have := pdepth_le_of_mem hf
        exact ihP f c k st1 hv1 (by omega)


/-! ### the budget handed out by `apiInvoke` is sufficient -/

theorem le_foldl_max (l : List Nat) : ∀ (a x : Nat), (x = a ∨ x ∈ l) → x ≤ l.foldl max a := by
  induction l with
  | nil =>
    intro a x h
    rcases h with h | h
    · subst h; exact Nat.le_refl _
    · cases h
  | cons y ys ih =>
    intro a x h
    simp only [List.foldl_cons]
    have hmono : ∀ (b c : Nat), b ≤ c → ys.foldl max b ≤ ys.foldl max c := by
      intro b c hbc
      clear ih h
      induction ys generalizing b c with
      | nil => exact hbc
      | cons z zs ihz => simp only [List.foldl_cons]; exact ihz _ _ (by omega)
    rcases h with h | h
    · subst h
      exact Nat.le_trans (ih x x (Or.inl rfl)) (hmono _ _ (Nat.le_max_left _ _))
    · rcases List.mem_cons.mp h with h | h
      · subst h
        exact Nat.le_trans (ih x x (Or.inl rfl)) (hmono _ _ (Nat.le_max_right _ _))
      · exact ih _ x (Or.inr h)

theorem maxDepth_ctor (st : St) (ps : List Param) (n : Nat) : pdepthL (st.ctor n).params ≤ maxDepth st ps := by
  unfold maxDepth St.ctor
  by_cases hn : n < st.ctors.length
  · have hm : pdepthL (st.ctors.getD n default).params ∈ st.ctors.map fun c => pdepthL c.params := by
      rw [List.getD_eq_getElem?_getD, List.getElem?_eq_getElem hn]
      simp only [Option.getD_some]
      exact List.mem_map_of_mem (List.getElem_mem hn)
    have := le_foldl_max _ 0 _ (Or.inr hm)
    omega
  · have : st.ctors.getD n default = default := by
      rw [List.getD_eq_getElem?_getD]
      have : st.ctors[n]? = none := by simp; omega
      rw [this]; rfl
    rw [this]
    show pdepthL [] ≤ _
    simp [pdepthL]

theorem maxDepth_deco (st : St) (ps : List Param) (d : Nat) : pdepthL (st.deco d).params ≤ maxDepth st ps := by
  unfold maxDepth St.deco
  by_cases hn : d < st.decos.length
  · have hm : pdepthL (st.decos.getD d default).params ∈ st.decos.map fun c => pdepthL c.params := by
      rw [List.getD_eq_getElem?_getD, List.getElem?_eq_getElem hn]
      simp only [Option.getD_some]
      exact List.mem_map_of_mem (List.getElem_mem hn)
    have := le_foldl_max _ 0 _ (Or.inr hm)
    omega
  · have : st.decos.getD d default = default := by
      rw [List.getD_eq_getElem?_getD]
      have : st.decos[d]? = none := by simp; omega
      rw [this]; rfl
    rw [this]
    show pdepthL [] ≤ _
    simp [pdepthL]

/-- with the budget of `apiInvoke`, building the arguments of the invoked function never runs out of fuel -/
theorem buildList_engineFuel (ctx : Ctx) (st : St) (hv : ValidReg st) (ps : List Param) (c : Nat) :
    NF (buildList ctx (engineFuel st ps) ps c) st := by
  have hTV : TV st.ctors.length st.decos.length (maxDepth st ps) (st.ctors.length + st.decos.length) st :=
    ⟨⟨hv, rfl, rfl⟩, maxDepth_ctor st ps, maxDepth_deco st ps, idle_le _ _ st⟩
  apply (engine_nofuel ctx st.ctors.length st.decos.length (maxDepth st ps) (engineFuel st ps)).2.2.2.2.2 ps c _ st hTV
  have hp : pdepthL ps ≤ maxDepth st ps := by unfold maxDepth; omega
  unfold engineFuel cC
  have e1 : (st.ctors.length + st.decos.length + 1) * (maxDepth st ps + 3) =
      (st.ctors.length + st.decos.length) * (maxDepth st ps + 3) + (maxDepth st ps + 3) := Nat.succ_mul _ _
  rw [e1]
  generalize (st.ctors.length + st.decos.length) * (maxDepth st ps + 3) = X
  omega

theorem failToVerdict_fuel (f : Fail) (h : failToVerdict f = .fuel) : f = .fuel := by
  cases f <;> simp [failToVerdict] at h ⊢

/-- `Invoke` never answers "out of fuel" -/
theorem apiInvoke_nofuel {st : St} (h : HInv st) (ctx : Ctx) (fn : Fn) (s : Nat) (info : Bool) :
    (apiInvoke ctx fn st s info).2.v ≠ .fuel := by
  unfold apiInvoke
  cases fn.nonfunc with
  | some _ => intro hc; cases hc
  | none =>
    simp only
    have hw := h.ghOnly (ghOnly_parseParams ctx.env st s fn)
    cases hpp : parseParams ctx.env st s fn with
    | mk r w =>
      rw [hpp] at hw
      cases r with
      | error e => intro hc; cases hc
      | ok params =>
        simp only
        have hs := shallowCheck_state s params w
        have hnf := shallowCheck_nf s params w
        cases hsc : shallowCheck s params w with
        | mk r2 w2 =>
          rw [hsc] at hs; simp only at hs; subst hs
          cases r2 with
          | error f =>
            simp only
            intro hc
            have := failToVerdict_fuel f hc
            subst this
            unfold NF at hnf
            rw [hsc] at hnf
            exact hnf rfl
          | ok u =>
            simp only
            split
            · rename_i v hchk
              split at hchk
              · cases hchk
              · split at hchk
                · cases hchk
                · injection hchk with e; rw [← e]; intro hc; cases hc
                · injection hchk with e; rw [← e]; intro hc; cases hc
            · rename_i w3 hchk
              have hw3 : HInv w3 := by
                split at hchk
                · injection hchk with e; rw [← e]; exact hw
                · split at hchk
                  · injection hchk with e; rw [← e]; exact hw.modVerified s true
                  · cases hchk
                  · cases hchk
              have hb := nf_wrapErr .argsFailed (buildList_engineFuel ctx w3 hw3.valid params s)
              unfold NF at hb
              cases hbl : EM.wrapErr (Dig.buildList ctx (engineFuel w3 params) params s) DErr.argsFailed w3 with
              | mk r4 w4 =>
                rw [hbl] at hb
                cases r4 with
                | error f =>
                  simp only
                  intro hc
                  have := failToVerdict_fuel f hc
                  subst this
                  exact hb rfl
                | ok args =>
                  simp only
                  generalize callBody ctx Who.invoked fn args w4 = rb
                  rcases rb with ⟨r, w5⟩
                  cases r with
                  | dry => intro hc; cases hc
                  | ok x len => intro hc; cases hc
                  | err x out => simp only; split <;> (intro hc; cases hc)
                  | panic x => simp only; split <;> (intro hc; cases hc)

theorem apiProvide_nofuel (ctx : Ctx) (fn : Fn) (st : St) (i s : Nat) (o : ProvideOpts) :
    (apiProvide ctx fn st i s o).2.v ≠ .fuel := by
  unfold apiProvide
  split
  · intro hc; cases hc
  · split
    · intro hc; cases hc
    · simp only []
      split
      · intro hc; cases hc
      · split
        · intro hc; cases hc
        · split
          · intro hc; cases hc
          · intro hc; cases hc
          · split
            · intro hc; cases hc
            · intro hc; cases hc
            · intro hc; cases hc

theorem apiDecorate_nofuel (ctx : Ctx) (fn : Fn) (st : St) (i s : Nat) (cb info : Bool) :
    (apiDecorate ctx fn st i s cb info).2.v ≠ .fuel := by
  unfold apiDecorate
  split
  · intro hc; cases hc
  · split
    · intro hc; cases hc
    · split
      · intro hc; cases hc
      · split
        · intro hc; cases hc
        · split <;> (intro hc; cases hc)
theorem step_nofuel {st : St} (h : HInv st) (ctx : Ctx) (fns : List Fn) (i : Nat) (op : Op) :
    (step ctx fns st i op).2.v ≠ .fuel := by
  have h0 := h.resetLog
  cases op with
  | scope parent => simp only [Dig.step]; split <;> (intro hc; cases hc)
  | provide s f o =>
    simp only [Dig.step]
    split
    · split
      · exact apiProvide_nofuel ctx _ _ i s o
      · intro hc; cases hc
    · intro hc; cases hc
  | decorate s f cb info =>
    simp only [Dig.step]
    split
    · split
      · exact apiDecorate_nofuel ctx _ _ i s cb info
      · intro hc; cases hc
    · intro hc; cases hc
  | invoke s f info =>
    simp only [Dig.step]
    split
    · split
      · exact apiInvoke_nofuel h0 ctx _ s info
      · intro hc; cases hc
    · intro hc; cases hc
  | visualize s e => cases e <;> (simp only [Dig.step]; split <;> (intro hc; cases hc))
  | string s => simp only [Dig.step]; split <;> (intro hc; cases hc)


theorem runOps_nofuel (ctx : Ctx) (fns : List Fn) : ∀ (ops : List Op) (i : Nat) (st : St) (acc : List OpRes),
    HInv st → (∀ r ∈ acc, r.v ≠ .fuel) → ∀ r ∈ (runOps ctx fns ops i st acc).2, r.v ≠ .fuel := by
  intro ops
  induction ops with
  | nil =>
    intro i st acc _ hacc r hr
    simp only [Dig.runOps, List.mem_reverse] at hr
    exact hacc r hr
  | cons op rest ih =>
    intro i st acc h hacc
    simp only [Dig.runOps]
    have h1 := h.step ctx fns i op
    have h2 := step_nofuel h ctx fns i op
    cases hs : Dig.step ctx fns st i op with
    | mk st' r0 =>
      rw [hs] at h1 h2
      apply ih _ _ _ h1
      intro r hr
      rcases List.mem_cons.mp hr with e | hr
      · rw [e]; exact h2
      · exact hacc r hr

end Dig
