import DigModel.Proofs.VSet
import DigModel.Proofs.Rollback
import DigModel.Proofs.ProvideStages
import DigModel.Proofs.DrySimApi
/-
  The API functions and the reassignment of `isVerifiedAcyclic` flags.
-/
namespace Dig

/-- two containers equal up to the flags differ by a reassignment of the flags -/
theorem eqV_vset {a b : St} (h : EqButVerified a b) : b = vset (fun j => (b.scope j).verified) a := by
  symm
  apply st_ext_of
  · obtain ⟨h1, h2, h3, h4, h5, h6, h7, h8, h9⟩ := h
    refine ⟨h1, h2, h3, h4, h5, h6, h7, by rw [vset_len]; exact h8, ?_⟩
    intro j
    obtain ⟨p1, p2, p3, p4, p5, p6, p7, p8, p9, p10⟩ := vset_scope_fields (fun j => (b.scope j).verified) a j
    obtain ⟨q1, q2, q3, q4, q5, q6, q7, q8, q9, q10⟩ := h9 j
    exact ⟨p1.trans q1, p2.trans q2, p3.trans q3, p4.trans q4, p5.trans q5, p6.trans q6, p7.trans q7, p8.trans q8,
      p9.trans q9, p10.trans q10⟩
  · intro j
    rw [vset_scope]
    split
    · rfl
    · rename_i hj
      have ha : a.scope j = { parent := none } := by
        unfold St.scope; rw [List.getD_eq_getElem?_getD]
        have : a.scopes[j]? = none := by simp; omega
        simp [this]
      have hb : b.scope j = { parent := none } := by
        unfold St.scope; rw [List.getD_eq_getElem?_getD]
        have : b.scopes[j]? = none := by simp; rw [← h.2.2.2.2.2.2.2.1]; omega
        simp [this]
      rw [ha, hb]

theorem vset_eqV (g : Nat → Bool) (st : St) : EqButVerified st (vset g st) :=
  ⟨rfl, rfl, rfl, rfl, rfl, rfl, rfl, (vset_len g st).symm, fun j => by
    obtain ⟨p1, p2, p3, p4, p5, p6, p7, p8, p9, p10⟩ := vset_scope_fields g st j
    exact ⟨p1.symm, p2.symm, p3.symm, p4.symm, p5.symm, p6.symm, p7.symm, p8.symm, p9.symm, p10.symm⟩⟩

theorem EqButVerified.symm' {a b : St} (h : EqButVerified a b) : EqButVerified b a := by
  obtain ⟨h1, h2, h3, h4, h5, h6, h7, h8, h9⟩ := h
  exact ⟨h1.symm, h2.symm, h3.symm, h4.symm, h5.symm, h6.symm, h7.symm, h8.symm, fun j => by
    obtain ⟨q1, q2, q3, q4, q5, q6, q7, q8, q9, q10⟩ := h9 j
    exact ⟨q1.symm, q2.symm, q3.symm, q4.symm, q5.symm, q6.symm, q7.symm, q8.symm, q9.symm, q10.symm⟩⟩

theorem EqButVerified.trans' {a b c : St} (h : EqButVerified a b) (h' : EqButVerified b c) : EqButVerified a c := by
  obtain ⟨h1, h2, h3, h4, h5, h6, h7, h8, h9⟩ := h
  obtain ⟨k1, k2, k3, k4, k5, k6, k7, k8, k9⟩ := h'
  exact ⟨h1.trans k1, h2.trans k2, h3.trans k3, h4.trans k4, h5.trans k5, h6.trans k6, h7.trans k7, h8.trans k8, fun j => by
    obtain ⟨q1, q2, q3, q4, q5, q6, q7, q8, q9, q10⟩ := h9 j
    obtain ⟨r1, r2, r3, r4, r5, r6, r7, r8, r9, r10⟩ := k9 j
    exact ⟨q1.trans r1, q2.trans r2, q3.trans r3, q4.trans r4, q5.trans r5, q6.trans r6, q7.trans r7, q8.trans r8,
      q9.trans r9, q10.trans r10⟩⟩

/-! ### graph-holder steps -/

theorem vset_subscopes (g : Nat → Bool) (st : St) (s : Nat) : (vset g st).subscopes s = st.subscopes s := by
  unfold St.subscopes
  rw [vset_len]
  exact subscopesAux_congr _ _ (vset_len g st) (fun j => (vset_scope_fields g st j).2.1) _ _

theorem vset_ghStep (g : Nat → Bool) (node : GNode) (st : St) (sc : Nat) : ghStep node (vset g st) sc = vset g (ghStep node st sc) := by
  unfold Dig.ghStep
  have hlen : ((vset g st).scope sc).gh.length = (st.scope sc).gh.length := by rw [(vset_scope_fields g st sc).2.2.2.2.2.2.2.2.2]
  cases node with
  | ctor n =>
    simp only [hlen]
    rw [vset_modScope g st sc _ (fun _ _ => rfl), vset_modCtor]
  | pg i =>
    simp only [hlen]
    rw [vset_modScope g st sc _ (fun _ _ => rfl)]
    rfl

theorem vset_newGraphNode (g : Nat → Bool) (st : St) (s : Nat) (node : GNode) :
    (vset g st).newGraphNode s node = vset g (st.newGraphNode s node) := by
  rw [newGraphNode_eq, newGraphNode_eq, vset_subscopes]
  generalize st.subscopes s = l
  induction l generalizing st with
  | nil => rfl
  | cons x xs ih => simp only [List.foldl_cons]; rw [vset_ghStep]; exact ih _

theorem vset_addPGNodes (g : Nat → Bool) (st : St) (s oldLen : Nat) (descs : List PGDesc) :
    addPGNodes (vset g st) s oldLen descs = vset g (addPGNodes st s oldLen descs) := by
  unfold Dig.addPGNodes
  simp only [vset_pgs]
  have h0 : ({ vset g st with pgs := st.pgs ++ (descs.drop oldLen).map fun d => ({ desc := d } : PGNode) } : St) =
      vset g { st with pgs := st.pgs ++ (descs.drop oldLen).map fun d => ({ desc := d } : PGNode) } := rfl
  rw [h0]
  generalize ({ st with pgs := st.pgs ++ (descs.drop oldLen).map fun d => ({ desc := d } : PGNode) } : St) = v
  generalize List.range (descs.length - oldLen) = l
  induction l generalizing v with
  | nil => rfl
  | cons x xs ih => simp only [List.foldl_cons]; rw [vset_newGraphNode]; exact ih _

theorem vset_parseParams (g : Nat → Bool) (env : TyEnv) (st : St) (s : Nat) (fn : Fn) :
    Dig.parseParams env (vset g st) s fn = ((Dig.parseParams env st s fn).1, vset g (Dig.parseParams env st s fn).2) := by
  unfold Dig.parseParams
  simp only [vset_pgs]
  rw [vset_addPGNodes]

end Dig

namespace Dig

theorem vset_rollbackProvide (g : Nat → Bool) (st0 w : St) (target : Nat) (scopes : List Nat) :
    rollbackProvide (vset g st0) (vset g w) target scopes = vset g (rollbackProvide st0 w target scopes) := by
  unfold rollbackProvide
  have hfold : ∀ (l : List Nat) (v : St),
      l.foldl (fun w sc => w.modScope sc fun x => { x with gh := x.gh.take ((vset g st0).scope sc).gh.length }) (vset g v) =
      vset g (l.foldl (fun w sc => w.modScope sc fun x => { x with gh := x.gh.take (st0.scope sc).gh.length }) v) := by
    intro l
    induction l with
    | nil => intro v; rfl
    | cons x xs ih =>
      intro v
      simp only [List.foldl_cons]
      rw [(vset_scope_fields g st0 x).2.2.2.2.2.2.2.2.2, vset_modScope g v x _ (fun _ _ => rfl)]
      exact ih _
  simp only [hfold, (vset_scope_fields g st0 target).2.2.1]
  rw [vset_modScope g _ target _ (fun _ _ => rfl)]
  rfl

/-- the registration stage of Provide commutes with the reassignment -/
theorem vset_provideRegister (g : Nat → Bool) (ctx : Ctx) (fn : Fn) (st : St) (i s : Nat) (o : ProvideOpts) :
    provideRegister ctx fn (vset g st) i s o =
      match provideRegister ctx fn st i s o with
      | .error r => .error (vset g r.1, r.2)
      | .ok (target, params, results, n, w) => .ok (target, params, results, n, vset g w) := by
  unfold provideRegister
  cases fn.nonfunc with
  | some _ => rfl
  | none =>
    simp only
    cases validateOpts ctx.env o with
    | error e => rfl
    | ok as =>
      simp only [vset_subscopes]
      rw [vset_parseParams]
      cases hpp : Dig.parseParams ctx.env st (if o.export_ then St.root else s) fn with
      | mk r w1 =>
        cases r with
        | error e => simp only; rw [vset_rollbackProvide]
        | ok params =>
          simp only
          cases newResultList ctx.env { name := o.name, group := o.group, as := as } fn with
          | error e => simp only; rw [vset_rollbackProvide]
          | ok results =>
            simp only [vset_ctors]
            have e1 : ({ vset g w1 with ctors := w1.ctors ++ [({ fn := fn, params := params, results := results, s := (if o.export_ then St.root else s), origS := s, cb := if o.cb then some i else none } : CtorNode)] } : St) =
                vset g { w1 with ctors := w1.ctors ++ [({ fn := fn, params := params, results := results, s := (if o.export_ then St.root else s), origS := s, cb := if o.cb then some i else none } : CtorNode)] } := rfl
            rw [e1, vset_newGraphNode]
            generalize (St.newGraphNode { w1 with ctors := w1.ctors ++ [_] } (if o.export_ then St.root else s) (.ctor w1.ctors.length)) = w3
            rw [visitKeys_congr _ _ (vset_scope_fields g w3 (if o.export_ then St.root else s)).2.2.1]
            cases visitKeys (w3.scope (if o.export_ then St.root else s)) (slotResults results) [] with
            | error e => simp only; rw [vset_rollbackProvide]
            | ok keys =>
              cases keys with
              | nil => simp only; rw [vset_rollbackProvide]
              | cons k0 ks =>
                simp only
                rw [vset_modScope g w3 _ _ (fun _ _ => rfl)]

end Dig

namespace Dig

theorem vset_apiDecorate (g : Nat → Bool) (ctx : Ctx) (fn : Fn) (st : St) (i s : Nat) (cb info : Bool) :
    apiDecorate ctx fn (vset g st) i s cb info =
      (vset g (apiDecorate ctx fn st i s cb info).1, (apiDecorate ctx fn st i s cb info).2) := by
  unfold apiDecorate
  cases fn.nonfunc with
  | some _ => rfl
  | none =>
    simp only [vset_subscopes]
    rw [vset_parseParams]
    cases hpp : Dig.parseParams ctx.env st s fn with
    | mk r w1 =>
      cases r with
      | error e => simp only; rw [vset_rollbackProvide]
      | ok params =>
        simp only
        cases newResultList ctx.env {} fn with
        | error e => simp only; rw [vset_rollbackProvide]
        | ok results =>
          simp only
          cases resultKeys ctx.env (slotResults results) with
          | error e => simp only; rw [vset_rollbackProvide]
          | ok keys =>
            simp only [(vset_scope_fields g w1 s).2.2.2.1, vset_decos]
            split
            · rw [vset_rollbackProvide]
            · have e1 : ({ vset g w1 with decos := w1.decos ++ [({ fn := fn, params := params, results := results, s := s, cb := if cb then some i else none } : DecoNode)] } : St) =
                  vset g { w1 with decos := w1.decos ++ [({ fn := fn, params := params, results := results, s := s, cb := if cb then some i else none } : DecoNode)] } := rfl
              rw [e1, vset_modScope g _ s _ (fun _ _ => rfl)]

/-- `Scope.Scope(name)` on two containers equal up to the flags -/
theorem eqV_apiScope {a b : St} (h : EqButVerified a b) (parent : Nat) (hp : parent < a.scopes.length) :
    EqButVerified (apiScope a parent) (apiScope b parent) := by
  have hb := eqV_vset h
  have hpb : parent < b.scopes.length := by rw [← h.2.2.2.2.2.2.2.1]; exact hp
  obtain ⟨hla, hsa⟩ := apiScope_scope a parent hp
  obtain ⟨hlb, hsb⟩ := apiScope_scope b parent hpb
  -- node tables: the copy of orders reads the parent's holder, which is the same
  have hgh : (b.scope parent).gh = (a.scope parent).gh := ((h.2.2.2.2.2.2.2.2 parent).2.2.2.2.2.2.2.2.2).symm
  have hfold : ∀ (l : List GNode) (x y : St), x.ctors = y.ctors → x.decos = y.decos → x.pgs = y.pgs → x.execs = y.execs →
      x.clock = y.clock → x.log = y.log → x.hist = y.hist →
      (l.foldl (copyOrder a.scopes.length parent) x).ctors = (l.foldl (copyOrder a.scopes.length parent) y).ctors ∧
      (l.foldl (copyOrder a.scopes.length parent) x).decos = (l.foldl (copyOrder a.scopes.length parent) y).decos ∧
      (l.foldl (copyOrder a.scopes.length parent) x).pgs = (l.foldl (copyOrder a.scopes.length parent) y).pgs ∧
      (l.foldl (copyOrder a.scopes.length parent) x).execs = (l.foldl (copyOrder a.scopes.length parent) y).execs ∧
      (l.foldl (copyOrder a.scopes.length parent) x).clock = (l.foldl (copyOrder a.scopes.length parent) y).clock ∧
      (l.foldl (copyOrder a.scopes.length parent) x).log = (l.foldl (copyOrder a.scopes.length parent) y).log ∧
      (l.foldl (copyOrder a.scopes.length parent) x).hist = (l.foldl (copyOrder a.scopes.length parent) y).hist := by
    intro l
    induction l with
    | nil => intro x y h1 h2 h3 h4 h5 h6 h7; exact ⟨h1, h2, h3, h4, h5, h6, h7⟩
    | cons n ns ih =>
      intro x y h1 h2 h3 h4 h5 h6 h7
      simp only [List.foldl_cons]
      apply ih
      · cases n <;> simp [copyOrder, St.modCtor, h1]
      · cases n <;> simp [copyOrder, St.modCtor, h2]
      · cases n <;> simp [copyOrder, St.modCtor, h3]
      · cases n <;> simp [copyOrder, St.modCtor, h4]
      · cases n <;> simp [copyOrder, St.modCtor, h5]
      · cases n <;> simp [copyOrder, St.modCtor, h6]
      · cases n <;> simp [copyOrder, St.modCtor, h7]
  have hlen : b.scopes.length = a.scopes.length := h.2.2.2.2.2.2.2.1.symm
  let ca : ScopeSt := { parent := some parent, gh := (a.scope parent).gh }
  let a2 : St := ({ a with scopes := a.scopes ++ [ca] } : St).modScope parent fun x => { x with children := x.children ++ [a.scopes.length] }
  let cb : ScopeSt := { parent := some parent, gh := (b.scope parent).gh }
  let b2 : St := ({ b with scopes := b.scopes ++ [cb] } : St).modScope parent fun x => { x with children := x.children ++ [b.scopes.length] }
  have hda : apiScope a parent = (a.scope parent).gh.foldl (copyOrder a.scopes.length parent) a2 := rfl
  have hdb : apiScope b parent = (b.scope parent).gh.foldl (copyOrder b.scopes.length parent) b2 := rfl
  obtain ⟨f1, f2, f3, f4, f5, f6, f7⟩ := hfold (a.scope parent).gh a2 b2 h.1 h.2.1 h.2.2.1 h.2.2.2.1 h.2.2.2.2.1 h.2.2.2.2.2.1 h.2.2.2.2.2.2.1
  rw [← hda] at f1 f2 f3 f4 f5 f6 f7
  have hdb' : apiScope b parent = (a.scope parent).gh.foldl (copyOrder a.scopes.length parent) b2 := by rw [hdb, hgh, hlen]
  rw [← hdb'] at f1 f2 f3 f4 f5 f6 f7
  refine ⟨f1, f2, f3, f4, f5, f6, f7, by rw [hla, hlb, hlen], ?_⟩
  intro j
  rw [hsa j, hsb j, hlen, hgh]
  obtain ⟨q1, q2, q3, q4, q5, q6, q7, q8, q9, q10⟩ := h.2.2.2.2.2.2.2.2 j
  obtain ⟨r1, r2, r3, r4, r5, r6, r7, r8, r9, r10⟩ := h.2.2.2.2.2.2.2.2 parent
  by_cases h1 : j = a.scopes.length
  · simp only [h1, if_true]; exact ⟨rfl, rfl, rfl, rfl, rfl, rfl, rfl, rfl, rfl, rfl⟩
  · simp only [h1, if_false]
    by_cases h2 : j = parent
    · simp only [h2, if_true]
      exact ⟨r1, by rw [r2], r3, r4, r5, r6, r7, r8, r9, r10⟩
    · simp only [h2, if_false]
      exact ⟨q1, q2, q3, q4, q5, q6, q7, q8, q9, q10⟩

end Dig
