import DigModel.Proofs.RootCause
import DigModel.Api
/-
  Every error built by the signature parsers and the option validators has a root cause of dig's own
  (`DigRoot`): no `*UserErr`, no `PanicError` can come out of a parse.
-/
namespace Dig

theorem digRoot_invalid0 : DigRoot .invalid0 := by intro f x; constructor <;> (intro hc; cases hc)
theorem digRoot_groupOpt : DigRoot .groupOpt := by intro f x; constructor <;> (intro hc; cases hc)
theorem digRoot_invalid {e : DErr} (h : DigRoot e) : DigRoot (.invalid e) := fun f x => h f x
theorem digRoot_provide {e : DErr} (h : DigRoot e) : DigRoot (.provide e) := fun f x => h f x

theorem boolTag_err (tag : String) (e : DErr) (h : boolTag tag = .error e) : DigRoot e := by
  unfold boolTag at h
  split at h
  · cases h
  · split at h
    · cases h
    · injection h with h; subst h; exact digRoot_invalid0

theorem parseGroupOpts_err : ∀ (cs : List String) (g : GroupSpec) (e : DErr), parseGroupOpts cs g = .error e → DigRoot e := by
  intro cs
  induction cs with
  | nil => intro g e h; simp [parseGroupOpts] at h
  | cons c cs ih =>
    intro g e h
    simp only [parseGroupOpts] at h
    split at h
    · exact ih _ e h
    · split at h
      · exact ih _ e h
      · injection h with h; subst h; exact digRoot_groupOpt

theorem parseGroupString_err (s : String) (e : DErr) (h : parseGroupString s = .error e) : DigRoot e := by
  unfold parseGroupString at h
  split at h
  · injection h with h; subst h; exact digRoot_invalid0
  · split at h
    · injection h with h; subst h; exact digRoot_invalid0
    · exact parseGroupOpts_err _ _ e h

theorem newParamGroupedSlice_err (env : TyEnv) (m : FieldMeta) (t : GoT) (s s' : List PGDesc) (e : DErr)
    (h : newParamGroupedSlice env m t s = (.error e, s')) : DigRoot e := by
  unfold newParamGroupedSlice at h
  cases hg : parseGroupString m.tags.group with
  | error e' =>
    rw [hg] at h
    simp only at h
    injection h with h1 _; injection h1 with h1; subst h1
    exact parseGroupString_err _ _ hg
  | ok g =>
    rw [hg] at h
    simp only at h
    split at h
    · injection h with h1 _; injection h1 with h1; subst h1; exact digRoot_invalid0
    · split at h
      · injection h with h1 _; injection h1 with h1; subst h1; exact digRoot_invalid0
      · split at h
        · injection h with h1 _; injection h1 with h1; subst h1; exact digRoot_invalid0
        · split at h
          · injection h with h1 _; injection h1 with h1; subst h1; exact digRoot_invalid0
          · cases h

mutual
theorem newParam_err (env : TyEnv) : ∀ (t : GoT) (s s' : List PGDesc) (e : DErr), newParam env t s = (.error e, s') → DigRoot e
  | .univ i, s, s', e, h => by
    simp only [newParam, PM.fail, PM.pure] at h
    split at h
    · injection h with h1 _; injection h1 with h1; subst h1; exact digRoot_invalid0
    · split at h
      · injection h with h1 _; injection h1 with h1; subst h1; exact digRoot_invalid digRoot_invalid0
      · split at h
        · injection h with h1 _; injection h1 with h1; subst h1; exact digRoot_invalid0
        · split at h
          · injection h with h1 _; injection h1 with h1; subst h1; exact digRoot_invalid0
          · cases h
  | .ptr i inner, s, s', e, h => by
    simp only [newParam, PM.fail, PM.pure] at h
    split at h
    · injection h with h1 _; injection h1 with h1; subst h1; exact digRoot_invalid0
    · split at h
      · injection h with h1 _; injection h1 with h1; subst h1; exact digRoot_invalid0
      · split at h
        · injection h with h1 _; injection h1 with h1; subst h1; exact digRoot_invalid0
        · cases h
  | .strct i fs, s, s', e, h => by
    simp only [newParam] at h
    split at h
    · simp only [PM.fail] at h; injection h with h1 _; injection h1 with h1; subst h1; exact digRoot_invalid0
    · split at h
      · cases hb : boolTag (if hasInField fs then findIgnoreTag fs else "") with
        | error e' =>
          simp only [hb, PM.fail] at h
          injection h with h1 _; injection h1 with h1; subst h1
          exact boolTag_err _ _ hb
        | ok ignore =>
          simp only [hb] at h
          cases hf : newParamFields env ignore fs s with
          | mk r s2 =>
            rw [hf] at h
            cases r with
            | ok ps => cases h
            | error e' =>
              simp only at h
              injection h with h1 _; injection h1 with h1; subst h1
              exact newParamFields_err env ignore fs s s2 e' hf
      · split at h
        · simp only [PM.fail] at h; injection h with h1 _; injection h1 with h1; subst h1; exact digRoot_invalid0
        · cases h
theorem newParamFields_err (env : TyEnv) (ignore : Bool) : ∀ (fs : List (FieldMeta × GoT)) (s s' : List PGDesc) (e : DErr),
    newParamFields env ignore fs s = (.error e, s') → DigRoot e
  | [], s, s', e, h => by simp [newParamFields, PM.pure] at h
  | f :: rest, s, s', e, h => by
    simp only [newParamFields] at h
    split at h
    · exact newParamFields_err env ignore rest s s' e h
    · split at h
      · exact newParamFields_err env ignore rest s s' e h
      · cases hf : newParamField env f s with
        | mk r s2 =>
          rw [hf] at h
          cases r with
          | error e' =>
            simp only at h
            injection h with h1 _; injection h1 with h1; subst h1
            exact digRoot_invalid (newParamField_err env f s s2 e' hf)
          | ok p =>
            simp only at h
            cases hr : newParamFields env ignore rest s2 with
            | mk r3 s3 =>
              rw [hr] at h
              cases r3 with
              | ok ps => cases h
              | error e' =>
                simp only at h
                injection h with h1 _; injection h1 with h1; subst h1
                exact newParamFields_err env ignore rest s2 s3 e' hr
theorem newParamField_err (env : TyEnv) : ∀ (f : FieldMeta × GoT) (s s' : List PGDesc) (e : DErr),
    newParamField env f s = (.error e, s') → DigRoot e
  | (m, t), s, s', e, h => by
    simp only [newParamField] at h
    split at h
    · injection h with h1 _; injection h1 with h1; subst h1; exact digRoot_invalid0
    · split at h
      · exact newParamGroupedSlice_err env m t s s' e h
      · cases hp : newParam env t s with
        | mk r s2 =>
          rw [hp] at h
          cases r with
          | error e' =>
            simp only at h
            injection h with h1 _; injection h1 with h1; subst h1
            exact newParam_err env t s s2 e' hp
          | ok q =>
            cases q with
            | single k o =>
              simp only at h
              cases hb : boolTag m.tags.optional with
              | error e' =>
                simp only [hb] at h
                injection h with h1 _; injection h1 with h1; subst h1
                exact boolTag_err _ _ hb
              | ok b => simp only [hb] at h; cases h
            | grouped ty k soft pg => simp only at h; cases h
            | object ty fs => simp only at h; cases h
end

theorem newParamListAux_err (env : TyEnv) : ∀ (ts : List GoT) (s s' : List PGDesc) (e : DErr),
    newParamListAux env ts s = (.error e, s') → DigRoot e
  | [], s, s', e, h => by simp [newParamListAux, PM.pure] at h
  | t :: rest, s, s', e, h => by
    simp only [newParamListAux] at h
    cases hp : newParam env t s with
    | mk r s2 =>
      rw [hp] at h
      cases r with
      | error e' =>
        simp only at h
        injection h with h1 _; injection h1 with h1; subst h1
        exact digRoot_invalid (newParam_err env t s s2 e' hp)
      | ok p =>
        simp only at h
        cases hr : newParamListAux env rest s2 with
        | mk r3 s3 =>
          rw [hr] at h
          cases r3 with
          | ok ps => cases h
          | error e' =>
            simp only at h
            injection h with h1 _; injection h1 with h1; subst h1
            exact newParamListAux_err env rest s2 s3 e' hr

theorem parseParams_err (env : TyEnv) (st : St) (sc : Nat) (fn : Fn) (e : DErr) (w : St)
    (h : parseParams env st sc fn = (.error e, w)) : DigRoot e := by
  unfold parseParams at h
  cases hp : newParamList env fn (st.pgs.map (·.desc)) with
  | mk r descs =>
    simp only [hp] at h
    injection h with h1 _
    subst h1
    exact newParamListAux_err env _ _ descs e hp

end Dig

namespace Dig

theorem asTypes_err (env : TyEnv) (t : GoT) : ∀ (as : List Nat) (e : DErr), asTypes env t as = .error e → DigRoot e := by
  intro as
  induction as with
  | nil => intro e h; simp [asTypes] at h
  | cons a rest ih =>
    intro e h
    simp only [asTypes] at h
    split at h
    · exact ih e h
    · split at h
      · injection h with h; subst h; exact digRoot_invalid0
      · cases hr : asTypes env t rest with
        | error e' => rw [hr] at h; simp only at h; injection h with h; subst h; exact ih e' hr
        | ok r => rw [hr] at h; cases h

theorem newResultSingle_err (env : TyEnv) (slot : Nat) (t : GoT) (o : ResultOpts) (e : DErr)
    (h : newResultSingle env slot t o = .error e) : DigRoot e := by
  unfold newResultSingle at h
  cases ha : asTypes env t o.as with
  | error e' => rw [ha] at h; simp only at h; injection h with h; subst h; exact asTypes_err env t _ _ ha
  | ok l => rw [ha] at h; cases l <;> cases h

theorem newResultGroupOpt_err (env : TyEnv) (slot : Nat) (t : GoT) (o : ResultOpts) (e : DErr)
    (h : newResultGroupOpt env slot t o = .error e) : DigRoot e := by
  unfold newResultGroupOpt at h
  cases hg : parseGroupString o.group with
  | error e' =>
    rw [hg] at h; simp only at h; injection h with h; subst h
    exact digRoot_invalid (parseGroupString_err _ _ hg)
  | ok g =>
    rw [hg] at h
    simp only at h
    split at h
    · injection h with h; subst h; exact digRoot_invalid0
    · cases ha : asTypes env t o.as with
      | error e' => rw [ha] at h; simp only at h; injection h with h; subst h; exact asTypes_err env t _ _ ha
      | ok l =>
        rw [ha] at h
        simp only at h
        split at h
        · injection h with h; subst h; exact digRoot_invalid0
        · split at h
          · split at h
            · injection h with h; subst h; exact digRoot_invalid0
            · cases h
          · cases h

theorem newResultGrouped_err (env : TyEnv) (slot : Nat) (m : FieldMeta) (t : GoT) (e : DErr)
    (h : newResultGrouped env slot m t = .error e) : DigRoot e := by
  unfold newResultGrouped at h
  cases hg : parseGroupString m.tags.group with
  | error e' => rw [hg] at h; simp only at h; injection h with h; subst h; exact parseGroupString_err _ _ hg
  | ok g =>
    rw [hg] at h
    simp only at h
    split at h
    · injection h with h; subst h; exact digRoot_invalid0
    · split at h
      · injection h with h; subst h; exact digRoot_invalid0
      · split at h
        · injection h with h; subst h; exact digRoot_invalid0
        · split at h
          · injection h with h; subst h; exact digRoot_invalid0
          · cases h

mutual
theorem newResult_err (env : TyEnv) : ∀ (t : GoT) (o : ResultOpts) (slot : Nat) (e : DErr), newResult env o slot t = .error e → DigRoot e
  | .univ i, o, slot, e, h => by
    simp only [newResult] at h
    split at h
    · injection h with h; subst h; exact digRoot_invalid0
    · split at h
      · injection h with h; subst h; exact digRoot_invalid0
      · split at h
        · split at h
          · injection h with h; subst h; exact digRoot_invalid0
          · split at h
            · injection h with h; subst h; exact digRoot_invalid0
            · injection h with h; subst h; exact digRoot_invalid digRoot_invalid0
        · split at h
          · injection h with h; subst h; exact digRoot_invalid0
          · split at h
            · injection h with h; subst h; exact digRoot_invalid0
            · split at h
              · exact newResultGroupOpt_err env slot _ o e h
              · exact newResultSingle_err env slot _ o e h
  | .ptr i inner, o, slot, e, h => by
    simp only [newResult] at h
    split at h
    · injection h with h; subst h; exact digRoot_invalid0
    · split at h
      · injection h with h; subst h; exact digRoot_invalid0
      · split at h
        · exact newResultGroupOpt_err env slot _ o e h
        · exact newResultSingle_err env slot _ o e h
  | .strct i fs, o, slot, e, h => by
    simp only [newResult] at h
    split at h
    · injection h with h; subst h; exact digRoot_invalid0
    · split at h
      · split at h
        · injection h with h; subst h; exact digRoot_invalid0
        · split at h
          · injection h with h; subst h; exact digRoot_invalid0
          · cases hf : newResultFields env o slot fs with
            | ok rs => rw [hf] at h; cases h
            | error e' =>
              rw [hf] at h; simp only at h; injection h with h; subst h
              exact newResultFields_err env o fs slot e' hf
      · split at h
        · injection h with h; subst h; exact digRoot_invalid0
        · split at h
          · exact newResultGroupOpt_err env slot _ o e h
          · exact newResultSingle_err env slot _ o e h
theorem newResultFields_err (env : TyEnv) (o : ResultOpts) : ∀ (fs : List (FieldMeta × GoT)) (slot : Nat) (e : DErr),
    newResultFields env o slot fs = .error e → DigRoot e
  | [], slot, e, h => by simp [newResultFields] at h
  | f :: rest, slot, e, h => by
    simp only [newResultFields] at h
    split at h
    · exact newResultFields_err env o rest _ e h
    · cases hf : newResultField env o slot f with
      | error e' =>
        rw [hf] at h; simp only at h; injection h with h; subst h
        exact digRoot_invalid (newResultField_err env o f slot e' hf)
      | ok r =>
        rw [hf] at h
        simp only at h
        cases hr : newResultFields env o (slot + leafCountField f) rest with
        | ok rs => rw [hr] at h; cases h
        | error e' =>
          rw [hr] at h; simp only at h; injection h with h; subst h
          exact newResultFields_err env o rest _ e' hr
theorem newResultField_err (env : TyEnv) (o : ResultOpts) : ∀ (f : FieldMeta × GoT) (slot : Nat) (e : DErr),
    newResultField env o slot f = .error e → DigRoot e
  | (m, t), slot, e, h => by
    simp only [newResultField] at h
    split at h
    · injection h with h; subst h; exact digRoot_invalid0
    · split at h
      · exact newResultGrouped_err env slot m t e h
      · exact newResult_err env t _ slot e h
end

theorem newResultListAux_err (env : TyEnv) (o : ResultOpts) : ∀ (ts : List GoT) (slot : Nat) (e : DErr),
    newResultListAux env o slot ts = .error e → DigRoot e
  | [], slot, e, h => by simp [newResultListAux] at h
  | t :: rest, slot, e, h => by
    simp only [newResultListAux] at h
    split at h
    · cases hr : newResultListAux env o (slot + leafCount t) rest with
      | ok rs => rw [hr] at h; cases h
      | error e' =>
        rw [hr] at h; simp only at h; injection h with h; subst h
        exact newResultListAux_err env o rest _ e' hr
    · cases hn : newResult env o slot t with
      | error e' =>
        rw [hn] at h; simp only at h; injection h with h; subst h
        exact digRoot_invalid (newResult_err env t o slot e' hn)
      | ok r =>
        rw [hn] at h
        simp only at h
        cases hr : newResultListAux env o (slot + leafCount t) rest with
        | ok rs => rw [hr] at h; cases h
        | error e' =>
          rw [hr] at h; simp only at h; injection h with h; subst h
          exact newResultListAux_err env o rest _ e' hr

theorem newResultList_err (env : TyEnv) (o : ResultOpts) (fn : Fn) (e : DErr) (h : newResultList env o fn = .error e) :
    DigRoot e := newResultListAux_err env o fn.outs 0 e h

theorem validateAs_err (env : TyEnv) : ∀ (as : List AsArg) (e : DErr), validateAs env as = .error e → DigRoot e := by
  intro as
  induction as with
  | nil => intro e h; simp [validateAs] at h
  | cons a rest ih =>
    intro e h
    cases a with
    | nil => simp only [validateAs] at h; injection h with h; subst h; exact digRoot_invalid0
    | val v => simp only [validateAs] at h; injection h with h; subst h; exact digRoot_invalid0
    | ptrTo p => simp only [validateAs] at h; injection h with h; subst h; exact digRoot_invalid0
    | iface i =>
      simp only [validateAs] at h
      split at h
      · injection h with h; subst h; exact digRoot_invalid0
      · cases hr : validateAs env rest with
        | ok r => rw [hr] at h; cases h
        | error e' => rw [hr] at h; simp only at h; injection h with h; subst h; exact ih e' hr

theorem validateOpts_err (env : TyEnv) (o : ProvideOpts) (e : DErr) (h : validateOpts env o = .error e) : DigRoot e := by
  unfold validateOpts at h
  split at h
  · injection h with h; subst h; exact digRoot_invalid0
  · split at h
    · injection h with h; subst h; exact digRoot_invalid0
    · split at h
      · injection h with h; subst h; exact digRoot_invalid0
      · exact validateAs_err env _ e h

end Dig

namespace Dig

theorem visitKeys_chk_err (X : ScopeSt) : ∀ (ks seen : List Key) (e : DErr), visitKeys.chk X ks seen = .error e → DigRoot e := by
  intro ks
  induction ks with
  | nil => intro seen e h; simp [visitKeys.chk] at h
  | cons k more ih =>
    intro seen e h
    simp only [visitKeys.chk] at h
    split at h
    · injection h with h; subst h; exact digRoot_invalid digRoot_invalid0
    · split at h
      · injection h with h; subst h; exact digRoot_invalid digRoot_invalid0
      · exact ih _ e h

mutual
theorem visitKeys_err (X : ScopeSt) : ∀ (rs : List Result) (seen : List Key) (e : DErr), visitKeys X rs seen = .error e → DigRoot e
  | [], seen, e, h => by simp [visitKeys] at h
  | .single _ _ ty name as :: rest, seen, e, h => by
    simp only [visitKeys] at h
    cases hc : visitKeys.chk X ((ty :: as).map fun t => ({ ty := t, name := name, group := "" } : Key)) seen with
    | error e' => rw [hc] at h; simp only at h; injection h with h; subst h; exact visitKeys_chk_err X _ _ e' hc
    | ok s' => rw [hc] at h; simp only at h; exact visitKeys_err X rest s' e h
  | .grouped _ _ ty group _ as :: rest, seen, e, h => by
    simp only [visitKeys] at h
    exact visitKeys_err X rest _ e h
  | .object _ fs :: rest, seen, e, h => by
    simp only [visitKeys] at h
    cases hf : visitKeys X fs seen with
    | error e' => rw [hf] at h; simp only at h; injection h with h; subst h; exact visitKeys_err X fs seen e' hf
    | ok s' => rw [hf] at h; simp only at h; exact visitKeys_err X rest s' e h
end

mutual
theorem resultKeys_err (env : TyEnv) : ∀ (rs : List Result) (e : DErr), resultKeys env rs = .error e → DigRoot e
  | [], e, h => by simp [resultKeys] at h
  | .single _ _ ty name _ :: rest, e, h => by
    simp only [resultKeys] at h
    cases hr : resultKeys env rest with
    | ok ks => rw [hr] at h; cases h
    | error e' => rw [hr] at h; simp only at h; injection h with h; subst h; exact resultKeys_err env rest e' hr
  | .grouped _ _ ty group flatten _ :: rest, e, h => by
    simp only [resultKeys] at h
    split at h
    · injection h with h; subst h; exact digRoot_invalid0
    · split at h
      · injection h with h; subst h; exact digRoot_invalid0
      · cases hr : resultKeys env rest with
        | ok ks => rw [hr] at h; cases h
        | error e' => rw [hr] at h; simp only at h; injection h with h; subst h; exact resultKeys_err env rest e' hr
  | .object _ fs :: rest, e, h => by
    simp only [resultKeys] at h
    cases hf : resultKeys env fs with
    | error e' => rw [hf] at h; simp only at h; injection h with h; subst h; exact resultKeys_err env fs e' hf
    | ok k1 =>
      rw [hf] at h
      simp only at h
      cases hr : resultKeys env rest with
      | ok ks => rw [hr] at h; cases h
      | error e' => rw [hr] at h; simp only at h; injection h with h; subst h; exact resultKeys_err env rest e' hr
end

end Dig
