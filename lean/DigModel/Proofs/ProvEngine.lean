import DigModel.Proofs.Prov
import DigModel.Proofs.AList
/-
  The resolver preserves `Prov` and only ever returns values that stem from successful executions.
-/
namespace Dig

/-! ### extraction writes only values of the execution that just ended -/

theorem mem_agetL_aset {β : Type} (m : List (Key × List β)) (k k' : Key) (vs : List β) (v : β)
    (h : v ∈ agetL (aset m k vs) k') : v ∈ vs ∨ v ∈ agetL m k' := by
  unfold agetL at h ⊢
  rw [aget_aset] at h
  split at h
  · left; simpa using h
  · right; exact h

theorem scopeOk_submitAll {h : List Event} {sc : ScopeSt} (hs : ScopeOk h sc) (k : Key) (vs : List Val)
    (hv : ValsOk h vs) : ScopeOk h { sc with groups := submitAll sc.groups k vs } where
  values := hs.values
  dvalues := hs.dvalues
  dgroups := hs.dgroups
  groups k' v hm := by
    unfold submitAll at hm
    rcases mem_agetL_aset _ _ _ _ _ hm with h1 | h1
    · rcases List.mem_append.mp h1 with h2 | h2
      · exact hs.groups k v h2
      · exact hv v h2
    · exact hs.groups k' v h1

theorem scopeOk_setValues {h : List Event} (v : Val) (hv : ValOk h v) (name : String) :
    ∀ (tys : List Nat) (sc : ScopeSt), ScopeOk h sc →
      ScopeOk h { sc with values := tys.foldl (fun m t => aset m { ty := t, name := name, group := "" } v) sc.values } := by
  intro tys
  induction tys with
  | nil => intro sc hs; exact hs
  | cons t ts ih =>
    intro sc hs
    simp only [List.foldl_cons]
    have h1 : ScopeOk h { sc with values := aset sc.values { ty := t, name := name, group := "" } v } :=
      { values := fun k w hw => by
          simp only at hw
          rw [aget_aset] at hw
          split at hw
          · cases hw; exact hv
          · exact hs.values k w hw
        dvalues := hs.dvalues, groups := hs.groups, dgroups := hs.dgroups }
    exact ih _ h1

theorem scopeOk_submitEach {h : List Event} (v : Val) (hv : ValOk h v) (group : String) :
    ∀ (tys : List Nat) (sc : ScopeSt), ScopeOk h sc →
      ScopeOk h { sc with groups := tys.foldl (fun m t => submitAll m { ty := t, name := "", group := group } [v]) sc.groups } := by
  intro tys
  induction tys with
  | nil => intro sc hs; exact hs
  | cons t ts ih =>
    intro sc hs
    simp only [List.foldl_cons]
    have h1 := scopeOk_submitAll hs { ty := t, name := "", group := group } [v]
      (fun w hw => by simp at hw; subst hw; exact hv)
    exact ih _ h1

theorem scopeOk_extractResult (env : TyEnv) (h : List Event) (r : Ret) (hr : r.dry = false → OkExec h (r.f, r.x))
    (sc : ScopeSt) (x : Result) : ScopeOk h sc → ScopeOk h (extractResult env r sc x) := by
  apply extractResult.induct env r (fun sc x => ScopeOk h sc → ScopeOk h (extractResult env r sc x))
    (fun sc xs => ScopeOk h sc → ScopeOk h (extractResults env r sc xs))
  · intro sc slot decl ty name as hs
    simp only [extractResult]
    exact scopeOk_setValues _ (valOk_retVal env h r slot decl hr) name _ sc hs
  · intro sc slot decl ty group as hs
    simp only [extractResult, if_true]
    exact scopeOk_submitAll hs _ _ (valsOk_elemsOf (valOk_retVal env h r slot decl hr))
  · intro sc slot decl ty group flatten as hf hs
    simp only [extractResult, hf]
    exact scopeOk_submitEach _ (valOk_retVal env h r slot decl hr) group _ sc hs
  · intro sc ty fs ih hs; simp only [extractResult]; exact ih hs
  · intro sc hs; simp only [extractResults]; exact hs
  · intro sc x xs ih1 ih2 hs; simp only [extractResults]; exact ih2 (ih1 hs)

theorem scopeOk_extractDeco (env : TyEnv) (h : List Event) (r : Ret) (hr : r.dry = false → OkExec h (r.f, r.x))
    (sc : ScopeSt) (x : Result) : ScopeOk h sc → ScopeOk h (extractDeco env r sc x) := by
  apply extractDeco.induct env r (fun sc x => ScopeOk h sc → ScopeOk h (extractDeco env r sc x))
    (fun sc xs => ScopeOk h sc → ScopeOk h (extractDecos env r sc xs))
  · intro sc slot decl ty name as hs
    simp only [extractDeco]
    exact { values := hs.values, groups := hs.groups, dgroups := hs.dgroups
            dvalues := fun k w hw => by
              simp only at hw
              rw [aget_aset] at hw
              split at hw
              · cases hw; exact valOk_retVal env h r slot decl hr
              · exact hs.dvalues k w hw }
  · intro sc slot decl ty group f as hs
    simp only [extractDeco]
    exact { values := hs.values, groups := hs.groups, dvalues := hs.dvalues
            dgroups := fun k w hw => by
              simp only at hw
              rw [aget_aset] at hw
              split at hw
              · cases hw; exact valOk_retVal env h r slot decl hr
              · exact hs.dgroups k w hw }
  · intro sc ty fs ih hs; simp only [extractDeco]; exact ih hs
  · intro sc hs; simp only [extractDecos]; exact hs
  · intro sc x xs ih1 ih2 hs; simp only [extractDecos]; exact ih2 (ih1 hs)

theorem scopeOk_extractSlots (env : TyEnv) (h : List Event) (deco : Bool) (r : Ret)
    (hr : r.dry = false → OkExec h (r.f, r.x)) (slots : List RSlot) :
    ∀ sc, ScopeOk h sc → ScopeOk h (extractSlots env deco r sc slots) := by
  induction slots with
  | nil => intro sc hs; simp only [extractSlots]; exact hs
  | cons s rest ih =>
    intro sc hs
    cases s with
    | err => simp only [extractSlots]; exact ih sc hs
    | val x =>
      simp only [extractSlots]
      split
      · exact ih _ (scopeOk_extractDeco env h r hr sc x hs)
      · exact ih _ (scopeOk_extractResult env h r hr sc x hs)

/-! ### post-conditions carried through the resolver -/

def HistExt (a b : St) : Prop := ∃ l, b.hist = a.hist ++ l

theorem HistExt.refl (a : St) : HistExt a a := ⟨[], by simp⟩
theorem HistExt.trans {a b c : St} (h1 : HistExt a b) (h2 : HistExt b c) : HistExt a c := by
  obtain ⟨l1, e1⟩ := h1
  obtain ⟨l2, e2⟩ := h2
  exact ⟨l1 ++ l2, by rw [e2, e1, List.append_assoc]⟩
theorem HistExt.of_eq {a b : St} (h : b.hist = a.hist) : HistExt a b := ⟨[], by simp [h]⟩

/-- `Q` is a property of a result that stays true when the history grows -/
def Mono {α : Type} (Q : List Event → α → Prop) : Prop := ∀ h l a, Q h a → Q (h ++ l) a

theorem mono_valOk : Mono ValOk := fun _ l _ hv => hv.mono l
theorem mono_valsOk : Mono ValsOk := fun _ l _ hv => hv.mono l
theorem mono_true {α : Type} : Mono (fun (_ : List Event) (_ : α) => True) := fun _ _ _ _ => trivial
def OptOk (h : List Event) (o : Option Val) : Prop := ∀ v, o = some v → ValOk h v
theorem mono_optOk : Mono OptOk := fun _ l _ hv v hs => (hv v hs).mono l

/-- what running `m` from `st` guarantees -/
def PostR {α : Type} (Q : List Event → α → Prop) (st : St) (r : Except Fail α × St) : Prop :=
  Prov r.2 ∧ HistExt st r.2 ∧ ∀ a, r.1 = .ok a → Q r.2.hist a

abbrev Post {α : Type} (Q : List Event → α → Prop) (m : EM α) (st : St) : Prop := PostR Q st (m st)

theorem post_ret {α : Type} {Q : List Event → α → Prop} (st : St) (h : Prov st) (r : Except Fail α)
    (hq : ∀ a, r = .ok a → Q st.hist a) : PostR Q st (r, st) :=
  ⟨h, HistExt.refl st, hq⟩

theorem post_bind {α β : Type} {Q1 : List Event → α → Prop} {Q2 : List Event → β → Prop} {m : EM α} {f : α → EM β}
    (st : St) (hm : Post Q1 m st) (hf : ∀ a s, Prov s → HistExt st s → Q1 s.hist a → Post Q2 (f a) s) :
    PostR Q2 st (EM.bind m f st) := by
  unfold PostR EM.bind
  obtain ⟨p1, e1, q1⟩ := hm
  cases h : m st with
  | mk r s' =>
    rw [h] at p1 e1 q1
    cases r with
    | ok a =>
      obtain ⟨p2, e2, q2⟩ := hf a s' p1 e1 (q1 a rfl)
      exact ⟨p2, e1.trans e2, q2⟩
    | error e => exact ⟨p1, e1, fun a ha => by cases ha⟩

theorem post_wrapErr {α : Type} {Q : List Event → α → Prop} {m : EM α} (w : DErr → DErr) (st : St)
    (hm : Post Q m st) : PostR Q st (EM.wrapErr m w st) := by
  unfold PostR EM.wrapErr
  obtain ⟨p1, e1, q1⟩ := hm
  cases h : m st with
  | mk r s' =>
    rw [h] at p1 e1 q1
    cases r with
    | ok a => exact ⟨p1, e1, q1⟩
    | error e => cases e <;> exact ⟨p1, e1, fun a ha => by cases ha⟩

theorem post_finally {α : Type} {Q : List Event → α → Prop} {m : EM α} {fin : St → St} (st : St)
    (hm : Post Q m st) (hfin : ∀ s, Prov s → Prov (fin s) ∧ (fin s).hist = s.hist) :
    PostR Q st (EM.finally_ m fin st) := by
  unfold PostR EM.finally_
  obtain ⟨p1, e1, q1⟩ := hm
  cases h : m st with
  | mk r s' =>
    rw [h] at p1 e1 q1
    obtain ⟨p2, e2⟩ := hfin s' p1
    exact ⟨p2, e1.trans (HistExt.of_eq e2), fun a ha => by rw [e2]; exact q1 a ha⟩

/-- start from a state that differs from `st` only outside scopes and history -/
theorem post_from {α : Type} {Q : List Event → α → Prop} {m : EM α} (st st1 : St) (hh : st1.hist = st.hist)
    (hm : Post Q m st1) : PostR Q st (m st1) :=
  ⟨hm.1, (HistExt.of_eq hh).trans hm.2.1, hm.2.2⟩

theorem post_forEachM {α : Type} (xs : List α) (f : α → EM Unit)
    (hf : ∀ x s, Prov s → Post (fun _ _ => True) (f x) s) :
    ∀ st, Prov st → Post (fun _ _ => True) (forEachM xs f) st := by
  induction xs with
  | nil => intro st h; unfold forEachM; exact post_ret st h (.ok ()) (fun _ _ => trivial)
  | cons x rest ih =>
    intro st h
    unfold forEachM
    exact post_bind st (hf x st h) (fun _ s hs _ _ => ih s hs)

theorem post_firstM {α : Type} (xs : List α) (f : α → EM (Option Val))
    (hf : ∀ x s, Prov s → Post OptOk (f x) s) :
    ∀ st, Prov st → Post OptOk (firstM xs f) st := by
  induction xs with
  | nil => intro st h; unfold firstM; exact post_ret st h (.ok none) (fun a ha v hv => by cases ha; cases hv)
  | cons x rest ih =>
    intro st h
    unfold firstM
    refine post_bind st (hf x st h) ?_
    intro r s hs _ hq
    cases r with
    | none => exact ih s hs
    | some b => exact post_ret s hs (.ok (some b)) (fun a ha => by cases ha; exact hq)

theorem post_mapM {α : Type} (xs : List α) (f : α → EM Val)
    (hf : ∀ x s, Prov s → Post ValOk (f x) s) :
    ∀ st, Prov st → Post ValsOk (mapM' xs f) st := by
  induction xs with
  | nil =>
    intro st h; unfold mapM'
    exact post_ret st h (.ok []) (fun a ha v hv => by cases ha; cases hv)
  | cons x rest ih =>
    intro st h
    unfold mapM'
    refine post_bind st (hf x st h) ?_
    intro b s hs _ hb
    refine post_bind s (ih s hs) ?_
    intro bs s2 hs2 he hbs
    refine post_ret s2 hs2 (.ok (b :: bs)) ?_
    intro a ha v hv
    cases ha
    obtain ⟨l, el⟩ := he
    rcases List.mem_cons.mp hv with rfl | hv
    · rw [el]; exact hb.mono l
    · exact hbs v hv

/-! ### the leaf steps -/

theorem bodyRes_ok_x (ctx : Ctx) (fn : Fn) (st : St) (x len : Nat) (h : bodyRes ctx fn st = .ok x len) :
    x = st.execCount fn.id ∧ exitKind ctx fn (ctx.beh fn.id (st.execCount fn.id)) = .ok := by
  refine ⟨?_, (bodyRes_ok_iff ctx fn st).mp ⟨x, len, h⟩⟩
  unfold bodyRes at h
  cases hk : (ctx.beh fn.id (st.execCount fn.id)).k
  · simp [hk] at h; exact h.1.symm
  · by_cases he : (errOuts ctx.env fn).isEmpty <;> simp [hk, he] at h
    exact h.1.symm
  · simp [hk] at h

/-- running a user function: the two events keep the invariant, and a normal return means a successful exit is
    now part of the history -/
theorem prov_callBody (ctx : Ctx) (who : Who) (fn : Fn) (args : List Val) (st : St) (h : Prov st)
    (ha : ValsOk st.hist args) :
    Prov (callBody ctx who fn args st).2 ∧ HistExt st (callBody ctx who fn args st).2 ∧
    (who ≠ .invoked → ∀ x len, (callBody ctx who fn args st).1 = .ok x len →
      OkExec (callBody ctx who fn args st).2.hist (fn.id, x)) := by
  by_cases hd : ctx.cfg.dry = true
  · rw [callBody_dry ctx hd]
    exact ⟨h, HistExt.refl st, fun _ x len hx => by cases hx⟩
  · have hnd : ctx.cfg.dry = false := by simpa using hd
    rw [callBody_spec ctx hnd]
    refine ⟨?_, ⟨bodyEvents ctx who fn args st, rfl⟩, ?_⟩
    · refine h.ext (bodyEvents ctx who fn args st) rfl (afterBody_fields ctx who fn args st).1 ?_
      unfold bodyEvents
      simp only
      have e : st.hist ++ [Event.enter who fn.id (st.execCount fn.id) args,
          Event.exit who fn.id (st.execCount fn.id) (exitKind ctx fn (ctx.beh fn.id (st.execCount fn.id)))] =
          (st.hist ++ [Event.enter who fn.id (st.execCount fn.id) args]) ++
          [Event.exit who fn.id (st.execCount fn.id) (exitKind ctx fn (ctx.beh fn.id (st.execCount fn.id)))] := by simp
      rw [e]
      refine argsOk_snoc (argsOk_snoc h.args ?_) (fun w f x a he => by cases he)
      intro w f x a he
      cases he
      exact ha
    · intro hw x len hx
      simp only at hx
      obtain ⟨rfl, hk⟩ := bodyRes_ok_x ctx fn st x len hx
      refine ⟨who, hw, ?_⟩
      show Event.exit who fn.id (st.execCount fn.id) .ok ∈ st.hist ++ bodyEvents ctx who fn args st
      unfold bodyEvents
      simp [hk]

theorem prov_runCallback (cb : Option Nat) (who : Who) (fn start : Nat) (err : Option DErr) (st : St) (h : Prov st) :
    Prov (runCallback cb who fn start err st) ∧ HistExt st (runCallback cb who fn start err st) := by
  unfold runCallback
  split
  · exact ⟨h.emit _ (fun w f x a he => by cases he), ⟨[_], rfl⟩⟩
  · exact ⟨h, HistExt.refl st⟩

theorem prov_commit (env : TyEnv) (deco : Bool) (ret : Ret) (s : Nat) (slots : List RSlot) (st : St) (h : Prov st)
    (hr : ret.dry = false → OkExec st.hist (ret.f, ret.x)) :
    Prov (st.modScope s fun sc => extractSlots env deco ret sc slots) :=
  h.modScope s _ (scopeOk_extractSlots env st.hist deco ret hr slots _)

theorem prov_ctorCommit (ctx : Ctx) (n : Nat) (node : CtorNode) (r : BodyRes) (st : St) (h : Prov st)
    (hr : ∀ x len, r = .ok x len → OkExec st.hist (node.fn.id, x)) :
    Prov (ctorCommit ctx n node r st) ∧ (ctorCommit ctx n node r st).hist = st.hist := by
  refine ⟨?_, (ctorCommit_fields ctx n node r st).2.1⟩
  unfold ctorCommit
  cases r with
  | ok x len =>
    exact (prov_commit ctx.env false _ node.s node.results st h (fun _ => hr x len rfl)).of_scopes rfl rfl
  | dry =>
    exact (prov_commit ctx.env false _ node.s node.results st h (fun hd => by cases hd)).of_scopes rfl rfl
  | err x o => exact h
  | panic x => exact h

theorem prov_decoCommit (ctx : Ctx) (d : Nat) (node : DecoNode) (r : BodyRes) (st : St) (h : Prov st)
    (hr : ∀ x len, r = .ok x len → OkExec st.hist (node.fn.id, x)) :
    Prov (decoCommit ctx d node r st) ∧ (decoCommit ctx d node r st).hist = st.hist := by
  refine ⟨?_, (decoCommit_fields ctx d node r st).2.1⟩
  unfold decoCommit
  cases r with
  | ok x len =>
    exact (prov_commit ctx.env true _ node.s node.results st h (fun _ => hr x len rfl)).of_scopes rfl rfl
  | dry =>
    exact (prov_commit ctx.env true _ node.s node.results st h (fun hd => by cases hd)).of_scopes rfl rfl
  | err x o => exact h
  | panic x => exact h

theorem prov_ctorTail (ctx : Ctx) (n : Nat) (node : CtorNode) (args : List Val) (st : St) (h : Prov st)
    (ha : ValsOk st.hist args) : Post (fun _ _ => True) (ctorTail ctx n node args) st := by
  obtain ⟨p1, e1, q1⟩ := prov_callBody ctx (.ctor n) node.fn args st h ha
  obtain ⟨p2, e2⟩ := prov_ctorCommit ctx n node (callBody ctx (.ctor n) node.fn args st).1 _ p1
    (q1 (by intro hc; cases hc))
  obtain ⟨p3, e3⟩ := prov_runCallback node.cb (.ctor n) node.fn.id st.clock
    (ctorOutcome ctx node.fn.id (callBody ctx (.ctor n) node.fn args st).1).2 _ p2
  exact ⟨p3, e1.trans ((HistExt.of_eq e2).trans e3), fun _ _ => trivial⟩

theorem prov_decoTail (ctx : Ctx) (d : Nat) (node : DecoNode) (args : List Val) (st : St) (h : Prov st)
    (ha : ValsOk st.hist args) : Post (fun _ _ => True) (decoTail ctx d node args) st := by
  obtain ⟨p1, e1, q1⟩ := prov_callBody ctx (.deco d) node.fn args st h ha
  obtain ⟨p2, e2⟩ := prov_decoCommit ctx d node (callBody ctx (.deco d) node.fn args st).1 _ p1
    (q1 (by intro hc; cases hc))
  obtain ⟨p3, e3⟩ := prov_runCallback node.cb (.deco d) node.fn.id st.clock
    (decoOutcome ctx node.fn.id (callBody ctx (.deco d) node.fn args st).1).2 _ p2
  exact ⟨p3, e1.trans ((HistExt.of_eq e2).trans e3), fun _ _ => trivial⟩

/-! ### the resolver -/

theorem interleave_mem (fs : List Param) : ∀ (hard soft : List Val) (v : Val),
    v ∈ interleave fs hard soft → v ∈ hard ∨ v ∈ soft := by
  induction fs with
  | nil => intro hard soft v hv; simp [interleave] at hv
  | cons p ps ih =>
    intro hard soft v hv
    cases p with
    | grouped ty k sf pg =>
      cases sf with
      | true =>
        cases soft with
        | nil =>
          simp only [interleave] at hv
          exact ih _ _ v hv
        | cons w soft' =>
          simp only [interleave, List.mem_cons] at hv
          rcases hv with rfl | hv
          · right; simp
          · rcases ih _ _ v hv with h1 | h1
            · left; exact h1
            · right; simp [h1]
      | false =>
        cases hard with
        | nil => simp only [interleave] at hv; exact ih _ _ v hv
        | cons w hard' =>
          simp only [interleave, List.mem_cons] at hv
          rcases hv with rfl | hv
          · left; simp
          · rcases ih _ _ v hv with h1 | h1
            · left; simp [h1]
            · right; exact h1
    | single k opt =>
      cases hard with
      | nil => simp only [interleave] at hv; exact ih _ _ v hv
      | cons w hard' =>
        simp only [interleave, List.mem_cons] at hv
        rcases hv with rfl | hv
        · left; simp
        · rcases ih _ _ v hv with h1 | h1
          · left; simp [h1]
          · right; exact h1
    | object ty fs' =>
      cases hard with
      | nil => simp only [interleave] at hv; exact ih _ _ v hv
      | cons w hard' =>
        simp only [interleave, List.mem_cons] at hv
        rcases hv with rfl | hv
        · left; simp
        · rcases ih _ _ v hv with h1 | h1
          · left; simp [h1]
          · right; exact h1

theorem findDecoratedValue_ok (st : St) (h : Prov st) (k : Key) : ∀ (anc : List Nat) (v : Val),
    findDecoratedValue st k anc = some v → ValOk st.hist v := by
  intro anc
  induction anc with
  | nil => intro v hv; simp [findDecoratedValue] at hv
  | cons s rest ih =>
    intro v hv
    simp only [findDecoratedValue] at hv
    split at hv
    · rename_i w hw; cases hv; exact (h.scopes s).dvalues k _ hw
    · exact ih v hv

theorem findDecoratedGroup_ok (st : St) (h : Prov st) (k : Key) : ∀ (anc : List Nat) (v : Val),
    findDecoratedGroup st k anc = some v → ValOk st.hist v := by
  intro anc
  induction anc with
  | nil => intro v hv; simp [findDecoratedGroup] at hv
  | cons s rest ih =>
    intro v hv
    simp only [findDecoratedGroup] at hv
    split at hv
    · rename_i w hw; cases hv; exact (h.scopes s).dgroups k _ hw
    · exact ih v hv

theorem findProviders_ok (st : St) (h : Prov st) (k : Key) : ∀ (anc : List Nat) (v : Val),
    findProviders st k anc = .value v → ValOk st.hist v := by
  intro anc
  induction anc with
  | nil => intro v hv; simp [findProviders] at hv
  | cons s rest ih =>
    intro v hv
    simp only [findProviders] at hv
    split at hv
    · rename_i w hw; cases hv; exact (h.scopes s).values k _ hw
    · split at hv
      · exact ih v hv
      · cases hv

theorem providerStep_post (env : TyEnv) (k : Key) (opt : Bool) (cid : Nat) (m : EM Unit) (st : St)
    (hm : Post (fun _ _ => True) m st) :
    PostR OptOk st (providerStep env k opt cid (m st)) := by
  obtain ⟨p1, e1, _⟩ := hm
  unfold PostR
  simp only [providerStep_state]
  refine ⟨p1, e1, ?_⟩
  intro a ha v hv
  subst hv
  unfold providerStep at ha
  cases hms : m st with
  | mk r s2 =>
    rw [hms] at ha
    cases r with
    | ok u => cases ha
    | error e =>
      cases e with
      | err e =>
        simp only at ha
        split at ha
        · cases ha; exact valOk_zeroVal _ env k.ty
        · cases ha
      | panic f x => cases ha
      | bug => cases ha
      | fuel => cases ha

theorem post_shallowCheck (c : Nat) (ps : List Param) (st : St) (h : Prov st) :
    Post (fun _ _ => True) (shallowCheck c ps) st := by
  simp only [Post, shallowCheck]
  split <;> exact post_ret st h _ (fun _ _ => trivial)

/-- the resolver keeps `Prov`; the values it returns stem from successful executions -/
theorem engine_prov (ctx : Ctx) :
    ∀ fuel,
      (∀ n c st, Prov st → Post (fun _ _ => True) (callCtor ctx fuel n c) st) ∧
      (∀ d s st, Prov st → Post (fun _ _ => True) (callDeco ctx fuel d s) st) ∧
      (∀ k opt c st, Prov st → Post ValOk (buildSingle ctx fuel k opt c) st) ∧
      (∀ k soft c st, Prov st → Post ValOk (buildGroup ctx fuel k soft c) st) ∧
      (∀ p c st, Prov st → Post ValOk (buildParam ctx fuel p c) st) ∧
      (∀ ps c st, Prov st → Post ValsOk (buildList ctx fuel ps c) st) := by
  intro fuel
  induction fuel with
  | zero =>
    refine ⟨?_, ?_, ?_, ?_, ?_, ?_⟩ <;> intros <;> rename_i st h
    · simp only [Post, callCtor]; exact post_ret st h _ (fun _ ha => by cases ha)
    · simp only [Post, callDeco]; exact post_ret st h _ (fun _ ha => by cases ha)
    · simp only [Post, buildSingle]; exact post_ret st h _ (fun _ ha => by cases ha)
    · simp only [Post, buildGroup]; exact post_ret st h _ (fun _ ha => by cases ha)
    · simp only [Post, buildParam]; exact post_ret st h _ (fun _ ha => by cases ha)
    · simp only [Post, buildList]; exact post_ret st h _ (fun _ ha => by cases ha)
  | succ fuel ih =>
    obtain ⟨ihC, ihD, ihS, ihG, ihP, ihL⟩ := ih
    refine ⟨?_, ?_, ?_, ?_, ?_, ?_⟩
    · -- callCtor
      intro n c st h
      simp only [Post, callCtor]
      split
      · exact post_ret st h _ (fun _ _ => trivial)
      · split
        · exact post_ret st h _ (fun _ _ => trivial)
        · have h1 : Prov (st.modCtor n fun x => { x with onStack := true }) := h.of_scopes rfl rfl
          refine post_from st _ rfl ?_
          refine post_finally _ ?_ (fun s hs => ⟨hs.of_scopes rfl rfl, rfl⟩)
          refine post_bind _ (post_shallowCheck c _ _ h1) ?_
          · intro _ s2 hs2 _ _
            refine post_bind s2 (post_wrapErr _ s2 (ihL _ _ s2 hs2)) ?_
            intro args s3 hs3 _ hargs
            exact prov_ctorTail ctx n _ args s3 hs3 hargs
    · -- callDeco
      intro d s st h
      simp only [Post, callDeco]
      split
      · exact post_ret st h _ (fun _ _ => trivial)
      · have h1 : Prov (st.modDeco d fun x => { x with state := .onStack }) := h.of_scopes rfl rfl
        refine post_from st _ rfl ?_
        refine post_finally _ ?_ (fun s hs => ⟨hs.of_scopes rfl rfl, rfl⟩)
        refine post_bind _ (post_shallowCheck s _ _ h1) ?_
        · intro _ s2 hs2 _ _
          refine post_bind s2 (post_wrapErr _ s2 (ihL _ _ s2 hs2)) ?_
          intro args s3 hs3 _ hargs
          exact prov_decoTail ctx d _ args s3 hs3 hargs
    · -- buildSingle
      intro k opt c st h
      simp only [Post, buildSingle]
      split
      · refine post_bind st (post_wrapErr _ st (ihD _ _ st h)) ?_
        intro _ s' hs' _ _
        try simp only [Post]
        split
        · rename_i v hv
          exact post_ret s' hs' _ (fun a ha => by cases ha; exact (hs'.scopes _).dvalues k _ hv)
        · exact post_ret s' hs' _ (fun a ha => by cases ha)
      · split
        · rename_i v hv
          exact post_ret st h _ (fun a ha => by cases ha; exact findDecoratedValue_ok st h k _ _ hv)
        · split
          · rename_i v hv
            exact post_ret st h _ (fun a ha => by cases ha; exact findProviders_ok st h k _ _ hv)
          · split
            · exact post_ret st h _ (fun a ha => by cases ha; exact valOk_zeroVal _ _ _)
            · exact post_ret st h _ (fun a ha => by cases ha)
          · refine post_bind st (post_firstM _ _ ?_ st h) ?_
            · intro n s1 hs1
              exact providerStep_post ctx.env k opt _ _ s1 (ihC _ _ s1 hs1)
            · intro early s' hs' _ hearly
              try simp only [Post]
              split
              · rename_i z
                exact post_ret s' hs' _ (fun a ha => by cases ha; exact hearly z rfl)
              · split
                · rename_i v hv
                  exact post_ret s' hs' _ (fun a ha => by cases ha; exact (hs'.scopes _).values k _ hv)
                · exact post_ret s' hs' _ (fun a ha => by cases ha)
    · -- buildGroup
      intro k soft c st h
      simp only [Post, buildGroup]
      refine post_bind st (post_forEachM _ _ ?_ st h) ?_
      · intro s s1 hs1
        try simp only [Post]
        split
        · split
          · exact post_ret s1 hs1 _ (fun _ _ => trivial)
          · exact post_wrapErr _ s1 (ihD _ _ s1 hs1)
        · exact post_ret s1 hs1 _ (fun _ _ => trivial)
      · intro _ s2 hs2 _ _
        try simp only [Post]
        split
        · rename_i v hv
          exact post_ret s2 hs2 _ (fun a ha => by cases ha; exact findDecoratedGroup_ok s2 hs2 k _ _ hv)
        · refine post_bind s2 (Q1 := fun _ _ => True) ?_ ?_
          · split
            · exact post_ret s2 hs2 _ (fun _ _ => trivial)
            · refine post_forEachM _ _ ?_ s2 hs2
              intro s s3 hs3
              refine post_forEachM _ _ ?_ s3 hs3
              intro n s4 hs4
              exact post_wrapErr _ s4 (ihC _ _ s4 hs4)
          · intro _ s5 hs5 _ _
            refine post_ret s5 hs5 _ ?_
            intro a ha
            cases ha
            rw [valOk_sl]
            intro v hv
            obtain ⟨s, _, hm⟩ := List.mem_flatMap.mp hv
            exact (hs5.scopes s).groups k v hm
    · -- buildParam
      intro p c st h
      cases p with
      | single k opt => simp only [Post, buildParam]; exact ihS k opt c st h
      | grouped ty k soft pg => simp only [Post, buildParam]; exact ihG k soft c st h
      | object ty fs =>
        simp only [Post, buildParam]
        refine post_bind st (post_mapM _ _ (fun f s hs => ihP f c s hs) st h) ?_
        intro hard s1 hs1 _ hhard
        refine post_bind s1 (post_mapM _ _ (fun f s hs => ihP f c s hs) s1 hs1) ?_
        intro soft s2 hs2 he hsoft
        refine post_ret s2 hs2 _ ?_
        intro a ha
        cases ha
        rw [valOk_obj]
        intro v hv
        obtain ⟨l, el⟩ := he
        rcases interleave_mem fs hard soft v hv with h1 | h1
        · rw [el]; exact (hhard v h1).mono l
        · exact hsoft v h1
    · -- buildList
      intro ps c st h
      simp only [Post, buildList]
      exact post_mapM _ _ (fun p s hs => ihP p c s hs) st h

end Dig
