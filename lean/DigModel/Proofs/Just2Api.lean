import DigModel.Proofs.Just2
import DigModel.Proofs.RegOKApi
/-
  `Just2` is an invariant of the whole API.
-/
namespace Dig

theorem Just2.cacheSame {env : TyEnv} {a b : St} (h : Just2 env a) (hc : CacheSame a b) (hk : CtorsKeep a b)
    (hd : DecosKeep a b) : Just2 env b :=
  h.transfer hk hd (HistExt.of_eq hc.1) (fun j => ⟨(hc.2.2 j).2.2.1, (hc.2.2 j).2.1, (hc.2.2 j).2.2.2⟩)

theorem Just2.provide {env : TyEnv} {st : St} (h : Just2 env st) (ctx : Ctx) (fn : Fn) (i s : Nat) (o : ProvideOpts) :
    Just2 env (apiProvide ctx fn st i s o).1 := by
  have hcs := cacheSame_apiProvide ctx fn st i s o
  rcases apiProvide_work ctx fn st i s o with he | ⟨target, w, hw, hr | ⟨n, hr⟩⟩
  · exact h.cacheSame hcs (ctorsKeep_of_ctors_eq he.1.symm) (decosKeep_of_decos_eq he.2.1.symm)
  · refine h.cacheSame hcs ?_ ?_
    · rw [hr]; exact ctorsKeep_work hw
    · rw [hr]; exact decosKeep_of_decos_eq hw.decos
  · refine h.cacheSame hcs ?_ ?_
    · rw [hr]; exact (ctorsKeep_work hw).trans (ctorsKeep_of_ctors_eq rfl)
    · rw [hr]; exact decosKeep_of_decos_eq hw.decos

theorem rollback_decos (st w : St) (target : Nat) (l : List Nat) : (rollbackProvide st w target l).decos = w.decos := by
  unfold rollbackProvide
  simp only
  have h1 : ∀ (l : List Nat) (w : St), (l.foldl (fun w sc =>
      w.modScope sc fun x => { x with gh := x.gh.take (st.scope sc).gh.length }) w).decos = w.decos := by
    intro l
    induction l with
    | nil => intro w; rfl
    | cons sc rest ih => intro w; simp only [List.foldl_cons]; rw [ih]; rfl
  show (St.modScope _ target _).decos = _
  show (List.foldl _ w l).decos = _
  exact h1 l w

theorem decosKeep_append (a : St) (node : DecoNode) (b : St) (h : b.decos = a.decos ++ [node]) : DecosKeep a b := by
  intro d hd
  have : b.deco d = a.deco d := by
    simp only [St.deco, h, List.getD_eq_getElem?_getD, List.getElem?_append_left hd]
  exact ⟨by rw [h]; simp; omega, by rw [this], by rw [this], by rw [this]⟩

theorem apiDecorate_decosKeep (ctx : Ctx) (fn : Fn) (st : St) (i s : Nat) (cb info : Bool) :
    DecosKeep st (apiDecorate ctx fn st i s cb info).1 := by
  unfold apiDecorate
  cases fn.nonfunc with
  | some _ => exact DecosKeep.refl st
  | none =>
    simp only
    have hg1 := (ghOnly_parseParams ctx.env st s fn).2.1
    cases hpp : parseParams ctx.env st s fn with
    | mk r w1 =>
      rw [hpp] at hg1
      simp only at hg1
      have hrej : ∀ l, DecosKeep st (rollbackProvide st w1 s l) := fun l =>
        decosKeep_of_decos_eq ((rollback_decos st w1 s l).trans hg1.symm)
      cases r with
      | error e1 => exact hrej _
      | ok params =>
        simp only
        cases newResultList ctx.env {} fn with
        | error e2 => exact hrej _
        | ok results =>
          simp only
          cases resultKeys ctx.env (slotResults results) with
          | error e3 => exact hrej _
          | ok keys =>
            simp only
            split
            · exact hrej _
            · exact decosKeep_append st _ _ (by show w1.decos ++ _ = _; rw [← hg1])

theorem Just2.scope {env : TyEnv} {st : St} (h : Just2 env st) (parent : Nat) : Just2 env (apiScope st parent) := by
  refine h.cacheSame (cacheSame_apiScope st parent) (ctorsKeep_apiScope st parent) ?_
  let c : ScopeSt := { parent := some parent, gh := (st.scope parent).gh }
  let st1 : St := { st with scopes := st.scopes ++ [c] }
  let st2 : St := st1.modScope parent fun x => { x with children := x.children ++ [st.scopes.length] }
  have hdef : apiScope st parent = (st.scope parent).gh.foldl (copyOrder st.scopes.length parent) st2 := rfl
  rw [hdef]
  exact decosKeep_of_decos_eq (copyOrder_fold st.scopes.length parent (st.scope parent).gh st2).2.1

theorem Just2.invoke {st : St} (ctx : Ctx) (h : Just2 ctx.env st) (fn : Fn) (s : Nat) (info : Bool) :
    Just2 ctx.env (apiInvoke ctx fn st s info).1 := by
  unfold apiInvoke
  cases fn.nonfunc with
  | some _ => exact h
  | none =>
    simp only
    have hg := ghOnly_parseParams ctx.env st s fn
    have hw := h.cacheSame (cacheSame_ghOnly hg) (ctorsKeep_of_ctors_eq hg.1.symm) (decosKeep_of_decos_eq hg.2.1.symm)
    cases hpp : parseParams ctx.env st s fn with
    | mk r w =>
      rw [hpp] at hw hg
      simp only at hw hg
      cases r with
      | error e =>
        exact hw.cacheSame (cacheSame_rollback _ _ _ _)
          (ctorsKeep_of_ctors_eq ((rollback_ctors_same st w s _ hg.1.symm).trans hg.1))
          (decosKeep_of_decos_eq (rollback_decos st w s _))
      | ok params =>
        simp only
        have hs := shallowCheck_state s params w
        cases hsc : shallowCheck s params w with
        | mk r2 w2 =>
          rw [hsc] at hs; simp only at hs; subst hs
          cases r2 with
          | error f => exact hw
          | ok u =>
            simp only
            split
            · exact hw
            · rename_i w3 hchk
              have hw3 : Just2 ctx.env w3 := by
                split at hchk
                · injection hchk with e; rw [← e]; exact hw
                · split at hchk
                  · injection hchk with e; rw [← e]
                    exact hw.cacheSame (cacheSame_modScope _ s _ (fun _ => ⟨rfl, rfl, rfl, rfl⟩)) (ctorsKeep_of_ctors_eq rfl)
                      (decosKeep_of_decos_eq rfl)
                  · cases hchk
                  · cases hchk
              have hb := hw3.buildList (engineFuel w3 params) params s
              rw [← wrapErr_state _ DErr.argsFailed] at hb
              cases hbl : EM.wrapErr (Dig.buildList ctx (engineFuel w3 params) params s) DErr.argsFailed w3 with
              | mk r4 w4 =>
                rw [hbl] at hb
                cases r4 with
                | error f => exact hb
                | ok args =>
                  simp only
                  have hf := callBody_fields ctx .invoked fn args w4
                  exact hb.transfer (ctorsKeep_of_ctors_eq hf.2.1) (decosKeep_of_decos_eq hf.2.2.1)
                    (prov_callBody_hist ctx .invoked fn args w4)
                    (fun j => by rw [scope_of_scopes_eq hf.1 j]; exact ⟨rfl, rfl, rfl⟩)

theorem Just2.step {st : St} (ctx : Ctx) (h : Just2 ctx.env st) (fns : List Fn) (i : Nat) (op : Op) :
    Just2 ctx.env (Dig.step ctx fns st i op).1 := by
  have h0 : Just2 ctx.env { st with log := [] } :=
    h.transfer (ctorsKeep_of_ctors_eq rfl) (decosKeep_of_decos_eq rfl) (HistExt.of_eq rfl) (fun _ => ⟨rfl, rfl, rfl⟩)
  cases op with
  | scope p =>
    simp only [Dig.step]
    split
    · exact h0.scope p
    · exact h0
  | provide s f o =>
    simp only [Dig.step]
    split
    · split
      · exact h0.provide ctx _ i s o
      · exact h0
    · exact h0
  | decorate s f cb info =>
    simp only [Dig.step]
    split
    · split
      · exact h0.cacheSame (cacheSame_apiDecorate ctx _ _ i s cb info) (ctorsKeep_of_ctors_eq (apiDecorate_ctors ctx _ _ i s cb info))
          (apiDecorate_decosKeep ctx _ _ i s cb info)
      · exact h0
    · exact h0
  | invoke s f info =>
    simp only [Dig.step]
    split
    · split
      · exact Just2.invoke ctx h0 _ s info
      · exact h0
    · exact h0
  | visualize s e => cases e <;> (simp only [Dig.step]; split <;> exact h0)
  | string s => simp only [Dig.step]; split <;> exact h0

theorem Just2.runOps (ctx : Ctx) (fns : List Fn) : ∀ (ops : List Op) (i : Nat) (st : St) (acc : List OpRes),
    Just2 ctx.env st → Just2 ctx.env (Dig.runOps ctx fns ops i st acc).1 := by
  intro ops
  induction ops with
  | nil => intro i st acc h; exact h
  | cons op rest ih =>
    intro i st acc h
    simp only [Dig.runOps]
    have := Just2.step ctx h fns i op
    cases hs : Dig.step ctx fns st i op with
    | mk st' r =>
      rw [hs] at this
      exact ih _ _ _ this

theorem just2_program (p : Program) : Just2 p.types (runProgram p).1 :=
  Just2.runOps p.ctx p.fns p.ops 0 {} [] (Just2.init p.types)

end Dig
