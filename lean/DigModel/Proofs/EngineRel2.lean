import DigModel.Proofs.Frame
/-
  Refinement of `engine_pres`: the relation may rely on the fact that the node
  description handed to the two tails is the (static part of the) node stored
  in the state, because the resolver never changes the registry.
-/
namespace Dig

structure LeafRel2 (ctx : Ctx) (R : St → St → Prop) : Prop extends StepRel R where
  toReg : ∀ {a b}, R a b → RegFrame a b
  setOnStack : ∀ st n, R st (st.modCtor n fun x => { x with onStack := true })
  clearOnStack : ∀ st n, R st (st.modCtor n fun x => { x with onStack := false })
  ctorTail : ∀ st n node args, CtorStatic node (st.ctor n) → R st (ctorTail ctx n node args st).2
  decoOnStack : ∀ st d, R st (st.modDeco d fun x => { x with state := .onStack })
  decoFinally : ∀ st d, R st (st.modDeco d fun x => if x.state == .called then x else { x with state := .ready })
  decoTail : ∀ st d node args, DecoStatic node (st.deco d) → R st (decoTail ctx d node args st).2

/-- bind from a given start state, the continuation knowing that its state is reachable -/
theorem bind_from {R : St → St → Prop} (hR : StepRel R) {α β : Type} {m : EM α} {f : α → EM β} (st1 : St)
    (hm : R st1 (m st1).2) (hf : ∀ a s, R st1 s → R s (f a s).2) : R st1 (EM.bind m f st1).2 := by
  unfold EM.bind
  cases h : m st1 with
  | mk r s' =>
    rw [h] at hm
    cases r with
    | ok a => exact hR.trans hm (hf a s' hm)
    | error e => exact hm

theorem finally_from {R : St → St → Prop} (hR : StepRel R) {α : Type} {m : EM α} {fin : St → St} (st1 : St)
    (hm : R st1 (m st1).2) (hfin : ∀ st, R st (fin st)) : R st1 (EM.finally_ m fin st1).2 := by
  unfold EM.finally_
  cases h : m st1 with
  | mk r s' =>
    rw [h] at hm
    exact hR.trans hm (hfin s')

theorem engine_pres2 (ctx : Ctx) {R : St → St → Prop} (h : LeafRel2 ctx R) :
    ∀ fuel,
      (∀ n c, Pres R (callCtor ctx fuel n c)) ∧
      (∀ d s, Pres R (callDeco ctx fuel d s)) ∧
      (∀ k opt c, Pres R (buildSingle ctx fuel k opt c)) ∧
      (∀ k soft c, Pres R (buildGroup ctx fuel k soft c)) ∧
      (∀ p c, Pres R (buildParam ctx fuel p c)) ∧
      (∀ ps c, Pres R (buildList ctx fuel ps c)) := by
  have hR : StepRel R := h.toStepRel
  intro fuel
  induction fuel with
  | zero =>
    refine ⟨?_, ?_, ?_, ?_, ?_, ?_⟩ <;> intros <;> intro st
    · simp only [callCtor]; exact hR.refl st
    · simp only [callDeco]; exact hR.refl st
    · simp only [buildSingle]; exact hR.refl st
    · simp only [buildGroup]; exact hR.refl st
    · simp only [buildParam]; exact hR.refl st
    · simp only [buildList]; exact hR.refl st
  | succ fuel ih =>
    obtain ⟨ihC, ihD, ihS, ihG, ihP, ihL⟩ := ih
    refine ⟨?_, ?_, ?_, ?_, ?_, ?_⟩
    · -- callCtor
      intro n c st
      simp only [callCtor]
      split
      · exact hR.refl st
      · split
        · exact hR.refl st
        · have h1 := h.setOnStack st n
          refine hR.trans h1 ?_
          apply finally_from hR _ _ (fun s => h.clearOnStack s n)
          apply bind_from hR _ (pres_shallowCheck hR _ _ _)
          intro _ s2 h2
          apply bind_from hR _ (pres_wrapErr hR _ (ihL _ _) _)
          intro args s3 h3
          have hreg := h.toReg (hR.trans h1 (hR.trans h2 h3))
          exact h.ctorTail s3 n _ args (hreg.2.2.2.2.1 n)
    · -- callDeco
      intro d s st
      simp only [callDeco]
      split
      · exact hR.refl st
      · have h1 := h.decoOnStack st d
        refine hR.trans h1 ?_
        apply finally_from hR _ _ (fun s => h.decoFinally s d)
        apply bind_from hR _ (pres_shallowCheck hR _ _ _)
        intro _ s2 h2
        apply bind_from hR _ (pres_wrapErr hR _ (ihL _ _) _)
        intro args s3 h3
        have hreg := h.toReg (hR.trans h1 (hR.trans h2 h3))
        exact h.decoTail s3 d _ args (hreg.2.2.2.2.2.2 d)
    · -- buildSingle
      intro k opt c st
      simp only [buildSingle]
      split
      · apply pres_bind hR (pres_wrapErr hR _ (ihD _ _))
        intro _ s'
        simp only
        split <;> exact hR.refl s'
      · split
        · exact hR.refl st
        · split
          · exact hR.refl st
          · split <;> exact hR.refl st
          · apply pres_bind hR
            · apply pres_firstM hR
              intro n s1
              rw [providerStep_state]
              exact ihC _ _ s1
            · intro early s'
              simp only
              split
              · exact hR.refl s'
              · split <;> exact hR.refl s'
    · -- buildGroup
      intro k soft c st
      simp only [buildGroup]
      apply pres_bind hR
      · apply pres_forEachM hR
        intro s s1
        simp only
        split
        · split
          · exact hR.refl s1
          · exact pres_wrapErr hR _ (ihD _ _) s1
        · exact hR.refl s1
      · intro _ s2
        simp only
        split
        · exact hR.refl s2
        · apply pres_bind hR
          · split
            · exact pres_pure hR ()
            · apply pres_forEachM hR
              intro s s3
              apply pres_forEachM hR
              intro n s4
              exact pres_wrapErr hR _ (ihC _ _) s4
          · intro _ s5
            exact hR.refl s5
    · -- buildParam
      intro p c
      cases p with
      | single k opt => simp only [buildParam]; exact ihS k opt c
      | grouped ty k soft pg => simp only [buildParam]; exact ihG k soft c
      | object ty fs =>
        simp only [buildParam]
        apply pres_bind hR (pres_mapM hR _ (fun f => ihP f c))
        intro hard
        apply pres_bind hR (pres_mapM hR _ (fun f => ihP f c))
        intro soft
        exact pres_pure hR _
    · -- buildList
      intro ps c
      simp only [buildList]
      exact pres_mapM hR _ (fun p => ihP p c)

end Dig
