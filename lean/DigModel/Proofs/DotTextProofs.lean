import DigModel.DotText
/-
  For every string: the escaped text has no raw angle bracket, every ampersand in it starts a character reference, it
  displays the string it was made from, and the DOT lexer reads the label as one HTML string that ends exactly where
  the label ends.
-/
namespace Dig.DotText

theorem escChar_noAngle (c : Char) : '<' ∉ escChar c ∧ '>' ∉ escChar c := by
  unfold escChar
  split <;> first | decide | (constructor <;> (simp only [List.mem_singleton]; intro h; exact absurd h.symm (by assumption)))

theorem esc_noAngle (s : List Char) : '<' ∉ esc s ∧ '>' ∉ esc s := by
  unfold esc
  constructor
  · intro h
    obtain ⟨c, _, hc⟩ := List.mem_flatMap.mp h
    exact (escChar_noAngle c).1 hc
  · intro h
    obtain ⟨c, _, hc⟩ := List.mem_flatMap.mp h
    exact (escChar_noAngle c).2 hc

theorem esc_cons (c : Char) (s : List Char) : esc (c :: s) = escChar c ++ esc s := by
  simp [esc]

end Dig.DotText

namespace Dig.DotText

theorem unesc_cons_ne (c : Char) (rest : List Char) (h : c ≠ '&') : unesc (c :: rest) = c :: unesc rest := by
  conv => lhs; unfold unesc
  split <;> simp_all

theorem refsOK_cons_ne (c : Char) (rest : List Char) (h : c ≠ '&') : refsOK (c :: rest) = refsOK rest := by
  conv => lhs; unfold refsOK
  split <;> simp_all

theorem escChar_plain (c : Char) (h1 : c ≠ '&') (h2 : c ≠ '\'') (h3 : c ≠ '<') (h4 : c ≠ '>') (h5 : c ≠ '"') : escChar c = [c] := by
  unfold escChar
  split <;> first | rfl | (exfalso; simp_all)

/-- the label displays what was asked for -/
theorem unesc_esc (s : List Char) : unesc (esc s) = s := by
  induction s with
  | nil => rfl
  | cons c s ih =>
    rw [esc_cons]
    by_cases h1 : c = '&'
    · subst h1; show unesc ('&' :: 'a' :: 'm' :: 'p' :: ';' :: esc s) = _; simp only [unesc, ih]
    · by_cases h2 : c = '\''
      · subst h2; show unesc ('&' :: '#' :: '3' :: '9' :: ';' :: esc s) = _; simp only [unesc, ih]
      · by_cases h3 : c = '<'
        · subst h3; show unesc ('&' :: 'l' :: 't' :: ';' :: esc s) = _; simp only [unesc, ih]
        · by_cases h4 : c = '>'
          · subst h4; show unesc ('&' :: 'g' :: 't' :: ';' :: esc s) = _; simp only [unesc, ih]
          · by_cases h5 : c = '"'
            · subst h5; show unesc ('&' :: '#' :: '3' :: '4' :: ';' :: esc s) = _; simp only [unesc, ih]
            · rw [escChar_plain c h1 h2 h3 h4 h5]
              show unesc (c :: esc s) = _
              rw [unesc_cons_ne c _ h1, ih]

/-- every ampersand of an escaped text starts a character reference -/
theorem refsOK_esc (s : List Char) : refsOK (esc s) = true := by
  induction s with
  | nil => rfl
  | cons c s ih =>
    rw [esc_cons]
    by_cases h1 : c = '&'
    · subst h1; show refsOK ('&' :: 'a' :: 'm' :: 'p' :: ';' :: esc s) = _; simp only [refsOK, ih]
    · by_cases h2 : c = '\''
      · subst h2; show refsOK ('&' :: '#' :: '3' :: '9' :: ';' :: esc s) = _; simp only [refsOK, ih]
      · by_cases h3 : c = '<'
        · subst h3; show refsOK ('&' :: 'l' :: 't' :: ';' :: esc s) = _; simp only [refsOK, ih]
        · by_cases h4 : c = '>'
          · subst h4; show refsOK ('&' :: 'g' :: 't' :: ';' :: esc s) = _; simp only [refsOK, ih]
          · by_cases h5 : c = '"'
            · subst h5; show refsOK ('&' :: '#' :: '3' :: '4' :: ';' :: esc s) = _; simp only [refsOK, ih]
            · rw [escChar_plain c h1 h2 h3 h4 h5]
              show refsOK (c :: esc s) = _
              rw [refsOK_cons_ne c _ h1, ih]

end Dig.DotText

namespace Dig.DotText

theorem scan_cons (d : Nat) (acc : List Char) (c : Char) (rest : List Char) :
    scan d acc (c :: rest) =
      if c = '<' then scan (d + 1) (acc ++ [c]) rest
      else if c = '>' then
        (match d with
         | 0 => none
         | 1 => some (acc, rest)
         | d + 2 => scan (d + 1) (acc ++ [c]) rest)
      else scan d (acc ++ [c]) rest := by
  conv => lhs; unfold scan
  rfl

/-- text without angle brackets: the lexer keeps its depth -/
theorem scan_plain : ∀ (seg : List Char), '<' ∉ seg → '>' ∉ seg → ∀ (d : Nat) (acc rest : List Char),
    scan d acc (seg ++ rest) = scan d (acc ++ seg) rest := by
  intro seg
  induction seg with
  | nil => intro _ _ d acc rest; simp
  | cons c seg ih =>
    intro h1 h2 d acc rest
    have hc1 : c ≠ '<' := fun e => h1 (by simp [e])
    have hc2 : c ≠ '>' := fun e => h2 (by simp [e])
    show scan d acc (c :: (seg ++ rest)) = _
    rw [scan_cons]
    simp only [hc1, hc2, if_false]
    rw [ih (fun h => h1 (by simp [h])) (fun h => h2 (by simp [h]))]
    simp [List.append_assoc]

/-- a tag `<…>` without angle brackets inside: the lexer comes back to the depth it had -/
theorem scan_tag (inner : List Char) (h1 : '<' ∉ inner) (h2 : '>' ∉ inner) (d : Nat) (acc rest : List Char) :
    scan (d + 1) acc ('<' :: inner ++ '>' :: rest) = scan (d + 1) (acc ++ '<' :: inner ++ ['>']) rest := by
  show scan (d + 1) acc ('<' :: (inner ++ '>' :: rest)) = _
  rw [scan_cons]
  simp only [if_true]
  rw [scan_plain inner h1 h2]
  rw [scan_cons]
  have : ('>' : Char) ≠ '<' := by decide
  simp only [this, if_false, if_true]
  simp [List.append_assoc]

theorem scan_close (acc rest : List Char) : scan 1 acc ('>' :: rest) = some (acc, rest) := by
  rw [scan_cons]
  have : ('>' : Char) ≠ '<' := by decide
  simp only [this, if_false, if_true]

theorem scan_fontOpen (acc rest : List Char) : scan 1 acc (fontOpen ++ rest) = scan 1 (acc ++ fontOpen) rest := by
  have e : fontOpen = ('<' :: "BR /".toList ++ ['>']) ++ ('<' :: "FONT POINT-SIZE=\"10\"".toList ++ ['>']) := by decide
  rw [e]
  have s1 := scan_tag "BR /".toList (by decide) (by decide) 0 acc
    (('<' :: "FONT POINT-SIZE=\"10\"".toList ++ ['>']) ++ rest)
  have s2 := scan_tag "FONT POINT-SIZE=\"10\"".toList (by decide) (by decide) 0 (acc ++ '<' :: "BR /".toList ++ ['>']) rest
  simp only [List.append_assoc, List.cons_append, List.nil_append] at s1 s2 ⊢
  rw [s1, s2]

theorem scan_fontClose (acc rest : List Char) : scan 1 acc (fontClose ++ rest) = scan 1 (acc ++ fontClose) rest := by
  have e : fontClose = '<' :: "/FONT".toList ++ ['>'] := by decide
  rw [e]
  have s1 := scan_tag "/FONT".toList (by decide) (by decide) 0 acc rest
  simp only [List.append_assoc, List.cons_append, List.nil_append] at s1 ⊢
  rw [s1]

/-- **the DOT lexer reads a label as one HTML string that ends exactly where the label ends**, whatever the type, the
    name or the group are, provided the prefix written by dig itself (`Name: `, `Group: `) has no angle bracket -/
theorem scan_labelBody (t : List Char) (second : Option (List Char × List Char))
    (hp : ∀ p ∈ second, '<' ∉ p.1 ∧ '>' ∉ p.1) (rest : List Char) :
    scan 1 [] (labelBody t second ++ '>' :: rest) = some (labelBody t second, rest) := by
  cases second with
  | none =>
    simp only [labelBody]
    rw [scan_plain (esc t) (esc_noAngle t).1 (esc_noAngle t).2, scan_close]
    simp
  | some p =>
    obtain ⟨pfx, x⟩ := p
    obtain ⟨hp1, hp2⟩ := hp (pfx, x) rfl
    simp only [labelBody, List.append_assoc]
    rw [scan_plain (esc t) (esc_noAngle t).1 (esc_noAngle t).2, scan_fontOpen,
      scan_plain pfx hp1 hp2, scan_plain (esc x) (esc_noAngle x).1 (esc_noAngle x).2, scan_fontClose, scan_close]
    simp [List.append_assoc]

end Dig.DotText
