import DigModel.Graph
namespace Dfs
/-- black = visited and not on the current path; black nodes have black successors of smaller rank -/
def Inv (g : Nat → List Nat) (vis path : List Nat) : Prop :=
  (∀ x ∈ path, x ∈ vis) ∧
  ∃ rank : Nat → Nat, ∀ x, x ∈ vis → x ∉ path → ∀ y ∈ g x, y ∈ vis ∧ y ∉ path ∧ rank y < rank x

/-- short-circuiting fold: if the result is `ok`, a loop invariant over the processed prefix carries through -/
theorem fold_ok (st : R → Nat → R) (hst : ∀ r v, (∀ s, r ≠ .ok s) → st r v = r)
    (P : List Nat → List Nat → Prop) :
    ∀ (vs done : List Nat) (s0 sf : List Nat),
      P s0 done →
      (∀ s v s' d, P s d → st (.ok s) v = .ok s' → P s' (d ++ [v])) →
      vs.foldl st (.ok s0) = .ok sf → P sf (done ++ vs) := by
  intro vs
  induction vs with
  | nil => intro done s0 sf h0 _ hf; simp at hf; subst hf; simpa using h0
  | cons v vs ih =>
    intro done s0 sf h0 hstep hf
    simp only [List.foldl_cons] at hf
    cases hr : st (.ok s0) v with
    | ok s1 =>
      rw [hr] at hf
      have := ih (done ++ [v]) s1 sf (hstep _ _ _ _ h0 hr) hstep hf
      simpa using this
    | cycle p =>
      rw [hr] at hf
      have hstay : ∀ (ws : List Nat), ws.foldl st (.cycle p) = .cycle p := by
        intro ws; induction ws with
        | nil => rfl
        | cons w ws ihw => simp only [List.foldl_cons]; rw [hst _ _ (by intro s h; cases h)]; exact ihw
      rw [hstay] at hf; cases hf
    | oof =>
      rw [hr] at hf
      have hstay : ∀ (ws : List Nat), ws.foldl st .oof = .oof := by
        intro ws; induction ws with
        | nil => rfl
        | cons w ws ihw => simp only [List.foldl_cons]; rw [hst _ _ (by intro s h; cases h)]; exact ihw
      rw [hstay] at hf; cases hf

theorem step_stay (g rec p) : ∀ r v, (∀ s, r ≠ .ok s) → step g rec p r v = r := by
  intro r v h
  cases r with
  | ok s => exact absurd rfl (h s)
  | cycle p => rfl
  | oof => rfl

theorem dfs_ok (g : Nat → List Nat) :
    ∀ fuel u vis path vis', u ∉ vis → Inv g vis path → dfs g fuel u vis path = .ok vis' →
      (∀ x ∈ vis, x ∈ vis') ∧ u ∈ vis' ∧ Inv g vis' path := by
  intro fuel
  induction fuel with
  | zero => intro u vis path vis' _ _ h; simp [dfs] at h
  | succ fuel ih =>
    intro u vis path vis' hu hinv h
    unfold dfs at h
    rw [if_neg hu] at h
    have hupath : u ∉ path := fun hp => hu (hinv.1 u hp)
    -- loop invariant over processed successors
    let P : List Nat → List Nat → Prop := fun s d =>
      (∀ x ∈ u :: vis, x ∈ s) ∧ Inv g s (path ++ [u]) ∧ ∀ v ∈ d, v ∈ s ∧ v ∉ path ++ [u]
    have hP0 : P (u :: vis) [] := by
      refine ⟨fun x hx => hx, ?_, by simp⟩
      obtain ⟨hsub, rank, hr⟩ := hinv
      refine ⟨?_, rank, ?_⟩
      · intro x hx
        simp only [List.mem_append, List.mem_singleton] at hx
        rcases hx with hx | hx
        · exact List.mem_cons_of_mem _ (hsub x hx)
        · subst hx; exact List.mem_cons_self
      · intro x hx hxp y hy
        simp only [List.mem_append, List.mem_singleton, not_or] at hxp
        have hxv : x ∈ vis := by
          cases hx with
          | head => exact absurd rfl hxp.2
          | tail _ h => exact h
        obtain ⟨h1, h2, h3⟩ := hr x hxv hxp.1 y hy
        refine ⟨List.mem_cons_of_mem _ h1, ?_, h3⟩
        simp only [List.mem_append, List.mem_singleton, not_or]
        exact ⟨h2, fun hyu => hu (hyu ▸ h1)⟩
    have hstep : ∀ s v s' d, P s d →
        step g (fun v vis' => dfs g fuel v vis' (path ++ [u])) (path ++ [u]) (.ok s) v = .ok s' →
        P s' (d ++ [v]) := by
      intro s v s' d ⟨hs1, hs2, hs3⟩ hst
      simp only [step] at hst
      by_cases hv : v ∈ s
      · rw [if_neg (fun h => h hv)] at hst
        by_cases hvp : v ∈ path ++ [u]
        · rw [if_pos hvp] at hst; cases hst
        · rw [if_neg hvp] at hst
          cases hst
          refine ⟨hs1, hs2, ?_⟩
          intro w hw
          simp only [List.mem_append, List.mem_singleton] at hw
          rcases hw with hw | hw
          · exact hs3 w hw
          · subst hw; exact ⟨hv, hvp⟩
      · rw [if_pos hv] at hst
        obtain ⟨h1, h2, h3⟩ := ih v s (path ++ [u]) s' hv hs2 hst
        refine ⟨fun x hx => h1 x (hs1 x hx), h3, ?_⟩
        intro w hw
        simp only [List.mem_append, List.mem_singleton] at hw
        rcases hw with hw | hw
        · exact ⟨h1 w (hs3 w hw).1, (hs3 w hw).2⟩
        · subst hw
          exact ⟨h2, fun hwp => hv (hs2.1 w hwp)⟩
    have hfin := fold_ok _ (step_stay g _ _) P (g u) [] (u :: vis) vis' hP0 hstep h
    simp only [List.nil_append] at hfin
    obtain ⟨hf1, ⟨hf2sub, rank, hf2⟩, hf3⟩ := hfin
    refine ⟨fun x hx => hf1 x (List.mem_cons_of_mem _ hx), hf1 u List.mem_cons_self, ?_⟩
    refine ⟨fun x hx => hf2sub x (List.mem_append_left _ hx), ?_⟩
    -- new rank: u gets a rank above all of its successors
    let m := (g u).foldl (fun a y => max a (rank y)) 0
    have hm : ∀ y ∈ g u, rank y ≤ m := by
      have : ∀ (l : List Nat) (a : Nat), a ≤ l.foldl (fun a y => max a (rank y)) a ∧
          ∀ y ∈ l, rank y ≤ l.foldl (fun a y => max a (rank y)) a := by
        intro l
        induction l with
        | nil => intro a; simp
        | cons z l ihl =>
          intro a
          simp only [List.foldl_cons]
          obtain ⟨h1, h2⟩ := ihl (max a (rank z))
          refine ⟨Nat.le_trans (Nat.le_max_left _ _) h1, ?_⟩
          intro y hy
          cases hy with
          | head => exact Nat.le_trans (Nat.le_max_right _ _) h1
          | tail _ hy => exact h2 y hy
      exact (this (g u) 0).2
    refine ⟨fun x => if x = u then m + 1 else rank x, ?_⟩
    intro x hx hxp y hy
    by_cases hxu : x = u
    · subst hxu
      obtain ⟨hy1, hy2⟩ := hf3 y hy
      simp only [List.mem_append, List.mem_singleton, not_or] at hy2
      refine ⟨hy1, hy2.1, ?_⟩
      simp only [if_neg hy2.2, if_true]
      exact Nat.lt_succ_of_le (hm y hy)
    · have hxp' : x ∉ path ++ [u] := by
        simp only [List.mem_append, List.mem_singleton, not_or]; exact ⟨hxp, hxu⟩
      obtain ⟨h1, h2, h3⟩ := hf2 x hx hxp' y hy
      simp only [List.mem_append, List.mem_singleton, not_or] at h2
      refine ⟨h1, h2.1, ?_⟩
      simp only [if_neg hxu, if_neg h2.2]
      exact h3

end Dfs

namespace Dfs

/-- top level: if `isAcyclic` answers ok, every node `< n` was visited and a rank function strictly
decreases along every edge leaving a node `< n` -/
theorem isAcyclic_ok (g : Nat → List Nat) (n : Nat) (vis : List Nat) (h : isAcyclic g n = .ok vis) :
    ∃ rank : Nat → Nat, ∀ x, x < n → ∀ y ∈ g x, rank y < rank x := by
  unfold isAcyclic at h
  let st : R → Nat → R := fun acc i => match acc with
    | .ok vis => dfs g (n+1) i vis []
    | r => r
  have hst : ∀ r v, (∀ s, r ≠ .ok s) → st r v = r := by
    intro r v hr; cases r with
    | ok s => exact absurd rfl (hr s)
    | cycle p => rfl
    | oof => rfl
  let P : List Nat → List Nat → Prop := fun s d => Inv g s [] ∧ ∀ v ∈ d, v ∈ s
  have hP0 : P [] [] := ⟨⟨by simp, fun _ => 0, by simp⟩, by simp⟩
  have hstep : ∀ s v s' d, P s d → st (.ok s) v = .ok s' → P s' (d ++ [v]) := by
    intro s v s' d ⟨hi, hd⟩ hs
    simp only [st] at hs
    by_cases hv : v ∈ s
    · have : dfs g (n+1) v s [] = .ok s := by unfold dfs; rw [if_pos hv]
      rw [this] at hs; cases hs
      refine ⟨hi, ?_⟩
      intro w hw; simp only [List.mem_append, List.mem_singleton] at hw
      rcases hw with hw | hw
      · exact hd w hw
      · subst hw; exact hv
    · obtain ⟨h1, h2, h3⟩ := dfs_ok g (n+1) v s [] s' hv hi hs
      refine ⟨h3, ?_⟩
      intro w hw; simp only [List.mem_append, List.mem_singleton] at hw
      rcases hw with hw | hw
      · exact h1 w (hd w hw)
      · subst hw; exact h2
  have hfin := fold_ok st hst P (List.range n) [] [] vis hP0 hstep h
  simp only [List.nil_append] at hfin
  obtain ⟨⟨_, rank, hr⟩, hall⟩ := hfin
  refine ⟨rank, ?_⟩
  intro x hx y hy
  exact (hr x (hall x (List.mem_range.mpr hx)) (by simp) y hy).2.2

/-- a walk: consecutive elements are joined by edges -/
def IsWalk (g : Nat → List Nat) : List Nat → Prop
  | [] => True
  | [_] => True
  | a :: b :: rest => b ∈ g a ∧ IsWalk g (b :: rest)

theorem walk_rank (g : Nat → List Nat) (n : Nat) (rank : Nat → Nat)
    (hr : ∀ x, x < n → ∀ y ∈ g x, rank y < rank x) :
    ∀ (l : List Nat) (a : Nat), (∀ x ∈ a :: l, x < n) → IsWalk g (a :: l) → l ≠ [] →
      rank ((a :: l).getLast (by simp)) < rank a := by
  intro l
  induction l with
  | nil => intro a _ _ h; exact absurd rfl h
  | cons b l ih =>
    intro a hn hw _
    obtain ⟨hab, hw'⟩ := hw
    have h1 := hr a (hn a List.mem_cons_self) b hab
    by_cases hl : l = []
    · subst hl; simpa using h1
    · have := ih b (fun x hx => hn x (List.mem_cons_of_mem _ hx)) hw' hl
      rw [List.getLast_cons (by simp)]
      exact Nat.lt_trans this h1

/-- `ok` ⇒ no closed walk among the nodes `< n` -/
theorem isAcyclic_sound (g : Nat → List Nat) (n : Nat) (vis : List Nat) (h : isAcyclic g n = .ok vis)
    (a : Nat) (l : List Nat) (hl : l ≠ []) (hn : ∀ x ∈ a :: l, x < n) (hw : IsWalk g (a :: l)) :
    (a :: l).getLast (by simp) ≠ a := by
  obtain ⟨rank, hr⟩ := isAcyclic_ok g n vis h
  have := walk_rank g n rank hr l a hn hw hl
  intro heq; rw [heq] at this; exact Nat.lt_irrefl _ this

#print axioms isAcyclic_sound
end Dfs

namespace Dfs

theorem isWalk_suffix (g : Nat → List Nat) : ∀ (pre l : List Nat), IsWalk g (pre ++ l) → IsWalk g l := by
  intro pre
  induction pre with
  | nil => intro l h; simpa using h
  | cons a pre ih =>
    intro l h
    cases pre with
    | nil =>
      cases l with
      | nil => trivial
      | cons b l => exact h.2
    | cons b pre => exact ih l h.2

theorem isWalk_snoc (g : Nat → List Nat) : ∀ (l : List Nat) (u v : Nat),
    IsWalk g (l ++ [u]) → v ∈ g u → IsWalk g (l ++ [u] ++ [v]) := by
  intro l
  induction l with
  | nil => intro u v _ hv; exact ⟨hv, trivial⟩
  | cons a l ih =>
    intro u v h hv
    cases l with
    | nil => exact ⟨h.1, hv, trivial⟩
    | cons b l => exact ⟨h.1, ih u v h.2 hv⟩

theorem cutFrom_spec (v : Nat) : ∀ (l : List Nat), v ∈ l →
    ∃ pre suf, l = pre ++ v :: suf ∧ cutFrom v l = v :: suf := by
  intro l
  induction l with
  | nil => intro h; cases h
  | cons x xs ih =>
    intro h
    unfold cutFrom
    by_cases hv : v ∈ xs
    · obtain ⟨pre, suf, h1, h2⟩ := ih hv
      refine ⟨x :: pre, suf, by rw [h1]; rfl, ?_⟩
      simp only [h2]
      rfl
    · have hx : x = v := by
        cases h with
        | head => rfl
        | tail _ h => exact absurd h hv
      have hnil : cutFrom v xs = [] := by
        clear ih h hx
        induction xs with
        | nil => rfl
        | cons y ys ihy =>
          unfold cutFrom
          have hy : v ∉ ys := fun h => hv (List.mem_cons_of_mem _ h)
          have hne : ¬ y = v := fun h => hv (h ▸ List.mem_cons_self)
          simp [ihy hy, hne]
      refine ⟨[], xs, by simp [hx], ?_⟩
      simp [hnil, hx]

/-- closed walk: a walk of at least two nodes whose first and last node coincide -/
def IsClosedWalk (g : Nat → List Nat) (p : List Nat) : Prop :=
  IsWalk g p ∧ 2 ≤ p.length ∧ p.head? = p.getLast?

theorem fold_cycle (st : R → Nat → R) (hst : ∀ r v, (∀ s, r ≠ .ok s) → st r v = r) (p : List Nat) :
    ∀ (vs : List Nat) (s0 : List Nat), vs.foldl st (.ok s0) = .cycle p →
      ∃ s v, v ∈ vs ∧ st (.ok s) v = .cycle p := by
  intro vs
  induction vs with
  | nil => intro s0 h; simp at h
  | cons v vs ih =>
    intro s0 h
    simp only [List.foldl_cons] at h
    cases hr : st (.ok s0) v with
    | ok s1 =>
      rw [hr] at h
      obtain ⟨s, w, hw, hs⟩ := ih s1 h
      exact ⟨s, w, List.mem_cons_of_mem _ hw, hs⟩
    | cycle q =>
      rw [hr] at h
      have hstay : ∀ (ws : List Nat), ws.foldl st (.cycle q) = .cycle q := by
        intro ws; induction ws with
        | nil => rfl
        | cons w ws ihw => simp only [List.foldl_cons]; rw [hst _ _ (by intro s h; cases h)]; exact ihw
      rw [hstay] at h
      exact ⟨s0, v, List.mem_cons_self, by rw [hr, ← h]⟩
    | oof =>
      rw [hr] at h
      have hstay : ∀ (ws : List Nat), ws.foldl st .oof = .oof := by
        intro ws; induction ws with
        | nil => rfl
        | cons w ws ihw => simp only [List.foldl_cons]; rw [hst _ _ (by intro s h; cases h)]; exact ihw
      rw [hstay] at h; cases h

theorem dfs_cycle (g : Nat → List Nat) :
    ∀ fuel u vis path p, IsWalk g (path ++ [u]) → dfs g fuel u vis path = .cycle p → IsClosedWalk g p := by
  intro fuel
  induction fuel with
  | zero => intro u vis path p _ h; simp [dfs] at h
  | succ fuel ih =>
    intro u vis path p hw h
    unfold dfs at h
    by_cases hu : u ∈ vis
    · rw [if_pos hu] at h; cases h
    · rw [if_neg hu] at h
      obtain ⟨s, v, hv, hs⟩ := fold_cycle _ (step_stay g _ _) p (g u) (u :: vis) h
      simp only [step] at hs
      by_cases hvs : v ∈ s
      · rw [if_neg (fun h => h hvs)] at hs
        by_cases hvp : v ∈ path ++ [u]
        · rw [if_pos hvp] at hs
          cases hs
          obtain ⟨pre, suf, h1, h2⟩ := cutFrom_spec v (path ++ [u]) hvp
          rw [h2]
          have hwalk : IsWalk g (path ++ [u] ++ [v]) := isWalk_snoc g path u v hw hv
          rw [h1] at hwalk
          have hsuf : IsWalk g (v :: suf ++ [v]) := by
            have := isWalk_suffix g pre (v :: suf ++ [v]) (by simpa using hwalk)
            exact this
          refine ⟨hsuf, by simp, ?_⟩
          have : (v :: suf ++ [v]).getLast? = some v := by
            rw [List.getLast?_append]; simp
          rw [this]; rfl
        · rw [if_neg hvp] at hs; cases hs
      · rw [if_pos hvs] at hs
        exact ih v s (path ++ [u]) p (isWalk_snoc g path u v hw hv) hs

theorem isAcyclic_cycle (g : Nat → List Nat) (n : Nat) (p : List Nat) (h : isAcyclic g n = .cycle p) :
    IsClosedWalk g p := by
  unfold isAcyclic at h
  let st : R → Nat → R := fun acc i => match acc with
    | .ok vis => dfs g (n+1) i vis []
    | r => r
  have hst : ∀ r v, (∀ s, r ≠ .ok s) → st r v = r := by
    intro r v hr; cases r with
    | ok s => exact absurd rfl (hr s)
    | cycle p => rfl
    | oof => rfl
  obtain ⟨s, v, _, hs⟩ := fold_cycle st hst p (List.range n) [] h
  exact dfs_cycle g (n+1) v s [] p trivial hs

#print axioms isAcyclic_cycle
end Dfs
