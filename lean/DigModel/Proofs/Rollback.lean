import DigModel.Proofs.Parse
/-
  A rejected Provide restores the container: everything the attempt did (group-parameter nodes, the
  constructor node, its graph nodes and orders, the provider entries) is undone by `rollbackProvide`,
  except the `isVerifiedAcyclic` flags.
-/
namespace Dig

/-! ### list facts -/

theorem take_modify_ge {α : Type} (l : List α) (n k : Nat) (f : α → α) (h : k ≤ n) :
    (l.modify n f).take k = l.take k := by
  apply List.ext_getElem?
  intro i
  simp only [List.getElem?_take]
  split
  · rename_i hi
    rw [List.getElem?_modify]
    have : n ≠ i := by omega
    simp [this]
  · rfl

theorem take_append_left' {α : Type} (l r : List α) (k : Nat) (h : k ≤ l.length) : (l ++ r).take k = l.take k := by
  rw [List.take_append_of_le_length h]

theorem take_take_self {α : Type} (l : List α) (k : Nat) : (l.take k).take k = l.take k := by
  rw [List.take_take]; simp

theorem flatMap_congr' {α β : Type} (l : List α) (f g : α → List β) (h : ∀ x ∈ l, f x = g x) :
    l.flatMap f = l.flatMap g := by
  induction l with
  | nil => rfl
  | cons x xs ih => simp only [List.flatMap_cons]; rw [h x (by simp), ih (fun y hy => h y (by simp [hy]))]

/-! ### the tree is read through `children` only -/

theorem subscopesAux_congr (a b : List ScopeSt) (hl : a.length = b.length)
    (hc : ∀ j, (a.getD j { parent := none }).children = (b.getD j { parent := none }).children) :
    ∀ fuel s, subscopesAux a fuel s = subscopesAux b fuel s := by
  intro fuel
  induction fuel with
  | zero => intro s; rfl
  | succ fuel ih =>
    intro s
    simp only [subscopesAux]
    by_cases hs : s < a.length
    · have hsb : s < b.length := by omega
      have h1 := hc s
      simp only [List.getD_eq_getElem?_getD, List.getElem?_eq_getElem hs, List.getElem?_eq_getElem hsb, Option.getD_some] at h1 ⊢
      simp only [h1]
      congr 1
      exact flatMap_congr' _ _ _ (fun x _ => ih x)
    · have h1 : a[s]? = none := by simp; omega
      have h2 : b[s]? = none := by simp; omega
      simp [h1, h2]

/-! ### states -/

def ScopeButVerified (a b : ScopeSt) : Prop :=
  a.parent = b.parent ∧ a.children = b.children ∧ a.providers = b.providers ∧ a.decorators = b.decorators ∧
  a.values = b.values ∧ a.decoratedValues = b.decoratedValues ∧ a.groups = b.groups ∧
  a.decoratedGroups = b.decoratedGroups ∧ a.nodes = b.nodes ∧ a.gh = b.gh

/-- equal up to the `isVerifiedAcyclic` flags -/
def EqButVerified (a b : St) : Prop :=
  a.ctors = b.ctors ∧ a.decos = b.decos ∧ a.pgs = b.pgs ∧ a.execs = b.execs ∧ a.clock = b.clock ∧ a.log = b.log ∧
  a.hist = b.hist ∧ a.scopes.length = b.scopes.length ∧ ∀ j, ScopeButVerified (a.scope j) (b.scope j)

/-- what an attempt to provide into `target` may have done to the container so far -/
structure Work (st w : St) (target : Nat) : Prop where
  decos : w.decos = st.decos
  execs : w.execs = st.execs
  clock : w.clock = st.clock
  log : w.log = st.log
  hist : w.hist = st.hist
  len : w.scopes.length = st.scopes.length
  ctorsLen : st.ctors.length ≤ w.ctors.length
  ctorsPre : w.ctors.take st.ctors.length = st.ctors
  pgsLen : st.pgs.length ≤ w.pgs.length
  pgsPre : w.pgs.take st.pgs.length = st.pgs
  scope : ∀ j, (w.scope j).parent = (st.scope j).parent ∧ (w.scope j).children = (st.scope j).children ∧
    (w.scope j).decorators = (st.scope j).decorators ∧ (w.scope j).values = (st.scope j).values ∧
    (w.scope j).decoratedValues = (st.scope j).decoratedValues ∧ (w.scope j).groups = (st.scope j).groups ∧
    (w.scope j).decoratedGroups = (st.scope j).decoratedGroups ∧ (w.scope j).nodes = (st.scope j).nodes ∧
    (j ≠ target → (w.scope j).providers = (st.scope j).providers) ∧
    (st.scope j).gh.length ≤ (w.scope j).gh.length ∧
    (w.scope j).gh.take (st.scope j).gh.length = (st.scope j).gh ∧
    (j ∉ st.subscopes target → (w.scope j).gh = (st.scope j).gh)

theorem Work.refl (st : St) (target : Nat) : Work st st target where
  decos := rfl
  execs := rfl
  clock := rfl
  log := rfl
  hist := rfl
  len := rfl
  ctorsLen := Nat.le_refl _
  ctorsPre := by simp
  pgsLen := Nat.le_refl _
  pgsPre := by simp
  scope j := ⟨rfl, rfl, rfl, rfl, rfl, rfl, rfl, rfl, fun _ => rfl, Nat.le_refl _, by simp, fun _ => rfl⟩

theorem Work.subscopes {st w : St} {target : Nat} (h : Work st w target) : w.subscopes target = st.subscopes target := by
  unfold St.subscopes
  rw [h.len]
  exact subscopesAux_congr _ _ h.len (fun j => (h.scope j).2.1) _ _

end Dig

namespace Dig

/-- one step of `newGraphNode` -/
def ghStep (node : GNode) (st : St) (sc : Nat) : St :=
  let o := (st.scope sc).gh.length
  let st := st.modScope sc fun x => { x with gh := x.gh ++ [node] }
  match node with
  | .ctor n => st.modCtor n fun c => { c with orders := setOrder c.orders sc o }
  | .pg i => { st with pgs := st.pgs.modify i fun p => { p with orders := setOrder p.orders sc o } }

theorem newGraphNode_eq (st : St) (s : Nat) (node : GNode) :
    st.newGraphNode s node = (st.subscopes s).foldl (ghStep node) st := rfl

def NodeFresh (st : St) : GNode → Prop
  | .ctor n => st.ctors.length ≤ n
  | .pg i => st.pgs.length ≤ i

theorem work_ghStep {st w : St} {target : Nat} (h : Work st w target) (node : GNode) (hf : NodeFresh st node)
    (sc : Nat) (hsc : sc ∈ st.subscopes target) : Work st (ghStep node w sc) target := by
  have hscope : ∀ j, ((ghStep node w sc).scope j) =
      if sc = j ∧ j < w.scopes.length then { w.scope j with gh := (w.scope j).gh ++ [node] } else w.scope j := by
    intro j
    unfold ghStep
    cases node with
    | ctor n => simp only; show ((w.modScope sc _).scope j) = _; rw [scope_modScope]
    | pg i => simp only; show ((w.modScope sc _).scope j) = _; rw [scope_modScope]
  have hlen : (ghStep node w sc).scopes.length = w.scopes.length := by
    unfold ghStep; cases node <;> simp [St.modScope, St.modCtor]
  have hd : (ghStep node w sc).decos = w.decos ∧ (ghStep node w sc).execs = w.execs ∧ (ghStep node w sc).clock = w.clock ∧
      (ghStep node w sc).log = w.log ∧ (ghStep node w sc).hist = w.hist := by
    unfold ghStep; cases node <;> exact ⟨rfl, rfl, rfl, rfl, rfl⟩
  have hct : (ghStep node w sc).ctors.length = w.ctors.length ∧
      (ghStep node w sc).ctors.take st.ctors.length = w.ctors.take st.ctors.length := by
    unfold ghStep
    cases node with
    | ctor n =>
      simp only [St.modCtor, St.modScope, List.length_modify]
      exact ⟨trivial, take_modify_ge _ _ _ _ hf⟩
    | pg i => exact ⟨rfl, rfl⟩
  have hpg : (ghStep node w sc).pgs.length = w.pgs.length ∧
      (ghStep node w sc).pgs.take st.pgs.length = w.pgs.take st.pgs.length := by
    unfold ghStep
    cases node with
    | ctor n => exact ⟨rfl, rfl⟩
    | pg i =>
      simp only [St.modScope, List.length_modify]
      exact ⟨trivial, take_modify_ge _ _ _ _ hf⟩
  refine ⟨hd.1.trans h.decos, hd.2.1.trans h.execs, hd.2.2.1.trans h.clock, hd.2.2.2.1.trans h.log, hd.2.2.2.2.trans h.hist,
    hlen.trans h.len, by rw [hct.1]; exact h.ctorsLen, by rw [hct.2]; exact h.ctorsPre,
    by rw [hpg.1]; exact h.pgsLen, by rw [hpg.2]; exact h.pgsPre, ?_⟩
  intro j
  obtain ⟨a1, a2, a3, a4, a5, a6, a7, a8, a9, a10, a11, a12⟩ := h.scope j
  rw [hscope j]
  by_cases hc : sc = j ∧ j < w.scopes.length
  · rw [if_pos hc]
    obtain ⟨rfl, _⟩ := hc
    refine ⟨a1, a2, a3, a4, a5, a6, a7, a8, a9, ?_, ?_, fun hn => absurd hsc hn⟩
    · simp only [List.length_append]; omega
    · simp only; rw [take_append_left' _ _ _ a10]; exact a11
  · rw [if_neg hc]
    exact ⟨a1, a2, a3, a4, a5, a6, a7, a8, a9, a10, a11, a12⟩

theorem work_foldl_ghStep {st : St} {target : Nat} (node : GNode) (hf : NodeFresh st node) (l : List Nat)
    (hl : ∀ sc ∈ l, sc ∈ st.subscopes target) : ∀ w, Work st w target → Work st (l.foldl (ghStep node) w) target := by
  induction l with
  | nil => intro w h; exact h
  | cons x xs ih =>
    intro w h
    simp only [List.foldl_cons]
    exact ih (fun sc hsc => hl sc (by simp [hsc])) _ (work_ghStep h node hf x (hl x (by simp)))

theorem work_newGraphNode {st w : St} {target : Nat} (h : Work st w target) (node : GNode) (hf : NodeFresh st node) :
    Work st (w.newGraphNode target node) target := by
  rw [newGraphNode_eq, h.subscopes]
  exact work_foldl_ghStep node hf _ (fun _ hsc => hsc) w h

theorem work_addPGNodes {st w : St} {target : Nat} (h : Work st w target) (oldLen : Nat) (hol : st.pgs.length ≤ oldLen)
    (descs : List PGDesc) : Work st (addPGNodes w target oldLen descs) target := by
  unfold addPGNodes
  simp only
  have h0 : Work st { w with pgs := w.pgs ++ List.map (fun d => ({ desc := d } : PGNode)) (List.drop oldLen descs) } target :=
    { h with
      pgsLen := by simp only [List.length_append]; have := h.pgsLen; omega
      pgsPre := by simp only; rw [take_append_left' _ _ _ h.pgsLen]; exact h.pgsPre }
  generalize ({ w with pgs := w.pgs ++ List.map (fun d => ({ desc := d } : PGNode)) (List.drop oldLen descs) } : St) = w1 at h0
  generalize (List.range (descs.length - oldLen)) = l
  induction l generalizing w1 with
  | nil => exact h0
  | cons x xs ih =>
    simp only [List.foldl_cons]
    exact ih _ (work_newGraphNode h0 (.pg (oldLen + x)) (by show st.pgs.length ≤ oldLen + x; omega))

theorem work_parseParams {st w : St} {target : Nat} (h : Work st w target) (env : TyEnv) (fn : Fn) :
    Work st (parseParams env w target fn).2 target := by
  unfold parseParams
  simp only
  exact work_addPGNodes h _ (by simp; exact h.pgsLen) _

theorem work_addCtor {st w : St} {target : Nat} (h : Work st w target) (node : CtorNode) :
    Work st { w with ctors := w.ctors ++ [node] } target :=
  { h with
    ctorsLen := by simp only [List.length_append]; have := h.ctorsLen; omega
    ctorsPre := by simp only; rw [take_append_left' _ _ _ h.ctorsLen]; exact h.ctorsPre }

theorem work_modScope_providers {st w : St} {target : Nat} (h : Work st w target) (ps : List (Key × List Nat)) :
    Work st (w.modScope target fun x => { x with providers := ps }) target := by
  refine { h with len := by simp [St.modScope]; exact h.len, scope := ?_ }
  intro j
  obtain ⟨a1, a2, a3, a4, a5, a6, a7, a8, a9, a10, a11, a12⟩ := h.scope j
  rw [scope_modScope]
  by_cases hc : target = j ∧ j < w.scopes.length
  · rw [if_pos hc]
    obtain ⟨rfl, _⟩ := hc
    exact ⟨a1, a2, a3, a4, a5, a6, a7, a8, fun hn => absurd rfl hn, a10, a11, a12⟩
  · rw [if_neg hc]
    exact ⟨a1, a2, a3, a4, a5, a6, a7, a8, a9, a10, a11, a12⟩

theorem work_modScope_verified {st w : St} {target : Nat} (h : Work st w target) (sc : Nat) (b : Bool) :
    Work st (w.modScope sc fun x => { x with verified := b }) target := by
  refine { h with len := by simp [St.modScope]; exact h.len, scope := ?_ }
  intro j
  obtain ⟨a1, a2, a3, a4, a5, a6, a7, a8, a9, a10, a11, a12⟩ := h.scope j
  rw [scope_modScope]
  by_cases hc : sc = j ∧ j < w.scopes.length
  · rw [if_pos hc]; exact ⟨a1, a2, a3, a4, a5, a6, a7, a8, a9, a10, a11, a12⟩
  · rw [if_neg hc]; exact ⟨a1, a2, a3, a4, a5, a6, a7, a8, a9, a10, a11, a12⟩

theorem work_verifyScopes {st : St} {target : Nat} (cfg : Cfg) (l : List Nat) :
    ∀ w, Work st w target → Work st (verifyScopes cfg l w).2 target := by
  induction l with
  | nil => intro w h; exact h
  | cons sc rest ih =>
    intro w h
    simp only [verifyScopes]
    have h1 := work_modScope_verified h sc false
    split
    · exact ih _ h1
    · split
      · exact ih _ (work_modScope_verified h1 sc true)
      · exact h1

end Dig

namespace Dig

def ghTakeStep (st : St) (w : St) (sc : Nat) : St :=
  w.modScope sc fun x => { x with gh := x.gh.take (st.scope sc).gh.length }

theorem scope_ge_len (st : St) (j : Nat) (h : st.scopes.length ≤ j) : st.scope j = { parent := none } := by
  unfold St.scope
  rw [List.getD_eq_getElem?_getD]
  have : st.scopes[j]? = none := by simp; omega
  simp [this]

theorem foldl_ghTake (st : St) (l : List Nat) : ∀ w : St,
    (l.foldl (ghTakeStep st) w).scopes.length = w.scopes.length ∧
    (l.foldl (ghTakeStep st) w).ctors = w.ctors ∧ (l.foldl (ghTakeStep st) w).decos = w.decos ∧
    (l.foldl (ghTakeStep st) w).pgs = w.pgs ∧ (l.foldl (ghTakeStep st) w).execs = w.execs ∧
    (l.foldl (ghTakeStep st) w).clock = w.clock ∧ (l.foldl (ghTakeStep st) w).log = w.log ∧
    (l.foldl (ghTakeStep st) w).hist = w.hist ∧
    ∀ j, ((l.foldl (ghTakeStep st) w).scope j) =
      if j ∈ l ∧ j < w.scopes.length then { w.scope j with gh := (w.scope j).gh.take (st.scope j).gh.length }
      else w.scope j := by
  induction l with
  | nil => intro w; exact ⟨rfl, rfl, rfl, rfl, rfl, rfl, rfl, rfl, fun j => by simp⟩
  | cons x xs ih =>
    intro w
    simp only [List.foldl_cons]
    obtain ⟨i1, i2, i3, i4, i5, i6, i7, i8, i9⟩ := ih (ghTakeStep st w x)
    have hl : (ghTakeStep st w x).scopes.length = w.scopes.length := by simp [ghTakeStep, St.modScope]
    refine ⟨i1.trans hl, i2, i3, i4, i5, i6, i7, i8, ?_⟩
    intro j
    rw [i9 j, hl]
    have hx : (ghTakeStep st w x).scope j =
        if x = j ∧ j < w.scopes.length then { w.scope j with gh := (w.scope j).gh.take (st.scope j).gh.length } else w.scope j := by
      unfold ghTakeStep
      rw [scope_modScope]
      by_cases hc : x = j ∧ j < w.scopes.length
      · obtain ⟨rfl, _⟩ := hc; simp [*]
      · simp [hc]
    rw [hx]
    by_cases hjl : j < w.scopes.length
    · by_cases hjx : x = j
      · subst hjx
        by_cases hjxs : x ∈ xs
        · simp [hjxs, hjl, take_take_self]
        · simp [hjxs, hjl]
      · have : j ≠ x := fun h => hjx h.symm
        by_cases hjxs : j ∈ xs
        · simp [hjxs, hjl, hjx, this]
        · simp [hjxs, hjl, hjx, this]
    · simp [hjl]

theorem rollback_restores {st w : St} {target : Nat} (h : Work st w target) :
    EqButVerified st (rollbackProvide st w target (st.subscopes target)) := by
  unfold rollbackProvide
  obtain ⟨f1, f2, f3, f4, f5, f6, f7, f8, f9⟩ := foldl_ghTake st (st.subscopes target) w
  have hfold : (st.subscopes target).foldl (fun w sc => w.modScope sc fun x =>
      { x with gh := x.gh.take (st.scope sc).gh.length }) w = (st.subscopes target).foldl (ghTakeStep st) w := rfl
  simp only [hfold]
  refine ⟨?_, ?_, ?_, ?_, ?_, ?_, ?_, ?_, ?_⟩
  · show st.ctors = List.take st.ctors.length ((st.subscopes target).foldl (ghTakeStep st) w).ctors
    rw [f2]; exact h.ctorsPre.symm
  · show st.decos = ((st.subscopes target).foldl (ghTakeStep st) w).decos
    rw [f3]; exact h.decos.symm
  · show st.pgs = List.take st.pgs.length ((st.subscopes target).foldl (ghTakeStep st) w).pgs
    rw [f4]; exact h.pgsPre.symm
  · show st.execs = ((st.subscopes target).foldl (ghTakeStep st) w).execs
    rw [f5]; exact h.execs.symm
  · show st.clock = ((st.subscopes target).foldl (ghTakeStep st) w).clock
    rw [f6]; exact h.clock.symm
  · show st.log = ((st.subscopes target).foldl (ghTakeStep st) w).log
    rw [f7]; exact h.log.symm
  · show st.hist = ((st.subscopes target).foldl (ghTakeStep st) w).hist
    rw [f8]; exact h.hist.symm
  · show st.scopes.length = (((st.subscopes target).foldl (ghTakeStep st) w).scopes.modify target _).length
    rw [List.length_modify, f1]; exact h.len.symm
  · intro j
    show ScopeButVerified (st.scope j) ((St.modScope ((st.subscopes target).foldl (ghTakeStep st) w) target
      (fun x => { x with providers := (st.scope target).providers })).scope j)
    rw [scope_modScope, f1]
    have hY := f9 j
    generalize ((st.subscopes target).foldl (ghTakeStep st) w).scope j = Y at hY ⊢
    obtain ⟨a1, a2, a3, a4, a5, a6, a7, a8, a9, a10, a11, a12⟩ := h.scope j
    have yf : Y.parent = (w.scope j).parent ∧ Y.children = (w.scope j).children ∧ Y.providers = (w.scope j).providers ∧
        Y.decorators = (w.scope j).decorators ∧ Y.values = (w.scope j).values ∧
        Y.decoratedValues = (w.scope j).decoratedValues ∧ Y.groups = (w.scope j).groups ∧
        Y.decoratedGroups = (w.scope j).decoratedGroups ∧ Y.nodes = (w.scope j).nodes := by
      rw [hY]; split <;> exact ⟨rfl, rfl, rfl, rfl, rfl, rfl, rfl, rfl, rfl⟩
    obtain ⟨o1, o2, o3, o4, o5, o6, o7, o8, o9⟩ := yf
    by_cases hjl : j < w.scopes.length
    · have hgh : Y.gh = (st.scope j).gh := by
        rw [hY]
        by_cases hm : j ∈ st.subscopes target
        · rw [if_pos ⟨hm, hjl⟩]; exact a11
        · rw [if_neg (fun hc => hm hc.1)]; exact a12 hm
      by_cases hjt : target = j
      · subst hjt
        rw [if_pos ⟨rfl, hjl⟩]
        exact ⟨(o1.trans a1).symm, (o2.trans a2).symm, rfl, (o4.trans a3).symm, (o5.trans a4).symm, (o6.trans a5).symm,
          (o7.trans a6).symm, (o8.trans a7).symm, (o9.trans a8).symm, hgh.symm⟩
      · have hjt' : j ≠ target := fun h => hjt h.symm
        rw [if_neg (fun hc => hjt hc.1)]
        exact ⟨(o1.trans a1).symm, (o2.trans a2).symm, (o3.trans (a9 hjt')).symm, (o4.trans a3).symm, (o5.trans a4).symm,
          (o6.trans a5).symm, (o7.trans a6).symm, (o8.trans a7).symm, (o9.trans a8).symm, hgh.symm⟩
    · have hjs : st.scopes.length ≤ j := by rw [← h.len]; omega
      have e1 := scope_ge_len st j hjs
      have e2 := scope_ge_len w j (by omega)
      rw [if_neg (fun hc => hjl hc.2)]
      rw [if_neg (fun hc => hjl hc.2)] at hY
      rw [hY, e2, e1]
      exact ⟨rfl, rfl, rfl, rfl, rfl, rfl, rfl, rfl, rfl, rfl⟩


/-! ### a rejected Decorate / Invoke: parse, then roll back — the container is literally what it was -/

theorem rollback_verified (st w : St) (target : Nat) (l : List Nat) (j : Nat) :
    ((rollbackProvide st w target l).scope j).verified = (w.scope j).verified := by
  unfold rollbackProvide
  obtain ⟨f1, _, _, _, _, _, _, _, f9⟩ := foldl_ghTake st l w
  have hfold : l.foldl (fun w sc => w.modScope sc fun x =>
      { x with gh := x.gh.take (st.scope sc).gh.length }) w = l.foldl (ghTakeStep st) w := rfl
  simp only [hfold]
  show ((St.modScope (l.foldl (ghTakeStep st) w) target
      (fun x => { x with providers := (st.scope target).providers })).scope j).verified = _
  rw [scope_modScope]
  have hY := f9 j
  generalize (l.foldl (ghTakeStep st) w).scope j = Y at hY ⊢
  have : Y.verified = (w.scope j).verified := by rw [hY]; split <;> rfl
  split <;> simp [this]

theorem scopeSt_ext (a b : ScopeSt) (h : ScopeButVerified a b) (hv : a.verified = b.verified) : a = b := by
  obtain ⟨h1, h2, h3, h4, h5, h6, h7, h8, h9, h10⟩ := h
  cases a; cases b
  simp_all

theorem scopes_ext (a b : List ScopeSt) (hl : a.length = b.length)
    (h : ∀ j, a.getD j { parent := none } = b.getD j { parent := none }) : a = b := by
  apply List.ext_getElem? 
  intro j
  by_cases hj : j < a.length
  · have hjb : j < b.length := by omega
    have := h j
    rw [List.getD_eq_getElem?_getD, List.getD_eq_getElem?_getD, List.getElem?_eq_getElem hj,
      List.getElem?_eq_getElem hjb] at this
    simp only [Option.getD_some] at this
    rw [List.getElem?_eq_getElem hj, List.getElem?_eq_getElem hjb, this]
  · rw [List.getElem?_eq_none (by omega), List.getElem?_eq_none (by omega)]

theorem st_ext_of (a b : St) (h : EqButVerified a b) (hv : ∀ j, (a.scope j).verified = (b.scope j).verified) : a = b := by
  obtain ⟨h1, h2, h3, h4, h5, h6, h7, h8, h9⟩ := h
  have hs : a.scopes = b.scopes := by
    apply scopes_ext _ _ h8
    intro j
    exact scopeSt_ext _ _ (h9 j) (hv j)
  cases a; cases b
  simp_all

/-- parsing a signature for scope `s` and rolling the graphs back gives the container one started from -/
theorem parse_rollback_eq (env : TyEnv) (st : St) (s : Nat) (fn : Fn) :
    rollbackProvide st (parseParams env st s fn).2 s (st.subscopes s) = st := by
  have hw : Work st (parseParams env st s fn).2 s := work_parseParams (Work.refl st s) env fn
  have he := rollback_restores hw
  have hg := ghOnly_parseParams env st s fn
  symm
  apply st_ext_of _ _ he
  intro j
  rw [rollback_verified]
  exact (hg.2.2.2.2.2.2.2 j).2.2.2.2.2.2.2.2.2

end Dig
