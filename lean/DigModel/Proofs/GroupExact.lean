import DigModel.Proofs.Just2Api
import DigModel.Proofs.History
import DigModel.Proofs.NoBugApi
/-
  Value-group stores, exactly: in a container without DryRun the members stored for a group key in a scope are,
  in order, the grouped results of the successful executions — as recorded in the history — of the constructors whose
  home is that scope.  Nothing is lost, nothing is duplicated, nothing else gets in (`GX`, an invariant of every
  operation of every program).
-/
namespace Dig

/-! ### what one extraction appends -/

/-- the values one grouped leaf contributes -/
def leafVals (env : TyEnv) (r : Ret) (l : Key × Nat × Nat × Bool) : List Val :=
  if l.2.2.2 then elemsOf (r.val env l.2.1 l.2.2.1) else [r.val env l.2.1 l.2.2.1]

/-- the values a list of leaves contributes to group key `k` -/
def leavesContrib (env : TyEnv) (r : Ret) (ls : List (Key × Nat × Nat × Bool)) (k : Key) : List Val :=
  (ls.filter fun l => decide (l.1 = k)).flatMap (leafVals env r)

theorem leavesContrib_nil (env : TyEnv) (r : Ret) (k : Key) : leavesContrib env r [] k = [] := rfl

theorem leavesContrib_append (env : TyEnv) (r : Ret) (l1 l2 : List (Key × Nat × Nat × Bool)) (k : Key) :
    leavesContrib env r (l1 ++ l2) k = leavesContrib env r l1 k ++ leavesContrib env r l2 k := by
  simp [leavesContrib, List.filter_append, List.flatMap_append]

/-- what a constructor's results contribute to group key `k` when it returns `r` -/
def contrib (env : TyEnv) (r : Ret) (slots : List RSlot) (k : Key) : List Val :=
  leavesContrib env r (slotGroupLeaves slots) k

theorem agetL_submitAll (m : List (Key × List Val)) (k' k : Key) (vs : List Val) :
    agetL (submitAll m k' vs) k = if k = k' then agetL m k ++ vs else agetL m k := by
  unfold submitAll agetL
  rw [aget_aset]
  split
  · rename_i h; subst h; rfl
  · rfl

theorem foldl_submit_exact (group : String) (v : Val) : ∀ (tys : List Nat) (m : List (Key × List Val)) (k : Key),
    agetL (tys.foldl (fun m t => submitAll m { ty := t, name := "", group := group } [v]) m) k =
      agetL m k ++ ((tys.map fun t => (({ ty := t, name := "", group := group } : Key))).filter fun k' => decide (k' = k)).flatMap (fun _ => [v]) := by
  intro tys
  induction tys with
  | nil => intro m k; simp
  | cons t ts ih =>
    intro m k
    simp only [List.foldl_cons, List.map_cons]
    rw [ih, agetL_submitAll]
    by_cases h : k = { ty := t, name := "", group := group }
    · have h' : ({ ty := t, name := "", group := group } : Key) = k := h.symm
      simp [h, List.filter_cons, List.append_assoc]
    · have h' : ¬ ({ ty := t, name := "", group := group } : Key) = k := fun e => h e.symm
      simp [h, h', List.filter_cons]

theorem extractResult_groups_exact (env : TyEnv) (r : Ret) (sc : ScopeSt) (x : Result) :
    ∀ k, agetL (extractResult env r sc x).groups k = agetL sc.groups k ++ leavesContrib env r (groupLeaves x) k := by
  apply extractResult.induct env r
    (fun sc x => ∀ k, agetL (extractResult env r sc x).groups k = agetL sc.groups k ++ leavesContrib env r (groupLeaves x) k)
    (fun sc xs => ∀ k, agetL (extractResults env r sc xs).groups k = agetL sc.groups k ++ leavesContrib env r (groupLeavesL xs) k)
  · intro sc slot decl ty name as k
    simp [extractResult, groupLeaves, leavesContrib]
  · intro sc slot decl ty group as k
    simp only [extractResult, if_true, groupLeaves]
    rw [agetL_submitAll]
    by_cases h : k = { ty := ty, name := "", group := group }
    · have h' : ({ ty := ty, name := "", group := group } : Key) = k := h.symm
      simp [h, leavesContrib, leafVals]
    · have h' : ¬ ({ ty := ty, name := "", group := group } : Key) = k := fun e => h e.symm
      simp [h, h', leavesContrib]
  · intro sc slot decl ty group flatten as hf k
    have hff : flatten = false := by simpa using hf
    simp only [extractResult, hf, groupLeaves, hff, Bool.false_eq_true, if_false]
    rw [foldl_submit_exact]
    congr 1
    simp only [leavesContrib]
    generalize (ty :: as) = tys
    induction tys with
    | nil => rfl
    | cons t ts ih =>
      simp only [List.map_cons, List.filter_cons]
      by_cases h : ({ ty := t, name := "", group := group } : Key) = k
      · simp [h, leafVals, ih]
      · simp [h, ih]
  · intro sc ty fs ih k
    simp only [extractResult, groupLeaves]
    exact ih k
  · intro sc k
    simp [extractResults, groupLeavesL, leavesContrib]
  · intro sc x xs ih1 ih2 k
    simp only [extractResults, groupLeavesL]
    rw [ih2, ih1, leavesContrib_append, List.append_assoc]

/-- **extraction appends, and appends exactly the declared grouped results** -/
theorem extractSlots_groups_exact (env : TyEnv) (r : Ret) : ∀ (slots : List RSlot) (sc : ScopeSt) (k : Key),
    agetL (extractSlots env false r sc slots).groups k = agetL sc.groups k ++ contrib env r slots k := by
  intro slots
  induction slots with
  | nil => intro sc k; simp [extractSlots, contrib, slotGroupLeaves, leavesContrib]
  | cons s rest ih =>
    intro sc k
    cases s with
    | err => simp only [extractSlots, contrib, slotGroupLeaves]; exact ih sc k
    | val x =>
      simp only [extractSlots, Bool.false_eq_true, if_false]
      rw [ih, extractResult_groups_exact]
      simp only [contrib, slotGroupLeaves]
      rw [leavesContrib_append, List.append_assoc]

end Dig

namespace Dig

/-! ### the history's account of a group store -/

/-- what a constructor execution `(f, x)` returned, as `ctorCommit` sees it -/
def retOfExec (ctx : Ctx) (f x : Nat) : Ret := { dry := false, f := f, x := x, len := (ctx.beh f x).len }

/-- what one event of the history contributes to group key `k` of scope `S` -/
def evContrib (ctx : Ctx) (st : St) (S : Nat) (k : Key) : Event → List Val
  | .exit (.ctor n) f x .ok =>
    if (st.ctor n).s = S then contrib ctx.env (retOfExec ctx f x) (st.ctor n).results k else []
  | _ => []

def histGroup (ctx : Ctx) (st : St) (S : Nat) (k : Key) : List Val := st.hist.flatMap (evContrib ctx st S k)

/-- every group store is what the history says it is -/
def GX (ctx : Ctx) (st : St) : Prop := ∀ S k, agetL (st.scope S).groups k = histGroup ctx st S k

theorem GX.init (ctx : Ctx) : GX ctx ({} : St) := by
  intro S k
  cases S <;> simp [St.scope, agetL, aget, histGroup]

theorem evContrib_congr (ctx : Ctx) {a b : St} (S : Nat) (k : Key) (e : Event)
    (h : ∀ n f x, e = .exit (.ctor n) f x .ok → (b.ctor n).s = (a.ctor n).s ∧ (b.ctor n).results = (a.ctor n).results) :
    evContrib ctx b S k e = evContrib ctx a S k e := by
  cases e with
  | enter w f x args => rfl
  | cb op w fn err rt => rfl
  | exit w f x r =>
    cases w with
    | invoked => rfl
    | deco d => rfl
    | ctor n =>
      cases r with
      | ok =>
        obtain ⟨h1, h2⟩ := h n f x rfl
        simp only [evContrib, h1, h2]
      | err => rfl
      | panic => rfl

theorem histGroup_congr (ctx : Ctx) {a b : St} (S : Nat) (k : Key) (hh : b.hist = a.hist)
    (h : ∀ n f x, Event.exit (.ctor n) f x .ok ∈ a.hist → (b.ctor n).s = (a.ctor n).s ∧ (b.ctor n).results = (a.ctor n).results) :
    histGroup ctx b S k = histGroup ctx a S k := by
  unfold histGroup
  rw [hh]
  exact flatMap_congr' _ _ _ (fun e he => evContrib_congr ctx S k e (fun n f x heq => h n f x (heq ▸ he)))

/-- nothing about groups, history or the executed constructors changes -/
theorem GX.transfer {ctx : Ctx} {a b : St} (h : GX ctx a) (hh : b.hist = a.hist)
    (hs : ∀ j, (b.scope j).groups = (a.scope j).groups)
    (hk : ∀ n f x, Event.exit (.ctor n) f x .ok ∈ a.hist → (b.ctor n).s = (a.ctor n).s ∧ (b.ctor n).results = (a.ctor n).results) :
    GX ctx b := by
  intro S k
  rw [hs S, histGroup_congr ctx S k hh hk]
  exact h S k

/-- executed constructors exist (`HInv.freshC`), so whatever keeps the existing constructors keeps the account -/
theorem GX.keep {ctx : Ctx} {a b : St} (h : GX ctx a) (hi : HInv a) (hh : b.hist = a.hist)
    (hs : ∀ j, (b.scope j).groups = (a.scope j).groups) (hk : CtorsKeep a b) : GX ctx b := by
  refine h.transfer hh hs (fun n f x hm => ?_)
  have hn : n < a.ctors.length := by
    by_cases hlt : n < a.ctors.length
    · exact hlt
    · have := hi.freshC n (by omega)
      have hp := okExits_pos_of_mem _ _ _ _ hm
      omega
  obtain ⟨_, _, k3, k4, _⟩ := hk n hn
  exact ⟨k4, k3⟩

end Dig

namespace Dig

/-! ### the resolver -/

def GR (ctx : Ctx) (a b : St) : Prop :=
  RegFrame a b ∧ HistExt a b ∧ (HomeOK a → GX ctx a → GX ctx b)

theorem GR.refl (ctx : Ctx) (a : St) : GR ctx a a := ⟨RegFrame.refl a, HistExt.refl a, fun _ h => h⟩

theorem GR.trans {ctx : Ctx} {a b c : St} (h1 : GR ctx a b) (h2 : GR ctx b c) : GR ctx a c :=
  ⟨h1.1.trans h2.1, h1.2.1.trans h2.2.1, fun hh hg => h2.2.2 (hh.of_regFrame h1.1) (h1.2.2 hh hg)⟩

theorem gr_flags (ctx : Ctx) (a b : St) (hr : RegFrame a b) (hh : b.hist = a.hist) (hs : b.scopes = a.scopes) : GR ctx a b := by
  refine ⟨hr, HistExt.of_eq hh, fun _ hg => ?_⟩
  exact hg.transfer hh (fun j => by rw [scope_of_scopes_eq hs j])
    (fun n _ _ _ => ⟨((hr.2.2.2.2.1 n).2.2.2.1).symm, ((hr.2.2.2.2.1 n).2.2.1).symm⟩)

theorem histGroup_append (ctx : Ctx) (a b : St) (S : Nat) (k : Key) (l : List Event) (hh : b.hist = a.hist ++ l)
    (hk : ∀ n, (b.ctor n).s = (a.ctor n).s ∧ (b.ctor n).results = (a.ctor n).results) :
    histGroup ctx b S k = histGroup ctx a S k ++ l.flatMap (evContrib ctx b S k) := by
  unfold histGroup
  rw [hh, List.flatMap_append]
  congr 1
  exact flatMap_congr' _ _ _ (fun e _ => evContrib_congr ctx S k e (fun n _ _ _ => hk n))

theorem gr_ctorTail (ctx : Ctx) (hnd : ctx.cfg.dry = false) (st : St) (n : Nat) (node : CtorNode) (args : List Val)
    (hst : CtorStatic node (st.ctor n)) : GR ctx st (ctorTail ctx n node args st).2 := by
  have hreg := regFrame_ctorTail ctx st n node args
  refine ⟨hreg, ctorTail_histExt ctx n node args st, ?_⟩
  intro hhome hg S k
  obtain ⟨lb, lc, hh, _, hlb, hlc⟩ := ctorTail_log ctx n node args st
  have hlb' : lb = bodyEvents ctx (.ctor n) node.fn args st := by
    rcases hlb with ⟨hd, _⟩ | ⟨_, h⟩
    · rw [hnd] at hd; cases hd
    · exact h
  have hk : ∀ m, ((ctorTail ctx n node args st).2.ctor m).s = (st.ctor m).s ∧
      ((ctorTail ctx n node args st).2.ctor m).results = (st.ctor m).results :=
    fun m => ⟨((hreg.2.2.2.2.1 m).2.2.2.1).symm, ((hreg.2.2.2.2.1 m).2.2.1).symm⟩
  rw [histGroup_append ctx st _ S k _ hh hk, ← hg S k]
  obtain ⟨s1, s2, s3, s4, _, _, _⟩ := hst
  -- the callback event contributes nothing
  have hlc0 : lc.flatMap (evContrib ctx (ctorTail ctx n node args st).2 S k) = [] := by
    rcases hlc with h | ⟨op, err, rt, h⟩ <;> (rw [h]; rfl)
  rw [List.flatMap_append, hlc0, List.append_nil, hlb']
  rw [ctorTail_scope, callBody_spec ctx hnd]
  simp only [bodyEvents, List.flatMap_cons, List.flatMap_nil, List.append_nil]
  have hev0 : evContrib ctx (ctorTail ctx n node args st).2 S k (.enter (.ctor n) node.fn.id (st.execCount node.fn.id) args) = [] := rfl
  rw [hev0, List.nil_append]
  -- by the behaviour of this execution
  simp only [bodyRes, exitKind]
  have hok : ∀ len, len = (ctx.beh node.fn.id (st.execCount node.fn.id)).len →
      agetL (match retOf node.fn.id (BodyRes.ok (st.execCount node.fn.id) len) with
        | some ret => if node.s = S ∧ S < st.scopes.length then extractSlots ctx.env false ret (st.scope S) node.results else st.scope S
        | none => st.scope S).groups k =
      agetL (st.scope S).groups k ++
        evContrib ctx (ctorTail ctx n node args st).2 S k (.exit (.ctor n) node.fn.id (st.execCount node.fn.id) .ok) := by
    intro len hlen
    simp only [retOf, evContrib, (hk n).1, (hk n).2, ← s3, ← s4]
    by_cases hn : n < st.ctors.length
    · by_cases hS : node.s = S
      · have hlt : S < st.scopes.length := by rw [← hS, s4]; exact hhome.ctor n hn
        simp only [hS, hlt, and_self, if_true]
        rw [extractSlots_groups_exact]
        simp [retOfExec, hlen]
      · simp [hS]
    · have hdef : st.ctor n = default := by
        simp only [St.ctor, List.getD_eq_getElem?_getD]
        rw [List.getElem?_eq_none (Nat.le_of_not_lt hn)]; rfl
      have hres : node.results = [] := by rw [s3, hdef]; rfl
      simp only [hres, extractSlots, contrib, slotGroupLeaves, leavesContrib_nil]
      split <;> simp
  cases hbk : (ctx.beh node.fn.id (st.execCount node.fn.id)).k with
  | ok => simp only; exact hok _ rfl
  | panic => simp [retOf, evContrib]
  | err =>
    simp only
    by_cases he : (errOuts ctx.env node.fn).isEmpty = true
    · simp only [he, if_true]; exact hok _ rfl
    · simp [he, retOf, evContrib]

theorem gr_decoTail (ctx : Ctx) (st : St) (d : Nat) (node : DecoNode) (args : List Val) :
    GR ctx st (decoTail ctx d node args st).2 := by
  have hreg := regFrame_decoTail ctx st d node args
  refine ⟨hreg, decoTail_histExt ctx d node args st, ?_⟩
  intro _ hg S k
  obtain ⟨lb, lc, hh, _, hlb, hlc⟩ := decoTail_log ctx d node args st
  have hk : ∀ m, ((decoTail ctx d node args st).2.ctor m).s = (st.ctor m).s ∧
      ((decoTail ctx d node args st).2.ctor m).results = (st.ctor m).results :=
    fun m => ⟨((hreg.2.2.2.2.1 m).2.2.2.1).symm, ((hreg.2.2.2.2.1 m).2.2.1).symm⟩
  rw [histGroup_append ctx st _ S k _ hh hk, ← hg S k]
  have hlc0 : lc.flatMap (evContrib ctx (decoTail ctx d node args st).2 S k) = [] := by
    rcases hlc with h | ⟨op, err, rt, h⟩ <;> (rw [h]; rfl)
  have hlb0 : lb.flatMap (evContrib ctx (decoTail ctx d node args st).2 S k) = [] := by
    rcases hlb with ⟨_, h⟩ | ⟨_, h⟩
    · rw [h]; rfl
    · rw [h]; rfl
  rw [List.flatMap_append, hlc0, hlb0, List.append_nil, List.append_nil]
  rw [decoTail_scope]
  cases retOf node.fn.id (callBody ctx (.deco d) node.fn args st).1 with
  | none => rfl
  | some ret =>
    simp only
    split
    · rw [(extractSlots_deco_writes ctx.env ret node.results _).2.2]
    · rfl

theorem gr_leaf (ctx : Ctx) (hnd : ctx.cfg.dry = false) : LeafRel2 ctx (GR ctx) where
  refl := GR.refl ctx
  trans := GR.trans
  toReg h := h.1
  setOnStack st n := gr_flags ctx _ _ (regFrame_modCtor st n _ (fun _ => ⟨rfl, rfl, rfl, rfl, rfl, rfl, rfl⟩)) rfl rfl
  clearOnStack st n := gr_flags ctx _ _ (regFrame_modCtor st n _ (fun _ => ⟨rfl, rfl, rfl, rfl, rfl, rfl, rfl⟩)) rfl rfl
  ctorTail st n node args hst := gr_ctorTail ctx hnd st n node args hst
  decoOnStack st d := gr_flags ctx _ _ (regFrame_modDeco st d _ (fun _ => ⟨rfl, rfl, rfl, rfl, rfl⟩)) rfl rfl
  decoFinally st d := gr_flags ctx _ _ (regFrame_modDeco st d _ (fun x => by split <;> exact ⟨rfl, rfl, rfl, rfl, rfl⟩)) rfl rfl
  decoTail st d node args _ := gr_decoTail ctx st d node args

theorem GX.buildList {ctx : Ctx} (hnd : ctx.cfg.dry = false) {st : St} (h : GX ctx st) (hh : HomeOK st)
    (fuel : Nat) (ps : List Param) (c : Nat) : GX ctx (buildList ctx fuel ps c st).2 :=
  ((engine_pres2 ctx (gr_leaf ctx hnd) fuel).2.2.2.2.2 ps c st).2.2 hh h

end Dig

namespace Dig

/-! ### the API -/

theorem GX.cacheSame {ctx : Ctx} {a b : St} (h : GX ctx a) (hi : HInv a) (hc : CacheSame a b) (hk : CtorsKeep a b) : GX ctx b :=
  h.keep hi hc.1 (fun j => (hc.2.2 j).2.2.1) hk

/-- the invoked function's own execution contributes to no group -/
theorem GX.callInvoked {ctx : Ctx} (hnd : ctx.cfg.dry = false) {st : St} (h : GX ctx st) (fn : Fn) (args : List Val) :
    GX ctx (callBody ctx .invoked fn args st).2 := by
  intro S k
  rw [callBody_spec ctx hnd]
  have hk : ∀ m, ((afterBody ctx .invoked fn args st).ctor m).s = (st.ctor m).s ∧
      ((afterBody ctx .invoked fn args st).ctor m).results = (st.ctor m).results := by
    intro m
    have : (afterBody ctx .invoked fn args st).ctors = st.ctors := by
      simp only [afterBody]; exact (bumpExec_fields st fn.id).2.1
    simp only [St.ctor, this]; exact ⟨trivial, trivial⟩
  have hh : (afterBody ctx .invoked fn args st).hist = st.hist ++ bodyEvents ctx .invoked fn args st := rfl
  rw [histGroup_append ctx st _ S k _ hh hk, ← h S k]
  have hs : (afterBody ctx .invoked fn args st).scopes = st.scopes := by
    simp only [afterBody]; exact (bumpExec_fields st fn.id).1
  rw [scope_of_scopes_eq hs S]
  simp [bodyEvents, evContrib]

theorem GX.resetLog {ctx : Ctx} {st : St} (h : GX ctx st) : GX ctx { st with log := [] } := h

theorem GX.invoke {ctx : Ctx} (hnd : ctx.cfg.dry = false) {st : St} (h : GX ctx st) (hn : NBInv ctx.env st) (fn : Fn) (s : Nat)
    (info : Bool) : GX ctx (apiInvoke ctx fn st s info).1 := by
  rw [apiInvoke_eq]
  unfold apiInvoke'
  cases fn.nonfunc with
  | some _ => exact h
  | none =>
    simp only
    have hg := ghOnly_parseParams ctx.env st s fn
    have hw := h.cacheSame hn.h (cacheSame_ghOnly hg) (ctorsKeep_of_ctors_eq hg.1.symm)
    have hhome : HomeOK (parseParams ctx.env st s fn).2 := hn.home.same hg.1.symm hg.2.1.symm (Nat.le_of_eq hg.2.2.2.2.2.2.1)
    cases hpp : parseParams ctx.env st s fn with
    | mk r w =>
      rw [hpp] at hw hg hhome
      simp only at hw hg hhome
      cases r with
      | error e =>
        exact h.cacheSame hn.h ((cacheSame_ghOnly hg).trans (cacheSame_rollback _ _ _ _))
          (ctorsKeep_of_ctors_eq (rollback_ctors_same st w s _ hg.1.symm))
      | ok params =>
        simp only
        have hs := shallowCheck_state s params w
        cases hsc : shallowCheck s params w with
        | mk r2 w2 =>
          rw [hsc] at hs; simp only at hs; subst hs
          cases r2 with
          | error f => exact hw
          | ok u =>
            simp only
            cases hck : invokeCheck w2 s with
            | error v => exact hw
            | ok w3 =>
              simp only
              have hw3 : GX ctx w3 ∧ HomeOK w3 := by
                unfold invokeCheck at hck
                split at hck
                · injection hck with e; rw [← e]; exact ⟨hw, hhome⟩
                · split at hck
                  · injection hck with e; rw [← e]
                    refine ⟨?_, hhome.same rfl rfl (by simp [St.modScope])⟩
                    have hcs : CacheSame w2 (w2.modScope s fun x => { x with verified := true }) :=
                      cacheSame_modScope w2 s _ (fun _ => ⟨rfl, rfl, rfl, rfl⟩)
                    exact hw.transfer rfl (fun j => (hcs.2.2 j).2.2.1) (fun _ _ _ _ => ⟨rfl, rfl⟩)
                  · cases hck
                  · cases hck
              unfold invokeRun
              have hb := hw3.1.buildList hnd hw3.2 (engineFuel w3 params) params s
              rw [← wrapErr_state _ DErr.argsFailed] at hb
              cases hbl : EM.wrapErr (Dig.buildList ctx (engineFuel w3 params) params s) DErr.argsFailed w3 with
              | mk r4 w4 =>
                rw [hbl] at hb
                cases r4 with
                | error f => exact hb
                | ok args =>
                  simp only
                  exact hb.callInvoked hnd fn args

theorem GX.step {ctx : Ctx} (hnd : ctx.cfg.dry = false) {st : St} (h : GX ctx st) (hn : NBInv ctx.env st) (fns : List Fn) (i : Nat)
    (op : Op) : GX ctx (Dig.step ctx fns st i op).1 := by
  have h0 : GX ctx { st with log := [] } := h
  have hn0 := hn.resetLog
  cases op with
  | scope p =>
    simp only [Dig.step]
    split
    · exact h0.cacheSame hn0.h (cacheSame_apiScope _ p) (ctorsKeep_apiScope _ p)
    · exact h0
  | provide s f o =>
    simp only [Dig.step]
    split
    · split
      · rename_i fn _ _
        have hcs := cacheSame_apiProvide ctx fn { st with log := [] } i s o
        rcases apiProvide_work ctx fn { st with log := [] } i s o with he | ⟨target, w, hw, hr | ⟨n, hr⟩⟩
        · exact h0.cacheSame hn0.h hcs (ctorsKeep_of_ctors_eq he.1.symm)
        · refine h0.cacheSame hn0.h hcs ?_
          rw [hr]; exact ctorsKeep_work hw
        · refine h0.cacheSame hn0.h hcs ?_
          rw [hr]; exact (ctorsKeep_work hw).trans (ctorsKeep_of_ctors_eq rfl)
      · exact h0
    · exact h0
  | decorate s f cb info =>
    simp only [Dig.step]
    split
    · split
      · exact h0.cacheSame hn0.h (cacheSame_apiDecorate ctx _ _ i s cb info) (ctorsKeep_of_ctors_eq (apiDecorate_ctors ctx _ _ i s cb info))
      · exact h0
    · exact h0
  | invoke s f info =>
    simp only [Dig.step]
    split
    · split
      · exact h0.invoke hnd hn0 _ s info
      · exact h0
    · exact h0
  | visualize s e => cases e <;> (simp only [Dig.step]; split <;> exact h0)
  | string s => simp only [Dig.step]; split <;> exact h0

theorem GX.runOps {ctx : Ctx} (hnd : ctx.cfg.dry = false) (fns : List Fn) : ∀ (ops : List Op) (i : Nat) (st : St) (acc : List OpRes),
    GX ctx st → NBInv ctx.env st → GX ctx (Dig.runOps ctx fns ops i st acc).1 := by
  intro ops
  induction ops with
  | nil => intro i st acc h _; exact h
  | cons op rest ih =>
    intro i st acc h hn
    simp only [Dig.runOps]
    exact ih _ _ _ (h.step hnd hn fns i op) (hn.step ctx fns i op)

/-- **every group store of every reachable container (without DryRun) is exactly what the history says**: in order,
    the declared grouped results of the successful executions of the constructors living in that scope -/
theorem gx_program (p : Program) (hnd : p.cfg.dry = false) : GX p.ctx (runProgram p).1 :=
  GX.runOps (ctx := p.ctx) hnd p.fns p.ops 0 {} [] (GX.init p.ctx) (NBInv.init _)

end Dig

namespace Dig

theorem GX.buildGroup {ctx : Ctx} (hnd : ctx.cfg.dry = false) {st : St} (h : GX ctx st) (hh : HomeOK st)
    (fuel : Nat) (k : Key) (soft : Bool) (c : Nat) : GX ctx (buildGroup ctx fuel k soft c st).2 :=
  ((engine_pres2 ctx (gr_leaf ctx hnd) fuel).2.2.2.1 k soft c st).2.2 hh h

end Dig

namespace Dig

/-- the account holds at every moment of a resolution that starts in a container where it holds -/
theorem GX.buildParam {ctx : Ctx} (hnd : ctx.cfg.dry = false) {st : St} (h : GX ctx st) (hh : HomeOK st)
    (fuel : Nat) (p : Param) (c : Nat) : GX ctx (buildParam ctx fuel p c st).2 :=
  ((engine_pres2 ctx (gr_leaf ctx hnd) fuel).2.2.2.2.1 p c st).2.2 hh h

end Dig
