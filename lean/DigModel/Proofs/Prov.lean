import DigModel.Proofs.Body
import DigModel.Proofs.Frame
/-
  Provenance: every token that sits in a cache of the container, and every token handed to a user
  function as (part of) an argument, was returned by an execution of a constructor's or decorator's
  function that had *already ended successfully* at that moment.  Proved as an invariant `Prov` of the
  whole resolver (a value post-condition is carried through the mutual recursion) and then of every
  API step.
-/
namespace Dig

/-! ### the executions a value stems from -/

mutual
def Val.toks : Val → List (Nat × Nat)
  | .tok f x _ _ => [(f, x)]
  | .zero _ => []
  | .int _ => []
  | .sl xs => Val.toksL xs
  | .obj xs => Val.toksL xs
def Val.toksL : List Val → List (Nat × Nat)
  | [] => []
  | v :: vs => v.toks ++ Val.toksL vs
end

theorem mem_toksL {p : Nat × Nat} : ∀ {vs : List Val}, p ∈ Val.toksL vs ↔ ∃ v ∈ vs, p ∈ v.toks
  | [] => by simp [Val.toksL]
  | v :: vs => by
    simp only [Val.toksL, List.mem_append, List.mem_cons, exists_eq_or_imp, mem_toksL (vs := vs)]

/-- execution `x` of function `f`, run for a constructor or decorator node, has ended successfully in `h` -/
def OkExec (h : List Event) (p : Nat × Nat) : Prop :=
  ∃ who, who ≠ Who.invoked ∧ Event.exit who p.1 p.2 .ok ∈ h

def ValOk (h : List Event) (v : Val) : Prop := ∀ p ∈ v.toks, OkExec h p
def ValsOk (h : List Event) (vs : List Val) : Prop := ∀ v ∈ vs, ValOk h v

theorem OkExec.mono {h : List Event} {p : Nat × Nat} (l : List Event) (hp : OkExec h p) : OkExec (h ++ l) p := by
  obtain ⟨w, hw, hm⟩ := hp
  exact ⟨w, hw, List.mem_append_left _ hm⟩

theorem ValOk.mono {h : List Event} {v : Val} (l : List Event) (hv : ValOk h v) : ValOk (h ++ l) v :=
  fun p hp => (hv p hp).mono l

theorem ValsOk.mono {h : List Event} {vs : List Val} (l : List Event) (hv : ValsOk h vs) : ValsOk (h ++ l) vs :=
  fun v hm => (hv v hm).mono l

theorem valOk_sl {h : List Event} {xs : List Val} : ValOk h (.sl xs) ↔ ValsOk h xs := by
  unfold ValOk ValsOk ValOk
  simp only [Val.toks, mem_toksL]
  constructor
  · intro hh v hv p hp; exact hh p ⟨v, hv, hp⟩
  · intro hh p ⟨v, hv, hp⟩; exact hh v hv p hp

theorem valOk_obj {h : List Event} {xs : List Val} : ValOk h (.obj xs) ↔ ValsOk h xs := by
  unfold ValOk ValsOk ValOk
  simp only [Val.toks, mem_toksL]
  constructor
  · intro hh v hv p hp; exact hh p ⟨v, hv, hp⟩
  · intro hh p ⟨v, hv, hp⟩; exact hh v hv p hp

theorem valOk_zero (h : List Event) (ty : Nat) : ValOk h (.zero ty) := by
  intro p hp; simp [Val.toks] at hp

theorem valOk_zeroVal (h : List Event) (env : TyEnv) (ty : Nat) : ValOk h (zeroVal env ty) := by
  unfold zeroVal
  split
  · rw [valOk_sl]; intro v hv; cases hv
  · exact valOk_zero h ty

/-- the tokens of a value made by execution `x` of `f` all name that execution -/
theorem toks_mkAtom (env : TyEnv) (f x slot i ty : Nat) : ∀ p ∈ (mkAtom env f x slot i ty).toks, p = (f, x) := by
  intro p hp
  unfold mkAtom at hp
  split at hp
  · simp [Val.toks] at hp
  · split at hp
    · simpa [Val.toks] using hp
    · simpa [Val.toks] using hp
    · simpa [Val.toks] using hp
    · simp [Val.toks, Val.toksL] at hp
    · split at hp <;> simp [Val.toks] at hp

theorem toks_mkVal (env : TyEnv) (f x slot len ty : Nat) : ∀ p ∈ (mkVal env f x slot len ty).toks, p = (f, x) := by
  intro p hp
  unfold mkVal at hp
  split at hp
  · -- zero values carry no token
    exfalso
    split at hp
    · simp only [Val.toks, mem_toksL, List.mem_map, List.mem_range] at hp
      obtain ⟨v, ⟨i, _, rfl⟩, hv⟩ := hp
      obtain ⟨_, _, hm⟩ := valOk_zeroVal [] env _ p hv
      cases hm
    · obtain ⟨_, _, hm⟩ := valOk_zeroVal [] env _ p hp
      cases hm
  · split at hp
    · simp only [Val.toks, mem_toksL, List.mem_map, List.mem_range] at hp
      obtain ⟨v, ⟨i, _, rfl⟩, hv⟩ := hp
      split at hv
      · simp only [Val.toks, Val.toksL, List.append_nil] at hv
        exact toks_mkAtom env f x slot i _ p hv
      · exact toks_mkAtom env f x slot i _ p hv
    · exact toks_mkAtom env f x slot 0 ty p hp

theorem valOk_retVal (env : TyEnv) (h : List Event) (r : Ret) (slot decl : Nat)
    (hr : r.dry = false → OkExec h (r.f, r.x)) : ValOk h (r.val env slot decl) := by
  unfold Ret.val
  cases hd : r.dry with
  | true => simp only [if_true]; exact valOk_zeroVal h env decl
  | false =>
    simp only [Bool.false_eq_true, if_false]
    intro p hp
    rw [toks_mkVal env r.f r.x slot r.len decl p hp]
    exact hr hd

theorem valsOk_elemsOf {h : List Event} {v : Val} (hv : ValOk h v) : ValsOk h (elemsOf v) := by
  unfold elemsOf
  split
  · exact valOk_sl.mp hv
  · intro v hm; cases hm

/-! ### arguments: every `enter` event carries values that were fine when it was emitted -/

def ArgsOk (h : List Event) : Prop :=
  ∀ i w f x args, h[i]? = some (.enter w f x args) → ValsOk (h.take i) args

theorem argsOk_nil : ArgsOk [] := by
  intro i w f x args hi; simp at hi

theorem argsOk_snoc {h : List Event} {e : Event} (hh : ArgsOk h)
    (he : ∀ w f x args, e = .enter w f x args → ValsOk h args) : ArgsOk (h ++ [e]) := by
  intro i w f x args hi
  by_cases hlt : i < h.length
  · rw [List.getElem?_append_left hlt] at hi
    rw [List.take_append_of_le_length (Nat.le_of_lt hlt)]
    exact hh i w f x args hi
  · have hge : h.length ≤ i := Nat.le_of_not_lt hlt
    rw [List.getElem?_append_right hge] at hi
    have hi0 : i - h.length = 0 := by
      cases hk : i - h.length with
      | zero => rfl
      | succ k => rw [hk] at hi; simp at hi
    rw [hi0] at hi
    simp only [List.getElem?_cons_zero, Option.some.injEq] at hi
    have : i = h.length := by omega
    subst this
    simp only [List.take_left']
    exact he w f x args hi

/-! ### the invariant -/

/-- every value cached in a scope stems from successful executions -/
structure ScopeOk (h : List Event) (sc : ScopeSt) : Prop where
  values : ∀ k v, aget sc.values k = some v → ValOk h v
  dvalues : ∀ k v, aget sc.decoratedValues k = some v → ValOk h v
  groups : ∀ k v, v ∈ agetL sc.groups k → ValOk h v
  dgroups : ∀ k v, aget sc.decoratedGroups k = some v → ValOk h v

theorem ScopeOk.mono {h : List Event} {sc : ScopeSt} (l : List Event) (hs : ScopeOk h sc) : ScopeOk (h ++ l) sc where
  values k v hv := (hs.values k v hv).mono l
  dvalues k v hv := (hs.dvalues k v hv).mono l
  groups k v hv := (hs.groups k v hv).mono l
  dgroups k v hv := (hs.dgroups k v hv).mono l

theorem ScopeOk.of_caches {h : List Event} {a b : ScopeSt} (hs : ScopeOk h a)
    (hc : b.values = a.values ∧ b.decoratedValues = a.decoratedValues ∧ b.groups = a.groups ∧
      b.decoratedGroups = a.decoratedGroups) : ScopeOk h b where
  values k v hv := by rw [hc.1] at hv; exact hs.values k v hv
  dvalues k v hv := by rw [hc.2.1] at hv; exact hs.dvalues k v hv
  groups k v hv := by rw [hc.2.2.1] at hv; exact hs.groups k v hv
  dgroups k v hv := by rw [hc.2.2.2] at hv; exact hs.dgroups k v hv

theorem scopeOk_empty (h : List Event) (p : Option Nat) : ScopeOk h ({ parent := p } : ScopeSt) where
  values k v hv := by simp [aget] at hv
  dvalues k v hv := by simp [aget] at hv
  groups k v hv := by simp [agetL, aget] at hv
  dgroups k v hv := by simp [aget] at hv

structure Prov (st : St) : Prop where
  scopes : ∀ s, ScopeOk st.hist (st.scope s)
  args : ArgsOk st.hist

/-- the invariant only reads the scopes' caches and the history -/
theorem Prov.transfer {a b : St} (h : Prov a) (hh : b.hist = a.hist)
    (hs : ∀ j, (b.scope j).values = (a.scope j).values ∧ (b.scope j).decoratedValues = (a.scope j).decoratedValues ∧
      (b.scope j).groups = (a.scope j).groups ∧ (b.scope j).decoratedGroups = (a.scope j).decoratedGroups) : Prov b where
  scopes s := by rw [hh]; exact (h.scopes s).of_caches (hs s)
  args := by rw [hh]; exact h.args

theorem Prov.of_scopes {a b : St} (h : Prov a) (hh : b.hist = a.hist) (hs : b.scopes = a.scopes) : Prov b :=
  h.transfer hh (fun j => by simp [St.scope, hs])

/-- the history grows by events whose `enter`s carry fine arguments; the scopes are untouched -/
theorem Prov.ext {a b : St} (h : Prov a) (l : List Event) (hh : b.hist = a.hist ++ l) (hs : b.scopes = a.scopes)
    (ha : ArgsOk (a.hist ++ l)) : Prov b where
  scopes s := by
    rw [hh]
    have : b.scope s = a.scope s := by simp [St.scope, hs]
    rw [this]; exact (h.scopes s).mono l
  args := by rw [hh]; exact ha

theorem Prov.emit {st : St} (h : Prov st) (e : Event)
    (he : ∀ w f x args, e = .enter w f x args → ValsOk st.hist args) : Prov (st.emit e) :=
  h.ext [e] rfl rfl (argsOk_snoc h.args he)

theorem Prov.init : Prov ({} : St) where
  scopes s := by
    cases s with
    | zero => exact scopeOk_empty _ none
    | succ n => exact scopeOk_empty _ none
  args := argsOk_nil

/-- one scope is rewritten, the history is untouched -/
theorem Prov.modScope {st : St} (h : Prov st) (s : Nat) (f : ScopeSt → ScopeSt)
    (hf : ScopeOk st.hist (st.scope s) → ScopeOk st.hist (f (st.scope s))) : Prov (st.modScope s f) where
  scopes j := by
    show ScopeOk st.hist ((st.modScope s f).scope j)
    rw [scope_modScope]
    split
    · rename_i hc; obtain ⟨rfl, _⟩ := hc; exact hf (h.scopes s)
    · exact h.scopes j
  args := h.args

end Dig
