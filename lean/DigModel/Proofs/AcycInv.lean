import DigModel.Proofs.AcycSem
import DigModel.Proofs.ProvideStages
/-
  Without DeferAcyclicVerification every scope's graph is acyclic at every point of every history.
-/
namespace Dig

/-- scope `sb` of `b` shows the same graph as scope `sa` of `a` -/
structure LocalSame (a : St) (sa : Nat) (b : St) (sb : Nat) : Prop where
  gh : (b.scope sb).gh = (a.scope sa).gh
  params : ∀ n, GNode.ctor n ∈ (a.scope sa).gh → (b.ctor n).params = (a.ctor n).params
  desc : ∀ i, GNode.pg i ∈ (a.scope sa).gh → (b.pgs.getD i default).desc = (a.pgs.getD i default).desc
  prov : ∀ k, b.allProviders sb k = a.allProviders sa k
  ordC : ∀ k m, m ∈ a.allProviders sa k → orderOf (b.ctor m).orders sb = orderOf (a.ctor m).orders sa
  ordP : ∀ n, GNode.ctor n ∈ (a.scope sa).gh → ∀ i ∈ pgsOfL (a.ctor n).params,
    orderOf (b.pgs.getD i default).orders sb = orderOf (a.pgs.getD i default).orders sa

theorem pOrders_local {a b : St} {sa sb : Nat} (hprov : ∀ k, b.allProviders sb k = a.allProviders sa k)
    (hordC : ∀ k m, m ∈ a.allProviders sa k → orderOf (b.ctor m).orders sb = orderOf (a.ctor m).orders sa) (p : Param) :
    (∀ i ∈ pgsOf p, orderOf (b.pgs.getD i default).orders sb = orderOf (a.pgs.getD i default).orders sa) →
    paramOrders b sb p = paramOrders a sa p := by
  apply paramOrders.induct (motive_2 := fun p => (∀ i ∈ pgsOf p, orderOf (b.pgs.getD i default).orders sb = orderOf (a.pgs.getD i default).orders sa) →
      paramOrders b sb p = paramOrders a sa p)
    (motive_1 := fun ps => (∀ i ∈ pgsOfL ps, orderOf (b.pgs.getD i default).orders sb = orderOf (a.pgs.getD i default).orders sa) →
      paramOrders.paramOrdersList b sb ps = paramOrders.paramOrdersList a sa ps)
  · intro k opt _
    simp only [paramOrders, hprov k]
    apply List.map_congr_left
    intro m hm
    exact hordC k m hm
  · intro ty g soft pg h
    simp only [paramOrders]
    rw [h pg (by simp [pgsOf])]
  · intro ty fs ih h
    simp only [paramOrders]
    exact ih (fun i hi => h i (by simpa [pgsOf] using hi))
  · intro _; rfl
  · intro p ps ihp ihps h
    simp only [paramOrders.paramOrdersList]
    rw [ihp (fun i hi => h i (by simp [pgsOfL, hi])), ihps (fun i hi => h i (by simp [pgsOfL, hi]))]

theorem pOrdersList_local {a b : St} {sa sb : Nat} (hprov : ∀ k, b.allProviders sb k = a.allProviders sa k)
    (hordC : ∀ k m, m ∈ a.allProviders sa k → orderOf (b.ctor m).orders sb = orderOf (a.ctor m).orders sa) : ∀ (ps : List Param),
    (∀ i ∈ pgsOfL ps, orderOf (b.pgs.getD i default).orders sb = orderOf (a.pgs.getD i default).orders sa) →
    paramOrders.paramOrdersList b sb ps = paramOrders.paramOrdersList a sa ps := by
  intro ps
  induction ps with
  | nil => intro _; rfl
  | cons p ps ih =>
    intro h
    simp only [paramOrders.paramOrdersList]
    rw [pOrders_local hprov hordC p (fun i hi => h i (by simp [pgsOfL, hi])), ih (fun i hi => h i (by simp [pgsOfL, hi]))]

theorem LocalSame.edgesFrom {a b : St} {sa sb : Nat} (h : LocalSame a sa b sb) (u : Nat) : edgesFrom b sb u = edgesFrom a sa u := by
  unfold Dig.edgesFrom
  rw [h.gh]
  cases hu : (a.scope sa).gh[u]? with
  | none => rfl
  | some x =>
    have hx : x ∈ (a.scope sa).gh := List.mem_of_getElem? hu
    cases x with
    | ctor n =>
      simp only
      rw [h.params n hx]
      exact pOrdersList_local h.prov h.ordC _ (h.ordP n hx)
    | pg i =>
      simp only
      rw [h.desc i hx, h.prov]
      apply List.map_congr_left
      intro m hm
      exact h.ordC _ m hm

theorem LocalSame.checkAcyclic {a b : St} {sa sb : Nat} (h : LocalSame a sa b sb) : checkAcyclic b sb = checkAcyclic a sa := by
  unfold Dig.checkAcyclic
  have he : Dig.edgesFrom b sb = Dig.edgesFrom a sa := funext h.edgesFrom
  simp only [h.gh, he]

end Dig

namespace Dig

/-- `b` is `a` with some fresh value-group nodes appended to graph holders (what a parse does) -/
structure Grow (a b : St) : Prop where
  len : b.scopes.length = a.scopes.length
  prov : ∀ s k, b.allProviders s k = a.allProviders s k
  clen : b.ctors.length = a.ctors.length
  params : ∀ n, (b.ctor n).params = (a.ctor n).params
  descs : ∃ x, descsOf b = descsOf a ++ x
  sub : ∀ s x, x ∈ (a.scope s).gh → x ∈ (b.scope s).gh
  back : ∀ s x, x ∈ (b.scope s).gh → x ∈ (a.scope s).gh ∨ ∃ i, x = GNode.pg i ∧ a.pgs.length ≤ i

theorem Grow.pgKey {a b : St} (h : Grow a b) (i : Nat) (hi : i < a.pgs.length) : pgKey b i = pgKey a i := by
  obtain ⟨x, hx⟩ := h.descs
  have h1 : (descsOf b)[i]? = (descsOf a)[i]? := by
    rw [hx, List.getElem?_append_left (by simpa [descsOf] using hi)]
  unfold descsOf at h1
  simp only [List.getElem?_map] at h1
  have hb : i < b.pgs.length := by
    have : (descsOf b).length = (descsOf a).length + x.length := by rw [hx]; simp
    simp [descsOf] at this; omega
  unfold Dig.pgKey
  simp only [List.getD_eq_getElem?_getD, List.getElem?_eq_getElem hi, List.getElem?_eq_getElem hb, Option.getD_some]
  rw [List.getElem?_eq_getElem hi, List.getElem?_eq_getElem hb] at h1
  simp only [Option.map_some, Option.some.injEq] at h1
  rw [h1]

/-- growing holders by fresh group nodes creates no dependency cycle -/
theorem NoCycle.grow {a b : St} (hg : Grow a b) (hga : GM0 a) (hpa : PG a) (s : Nat) (h : NoCycle a s) : NoCycle b s := by
  intro ⟨x0, l, hl, hin, hc, hclosed⟩
  apply h
  -- every element but the first has a predecessor
  have hpred : ∀ (l : List GNode) (a0 : GNode), NodeChain b s (a0 :: l) → ∀ y ∈ l, ∃ x ∈ a0 :: l, NodeDep b s x y := by
    intro l
    induction l with
    | nil => intro a0 _ y hy; cases hy
    | cons c rest ih =>
      intro a0 hc y hy
      obtain ⟨hd, hc'⟩ := hc
      rcases List.mem_cons.mp hy with rfl | hm
      · exact ⟨a0, by simp, hd⟩
      · obtain ⟨x, hx, hxd⟩ := ih c hc' y hm
        exact ⟨x, by simp [hx], hxd⟩
  have hx0l : x0 ∈ l := by
    have : (x0 :: l).getLast (by simp) = l.getLast hl := List.getLast_cons hl
    rw [this] at hclosed
    rw [← hclosed]; exact List.getLast_mem hl
  -- constructor nodes of the chain are old nodes
  have hctor : ∀ n, GNode.ctor n ∈ x0 :: l → GNode.ctor n ∈ (a.scope s).gh := by
    intro n hn
    rcases hg.back s _ (hin _ hn) with h1 | ⟨i, h1, _⟩
    · exact h1
    · cases h1
  have hold : ∀ x ∈ x0 :: l, x ∈ (a.scope s).gh := by
    intro x hx
    cases x with
    | ctor n => exact hctor n hx
    | pg i =>
      have hxl : GNode.pg i ∈ l := by
        rcases List.mem_cons.mp hx with h1 | h1
        · rw [h1]; exact hx0l
        · exact h1
      obtain ⟨y, hy, hyd⟩ := hpred l x0 hc _ hxl
      cases hyd with
      | @toGroup n _ hi =>
        have hn := hctor n hy
        have hnv := hga.bnd s _ hn
        simp only [NodeValid] at hnv
        rw [hg.params n] at hi
        have hlt := (pgOKL_mem 0 (descsOf a) _ (hpa.link n hnv) i hi).2
        rcases hg.back s _ (hin _ hx) with h1 | ⟨j, h1, h2⟩
        · exact h1
        · injection h1 with h1; subst h1
          simp [descsOf] at hlt; omega
  -- dependencies among old nodes are the old dependencies
  have hdep : ∀ x y, x ∈ (a.scope s).gh → NodeDep b s x y → NodeDep a s x y := by
    intro x y hx hd
    cases hd with
    | single hk hm => rw [hg.params] at hk; rw [hg.prov] at hm; exact NodeDep.single hk hm
    | toGroup hi => rw [hg.params] at hi; exact NodeDep.toGroup hi
    | @fromGroup i m hm =>
      have hiv := hga.bnd s _ hx
      simp only [NodeValid] at hiv
      rw [hg.prov, hg.pgKey i hiv] at hm
      exact NodeDep.fromGroup hm
  have hchain : ∀ (l : List GNode), (∀ x ∈ l, x ∈ (a.scope s).gh) → NodeChain b s l → NodeChain a s l := by
    intro l
    induction l with
    | nil => intro _ _; trivial
    | cons c rest ih =>
      intro hin hc
      cases rest with
      | nil => trivial
      | cons d rest' =>
        obtain ⟨hd, hc'⟩ := hc
        exact ⟨hdep c d (hin c (by simp)) hd, ih (fun x hx => hin x (by simp [hx])) hc'⟩
  exact ⟨x0, l, hl, hold, hchain _ hold hc, hclosed⟩

end Dig

namespace Dig

theorem ghStep_back (node : GNode) (w : St) (sc j : Nat) : ∀ x ∈ ((ghStep node w sc).scope j).gh, x ∈ (w.scope j).gh ∨ x = node := by
  intro x hx
  rw [ghStep_scope] at hx
  split at hx
  · simp only [List.mem_append, List.mem_singleton] at hx; exact hx
  · exact Or.inl hx

theorem newGraphNode_back (w : St) (s : Nat) (node : GNode) (j : Nat) :
    ∀ x ∈ ((w.newGraphNode s node).scope j).gh, x ∈ (w.scope j).gh ∨ x = node := by
  rw [newGraphNode_eq]
  generalize w.subscopes s = l
  induction l generalizing w with
  | nil => intro x hx; exact Or.inl hx
  | cons c cs ih =>
    intro x hx
    simp only [List.foldl_cons] at hx
    rcases ih _ x hx with h1 | h1
    · exact ghStep_back node w c j x h1
    · exact Or.inr h1

theorem newGraphNode_allProviders (w : St) (s : Nat) (node : GNode) (t : Nat) (k : Key) :
    (w.newGraphNode s node).allProviders t k = w.allProviders t k := by
  obtain ⟨a1, a2, _, _⟩ := newGraphNode_facts w s node
  exact allProviders_congr a1 (fun j => ⟨(a2 j).1, (a2 j).2.2⟩) t k

theorem Grow.refl (a : St) : Grow a a :=
  ⟨rfl, fun _ _ => rfl, rfl, fun _ => rfl, ⟨[], by simp⟩, fun _ _ h => h, fun _ _ h => Or.inl h⟩

theorem grow_addPGNodes (w : St) (s : Nat) (descs : List PGDesc) : Grow w (addPGNodes w s w.pgs.length descs) := by
  unfold Dig.addPGNodes
  simp only
  let v0 : St := { w with pgs := w.pgs ++ (descs.drop w.pgs.length).map fun d => ({ desc := d } : PGNode) }
  have h0 : Grow w v0 :=
    ⟨rfl, fun _ _ => rfl, rfl, fun _ => rfl, ⟨descs.drop w.pgs.length, by simp [descsOf, v0, List.map_append, Function.comp_def]⟩,
     fun _ _ h => h, fun _ _ h => Or.inl h⟩
  have key : ∀ (l : List Nat) (v : St), Grow w v →
      Grow w (l.foldl (fun st j => st.newGraphNode s (.pg (w.pgs.length + j))) v) := by
    intro l
    induction l with
    | nil => intro v h; exact h
    | cons x xs ih =>
      intro v h
      simp only [List.foldl_cons]
      apply ih
      obtain ⟨g1, g2, g3, _⟩ := newGraphNode_facts v s (.pg (w.pgs.length + x))
      refine ⟨g1.trans h.len, fun t k => (newGraphNode_allProviders v s _ t k).trans (h.prov t k),
        (newGraphNode_ctorsLen v s _).trans h.clen, fun n => (newGraphNode_params v s _ n).trans (h.params n),
        by rw [newGraphNode_descs]; exact h.descs, fun t y hy => g3 t y (h.sub t y hy), ?_⟩
      intro t y hy
      rcases newGraphNode_back v s _ t y hy with h1 | h1
      · exact h.back t y h1
      · exact Or.inr ⟨w.pgs.length + x, h1, by omega⟩
  exact key _ v0 h0

theorem grow_parseParams (env : TyEnv) (st : St) (s : Nat) (fn : Fn) : Grow st (Dig.parseParams env st s fn).2 := by
  unfold Dig.parseParams
  simp only
  have : (st.pgs.map (·.desc)).length = st.pgs.length := by simp
  rw [this]
  exact grow_addPGNodes st s _

/-- **a parse keeps every scope's graph acyclic** -/
theorem acyclic_parseParams {st : St} (hg : GT st) (hp : PG st) (ho : OB st) (env : TyEnv) (sc : Nat) (fn : Fn) (s : Nat)
    (hs : s < st.scopes.length) (h : checkAcyclic st s = .acyclic) :
    checkAcyclic (Dig.parseParams env st sc fn).2 s = .acyclic := by
  have hgr := grow_parseParams env st sc fn
  have hg' := hg.parseParams env sc fn
  have hp' := (parseParams_pg hp env sc fn).1
  have ho' := ho.parseParams env sc fn
  rw [acyclic_iff_noCycle hg'.gm hp' ho' s (by rw [hgr.len]; exact hs)]
  exact NoCycle.grow hgr hg.gm hp s ((acyclic_iff_noCycle hg.gm hp ho s hs).mp h)

end Dig

namespace Dig

theorem localSame_regFrame {a b : St} (hf : RegFrame a b) (s : Nat) : LocalSame a s b s where
  gh := ((hf.2.1 s).2.2.2.2.2.1).symm
  params n _ := ((hf.2.2.2.2.1 n).2.1).symm
  desc i _ := by rw [hf.2.2.1]
  prov k := (allProviders_congr hf.1 (fun j => ⟨(hf.2.1 j).1, (hf.2.1 j).2.2.1⟩) s k).symm
  ordC k m _ := by rw [(hf.2.2.2.2.1 m).2.2.2.2.2.2]
  ordP n _ i _ := by rw [hf.2.2.1]

theorem pg_of_take {st w : St} (h : w.pgs.take st.pgs.length = st.pgs) (i : Nat) (hi : i < st.pgs.length) :
    w.pgs.getD i default = st.pgs.getD i default := by
  rw [← getD_of_take w.pgs st.pgs.length i default hi, h]

/-- a scope outside the subtree a Provide works on keeps its graph -/
theorem localSame_work {st w : St} {target : Nat} (hw : Work st w target) (hg : GT st) (hp : PG st) (s : Nat)
    (hs : s < st.scopes.length) (hout : s ∉ st.subscopes target) : LocalSame st s w s := by
  have hanc : w.ancestors s = st.ancestors s := by
    unfold St.ancestors
    rw [hw.len]
    exact ancestorsAux_congr _ _ hw.len (fun j => (hw.scope j).1) _ _
  have hnt : ∀ a ∈ st.ancestors s, a ≠ target := by
    intro a ha e
    subst e
    exact hout (mem_subscopes_of_mem_ancestors hg.tree ha)
  have hprov : ∀ k, w.allProviders s k = st.allProviders s k := by
    intro k
    unfold St.allProviders
    rw [hanc]
    exact flatMap_congr' _ _ _ (fun a ha => by rw [(hw.scope a).2.2.2.2.2.2.2.2.1 (hnt a ha)])
  have hctor : ∀ n, GNode.ctor n ∈ (st.scope s).gh → w.ctor n = st.ctor n := by
    intro n hn
    have hv := hg.gm.bnd s _ hn
    simp only [NodeValid] at hv
    exact ctor_of_take hw.ctorsPre n hv
  refine ⟨(hw.scope s).2.2.2.2.2.2.2.2.2.2.2 hout, fun n hn => by rw [hctor n hn], ?_, hprov, ?_, ?_⟩
  · intro i hi
    have hv := hg.gm.bnd s _ hi
    simp only [NodeValid] at hv
    rw [pg_of_take hw.pgsPre i hv]
  · intro k m hm
    rw [hctor m (hg.gm.prov s k m hs hm)]
  · intro n hn i hi
    have hnv := hg.gm.bnd s _ hn
    simp only [NodeValid] at hnv
    have hlt := (pgOKL_mem 0 (descsOf st) _ (hp.link n hnv) i hi).2
    rw [pg_of_take hw.pgsPre i (by simpa [descsOf] using hlt)]

end Dig

namespace Dig

theorem apiScope_nodeOrder (st : St) (parent : Nat) (hp : parent < st.scopes.length) (x : GNode) (s : Nat) :
    nodeOrder (apiScope st parent) x s =
      if s = st.scopes.length ∧ x ∈ (st.scope parent).gh ∧ NodeValid st x then nodeOrder st x parent else nodeOrder st x s := by
  let c : ScopeSt := { parent := some parent, gh := (st.scope parent).gh }
  let st1 : St := { st with scopes := st.scopes ++ [c] }
  let st2 : St := st1.modScope parent fun x => { x with children := x.children ++ [st.scopes.length] }
  have hdef : apiScope st parent = (st.scope parent).gh.foldl (copyOrder st.scopes.length parent) st2 := rfl
  have hne : st.scopes.length ≠ parent := by omega
  rw [hdef, copyOrderFold_nodeOrder _ _ hne]
  have e1 : ∀ s', nodeOrder st2 x s' = nodeOrder st x s' := fun s' => by cases x <;> rfl
  have e2 : NodeValid st2 x ↔ NodeValid st x := by cases x <;> exact Iff.rfl
  simp only [e1, e2]

theorem apiScope_static (st : St) (parent : Nat) :
    (∀ n, ((apiScope st parent).ctor n).params = (st.ctor n).params) ∧ descsOf (apiScope st parent) = descsOf st ∧
    (apiScope st parent).ctors.length = st.ctors.length := by
  let c : ScopeSt := { parent := some parent, gh := (st.scope parent).gh }
  let st1 : St := { st with scopes := st.scopes ++ [c] }
  let st2 : St := st1.modScope parent fun x => { x with children := x.children ++ [st.scopes.length] }
  have hdef : apiScope st parent = (st.scope parent).gh.foldl (copyOrder st.scopes.length parent) st2 := rfl
  refine ⟨fun n => ?_, ?_, ?_⟩
  · rw [hdef]; exact (copyOrder_desc2 st.scopes.length parent (st.scope parent).gh st2 n).2.2.2.1
  · rw [hdef, copyOrderFold_descs]; rfl
  · rw [hdef]; exact (copyOrderFold_lens st.scopes.length parent (st.scope parent).gh st2).1

theorem desc_of_descs {a b : St} (h : descsOf b = descsOf a) (i : Nat) :
    (b.pgs.getD i default).desc = (a.pgs.getD i default).desc := by
  have h1 : (descsOf b)[i]? = (descsOf a)[i]? := by rw [h]
  unfold descsOf at h1
  simp only [List.getElem?_map] at h1
  simp only [List.getD_eq_getElem?_getD]
  cases hb : b.pgs[i]? with
  | none =>
    cases ha : a.pgs[i]? with
    | none => rfl
    | some y => rw [hb, ha] at h1; simp at h1
  | some x =>
    cases ha : a.pgs[i]? with
    | none => rw [hb, ha] at h1; simp at h1
    | some y => rw [hb, ha] at h1; simp at h1; simp [h1]

/-- after `Scope.Scope(name)`: the child shows its parent's graph, every other scope its own -/
theorem localSame_scope {st : St} (hg : GT st) (hp : PG st) (parent : Nat) (hpl : parent < st.scopes.length) (s : Nat)
    (hs : s < st.scopes.length + 1) :
    LocalSame st (if s = st.scopes.length then parent else s) (apiScope st parent) s := by
  obtain ⟨hlen, hsc⟩ := apiScope_scope st parent hpl
  obtain ⟨hpar, hdescs, hcl⟩ := apiScope_static st parent
  have hgh : ((apiScope st parent).scope s).gh = (st.scope (if s = st.scopes.length then parent else s)).gh := by
    rw [hsc s]
    by_cases h1 : s = st.scopes.length
    · rw [if_pos h1, if_pos h1]
    · rw [if_neg h1, if_neg h1]
      split
      · rename_i h2; rw [h2]
      · rfl
  have hprov : ∀ k, (apiScope st parent).allProviders s k = st.allProviders (if s = st.scopes.length then parent else s) k := by
    intro k
    obtain ⟨hold, hchild⟩ := apiScope_allProviders hg.tree parent hpl k
    by_cases h1 : s = st.scopes.length
    · rw [if_pos h1, h1]; exact hchild
    · rw [if_neg h1]; exact hold s (by omega)
  have hsv : (if s = st.scopes.length then parent else s) < st.scopes.length := by
    split
    · exact hpl
    · omega
  have hord : ∀ x, x ∈ (st.scope (if s = st.scopes.length then parent else s)).gh →
      nodeOrder (apiScope st parent) x s = nodeOrder st x (if s = st.scopes.length then parent else s) := by
    intro x hx
    rw [apiScope_nodeOrder st parent hpl]
    by_cases h1 : s = st.scopes.length
    · rw [if_pos h1] at hx ⊢
      rw [if_pos ⟨h1, hx, hg.gm.bnd parent x hx⟩]
    · rw [if_neg h1, if_neg (fun hh => h1 hh.1)]
  refine ⟨hgh, fun n _ => hpar n, fun i _ => desc_of_descs hdescs i, hprov, ?_, ?_⟩
  · intro k m hm
    exact hord (.ctor m) (hg.gm.prov _ k m hsv hm)
  · intro n hn i hi
    exact hord (.pg i) (hp.pgIn _ n i hn hi)

end Dig

namespace Dig

/-- every scope's check answers "acyclic" -/
def EA (st : St) : Prop := ∀ s, s < st.scopes.length → checkAcyclic st s = .acyclic

theorem EA.init : EA ({} : St) := by
  intro s hs
  have : s = 0 := by simp at hs; omega
  subst this
  decide

theorem graphSame_of_eqButVerified {a b : St} (h : EqButVerified a b) : GraphSame a b :=
  ⟨h.1, h.2.2.1, h.2.2.2.2.2.2.2.1, fun j => ⟨(h.2.2.2.2.2.2.2.2 j).1, (h.2.2.2.2.2.2.2.2 j).2.2.1, (h.2.2.2.2.2.2.2.2 j).2.2.2.2.2.2.2.2.2⟩⟩

theorem EA.graphSame {a b : St} (h : EA a) (hg : GraphSame a b) : EA b := by
  intro s hs
  rw [← hg.checkAcyclic s]
  exact h s (by rw [hg.2.2.1]; exact hs)

theorem EA.regFrame {a b : St} (h : EA a) (hf : RegFrame a b) : EA b := by
  intro s hs
  rw [(localSame_regFrame hf s).checkAcyclic]
  exact h s (by rw [hf.1]; exact hs)

theorem EA.parseParams {st : St} (h : EA st) (hg : GT st) (hp : PG st) (ho : OB st) (env : TyEnv) (sc : Nat) (fn : Fn) :
    EA (Dig.parseParams env st sc fn).2 := by
  intro s hs
  have hl := (grow_parseParams env st sc fn).len
  exact acyclic_parseParams hg hp ho env sc fn s (by rw [← hl]; exact hs) (h s (by rw [← hl]; exact hs))

theorem EA.scope {st : St} (h : EA st) (hg : GT st) (hp : PG st) (parent : Nat) (hpl : parent < st.scopes.length) :
    EA (apiScope st parent) := by
  intro s hs
  rw [(apiScope_scope st parent hpl).1] at hs
  rw [(localSame_scope hg hp parent hpl s hs).checkAcyclic]
  apply h
  split
  · exact hpl
  · omega

theorem EA.decorate {st : St} (h : EA st) (hg : GT st) (hp : PG st) (ho : OB st) (ctx : Ctx) (fn : Fn) (i s : Nat) (cb info : Bool) :
    EA (apiDecorate ctx fn st i s cb info).1 := by
  unfold apiDecorate
  cases fn.nonfunc with
  | some _ => exact h
  | none =>
    simp only
    have hw1 := work_parseParams (Work.refl st s) ctx.env fn
    have h1 := h.parseParams hg hp ho ctx.env s fn
    have hrej : ∀ e : DErr, EA (rollbackProvide st (Dig.parseParams ctx.env st s fn).2 s (st.subscopes s), ({ v := .err e } : RegRes)).1 :=
      fun e => h.graphSame (graphSame_of_eqButVerified (rollback_restores hw1))
    cases hpp : Dig.parseParams ctx.env st s fn with
    | mk r w1 =>
      rw [hpp] at h1 hrej
      simp only at h1 hrej
      cases r with
      | error e1 => exact hrej .invalid0
      | ok params =>
        simp only
        cases newResultList ctx.env {} fn with
        | error e2 => exact hrej .invalid0
        | ok results =>
          simp only
          cases resultKeys ctx.env (slotResults results) with
          | error e3 => exact hrej .invalid0
          | ok keys =>
            simp only
            split
            · exact hrej .invalid0
            · have e1 : EA ({ w1 with decos := w1.decos ++ [({ fn := fn, params := params, results := results, s := s, cb := if cb then some i else none } : DecoNode)] } : St) :=
                h1.graphSame ⟨rfl, rfl, rfl, fun _ => ⟨rfl, rfl, rfl⟩⟩
              exact e1.graphSame (graphSame_modScope _ s _ (fun _ => ⟨rfl, rfl, rfl⟩))

theorem EA.invoke {st : St} (h : EA st) (hg : GT st) (hp : PG st) (ho : OB st) (ctx : Ctx) (fn : Fn) (s : Nat) (info : Bool) :
    EA (apiInvoke ctx fn st s info).1 := by
  rw [apiInvoke_eq]
  unfold apiInvoke'
  cases fn.nonfunc with
  | some _ => exact h
  | none =>
    simp only
    have h1 := h.parseParams hg hp ho ctx.env s fn
    have hrb := parse_rollback_eq ctx.env st s fn
    cases hpp : Dig.parseParams ctx.env st s fn with
    | mk r w =>
      rw [hpp] at h1 hrb
      simp only at h1 hrb
      cases r with
      | error e => simp only; rw [hrb]; exact h
      | ok params =>
        simp only
        have hs := shallowCheck_state s params w
        cases hsc : shallowCheck s params w with
        | mk r2 w2 =>
          rw [hsc] at hs; simp only at hs; subst hs
          cases r2 with
          | error f => exact h1
          | ok u =>
            simp only
            cases hck : invokeCheck w2 s with
            | error v => exact h1
            | ok w3 =>
              simp only
              have h3 : EA w3 := by
                unfold invokeCheck at hck
                split at hck
                · injection hck with e; rw [← e]; exact h1
                · split at hck
                  · injection hck with e; rw [← e]
                    exact h1.graphSame (graphSame_modScope _ s _ (fun _ => ⟨rfl, rfl, rfl⟩))
                  · cases hck
                  · cases hck
              unfold invokeRun
              have hb : EA (EM.wrapErr (buildList ctx (engineFuel w3 params) params s) DErr.argsFailed w3).2 := by
                rw [wrapErr_state]
                exact h3.regFrame (buildList_regFrame ctx _ params s w3)
              cases hbl : EM.wrapErr (buildList ctx (engineFuel w3 params) params s) DErr.argsFailed w3 with
              | mk r4 w4 =>
                rw [hbl] at hb
                simp only at hb
                cases r4 with
                | error f => exact hb
                | ok args =>
                  simp only
                  have hf := callBody_fields ctx .invoked fn args w4
                  exact hb.regFrame (regFrame_of_same _ _ hf.1.symm hf.2.1.symm hf.2.2.1.symm hf.2.2.2.symm)

end Dig

namespace Dig

theorem EA.provide {st : St} (h : EA st) (hg : GT st) (hp : PG st) (ho : OB st) (ctx : Ctx) (hd : ctx.cfg.deferAcyclic = false)
    (fn : Fn) (i s : Nat) (o : ProvideOpts) : EA (apiProvide ctx fn st i s o).1 := by
  have hres := apiProvide_reg ctx fn st i s o
  rw [apiProvide_eq] at hres ⊢
  unfold apiProvide' at hres ⊢
  cases hreg : provideRegister ctx fn st i s o with
  | error r =>
    rw [hreg] at hres
    simp only at hres ⊢
    rcases hres with he | ⟨rs, ks, hadd⟩
    · exact h.graphSame (graphSame_of_eqButVerified he)
    · exfalso
      have h1 := provideRegister_error_len ctx fn st i s o r hreg
      have h2 := hadd.len
      omega
  | ok t =>
    obtain ⟨target, params, results, n, w⟩ := t
    obtain ⟨hgw, hbw, htg, hlen, hsub, hn, hcl, hs, hfn, hw⟩ := provideRegister_inv hg ho ctx fn i s o target params results n w hreg
    simp only
    unfold provideVerify
    have hw5 := work_verifyScopes (target := target) ctx.cfg (st.subscopes target) w hw
    have hgs := graphSame_verifyScopes ctx.cfg (st.subscopes target) w
    have hok := verifyScopes_ok_acyclic ctx.cfg hd (st.subscopes target) w
    have herr := verifyScopes_err_cycle hbw ctx.cfg (st.subscopes target)
    cases hvs : Dig.verifyScopes ctx.cfg (st.subscopes target) w with
    | mk r5 w5 =>
      rw [hvs] at hw5 hgs hok herr
      simp only at hw5 hgs hok herr
      cases r5 with
      | ok u =>
        simp only
        have h5 : EA w5 := by
          intro sc hsc
          have hsc' : sc < st.scopes.length := by rw [← hw5.len]; exact hsc
          by_cases hin : sc ∈ st.subscopes target
          · exact hok rfl sc hin
          · rw [(localSame_work hw5 hg hp sc hsc' hin).checkAcyclic]
            exact h sc hsc'
        exact h5.graphSame (graphSame_modScope _ target _ (fun _ => ⟨rfl, rfl, rfl⟩))
      | error ec =>
        obtain ⟨sc, r⟩ := ec
        obtain ⟨p, rfl⟩ := herr sc r rfl
        simp only
        exact h.graphSame (graphSame_of_eqButVerified (rollback_restores hw5))

/-- everything the graph theorems need, plus acyclicity of every view -/
structure EagerInv (st : St) : Prop where
  gt : GT st
  pg : PG st
  ob : OB st
  ea : EA st

theorem EagerInv.init : EagerInv ({} : St) := ⟨GT.init, PG.init, OB.init, EA.init⟩

theorem EA.resetLog {st : St} (h : EA st) : EA { st with log := [] } :=
  h.graphSame ⟨rfl, rfl, rfl, fun _ => ⟨rfl, rfl, rfl⟩⟩

theorem EagerInv.step {st : St} (h : EagerInv st) (ctx : Ctx) (hd : ctx.cfg.deferAcyclic = false) (fns : List Fn) (i : Nat) (op : Op) :
    EagerInv (Dig.step ctx fns st i op).1 := by
  refine ⟨h.gt.step ctx fns i op, h.pg.step h.gt ctx fns i op, ?_, ?_⟩
  · -- OB
    have h0 := h.ob.resetLog
    cases op with
    | scope parent =>
      simp only [Dig.step]
      split
      · rename_i hp; exact h0.scope parent hp
      · exact h0
    | provide s f o =>
      simp only [Dig.step]
      split
      · split
        · exact (h0.provide ctx _ i s o).1
        · exact h0
      · exact h0
    | decorate s f cb info =>
      simp only [Dig.step]
      split
      · split
        · exact (h0.decorate ctx _ i s cb info).1
        · exact h0
      · exact h0
    | invoke s f info =>
      simp only [Dig.step]
      split
      · split
        · exact (h0.invoke ctx _ s info).1
        · exact h0
      · exact h0
    | visualize s e => cases e <;> (simp only [Dig.step]; split <;> exact h0)
    | string s => simp only [Dig.step]; split <;> exact h0
  · have h0 := h.ea.resetLog
    have g0 := h.gt.resetLog
    have p0 := h.pg.resetLog
    have o0 := h.ob.resetLog
    cases op with
    | scope parent =>
      simp only [Dig.step]
      split
      · rename_i hp; exact h0.scope g0 p0 parent hp
      · exact h0
    | provide s f o =>
      simp only [Dig.step]
      split
      · split
        · exact h0.provide g0 p0 o0 ctx hd _ i s o
        · exact h0
      · exact h0
    | decorate s f cb info =>
      simp only [Dig.step]
      split
      · split
        · exact h0.decorate g0 p0 o0 ctx _ i s cb info
        · exact h0
      · exact h0
    | invoke s f info =>
      simp only [Dig.step]
      split
      · split
        · exact h0.invoke g0 p0 o0 ctx _ s info
        · exact h0
      · exact h0
    | visualize s e => cases e <;> (simp only [Dig.step]; split <;> exact h0)
    | string s => simp only [Dig.step]; split <;> exact h0

theorem EagerInv.runOps (ctx : Ctx) (hd : ctx.cfg.deferAcyclic = false) (fns : List Fn) : ∀ (ops : List Op) (i : Nat) (st : St)
    (acc : List OpRes), EagerInv st → EagerInv (Dig.runOps ctx fns ops i st acc).1 := by
  intro ops
  induction ops with
  | nil => intro i st acc h; exact h
  | cons op rest ih =>
    intro i st acc h
    simp only [Dig.runOps]
    exact ih _ _ _ (h.step ctx hd fns i op)

/-- **without DeferAcyclicVerification, at the end of every history every scope's graph is acyclic**: no scope sees a
    dependency cycle, whatever was provided, decorated, invoked or rejected on the way -/
theorem eager_program_acyclic (p : Program) (hd : p.cfg.deferAcyclic = false) (s : Nat) (hs : s < (runProgram p).1.scopes.length) :
    checkAcyclic (runProgram p).1 s = .acyclic ∧ NoCycle (runProgram p).1 s := by
  have h := EagerInv.runOps p.ctx hd p.fns p.ops 0 {} [] EagerInv.init
  exact ⟨h.ea s hs, (acyclic_iff_noCycle h.gt.gm h.pg h.ob s hs).mp (h.ea s hs)⟩

end Dig
