import DigModel.Proofs.Rollback
import DigModel.Proofs.Flags
/-
  The history-level invariant behind C02: in every reachable state, every constructor and every
  decorator has at most one successful execution in the whole history, a node with a successful
  execution is marked built, and between two API calls no node is on the stack.
-/
namespace Dig

structure HInv (st : St) : Prop where
  valid : ValidReg st
  ctorOnce : ∀ n, okExits (.ctor n) st.hist ≤ 1 ∧ (okExits (.ctor n) st.hist = 1 → (st.ctor n).called = true)
  ctorIdle : ∀ n, (st.ctor n).onStack = false
  decoOnce : ∀ d, okExits (.deco d) st.hist ≤ 1 ∧ (okExits (.deco d) st.hist = 1 → (st.deco d).state = .called)
  decoIdle : ∀ d, (st.deco d).state ≠ .onStack
  freshC : ∀ n, st.ctors.length ≤ n → okExits (.ctor n) st.hist = 0
  freshD : ∀ d, st.decos.length ≤ d → okExits (.deco d) st.hist = 0

theorem HInv.init : HInv ({} : St) where
  valid := ⟨fun s k n h => by cases s <;> simp [St.scope, agetL, aget] at h,
            fun s k d h => by cases s <;> simp [St.scope, aget] at h⟩
  ctorOnce _ := ⟨by simp [okExits], fun h => by simp [okExits] at h⟩
  ctorIdle n := by simp [St.ctor]; rfl
  decoOnce _ := ⟨by simp [okExits], fun h => by simp [okExits] at h⟩
  decoIdle d := by simp [St.deco]; intro h; cases h
  freshC _ _ := rfl
  freshD _ _ := rfl

/-- transfer along a step that leaves the history and all flags alone -/
theorem HInv.transfer {a b : St} (h : HInv a) (hh : b.hist = a.hist)
    (hc : ∀ n, (b.ctor n).called = (a.ctor n).called ∧ (b.ctor n).onStack = (a.ctor n).onStack)
    (hd : ∀ d, (b.deco d).state = (a.deco d).state)
    (hlc : a.ctors.length ≤ b.ctors.length) (hld : a.decos.length ≤ b.decos.length) (hv : ValidReg b) : HInv b where
  valid := hv
  ctorOnce n := by rw [hh, (hc n).1]; exact h.ctorOnce n
  ctorIdle n := by rw [(hc n).2]; exact h.ctorIdle n
  decoOnce d := by rw [hh, hd d]; exact h.decoOnce d
  decoIdle d := by rw [hd d]; exact h.decoIdle d
  freshC n hn := by rw [hh]; exact h.freshC n (by omega)
  freshD d hd' := by rw [hh]; exact h.freshD d (by omega)

/-- a resolver call preserves the invariant -/
theorem HInv.engine {a b : St} (h : HInv a) (hf : Flags a b) : HInv b := by
  obtain ⟨l, hh, _, hc, hd⟩ := hf.ext
  obtain ⟨rc, rd⟩ := hf.range l hh
  refine ⟨h.valid.of_frame hf.reg, ?_, ?_, ?_, ?_, ?_, ?_⟩
  · intro n
    rw [hh, okExits_append]
    obtain ⟨a1, a2, _, a4⟩ := hc n
    obtain ⟨b1, b2⟩ := h.ctorOnce n
    constructor
    · by_cases h1 : okExits (.ctor n) a.hist = 1
      · have := a2 (b2 h1); omega
      · omega
    · intro ht
      by_cases h1 : okExits (.ctor n) a.hist = 1
      · exact hf.ctorMono n (b2 h1)
      · exact a4 (by omega)
  · intro n; rw [hf.ctorBal n]; exact h.ctorIdle n
  · intro d
    rw [hh, okExits_append]
    obtain ⟨a1, a2, _, a4⟩ := hd d
    obtain ⟨b1, b2⟩ := h.decoOnce d
    constructor
    · by_cases h1 : okExits (.deco d) a.hist = 1
      · have := a2 (b2 h1); omega
      · omega
    · intro ht
      by_cases h1 : okExits (.deco d) a.hist = 1
      · exact hf.decoMono d (b2 h1)
      · exact a4 (by omega)
  · intro d hc'; exact h.decoIdle d ((hf.decoBal d).mp hc')
  · intro n hn
    rw [hh, okExits_append, h.freshC n (by have := hf.reg.2.2.2.1; omega), rc n (by have := hf.reg.2.2.2.1; omega)]
  · intro d hd'
    rw [hh, okExits_append, h.freshD d (by have := hf.reg.2.2.2.2.2.1; omega), rd d (by have := hf.reg.2.2.2.2.2.1; omega)]

end Dig

namespace Dig

theorem ValidReg.of_scopes {a b : St} (h : ValidReg a) (hc : a.ctors.length ≤ b.ctors.length) (hd : a.decos.length ≤ b.decos.length)
    (hs : ∀ j, (b.scope j).providers = (a.scope j).providers ∧ (b.scope j).decorators = (a.scope j).decorators) :
    ValidReg b := by
  constructor
  · intro s k n hn; rw [(hs s).1] at hn; have := h.1 s k n hn; omega
  · intro s k d hd'; rw [(hs s).2] at hd'; have := h.2 s k d hd'; omega

theorem HInv.ghOnly {a b : St} (h : HInv a) (hg : GhOnly a b) : HInv b := by
  obtain ⟨g1, g2, g3, _, _, _, _, g8⟩ := hg
  refine h.transfer g3.symm (fun n => by simp [St.ctor, g1]) (fun d => by simp [St.deco, g2]) (by rw [g1]; exact Nat.le_refl _)
    (by rw [g2]; exact Nat.le_refl _) ?_
  exact h.valid.of_scopes (by rw [g1]; exact Nat.le_refl _) (by rw [g2]; exact Nat.le_refl _)
    (fun j => ⟨(g8 j).2.2.1.symm, (g8 j).2.2.2.1.symm⟩)

theorem HInv.eqButVerified {a b : St} (h : HInv a) (hg : EqButVerified a b) : HInv b := by
  obtain ⟨g1, g2, _, _, _, _, g7, _, g9⟩ := hg
  refine h.transfer g7.symm (fun n => by simp [St.ctor, g1]) (fun d => by simp [St.deco, g2]) (by rw [g1]; exact Nat.le_refl _)
    (by rw [g2]; exact Nat.le_refl _) ?_
  exact h.valid.of_scopes (by rw [g1]; exact Nat.le_refl _) (by rw [g2]; exact Nat.le_refl _)
    (fun j => ⟨(g9 j).2.2.1.symm, (g9 j).2.2.2.1.symm⟩)

/-- resetting the per-operation log changes nothing the invariant looks at -/
theorem HInv.resetLog {a : St} (h : HInv a) : HInv { a with log := [] } :=
  h.transfer rfl (fun _ => ⟨rfl, rfl⟩) (fun _ => rfl) (Nat.le_refl _) (Nat.le_refl _) h.valid

theorem getD_append_one {α : Type} (l : List α) (c d : α) (j : Nat) :
    (l ++ [c]).getD j d = if j < l.length then l.getD j d else if j = l.length then c else d := by
  simp only [List.getD_eq_getElem?_getD]
  by_cases hj : j < l.length
  · simp [hj, List.getElem?_append_left hj]
  · by_cases hje : j = l.length
    · subst hje; simp
    · have : (l ++ [c])[j]? = none := by simp; omega
      simp [hj, hje, this]

theorem copyOrder_fold (child parent : Nat) : ∀ (l : List GNode) (w : St),
    (l.foldl (copyOrder child parent) w).hist = w.hist ∧ (l.foldl (copyOrder child parent) w).decos = w.decos ∧
    (l.foldl (copyOrder child parent) w).scopes = w.scopes ∧
    (l.foldl (copyOrder child parent) w).ctors.length = w.ctors.length ∧
    ∀ n, ((l.foldl (copyOrder child parent) w).ctor n).called = (w.ctor n).called ∧
         ((l.foldl (copyOrder child parent) w).ctor n).onStack = (w.ctor n).onStack := by
  intro l
  induction l with
  | nil => intro w; exact ⟨rfl, rfl, rfl, rfl, fun _ => ⟨rfl, rfl⟩⟩
  | cons x xs ih =>
    intro w
    simp only [List.foldl_cons]
    obtain ⟨i1, i2, i3, i4, i5⟩ := ih (copyOrder child parent w x)
    cases x with
    | ctor m =>
      refine ⟨i1, i2, i3, by rw [i4]; simp [copyOrder, St.modCtor], ?_⟩
      intro n
      rw [(i5 n).1, (i5 n).2]
      simp only [copyOrder]
      rw [ctor_modCtor]
      split <;> exact ⟨rfl, rfl⟩
    | pg i => exact ⟨i1, i2, i3, i4, fun n => i5 n⟩

theorem HInv.scope {st : St} (h : HInv st) (parent : Nat) : HInv (apiScope st parent) := by
  let c : ScopeSt := { parent := some parent, gh := (st.scope parent).gh }
  let st1 : St := { st with scopes := st.scopes ++ [c] }
  let st2 : St := st1.modScope parent fun x => { x with children := x.children ++ [st.scopes.length] }
  have hdef : apiScope st parent = (st.scope parent).gh.foldl (copyOrder st.scopes.length parent) st2 := rfl
  rw [hdef]
  obtain ⟨f1, f2, f3, f4, f5⟩ := copyOrder_fold st.scopes.length parent (st.scope parent).gh st2
  have e1 : ∀ j, st1.scope j = if j < st.scopes.length then st.scope j else if j = st.scopes.length then c else { parent := none } := by
    intro j
    show (st.scopes ++ [c]).getD j { parent := none } = _
    rw [getD_append_one]; rfl
  have e2 : ∀ j, (st2.scope j).providers = (st1.scope j).providers ∧ (st2.scope j).decorators = (st1.scope j).decorators := by
    intro j
    show ((st1.modScope parent _).scope j).providers = _ ∧ ((st1.modScope parent _).scope j).decorators = _
    rw [scope_modScope]
    split <;> exact ⟨rfl, rfl⟩
  have e3 : ∀ j, ((List.foldl (copyOrder st.scopes.length parent) st2 (st.scope parent).gh).scope j) = st2.scope j := by
    intro j; exact congrArg (fun (l : List ScopeSt) => l.getD j { parent := none }) f3
  have hsc : ∀ j, ((List.foldl (copyOrder st.scopes.length parent) st2 (st.scope parent).gh).scope j).providers =
        (if j = st.scopes.length then [] else (st.scope j).providers) ∧
      ((List.foldl (copyOrder st.scopes.length parent) st2 (st.scope parent).gh).scope j).decorators =
        (if j = st.scopes.length then [] else (st.scope j).decorators) := by
    intro j
    rw [e3, (e2 j).1, (e2 j).2, e1]
    by_cases hj : j < st.scopes.length
    · have hne : j ≠ st.scopes.length := by omega
      simp [hj, hne]
    · by_cases hje : j = st.scopes.length
      · simp [hje, c]
      · have hn2 : st.scope j = { parent := none } := scope_ge_len st j (by omega)
        simp [hj, hje, hn2]
  refine h.transfer f1 (fun n => f5 n) (fun d => by simp only [St.deco, f2]; rfl) (by rw [f4]; exact Nat.le_refl _)
    (by rw [f2]; exact Nat.le_refl _) ?_
  constructor
  · intro s k n hn
    rw [(hsc s).1] at hn
    rw [f4]
    split at hn
    · simp [agetL, aget] at hn
    · exact h.valid.1 s k n hn
  · intro s k d hd
    rw [(hsc s).2] at hd
    rw [f2]
    split at hd
    · simp [aget] at hd
    · exact h.valid.2 s k d hd

end Dig

namespace Dig

theorem default_ctor_flags : (default : CtorNode).called = false ∧ (default : CtorNode).onStack = false := ⟨rfl, rfl⟩
theorem default_deco_state : (default : DecoNode).state = .ready := rfl

/-! ### Invoke -/

theorem HInv.modVerified {st : St} (h : HInv st) (s : Nat) (b : Bool) :
    HInv (st.modScope s fun x => { x with verified := b }) := by
  refine h.transfer rfl (fun _ => ⟨rfl, rfl⟩) (fun _ => rfl) (Nat.le_refl _) (Nat.le_refl _) ?_
  refine h.valid.of_scopes (Nat.le_refl _) (Nat.le_refl _) ?_
  intro j
  rw [scope_modScope]
  split <;> exact ⟨rfl, rfl⟩

theorem okExits_invoked (ctx : Ctx) (fn : Fn) (args : List Val) (st : St) (w : Who) (hw : w ≠ .invoked) :
    okExits w (bodyEvents ctx .invoked fn args st) = 0 := by
  rw [okExits_bodyEvents]
  have : ¬ (Who.invoked = w) := fun h => hw h.symm
  simp [this]

theorem HInv.invokedBody {st : St} (h : HInv st) (ctx : Ctx) (fn : Fn) (args : List Val) :
    HInv (callBody ctx .invoked fn args st).2 := by
  by_cases hd : ctx.cfg.dry = true
  · rw [callBody_dry ctx hd]; exact h
  · rw [callBody_spec ctx (by simpa using hd)]
    have hf := afterBody_fields ctx .invoked fn args st
    have hh : (afterBody ctx .invoked fn args st).hist = st.hist ++ bodyEvents ctx .invoked fn args st := rfl
    refine ⟨?_, ?_, ?_, ?_, ?_, ?_, ?_⟩
    · exact h.valid.of_scopes (by rw [hf.2.1]; exact Nat.le_refl _) (by rw [hf.2.2.1]; exact Nat.le_refl _)
        (fun j => by simp only [St.scope, hf.1]; exact ⟨trivial, trivial⟩)
    · intro n
      rw [hh, okExits_append, okExits_invoked ctx fn args st _ (by intro e; cases e)]
      simp only [St.ctor, hf.2.1, Nat.add_zero]
      exact h.ctorOnce n
    · intro n; simp only [St.ctor, hf.2.1]; exact h.ctorIdle n
    · intro d
      rw [hh, okExits_append, okExits_invoked ctx fn args st _ (by intro e; cases e)]
      simp only [St.deco, hf.2.2.1, Nat.add_zero]
      exact h.decoOnce d
    · intro d; simp only [St.deco, hf.2.2.1]; exact h.decoIdle d
    · intro n hn
      rw [hh, okExits_append, okExits_invoked ctx fn args st _ (by intro e; cases e)]
      rw [hf.2.1] at hn
      simp [h.freshC n hn]
    · intro d hd'
      rw [hh, okExits_append, okExits_invoked ctx fn args st _ (by intro e; cases e)]
      rw [hf.2.2.1] at hd'
      simp [h.freshD d hd']

theorem HInv.buildList {st : St} (h : HInv st) (ctx : Ctx) (fuel : Nat) (ps : List Param) (c : Nat) :
    HInv (buildList ctx fuel ps c st).2 :=
  h.engine ((engine_flags ctx st.ctors.length st.decos.length fuel).2.2.2.2.2 ps c st ⟨h.valid, rfl, rfl⟩)

theorem HInv.invoke {st : St} (h : HInv st) (ctx : Ctx) (fn : Fn) (s : Nat) (info : Bool) :
    HInv (apiInvoke ctx fn st s info).1 := by
  unfold apiInvoke
  cases fn.nonfunc with
  | some _ => exact h
  | none =>
    simp only
    have hw := h.ghOnly (ghOnly_parseParams ctx.env st s fn)
    have hrb := parse_rollback_eq ctx.env st s fn
    cases hpp : parseParams ctx.env st s fn with
    | mk r w =>
      rw [hpp] at hw hrb
      simp only at hrb
      cases r with
      | error e => simp only; rw [hrb]; exact h
      | ok params =>
        simp only
        have hs := shallowCheck_state s params w
        cases hsc : shallowCheck s params w with
        | mk r2 w2 =>
          rw [hsc] at hs; simp only at hs; subst hs
          cases r2 with
          | error f => exact hw
          | ok u =>
            simp only
            -- the acyclicity check only touches the verified flag
            split
            · exact hw
            · rename_i w3 hchk
              have hw3 : HInv w3 := by
                split at hchk
                · injection hchk with e; rw [← e]; exact hw
                · split at hchk
                  · injection hchk with e; rw [← e]; exact hw.modVerified s true
                  · cases hchk
                  · cases hchk
              have hb := hw3.buildList ctx (engineFuel w3 params) params s
              rw [← wrapErr_state _ DErr.argsFailed] at hb
              cases hbl : EM.wrapErr (Dig.buildList ctx (engineFuel w3 params) params s) DErr.argsFailed w3 with
              | mk r4 w4 =>
                rw [hbl] at hb
                cases r4 with
                | error f => exact hb
                | ok args => exact hb.invokedBody ctx fn args

end Dig

namespace Dig

/-! ### Decorate -/

theorem foldl_aset_val (keys : List Key) (d : Nat) : ∀ (m : List (Key × Nat)) (k : Key) (x : Nat),
    aget (keys.foldl (fun m k => aset m k d) m) k = some x → x = d ∨ aget m k = some x := by
  induction keys with
  | nil => intro m k x h; exact Or.inr h
  | cons k0 ks ih =>
    intro m k x h
    simp only [List.foldl_cons] at h
    rcases ih _ k x h with h1 | h1
    · exact Or.inl h1
    · rw [aget_aset] at h1
      split at h1
      · injection h1 with e; exact Or.inl e.symm
      · exact Or.inr h1

theorem getD_append_new {α : Type} (l : List α) (c d : α) (j : Nat) (hd : c = d ∨ True) :
    (l ++ [c]).getD j d = if j = l.length then c else l.getD j d := by
  rw [getD_append_one]
  by_cases hj : j < l.length
  · have : j ≠ l.length := by omega
    simp [hj, this]
  · by_cases hje : j = l.length
    · simp [hje]
    · have : l.getD j d = d := by
        rw [List.getD_eq_getElem?_getD]
        have : l[j]? = none := by simp; omega
        simp [this]
      simp [hj, hje, this]

theorem scope_modScope_decorators (w1 : St) (s s' : Nat) (D : List (Key × Nat) → List (Key × Nat)) :
    ((w1.modScope s fun x => { x with decorators := D x.decorators }).scope s').decorators =
      if s = s' ∧ s' < w1.scopes.length then D (w1.scope s').decorators else (w1.scope s').decorators := by
  rw [scope_modScope]
  by_cases hc : s = s' ∧ s' < w1.scopes.length
  · rw [if_pos hc, if_pos hc]
  · rw [if_neg hc, if_neg hc]

theorem HInv.decorate {st : St} (h : HInv st) (ctx : Ctx) (fn : Fn) (i s : Nat) (cb info : Bool) :
    HInv (apiDecorate ctx fn st i s cb info).1 := by
  unfold apiDecorate
  cases fn.nonfunc with
  | some _ => exact h
  | none =>
    simp only
    have hw := h.ghOnly (ghOnly_parseParams ctx.env st s fn)
    have hrb := parse_rollback_eq ctx.env st s fn
    cases hpp : parseParams ctx.env st s fn with
    | mk r w =>
      rw [hpp] at hw hrb
      simp only at hrb
      cases r with
      | error e => simp only; rw [hrb]; exact h
      | ok params =>
        simp only
        cases newResultList ctx.env {} fn with
        | error e => simp only; rw [hrb]; exact h
        | ok results =>
          simp only
          cases resultKeys ctx.env (slotResults results) with
          | error e => simp only; rw [hrb]; exact h
          | ok keys =>
            simp only
            by_cases hcond : (hasDup keys || keys.any fun k => (aget (w.scope s).decorators k).isSome) = true
            · rw [if_pos hcond]; simp only; rw [hrb]; exact h
            · rw [if_neg hcond]
              simp only
              -- the new decorator node is `ready`; nothing else changes
              let node : DecoNode := { fn := fn, params := params, results := results, s := s, cb := if cb then some i else none }
              let w1 : St := { w with decos := w.decos ++ [node] }
              have hdeco : ∀ d, (w1.deco d).state = (w.deco d).state := by
                intro d
                show ((w.decos ++ [node]).getD d default).state = (w.decos.getD d default).state
                rw [getD_append_new _ _ _ _ (Or.inr trivial)]
                split
                · rename_i hd
                  have : w.decos.getD d default = default := by
                    rw [List.getD_eq_getElem?_getD]
                    have : w.decos[d]? = none := by simp; omega
                    simp [this]
                  rw [this]; rfl
                · rfl
              refine hw.transfer rfl (fun _ => ⟨rfl, rfl⟩) (fun d => hdeco d) (Nat.le_refl _)
                (by show w.decos.length ≤ (w.decos ++ [node]).length; simp) ?_
              constructor
              · intro s' k n hn
                have : (St.scope (w1.modScope s fun x => { x with decorators := keys.foldl (fun m k => aset m k w.decos.length) x.decorators }) s').providers
                    = (w.scope s').providers := by
                  rw [scope_modScope]; split <;> rfl
                rw [this] at hn
                exact hw.valid.1 s' k n hn
              · intro s' k d hd
                show d < (w.decos ++ [node]).length
                simp only [List.length_append, List.length_singleton]
                have hd2 : aget ((w1.modScope s fun x =>
                    { x with decorators := (fun m => keys.foldl (fun m k => aset m k w.decos.length) m) x.decorators }).scope s').decorators k = some d := hd
                rw [scope_modScope_decorators w1 s s' (fun m => keys.foldl (fun m k => aset m k w.decos.length) m)] at hd2
                by_cases hc : s = s' ∧ s' < w1.scopes.length
                · rw [if_pos hc] at hd2
                  rcases foldl_aset_val keys _ _ k d hd2 with h1 | h1
                  · omega
                  · have : d < w.decos.length := hw.valid.2 s' k d h1
                    omega
                · rw [if_neg hc] at hd2
                  have : d < w.decos.length := hw.valid.2 s' k d hd2
                  omega

end Dig

namespace Dig

/-! ### Provide -/

theorem newGraphNode_scopes (w : St) (s : Nat) (node : GNode) :
    ∀ j, ScopeButGh (w.scope j) ((w.newGraphNode s node).scope j) := by
  rw [newGraphNode_eq]
  generalize w.subscopes s = l
  induction l generalizing w with
  | nil => intro j; exact ScopeButGh.refl _
  | cons x xs ih =>
    intro j
    simp only [List.foldl_cons]
    refine ScopeButGh.trans ?_ (ih _ j)
    have : (ghStep node w x).scope j = if x = j ∧ j < w.scopes.length then { w.scope j with gh := (w.scope j).gh ++ [node] } else w.scope j := by
      unfold ghStep
      cases node with
      | ctor n => simp only; show ((w.modScope x _).scope j) = _; rw [scope_modScope]
      | pg i => simp only; show ((w.modScope x _).scope j) = _; rw [scope_modScope]
    rw [this]
    split
    · exact ⟨rfl, rfl, rfl, rfl, rfl, rfl, rfl, rfl, rfl, rfl⟩
    · exact ScopeButGh.refl _

/-- the freshly appended constructor node -/
structure WorkN (st w : St) : Prop where
  len : w.ctors.length = st.ctors.length + 1
  called : (w.ctor st.ctors.length).called = false
  onStack : (w.ctor st.ctors.length).onStack = false

theorem workN_ghStep {st w : St} (h : WorkN st w) (node : GNode) (sc : Nat) : WorkN st (ghStep node w sc) := by
  unfold ghStep
  cases node with
  | ctor n =>
    simp only
    refine ⟨by simp [St.modCtor, St.modScope]; exact h.len, ?_, ?_⟩
    · show ((St.modCtor (w.modScope sc _) n _).ctor st.ctors.length).called = false
      rw [ctor_modCtor]; split
      · exact h.called
      · exact h.called
    · show ((St.modCtor (w.modScope sc _) n _).ctor st.ctors.length).onStack = false
      rw [ctor_modCtor]; split
      · exact h.onStack
      · exact h.onStack
  | pg i => exact ⟨h.len, h.called, h.onStack⟩

theorem workN_newGraphNode {st w : St} (h : WorkN st w) (s : Nat) (node : GNode) : WorkN st (w.newGraphNode s node) := by
  rw [newGraphNode_eq]
  generalize w.subscopes s = l
  induction l generalizing w with
  | nil => exact h
  | cons x xs ih => simp only [List.foldl_cons]; exact ih (workN_ghStep h node x)

theorem workN_modScope {st w : St} (h : WorkN st w) (s : Nat) (f : ScopeSt → ScopeSt) : WorkN st (w.modScope s f) :=
  ⟨h.len, h.called, h.onStack⟩

theorem workN_verifyScopes {st : St} (cfg : Cfg) (l : List Nat) : ∀ w, WorkN st w → WorkN st (verifyScopes cfg l w).2 := by
  induction l with
  | nil => intro w h; exact h
  | cons sc rest ih =>
    intro w h
    simp only [verifyScopes]
    split
    · exact ih _ (workN_modScope h _ _)
    · split
      · exact ih _ (workN_modScope (workN_modScope h _ _) _ _)
      · exact workN_modScope h _ _

theorem getD_of_take {α : Type} (l : List α) (k m : Nat) (d : α) (hm : m < k) : (l.take k).getD m d = l.getD m d := by
  simp only [List.getD_eq_getElem?_getD, List.getElem?_take, hm, if_true]

/-- flags of every constructor index after a Provide attempt that appended exactly one node -/
theorem work_flags {st w : St} {target : Nat} (h : Work st w target) (hn : WorkN st w) :
    ∀ m, (w.ctor m).called = (st.ctor m).called ∧ (w.ctor m).onStack = (st.ctor m).onStack := by
  intro m
  by_cases h1 : m < st.ctors.length
  · have : w.ctor m = st.ctor m := by
      unfold St.ctor
      rw [← getD_of_take w.ctors st.ctors.length m default h1, h.ctorsPre]
    rw [this]; exact ⟨rfl, rfl⟩
  · have hst : st.ctor m = default := by
      unfold St.ctor; rw [List.getD_eq_getElem?_getD]
      have : st.ctors[m]? = none := by simp; omega
      simp [this]
    by_cases h2 : m = st.ctors.length
    · subst h2; rw [hn.called, hn.onStack, hst]; exact ⟨rfl, rfl⟩
    · have hw : w.ctor m = default := by
        unfold St.ctor; rw [List.getD_eq_getElem?_getD]
        have : w.ctors[m]? = none := by simp; have := hn.len; omega
        simp [this]
      rw [hw, hst]; exact ⟨rfl, rfl⟩

theorem foldl_aset_append_mem (keys : List Key) (n : Nat) : ∀ (m : List (Key × List Nat)) (k : Key) (x : Nat),
    x ∈ agetL (keys.foldl (fun m k => aset m k (agetL m k ++ [n])) m) k → x = n ∨ x ∈ agetL m k := by
  induction keys with
  | nil => intro m k x h; exact Or.inr h
  | cons k0 ks ih =>
    intro m k x h
    simp only [List.foldl_cons] at h
    rcases ih _ k x h with h1 | h1
    · exact Or.inl h1
    · unfold agetL at h1
      rw [aget_aset] at h1
      split at h1
      · simp only [Option.getD_some, List.mem_append, List.mem_singleton] at h1
        rcases h1 with h2 | h2
        · rename_i hk; subst hk; exact Or.inr h2
        · exact Or.inl h2
      · exact Or.inr h1

end Dig

namespace Dig

theorem HInv.provideWork {st w : St} {target : Nat} (h : HInv st) (hw : Work st w target) (hn : WorkN st w)
    (hp : ∀ j k x, x ∈ agetL (w.scope j).providers k → x = st.ctors.length ∨ x ∈ agetL (st.scope j).providers k) :
    HInv w := by
  refine h.transfer hw.hist (work_flags hw hn) (fun d => by simp [St.deco, hw.decos]) (by rw [hn.len]; omega)
    (by rw [hw.decos]; exact Nat.le_refl _) ?_
  constructor
  · intro s k x hx
    rw [hn.len]
    rcases hp s k x hx with h1 | h1
    · omega
    · have := h.valid.1 s k x h1; omega
  · intro s k d hd
    rw [(hw.scope s).2.2.1] at hd
    rw [hw.decos]
    exact h.valid.2 s k d hd

theorem HInv.provide {st : St} (h : HInv st) (ctx : Ctx) (fn : Fn) (i s : Nat) (o : ProvideOpts) :
    HInv (apiProvide ctx fn st i s o).1 := by
  unfold apiProvide
  cases fn.nonfunc with
  | some _ => exact h
  | none =>
    simp only
    cases validateOpts ctx.env o with
    | error e' => exact h
    | ok as =>
      simp only
      generalize (if o.export_ then St.root else s) = target
      have hw1 := work_parseParams (Work.refl st target) ctx.env fn
      have hg1 := ghOnly_parseParams ctx.env st target fn
      cases hpp : parseParams ctx.env st target fn with
      | mk r w1 =>
        rw [hpp] at hw1 hg1
        simp only at hw1 hg1
        cases r with
        | error e1 => exact h.eqButVerified (rollback_restores hw1)
        | ok params =>
          simp only
          cases newResultList ctx.env { name := o.name, group := o.group, as := as } fn with
          | error e2 => exact h.eqButVerified (rollback_restores hw1)
          | ok results =>
            simp only
            let node : CtorNode := { fn := fn, params := params, results := results, s := target, origS := s, cb := if o.cb then some i else none }
            have hlen1 : w1.ctors.length = st.ctors.length := by rw [hg1.1]
            have hw3 := work_newGraphNode (work_addCtor hw1 node) (.ctor w1.ctors.length)
              (by show st.ctors.length ≤ w1.ctors.length; exact hw1.ctorsLen)
            have hn2 : WorkN st { w1 with ctors := w1.ctors ++ [node] } := by
              refine ⟨by simp [hlen1], ?_, ?_⟩
              · show ((w1.ctors ++ [node]).getD st.ctors.length default).called = false
                rw [← hlen1, getD_append_one]; simp [node]
              · show ((w1.ctors ++ [node]).getD st.ctors.length default).onStack = false
                rw [← hlen1, getD_append_one]; simp [node]
            have hn3 := workN_newGraphNode hn2 target (.ctor w1.ctors.length)
            -- providers are still those of `st` at this point
            have hp3 : ∀ j, ((St.newGraphNode { w1 with ctors := w1.ctors ++ [node] } target (.ctor w1.ctors.length)).scope j).providers =
                (st.scope j).providers := by
              intro j
              rw [← (newGraphNode_scopes _ target (.ctor w1.ctors.length) j).2.2.1]
              show (w1.scope j).providers = _
              exact ((hg1.2.2.2.2.2.2.2 j).2.2.1).symm
            generalize (St.newGraphNode { w1 with ctors := w1.ctors ++ [node] } target (.ctor w1.ctors.length)) = w3 at hw3 hn3 hp3
            cases visitKeys (w3.scope target) (slotResults results) [] with
            | error e3 => exact h.eqButVerified (rollback_restores hw3)
            | ok keys =>
              cases keys with
              | nil => exact h.eqButVerified (rollback_restores hw3)
              | cons k0 ks =>
                simp only
                -- the state after the provider update
                have hsame : (w3.modScope target fun x =>
                    { x with providers := (k0 :: ks).foldl (fun m k => aset m k (agetL m k ++ [w1.ctors.length])) x.providers }) =
                    (w3.modScope target fun x =>
                    { x with providers := (k0 :: ks).foldl (fun m k => aset m k (agetL m k ++ [w1.ctors.length])) (w3.scope target).providers }) := by
                  unfold St.modScope
                  congr 1
                  apply List.ext_getElem?
                  intro j
                  simp only [List.getElem?_modify]
                  by_cases hj : target = j
                  · subst hj
                    cases hg : w3.scopes[target]? with
                    | none => rfl
                    | some x =>
                      have : w3.scope target = x := by
                        unfold St.scope; rw [List.getD_eq_getElem?_getD, hg]; rfl
                      simp [this]
                  · simp [hj]
                rw [hsame]
                have hw4 := work_modScope_providers hw3
                  ((k0 :: ks).foldl (fun m k => aset m k (agetL m k ++ [w1.ctors.length])) (w3.scope target).providers)
                have hn4 := workN_modScope hn3 target (fun x =>
                  { x with providers := (k0 :: ks).foldl (fun m k => aset m k (agetL m k ++ [w1.ctors.length])) (w3.scope target).providers })
                have hp4 : ∀ j k x, x ∈ agetL ((w3.modScope target fun x =>
                    { x with providers := (k0 :: ks).foldl (fun m k => aset m k (agetL m k ++ [w1.ctors.length])) (w3.scope target).providers }).scope j).providers k →
                    x = st.ctors.length ∨ x ∈ agetL (st.scope j).providers k := by
                  intro j k x hx
                  rw [scope_modScope] at hx
                  by_cases hc : target = j ∧ j < w3.scopes.length
                  · rw [if_pos hc] at hx
                    obtain ⟨rfl, _⟩ := hc
                    simp only at hx
                    rcases foldl_aset_append_mem _ _ _ k x hx with h1 | h1
                    · left; rw [h1, hlen1]
                    · right; rw [hp3 target] at h1; exact h1
                  · rw [if_neg hc] at hx
                    right; rw [hp3 j] at hx; exact hx
                generalize (w3.modScope target fun x =>
                    { x with providers := (k0 :: ks).foldl (fun m k => aset m k (agetL m k ++ [w1.ctors.length])) (w3.scope target).providers }) = w4 at hw4 hn4 hp4
                have hw5 := work_verifyScopes (target := target) ctx.cfg (st.subscopes target) w4 hw4
                have hn5 := workN_verifyScopes ctx.cfg (st.subscopes target) w4 hn4
                have hp5 : ∀ j, ((verifyScopes ctx.cfg (st.subscopes target) w4).2.scope j).providers = (w4.scope j).providers := by
                  intro j
                  -- both are Work-related to st; outside the target providers equal st's, and verifyScopes never writes providers
                  have key : ∀ (l : List Nat) (w : St), ((verifyScopes ctx.cfg l w).2.scope j).providers = (w.scope j).providers := by
                    intro l
                    induction l with
                    | nil => intro w; rfl
                    | cons sc rest ih =>
                      intro w
                      simp only [verifyScopes]
                      have e1 : ∀ b, ((w.modScope sc fun x => { x with verified := b }).scope j).providers = (w.scope j).providers := by
                        intro b; rw [scope_modScope]; split <;> rfl
                      split
                      · rw [ih, e1]
                      · split
                        · rw [ih]
                          have : (((w.modScope sc fun x => { x with verified := false }).modScope sc fun x => { x with verified := true }).scope j).providers =
                              ((w.modScope sc fun x => { x with verified := false }).scope j).providers := by
                            rw [scope_modScope]; split <;> rfl
                          rw [this, e1]
                        · rw [e1]
                  exact key _ _
                cases hvs : verifyScopes ctx.cfg (st.subscopes target) w4 with
                | mk r5 w5 =>
                  rw [hvs] at hw5 hn5 hp5
                  simp only at hw5 hn5 hp5
                  have hinv5 : HInv w5 := h.provideWork hw5 hn5 (fun j k x hx => hp4 j k x (by rw [← hp5 j]; exact hx))
                  cases r5 with
                  | ok u =>
                    simp only
                    refine hinv5.transfer rfl (fun _ => ⟨rfl, rfl⟩) (fun _ => rfl) (Nat.le_refl _) (Nat.le_refl _) ?_
                    refine hinv5.valid.of_scopes (Nat.le_refl _) (Nat.le_refl _) ?_
                    intro j; rw [scope_modScope]; split <;> exact ⟨rfl, rfl⟩
                  | error ec =>
                    obtain ⟨sc, cr⟩ := ec
                    cases cr with
                    | cycle p => exact h.eqButVerified (rollback_restores hw5)
                    | acyclic => exact hinv5
                    | outOfRange => exact hinv5
                    | fuel => exact hinv5

end Dig

namespace Dig

theorem HInv.step {st : St} (h : HInv st) (ctx : Ctx) (fns : List Fn) (i : Nat) (op : Op) :
    HInv (step ctx fns st i op).1 := by
  have h0 := h.resetLog
  cases op with
  | scope parent =>
    simp only [Dig.step]
    split
    · exact h0.scope parent
    · exact h0
  | provide s f o =>
    simp only [Dig.step]
    split
    · split
      · exact h0.provide ctx _ i s o
      · exact h0
    · exact h0
  | decorate s f cb info =>
    simp only [Dig.step]
    split
    · split
      · exact h0.decorate ctx _ i s cb info
      · exact h0
    · exact h0
  | invoke s f info =>
    simp only [Dig.step]
    split
    · split
      · exact h0.invoke ctx _ s info
      · exact h0
    · exact h0
  | visualize s e => cases e <;> (simp only [Dig.step]; split <;> exact h0)
  | string s => simp only [Dig.step]; split <;> exact h0

theorem HInv.runOps (ctx : Ctx) (fns : List Fn) : ∀ (ops : List Op) (i : Nat) (st : St) (acc : List OpRes),
    HInv st → HInv (runOps ctx fns ops i st acc).1 := by
  intro ops
  induction ops with
  | nil => intro i st acc h; exact h
  | cons op rest ih =>
    intro i st acc h
    simp only [Dig.runOps]
    have := h.step ctx fns i op
    cases hs : Dig.step ctx fns st i op with
    | mk st' r =>
      rw [hs] at this
      exact ih _ _ _ this

end Dig
